# Offline Go environment shared by setup and checks.
# /repo needs go >= 1.25.0; that toolchain is in the module cache. Put it first
# on PATH and pin it, so nothing depends on toolchain auto-switching.
export GOFLAGS=-mod=mod GOPROXY=off GOWORK=off
unset GOSUMDB
_tc="$(go env GOMODCACHE 2>/dev/null)/golang.org/toolchain@v0.0.1-go1.25.0.linux-amd64"
if [ -x "$_tc/bin/go" ]; then
  PATH="$_tc/bin:$PATH"; export PATH
  export GOTOOLCHAIN=local
else
  unset GOTOOLCHAIN
fi
