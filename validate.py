#!/usr/bin/env python3
# validate MANIFEST.json and evidence/*.json against the harness schemas (uses the tooling venv)
import json,sys,glob
import jsonschema
m=json.load(open('/verif/MANIFEST.json'))
try:
    jsonschema.validate(m,json.load(open('/root/.vp/MANIFEST.schema.json')))
except Exception as e:
    print('MANIFEST INVALID:',e.message, list(e.absolute_path)); sys.exit(1)
es=json.load(open('/root/.vp/EVIDENCE.schema.json'))
bad=0
for f in sorted(glob.glob('/verif/evidence/*.json')):
    try:
        jsonschema.validate(json.load(open(f)),es)
    except Exception as e:
        bad+=1; print('INVALID',f,str(e)[:200])
ids={c['property_id'] for c in m['checks']}|{c['property_id'] for c in m.get('not_applicable',[])}
print('manifest ok: checks=%d na=%d total=%d evidence_bad=%d'%(len(m['checks']),len(m.get('not_applicable',[])),len(ids),bad))
