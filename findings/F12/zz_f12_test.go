package hpack

import (
	"bytes"
	"testing"
)

// Two table size changes between header blocks (shrink, then grow) make the encoder
// emit two consecutive dynamic table size updates; the decoder must accept them.
func TestVerifF12TwoSizeUpdates(t *testing.T) {
	var buf bytes.Buffer
	e := NewEncoder(&buf)
	d := NewDecoder(4096, nil)
	var got []HeaderField
	d.SetEmitFunc(func(f HeaderField) { got = append(got, f) })
	block := func(fs ...HeaderField) {
		t.Helper()
		buf.Reset()
		got = nil
		for _, f := range fs {
			if err := e.WriteField(f); err != nil {
				t.Fatal(err)
			}
		}
		if _, err := d.Write(buf.Bytes()); err != nil {
			t.Fatalf("decoder rejected what the encoder wrote (% x): %v", buf.Bytes(), err)
		}
		if err := d.Close(); err != nil {
			t.Fatal(err)
		}
		if len(got) != len(fs) {
			t.Fatalf("got %v want %v", got, fs)
		}
		for i := range fs {
			if got[i] != fs[i] {
				t.Fatalf("field %d: got %v want %v", i, got[i], fs[i])
			}
		}
	}
	block(HeaderField{Name: "a", Value: "1"}, HeaderField{Name: "b", Value: "2"}, HeaderField{Name: "c", Value: "3"})
	e.SetMaxDynamicTableSize(40) // keeps one 34-byte entry
	e.SetMaxDynamicTableSize(4096)
	block(HeaderField{Name: "d", Value: "4"})
}
