package html

import (
	"bytes"
	"strings"
	"testing"
)

func TestVerifF14RenderForeignVoidName(t *testing.T) {
	for _, in := range []string{"<svg><source>x", "<math><br2><img>y</img>", "<svg><input>z</input></svg>", "<svg><area><b>q"} {
		n, err := Parse(strings.NewReader(in))
		if err != nil {
			t.Fatalf("Parse(%q): %v", in, err)
		}
		var buf bytes.Buffer
		if err := Render(&buf, n); err != nil {
			t.Errorf("Render(Parse(%q)): %v", in, err)
		}
	}
}
