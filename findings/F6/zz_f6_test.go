package httpsfv

import "testing"

// F6-F9 (C56): RFC 9651 conformance defects repaired by four fix: commits.
func TestVerifF6toF9(t *testing.T) {
	nop2 := func(a, b string) {}
	nop3 := func(a, b, c string) {}
	// F6: dictionary members must be separated by a comma
	for _, s := range []string{"a=1 b=2", "a b", "u=1x"} {
		if ParseDictionary(s, nop3) {
			t.Errorf("F6: ParseDictionary(%q) accepted", s)
		}
	}
	if !ParseDictionary("a=1, b=2", nop3) {
		t.Errorf("F6: ParseDictionary(a=1, b=2) rejected")
	}
	// F7: an inner list must be closed
	for _, s := range []string{"(", "a, ("} {
		if ParseList(s, nop2) {
			t.Errorf("F7: ParseList(%q) accepted", s)
		}
	}
	if ParseDictionary("a=(", nop3) {
		t.Errorf("F7: ParseDictionary(a=() accepted")
	}
	// F8: only SP inside inner lists and after ';'
	for _, s := range []string{"(\ta)", "a;\tb"} {
		if ParseList(s, nop2) {
			t.Errorf("F8: ParseList(%q) accepted", s)
		}
	}
	if !ParseList("( a  b );  c", nop2) {
		t.Errorf("F8: ParseList with SP rejected")
	}
	// F9: a validly encoded U+FFFD is a valid display string
	if v, ok := ParseDisplayString("%\"%ef%bf%bd\""); !ok || v != "�" {
		t.Errorf("F9: ParseDisplayString(U+FFFD) = %q, %v", v, ok)
	}
	if _, ok := ParseDisplayString("%\"%c3%28\""); ok {
		t.Errorf("F9: invalid UTF-8 accepted")
	}
}
