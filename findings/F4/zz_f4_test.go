package http2_test

import (
	"net/http"
	"testing"
	"testing/synctest"

	. "golang.org/x/net/http2"
)

// F4 (C10): bytes the client reads from the pipe but discards because the
// server sent more than the declared Content-Length must still be returned to
// the connection-level window.
func TestVerifF4OverlongBodyRefundsConnWindow(t *testing.T) {
	synctestTest(t, func(t testing.TB) {
		tc := newTestClientConn(t)
		tc.greet()
		req, _ := http.NewRequest("GET", "https://dummy.tld/", nil)
		rt := tc.roundTrip(req)
		tc.wantFrameType(FrameHeaders)
		tc.writeHeaders(HeadersFrameParam{
			StreamID:   rt.streamID(),
			EndHeaders: true,
			BlockFragment: tc.makeHeaderBlockFragment(
				":status", "200",
				"content-length", "5",
			),
		})
		rt.wantStatus(200)
		tc.writeData(rt.streamID(), false, make([]byte, 16384))
		synctest.Wait()
		buf := make([]byte, 32768)
		rt.response().Body.Read(buf)
		rt.response().Body.Close()
		synctest.Wait()
		// Expect a connection-level WINDOW_UPDATE returning the 16384 bytes.
		total := uint32(0)
		for {
			if !tc.hasFrame() {
				break
			}
			f := tc.readFrame()
			if f == nil {
				break
			}
			if wu, ok := f.(*WindowUpdateFrame); ok && wu.StreamID == 0 {
				total += wu.Increment
			}
		}
		if total != 16384 {
			t.Fatalf("connection-level WINDOW_UPDATE total = %d, want 16384", total)
		}
	})
}
