package html

import (
	"strings"
	"testing"
)

func TestVerifF13NilContextFragment(t *testing.T) {
	for _, in := range []string{"<input>", "<select>", "<p>x", "<input type=hidden>", "<table><input type=hidden>"} {
		func() {
			defer func() {
				if e := recover(); e != nil {
					t.Errorf("ParseFragment(%q, nil) panicked: %v", in, e)
				}
			}()
			ns, err := ParseFragment(strings.NewReader(in), nil)
			if err != nil {
				t.Errorf("ParseFragment(%q, nil): error %v", in, err)
			}
			_ = ns
		}()
	}
}
