package webdav

import (
	"context"
	"net/http"
	"net/http/httptest"
	"os"
	"testing"
)

// F2 (C46): COPY/MOVE whose Destination is another spelling of the source must not destroy the source.
func TestVerifF2CopyToEquivalentDestination(t *testing.T) {
	for _, method := range []string{"COPY", "MOVE"} {
		for _, dst := range []string{"/a/", "/a/.", "/./a", "/b/../a"} {
			fs := NewMemFS()
			ctx := context.Background()
			if err := fs.Mkdir(ctx, "/a", 0777); err != nil {
				t.Fatal(err)
			}
			f, err := fs.OpenFile(ctx, "/a/x", os.O_RDWR|os.O_CREATE, 0666)
			if err != nil {
				t.Fatal(err)
			}
			f.Write([]byte("payload"))
			f.Close()
			h := &Handler{FileSystem: fs, LockSystem: NewMemLS()}
			req := httptest.NewRequest(method, "http://example.com/a", nil)
			req.Header.Set("Destination", "http://example.com"+dst)
			rec := httptest.NewRecorder()
			h.ServeHTTP(rec, req)
			if _, err := fs.Stat(ctx, "/a/x"); err != nil {
				t.Errorf("%s /a Destination %s: status %d, source destroyed: %v", method, dst, rec.Code, err)
			}
			if rec.Code != http.StatusForbidden {
				t.Logf("%s /a Destination %s: status %d", method, dst, rec.Code)
			}
		}
	}
}
