package http3

import "testing"

// F5 (C33): a literal whose declared length is huge but within the (peer-declared)
// frame length must be rejected, not panic in makeslice.
func TestVerifF5HugeStringLengthDoesNotPanic(t *testing.T) {
	synctestSubtest(t, "huge", func(t *testing.T) {
		st1, st2 := newStreamPair(t)
		// prefix 00 00; literal field line with literal name, 3-bit prefix all ones, then varint 2^55
		enc := unhex("0000" + "27" + "80808080808080" + "40")
		st1.Write(enc)
		st1.Flush()
		st2.lim = 1 << 60 // frame length announced by the peer
		var dec qpackDecoder
		err := dec.decode(st2, func(itype indexType, name, value string) error { return nil })
		if err == nil {
			t.Fatalf("decode succeeded; want error")
		}
	})
}
