package http3

import (
	"io"
	"net/http"
	"testing"
	"testing/synctest"
)

// TestBaselineTrailerPanic reproduces a panic in the UNCHANGED tree.
//
// A client sends a well-formed request (HEADERS + DATA) followed by a
// trailer HEADERS frame of length 3 with the payload 00 00 ff:
//
//	00  Required Insert Count = 0
//	00  Delta Base = 0
//	ff  Indexed Field Line, static table, 6-bit index prefix all ones,
//	    so the index continues in the following bytes
//
// The QPACK decoder calls binary.ReadUvarint, which calls stream.ReadByte for
// the continuation byte. The frame limit is already 0, so recordBytesRead
// drives it to -1, sets st.stream = nil and returns an error. The handler sees
// a read error on the request body (fine), but when it returns, the server
// writes the response and closes the request body through the same *stream,
// whose quic stream is now nil: nil pointer dereference in the server
// goroutine, which takes down the whole process.
//
// Wanted behaviour: the request stream (or the connection) is terminated with
// an error; nothing panics.
func TestVerifF11TrailerOverreadPanic(t *testing.T) {
	synctest.Test(t, func(t *testing.T) {
		handlerDone := make(chan error, 1)
		ts := newTestServer(t, http.HandlerFunc(func(w http.ResponseWriter, r *http.Request) {
			_, err := io.ReadAll(r.Body)
			handlerDone <- err
			// Returning from the handler makes the server flush the
			// response headers and close the request body.
		}))
		tc := ts.connect()
		tc.greet()

		reqStream := tc.newStream(streamTypeRequest)
		reqStream.writeHeaders(requestHeader(nil))
		reqStream.writeData([]byte("x"))
		// Trailers: HEADERS frame, length 3, payload 00 00 ff.
		reqStream.writeVarint(int64(frameTypeHeaders))
		reqStream.writeVarint(3)
		reqStream.Write([]byte{0x00, 0x00, 0xff})
		// One more byte on the stream (outside the frame) so that the
		// over-read hits the frame limit rather than the end of the stream.
		reqStream.Write([]byte{0x00})
		if err := reqStream.Flush(); err != nil {
			t.Fatal(err)
		}
		synctest.Wait()

		select {
		case err := <-handlerDone:
			if err == nil {
				t.Errorf("handler read the body with malformed trailers without error")
			}
		default:
			t.Fatalf("handler did not finish reading the request body")
		}
		// Reaching this point without a panic in the server goroutine is success.
	})
}
