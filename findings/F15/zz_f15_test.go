package html

import (
	"strings"
	"testing"

	"golang.org/x/net/html/atom"
)

// F15: "</html>" in a fragment with an SVG or MathML context element popped the root html
// element; the next token then dereferenced the nil current node and ParseFragment returned
// the recovered runtime error instead of nodes.
func TestVerifF15ForeignFragmentRootEndTag(t *testing.T) {
	for _, c := range []*Node{
		{Type: ElementNode, Data: "svg", DataAtom: atom.Svg, Namespace: "svg"},
		{Type: ElementNode, Data: "math", DataAtom: atom.Math, Namespace: "math"},
	} {
		for _, in := range []string{"</html>x", "</html><g>y</g>", "</HTML>z"} {
			ns, err := ParseFragment(strings.NewReader(in), c)
			if err != nil {
				t.Errorf("ParseFragment(%q, <%s>): %v", in, c.Data, err)
			}
			if len(ns) == 0 {
				t.Errorf("ParseFragment(%q, <%s>): no nodes", in, c.Data)
			}
		}
	}
}
