package http2_test

import (
	"io"
	"net/http"
	"testing"

	. "golang.org/x/net/http2"
)

func TestProbeDoubleRefund(t *testing.T) { synctestTest(t, testProbeDoubleRefund) }
func testProbeDoubleRefund(t testing.TB) {
	const windowSize = 65535 * 2
	st := newServerTester(t, nil, func(s *Server) {
		s.MaxUploadBufferPerConnection = windowSize
		s.MaxUploadBufferPerStream = windowSize
	})
	defer st.Close()
	st.greet()
	st.writeHeaders(HeadersFrameParam{StreamID: 1, BlockFragment: st.encodeHeader(":method", "POST"), EndStream: false, EndHeaders: true})
	call := st.nextHandlerCall()
	data := make([]byte, 8192)
	st.writeData(1, false, data)
	st.writeRSTStream(1, ErrCodeCancel)
	st.wantWindowUpdate(0, 8192) // closeStream returns the buffered, unread bytes
	var n int64
	call.do(func(w http.ResponseWriter, r *http.Request) { n, _ = io.Copy(io.Discard, r.Body) })
	t.Logf("handler read %d bytes after the reset", n)
	st.sync()
	fr, err := st.fr.ReadFrame()
	t.Logf("next frame after handler read: %v err=%v", fr, err)
	if wu, ok := fr.(*WindowUpdateFrame); ok && wu.StreamID == 0 {
		t.Errorf("DOUBLE REFUND: second conn-level WINDOW_UPDATE of %d for the same 8192 bytes", wu.Increment)
	}
}
