package http2

import "testing"

// F1 (C12): closing a stream that still has queued frames must not make Pop
// return empty requests from the closed node.
func TestVerifF1ClosedStreamQueueNotReused(t *testing.T) {
	ws := NewPriorityWriteScheduler(nil)
	ws.OpenStream(1, OpenStreamOptions{})
	ws.Push(makeWriteHeadersRequest(1))
	ws.Push(makeWriteHeadersRequest(1))
	ws.CloseStream(1)
	for i := 0; i < 4; i++ {
		wr, ok := ws.Pop()
		if ok && wr.write == nil {
			t.Fatalf("Pop #%d returned ok=true with an empty FrameWriteRequest", i)
		}
	}
}
