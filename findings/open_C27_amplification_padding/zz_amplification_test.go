package quic

// Demonstration for the C27 finding (F10): Conn.maybeSend pads a datagram that
// carries an ack-eliciting Initial packet to 1200 bytes after the packet
// writer was limited to loss.maxSendSize(), so a server whose
// anti-amplification budget is in [128,1200) sends 1200 bytes.
//
// Run (in a scratch copy of golang/net with this file placed in quic/):
//     go test -run TestVerifOpenC27AmplificationPadding -count=1 ./quic

import (
	"crypto/tls"
	"testing"
	"testing/synctest"
	"time"
)

func TestVerifOpenC27AmplificationPadding(t *testing.T) {
	synctest.Test(t, testVerifF10AmplificationPadding)
}

func testVerifF10AmplificationPadding(t *testing.T) {
	tc := newTestConn(t, serverSide)
	// One client Initial in a 1300-byte datagram (any size that is not a
	// multiple of 1200 works), then the client stays silent.
	const received = 1300
	tc.write(&testDatagram{
		packets: []*testPacket{{
			ptype:     packetTypeInitial,
			num:       0,
			frames:    []debugFrame{debugFrameCrypto{data: tc.cryptoDataIn[tls.QUICEncryptionLevelInitial]}},
			version:   quicVersion1,
			dstConnID: tc.conn.connIDState.local[0].cid,
			srcConnID: tc.peerConnID,
		}},
		addr:       tc.conn.peerAddr,
		paddedSize: received,
	})
	sent := 0
	for i := 0; i < 40; i++ {
		for {
			buf := tc.endpoint.read()
			if buf == nil {
				break
			}
			sent += len(buf)
			t.Logf("server sent %d bytes (total %d, allowed %d)", len(buf), sent, 3*received)
		}
		if sent > 3*received {
			break
		}
		// Let PTO timers fire.
		time.Sleep(2 * time.Second)
		synctest.Wait()
	}
	if sent > 3*received {
		t.Fatalf("server sent %d bytes to an unvalidated address after receiving %d (limit %d)", sent, received, 3*received)
	}
}
