#!/bin/sh
# findings/run_demo.sh <repo-dir> : run the five demonstrations against a tree (copied in, run, removed).
d="${1:?repo dir}"; here="$(cd "$(dirname "$0")" && pwd)"
. "$here/../env.sh"
cp "$here/F6/zz_f6_test.go" "$d/internal/httpsfv/"; cp "$here/F10/zz_f10_test.go" "$d/http2/"; cp "$here/F1/zz_f1_test.go" "$here/F4/zz_f4_test.go" "$d/http2/"; cp "$here/F2/zz_f2_test.go" "$d/webdav/"; cp "$here/F3/zz_f3_test.go" "$d/idna/"; cp "$here/F5/zz_f5_test.go" "$here/F11/zz_f11_test.go" "$d/internal/http3/"; cp "$here/F12/zz_f12_test.go" "$here/F16/zz_f16_test.go" "$d/http2/hpack/"; cp "$here/F13/zz_f13_test.go" "$here/F14/zz_f14_test.go" "$here/F15/zz_f15_test.go" "$d/html/"
(cd "$d" && go test -count=1 -run TestVerifF ./http2 ./http2/hpack ./html ./webdav ./idna ./internal/http3 ./internal/httpsfv 2>&1 | grep -v '^\s*$' | grep -E '^(---|ok|FAIL|panic|\s+zz_|.*zz_f)' | head -40)
rm -f "$d/internal/httpsfv/zz_f6_test.go" "$d"/http2/zz_f[14]_test.go "$d/http2/zz_f10_test.go" "$d/webdav/zz_f2_test.go" "$d/idna/zz_f3_test.go" "$d/internal/http3/zz_f5_test.go" "$d/internal/http3/zz_f11_test.go" "$d/http2/hpack/zz_f12_test.go" "$d/http2/hpack/zz_f16_test.go" "$d/html/zz_f13_test.go" "$d/html/zz_f14_test.go" "$d/html/zz_f15_test.go"
