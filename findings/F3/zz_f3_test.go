package idna

import "testing"

// F3 (C50): an xn-- label whose payload decodes to pure ASCII must be rejected by every profile.
func TestVerifF3ASCIIOnlyALabelRejected(t *testing.T) {
	for _, p := range []*Profile{Lookup, Registration, Punycode, Display} {
		if s, err := p.ToASCII("xn--abc-.example"); err == nil {
			t.Errorf("%v: ToASCII(xn--abc-.example) = %q, nil; want an error", p, s)
		}
	}
}
