package hpack

import "testing"

// A literal field with a new name whose two length prefixes are padded to the 10 bytes readVarInt
// accepts decodes in one Write; the same block split one byte before its end must decode too.
func TestVerifF16(t *testing.T) {
	const L = 200
	pad := func(n int) []byte { // 7-bit prefix varint of n (>= 127) padded to 10 bytes
		b := []byte{0x7f, byte(n-127) | 0x80}
		for i := 0; i < 7; i++ {
			b = append(b, 0x80)
		}
		return append(b, 0x00)
	}
	block := []byte{0x40}
	block = append(block, pad(L)...)
	for i := 0; i < L; i++ {
		block = append(block, 'n')
	}
	block = append(block, pad(L)...)
	for i := 0; i < L; i++ {
		block = append(block, 'v')
	}
	run := func(chunks ...[]byte) (int, error) {
		n := 0
		d := NewDecoder(4096, func(HeaderField) { n++ })
		d.SetMaxStringLength(L)
		for _, c := range chunks {
			if _, err := d.Write(c); err != nil {
				return n, err
			}
		}
		return n, d.Close()
	}
	n1, err1 := run(block)
	if err1 != nil || n1 != 1 {
		t.Fatalf("single Write: %d fields, err %v", n1, err1)
	}
	for cut := len(block) - 6; cut < len(block); cut++ {
		n2, err2 := run(block[:cut], block[cut:])
		if err2 != err1 || n2 != n1 {
			t.Errorf("split at %d of %d: %d fields, err %v; single Write: %d fields, err %v", cut, len(block), n2, err2, n1, err1)
		}
	}
}
