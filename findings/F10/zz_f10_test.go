package http2_test

import (
	"math"
	"testing"
	"testing/synctest"

	. "golang.org/x/net/http2"
)

// F10 (C15): every received SETTINGS frame is acknowledged, also when several arrive while a write is in progress.
func TestVerifF10SettingsAckCount(t *testing.T) { synctestTest(t, testVerifF10SettingsAckCount) }
func testVerifF10SettingsAckCount(t testing.TB) {
	st := newServerTester(t, nil)
	st.greet()
	cc := st.cc.(*synctestNetConn)
	cc.SetReadBufferSize(0) // all server writes block
	cc.autoWait = false
	// A PING makes the server buffer an ack and start an asynchronous flush, which blocks.
	st.fr.WritePing(false, [8]byte{1})
	synctest.Wait()
	// Two SETTINGS frames arrive while the write is in progress.
	st.fr.WriteSettings(Setting{ID: SettingInitialWindowSize, Val: 70000})
	st.fr.WriteSettings(Setting{ID: SettingInitialWindowSize, Val: 80000})
	synctest.Wait()
	cc.SetReadBufferSize(math.MaxInt)
	synctest.Wait()
	acks := 0
	for i := 0; i < 10; i++ {
		f := st.readFrame()
		if f == nil {
			break
		}
		if sf, ok := f.(*SettingsFrame); ok && sf.IsAck() {
			acks++
		}
	}
	if acks != 2 {
		t.Fatalf("client sent 2 SETTINGS frames, server acknowledged %d", acks)
	}
}
