// vsa is the static checker: vsa -p C08 [-tier quick|thorough]
package main

import (
	"flag"
	"fmt"
	"os"
	"sort"
	"strconv"
	"strings"
	"time"

	"verif/sa/core"
	_ "verif/sa/props"
)

func main() {
	start := time.Now()
	prop := flag.String("p", "", "property id (or 'all')")
	tier := flag.String("tier", "quick", "quick|thorough")
	repo := flag.String("repo", "/repo", "repository root")
	evdir := flag.String("evidence", "", "evidence file (default /verif/evidence/<id>.json; 'none' to skip)")
	findings := flag.String("findings", "/verif/known_findings.txt", "known findings file")
	facts := flag.String("facts", "", "debug: dump branch facts for the named function")
	selftest := flag.String("selftest", "/verif/selftest", "directory of self-test patches (thorough tier)")
	dumpFuncs := flag.Bool("dump-funcs", false, "print the names of all source functions (for core/baseline_funcs.txt)")
	list := flag.Bool("list", false, "list registered properties")
	inventory := flag.String("inventory", "", "debug: comma-separated entry points; print the reachable panic-site inventory")
	stop := flag.String("stop", "", "debug: comma-separated functions not to descend into (with -inventory)")
	writers := flag.String("writers", "", "debug: list write sites of field pkg.T.f")
	callers := flag.String("callers", "", "debug: list references to the named function")
	manifest := flag.String("manifest", "", "print MANIFEST.json for the given properties.jsonl")
	grep := flag.String("fn", "", "debug: list functions whose name contains this")
	nilscan := flag.Bool("nilscan", false, "exploration: fields assigned nil, used, and never compared with nil")
	flag.Parse()
	if *manifest != "" {
		if err := core.WriteManifest(*manifest); err != nil {
			fmt.Fprintln(os.Stderr, err)
			os.Exit(2)
		}
		return
	}
	if *list {
		for _, id := range core.IDs() {
			fmt.Println(id)
		}
		return
	}
	if *dumpFuncs {
		names, ptypes, results, err := core.ScanDeclsFull(*repo)
		if err != nil {
			fmt.Fprintln(os.Stderr, err)
			os.Exit(2)
		}
		var ns []string
		for n := range names {
			ns = append(ns, n)
		}
		sort.Strings(ns)
		for _, n := range ns {
			fmt.Println(n + "\t" + strings.Join(names[n], ",") + "\t" + strings.Join(ptypes[n], ";") + "\t" + results[n])
		}
		return
	}
	seed := 0
	if s := os.Getenv("VERIF_SEED"); s != "" {
		seed, _ = strconv.Atoi(s)
	}
	if *tier == "thorough" && *prop != "" && *prop != "all" {
		pr := core.Lookup(*prop)
		if pr == nil {
			fmt.Fprintf(os.Stderr, "unknown property %q\n", *prop)
			os.Exit(2)
		}
		ev := *evdir
		if ev == "" {
			ev = "/verif/evidence/" + *prop + ".json"
		}
		if ev == "none" {
			ev = ""
		}
		os.Exit(core.Thorough(*repo, pr, seed, ev, *findings, *selftest, start))
	}
	p, err := core.Load(*repo)
	if err != nil {
		fmt.Fprintln(os.Stderr, "load failed:", err)
		if *prop != "" {
			fmt.Printf("VIOLATION property=%s replay=load-failure\n", *prop)
		}
		os.Exit(1)
	}
	if len(p.Normalized) > 0 {
		fmt.Printf("normalised: inlined new unexported helper(s) before analysis: %s\n", strings.Join(p.Normalized, ", "))
	}
	if *nilscan {
		fmt.Print(core.NilScan(p))
		fmt.Print(core.NilScan2(p))
		return
	}
	if *grep != "" {
		for _, f := range p.All {
			if strings.Contains(core.FnName(f), *grep) {
				fmt.Println(core.FnName(f))
			}
		}
		return
	}
	if *inventory != "" {
		var st []string
		if *stop != "" {
			st = strings.Split(*stop, ",")
		}
		fmt.Print(core.DumpInventory(p, strings.Split(*inventory, ","), st))
		return
	}
	if *writers != "" {
		ws, err := p.FieldWriters(*writers)
		if err != nil {
			fmt.Fprintln(os.Stderr, err)
			os.Exit(2)
		}
		for _, w := range ws {
			fmt.Printf("%s\t%s\t%s\t%s\n", p.Pos(core.InstrPos(w.In)), w.Kind, w.Fn, core.DescribeInstr(w.In))
		}
		return
	}
	if *callers != "" {
		fn := p.Fn(*callers)
		if fn == nil {
			fmt.Fprintln(os.Stderr, "no such function")
			os.Exit(2)
		}
		for _, r := range p.FuncRefs(fn) {
			fmt.Printf("%s\t%s\t%s\n", p.Pos(core.InstrPos(r.In)), r.Kind, r.Fn)
		}
		return
	}
	if *facts != "" {
		fn := p.Fn(*facts)
		if fn == nil {
			fmt.Fprintln(os.Stderr, "no such function")
			os.Exit(2)
		}
		fmt.Print(core.DumpFacts(p, fn))
		return
	}
	ids := []string{*prop}
	if *prop == "all" {
		ids = core.IDs()
	}
	rc := 0
	for _, id := range ids {
		pr := core.Lookup(id)
		if pr == nil {
			fmt.Fprintf(os.Stderr, "unknown property %q\n", id)
			os.Exit(2)
		}
		ev := *evdir
		if ev == "" {
			ev = "/verif/evidence/" + id + ".json"
		}
		if ev == "none" {
			ev = ""
		}
		t0 := start
		if len(ids) > 1 {
			t0 = time.Now()
		}
		if r := core.RunProperty(p, pr, *tier, seed, ev, *findings, t0, nil); r > rc {
			rc = r
		}
	}
	os.Exit(rc)
}
