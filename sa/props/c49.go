package props

import (
	"fmt"
	"go/token"
	"go/types"
	"sort"
	"strings"

	"golang.org/x/tools/go/ssa"

	. "verif/sa/core"
)

func init() {
	Register(&Property{
		ID:    "C49",
		Floor: 145,
		Clauses: "bpf VM structure: VM.Run's type switch has a case for every Instruction implementer except NegateA and RawInstruction; aluOpCommon/jumpIfCommon switch over every ALUOp/JumpTest constant and each case applies the matching Go operator to (regA, value) in that order; " +
			"Run passes the accumulator, index register, scratch array and packet to each helper in the right positions and routes each helper result to the right register; out-of-bounds/zero-divisor results (ok=false) end the loop with verdict 0; jumps advance the index by Skip / the jumpIf result; " +
			"NewVM rejects per element: jump skips reaching past the end (Jump, both arms of JumpIf/JumpIfX), constant Div/Mod by zero, extensions other than ExtLen; rejects empty programs and programs not ending in RetA/RetConstant; returns Assemble's error and never a constant nil error; " +
			"aluOpX returns (0,false) before dividing when X==0 for Div/Mod; loads test inBounds (offset+size <= len) before indexing, read big-endian, use the instruction's offset/size; scratch load/store select the register by Dst/Src; " +
			"reviewed inventory of every unproven index, division and explicit panic reachable from VM.Run, each linked to the guard that excludes it.",
		NotCovered: "agreement with a reference interpreter on concrete programs/packets (runtime); 32-bit wrap of offset+X (int is 64-bit in the analysed build); termination (follows from forward-only jumps, not proved); NegateA, which Run does not implement.",
		Run:        c49,
	})
}

// m1Leaf describes a phi leaf: "callee", "callee#i", "const" or a term.
func m1Leaf(v ssa.Value) string {
	for {
		if cv, ok := v.(*ssa.Convert); ok {
			v = cv.X
			continue
		}
		break
	}
	switch x := v.(type) {
	case *ssa.Call:
		return CalleeName(&x.Call)
	case *ssa.Extract:
		if cl, ok := x.Tuple.(*ssa.Call); ok {
			return fmt.Sprintf("%s#%d", CalleeName(&cl.Call), x.Index)
		}
	case *ssa.Const:
		return "const"
	}
	return Term(v)
}

func m1LeafSet(v ssa.Value) map[string]bool {
	out := map[string]bool{}
	for _, l := range PhiLeaves(v) {
		out[m1Leaf(l)] = true
	}
	return out
}

func m1Strip(v ssa.Value) ssa.Value {
	for {
		switch x := v.(type) {
		case *ssa.Convert:
			v = x.X
			continue
		case *ssa.ChangeType:
			v = x.X
			continue
		}
		return v
	}
}

func c49(c *Ctx) {
	const run = "(*bpf.VM).Run"
	const newVM = "bpf.NewVM"

	// ---- E7: dispatch coverage
	cases := c.P.TypeSwitchCases(run)
	impls := c.P.Implementers("bpf.Instruction")
	if len(impls) < 10 {
		c.Undecided("type-switch-covers", run, "implementers of bpf.Instruction not found")
	}
	runFn := c.MustFn(run)
	for _, t := range impls {
		if t == "bpf.NegateA" || t == "bpf.RawInstruction" {
			continue
		}
		pos := token.NoPos
		if runFn != nil {
			pos = runFn.Pos()
		}
		c.Check(cases[t], "type-switch-covers", run+": case "+t, pos, "dispatched", "VM.Run has no case for this instruction type: it would be reported as unknown at run time")
	}
	c.SwitchCovers("bpf.aluOpCommon", "bpf.ALUOp", "aluOpNeg")
	c.SwitchCovers("bpf.jumpIfCommon", "bpf.JumpTest")

	// ---- operator tables
	alu := "bpf.aluOpCommon"
	for _, e := range []struct {
		name, op string
		comm     bool
	}{
		{"ALUOpAdd", "+", true}, {"ALUOpSub", "-", false}, {"ALUOpMul", "*", true}, {"ALUOpDiv", "/", false}, {"ALUOpOr", "|", true},
		{"ALUOpAnd", "&", true}, {"ALUOpShiftLeft", "<<", false}, {"ALUOpShiftRight", ">>", false}, {"ALUOpMod", "%", false}, {"ALUOpXor", "^", true},
	} {
		sel := RetTerm(0, "($1"+e.op+"$2)")
		if e.comm {
			sel = Union(sel, RetTerm(0, "($2"+e.op+"$1)"))
		}
		sel.Name = "return regA" + e.op + "value"
		if c.Count(alu, sel, 1, 1) {
			c.Guard(alu, sel, "$0 == @bpf."+e.name)
		}
	}
	c49jumpTable(c)

	// ---- helpers: argument plumbing and guards
	c.Has("bpf.aluOpConstant", Calls(alu).ArgIs(0, "$0.Op").ArgIs(1, "$1").ArgIs(2, "$0.Val"))
	c.Has("bpf.aluOpX", Calls(alu).ArgIs(0, "$0.Op").ArgIs(1, "$1").ArgIs(2, "$2"))
	c.Reject("bpf.aluOpX", Calls(alu), "$2 == 0", "$0.Op == @bpf.ALUOpDiv")
	c.Reject("bpf.aluOpX", Calls(alu), "$2 == 0", "$0.Op == @bpf.ALUOpMod")
	c.Guard("bpf.aluOpX", RetConst(1, "false"), "$2 == 0")
	c.Has("bpf.aluOpX", RetConst(1, "false").Where("value 0", func(in ssa.Instruction) bool { return Term(in.(*ssa.Return).Results[0]) == "0" }))
	c.Has("bpf.aluOpX", RetConst(1, "true").Where("value from aluOpCommon", func(in ssa.Instruction) bool {
		return strings.HasPrefix(Term(in.(*ssa.Return).Results[0]), "aluOpCommon(")
	}))
	c.Callers(alu, "bpf.aluOpConstant", "bpf.aluOpX")
	c.Callers("bpf.aluOpConstant", run)
	c.Callers("bpf.aluOpX", run)
	c.Has("bpf.jumpIf", Calls("bpf.jumpIfCommon").ArgIs(0, "$0.Cond").ArgIs(1, "$0.SkipTrue").ArgIs(2, "$0.SkipFalse").ArgIs(3, "$1").ArgIs(4, "$0.Val"))
	c.Has("bpf.jumpIfX", Calls("bpf.jumpIfCommon").ArgIs(0, "$0.Cond").ArgIs(1, "$0.SkipTrue").ArgIs(2, "$0.SkipFalse").ArgIs(3, "$1").ArgIs(4, "$2"))

	lc := "bpf.loadCommon"
	c.Has("bpf.inBounds", Union(RetTerm(0, "(($1+$2)<=$0)"), RetTerm(0, "($0>=($1+$2))"), RetTerm(0, "(($2+$1)<=$0)")))
	c.Guard(lc, Indexing("$0"), "inBounds(len($0),$1,$2)")
	c.Reject(lc, RetConst(1, "true"), "!inBounds(len($0),$1,$2)")
	c.Guard(lc, RetConst(1, "false"), "!inBounds(len($0),$1,$2)")
	c.Guard(lc, RetTerm(0, "$0[$1]"), "$2 == 1")
	c.Guard(lc, Calls("(encoding/binary.bigEndian).Uint16").ArgIs(1, "$0[$1:($1+$2)]"), "$2 == 2")
	c.Guard(lc, Calls("(encoding/binary.bigEndian).Uint32").ArgIs(1, "$0[$1:($1+$2)]"), "$2 == 4")
	c.Count(lc, Indexing("$0"), 3, 3)
	c.Guard(lc, Panics(), "$2 != 1", "$2 != 2", "$2 != 4")
	c.Callers(lc, "bpf.loadAbsolute", "bpf.loadIndirect")
	c.Has("bpf.loadAbsolute", Calls(lc).ArgIs(0, "$1").ArgIs(1, "$0.Off").ArgIs(2, "$0.Size"))
	c.Has("bpf.loadIndirect", Calls(lc).ArgIs(0, "$1").ArgIs(1, "($0.Off+$2)").ArgIs(2, "$0.Size"))
	lm := "bpf.loadMemShift"
	c.Guard(lm, Indexing("$1"), "inBounds(len($1),$0.Off,1)")
	c.Guard(lm, RetConst(1, "false"), "!inBounds(len($1),$0.Off,1)")
	c.Has(lm, Union(RetTerm(0, "(($1[$0.Off]&15)*4)"), RetTerm(0, "(4*($1[$0.Off]&15))"), RetTerm(0, "(($1[$0.Off]&15)<<2)")))
	c.Guard("bpf.loadExtension", RetTerm(0, "len($1)"), "$0.Num == @bpf.ExtLen")
	c.Guard("bpf.loadExtension", Panics(), "$0.Num != @bpf.ExtLen")

	// loadConstant by symbolic evaluation: Dst selects which register receives Val
	if fn := c.MustFn("bpf.loadConstant"); fn != nil {
		symV, symA, symX := M1Sym{Name: "Val"}, M1Sym{Name: "regA"}, M1Sym{Name: "regX"}
		for _, e := range []struct {
			reg    string
			wa, wx M1Val
		}{{"RegA", symV, symX}, {"RegX", symA, symV}} {
			rv, _ := c.P.ConstInt("bpf." + e.reg)
			outs, err := c.P.AbsRun(fn, []M1Val{M1Struct{F: []M1Val{M1Int{Bits: uint64(rv)}, symV}}, symA, symX})
			good := err == nil && len(outs) == 1 && !outs[0].Panic && len(outs[0].Results) == 2 && outs[0].Results[0] == e.wa && outs[0].Results[1] == e.wx
			c.Check(good, "register-select", "bpf.loadConstant: Dst="+e.reg, fn.Pos(), "returns (regA,regX) with only the destination replaced by Val", "the destination register does not receive Val, or the other register is not preserved")
		}
	}
	// loadScratch / storeScratch: register selection per Dst/Src
	if fn := c.MustFn("bpf.loadScratch"); fn != nil {
		want := map[string][2]string{"RegA": {"$1[$0.N]", "$3"}, "RegX": {"$2", "$1[$0.N]"}}
		for _, reg := range []string{"RegA", "RegX"} {
			good := false
			for _, in := range Returns().F(c.P, fn) {
				r := in.(*ssa.Return)
				if len(r.Results) != 2 {
					continue
				}
				var got [2]string
				for i := 0; i < 2; i++ {
					if ph, ok := r.Results[i].(*ssa.Phi); ok {
						if e, ok := c.P.PhiEdgeUnder(ph, "$0.Dst == @bpf."+reg); ok {
							got[i] = Term(e)
						}
					}
				}
				if got == want[reg] {
					good = true
				}
			}
			c.Check(good, "register-select", "bpf.loadScratch: Dst="+reg, fn.Pos(), "the destination receives regScratch[N], the other register is preserved", "result registers under this Dst are not (scratch[N], other)")
		}
	}
	c.Guard("bpf.storeScratch", StoreDesc("$1[$0.N] = $2"), "$0.Src == @bpf.RegA")
	c.Guard("bpf.storeScratch", StoreDesc("$1[$0.N] = $3"), "$0.Src == @bpf.RegX")
	c.Has("bpf.storeScratch", RetTerm(0, "$1"))

	// ---- Run data flow
	c49run(c)

	// ---- NewVM validation
	acc := Calls("bpf.Assemble")
	c.Reject(newVM, acc, "len($0) == 0")
	if fn := c.MustFn(newVM); fn != nil {
		// terms of the asserted element per case type, and the element index
		elem := map[string]string{}
		idx := map[string]string{}
		for _, b := range fn.Blocks {
			for _, in := range b.Instrs {
				ta, ok := in.(*ssa.TypeAssert)
				if !ok || !ta.CommaOk {
					continue
				}
				ld, ok := ta.X.(*ssa.UnOp)
				if !ok {
					continue
				}
				ia, ok := ld.X.(*ssa.IndexAddr)
				if !ok || Term(ia.X) != "$0" {
					continue
				}
				t := m1TypeShort(ta.AssertedType)
				elem[t] = Term(ta) + "#0"
				idx[t] = Linearize(ia.Index).String()
			}
		}
		for _, e := range []struct{ t, f string }{{"bpf.Jump", "Skip"}, {"bpf.JumpIf", "SkipTrue"}, {"bpf.JumpIf", "SkipFalse"}, {"bpf.JumpIfX", "SkipTrue"}, {"bpf.JumpIfX", "SkipFalse"}} {
			el, ok := elem[e.t]
			if !ok || strings.Contains(idx[e.t], "len(") {
				c.Undecided("reject-in-loop", newVM+": "+e.t+"."+e.f, "no per-element type assertion to this type over the filter parameter")
				continue
			}
			// remaining = len - (i+1); reject when remaining <= skip
			c.RejectInLoop(newVM, acc, fmt.Sprintf("len($0) - 1 <= %s.%s + %s", el, e.f, idx[e.t]))
		}
		if el, ok := elem["bpf.ALUOpConstant"]; ok {
			c.RejectInLoop(newVM, acc, el+".Val == 0", el+".Op == @bpf.ALUOpDiv")
			c.RejectInLoop(newVM, acc, el+".Val == 0", el+".Op == @bpf.ALUOpMod")
		} else {
			c.Undecided("reject-in-loop", newVM+": bpf.ALUOpConstant", "no per-element type assertion")
		}
		if el, ok := elem["bpf.LoadExtension"]; ok {
			c.RejectInLoop(newVM, acc, el+".Num != @bpf.ExtLen")
		} else {
			c.Undecided("reject-in-loop", newVM+": bpf.LoadExtension", "no per-element type assertion")
		}
	}
	c.Reject(newVM, acc, "!$0[(len($0)-1)].(bpf.RetA)#1", "!$0[(len($0)-1)].(bpf.RetConstant)#1")
	c.Has(newVM, RetTerm(1, "Assemble($0)#1"))
	c.Count(newVM, RetOK(), 0, 0)
	c.Has(newVM, Stores("bpf.VM.filter").StoredIs("$0"))
	c.Writers("bpf.VM.filter", newVM)
	// the Assemble verdict is what excludes bad scratch slots, registers and load sizes (C48 checks those rejections)
	c.Reject("(bpf.LoadScratch).Assemble", Calls("bpf.assembleLoad"), "$r.N > 15")
	c.Reject("(bpf.LoadScratch).Assemble", Calls("bpf.assembleLoad"), "$r.N < 0")
	c.Reject("(bpf.StoreScratch).Assemble", RetOK(), "$r.N > 15")
	c.Reject("(bpf.StoreScratch).Assemble", RetOK(), "$r.N < 0")
	c.Reject("bpf.assembleLoad", RetOK(), "$1 != 1", "$1 != 2", "$1 != 4")
	c.NeverAfter("bpf.Assemble", m1ErrBranchOf(".Assemble"), RetOK(), true)

	// ---- E4
	c.PanicInventory([]string{run}, nil, map[string]Inv{
		run:                 {Sites: "idx=1", Why: "v.filter[i] under the loop condition i < len(v.filter); i only grows (obligations run-loop / index-advance)"},
		"bpf.aluOpCommon":   {Sites: "div=2", Why: "constant divisor: NewVM rejects Val==0 for Div/Mod (reject-in-loop); X divisor: aluOpX returns (0,false) first (reject-before); only those two callers (callers)"},
		"bpf.loadCommon":    {Sites: "idx=3 panic=1", Why: "indexing under inBounds (guard-before); panic only for sizes other than 1,2,4, which Assemble rejects and NewVM reports"},
		"bpf.loadExtension": {Sites: "panic=1", Why: "only for extensions other than ExtLen, which NewVM rejects (reject-in-loop)"},
		"bpf.loadMemShift":  {Sites: "idx=1", Why: "in[offset] under inBounds(len(in), offset, 1) (guard-before)"},
		"bpf.loadScratch":   {Sites: "idx=2", Why: "regScratch[ins.N]: N in 0..15 enforced by LoadScratch.Assemble, whose error NewVM returns"},
		"bpf.storeScratch":  {Sites: "idx=2", Why: "regScratch[ins.N]: N in 0..15 enforced by StoreScratch.Assemble, whose error NewVM returns"},
	})
}

// c49jumpTable: each JumpTest case of jumpIfCommon computes the matching comparison of (regA, value).
func c49jumpTable(c *Ctx) {
	const name = "bpf.jumpIfCommon"
	fn := c.MustFn(name)
	if fn == nil {
		return
	}
	// the phi that merges the per-case verdicts and the If testing it
	var okPhi *ssa.Phi
	var okIf *ssa.If
	for _, b := range fn.Blocks {
		if len(b.Instrs) == 0 {
			continue
		}
		if ifi, ok := b.Instrs[len(b.Instrs)-1].(*ssa.If); ok {
			if ph, ok := ifi.Cond.(*ssa.Phi); ok && len(ph.Edges) >= 8 {
				okPhi, okIf = ph, ifi
			}
		}
	}
	if okPhi == nil {
		c.Undecided("jump-semantics", name, "no merged verdict (phi with one edge per JumpTest case) found")
		return
	}
	// canonical form of a comparison edge: op with regA ($3) on the left
	canon := func(v ssa.Value) string {
		bo, ok := v.(*ssa.BinOp)
		if !ok {
			return Term(v)
		}
		flip := map[token.Token]token.Token{token.LSS: token.GTR, token.GTR: token.LSS, token.LEQ: token.GEQ, token.GEQ: token.LEQ, token.EQL: token.EQL, token.NEQ: token.NEQ}
		x, y := Term(bo.X), Term(bo.Y)
		op := bo.Op
		if x == "$4" && y == "$3" {
			if f, ok := flip[op]; ok {
				x, y, op = y, x, f
			}
		}
		if x == "$3" && y == "$4" {
			return "regA" + op.String() + "value"
		}
		// (regA & value) ==/!= 0
		if and, ok := m1Strip(bo.X).(*ssa.BinOp); ok && and.Op == token.AND && Term(bo.Y) == "0" {
			a, b := Term(and.X), Term(and.Y)
			if a == "$3" && b == "$4" || a == "$4" && b == "$3" {
				return "regA&value" + op.String() + "0"
			}
		}
		return Term(v)
	}
	want := map[string]string{
		"JumpEqual": "regA==value", "JumpNotEqual": "regA!=value", "JumpGreaterThan": "regA>value", "JumpLessThan": "regA<value",
		"JumpGreaterOrEqual": "regA>=value", "JumpLessOrEqual": "regA<=value", "JumpBitsSet": "regA&value!=0", "JumpBitsNotSet": "regA&value==0",
	}
	var names []string
	for n := range c.P.ConstsOfType("bpf.JumpTest") {
		names = append(names, n)
	}
	sort.Strings(names)
	for _, n := range names {
		w, known := want[n]
		if !known {
			c.Undecided("jump-semantics", name+": "+n, "JumpTest constant without a reviewed meaning")
			continue
		}
		e, ok := c.P.PhiEdgeUnder(okPhi, "$0 == @bpf."+n)
		if !ok {
			c.Fail("jump-semantics", name+": "+n, fn.Pos(), "no single case body reached exactly when cond == "+n)
			continue
		}
		got := canon(e)
		c.Check(got == w, "jump-semantics", name+": "+n, e.Pos(), "verdict is "+w, "verdict under this case is "+got+", want "+w)
	}
	retOf := func(b *ssa.BasicBlock) string {
		if len(b.Instrs) == 0 {
			return ""
		}
		if r, ok := b.Instrs[len(b.Instrs)-1].(*ssa.Return); ok && len(r.Results) == 1 {
			return Term(r.Results[0])
		}
		return ""
	}
	c.Check(retOf(okIf.Block().Succs[0]) == "$1" && retOf(okIf.Block().Succs[1]) == "$2", "jump-semantics", name+": verdict selects skipTrue / skipFalse", okIf.Pos(),
		"true -> skipTrue, false -> skipFalse", fmt.Sprintf("true arm returns %q, false arm returns %q", retOf(okIf.Block().Succs[0]), retOf(okIf.Block().Succs[1])))
}

// c49run: register plumbing in VM.Run, independent of local variable names.
func c49run(c *Ctx) {
	const run = "(*bpf.VM).Run"
	fn := c.MustFn(run)
	if fn == nil {
		return
	}
	call := func(name string) *ssa.Call {
		ins := Calls(name).F(c.P, fn)
		if len(ins) != 1 {
			c.Undecided("run-plumbing", run+": call "+name, fmt.Sprintf("%d call sites, want exactly 1", len(ins)))
			return nil
		}
		return ins[0].(*ssa.Call)
	}
	helpers := []string{"bpf.aluOpConstant", "bpf.aluOpX", "bpf.jumpIf", "bpf.jumpIfX", "bpf.loadAbsolute", "bpf.loadConstant", "bpf.loadExtension",
		"bpf.loadIndirect", "bpf.loadMemShift", "bpf.loadScratch", "bpf.storeScratch"}
	calls := map[string]*ssa.Call{}
	for _, h := range helpers {
		cl := call(h)
		if cl == nil {
			return
		}
		calls[h] = cl
	}
	arg := func(h string, i int) ssa.Value { return m1Strip(BaselineArgs(&calls[h].Call)[i]) }
	regA := arg("bpf.aluOpConstant", 1)
	regX := arg("bpf.loadIndirect", 2)
	scr := arg("bpf.loadScratch", 1)
	var in ssa.Value
	if len(fn.Params) == 2 {
		in = fn.Params[1]
	}
	type want struct {
		h    string
		i    int
		v    ssa.Value
		what string
	}
	for _, w := range []want{
		{"bpf.aluOpX", 1, regA, "accumulator"}, {"bpf.aluOpX", 2, regX, "index register"},
		{"bpf.jumpIf", 1, regA, "accumulator"}, {"bpf.jumpIfX", 1, regA, "accumulator"}, {"bpf.jumpIfX", 2, regX, "index register"},
		{"bpf.loadConstant", 1, regA, "accumulator"}, {"bpf.loadConstant", 2, regX, "index register"},
		{"bpf.loadScratch", 2, regA, "accumulator"}, {"bpf.loadScratch", 3, regX, "index register"},
		{"bpf.storeScratch", 1, scr, "scratch array"}, {"bpf.storeScratch", 2, regA, "accumulator"}, {"bpf.storeScratch", 3, regX, "index register"},
		{"bpf.loadAbsolute", 1, in, "packet"}, {"bpf.loadIndirect", 1, in, "packet"}, {"bpf.loadMemShift", 1, in, "packet"}, {"bpf.loadExtension", 1, in, "packet"},
	} {
		c.Check(w.v != nil && arg(w.h, w.i) == w.v, "run-plumbing", fmt.Sprintf("%s: %s arg%d is the %s", run, w.h, w.i, w.what), calls[w.h].Pos(), "same SSA value", "argument is "+Term(arg(w.h, w.i))+", not the "+w.what)
	}
	c.Check(regA != regX, "run-plumbing", run+": accumulator and index register are distinct variables", fn.Pos(), "", "aluOpConstant and loadIndirect operate on the same variable")
	// results reach the right register
	la, lx, ls := m1LeafSet(regA), m1LeafSet(regX), m1LeafSet(scr)
	for _, l := range []string{"bpf.aluOpConstant", "bpf.aluOpX#0", "bpf.loadAbsolute#0", "bpf.loadConstant#0", "bpf.loadExtension", "bpf.loadIndirect#0", "bpf.loadScratch#0"} {
		c.Check(la[l], "run-plumbing", run+": accumulator receives "+l, fn.Pos(), "", "result does not flow into the accumulator")
	}
	for _, l := range []string{"bpf.loadConstant#1", "bpf.loadMemShift#0", "bpf.loadScratch#1"} {
		c.Check(lx[l], "run-plumbing", run+": index register receives "+l, fn.Pos(), "", "result does not flow into the index register")
	}
	c.Check(ls["bpf.storeScratch"], "run-plumbing", run+": scratch array receives bpf.storeScratch", fn.Pos(), "", "storeScratch's result is dropped")
	isLeaf := func(v, leaf ssa.Value) bool {
		for _, l := range PhiLeaves(v) {
			if l == leaf {
				return true
			}
		}
		if ph, ok := v.(*ssa.Phi); ok {
			// TAX/TXA assign one loop phi to the other: the other header phi appears as an inner phi node
			seen := map[ssa.Value]bool{}
			var walk func(x ssa.Value) bool
			walk = func(x ssa.Value) bool {
				if x == leaf {
					return true
				}
				if seen[x] {
					return false
				}
				seen[x] = true
				if p, ok := x.(*ssa.Phi); ok {
					for _, e := range p.Edges {
						if walk(e) {
							return true
						}
					}
				}
				return false
			}
			for _, e := range ph.Edges {
				if walk(e) {
					return true
				}
			}
		}
		return false
	}
	c.Check(isLeaf(regX, regA), "run-plumbing", run+": TAX copies the accumulator to the index register", fn.Pos(), "", "the accumulator never flows into the index register")
	c.Check(isLeaf(regA, regX), "run-plumbing", run+": TXA copies the index register to the accumulator", fn.Pos(), "", "the index register never flows into the accumulator")
	// returns
	retA := false
	for _, r := range RetOK().F(c.P, fn) {
		if m1Strip(r.(*ssa.Return).Results[0]) == regA {
			retA = true
		}
	}
	c.Check(retA, "run-plumbing", run+": RetA returns the accumulator", fn.Pos(), "", "no nil-error return of the accumulator")
	c.Has(run, RetOK().Where("value is RetConstant.Val", func(in ssa.Instruction) bool {
		return strings.HasSuffix(Term(in.(*ssa.Return).Results[0]), ".(bpf.RetConstant)#0.Val")
	}))
	// ok=false ends the program with verdict 0
	var okPhi ssa.Value
	for _, b := range fn.Blocks {
		for _, i := range b.Instrs {
			if ph, ok := i.(*ssa.Phi); ok && types.Identical(ph.Type().Underlying(), types.Typ[types.Bool]) && m1LeafSet(ph)["bpf.aluOpX#1"] && m1IsLoopHeader(ph.Block()) {
				okPhi = ph
			}
		}
	}
	if okPhi == nil {
		c.Fail("run-loop", run+": failure flag", fn.Pos(), "no loop-carried boolean fed by aluOpX's second result")
	} else {
		ls := m1LeafSet(okPhi)
		for _, l := range []string{"bpf.aluOpX#1", "bpf.loadAbsolute#1", "bpf.loadIndirect#1", "bpf.loadMemShift#1"} {
			c.Check(ls[l], "run-loop", run+": failure flag receives "+l, fn.Pos(), "", "the ok result of this helper is ignored")
		}
		gated := false
		for _, b := range fn.Blocks {
			if len(b.Instrs) == 0 {
				continue
			}
			ifi, ok := b.Instrs[len(b.Instrs)-1].(*ssa.If)
			if !ok || ifi.Cond != okPhi {
				continue
			}
			exit := b.Succs[1]
			if r, ok := exit.Instrs[len(exit.Instrs)-1].(*ssa.Return); ok && len(r.Results) == 2 && Term(r.Results[0]) == "0" && Term(r.Results[1]) == "nil" {
				all := true
				for _, cl := range calls {
					if !b.Succs[0].Dominates(cl.Block()) {
						all = false
					}
				}
				gated = all
			}
		}
		c.Check(gated, "run-loop", run+": a cleared failure flag stops the program with verdict 0", fn.Pos(), "If(ok) dominates every helper call; its false arm returns 0, nil", "the failure flag does not gate the dispatch, or its false arm does not return (0, nil)")
	}
	// index advance
	var iH ssa.Value
	for _, i := range Indexing("$r.filter").F(c.P, fn) {
		if ia, ok := i.(*ssa.IndexAddr); ok {
			iH = ia.Index
		}
	}
	if iH == nil {
		c.Undecided("index-advance", run, "no indexing of v.filter")
		return
	}
	c.Guard(run, Indexing("$r.filter"), Linearize(iH).String()+" < len($r.filter)")
	adv := map[string]bool{}
	var scan func(v ssa.Value, seen map[ssa.Value]bool)
	scan = func(v ssa.Value, seen map[ssa.Value]bool) {
		if seen[v] {
			return
		}
		seen[v] = true
		switch x := v.(type) {
		case *ssa.Phi:
			for _, e := range x.Edges {
				scan(e, seen)
			}
		case *ssa.BinOp:
			if x.Op != token.ADD {
				return
			}
			for _, pr := range [][2]ssa.Value{{x.X, x.Y}, {x.Y, x.X}} {
				base, d := pr[0], m1Strip(pr[1])
				if k, ok := d.(*ssa.Const); ok && Term(k) == "1" {
					adv["+1"] = true
					scan(base, seen)
					continue
				}
				if base != iH {
					continue
				}
				if cl, ok := d.(*ssa.Call); ok {
					switch CalleeName(&cl.Call) {
					case "bpf.jumpIf":
						adv["jumpIf"] = true
					case "bpf.jumpIfX":
						adv["jumpIfX"] = true
					}
				}
				if m1IsFieldOf(d, "bpf.Jump", "Skip") {
					adv["Jump.Skip"] = true
				}
			}
		}
	}
	scan(iH, map[ssa.Value]bool{})
	for _, k := range []string{"+1", "Jump.Skip", "jumpIf", "jumpIfX"} {
		c.Check(adv[k], "index-advance", run+": program counter advances by "+k, fn.Pos(), "", "no such addition feeds the loop index")
	}
}

// m1IsFieldOf reports whether v reads field name of a value (or local) of the named struct type.
func m1IsFieldOf(v ssa.Value, typ, name string) bool {
	var st types.Type
	idx := -1
	switch x := v.(type) {
	case *ssa.Field:
		st, idx = x.X.Type(), x.Field
	case *ssa.UnOp:
		if fa, ok := x.X.(*ssa.FieldAddr); ok && x.Op == token.MUL {
			st, idx = fa.X.Type().Underlying().(*types.Pointer).Elem(), fa.Field
		}
	}
	if idx < 0 || m1TypeShort(st) != typ {
		return false
	}
	s, ok := st.Underlying().(*types.Struct)
	return ok && idx < s.NumFields() && s.Field(idx).Name() == name
}

func m1IsLoopHeader(b *ssa.BasicBlock) bool {
	for _, p := range b.Preds {
		if b.Dominates(p) {
			return true
		}
	}
	return false
}
