package props

import (
	"fmt"
	"go/ast"
	"go/token"
	"go/types"
	"sort"
	"strings"

	"golang.org/x/tools/go/ssa"

	. "verif/sa/core"
)

// Specification data (RFC 9110 section 5.6.2):
//
//	tchar = "!" / "#" / "$" / "%" / "&" / "'" / "*" / "+" / "-" / "." /
//	        "^" / "_" / "`" / "|" / "~" / DIGIT / ALPHA
const frRFC9110TcharSymbols = "!#$%&'*+-.^_`|~"

func frRFC9110Tchar() map[int64]bool {
	set := map[int64]bool{}
	for i := 0; i < len(frRFC9110TcharSymbols); i++ {
		set[int64(frRFC9110TcharSymbols[i])] = true
	}
	for b := int64('0'); b <= '9'; b++ {
		set[b] = true
	}
	for b := int64('a'); b <= 'z'; b++ {
		set[b] = true
		set[b-'a'+'A'] = true
	}
	return set
}

func init() {
	Register(&Property{
		ID:    "C55",
		Floor: 28,
		Clauses: "isTokenTable has 256 entries and is true exactly on the 77 RFC 9110 tchar bytes (table literal evaluated); IsTokenRune evaluated from its syntax for every rune 0..0x10FFFF equals tchar membership; " +
			"ValidHeaderFieldName has the form [reject len==0] ; for every byte {reject unless tchar} ; accept, with the per-byte step evaluated for all 256 bytes; " +
			"ValidHeaderFieldValue has the form for every byte {reject iff byte<0x20 and not HTAB, or 0x7f} ; accept, evaluated for all 256 bytes (NUL, CR, LF named separately); " +
			"isCTL, isLWS, isOWS, lowerASCII evaluated for all 256 bytes against their definitions; tokenEqual rejects unequal lengths, non-ASCII bytes and any position where the lowerASCII images differ (also tabulated: one loop iteration evaluated for every pair of an element of t1 and a byte of t2), and accepts only after the loop; " +
			"headerValueContainsToken searches for ',' only (strings.IndexByte or strings.Cut), compares trimOWS(element) with the token through tokenEqual for every element (every compared string is the part before the next comma or the comma-free remainder; the loop moves on only after a false comparison; false or the verdict itself is returned only for the last element; true only under a true comparison), splits exactly at the comma and skips exactly one byte; trimOWS strips only bytes for which isOWS holds, at both ends; " +
			"HeaderValuesContainsToken returns true only under a true headerValueContainsToken and false only after the loop.",
		NotCovered: "IsTokenRune on negative rune values (byte(r) aliases into the table: not a code point, never produced by ranging over a string); that the loops visit every byte (shape checked: a single top-level loop over the whole parameter advancing by one); " +
			"termination and the behaviour of strings.IndexByte / strings.Cut; ValidHostHeader and PunycodeHostPort.",
		Run: c55,
	})
}

// frByteSetString renders a set of byte values compactly.
func frByteSetString(set map[int64]bool) string {
	var ks []int64
	for k := range set {
		ks = append(ks, k)
	}
	sort.Slice(ks, func(i, j int) bool { return ks[i] < ks[j] })
	var parts []string
	for _, k := range ks {
		if k > 0x20 && k < 0x7f {
			parts = append(parts, fmt.Sprintf("%q", rune(k)))
		} else {
			parts = append(parts, fmt.Sprintf("0x%02x", k))
		}
		if len(parts) >= 12 {
			parts = append(parts, "…")
			break
		}
	}
	return "{" + strings.Join(parts, " ") + "}"
}

// frCompareSets reports got == want over [lo,hi].
func frCompareSets(c *Ctx, rule, construct string, pos token.Pos, got, want map[int64]bool, n int) bool {
	extra, missing := map[int64]bool{}, map[int64]bool{}
	for k := range got {
		if !want[k] {
			extra[k] = true
		}
	}
	for k := range want {
		if !got[k] {
			missing[k] = true
		}
	}
	if len(extra) == 0 && len(missing) == 0 {
		c.OK(rule, construct, fmt.Sprintf("%d values evaluated, %d in the set", n, len(want)))
		return true
	}
	why := ""
	if len(extra) > 0 {
		why += "wrongly included " + frByteSetString(extra) + " "
	}
	if len(missing) > 0 {
		why += "wrongly excluded " + frByteSetString(missing)
	}
	c.Fail(rule, construct, pos, strings.TrimSpace(why))
	return false
}

// frTabulatePred evaluates the scalar predicate fn over [lo,hi] and compares the accepted set.
func frTabulatePred(c *Ctx, ev *Evaluator, fnName, desc string, lo, hi int64, want func(int64) bool) bool {
	rule := "table-exhaustive"
	construct := fmt.Sprintf("%s = %s on [%d,%d]", fnName, desc, lo, hi)
	fn := c.MustFn(fnName)
	if fn == nil {
		return false
	}
	got, wantSet := map[int64]bool{}, map[int64]bool{}
	for b := lo; b <= hi; b++ {
		v, err := ev.Call(fnName, Int(b))
		if err != nil {
			c.Undecided(rule, construct, "not evaluable: "+err.Error())
			return false
		}
		if !v.IsBool {
			c.Undecided(rule, construct, "not a predicate")
			return false
		}
		if v.B {
			got[b] = true
		}
		if want(b) {
			wantSet[b] = true
		}
	}
	return frCompareSets(c, rule, construct, fn.Pos(), got, wantSet, int(hi-lo+1))
}

// frTabulateMap evaluates the scalar function fn over [lo,hi] against want.
func frTabulateMap(c *Ctx, ev *Evaluator, fnName, desc string, lo, hi int64, want func(int64) int64) bool {
	rule := "table-exhaustive"
	construct := fmt.Sprintf("%s = %s on [%d,%d]", fnName, desc, lo, hi)
	fn := c.MustFn(fnName)
	if fn == nil {
		return false
	}
	for b := lo; b <= hi; b++ {
		v, err := ev.Call(fnName, Int(b))
		if err != nil {
			c.Undecided(rule, construct, "not evaluable: "+err.Error())
			return false
		}
		if v.IsBool || v.I != want(b) {
			c.Fail(rule, construct, fn.Pos(), fmt.Sprintf("%s(%d) = %s, specification says %d", fnName, b, v, want(b)))
			return false
		}
	}
	c.OK(rule, construct, fmt.Sprintf("%d values evaluated", hi-lo+1))
	return true
}

// frLoopOutcomes tabulates one iteration of fn's element loop for every element in [lo,hi].
func frLoopOutcomes(c *Ctx, ev *Evaluator, rule, construct, fnName string, lo, hi int64) (*ElemLoop, map[int64]string) {
	if c.MustFn(fnName) == nil {
		return nil, nil
	}
	l, err := ev.FindElemLoop(fnName)
	if err != nil {
		c.Undecided(rule, construct, err.Error())
		return nil, nil
	}
	out := map[int64]string{}
	for e := lo; e <= hi; e++ {
		o, err := ev.Iteration(l, e)
		if err != nil {
			c.Undecided(rule, construct, "loop body not evaluable: "+err.Error())
			return nil, nil
		}
		out[e] = o
	}
	return l, out
}

// frAllElemsShape checks the form  [if len(p)==0 {return false}] ; loop ; return true
// and returns whether the empty-string guard is present.
func frAllElemsShape(c *Ctx, ev *Evaluator, rule, construct string, l *ElemLoop, wantEmptyReject bool) bool {
	body := l.Decl.Body.List
	if l.Index != len(body)-2 {
		c.Fail(rule, construct, l.Decl.Pos(), "the element loop is not immediately followed by the final return")
		return false
	}
	last, ok := body[len(body)-1].(*ast.ReturnStmt)
	if !ok || len(last.Results) != 1 {
		c.Fail(rule, construct, l.Decl.Pos(), "function does not end in a single-result return")
		return false
	}
	if cv := ConstOf(l.Pkg, last.Results[0]); cv == nil || cv.String() != "true" {
		c.Fail(rule, construct, last.Pos(), "the return after the loop is not the constant true")
		return false
	}
	emptyRejected := false
	for _, st := range body[:l.Index] {
		ifs, ok := st.(*ast.IfStmt)
		if !ok || ifs.Init != nil || ifs.Else != nil || len(ifs.Body.List) != 1 {
			c.Undecided(rule, construct, "statement before the loop is not a plain rejecting if")
			return false
		}
		ret, ok := ifs.Body.List[0].(*ast.ReturnStmt)
		if !ok || len(ret.Results) != 1 {
			c.Undecided(rule, construct, "statement before the loop is not a plain rejecting if")
			return false
		}
		if cv := ConstOf(l.Pkg, ret.Results[0]); cv == nil || cv.String() != "false" {
			c.Fail(rule, construct, ret.Pos(), "a test before the loop returns something other than false")
			return false
		}
		// the test may depend on the length only, and must reject exactly length 0
		for n := int64(0); n <= 3; n++ {
			rej, err := ev.CondWith(l, ifs.Cond, AbsStr{Len: n, Elem: 'a'})
			if err != nil {
				c.Undecided(rule, construct, "test before the loop not evaluable: "+err.Error())
				return false
			}
			if rej != (n == 0) {
				c.Fail(rule, construct, ifs.Pos(), fmt.Sprintf("the test before the loop rejects=%v a string of length %d", rej, n))
				return false
			}
		}
		emptyRejected = true
	}
	if emptyRejected != wantEmptyReject {
		c.Fail(rule, construct, l.Decl.Pos(), fmt.Sprintf("empty string rejected before the loop: %v, specification: %v", emptyRejected, wantEmptyReject))
		return false
	}
	return true
}

// frAllElems: fn(p) == [p non-empty &&] every element is in want. Elements lo..hi are evaluated.
func frAllElems(c *Ctx, ev *Evaluator, fnName, desc string, lo, hi int64, rejectEmpty bool, want func(int64) bool) bool {
	rule := "table-exhaustive"
	construct := fmt.Sprintf("%s accepts exactly strings of %s on [%d,%d]", fnName, desc, lo, hi)
	l, outs := frLoopOutcomes(c, ev, rule, construct, fnName, lo, hi)
	if l == nil {
		return false
	}
	if !frAllElemsShape(c, ev, rule, construct, l, rejectEmpty) {
		return false
	}
	got, wantSet := map[int64]bool{}, map[int64]bool{}
	for e := lo; e <= hi; e++ {
		switch outs[e] {
		case "next":
			got[e] = true
		case "return false":
		default:
			c.Fail(rule, construct, l.Body.Pos(), fmt.Sprintf("element %d makes the loop body %s (only reject or continue are allowed)", e, outs[e]))
			return false
		}
		if want(e) {
			wantSet[e] = true
		}
	}
	return frCompareSets(c, rule, construct, l.Decl.Pos(), got, wantSet, int(hi-lo+1))
}

func c55(c *Ctx) {
	const G = "http/httpguts."
	ev := c.P.NewEvaluator()
	tchar := frRFC9110Tchar()
	isTchar := func(b int64) bool { return tchar[b] }

	// 1. the table literal
	{
		rule, construct := "table-exhaustive", G+"isTokenTable = RFC 9110 tchar"
		got, n, err := ev.TableTrue(G + "isTokenTable")
		switch {
		case err != nil:
			c.Undecided(rule, construct, err.Error())
		case n != 256:
			c.Fail(rule, G+"isTokenTable has 256 entries", token.NoPos, fmt.Sprintf("length %d", n))
		default:
			c.OK(rule, G+"isTokenTable has 256 entries", "array length 256: every byte index is in range")
			frCompareSets(c, rule, construct, token.NoPos, got, tchar, 256)
		}
		c.Check(len(tchar) == 77, rule, "reference tchar set has 77 members", token.NoPos, "15 symbols + 10 digits + 52 letters", fmt.Sprintf("%d members", len(tchar)))
	}

	// 2. IsTokenRune over every code point (and the byte-aliasing values above 0xff)
	frTabulatePred(c, ev, G+"IsTokenRune", "tchar membership", 0, 0x10FFFF, isTchar)

	// 3. ValidHeaderFieldName = non-empty && all bytes tchar
	frAllElems(c, ev, G+"ValidHeaderFieldName", "tchar bytes, non-empty", 0, 255, true, isTchar)
	c.Reject(G+"ValidHeaderFieldName", RetConst(0, "true"), "len($0) == 0")

	// 4. ValidHeaderFieldValue = no control byte other than HTAB
	okValue := func(b int64) bool { return !(b < 0x20 && b != '\t') && b != 0x7f }
	frAllElems(c, ev, G+"ValidHeaderFieldValue", "bytes that are not CTL except HTAB", 0, 255, false, okValue)
	if l, outs := frLoopOutcomes(c, ev, "table-exhaustive", G+"ValidHeaderFieldValue NUL/CR/LF", G+"ValidHeaderFieldValue", 0, 255); l != nil {
		for _, b := range []struct {
			n string
			v int64
		}{{"NUL", 0}, {"CR", '\r'}, {"LF", '\n'}, {"DEL", 0x7f}} {
			c.Check(outs[b.v] == "return false", "table-exhaustive", G+"ValidHeaderFieldValue rejects "+b.n, l.Body.Pos(), "loop body returns false", "loop body outcome: "+outs[b.v])
		}
		c.Check(outs['\t'] == "next" && outs[' '] == "next" && outs[0x80] == "next" && outs[0xff] == "next", "table-exhaustive", G+"ValidHeaderFieldValue keeps HTAB, SP and obs-text", l.Body.Pos(), "", "one of HTAB, SP, 0x80, 0xff is rejected")
	}

	// 5. the helper predicates
	frTabulatePred(c, ev, G+"isCTL", "byte < 0x20 or 0x7f", 0, 255, func(b int64) bool { return b < 0x20 || b == 0x7f })
	frTabulatePred(c, ev, G+"isLWS", "SP or HTAB", 0, 255, func(b int64) bool { return b == ' ' || b == '\t' })
	frTabulatePred(c, ev, G+"isOWS", "SP or HTAB", 0, 255, func(b int64) bool { return b == ' ' || b == '\t' })
	frTabulateMap(c, ev, G+"lowerASCII", "ASCII lower-casing", 0, 255, func(b int64) int64 {
		if b >= 'A' && b <= 'Z' {
			return b + 32
		}
		return b
	})

	// 6. tokenEqual
	te := G + "tokenEqual"
	retTrue := RetConst(0, "true")
	c.Reject(te, retTrue, "len($0) != len($1)")
	c.NeverAfter(te, EdgeP(AtomLike("lowerASCII(t1[i]) != lowerASCII(t2[i])", NE, func(l Lin) bool {
		ts, cs := LinTerms(l)
		return len(ts) == 2 && l.K == 0 && cs[0]+cs[1] == 0 && strings.HasPrefix(ts[0], "lowerASCII(") && strings.HasPrefix(ts[1], "lowerASCII(") &&
			(strings.Contains(ts[0], "$1[") != strings.Contains(ts[1], "$1["))
	})), retTrue, true)
	c.NeverAfter(te, EdgeP(AtomLike("element of t1 >= 0x80", LE, func(l Lin) bool {
		ts, cs := LinTerms(l)
		return len(ts) == 1 && cs[0] == -1 && l.K == 128 && strings.Contains(ts[0], "range($0)")
	})), retTrue, true)
	c55TokenEqualStep(c, ev, te)
	c.Count(te, retTrue, 1, 1)
	c.GuardP(te, retTrue, AtomLike("range over t1 exhausted", FALS, func(l Lin) bool {
		ts, _ := LinTerms(l)
		return len(ts) == 1 && strings.HasPrefix(ts[0], "next(range($0))")
	}))

	// 7. headerValueContainsToken
	hv := G + "headerValueContainsToken"
	teCalls := Calls(te)
	if fn := c.MustFn(hv); fn != nil {
		c55ContainsToken(c, fn, te, G+"trimOWS")
		// arg0 of tokenEqual IS a trimOWS call (not merely derived from one); arg1 is the token parameter
		n, bad := 0, ""
		for _, in := range teCalls.F(c.P, fn) {
			args := BaselineArgs(&in.(*ssa.Call).Call)
			n++
			if call, ok := args[0].(*ssa.Call); !ok || CalleeName(&call.Call) != G+"trimOWS" {
				bad = "first argument " + Term(args[0]) + " is not a trimOWS result"
			}
			if Term(args[1]) != "$1" {
				bad = "second argument " + Term(args[1]) + " is not the token parameter"
			}
		}
		c.Check(bad == "" && n > 0, "call-args", hv+": every tokenEqual call compares trimOWS(element) with the token", fn.Pos(), fmt.Sprintf("%d call(s)", n), bad)
		// separator
		ib := Calls("strings.IndexByte").F(c.P, fn)
		bad = ""
		for _, in := range ib {
			if t := Term(BaselineArgs(&in.(*ssa.Call).Call)[1]); t != "44" {
				bad = "IndexByte searches for " + t
			}
		}
		if len(ib) == 0 {
			bad = "no strings.IndexByte call"
		}
		c.Check(bad == "", "call-args", hv+": the separator searched for is ','", fn.Pos(), fmt.Sprintf("%d call(s)", len(ib)), bad)
		// split: element = v[:comma], remainder = v[comma+1:]
		var heads, tails []Lin
		for _, b := range fn.Blocks {
			for _, in := range b.Instrs {
				if s, ok := in.(*ssa.Slice); ok {
					switch {
					case s.Low == nil && s.High != nil:
						heads = append(heads, Linearize(s.High))
					case s.Low != nil && s.High == nil:
						tails = append(tails, Linearize(s.Low))
					}
				}
			}
		}
		okSplit := len(heads) == 1 && len(tails) == 1
		why := fmt.Sprintf("%d prefix slices, %d suffix slices", len(heads), len(tails))
		if okSplit {
			d := frLinSub(tails[0], heads[0])
			okSplit = len(d.Coef) == 0 && d.K == 1
			why = "suffix start minus prefix end = " + d.String()
		}
		c.Check(okSplit, "codec-layout", hv+": element is v[:comma] and the rest is v[comma+1:]", fn.Pos(), why, why)
	}
	c.GuardP(hv, retTrue, AtomLike("tokenEqual(trimOWS(element),token)", TRUE, func(l Lin) bool {
		ts, _ := LinTerms(l)
		return len(ts) == 1 && strings.HasPrefix(ts[0], "tokenEqual(trimOWS(") && strings.HasSuffix(ts[0], ",$1)")
	}))

	// trimOWS strips only OWS, from both ends
	to := G + "trimOWS"
	if fn := c.MustFn(to); fn != nil {
		// every slice that shortens x is under a fact P(x[0]) or P(x[len(x)-1]) where P, evaluated for all 256 bytes, is {SP, HTAB}
		first, last, n, bad := 0, 0, 0, ""
		for _, b := range fn.Blocks {
			for _, in := range b.Instrs {
				if _, isSlice := in.(*ssa.Slice); !isSlice {
					continue
				}
				n++
				hit := false
				for _, f := range FactsAtInstr(in) {
					t := f.Atom.L.String()
					i := strings.Index(t, "(")
					if f.Atom.Kind != TRUE || i <= 0 || !strings.HasSuffix(t, ")") {
						continue
					}
					pred, arg := G+t[:i], t[i+1:len(t)-1]
					if c.P.Fn(pred) == nil {
						continue
					}
					okSet := true
					for v := int64(0); v < 256; v++ {
						r, err := ev.Call(pred, Int(v))
						if err != nil || !r.IsBool || r.B != (v == ' ' || v == '\t') {
							okSet = false
							break
						}
					}
					if !okSet {
						continue
					}
					switch {
					case strings.HasSuffix(arg, "[0]"):
						first++
						hit = true
					case strings.Contains(arg, "[(len(") && strings.HasSuffix(arg, "-1)]"):
						last++
						hit = true
					}
				}
				if !hit {
					bad = "slice `" + DescribeInstr(in) + "` is not under an OWS test of the byte it drops"
				}
			}
		}
		c.Check(bad == "" && n == 2 && first >= 1 && last >= 1, "guard-before", to+": bytes are dropped only from the two ends and only under a test that holds exactly for SP and HTAB", fn.Pos(),
			"2 slice sites", fmt.Sprintf("%s (%d slice sites, first=%d last=%d)", bad, n, first, last))
	}

	// 8. HeaderValuesContainsToken
	hvs := G + "HeaderValuesContainsToken"
	c.GuardP(hvs, retTrue, AtomLike("headerValueContainsToken(values[i],token)", TRUE, func(l Lin) bool {
		ts, _ := LinTerms(l)
		return len(ts) == 1 && strings.HasPrefix(ts[0], "headerValueContainsToken($0[") && strings.HasSuffix(ts[0], ",$1)")
	}))
	c.NeverAfter(hvs, EdgeP(AtomLike("headerValueContainsToken(values[i],token)", TRUE, func(l Lin) bool {
		ts, _ := LinTerms(l)
		return len(ts) == 1 && strings.HasPrefix(ts[0], "headerValueContainsToken($0[")
	})), RetConst(0, "false"), true)
}

func frLinSub(a, b Lin) Lin {
	out := Lin{Coef: map[string]int64{}, K: a.K - b.K}
	for t, k := range a.Coef {
		out.Coef[t] += k
	}
	for t, k := range b.Coef {
		out.Coef[t] -= k
	}
	for t, k := range out.Coef {
		if k == 0 {
			delete(out.Coef, t)
		}
	}
	return out
}

// ---- headerValueContainsToken: the content of the split loop (instead of site counts) ----

// c55Cond is a branch condition value together with the truth value it has on a dominating edge.
type c55Cond struct {
	V   ssa.Value
	Val bool
}

// c55CondsAt maps the dominating facts of block b (plus, when `to` is not nil, the facts of b's own branch edge to `to`)
// back to the boolean SSA values they were derived from. && / || joins are looked through by the fact engine.
func c55CondsAt(fn *ssa.Function, b, to *ssa.BasicBlock) []c55Cond {
	facts := FactsAt(b)
	if to != nil && len(b.Instrs) > 0 {
		if ifi, ok := b.Instrs[len(b.Instrs)-1].(*ssa.If); ok && len(b.Succs) == 2 && b.Succs[0] != b.Succs[1] {
			facts = append(facts, EdgeFactsOf(ifi, b.Succs[0] == to)...)
		}
	}
	var out []c55Cond
	for _, blk := range fn.Blocks {
		for _, in := range blk.Instrs {
			v, ok := in.(ssa.Value)
			if !ok || v.Type() == nil {
				continue
			}
			if bt, ok := v.Type().Underlying().(*types.Basic); !ok || bt.Info()&types.IsBoolean == 0 {
				continue
			}
			if u, ok := v.(*ssa.UnOp); ok && u.Op == token.NOT {
				continue
			}
			if _, ok := v.(*ssa.Phi); ok {
				continue
			}
			a := CondAtom(v)
			for _, f := range facts {
				if SameAtom(f.Atom, a) {
					out = append(out, c55Cond{v, true})
				} else if SameAtom(f.Atom, a.Negate()) {
					out = append(out, c55Cond{v, false})
				}
			}
		}
	}
	return out
}

func c55SameLeaves(a, b []ssa.Value) bool {
	sa, sb := map[ssa.Value]bool{}, map[ssa.Value]bool{}
	for _, v := range a {
		sa[v] = true
	}
	for _, v := range b {
		sb[v] = true
	}
	if len(sa) != len(sb) || len(sa) == 0 {
		return false
	}
	for v := range sa {
		if !sb[v] {
			return false
		}
	}
	return true
}

// c55CutOf: v is result #idx of a strings.Cut(s, ",") call; returns the call.
func c55CutOf(v ssa.Value, idx int) *ssa.Call {
	ex, ok := v.(*ssa.Extract)
	if !ok || ex.Index != idx {
		return nil
	}
	call, ok := ex.Tuple.(*ssa.Call)
	if !ok || CalleeName(&call.Call) != "strings.Cut" || len(call.Call.Args) != 2 || Term(call.Call.Args[1]) != `","` {
		return nil
	}
	return call
}

// c55CommaIndex: every value reaching v through phis is strings.IndexByte(s, ','); returns the leaves of the searched strings.
func c55CommaIndex(v ssa.Value) ([]ssa.Value, bool) {
	var searched []ssa.Value
	ls := PhiLeaves(v)
	if len(ls) == 0 {
		return nil, false
	}
	for _, l := range ls {
		call, ok := l.(*ssa.Call)
		if !ok || CalleeName(&call.Call) != "strings.IndexByte" || len(call.Call.Args) != 2 || Term(call.Call.Args[1]) != "44" {
			return nil, false
		}
		searched = append(searched, PhiLeaves(call.Call.Args[0])...)
	}
	return searched, true
}

// c55NoComma: the condition says that the remaining string holds no further ',': `!found` of strings.Cut(s, ","), or
// IndexByte(s, ',') == -1 (also written < 0). Returns the Cut call (or nil) and the leaves of the string s.
func c55NoComma(cd c55Cond) (cut *ssa.Call, rest []ssa.Value, ok bool) {
	if call := c55CutOf(cd.V, 2); call != nil {
		if cd.Val {
			return nil, nil, false
		}
		return call, PhiLeaves(call.Call.Args[0]), true
	}
	b, isBin := cd.V.(*ssa.BinOp)
	if !isBin {
		return nil, nil, false
	}
	x := b.X
	if _, isConst := x.(*ssa.Const); isConst {
		x = b.Y
	}
	searched, isIdx := c55CommaIndex(x)
	if !isIdx {
		return nil, nil, false
	}
	a := CondAtom(cd.V)
	if !cd.Val {
		a = a.Negate()
	}
	// x == -1  or  x <= -1
	want := Lin{Coef: map[string]int64{Term(x): 1}, K: 1}
	if !SameAtom(a, Atom{Kind: EQ, L: want}) && !SameAtom(a, Atom{Kind: LE, L: want}) {
		return nil, nil, false
	}
	return nil, searched, true
}

// c55Elem describes the string compared by one tokenEqual(trimOWS(e), token) call.
type c55Elem struct {
	Call *ssa.Call // the tokenEqual call
	Kind string    // "cut": elem of strings.Cut(v, ","); "head": v[:comma]; "whole": the remaining string, no comma left
	Cut  *ssa.Call
	Why  string // not an element
}

func c55ContainsToken(c *Ctx, fn *ssa.Function, te, trim string) {
	hv := "http/httpguts.headerValueContainsToken"
	elems := map[ssa.Value]*c55Elem{}
	why := ""
	for _, in := range Calls(te).F(c.P, fn) {
		call := in.(*ssa.Call)
		args := BaselineArgs(&call.Call)
		e := &c55Elem{Call: call}
		elems[call] = e
		tr, ok := args[0].(*ssa.Call)
		if !ok || CalleeName(&tr.Call) != trim || Term(args[1]) != "$1" {
			e.Why = "not a comparison of trimOWS(element) with the token"
			why = e.Why
			continue
		}
		el := tr.Call.Args[0]
		if cut := c55CutOf(el, 0); cut != nil {
			e.Kind, e.Cut = "cut", cut
			continue
		}
		if sl, ok := el.(*ssa.Slice); ok && sl.High != nil {
			lowOK := sl.Low == nil
			if !lowOK {
				if lo, ok := (&HxEval{}).Value(sl.Low); ok && lo == 0 {
					lowOK = true
				}
			}
			searched, isIdx := c55CommaIndex(sl.High)
			if lowOK && isIdx && c55SameLeaves(searched, PhiLeaves(sl.X)) {
				e.Kind = "head"
				continue
			}
		}
		// the whole remaining string: only when it holds no further comma
		for _, cd := range c55CondsAt(fn, call.Block(), nil) {
			if cut, rest, ok := c55NoComma(cd); ok && cut == nil && c55SameLeaves(rest, PhiLeaves(el)) {
				e.Kind = "whole"
			}
		}
		if e.Kind == "" {
			e.Why = "`" + Term(el) + "` is neither the part before the next ',' nor the remaining string known to hold no ','"
			why = e.Why
		}
	}
	if len(elems) == 0 {
		why = "no tokenEqual call"
	}
	c.Check(why == "", "split-loop", hv+": every string compared is one comma-separated element (strings.Cut elem, v[:comma], or the remainder without a comma)", fn.Pos(),
		fmt.Sprintf("%d comparison(s)", len(elems)), why)

	// lastCmp: cmp is the comparison of the LAST element as seen from block b
	lastCmp := func(cmp ssa.Value, b *ssa.BasicBlock) bool {
		e := elems[cmp]
		if e == nil || e.Why != "" {
			return false
		}
		switch e.Kind {
		case "whole":
			return true
		case "cut":
			for _, cd := range c55CondsAt(fn, b, nil) {
				if cut, _, ok := c55NoComma(cd); ok && cut == e.Cut {
					return true
				}
			}
		}
		return false
	}
	// results: true only under a true comparison (GuardP below); anything else is the verdict on the last element
	why = ""
	nret := 0
	for _, in := range Returns().F(c.P, fn) {
		r := in.(*ssa.Return)
		if len(r.Results) != 1 {
			continue
		}
		nret++
		v := r.Results[0]
		switch t := Term(v); {
		case t == "true":
		case elems[v] != nil:
			if !lastCmp(v, r.Block()) {
				why = "the result `" + t + "` is returned although further elements may follow"
			}
		case t == "false":
			ok := false
			for _, cd := range c55CondsAt(fn, r.Block(), nil) {
				if !cd.Val && elems[cd.V] != nil && lastCmp(cd.V, r.Block()) {
					ok = true
				}
			}
			if !ok {
				why = "false is returned without a failed comparison of the last element (no ',' left)"
			}
		default:
			why = "result `" + t + "` is neither true, false nor a tokenEqual verdict"
		}
	}
	c.Check(why == "" && nret > 0, "split-loop", hv+": false (or the verdict of tokenEqual itself) is returned only for the last element", fn.Pos(), fmt.Sprintf("%d return(s)", nret), why)

	// the loop moves on to the rest only after the current element failed the comparison
	why = ""
	nback := 0
	for _, b := range fn.Blocks {
		for _, h := range b.Succs {
			if !h.Dominates(b) {
				continue
			}
			nback++
			ok := false
			for _, cd := range c55CondsAt(fn, b, h) {
				if !cd.Val && elems[cd.V] != nil && elems[cd.V].Why == "" && elems[cd.V].Kind != "whole" {
					ok = true
				}
			}
			if !ok {
				why = "the loop continues with the rest without a failed comparison of the current element"
			}
		}
	}
	c.Check(why == "" && nback > 0, "split-loop", hv+": the next element is looked at only after tokenEqual(trimOWS(element), token) was false", fn.Pos(), fmt.Sprintf("%d back edge(s)", nback), why)
}

// c55TokenEqualStep tabulates one iteration of tokenEqual's loop for every pair (element of t1, byte of t2 at the same
// position): the iteration must return false exactly when the element is not ASCII or the two ASCII-lower-cased bytes
// differ, and go on otherwise. This states the comparison itself, whatever expression computes it.
func c55TokenEqualStep(c *Ctx, ev *Evaluator, te string) {
	rule := "table-exhaustive"
	construct := te + " per-position step = reject iff element >= 0x80 or lower(t1[i]) != lower(t2[i])"
	fn := c.MustFn(te)
	if fn == nil {
		return
	}
	l, err := ev.FindElemLoop(te)
	if err != nil {
		c.Undecided(rule, construct, err.Error())
		return
	}
	_, _, params, err := ev.Decl(te)
	if err != nil || len(params) != 2 {
		c.Undecided(rule, construct, "two string parameters expected")
		return
	}
	other := params[0]
	if other == l.Str {
		other = params[1]
	}
	lower := func(b int64) int64 {
		if b >= 'A' && b <= 'Z' {
			return b + 32
		}
		return b
	}
	elems := []int64{0x100, 0x7ff, 0xfffd, 0x10ffff}
	if !l.Rune {
		elems = nil
	}
	for b := int64(0); b < 256; b++ {
		elems = append(elems, b)
	}
	n := 0
	for _, b := range elems {
		for t := int64(0); t < 256; t++ {
			env := NewEnv()
			env.Strs[l.Str] = AbsStr{Len: 1, Elem: b}
			env.Strs[other] = AbsStr{Len: 1, Elem: t}
			if l.Elem != nil {
				env.Vars[l.Elem] = Int(b)
			}
			out, v, err := ev.Stmts(l.Pkg, l.Body.List, env)
			if err != nil {
				c.Undecided(rule, construct, "loop body not evaluable: "+err.Error())
				return
			}
			switch out {
			case "return":
				out = "return " + v.String()
			case "continue":
				out = "next"
			}
			want := "next"
			if b >= 0x80 || lower(b) != lower(t) {
				want = "return false"
			}
			if out != want {
				c.Fail(rule, construct, l.Body.Pos(), fmt.Sprintf("for element 0x%02x (%q) against byte 0x%02x (%q) the loop body does `%s`, the definition requires `%s`", b, rune(b), t, rune(t), out, want))
				return
			}
			n++
		}
	}
	c.OK(rule, construct, fmt.Sprintf("%d pairs evaluated", n))
}
