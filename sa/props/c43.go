package props

import (
	"go/token"
	"strings"

	"golang.org/x/tools/go/ssa"

	. "verif/sa/core"
)

func init() {
	Register(&Property{
		ID:    "C43",
		Floor: 120,
		Clauses: "webdav memLS, structural necessary conditions: every exported method and the release closure hold m.mu (balanced, deferred unlock) around every helper call, and the helpers / the byName, byToken maps / held, token, gen, refCount, expiry fields are touched only from those methods; " +
			"collectExpiredNodes(now) precedes every lookup / canCreate / byToken read in Confirm, Create, Refresh, Unlock and removes byExpiry[0] exactly when !now.Before(expiry); " +
			"Create returns ErrLocked unless canCreate on the slashCleaned root, and only then calls create, takes a token from nextToken and registers it in byToken; canCreate's callback returns false exactly under its three conflict conjunctions and walkToRoot stops at the first false and returns true only at \"/\"; " +
			"Refresh and Unlock reject unknown and held tokens before any mutation; lookup returns only unheld nodes that equal the name or are not zero-depth, with a \"/\"-terminated prefix test; " +
			"hold/unhold flip held under the opposite test, take a finite held lock out of / back into the expiry heap, infinite locks never enter the heap; Confirm drops a duplicate node before the second hold; " +
			"remove deletes the byToken entry before clearing the token, decrements every refCount to the root and deletes at zero, create increments every ancestor; nextToken strictly increments gen; panic sites of the API are inventoried.",
		NotCovered: "The lock-conflict semantics over histories (that the refcount tree and canCreate together exclude every overlapping pair), heap ordering of byExpiry (container/heap and the Less/Swap/Push/Pop methods are trusted), uint64 wrap of gen, Condition.Not/ETag, callers that pass non-monotone clocks.",
		Run:        c43,
	})
}

func c43(c *Ctx) {
	const M = "(*webdav.memLS)."
	const N = "webdav.memLSNode."
	lock, unlock := "(*sync.Mutex).Lock", "(*sync.Mutex).Unlock"
	mu := []LockOp{{Callee: lock, Kind: "acq"}, {Callee: unlock, Kind: "rel"}}
	collect, lookup, hold, unhold := M+"collectExpiredNodes", M+"lookup", M+"hold", M+"unhold"
	canCreate, create, remove, nextToken := M+"canCreate", M+"create", M+"remove", M+"nextToken"
	heapPush, heapRemove := "container/heap.Push", "container/heap.Remove"

	// ---- m.mu discipline
	for _, m := range []string{"Confirm", "Confirm$1", "Create", "Refresh", "Unlock"} {
		c.LockBalanced(M+m, mu)
	}
	c.HeldAt(M+"Confirm", Calls(collect, lookup, hold), "$r.mu", []string{lock}, []string{unlock})
	c.HeldAt(M+"Confirm$1", Calls(unhold), "^m.mu", []string{lock}, []string{unlock})
	c.HeldAt(M+"Create", Union(Calls(collect, canCreate, create, nextToken, heapPush), WdMapWrites("webdav.memLS.byToken")), "$r.mu", []string{lock}, []string{unlock})
	c.HeldAt(M+"Refresh", Union(Calls(collect, heapPush, heapRemove), Loads("webdav.memLS.byToken"), Stores("webdav.LockDetails.Duration")), "$r.mu", []string{lock}, []string{unlock})
	c.HeldAt(M+"Unlock", Union(Calls(collect, remove), Loads("webdav.memLS.byToken")), "$r.mu", []string{lock}, []string{unlock})
	// helpers run only inside those critical sections; shared state is written only by them
	c.Callers(collect, M+"Confirm", M+"Create", M+"Refresh", M+"Unlock")
	c.Callers(lookup, M+"Confirm")
	c.Callers(hold, M+"Confirm")
	c.Callers(unhold, M+"Confirm")
	c.Callers(canCreate, M+"Create")
	c.Callers(create, M+"Create")
	c.Callers(nextToken, M+"Create")
	c.Callers(remove, M+"Unlock", collect)
	c.Writers(N+"held", hold, unhold)
	c.Writers(N+"token", M+"Create", remove)
	c.Writers(N+"refCount", create, remove)
	c.Writers(N+"expiry", M+"Create", M+"Refresh")
	c.Writers("webdav.memLS.gen", nextToken, "webdav.NewMemLS")
	c.WdMapWriters("webdav.memLS.byToken", M+"Create", remove)
	c.WdMapWriters("webdav.memLS.byName", create, remove)

	// ---- expiry is processed first, with the caller's clock
	collectNow := Calls(collect).ArgIs(1, "$0")
	c.Before(M+"Confirm", collectNow, Calls(lookup))
	c.Before(M+"Create", collectNow, Calls(canCreate, create))
	c.Before(M+"Refresh", collectNow, Loads("webdav.memLS.byToken"))
	c.Before(M+"Unlock", collectNow, Loads("webdav.memLS.byToken"))
	// collectExpiredNodes: the heap minimum is removed unless now is before its expiry; nothing else is removed
	c.Reject(collect, Calls(remove), "Before($0,$r.byExpiry[0].expiry)")
	c.Guard(collect, Calls(remove), "len($r.byExpiry) > 0")
	c.Count(collect, Calls(remove).ArgIs(1, "$r.byExpiry[0]"), 1, 1)
	c.Count(collect, Calls(remove), 1, 1)
	// ... and the scan continues after a removal: the remove call lies on a cycle back to the length test
	c43Loops(c, collect, Calls(remove))

	// ---- Create
	cr := M + "Create"
	c.Reject(cr, Union(Calls(create, nextToken), WdMapWrites("webdav.memLS.byToken"), WdRetOKAny()), "!canCreate($r,$1.Root,$1.ZeroDepth)")
	c.Count(cr, WdRetIs(1, "webdav.ErrLocked"), 1, -1)
	c.WdGuardSelf(cr, WdRetIs(1, "webdav.ErrLocked"), "a failed canCreate", func(in ssa.Instruction) []string {
		return []string{"!canCreate($r,$1.Root,$1.ZeroDepth)"}
	})
	c.Before(cr, Calls("webdav.slashClean"), Calls(canCreate, create))
	c.ArgFrom(cr, Calls(canCreate), 1, "slashClean", IsCallTo("webdav.slashClean"))
	c.ArgFrom(cr, Calls(create), 1, "slashClean", IsCallTo("webdav.slashClean"))
	c.StoredFrom(cr, Stores(N+"token"), "nextToken", IsCallTo(nextToken))
	c.Count(cr, WdMapWrites("webdav.memLS.byToken"), 1, 1)
	c43MapKey(c, cr, "webdav.memLS.byToken", "the registered node's own token", func(mu *ssa.MapUpdate) bool {
		return Term(mu.Key) == Term(mu.Value)+".token" && Term(mu.Value) == "create($r,$1.Root)"
	})
	c.Before(cr, Stores(N+"token"), WdMapWrites("webdav.memLS.byToken"))
	c.PassThrough(cr, Calls(create), WdMapWrites("webdav.memLS.byToken"))
	c.PassThrough(cr, Calls(create), Stores(N+"details"))
	c.StoredFrom(cr, Stores(N+"expiry"), "now.Add", func(v ssa.Value) bool {
		call, ok := v.(*ssa.Call)
		return ok && IsCallTo("(time.Time).Add")(v) && Term(BaselineArgs(&call.Call)[0]) == "$0"
	})
	c.Reject(cr, Calls(heapPush), "create($r,$1.Root).details.Duration < 0")
	c.Before(cr, Stores(N+"expiry"), Calls(heapPush))
	c.Has(cr, Calls(heapPush).ArgIs(1, "create($r,$1.Root)"))

	// nextToken: strictly increasing generation, token is its decimal rendering
	c.Count(nextToken, Stores("webdav.memLS.gen").StoredIs("($r.gen+1)"), 1, 1)
	c.Count(nextToken, Stores("webdav.memLS.gen"), 1, 1)
	c.Before(nextToken, Stores("webdav.memLS.gen"), Calls("strconv.FormatUint"))
	c.Count(nextToken, WdRetIs(0, "FormatUint($r.gen,10)"), 1, -1)

	// canCreate: the verdict is walkToRoot's over the closure; closure logic
	c.Has(canCreate, Calls("webdav.walkToRoot").ArgIs(0, "$0").ArgIs(1, "closure:canCreate$1"))
	c.WdRetAll(canCreate, 0, "walkToRoot", IsCallTo("webdav.walkToRoot"))
	cc := canCreate + "$1"
	node := "^m.byName[$0]"
	conflicts := [][]string{
		{node + " != nil", "$1", node + `.token != ""`},
		{node + " != nil", "$1", node + `.token == ""`, "!^zeroDepth"},
		{node + " != nil", "!$1", node + `.token != ""`, "!" + node + ".details.ZeroDepth"},
	}
	for _, cj := range conflicts {
		c.Reject(cc, RetConst(0, "true"), cj...)
	}
	c.WdGuardAny(cc, RetConst(0, "false"), conflicts...)
	c.Count(cc, RetConst(0, "false"), 1, -1)

	// walkToRoot: stop at the first false, succeed only at the root
	wr := "webdav.walkToRoot"
	if fn := c.MustFn(wr); fn != nil {
		var cb *ssa.Call
		for _, in := range (Sel{Name: "callback", F: func(p *Prog, f *ssa.Function) []ssa.Instruction {
			var out []ssa.Instruction
			for _, b := range f.Blocks {
				for _, in := range b.Instrs {
					if call, ok := in.(*ssa.Call); ok && WdIsParam(f, 1)(call.Call.Value) {
						out = append(out, in)
					}
				}
			}
			return out
		}}).F(c.P, fn) {
			cb = in.(*ssa.Call)
		}
		if cb == nil {
			c.Undecided("anchor", wr+": call of the callback parameter", "not found")
		} else {
			c.Reject(wr, RetConst(0, "true"), "!"+Term(cb))
			c.WdGuardSelf(wr, RetConst(0, "false"), "a false callback result", func(ssa.Instruction) []string { return []string{"!" + Term(cb)} })
			c.WdGuardMatch(wr, RetConst(0, "true"), `name == "/"`, func(a Atom) bool {
				if a.Kind != EQ {
					return false
				}
				for _, t := range WdAtomTerms(a) {
					if t == `"/"` {
						return true
					}
				}
				return false
			})
			c.Check(WdIsParam(fn, 0)(BaselineArgs(&cb.Call)[0]) || DependsOn(BaselineArgs(&cb.Call)[0], WdIsParam(fn, 0)), "derives-from", wr+": callback name derives from the name parameter", cb.Pos(), "", "callback is not given the walked name")
		}
	}

	// create / remove: every node up to the root is counted
	c.Has(create, Calls("webdav.walkToRoot").ArgIs(0, "$0").ArgIs(1, "closure:create$1"))
	c.Count(create+"$1", RetConst(0, "false"), 0, 0)
	c.Count(create+"$1", RetConst(0, "true"), 1, -1)
	c.PassThrough(create+"$1", Sel{Name: "entry", F: func(p *Prog, f *ssa.Function) []ssa.Instruction { return []ssa.Instruction{f.Blocks[0].Instrs[0]} }}, Stores(N+"refCount"))
	c43Delta(c, create+"$1", N+"refCount", token.ADD)
	c.Guard(create+"$1", WdMapWrites("webdav.memLS.byName"), node+" == nil")
	c.Guard(create+"$1", Stores(N+"byExpiryIndex").StoredIs("-1"), node+" == nil")
	c.Has(remove, Calls("webdav.walkToRoot").ArgIs(0, "$0.details.Root").ArgIs(1, "closure:remove$1"))
	c.Count(remove+"$1", RetConst(0, "false"), 0, 0)
	c.Count(remove+"$1", RetConst(0, "true"), 1, -1)
	c43Delta(c, remove+"$1", N+"refCount", token.SUB)
	c.Guard(remove+"$1", WdMapWrites("webdav.memLS.byName"), node+".refCount == 0")
	c.Before(remove+"$1", Stores(N+"refCount"), WdMapWrites("webdav.memLS.byName"))
	c.Has(remove+"$1", Calls("builtin:delete").ArgIs(1, "$0"))
	// remove: byToken entry dropped under the still-set token, token cleared, heap entry dropped
	c.Before(remove, Calls("builtin:delete").ArgIs(0, "$r.byToken").ArgIs(1, "$0.token"), Stores(N+"token"))
	c.Count(remove, Stores(N+"token").StoredIs(`""`), 1, 1)
	c.PassThrough(remove, Stores(N+"token"), Calls("webdav.walkToRoot"))
	c.CallAfterIncl(remove, c.Edge("$0.byExpiryIndex >= 0"), heapRemove)
	c.Guard(remove, Calls(heapRemove), "$0.byExpiryIndex >= 0")
	c.Has(remove, Calls(heapRemove).ArgIs(1, "$0.byExpiryIndex"))

	// ---- Refresh / Unlock: unknown and held tokens are refused before any effect
	for _, m := range []string{"Refresh", "Unlock"} {
		fn := M + m
		n := "$r.byToken[$1]"
		effects := Union(WdRetOKAny(), Calls(heapPush, heapRemove, remove), Stores("webdav.LockDetails.Duration"), Stores(N+"expiry"))
		c.Reject(fn, effects, n+" == nil")
		c.Reject(fn, effects, n+".held")
		ei := 1
		if m == "Unlock" {
			ei = 0
		}
		c.WdGuardAny(fn, WdRetIs(ei, "webdav.ErrLocked"), []string{n + ".held"})
		c.WdGuardAny(fn, WdRetIs(ei, "webdav.ErrNoSuchLock"), []string{n + " == nil"})
	}
	c.Has(M+"Unlock", Calls(remove).ArgIs(1, "$r.byToken[$1]"))
	c.CallAfterIncl(M+"Unlock", c.Edge("!$r.byToken[$1].held"), remove)
	rf := M + "Refresh"
	c.Reject(rf, Calls(heapPush), "$r.byToken[$1].details.Duration < 0")
	c.Count(rf, Stores("webdav.LockDetails.Duration").StoredIs("$2"), 1, 1)
	c.Before(rf, Stores("webdav.LockDetails.Duration"), Calls(heapPush))
	c.Before(rf, Stores(N+"expiry"), Calls(heapPush))
	c.Guard(rf, Calls(heapRemove), "$r.byToken[$1].byExpiryIndex >= 0")
	c.CallAfterIncl(rf, c.Edge("$r.byToken[$1].byExpiryIndex >= 0"), heapRemove) // never pushed twice: the old heap entry is removed first
	c.StoredFrom(rf, Stores(N+"expiry"), "now.Add", func(v ssa.Value) bool {
		call, ok := v.(*ssa.Call)
		return ok && IsCallTo("(time.Time).Add")(v) && Term(BaselineArgs(&call.Call)[0]) == "$0"
	})

	// ---- Confirm / lookup / hold / unhold
	cf := M + "Confirm"
	c.Has(cf, Calls(lookup).ArgIs(1, "slashClean($1)").ArgIs(2, "$3"))
	c.Has(cf, Calls(lookup).ArgIs(1, "slashClean($2)").ArgIs(2, "$3"))
	c.Reject(cf, Union(WdRetOKAny(), Calls(hold)), `$1 != ""`, "lookup($r,slashClean($1),$3) == nil")
	// second name: the failing test is on the second lookup's result (held in a reassigned local)
	c43ConfirmSecond(c, cf, lookup, hold)
	c.Count(cf, Calls(hold), 2, 2)
	c.Guard(cf, Calls(hold).ArgIs(1, "lookup($r,slashClean($1),$3)"), "lookup($r,slashClean($1),$3) != nil")
	c.Count(cf+"$1", Calls(unhold), 2, 2)
	c.WdGuardSelf(cf+"$1", Calls(unhold), "its node != nil", func(in ssa.Instruction) []string {
		return []string{Term(BaselineArgs(&in.(*ssa.Call).Call)[1]) + " != nil"}
	})

	// lookup: only unheld nodes; exact name, or an infinite-depth ancestor via a "/"-terminated prefix
	nonNil := WdRetNot(0, "nil")
	retTerm := func(in ssa.Instruction) string { return Term(WdRetValue(in.(*ssa.Return), 0)) }
	c.WdGuardSelf(lookup, nonNil, "!n.held && n != nil for the returned n", func(in ssa.Instruction) []string {
		return []string{"!" + retTerm(in) + ".held", retTerm(in) + " != nil"}
	})
	c43LookupDepth(c, lookup, nonNil, retTerm)
	c.WdRetAll(lookup, 0, "byToken[condition.Token] (or nil)", func(v ssa.Value) bool {
		if k, ok := v.(*ssa.Const); ok && k.Value == nil {
			return true
		}
		lk, ok := v.(*ssa.Lookup)
		return ok && Term(lk.X) == "$r.byToken" && strings.HasSuffix(Term(lk.Index), ".Token")
	})
	c.Has(lookup, Calls("strings.HasPrefix").ArgIs(0, "$0").Where("prefix ends in \"/\"", func(in ssa.Instruction) bool {
		bo, ok := BaselineArgs(&in.(*ssa.Call).Call)[1].(*ssa.BinOp)
		return ok && bo.Op == token.ADD && Term(bo.Y) == `"/"` && strings.HasSuffix(Term(bo.X), ".details.Root")
	}))
	c.Count(lookup, Calls("strings.HasPrefix"), 1, 1)

	c.Reject(hold, Stores(N+"held"), "$0.held")
	c.Count(hold, Stores(N+"held").StoredIs("true"), 1, 1)
	c.Count(hold, Stores(N+"held"), 1, 1)
	c.HasBranch(hold, "$0.details.Duration >= 0") // a finite held lock leaves the heap
	c.CallAfterIncl(hold, c.Edge("$0.byExpiryIndex >= 0"), heapRemove)
	c.Guard(hold, Calls(heapRemove), "$0.byExpiryIndex >= 0")
	c.Has(hold, Calls(heapRemove).ArgIs(1, "$0.byExpiryIndex"))
	c.Reject(unhold, Stores(N+"held"), "!$0.held")
	c.Count(unhold, Stores(N+"held").StoredIs("false"), 1, 1)
	c.Count(unhold, Stores(N+"held"), 1, 1)
	c.Reject(unhold, Calls(heapPush), "$0.details.Duration < 0")
	c.CallAfterIncl(unhold, c.Edge("$0.details.Duration >= 0"), heapPush) // ... and comes back when released
	c.Has(unhold, Calls(heapPush).ArgIs(1, "$0"))

	// ---- panic sites reachable from the API
	c.PanicInventory([]string{M + "Confirm", M + "Confirm$1", M + "Create", M + "Refresh", M + "Unlock"}, nil, map[string]Inv{
		collect:             {Sites: "idx=1", Why: "byExpiry[0] under len(byExpiry) > 0 (guard obligation above)"},
		hold:                {Sites: "panic=1", Why: "consistency panic: lookup returns only unheld nodes and Confirm drops the duplicate node (obligations above)"},
		unhold:              {Sites: "panic=1", Why: "consistency panic: the release closure unholds exactly the nodes Confirm held"},
		"webdav.walkToRoot": {Sites: "idx=1", Why: "name[:LastIndex(name,\"/\")]: names are slashCleaned (rooted), so a \"/\" exists while name != \"/\""},
	})
}

// c43Loops: every selected site can reach itself again (it is inside a loop).
func c43Loops(c *Ctx, fnName string, sel Sel) {
	rule, construct := "loop", fnName+": ["+sel.Name+"] is repeated until the guard fails"
	fn := c.MustFn(fnName)
	if fn == nil {
		return
	}
	ins := sel.F(c.P, fn)
	if len(ins) == 0 {
		c.Undecided(rule, construct, "no such site")
		return
	}
	for _, in := range ins {
		ok := false
		for _, s := range in.Block().Succs {
			if WdBlockReaches(s, in) {
				ok = true
			}
		}
		if !ok {
			c.Fail(rule, construct, InstrPos(in), "`"+DescribeInstr(in)+"` is not on a cycle: only one expired lock would be collected per call")
			return
		}
	}
	c.OK(rule, construct, "")
}

// c43MapKey: every update of the map field satisfies pred.
func c43MapKey(c *Ctx, fnName, field, desc string, pred func(*ssa.MapUpdate) bool) {
	rule, construct := "derives-from", fnName+": key of ["+field+"] update is "+desc
	fn := c.MustFn(fnName)
	if fn == nil {
		return
	}
	n := 0
	for _, in := range WdMapWrites(field).F(c.P, fn) {
		mu, ok := in.(*ssa.MapUpdate)
		if !ok {
			continue
		}
		n++
		if !pred(mu) {
			c.Fail(rule, construct, InstrPos(in), "update ["+Term(mu.Key)+"] = "+Term(mu.Value)+" is not of that form")
			return
		}
	}
	if n == 0 {
		c.Undecided(rule, construct, "no map update")
		return
	}
	c.OK(rule, construct, "")
}

// c43Delta: every store to the field stores (old value of the same location) op 1.
func c43Delta(c *Ctx, fnName, field string, op token.Token) {
	rule, construct := "update-shape", fnName+": "+field+" changes by exactly "+op.String()+"1"
	fn := c.MustFn(fnName)
	if fn == nil {
		return
	}
	ins := Stores(field).F(c.P, fn)
	if len(ins) != 1 {
		c.Fail(rule, construct, fn.Pos(), "expected exactly one store per visited node")
		return
	}
	st := ins[0].(*ssa.Store)
	bo, ok := st.Val.(*ssa.BinOp)
	if !ok || bo.Op != op || Term(bo.Y) != "1" || "&"+Term(bo.X) != Term(st.Addr) {
		c.Fail(rule, construct, st.Pos(), "stored value is `"+Term(st.Val)+"`")
		return
	}
	c.OK(rule, construct, "")
}

// c43ConfirmSecond: the second lookup's nil result is refused, and a node equal
// to the first is dropped before the second hold.
func c43ConfirmSecond(c *Ctx, cf, lookup, hold string) {
	fn := c.MustFn(cf)
	if fn == nil {
		return
	}
	isLookup := func(arg string) func(ssa.Value) bool {
		return func(v ssa.Value) bool {
			call, ok := v.(*ssa.Call)
			return ok && IsCallTo(lookup)(v) && Term(BaselineArgs(&call.Call)[1]) == arg
		}
	}
	first, second := isLookup("slashClean($1)"), isLookup("slashClean($2)")
	fromFirst := func(v ssa.Value) bool { return DependsOn(v, first) && !DependsOn(v, second) }
	fromSecond := func(v ssa.Value) bool { return DependsOn(v, second) }
	isNil := func(v ssa.Value) bool { k, ok := v.(*ssa.Const); return ok && k.Value == nil }
	holds := Calls(hold).F(c.P, fn)
	var hold2 []ssa.Instruction
	for _, h := range holds {
		if fromSecond(BaselineArgs(&h.(*ssa.Call).Call)[1]) {
			hold2 = append(hold2, h)
		}
	}
	rule := "reject-before"
	// (a) nil second lookup -> no successful return, no hold
	construct := cf + `: when $2 != "" and the second lookup is nil never [hold | return <nil error>]`
	ok := false
	for _, ifi := range WdCmpBranches(fn, fromSecond, isNil) {
		eq, _ := WdEqEdge(ifi)
		bad := false
		for _, s := range append(WdRetOKAny().F(c.P, fn), holds...) {
			if WdBlockReaches(eq, s) {
				bad = true
			}
		}
		// the test must directly follow the lookup (same block) so that it is about this call's result
		inBlk := false
		for _, in := range ifi.Block().Instrs {
			if v, isV := in.(ssa.Value); isV && second(v) {
				inBlk = true
			}
		}
		if !bad && inBlk {
			ok = true
		}
	}
	c.Check(ok, rule, construct, fn.Pos(), "", "no branch on (second lookup result == nil) that leaves without holding / succeeding")
	// (b) duplicate node dropped
	construct = cf + ": when both lookups return the same node the second hold is skipped"
	if len(hold2) != 1 {
		c.Fail(rule, construct, fn.Pos(), "expected exactly one hold of the second lookup's node")
		return
	}
	ok = false
	for _, ifi := range WdCmpBranches(fn, fromFirst, fromSecond) {
		eq, _ := WdEqEdge(ifi)
		if !WdInstrDominates(ifi, hold2[0]) {
			continue
		}
		// on the equal edge the local is reset: the value held must then be nil-tested away.
		// Structural form accepted: the equal edge stores nil into the slot the second hold reads.
		reset := false
		for _, in := range eq.Instrs {
			if st, isSt := in.(*ssa.Store); isSt && isNil(st.Val) {
				if u, isU := BaselineArgs(&hold2[0].(*ssa.Call).Call)[1].(*ssa.UnOp); isU && u.X == st.Addr {
					reset = true
				}
			}
		}
		if reset || !WdBlockReaches(eq, hold2[0]) {
			ok = true
		}
	}
	c.Check(ok, rule, construct, hold2[0].Pos(), "", "no dominating test (first node == second node) that clears the second node or skips its hold: the same lock would be held twice (panic)")
	// the second hold is under a non-nil test of its own argument
	c.WdGuardSelf(cf, Sel{Name: "second hold", F: func(*Prog, *ssa.Function) []ssa.Instruction { return hold2 }}, "its node != nil", func(in ssa.Instruction) []string {
		return []string{Term(BaselineArgs(&in.(*ssa.Call).Call)[1]) + " != nil"}
	})
}

// c43LookupDepth: every non-nil return of lookup is under (name == n.Root) or under !n.ZeroDepth;
// in the latter case also under (n.Root == "/") or the HasPrefix test.
func c43LookupDepth(c *Ctx, lookup string, nonNil Sel, retTerm func(ssa.Instruction) string) {
	rule := "guard-before"
	construct := lookup + ": a node is returned only for its own root, or, unless zero-depth, for a descendant of its root"
	fn := c.MustFn(lookup)
	if fn == nil {
		return
	}
	ins := nonNil.F(c.P, fn)
	if len(ins) == 0 {
		c.Undecided(rule, construct, "no non-nil return")
		return
	}
	has := func(in ssa.Instruction, spec string) bool {
		a, err := c.P.ParseAtom(spec)
		if err != nil {
			return false
		}
		for _, f := range FactsAtInstr(in) {
			if SameAtom(f.Atom, a) {
				return true
			}
		}
		return false
	}
	exact, desc := 0, 0
	for _, in := range ins {
		n := retTerm(in)
		switch {
		case has(in, "$0 == "+n+".details.Root"):
			exact++
		case has(in, "!"+n+".details.ZeroDepth"):
			desc++
			// reached from (Root == "/") or from HasPrefix: every predecessor edge carries one of them
			for _, p := range in.Block().Preds {
				ifi, ok := p.Instrs[len(p.Instrs)-1].(*ssa.If)
				if !ok {
					c.Fail(rule, construct, InstrPos(in), "descendant return reachable without a prefix test")
					return
				}
				rootSlash, _ := c.P.ParseAtom(n + `.details.Root == "/"`)
				okEdge := true
				a := CondAtom(ifi.Cond)
				alts := EdgeAlternatives(ifi, p.Succs[0] == in.Block())
				if len(alts) == 0 {
					okEdge = false
				}
				for _, alt := range alts {
					okAlt := false
					for _, f := range alt {
						if SameAtom(f.Atom, rootSlash) {
							okAlt = true
						}
						if f.Atom.Kind == TRUE {
							for _, t := range WdAtomTerms(f.Atom) {
								if strings.HasPrefix(t, "HasPrefix($0,("+n+`.details.Root+"/")`) {
									okAlt = true
								}
							}
						}
					}
					okEdge = okEdge && okAlt
				}
				if !okEdge {
					c.Fail(rule, construct, InstrPos(in), "descendant return entered on edge `"+a.String()+"`, which is neither Root == \"/\" nor the HasPrefix test")
					return
				}
			}
		default:
			c.Fail(rule, construct, InstrPos(in), "`"+DescribeInstr(in)+"` is neither under name == Root nor under !ZeroDepth")
			return
		}
	}
	if exact == 0 || desc == 0 {
		c.Fail(rule, construct, fn.Pos(), "exact-match or descendant return missing")
		return
	}
	c.OK(rule, construct, "")
}
