package props

import (
	"fmt"

	"golang.org/x/tools/go/ssa"

	. "verif/sa/core"
)

func init() {
	Register(&Property{
		ID:    "C46",
		Floor: 42,
		Clauses: "webdav COPY/MOVE, structural necessary conditions: in Handler.handleCopyMove the source==destination test compares two canonicalised paths (both operands are slashClean/path.Clean results, one of the stripPrefix'ed request path, one of the stripPrefix'ed Destination path), its equal edge reaches neither copyFiles nor moveFiles and the test dominates both; an empty destination is refused first; " +
			"copyFiles/moveFiles receive exactly the tested (src, dst) in that order, copyFiles only under Method == \"COPY\" and moveFiles only otherwise, after confirmLocks; they have no other callers (copyFiles also recurses, with src-derived src, dst-derived dst and recursion+1 under the 1000 bound); " +
			"copyFiles opens src read-only (flag 0) before any RemoveAll, every RemoveAll/Mkdir/writable OpenFile is on dst, RemoveAll(dst) only when dst exists and overwrite is set, io.Copy writes into the dst file from the src file, and copyFiles never renames; " +
			"moveFiles calls RemoveAll only on dst, only when dst exists and overwrite is set, never when !overwrite and dst exists (412 without touching anything), Rename(src, dst) is the only operation on src, and a nil error is returned only after Rename returned nil.",
		NotCovered: "Destination inside the source tree (COPY /a to /a/b) and source inside destination; lock interplay beyond the presence of confirmLocks; the FileSystem implementation's own Rename/RemoveAll behaviour (C44/C45); equivalence of spellings beyond what slashClean normalises (percent-encoding is decoded by net/url before this code).",
		Run:        c46,
	})
}

func c46(c *Ctx) {
	const H = "(*webdav.Handler)."
	hcm := H + "handleCopyMove"
	copyF, moveF := "webdav.copyFiles", "webdav.moveFiles"
	work := Calls(copyF, moveF)
	fn := c.MustFn(hcm)
	if fn == nil {
		return
	}
	// the two stripPrefix calls: request path and Destination path
	var srcCall, dstCall *ssa.Call
	for _, in := range Calls(H+"stripPrefix").F(c.P, fn) {
		call := in.(*ssa.Call)
		switch a := BaselineArgs(&call.Call)[1]; {
		case Term(a) == "$1.URL.Path":
			srcCall = call
		case DependsOn(a, IsCallTo("net/url.Parse")):
			dstCall = call
		}
	}
	if srcCall == nil || dstCall == nil {
		c.Undecided("anchor", hcm+": stripPrefix of the request path and of the Destination path", "not found")
		return
	}
	c.Check(DependsOn(BaselineArgs(&dstCall.Call)[1], func(v ssa.Value) bool {
		call, ok := v.(*ssa.Call)
		return ok && IsCallTo("(net/http.Header).Get")(v) && Term(BaselineArgs(&call.Call)[1]) == `"Destination"`
	}), "derives-from", hcm+": destination derives from the Destination header", dstCall.Pos(), "", "dst does not come from the Destination header")
	src, dst := Term(srcCall)+"#0", Term(dstCall)+"#0"
	isSrc := func(v ssa.Value) bool { e, ok := v.(*ssa.Extract); return ok && e.Tuple == srcCall && e.Index == 0 }
	isDst := func(v ssa.Value) bool { e, ok := v.(*ssa.Extract); return ok && e.Tuple == dstCall && e.Index == 0 }
	fromSrc := func(v ssa.Value) bool { return WdIsStringType(v) && DependsOn(v, isSrc) && !DependsOn(v, isDst) }
	fromDst := func(v ssa.Value) bool { return WdIsStringType(v) && DependsOn(v, isDst) && !DependsOn(v, isSrc) }

	// ---- F2: the equality test is on canonical forms
	rule := "canonical-compare"
	construct := hcm + ": both operands of the source==destination test are canonicalised (slashClean/path.Clean)"
	tests := WdCmpBranches(fn, fromSrc, fromDst)
	canon := IsCallTo("webdav.slashClean", "path.Clean")
	var good []*ssa.If
	if len(tests) == 0 {
		c.Fail(rule, construct, fn.Pos(), "no comparison between the source and the destination path at all")
	} else {
		ok := true
		for _, ifi := range tests {
			x, y := WdCmpOperands(ifi)
			if canon(x) && canon(y) {
				good = append(good, ifi)
				continue
			}
			ok = false
			c.Fail(rule, construct, ifi.Cond.Pos(), fmt.Sprintf("`%s` compares `%s` with `%s`: a Destination spelled /a/, /a/. or /b/../a passes the test and the overwrite step removes the source", DescribeInstr(ifi), Term(x), Term(y)))
		}
		if ok {
			c.OK(rule, construct, fmt.Sprintf("%d test(s)", len(good)))
		}
	}
	construct = hcm + ": the canonical source==destination test dominates copyFiles/moveFiles and its equal edge reaches neither"
	okDom := false
	for _, ifi := range good {
		eq, _ := WdEqEdge(ifi)
		all := true
		for _, w := range work.F(c.P, fn) {
			if !WdInstrDominates(ifi, w) || WdBlockReaches(eq, w) {
				all = false
			}
		}
		if all {
			okDom = true
		}
	}
	c.Check(okDom && len(work.F(c.P, fn)) >= 2, "reject-before", construct, fn.Pos(), "", "copyFiles/moveFiles reachable without (or on the equal edge of) the canonical test")
	// the same thing in atom form, with the operands being exactly slashClean of the two stripPrefix results
	c.Reject(hcm, work, "slashClean("+src+") == slashClean("+dst+")")
	c.Reject(hcm, work, dst+` == ""`)
	c.Reject(hcm, work, `Get($1.Header,"Destination") == ""`)

	// ---- the tested pair is the pair operated on
	c.Count(hcm, Calls(copyF).ArgIs(2, src).ArgIs(3, dst), 1, 1)
	c.Count(hcm, Calls(copyF), 1, 1)
	c.Count(hcm, Calls(moveF).ArgIs(2, src).ArgIs(3, dst), 1, 1)
	c.Count(hcm, Calls(moveF), 1, 1)
	c.Guard(hcm, Calls(copyF), `$1.Method == "COPY"`)
	c.Guard(hcm, Calls(moveF), `$1.Method != "COPY"`)
	c.Before(hcm, Calls(H+"confirmLocks"), work)
	c.Has(hcm, Calls(H+"confirmLocks").ArgIs(2, src).ArgIs(3, dst))  // MOVE claims both
	c.Has(hcm, Calls(H+"confirmLocks").ArgIs(2, `""`).ArgIs(3, dst)) // COPY claims the destination
	c.Has(hcm, Calls(copyF).ArgIs(6, "0"))
	c.Callers(copyF, hcm, copyF)
	c.Callers(moveF, hcm)
	c.Callers(hcm, H+"ServeHTTP")

	// ---- copyFiles (interface calls: Args exclude the receiver, so ctx=0, name=1, ...)
	isArg := func(i int, term string) func(ssa.Instruction) bool {
		return func(in ssa.Instruction) bool {
			a := BaselineArgs(in.(ssa.CallInstruction).Common())
			return i < len(a) && Term(a[i]) == term
		}
	}
	not := func(p func(ssa.Instruction) bool) func(ssa.Instruction) bool {
		return func(in ssa.Instruction) bool { return !p(in) }
	}
	srcOpen := Calls(".OpenFile").Where("name=src", isArg(1, "$2"))
	c.Count(copyF, srcOpen.Where("flag=O_RDONLY", isArg(2, "0")), 1, 1)
	c.Count(copyF, Calls(".OpenFile").Where("name≠dst and flag≠O_RDONLY", func(in ssa.Instruction) bool {
		return !isArg(1, "$3")(in) && !isArg(2, "0")(in)
	}), 0, 0)
	c.Before(copyF, srcOpen, Calls(".RemoveAll", ".Mkdir"))
	c.Count(copyF, Calls(".RemoveAll").Where("name≠dst", not(isArg(1, "$3"))), 0, 0)
	c.Count(copyF, Calls(".Mkdir").Where("name≠dst", not(isArg(1, "$3"))), 0, 0)
	c.Count(copyF, Calls(".Rename"), 0, 0)
	c.Count(copyF, Calls(".RemoveAll"), 1, -1)
	c.Guard(copyF, Calls(".RemoveAll"), "$4", ".Stat($1,$0,$3)#1 == nil")
	c.Reject(copyF, Calls(".RemoveAll", ".Mkdir"), "!$4", ".Stat($1,$0,$3)#1 == nil")
	isOpenOf := func(name string) func(ssa.Value) bool {
		return func(v ssa.Value) bool {
			call, ok := v.(*ssa.Call)
			return ok && call.Call.IsInvoke() && call.Call.Method.Name() == "OpenFile" && Term(BaselineArgs(&call.Call)[1]) == name
		}
	}
	fileOf := func(v ssa.Value, name string) bool {
		for {
			switch x := v.(type) {
			case *ssa.ChangeInterface:
				v = x.X
				continue
			case *ssa.MakeInterface:
				v = x.X
				continue
			}
			break
		}
		e, ok := v.(*ssa.Extract)
		return ok && e.Index == 0 && isOpenOf(name)(e.Tuple)
	}
	c.Count(copyF, Calls("io.Copy").Where("into the file opened at dst, from the file opened at src", func(in ssa.Instruction) bool {
		a := BaselineArgs(&in.(*ssa.Call).Call)
		return fileOf(a[0], "$3") && fileOf(a[1], "$2")
	}), 1, 1)
	c.Count(copyF, Calls("io.Copy"), 1, 1)
	if cf := c.MustFn(copyF); cf != nil {
		rec := Calls(copyF)
		joinHead := func(v ssa.Value) string {
			call, ok := v.(*ssa.Call)
			if !ok || !IsCallTo("path.Join")(v) {
				return ""
			}
			head := ""
			Backward(BaselineArgs(&call.Call)[0], func(x ssa.Value) bool {
				if a, ok := x.(*ssa.Alloc); ok {
					for _, r := range *a.Referrers() {
						if ia, ok := r.(*ssa.IndexAddr); ok && Term(ia.Index) == "0" {
							for _, u := range *ia.Referrers() {
								if st, ok := u.(*ssa.Store); ok && st.Addr == ia {
									head = Term(st.Val)
								}
							}
						}
					}
					return false
				}
				return true
			})
			return head
		}
		c.Count(copyF, rec.Where("src=path.Join(src,…), dst=path.Join(dst,…)", func(in ssa.Instruction) bool {
			a := BaselineArgs(&in.(*ssa.Call).Call)
			return joinHead(a[2]) == "$2" && joinHead(a[3]) == "$3"
		}), 1, 1)
		c.Count(copyF, rec.ArgIs(6, "($6+1)").ArgIs(4, "$4").ArgIs(1, "$1"), 1, 1)
		c.Count(copyF, rec, 1, 1)
		c.Reject(copyF, Union(Calls(".OpenFile"), rec), "$6 == 1000")
	}

	// ---- moveFiles
	c.Count(moveF, Calls(".RemoveAll").Where("name≠dst", not(isArg(1, "$3"))), 0, 0)
	c.Count(moveF, Calls(".RemoveAll"), 1, -1)
	c.Guard(moveF, Calls(".RemoveAll"), "$4", ".Stat($1,$0,$3)#1 == nil")
	c.Reject(moveF, Calls(".RemoveAll", ".Rename"), "!$4", ".Stat($1,$0,$3)#1 == nil")
	c.Count(moveF, Calls(".Rename").Where("(src,dst)", func(in ssa.Instruction) bool { return isArg(1, "$2")(in) && isArg(2, "$3")(in) }), 1, 1)
	c.Count(moveF, Calls(".Rename"), 1, 1)
	c.Count(moveF, Calls(".OpenFile", ".Mkdir"), 0, 0)
	c.Reject(moveF, WdRetOKAny(), ".Rename($1,$0,$2,$3) != nil")
	c.Before(moveF, Calls(".Rename"), WdRetOKAny())
	c.NeverAfter(moveF, c.Edge(".RemoveAll($1,$0,$3) != nil"), Calls(".Rename"), true)
	c.Reject(moveF, Calls(".Rename", ".RemoveAll"), ".Stat($1,$0,$3)#1 != nil", "!IsNotExist(.Stat($1,$0,$3)#1)")
	// everything done to src in moveFiles is that Rename
	if mf := c.MustFn(moveF); mf != nil {
		n, bad := 0, ""
		for _, b := range mf.Blocks {
			for _, in := range b.Instrs {
				ci, ok := in.(ssa.CallInstruction)
				if !ok {
					continue
				}
				for _, a := range BaselineArgs(ci.Common()) {
					if WdIsParam(mf, 2)(a) {
						n++
						if !ci.Common().IsInvoke() || ci.Common().Method.Name() != "Rename" {
							bad = DescribeInstr(in)
						}
					}
				}
			}
		}
		c.Check(n == 1 && bad == "", "call-args", moveF+": src is passed only to fs.Rename", mf.Pos(), "", "src is also used by `"+bad+"`")
	}
}
