package props

import (
	"fmt"
	"go/token"

	"golang.org/x/tools/go/ssa"

	. "verif/sa/core"
)

func init() {
	Register(&Property{
		ID:    "C20",
		Floor: 60,
		Clauses: "send side: connOutflow.used is written only by consume, consume is called only from Stream.appendOutFramesLocked, Stream.outmaxsent is written only there; " +
			"the size handed to appendStreamFrame is, whenever off+size exceeds outmaxsent, cut by min(…, outmaxsent+outflow.avail()); dataToSend gets both bounds clipped to outwin; " +
			"consume(end-outmaxsent) and outmaxsent=end are paired, guarded by end>outmaxsent, end is offset+length of the frame actually appended, and that test is passed on every path after a successful append; " +
			"ranges enter outunsent only clipped to outwin (flushLocked) or to the new MAX_STREAM_DATA (handleMaxStreamData). " +
			"Monotone limits: every store to Stream.outwin, connOutflow.max, localStreamLimits.max, remoteStreamLimits.max after initialisation is max(old,…) or guarded by new>old; " +
			"connInflow.newLimit only grows by the swapped read credit, sentLimit is set to the newLimit that was framed, after the frame was appended; Stream.inwin is set to the framed MAX_STREAM_DATA value after the frame was appended; writers of all these fields are closed sets. " +
			"receive side: checkStreamBounds rejects end>inwin with FLOW_CONTROL_ERROR and is the first, rejecting step of handleData/handleReset; handleStreamBytesReceived adds before comparing usedLimit>sentLimit, rejects with FLOW_CONTROL_ERROR, " +
			"is reached on every path on which a frame extends the stream, and its failure prevents storing; errors reach Conn.abort.",
		NotCovered: "arithmetic over histories (that outmaxsent<=outwin and sum of outmaxsent<=max hold inductively: needs rangeset semantics and the invariant outunsent⊆[0,outwin)); " +
			"monotonicity of Stream.inwin (= in.start+inmaxbuf, needs pipe.start monotone); non-negativity of the read credit; the transport-parameter initial values; connection-level credit return (C10-like refund accounting).",
		Run: c20,
	})
}

func c20(c *Ctx) {
	const S = "(*quic.Stream)."
	aof := S + "appendOutFramesLocked"
	consume := "(*quic.connOutflow).consume"
	asfName := "(*quic.packetWriter).appendStreamFrame"
	add := "(*quic.rangeset[int64]).add[int64]"

	// ---- ownership
	c.Writers("quic.connOutflow.used", consume)
	c.QaStoreShapes(consume, "quic.connOutflow.used", "add:$0")
	c.Callers(consume, aof)
	c.Writers("quic.Stream.outmaxsent", aof)
	c.Writers("quic.connOutflow.max", "(*quic.connOutflow).setMaxData")
	c.Writers("quic.Stream.outwin", S+"handleMaxStreamData", "(*quic.Conn).newLocalStream", "(*quic.Conn).streamForFrame")
	c.Callers(asfName, aof, "(quic.debugFrameStream).write")
	if dw := c.MustFn("(quic.debugFrameStream).write"); dw != nil {
		refs := c.P.FuncRefs(dw)
		c.Check(len(refs) == 0, "callers", "(quic.debugFrameStream).write (test-only STREAM writer that bypasses flow control) is not referenced by non-test code", dw.Pos(),
			"no static call, interface call or value reference", fmt.Sprintf("%d reference(s) from non-test code", len(refs)))
	}
	c.Has("(*quic.connOutflow).avail", QaResultIs(0, "($r.max-$r.used)"))

	// ---- clamp before appendStreamFrame
	const DTS = "dataToSend(min($r.out.start,$r.outwin),min($r.outflushed,$r.outwin),$r.outunsent,$r.outacked,$2)"
	asf := Calls(asfName)
	// frame offset + frame size never exceeds what flow control allows: it stays
	// within outmaxsent (no new credit needed), or is cut to outmaxsent+outflow.avail()
	// (floored at the offset, i.e. size 0). Proved over the values reaching the
	// call, so min()/max() and explicit if-clamps are the same to the rule.
	c.Q1ArgSumBounded(aof, asf, 3, 2, "offset+size is bounded by outmaxsent, or cut to min(…, outmaxsent+outflow.avail()) floored at the offset",
		"$r.outmaxsent", "$r.outmaxsent + avail(&$r.conn.streams.outflow)", "arg:2")
	c.Has(aof, asf.ArgIs(2, DTS+"#0"))
	dts := Calls("quic.dataToSend")
	c.QaArgSatisfies(aof, dts, 0, "min(…, outwin)", QaMinWith("$r.outwin"))
	c.QaArgSatisfies(aof, dts, 1, "min(…, outwin)", QaMinWith("$r.outwin"))
	c.Count(aof, dts, 1, 1)
	c.Count(aof, asf, 1, 1)

	// ---- paired accounting after a successful append
	qaC20accounting(c, aof)

	// ---- what may become sendable
	fl := S + "flushLocked"
	c.QaArgSatisfies(fl, Calls(add).ArgIs(0, "&$r.outunsent"), 2, "min(outwin, …)", QaMinWith("$r.outwin"))
	c.Guard(fl, Calls(add).ArgIs(0, "&$r.outunsent"), "$r.outflushed < $r.outwin")
	hm := S + "handleMaxStreamData"
	c.QaArgSatisfies(hm, Calls(add).ArgIs(0, "&$r.outunsent"), 2, "min(new limit, …)", QaMinWith("$0"))
	c.NeverAfter(hm, Stores("quic.Stream.outwin"), Calls(add).ArgIs(0, "&$r.outunsent"), false)

	// ---- monotone limits the peer gave us / we gave the peer
	c.QaStoreShapes(hm, "quic.Stream.outwin", "guarded", "max")
	c.Has(hm, Stores("quic.Stream.outwin").StoredIs("$0"))
	c.QaStoreShapes("(*quic.connOutflow).setMaxData", "quic.connOutflow.max", "max", "guarded")
	c.Has("(*quic.Conn).handleMaxDataFrame", Calls("(*quic.connOutflow).setMaxData").ArgIs(1, "consumeMaxDataFrame($1)#0"))
	c.Has("(*quic.Conn).handleMaxStreamDataFrame", Calls(hm).ArgIs(1, "consumeMaxStreamDataFrame($1)#1"))
	c.Writers("quic.localStreamLimits.max", "(*quic.localStreamLimits).setMax")
	c.QaStoreShapes("(*quic.localStreamLimits).setMax", "quic.localStreamLimits.max", "max", "guarded")
	c.Writers("quic.remoteStreamLimits.max", "(*quic.remoteStreamLimits).init", "(*quic.remoteStreamLimits).maybeUpdateMax")
	c.QaStoreShapes("(*quic.remoteStreamLimits).maybeUpdateMax", "quic.remoteStreamLimits.max", "guarded", "max")
	// MAX_DATA we advertise
	amd := "(*quic.Conn).appendMaxDataFrame"
	c.Writers("quic.connInflow.newLimit", "(*quic.Conn).inflowInit", "(*quic.Conn).sendMaxDataUpdate", amd)
	c.Writers("quic.connInflow.sentLimit", "(*quic.Conn).inflowInit", amd)
	c.QaStoreShapes(amd, "quic.connInflow.newLimit", "add:Swap(&$r.streams.inflow.credit,0)")
	c.QaStoreShapes("(*quic.Conn).sendMaxDataUpdate", "quic.connInflow.newLimit", "add:Swap(&$r.streams.inflow.credit,0)")
	wmd := Calls("(*quic.packetWriter).appendMaxDataFrame")
	c.Has(amd, wmd.ArgIs(1, "$r.streams.inflow.newLimit"))
	c.Has(amd, Stores("quic.connInflow.sentLimit").StoredIs("$r.streams.inflow.newLimit"))
	c.Guard(amd, Stores("quic.connInflow.sentLimit"), "appendMaxDataFrame($0,$r.streams.inflow.newLimit)")
	c.NeverAfter(amd, wmd, Stores("quic.connInflow.newLimit"), false)
	c.Has("(*quic.Conn).inflowInit", Stores("quic.connInflow.newLimit").StoredIs("$r.streams.inflow.sentLimit"))
	// MAX_STREAM_DATA we advertise
	aif := S + "appendInFramesLocked"
	c.Writers("quic.Stream.inwin", aif, "(*quic.Conn).newLocalStream", "(*quic.Conn).streamForFrame")
	qaC20framedValueStored(c, aif, "(*quic.packetWriter).appendMaxStreamDataFrame", 2, "quic.Stream.inwin")

	// ---- receive side enforcement
	csb := S + "checkStreamBounds"
	c.Reject(csb, RetOK(), "$0 > $r.inwin")
	fc, _ := c.P.ConstInt("quic.errFlowControl")
	code := Stores("quic.localTransportError.code").StoredIs(fmt.Sprint(fc))
	c.Has(csb, c.QaUnder(code, "$0 > $r.inwin"))
	c.Callers(csb, S+"handleData", S+"handleReset")
	hd, hr := S+"handleData", S+"handleReset"
	hsbr := "(*quic.Conn).handleStreamBytesReceived"
	c.Before(hd, Calls(csb), Union(Calls("(*quic.pipe).writeAt"), Calls(hsbr), Stores("quic.Stream.insize")))
	c.Has(hd, Calls(csb).ArgIs(1, "($0+len($1))"))
	c.Reject(hd, Union(Calls("(*quic.pipe).writeAt"), Calls(hsbr)), "checkStreamBounds($r,($0+len($1)),$2) != nil")
	c.Reject(hr, Union(Stores("quic.Stream.insize"), Stores("quic.Stream.inresetcode"), Calls(hsbr)), "checkStreamBounds($r,$1,true) != nil")
	c.QaGuardAny(hd, QaResultNilErr(), []string{"checkStreamBounds($r,($0+len($1)),$2) == nil"})
	c.QaGuardAny(hr, QaResultNilErr(), []string{"checkStreamBounds($r,$1,true) == nil"})
	// connection-level
	c.Reject(hsbr, RetOK(), "$r.streams.inflow.usedLimit > $r.streams.inflow.sentLimit")
	c.Has(hsbr, c.QaUnder(code, "$r.streams.inflow.usedLimit > $r.streams.inflow.sentLimit"))
	c.Writers("quic.connInflow.usedLimit", hsbr)
	c.QaStoreShapes(hsbr, "quic.connInflow.usedLimit", "add:$0")
	c.Before(hsbr, Stores("quic.connInflow.usedLimit"), Returns())
	c.Callers(hsbr, hd, hr)
	c.PassThroughIncl(hd, c.Edge("$0+len($1) > $r.in.end"), Calls(hsbr).ArgIs(1, "(($0+len($1))-$r.in.end)"))
	c.NeverAfter(hd, c.Edge("handleStreamBytesReceived($r.conn,(($0+len($1))-$r.in.end)) != nil"), Calls("(*quic.pipe).writeAt"), true)
	c.PassThroughIncl(hr, c.Edge("$r.insize == -1"), Calls(hsbr).ArgIs(1, "($1-$r.in.end)"))
	c.NeverAfter(hr, c.Edge("handleStreamBytesReceived($r.conn,($1-$r.in.end)) != nil"), Union(Stores("quic.Stream.insize"), Stores("quic.Stream.inresetcode")), true)
	// errors close the connection
	c.CallAfterIncl("(*quic.Conn).handleStreamFrame", c.Edge("handleData(streamForFrame($r,$0,consumeStreamFrame($2)#0,1),consumeStreamFrame($2)#1,consumeStreamFrame($2)#3,consumeStreamFrame($2)#2) != nil"), "(*quic.Conn).abort")
	c.CallAfterIncl("(*quic.Conn).handleResetStreamFrame", c.Edge("handleReset(streamForFrame($r,$0,consumeResetStreamFrame($2)#0,1),consumeResetStreamFrame($2)#1,consumeResetStreamFrame($2)#2) != nil"), "(*quic.Conn).abort")
}

// qaC20accounting: after appendStreamFrame succeeded, the test end>outmaxsent is
// passed on every path, and under it consume(end-outmaxsent) and
// outmaxsent=end are executed together with end = offset + len(frame data).
func qaC20accounting(c *Ctx, aof string) {
	fn := c.MustFn(aof)
	if fn == nil {
		return
	}
	name := func(s string) string { return aof + ": " + s }
	asfs := Calls("(*quic.packetWriter).appendStreamFrame").F(c.P, fn)
	stores := Stores("quic.Stream.outmaxsent").F(c.P, fn)
	cons := Calls("(*quic.connOutflow).consume").F(c.P, fn)
	if len(asfs) != 1 || len(stores) != 1 || len(cons) != 1 {
		c.Undecided("accounting", name("one appendStreamFrame, one consume, one outmaxsent store"), fmt.Sprintf("found %d/%d/%d", len(asfs), len(cons), len(stores)))
		return
	}
	asf := asfs[0].(*ssa.Call)
	st := stores[0].(*ssa.Store)
	con := cons[0].(*ssa.Call)
	end := QaStripConv(st.Val)
	// guarded by end > outmaxsent
	c.Check(QaStoreShape(st) == "guarded", "store-shape", name("outmaxsent = end only under end > outmaxsent (never moves back)"), st.Pos(), "guarded",
		"store `"+DescribeInstr(st)+"` has shape "+QaStoreShape(st))
	// consume argument is end - outmaxsent (old value)
	okArg := false
	if b, ok := QaStripConv(BaselineArgs(&con.Call)[1]).(*ssa.BinOp); ok && b.Op == token.SUB && QaStripConv(b.X) == end {
		if u, ok := QaStripConv(b.Y).(*ssa.UnOp); ok && u.Op == token.MUL && Term(u) == "$r.outmaxsent" {
			okArg = true
		}
	}
	c.Check(okArg, "same-value", name("consume(n) with n = new outmaxsent - old outmaxsent"), con.Pos(), Term(BaselineArgs(&con.Call)[1]),
		"consume is called with `"+Term(BaselineArgs(&con.Call)[1])+"`, not the amount by which outmaxsent grows")
	c.Check(con.Block() == st.Block() && qaPosBefore(con, st), "paired", name("consume precedes the outmaxsent store in the same block"), con.Pos(), "",
		"consume and the outmaxsent store are not executed together (or consume reads the already updated outmaxsent)")
	// end = off + len(data returned by appendStreamFrame)
	okEnd := false
	if b, ok := end.(*ssa.BinOp); ok && b.Op == token.ADD {
		for i, side := range []ssa.Value{b.X, b.Y} {
			other := []ssa.Value{b.Y, b.X}[i]
			if QaStripConv(side) == QaStripConv(BaselineArgs(&asf.Call)[2]) && qaIsLenOfResult(QaStripConv(other), asf) {
				okEnd = true
			}
		}
	}
	c.Check(okEnd, "same-value", name("end = frame offset + len(frame data actually appended)"), st.Pos(), "",
		"the new outmaxsent `"+Term(end)+"` is not appendStreamFrame's offset plus the length of the slice it returned")
	// the guarding test is passed on every path after a successful append
	var guard *ssa.If
	for _, f := range FactsAtInstr(st) {
		want := Linearize(st.Val)
		_ = want
		if f.If != nil && DependsOn(f.If.Cond, func(v ssa.Value) bool { return v == end }) && DependsOn(f.If.Cond, c.P.QaIsLoadOf("quic.Stream.outmaxsent")) {
			guard = f.If
		}
	}
	var added *ssa.If
	for _, b := range fn.Blocks {
		if len(b.Instrs) == 0 {
			continue
		}
		if ifi, ok := b.Instrs[len(b.Instrs)-1].(*ssa.If); ok {
			if ex, ok := ifi.Cond.(*ssa.Extract); ok && ex.Tuple == ssa.Value(asf) && ex.Index == 1 {
				added = ifi
			}
		}
	}
	c3 := name("the end>outmaxsent test is reached on every path after appendStreamFrame reported added")
	if guard == nil || added == nil {
		c.Undecided("pass-through", c3, "could not identify the `added` test or the end>outmaxsent test")
		return
	}
	from := Sel{Name: "appendStreamFrame added", F: func(p *Prog, f *ssa.Function) []ssa.Instruction {
		return []ssa.Instruction{added.Block().Succs[0].Instrs[0]}
	}}
	to := Sel{Name: "test end>outmaxsent", F: func(p *Prog, f *ssa.Function) []ssa.Instruction { return []ssa.Instruction{guard} }}
	c.PassThroughIncl(aof, from, to)
	// failure of appendStreamFrame leaves the accounting alone
	c.NeverAfter(aof, Sel{Name: "appendStreamFrame not added", F: func(p *Prog, f *ssa.Function) []ssa.Instruction {
		return []ssa.Instruction{added.Block().Succs[1].Instrs[0]}
	}}, Union(Calls("(*quic.connOutflow).consume"), Stores("quic.Stream.outmaxsent")), true)
}

func qaPosBefore(a, b ssa.Instruction) bool {
	for _, in := range a.Block().Instrs {
		if in == a {
			return true
		}
		if in == b {
			return false
		}
	}
	return false
}

// qaIsLenOfResult: v is len(x) where x is result #0 of call.
func qaIsLenOfResult(v ssa.Value, call *ssa.Call) bool {
	c, ok := v.(*ssa.Call)
	if !ok {
		return false
	}
	b, ok := c.Call.Value.(*ssa.Builtin)
	if !ok || b.Name() != "len" || len(BaselineArgs(&c.Call)) != 1 {
		return false
	}
	ex, ok := BaselineArgs(&c.Call)[0].(*ssa.Extract)
	return ok && ex.Tuple == ssa.Value(call) && ex.Index == 0
}

// qaC20framedValueStored: in fnName the value stored into field is the very
// value passed as argument idx to the frame appender, and the store happens
// only after the appender reported success.
func qaC20framedValueStored(c *Ctx, fnName, appender string, idx int, field string) {
	fn := c.MustFn(fnName)
	if fn == nil {
		return
	}
	calls := Calls(appender).F(c.P, fn)
	stores := Stores(field).F(c.P, fn)
	construct := fmt.Sprintf("%s: %s = the value framed by %s, after it was appended", fnName, field, appender)
	if len(calls) != 1 || len(stores) != 1 {
		c.Undecided("same-value", construct, fmt.Sprintf("%d appender calls, %d stores", len(calls), len(stores)))
		return
	}
	call := calls[0].(*ssa.Call)
	st := stores[0].(*ssa.Store)
	if QaStripConv(BaselineArgs(&call.Call)[idx]) != QaStripConv(st.Val) {
		c.Fail("same-value", construct, st.Pos(), "stored `"+Term(st.Val)+"` but framed `"+Term(BaselineArgs(&call.Call)[idx])+"`")
		return
	}
	ok := false
	for _, f := range FactsAtInstr(st) {
		if f.If != nil && f.If.Cond == ssa.Value(call) && f.Atom.Kind == TRUE {
			ok = true
		}
	}
	c.Check(ok, "same-value", construct, st.Pos(), Term(st.Val), "the store is not dominated by the appender returning true: the recorded limit may run ahead of what the peer was told")
}
