package props

import (
	"fmt"

	"golang.org/x/tools/go/ssa"

	. "verif/sa/core"
)

func init() {
	Register(&Property{
		ID:    "C45",
		Floor: 45,
		Clauses: "webdav.Dir, lexical confinement as structure: in Mkdir/OpenFile/RemoveAll/Rename/Stat every string argument of every os.* call is exactly a result of d.resolve on the method's own receiver, derives from the request name only through resolve, and is tested != \"\" on every path to the call; " +
			"resolve rejects names containing NUL (and, where filepath.Separator != '/', names containing the separator) before filepath.Join, the name reaches Join only through slashClean and filepath.FromSlash, the root operand of Join is the receiver (or \".\" when empty), and resolve returns either \"\" or that Join; " +
			"slashClean returns path.Clean of a value that is the name itself only on the edge where name != \"\" and name[0] == '/', otherwise \"/\"+name; " +
			"RemoveAll and Rename compare filepath.Clean(d) with each resolved name and reach os.RemoveAll / os.Rename only when they differ. " +
			"Trusted: path.Clean of a rooted path contains no \"..\" element; filepath.Join(dir, rooted-clean-path) stays lexically under dir; filepath.FromSlash only replaces separators.",
		NotCovered: "Symbolic links inside the tree (documented non-goal of Dir); behaviour on hosts whose separator is not '/' beyond the presence of the separator test (the checker folds filepath.Separator for the analysis host); os-level semantics of the calls themselves.",
		Run:        c45,
		Trusted:    []string{"path.Clean", "path/filepath.Join", "path/filepath.FromSlash", "path/filepath.Clean"},
	})
}

func c45(c *Ctx) {
	const D = "(webdav.Dir)."
	resolve := D + "resolve"
	osCalls := WdCallsInPkg("os")
	isResolve := IsCallTo(resolve)

	type meth struct {
		name  string
		names []int // indexes of the request-name parameters
		osFn  string
	}
	for _, m := range []meth{{"Mkdir", []int{1}, "os.Mkdir"}, {"OpenFile", []int{1}, "os.OpenFile"}, {"RemoveAll", []int{1}, "os.RemoveAll"}, {"Rename", []int{1, 2}, "os.Rename"}, {"Stat", []int{1}, "os.Stat"}} {
		fnName := D + m.name
		fn := c.MustFn(fnName)
		if fn == nil {
			continue
		}
		c.Has(fnName, Calls(m.osFn))
		// every resolve call is on this Dir and on a request name
		c.Count(fnName, Calls(resolve).ArgIs(0, "$r"), len(m.names), len(m.names))
		c.Count(fnName, Calls(resolve), len(m.names), len(m.names))
		rawName := func(v ssa.Value) bool {
			for _, i := range m.names {
				if WdIsParam(fn, i)(v) {
					return true
				}
			}
			return false
		}
		rule := "derives-from"
		construct := fnName + ": every string argument of [" + osCalls.Name + "] is a d.resolve result and nothing of the raw name bypasses resolve"
		n, bad := 0, false
		for _, in := range osCalls.F(c.P, fn) {
			for _, a := range BaselineArgs(in.(ssa.CallInstruction).Common()) {
				if !WdIsStringType(a) {
					continue
				}
				n++
				via, leaks := WdDerivesOnlyThrough(a, rawName, isResolve)
				if !isResolve(a) || !via || leaks {
					bad = true
					c.Fail(rule, construct, InstrPos(in), fmt.Sprintf("argument `%s` of `%s`", Term(a), DescribeInstr(in)))
				}
			}
		}
		if n == 0 {
			c.Undecided(rule, construct, "no os call with a path argument")
		} else if !bad {
			c.OK(rule, construct, fmt.Sprintf("%d path argument(s)", n))
		}
		c.WdGuardSelf(fnName, osCalls, `each path argument != ""`, func(in ssa.Instruction) []string {
			var specs []string
			for _, a := range BaselineArgs(in.(ssa.CallInstruction).Common()) {
				if WdIsStringType(a) {
					specs = append(specs, Term(a)+` != ""`)
				}
			}
			return specs
		})
		for _, i := range m.names {
			c.Reject(fnName, osCalls, fmt.Sprintf(`resolve($r,$%d) == ""`, i))
		}
	}
	// the two names of Rename are resolved separately and passed in order
	c.Has(D+"Rename", Calls("os.Rename").ArgIs(0, "resolve($r,$1)").ArgIs(1, "resolve($r,$2)"))

	// root guards
	c.Reject(D+"RemoveAll", osCalls, "resolve($r,$1) == Clean($r)")
	c.Has(D+"RemoveAll", Calls("path/filepath.Clean").ArgIs(0, "$r"))
	c.Reject(D+"Rename", osCalls, "resolve($r,$1) == Clean($r)")
	c.Reject(D+"Rename", osCalls, "resolve($r,$2) == Clean($r)")
	c.Has(D+"Rename", Calls("path/filepath.Clean").ArgIs(0, "$r"))

	// resolve
	join := Calls("path/filepath.Join")
	c.Reject(resolve, join, `Contains($0,"\x00")`)
	sep, ok := c.P.WdImportedConst("webdav", "path/filepath", "Separator")
	if !ok {
		c.Undecided("anchor", "path/filepath.Separator", "constant not found")
	}
	nonSlash := "false"
	if sep != '/' {
		nonSlash = "true"
	}
	c.Reject(resolve, join, nonSlash, fmt.Sprintf("IndexRune($0,%d) >= 0", sep))
	c.Has(resolve, Calls("strings.IndexRune").ArgIs(0, "$0").ArgIs(1, fmt.Sprint(sep)))
	c.Count(resolve, join, 1, 1)
	c.Has(resolve, Calls("webdav.slashClean").ArgIs(0, "$0"))
	c.Has(resolve, Calls("path/filepath.FromSlash").ArgIs(0, "slashClean($0)"))
	if fn := c.MustFn(resolve); fn != nil {
		rule := "derives-from"
		for _, in := range join.F(c.P, fn) {
			arg := BaselineArgs(&in.(*ssa.Call).Call)[0]
			via, leaks := WdDerivesOnlyThrough(arg, WdIsParam(fn, 0), IsCallTo("webdav.slashClean"))
			c.Check(via && !leaks, rule, resolve+": the name reaches filepath.Join only through slashClean", InstrPos(in), "", "the raw name reaches Join (or slashClean is not applied)")
			c.Check(DependsOn(arg, WdIsReceiver(fn)), rule, resolve+": filepath.Join is rooted at the receiver", InstrPos(in), "", "Join does not use the Dir")
			// first element: receiver or ".", second: FromSlash(slashClean(name)); nothing else
			elems := map[string]bool{}
			for _, b := range fn.Blocks {
				for _, x := range b.Instrs {
					if st, ok := x.(*ssa.Store); ok {
						if ia, ok := st.Addr.(*ssa.IndexAddr); ok && DependsOn(arg, func(v ssa.Value) bool { return v == ia.X }) {
							elems[Term(ia.Index)+"="+Term(st.Val)] = true
						}
					}
				}
			}
			want := elems[`0=φ("."|$r)`] && elems["1=FromSlash(slashClean($0))"] && len(elems) == 2
			c.Check(want, "call-args", resolve+`: Join(dir or ".", FromSlash(slashClean(name))) and nothing else`, InstrPos(in), "", fmt.Sprintf("Join elements are %v", elems))
		}
	}
	c.WdRetAll(resolve, 0, `"" or the Join result`, func(v ssa.Value) bool {
		return Term(v) == `""` || IsCallTo("path/filepath.Join")(v)
	})
	c.Callers(resolve, D+"Mkdir", D+"OpenFile", D+"RemoveAll", D+"Rename", D+"Stat")

	// slashClean
	sc := "webdav.slashClean"
	c.WdRetAll(sc, 0, "path.Clean(...)", IsCallTo("path.Clean"))
	if fn := c.MustFn(sc); fn != nil {
		rule := "guard-before"
		construct := sc + `: path.Clean receives the name unchanged only when name != "" && name[0] == '/', otherwise "/"+name`
		var calls []*ssa.Call
		for _, in := range Calls("path.Clean").F(c.P, fn) {
			calls = append(calls, in.(*ssa.Call))
		}
		if len(calls) != 1 {
			c.Fail(rule, construct, fn.Pos(), "expected one path.Clean call")
		} else {
			arg := BaselineArgs(&calls[0].Call)[0]
			good, why := true, ""
			checkLeaf := func(v ssa.Value, fs []Fact) {
				switch {
				case WdIsParam(fn, 0)(v):
					if !c.P.WdHoldsExact(fs, `$0 != ""`) || !c.P.WdHoldsExact(fs, "$0[0] == 47") {
						good, why = false, "the raw name is passed without the leading-slash test"
					}
				case Term(v) == `("/"+$0)`:
				default:
					good, why = false, "unexpected operand "+Term(v)
				}
			}
			if ph, ok := arg.(*ssa.Phi); ok {
				for i, e := range ph.Edges {
					checkLeaf(e, WdEdgeFacts(ph.Block().Preds[i], ph.Block()))
				}
			} else {
				checkLeaf(arg, FactsAtInstr(calls[0]))
			}
			c.Check(good, rule, construct, calls[0].Pos(), "", why)
		}
	}
}
