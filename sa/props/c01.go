package props

import (
	"fmt"
	"go/ast"
	"go/constant"
	"go/token"
	"sort"
	"strings"

	"golang.org/x/tools/go/ssa"

	. "verif/sa/core"
)

func init() {
	Register(&Property{
		ID:    "C01",
		Floor: 120,
		Clauses: "necessary conditions of hpack encoder/decoder lock-step. (a) Wire agreement, evaluated exhaustively: the decoder's first-byte dispatch (parseHeaderFieldRepr, all 256 bytes) sends every byte the encoder can produce for " +
			"indexed / literal-incremental / literal-without / literal-never (indexed name and new name) / table-size-update to the parser with the same prefix length and an index type whose indexed()/sensitive() equal the encoder's indexing/sensitive inputs; tag bits and prefix bits are disjoint. " +
			"(b) Prefix integers: appendVarInt and readVarInt agree on prefix mask (1<<n)-1, group width, payload mask, continuation flag and on subtracting/adding the prefix maximum. " +
			"(c) String literals: 7-bit length prefix, Huffman flag bit and its guard, length taken from HuffmanEncodeLength on the Huffman path and len(s) otherwise; the decoder slices exactly strLen bytes and Huffman-decodes only when the flag was set. " +
			"(d) Table lock-step: in WriteField the same shouldIndex value guards dynTab.add and is passed to both literal emitters, add takes the field itself, is unreachable on a full match and happens after searchTable; index references use searchTable's index, new-name form only for index 0; " +
			"in parseFieldLiteral add is guarded by it.indexed(), string decoding may be skipped only under a condition that depends on it.indexed(), name/value come from the first/second string (or the indexed entry) and the emitted field is passed on unchanged. " +
			"(e) Size update first: no table-size update is emitted after searchTable/add/any field emitter; minSize is emitted only when below maxSize and before maxSize; every Encoder.setMaxSize is preceded by tableSizeUpdate=true; minSize tracks the minimum. " +
			"(f) One table definition: Encoder and Decoder hold the same dynamicTable type; add/addEntry/evict/evictOldest have the expected exclusive callers; ents/evictCount/lookup maps are written only by addEntry/evictOldest/init. " +
			"(g) Index direction and unique ids as linear forms: addEntry id = len+evictCount+1 computed before the append, evictOldest deletes a map entry only when it equals evictCount+k+1 and bumps evictCount by n afterwards, idToIndex = len-(id-evictCount-1) for dynamic tables and id-evictCount for the static table, " +
			"searchTable adds the static length to dynamic indices, Decoder.at indexes ents[len-(i-staticLen)] / static ents[i-1]. (h) Static table literal: evictCount 0, every byName/byNameValue id is in range and names the entry with that name (pair), no entry is Sensitive.",
		NotCovered: "that eviction arithmetic, Huffman choice and size accounting yield equal tables for every history (runtime arithmetic over histories); io.Writer short writes; equality of the static table with RFC 7541 Appendix A (not needed: both sides share it); " +
			"completeness of the static lookup maps (compression quality only); SetMaxDynamicTableSizeLimit followed by a raise emits only the final size (RFC 7541 4.2 nicety; the round trip still holds because the encoder's table stays a newest-first prefix of the decoder's); uint32 wrap of HeaderField.Size.",
		Run: c01,
	})
}

// ---------------------------------------------------------------------------
// Shared wire model of package hpack (also used by props/c05.go).

type hpTarget struct {
	kind string // "indexed", "literal", "update", "invalid", "stuck"
	n    int64  // prefix length the parser reads the first integer with
	it   int64  // index type passed to parseFieldLiteral
	why  string
}

type hpModel struct {
	disp      [256]hpTarget
	itVals    map[string]int64 // indexType constants
	indexed   map[int64]bool   // indexType.indexed()
	sensitive map[int64]bool   // indexType.sensitive()
	etb       map[[2]bool]int64
	nameN     map[bool]int64 // appendIndexedName prefix length per `indexing`
	tagIdx    int64
	nIdx      int64
	tagUpd    int64
	nUpd      int64
}

const (
	hpH = "http2/hpack."
	hpE = "(*http2/hpack.Encoder)."
	hpD = "(*http2/hpack.Decoder)."
	hpT = "(*http2/hpack.headerFieldTable)."
	hpX = "(*http2/hpack.dynamicTable)."
)

func b2i(b bool) int64 {
	if b {
		return 1
	}
	return 0
}

// hpConstArg returns the constant value of argument idx of the single call of callee in fn.
func hpConstArg(c *Ctx, fn *ssa.Function, callee string, idx int) (int64, string) {
	calls := Calls(callee).F(c.P, fn)
	if len(calls) != 1 {
		return 0, fmt.Sprintf("%d calls of %s in %s (want 1)", len(calls), callee, FnName(fn))
	}
	ev := &HxEval{}
	v, ok := ev.Value(BaselineArgs(&calls[0].(*ssa.Call).Call)[idx])
	if !ok {
		return 0, fmt.Sprintf("argument %d of %s in %s is not a constant", idx, callee, FnName(fn))
	}
	return v, ""
}

// hpTagStore finds the single `x[len(dst)] |= T` store of an emitter and returns the OR operand.
func hpTagStore(c *Ctx, fn *ssa.Function) (ssa.Value, string) {
	var found []ssa.Value
	HxEachInstr(fn, func(in ssa.Instruction) {
		st, ok := in.(*ssa.Store)
		if !ok {
			return
		}
		bo, ok := st.Val.(*ssa.BinOp)
		if !ok || bo.Op != token.OR {
			return
		}
		ia, ok := st.Addr.(*ssa.IndexAddr)
		if !ok || Term(ia.Index) != "len($0)" {
			return
		}
		ld, ok := bo.X.(*ssa.UnOp)
		if !ok || ld.Op != token.MUL || Term(ld.X) != Term(st.Addr) {
			return
		}
		found = append(found, bo.Y)
	})
	if len(found) != 1 {
		return nil, fmt.Sprintf("%d stores of the form x[len(dst)] |= tag in %s (want 1)", len(found), FnName(fn))
	}
	return found[0], ""
}

func hpackModel(c *Ctx) *hpModel {
	rule := "wire-model"
	m := &hpModel{itVals: map[string]int64{}, indexed: map[int64]bool{}, sensitive: map[int64]bool{}, etb: map[[2]bool]int64{}, nameN: map[bool]int64{}}
	fail := func(what, why string) *hpModel {
		c.Undecided(rule, what, why)
		return nil
	}
	need := func(name string) *ssa.Function { return c.MustFn(name) }

	// index type constants and predicates
	for name, v := range c.P.ConstsOfType(hpH + "indexType") {
		i, ok := constant.Int64Val(constant.ToInt(v))
		if !ok {
			return fail("indexType constants", name+" is not an integer")
		}
		m.itVals[name] = i
	}
	if len(m.itVals) == 0 {
		return fail("indexType constants", "none found")
	}
	for _, pred := range []struct {
		fn  string
		dst map[int64]bool
	}{{"(http2/hpack.indexType).indexed", m.indexed}, {"(http2/hpack.indexType).sensitive", m.sensitive}} {
		fn := need(pred.fn)
		if fn == nil {
			return nil
		}
		for _, v := range m.itVals {
			val := v
			ev := &HxEval{Leaf: func(x ssa.Value) (int64, bool) {
				if p, ok := x.(*ssa.Parameter); ok && p == fn.Params[0] {
					return val, true
				}
				return 0, false
			}}
			out := ev.Run(fn)
			if out.Kind != "return" || len(out.Ret.Results) != 1 {
				return fail(pred.fn, "cannot evaluate: "+out.Kind+" "+out.Why)
			}
			r, ok := ev.Value(out.Ret.Results[0])
			if !ok {
				return fail(pred.fn, "result `"+Term(out.Ret.Results[0])+"` is not of the form receiver == constant")
			}
			pred.dst[val] = r != 0
		}
	}

	// decoder dispatch over all first bytes
	disp := need(hpD + "parseHeaderFieldRepr")
	idxFn, litFn, updFn := need(hpD+"parseFieldIndexed"), need(hpD+"parseFieldLiteral"), need(hpD+"parseDynamicTableSizeUpdate")
	if disp == nil || idxFn == nil || litFn == nil || updFn == nil {
		return nil
	}
	nIdx, why := hpConstArg(c, idxFn, hpH+"readVarInt", 0)
	if why != "" {
		return fail("parseFieldIndexed prefix", why)
	}
	nUpd, why := hpConstArg(c, updFn, hpH+"readVarInt", 0)
	if why != "" {
		return fail("parseDynamicTableSizeUpdate prefix", why)
	}
	if calls := Calls(hpH+"readVarInt").ArgIs(0, "$0").F(c.P, litFn); len(calls) != 1 || len(Calls(hpH+"readVarInt").F(c.P, litFn)) != 1 {
		return fail("parseFieldLiteral prefix", "expected exactly one readVarInt call, taking the parameter n as prefix length")
	}
	for b := 0; b < 256; b++ {
		bv := int64(b)
		ev := &HxEval{Leaf: func(x ssa.Value) (int64, bool) {
			if u, ok := x.(*ssa.UnOp); ok && u.Op == token.MUL && Term(u) == "$r.buf[0]" {
				return bv, true
			}
			return 0, false
		}}
		out := ev.Run(disp)
		t := hpTarget{kind: "stuck", why: out.Kind + " " + out.Why}
		if out.Kind == "call" {
			switch CalleeName(&out.Call.Call) {
			case hpD + "parseFieldIndexed":
				t = hpTarget{kind: "indexed", n: nIdx}
			case hpD + "parseDynamicTableSizeUpdate":
				t = hpTarget{kind: "update", n: nUpd}
			case hpD + "parseFieldLiteral":
				n, ok1 := ev.Value(BaselineArgs(&out.Call.Call)[1])
				it, ok2 := ev.Value(BaselineArgs(&out.Call.Call)[2])
				if ok1 && ok2 {
					t = hpTarget{kind: "literal", n: n, it: it}
				} else {
					t.why = "non-constant arguments to parseFieldLiteral"
				}
			case "errors.New":
				t = hpTarget{kind: "invalid"}
			default:
				t.why = "unexpected call " + CalleeName(&out.Call.Call)
			}
		}
		if t.kind == "stuck" {
			return fail(fmt.Sprintf("parseHeaderFieldRepr dispatch of byte %#02x", b), t.why)
		}
		m.disp[b] = t
	}

	// encoder: encodeTypeByte over its four inputs
	etb := need(hpH + "encodeTypeByte")
	if etb == nil {
		return nil
	}
	for _, ix := range []bool{false, true} {
		for _, se := range []bool{false, true} {
			ix, se := ix, se
			ev := &HxEval{Leaf: func(x ssa.Value) (int64, bool) {
				if p, ok := x.(*ssa.Parameter); ok {
					if p == etb.Params[0] {
						return b2i(ix), true
					}
					if p == etb.Params[1] {
						return b2i(se), true
					}
				}
				return 0, false
			}}
			out := ev.Run(etb)
			if out.Kind != "return" {
				return fail("encodeTypeByte", "cannot evaluate: "+out.Kind+" "+out.Why)
			}
			v, ok := ev.Value(out.Ret.Results[0])
			if !ok {
				return fail("encodeTypeByte", "non-constant result "+Term(out.Ret.Results[0]))
			}
			m.etb[[2]bool{ix, se}] = v
		}
	}

	// encoder: constant-tag emitters
	for _, e := range []struct {
		fn     string
		tag, n *int64
	}{{hpH + "appendIndexed", &m.tagIdx, &m.nIdx}, {hpH + "appendTableSize", &m.tagUpd, &m.nUpd}} {
		fn := need(e.fn)
		if fn == nil {
			return nil
		}
		tv, why := hpTagStore(c, fn)
		if why != "" {
			return fail(e.fn+" tag", why)
		}
		tag, ok := (&HxEval{}).Value(tv)
		if !ok {
			return fail(e.fn+" tag", "tag `"+Term(tv)+"` is not a constant")
		}
		n, why := hpConstArg(c, fn, hpH+"appendVarInt", 1)
		if why != "" {
			return fail(e.fn+" prefix", why)
		}
		*e.tag, *e.n = tag, n
	}

	// encoder: appendIndexedName (tag from encodeTypeByte(indexing, f.Sensitive), prefix depends on indexing)
	ain := need(hpH + "appendIndexedName")
	if ain == nil {
		return nil
	}
	tv, why := hpTagStore(c, ain)
	if why != "" {
		return fail("appendIndexedName tag", why)
	}
	if Term(tv) != "encodeTypeByte($3,$1.Sensitive)" {
		return fail("appendIndexedName tag", "tag is `"+Term(tv)+"`, expected encodeTypeByte(indexing, f.Sensitive)")
	}
	for _, ix := range []bool{false, true} {
		ix := ix
		ev := &HxEval{
			Leaf: func(x ssa.Value) (int64, bool) {
				if p, ok := x.(*ssa.Parameter); ok && p == ain.Params[3] {
					return b2i(ix), true
				}
				return 0, false
			},
			StopAt: func(call *ssa.Call) bool { return CalleeName(&call.Call) == hpH+"appendVarInt" },
		}
		out := ev.Run(ain)
		if out.Kind != "call" {
			return fail("appendIndexedName prefix", "cannot reach appendVarInt: "+out.Kind+" "+out.Why)
		}
		n, ok := ev.Value(BaselineArgs(&out.Call.Call)[1])
		if !ok {
			return fail("appendIndexedName prefix", "prefix length `"+Term(BaselineArgs(&out.Call.Call)[1])+"` is not decided by `indexing`")
		}
		m.nameN[ix] = n
	}
	if len(Calls(hpH+"appendVarInt").F(c.P, ain)) != 1 {
		return fail("appendIndexedName prefix", "expected one appendVarInt call")
	}

	// encoder: appendNewName (first byte is encodeTypeByte(indexing, f.Sensitive))
	ann := need(hpH + "appendNewName")
	if ann == nil {
		return nil
	}
	first := ""
	HxEachInstr(ann, func(in ssa.Instruction) {
		if call, ok := in.(*ssa.Call); ok && first == "" {
			if b, ok := call.Call.Value.(*ssa.Builtin); ok && b.Name() == "append" {
				first = "?"
				if sl, ok := BaselineArgs(&call.Call)[1].(*ssa.Slice); ok {
					if al, ok := sl.X.(*ssa.Alloc); ok && Term(BaselineArgs(&call.Call)[0]) == "$0" {
						HxEachInstr(ann, func(x ssa.Instruction) {
							if st, ok := x.(*ssa.Store); ok {
								if ia, ok := st.Addr.(*ssa.IndexAddr); ok && ia.X == al && Term(ia.Index) == "0" {
									first = Term(st.Val)
								}
							}
						})
					}
				}
			}
		}
	})
	if first != "encodeTypeByte($2,$1.Sensitive)" {
		return fail("appendNewName tag", "first appended byte is `"+first+"`, expected encodeTypeByte(indexing, f.Sensitive)")
	}
	return m
}

func mask(n int64) int64 { return int64(1)<<uint(n) - 1 }

// checkIndexTypes: constants distinct, indexed()/sensitive() exclusive and each true for exactly one constant.
func (m *hpModel) checkIndexTypes(c *Ctx) {
	rule := "index-type"
	seen := map[int64]string{}
	okDistinct := true
	nIdx, nSens := 0, 0
	var names []string
	for n := range m.itVals {
		names = append(names, n)
	}
	sort.Strings(names)
	for _, n := range names {
		v := m.itVals[n]
		if o, dup := seen[v]; dup {
			okDistinct = false
			c.Fail(rule, "indexType constants are distinct", token.NoPos, n+" and "+o+" have the same value")
		}
		seen[v] = n
		if m.indexed[v] && m.sensitive[v] {
			c.Fail(rule, "indexed() and sensitive() are exclusive", token.NoPos, n+" is both indexed and sensitive")
			return
		}
		if m.indexed[v] {
			nIdx++
		}
		if m.sensitive[v] {
			nSens++
		}
	}
	if okDistinct {
		c.OK(rule, "indexType constants are distinct", strings.Join(names, ","))
	}
	c.Check(nIdx == 1 && nSens == 1, rule, "indexed() and sensitive() are exclusive", token.NoPos,
		fmt.Sprintf("%d constants", len(names)), fmt.Sprintf("%d constants are indexed(), %d are sensitive() (want 1 and 1)", nIdx, nSens))
}

// literalAgrees checks every first byte tag|v (v < 2^n) of a literal representation.
func (m *hpModel) literalAgrees(tag, n int64, indexing, sens bool) string {
	if tag&mask(n) != 0 {
		return fmt.Sprintf("tag %#02x overlaps the %d-bit prefix", tag, n)
	}
	for v := int64(0); v <= mask(n); v++ {
		b := tag | v
		if b > 255 {
			return fmt.Sprintf("first byte %#x does not fit a byte", b)
		}
		t := m.disp[b]
		if t.kind != "literal" {
			return fmt.Sprintf("first byte %#02x is dispatched to the %s parser", b, t.kind)
		}
		if t.n != n {
			return fmt.Sprintf("first byte %#02x: encoder uses a %d-bit prefix, decoder reads %d bits", b, n, t.n)
		}
		if m.indexed[t.it] != indexing || m.sensitive[t.it] != sens {
			return fmt.Sprintf("first byte %#02x: encoder means indexing=%v sensitive=%v, decoder's index type %d has indexed()=%v sensitive()=%v", b, indexing, sens, t.it, m.indexed[t.it], m.sensitive[t.it])
		}
	}
	return ""
}

// checkSensitiveTag (C05): the never-indexed representation, and only it, reaches the sensitive index type.
func (m *hpModel) checkSensitiveTag(c *Ctx) {
	rule := "wire-agreement"
	pos := c.P.Fn(hpD + "parseHeaderFieldRepr").Pos()
	tag := m.etb[[2]bool{false, true}]
	n := m.nameN[false]
	why := m.literalAgrees(tag, n, false, true)
	c.Check(why == "", rule, "never-indexed literal with indexed name: every first byte reaches sensitive(), !indexed()", pos, fmt.Sprintf("tag %#02x, %d-bit prefix, %d bytes", tag, n, mask(n)+1), why)
	t := m.disp[tag&255]
	why = ""
	if t.kind != "literal" || !m.sensitive[t.it] || m.indexed[t.it] || tag&mask(t.n) != 0 {
		why = fmt.Sprintf("byte %#02x is parsed as %s (prefix %d, index type %d)", tag, t.kind, t.n, t.it)
	}
	c.Check(why == "", rule, "never-indexed literal with new name: type byte reaches sensitive(), !indexed() with name index 0", pos, fmt.Sprintf("byte %#02x", tag), why)
	why = ""
	cnt := 0
	for b := 0; b < 256; b++ {
		t := m.disp[b]
		if t.kind == "literal" && m.sensitive[t.it] {
			cnt++
			if int64(b)&^mask(t.n) != tag {
				why = fmt.Sprintf("byte %#02x also reaches the sensitive index type", b)
			}
		}
	}
	c.Check(why == "" && cnt > 0, rule, "the sensitive index type is passed only for the never-indexed tag", pos, fmt.Sprintf("%d bytes", cnt), why)
	why = ""
	for _, ix := range []bool{false, true} {
		if m.etb[[2]bool{ix, true}] != tag {
			why = "encodeTypeByte(indexing=true, sensitive=true) differs from the never-indexed tag"
		}
		if m.etb[[2]bool{ix, false}] == tag {
			why = "a non-sensitive field gets the never-indexed tag"
		}
	}
	c.Check(why == "", rule, "encodeTypeByte returns the never-indexed tag exactly when sensitive", pos, fmt.Sprintf("tag %#02x", tag), why)
}

// checkWire (C01): all five representations.
func (m *hpModel) checkWire(c *Ctx) {
	rule := "wire-agreement"
	pos := c.P.Fn(hpD + "parseHeaderFieldRepr").Pos()
	constRep := func(name, kind string, tag, n int64) {
		why := ""
		if tag&mask(n) != 0 {
			why = fmt.Sprintf("tag %#02x overlaps the %d-bit prefix", tag, n)
		}
		for v := int64(0); v <= mask(n) && why == ""; v++ {
			b := tag | v
			if b > 255 {
				why = fmt.Sprintf("first byte %#x does not fit a byte", b)
			} else if t := m.disp[b]; t.kind != kind {
				why = fmt.Sprintf("first byte %#02x is dispatched to the %s parser", b, t.kind)
			} else if t.n != n {
				why = fmt.Sprintf("first byte %#02x: encoder uses a %d-bit prefix, decoder reads %d bits", b, n, t.n)
			}
		}
		c.Check(why == "", rule, name, pos, fmt.Sprintf("tag %#02x, %d-bit prefix, %d bytes", tag, n, mask(n)+1), why)
	}
	constRep("indexed field: appendIndexed ~ parseFieldIndexed", "indexed", m.tagIdx, m.nIdx)
	constRep("table size update: appendTableSize ~ parseDynamicTableSizeUpdate", "update", m.tagUpd, m.nUpd)
	for _, k := range []struct {
		name     string
		ix, sens bool
	}{{"literal with incremental indexing", true, false}, {"literal without indexing", false, false}, {"literal never indexed", false, true}} {
		tag := m.etb[[2]bool{k.ix, k.sens}]
		n := m.nameN[k.ix]
		why := m.literalAgrees(tag, n, k.ix, k.sens)
		c.Check(why == "", rule, k.name+", indexed name: appendIndexedName ~ parseFieldLiteral", pos, fmt.Sprintf("tag %#02x, %d-bit prefix, %d bytes", tag, n, mask(n)+1), why)
		t := m.disp[tag&255]
		why = ""
		if t.kind != "literal" {
			why = fmt.Sprintf("type byte %#02x is dispatched to the %s parser", tag, t.kind)
		} else if m.indexed[t.it] != k.ix || m.sensitive[t.it] != k.sens {
			why = fmt.Sprintf("type byte %#02x reaches index type %d (indexed()=%v sensitive()=%v)", tag, t.it, m.indexed[t.it], m.sensitive[t.it])
		} else if tag&mask(t.n) != 0 {
			why = fmt.Sprintf("type byte %#02x has non-zero bits in the decoder's %d-bit name index", tag, t.n)
		}
		c.Check(why == "", rule, k.name+", new name: appendNewName ~ parseFieldLiteral", pos, fmt.Sprintf("byte %#02x", tag), why)
	}
	n := 0
	for b := 0; b < 256; b++ {
		if m.disp[b].kind != "invalid" {
			n++
		}
	}
	c.Note("decoder dispatch: %d of 256 first bytes are accepted", n)
}

// ---------------------------------------------------------------------------

func linIs(c *Ctx, v ssa.Value, spec string) bool {
	a, err := c.P.ParseAtom(spec + " == 0")
	if err != nil {
		return false
	}
	return SameAtom(Atom{Kind: EQ, L: Linearize(v)}, a)
}

// binConsts collects constant operands of binary operations with the given operator.
func binConsts(fn *ssa.Function, op token.Token, pred func(b *ssa.BinOp, other ssa.Value) bool) []int64 {
	set := map[int64]bool{}
	HxEachInstr(fn, func(in ssa.Instruction) {
		b, ok := in.(*ssa.BinOp)
		if !ok || b.Op != op {
			return
		}
		for _, pair := range [][2]ssa.Value{{b.X, b.Y}, {b.Y, b.X}} {
			if k, ok := pair[0].(*ssa.Const); ok && k.Value != nil {
				if v, ok := (&HxEval{}).Value(k); ok && (pred == nil || pred(b, pair[1])) {
					set[v] = true
				}
			}
		}
	})
	var out []int64
	for v := range set {
		out = append(out, v)
	}
	sort.Slice(out, func(i, j int) bool { return out[i] < out[j] })
	return out
}

// c01ShiftAdvance finds the left shifts of fn whose shift amount is a loop-carried
// variable and returns the constants by which that variable advances per iteration.
// ok is false when no such shift exists or when the shift variable is updated in a way
// that is not "itself plus a constant" (then the width is not recognised: undecided).
func c01ShiftAdvance(fn *ssa.Function) (adv []int64, ok bool) {
	strip := func(v ssa.Value) ssa.Value {
		for {
			switch x := v.(type) {
			case *ssa.Convert:
				v = x.X
			case *ssa.ChangeType:
				v = x.X
			default:
				return v
			}
		}
	}
	set := map[int64]bool{}
	ok = true
	found := false
	HxEachInstr(fn, func(in ssa.Instruction) {
		b, isB := in.(*ssa.BinOp)
		if !isB || b.Op != token.SHL {
			return
		}
		ph, isPhi := strip(b.Y).(*ssa.Phi)
		if !isPhi {
			return // e.g. 1<<n: the shift amount is not loop-carried
		}
		found = true
		for _, e := range ph.Edges {
			e = strip(e)
			if _, isC := e.(*ssa.Const); isC {
				continue // initial value
			}
			add, isAdd := e.(*ssa.BinOp)
			if !isAdd || add.Op != token.ADD {
				ok = false
				continue
			}
			x, y := strip(add.X), strip(add.Y)
			if y == ssa.Value(ph) {
				x, y = y, x
			}
			k, isC := y.(*ssa.Const)
			if x != ssa.Value(ph) || !isC || k.Value == nil {
				ok = false
				continue
			}
			if v, isV := (&HxEval{}).Value(k); isV {
				set[v] = true
			} else {
				ok = false
			}
		}
	})
	for v := range set {
		adv = append(adv, v)
	}
	sort.Slice(adv, func(i, j int) bool { return adv[i] < adv[j] })
	return adv, ok && found
}

func c01VarInt(c *Ctx) {
	rule := "varint-codec"
	enc, dec := c.MustFn(hpH+"appendVarInt"), c.MustFn(hpH+"readVarInt")
	if enc == nil || dec == nil {
		return
	}
	notParam := func(_ *ssa.BinOp, other ssa.Value) bool { _, isC := other.(*ssa.Const); return !isC }
	one := func(vs []int64) (int64, bool) {
		if len(vs) == 1 {
			return vs[0], true
		}
		return 0, false
	}
	g, okG := one(binConsts(enc, token.SHR, notParam))
	// The decoder's group width is the loop-carried increment of the value used as the
	// SHIFT amount of the accumulated payload bits (`... << m`, `m += width`), not any
	// constant addition in the function (a loop counter also advances by a constant).
	dAdd, okShift := c01ShiftAdvance(dec)
	dg, okDG := one(dAdd)
	okDG = okDG && okShift
	c.Check(okG && okDG && g == dg && g > 0 && g < 8, rule, "group width: appendVarInt shifts by what readVarInt advances by", enc.Pos(),
		fmt.Sprintf("%d bits", g), fmt.Sprintf("encoder shift constants %v, decoder advance constants %v", binConsts(enc, token.SHR, notParam), dAdd))
	if !okG {
		return
	}
	eAnd, dAnd := binConsts(enc, token.AND, notParam), binConsts(dec, token.AND, notParam)
	em, okM := one(eAnd)
	has := func(vs []int64, v int64) bool {
		for _, x := range vs {
			if x == v {
				return true
			}
		}
		return false
	}
	c.Check(okM && em == mask(g) && has(dAnd, mask(g)), rule, "payload mask: both sides use 2^width-1", enc.Pos(),
		fmt.Sprintf("%#x", em), fmt.Sprintf("encoder masks %v, decoder masks %v, expected %d", eAnd, dAnd, mask(g)))
	eOr := binConsts(enc, token.OR, notParam)
	flag, okF := one(eOr)
	var eCmp []int64
	for _, op := range []token.Token{token.GEQ, token.LSS, token.GTR, token.LEQ} {
		eCmp = append(eCmp, binConsts(enc, op, notParam)...)
	}
	thr, okT := one(eCmp)
	c.Check(okF && okT && flag == mask(g)+1 && thr == flag && has(dAnd, flag) && len(dAnd) == 2, rule, "continuation flag: encoder sets 2^width while the rest is >= 2^width, decoder tests the same bit", enc.Pos(),
		fmt.Sprintf("%#x", flag), fmt.Sprintf("encoder flag %v, encoder loop thresholds %v, decoder masks %v, expected %d", eOr, eCmp, dAnd, mask(g)+1))
	// decoder tests (b & flag) == 0 to stop
	stop := false
	HxEachInstr(dec, func(in ssa.Instruction) {
		if ifi, ok := in.(*ssa.If); ok {
			a := CondAtom(ifi.Cond)
			if (a.Kind == EQ || a.Kind == NE) && a.L.K == 0 && len(a.L.Coef) == 1 {
				for t := range a.L.Coef {
					if strings.HasSuffix(t, fmt.Sprintf("&%d)", flag)) {
						stop = true
					}
				}
			}
		}
	})
	c.Check(stop, rule, "readVarInt stops on a byte without the continuation flag", dec.Pos(), "", "no branch of the form b&flag == 0")
	// prefix handling
	c.HasBranch(hpH+"appendVarInt", "$2 < (1<<$1) - 1")
	c.Has(hpH+"appendVarInt", Returns().Where("single byte i under i < 2^n-1", func(in ssa.Instruction) bool {
		for _, f := range FactsAtInstr(in) {
			if a, err := c.P.ParseAtom("$2 < (1<<$1) - 1"); err == nil && SameAtom(f.Atom, a) {
				return true
			}
		}
		return false
	}))
	// the continuation encodes i - (2^n-1)
	subOK := false
	HxEachInstr(enc, func(in ssa.Instruction) {
		if ph, ok := in.(*ssa.Phi); ok {
			for _, e := range ph.Edges {
				if linIs(c, e, "$2 - (1<<$1) + 1") {
					subOK = true
				}
			}
		}
	})
	c.Check(subOK, rule, "appendVarInt continues with i - (2^n-1)", enc.Pos(), "", "no loop variable initialised with $2-((1<<$1)-1)")
	pfx := false
	HxEachInstr(enc, func(in ssa.Instruction) {
		if st, ok := in.(*ssa.Store); ok && Term(st.Val) == "((1<<$1)-1)" {
			pfx = true
		}
	})
	c.Check(pfx, rule, "appendVarInt emits the all-ones prefix 2^n-1 before continuation bytes", enc.Pos(), "", "no byte (1<<n)-1 is appended")
	// decoder: masked first byte compared with 2^n-1
	dpfx := false
	HxEachInstr(dec, func(in ssa.Instruction) {
		if ifi, ok := in.(*ssa.If); ok {
			a := CondAtom(ifi.Cond)
			for _, at := range []Atom{a, a.Negate()} {
				if at.Kind == LE && at.L.K == 2 && len(at.L.Coef) == 2 && at.L.Coef["(1<<$0)"] == -1 {
					for t, k := range at.L.Coef {
						if k == 1 && strings.Contains(t, "($1[0]&((1<<$0)-1))") {
							dpfx = true
						}
					}
				}
			}
		}
	})
	c.Check(dpfx, rule, "readVarInt masks the first byte with 2^n-1 and returns it when below 2^n-1", dec.Pos(), "", "no branch `p[0]&((1<<n)-1) < (1<<n)-1`")
	c.Reject(hpH+"readVarInt", RetOK(), "len($1) == 0")
}

func c01Strings(c *Ctx) {
	ahs := hpH + "appendHpackString"
	av := Calls(hpH + "appendVarInt")
	huff := "HuffmanEncodeLength($1) < len($1)"
	c.Count(ahs, av, 2, 2)
	c.Count(ahs, av.ArgIs(1, "7"), 2, 2)
	c.Guard(ahs, av.ArgIs(2, "HuffmanEncodeLength($1)"), huff)
	c.Guard(ahs, av.ArgIs(2, "len($1)"), "HuffmanEncodeLength($1) >= len($1)")
	c.Guard(ahs, Calls(hpH+"AppendHuffmanString").ArgIs(1, "$1"), huff)
	c.Before(ahs, av.ArgIs(2, "HuffmanEncodeLength($1)"), Calls(hpH+"AppendHuffmanString"))
	fn := c.MustFn(ahs)
	rs := c.MustFn(hpD + "readString")
	if fn == nil || rs == nil {
		return
	}
	rule := "string-codec"
	tv, why := hpTagStore(c, fn)
	flag := int64(-1)
	if why == "" {
		if v, ok := (&HxEval{}).Value(tv); ok {
			flag = v
		} else {
			why = "flag is not a constant"
		}
	}
	// decoder flag: the constant of `p[0] & K != 0` stored to isHuff
	dflag := int64(-2)
	for _, in := range Stores("http2/hpack.undecodedString.isHuff").F(c.P, rs) {
		if b, ok := in.(*ssa.Store).Val.(*ssa.BinOp); ok && b.Op == token.NEQ {
			if a, ok := b.X.(*ssa.BinOp); ok && a.Op == token.AND && Term(a.X) == "$0[0]" {
				if v, ok := (&HxEval{}).Value(a.Y); ok {
					dflag = v
				}
			}
		}
	}
	c.Check(why == "" && flag == dflag && flag&mask(7) == 0 && flag < 256, rule, "Huffman flag bit agrees and is disjoint from the 7-bit length prefix", fn.Pos(),
		fmt.Sprintf("%#02x", flag), fmt.Sprintf("encoder flag %d (%s), decoder flag %d", flag, why, dflag))
	// flag is set only on the Huffman path
	var flagStores []ssa.Instruction
	HxEachInstr(fn, func(in ssa.Instruction) {
		if st, ok := in.(*ssa.Store); ok {
			if b, ok := st.Val.(*ssa.BinOp); ok && b.Op == token.OR {
				flagStores = append(flagStores, in)
			}
		}
	})
	flagSel := Sel{Name: "store x[first] |= flag", F: func(*Prog, *ssa.Function) []ssa.Instruction { return flagStores }}
	c.Guard(ahs, flagSel, huff)
	c.PassThroughIncl(ahs, c.Edge(huff), flagSel)

	rsn := hpD + "readString"
	c.Count(rsn, Calls(hpH+"readVarInt"), 1, 1)
	c.Count(rsn, Calls(hpH+"readVarInt").ArgIs(0, "7").ArgIs(1, "$0"), 1, 1)
	c.Has(rsn, Stores("http2/hpack.undecodedString.b").StoredIs("readVarInt(7,$0)#1[:readVarInt(7,$0)#0]"))
	c.Count(rsn, RetOK(), 1, 1)
	c.Has(rsn, RetOK().Where("remainder p[strLen:]", func(in ssa.Instruction) bool {
		return Term(in.(*ssa.Return).Results[1]) == "readVarInt(7,$0)#1[readVarInt(7,$0)#0:]"
	}))
	ds := hpD + "decodeString"
	c.Guard(ds, Calls(hpH+"huffmanDecode").ArgIs(2, "$0.b"), "$0.isHuff")
	c.Count(ds, Calls(hpH+"huffmanDecode"), 1, 1)
	c.Guard(ds, RetTerm(0, "$0.b"), "!$0.isHuff")
	c.Reject(ds, RetTerm(0, "$0.b"), "$0.isHuff")
}

func c01Encoder(c *Ctx) {
	wf := hpE + "WriteField"
	add := Calls(hpX + "add")
	emitters := Calls(hpH+"appendIndexed", hpH+"appendNewName", hpH+"appendIndexedName")
	// lock-step
	c.Guard(wf, add, "shouldIndex($r,$0)")
	c.Count(wf, add.ArgIs(1, "$0"), 1, 1)
	c.Count(wf, add, 1, 1)
	c.Reject(wf, add, "searchTable($r,$0)#1")
	c.NeverAfter(wf, add, Calls(hpE+"searchTable"), false)
	c.Count(wf, Calls(hpE+"searchTable"), 1, 1)
	c.Count(wf, Calls(hpE+"shouldIndex").ArgIs(1, "$0"), 1, 1)
	c.CallArgs(hpH+"appendNewName", 2, "shouldIndex($r,$0)")
	c.CallArgs(hpH+"appendIndexedName", 3, "shouldIndex($r,$0)")
	c.CallArgs(hpH+"appendNewName", 1, "$0")
	c.CallArgs(hpH+"appendIndexedName", 1, "$0")
	c.CallArgs(hpH+"appendIndexedName", 2, "searchTable($r,$0)#0")
	c.CallArgs(hpH+"appendIndexed", 1, "searchTable($r,$0)#0")
	c.Guard(wf, Calls(hpH+"appendIndexed"), "searchTable($r,$0)#1")
	c.Guard(wf, Calls(hpH+"appendNewName"), "!searchTable($r,$0)#1", "searchTable($r,$0)#0 == 0")
	c.Guard(wf, Calls(hpH+"appendIndexedName"), "!searchTable($r,$0)#1", "searchTable($r,$0)#0 != 0")
	// exactly one representation per field, and it is written out
	c.NeverAfter(wf, emitters, emitters, false)
	c.HxPassTo(wf, HxEntry(), emitters, Calls(".Write"), true)
	c.Count(wf, Calls(".Write").ArgIs(0, "$r.buf"), 1, 1)
	// field emitters: name then value
	ahs := Calls(hpH + "appendHpackString")
	c.Count(hpH+"appendNewName", ahs, 2, 2)
	c.NeverAfter(hpH+"appendNewName", ahs.ArgIs(1, "$1.Value"), ahs.ArgIs(1, "$1.Name"), false)
	c.Has(hpH+"appendNewName", ahs.ArgIs(1, "$1.Name"))
	c.Count(hpH+"appendIndexedName", ahs.ArgIs(1, "$1.Value"), 1, 1)
	c.Count(hpH+"appendIndexedName", ahs, 1, 1)
	c.Count(hpH+"appendIndexedName", Calls(hpH+"appendVarInt").ArgIs(2, "$2"), 1, 1)
	c.Before(hpH+"appendIndexedName", Calls(hpH+"appendVarInt"), ahs)
	c.Count(hpH+"appendIndexed", Calls(hpH+"appendVarInt").ArgIs(2, "$1"), 1, 1)
	c.Count(hpH+"appendTableSize", Calls(hpH+"appendVarInt").ArgIs(2, "$1"), 1, 1)

	// size update first
	ats := Calls(hpH + "appendTableSize")
	c.NeverAfter(wf, Union(emitters, Calls(hpE+"searchTable"), add), ats, false)
	c.Guard(wf, ats.ArgIs(1, "$r.minSize"), "$r.tableSizeUpdate")
	c.GuardImp(wf, ats.ArgIs(1, "$r.minSize"), "$r.minSize <= $r.dynTab.maxSize")
	c.Guard(wf, ats.ArgIs(1, "$r.dynTab.maxSize"), "$r.tableSizeUpdate")
	c.Count(wf, ats, 2, 2)
	c.PassThroughIncl(wf, c.Edge("$r.tableSizeUpdate"), ats.ArgIs(1, "$r.dynTab.maxSize"))
	c.NeverAfter(wf, ats.ArgIs(1, "$r.dynTab.maxSize"), ats, false)
	c.PassThroughIncl(wf, c.Edge("$r.tableSizeUpdate"), Stores("http2/hpack.Encoder.tableSizeUpdate").StoredIs("false"))
	c.PassThroughIncl(wf, c.Edge("$r.tableSizeUpdate"), Stores("http2/hpack.Encoder.minSize").StoredIs("4294967295"))
	c.NeverAfter(wf, Stores("http2/hpack.Encoder.minSize"), ats.ArgIs(1, "$r.minSize"), false)
	flagSet := Stores("http2/hpack.Encoder.tableSizeUpdate").StoredIs("true")
	smd, sml := hpE+"SetMaxDynamicTableSize", hpE+"SetMaxDynamicTableSizeLimit"
	c.Before(smd, flagSet, Calls(hpX+"setMaxSize"))
	c.Before(sml, flagSet, Calls(hpX+"setMaxSize"))
	c.Callers(hpX+"setMaxSize", smd, sml, hpH+"NewEncoder", hpH+"NewDecoder", hpD+"SetMaxDynamicTableSize", hpD+"parseDynamicTableSizeUpdate")
	c.Writers("http2/hpack.Encoder.tableSizeUpdate", smd, sml, wf, hpH+"NewEncoder")
	c.Writers("http2/hpack.Encoder.minSize", smd, sml, wf, hpH+"NewEncoder")
	// minSize := min(minSize, v) with the value that is installed
	fn := c.MustFn(smd)
	if fn != nil {
		rule := "min-tracking"
		construct := smd + ": minSize = v only under v < minSize, v being the size installed"
		sts := Stores("http2/hpack.Encoder.minSize").F(c.P, fn)
		calls := Calls(hpX+"setMaxSize").F(c.P, fn)
		why := ""
		if len(sts) != 1 || len(calls) != 1 {
			why = fmt.Sprintf("%d stores to minSize, %d setMaxSize calls", len(sts), len(calls))
		} else {
			v := sts[0].(*ssa.Store).Val
			if BaselineArgs(&calls[0].(*ssa.Call).Call)[1] != v {
				why = fmt.Sprintf("minSize receives `%s` but setMaxSize installs `%s`", Term(v), Term(BaselineArgs(&calls[0].(*ssa.Call).Call)[1]))
			} else if a, err := c.P.ParseAtom(Term(v) + " < $r.minSize"); err != nil {
				why = err.Error()
			} else {
				ok := false
				for _, f := range FactsAtInstr(sts[0]) {
					if SameAtom(f.Atom, a) {
						ok = true
					}
				}
				if !ok {
					why = "the store is not guarded by v < e.minSize"
				}
			}
		}
		c.Check(why == "", rule, construct, fn.Pos(), "", why)
	}
}

func c01Decoder(c *Ctx) {
	lit, idx := hpD+"parseFieldLiteral", hpD+"parseFieldIndexed"
	add := Calls(hpX + "add")
	c.Guard(lit, add, "indexed($1)")
	c.Count(lit, add, 1, 1)
	c.NeverAfter(lit, Calls(hpD+"callEmit"), add, false)
	// strings may be left undecoded only when the field is not indexed
	fn := c.MustFn(lit)
	if fn != nil {
		rule := "decode-when-indexed"
		construct := lit + ": skipping decodeString depends on it.indexed()"
		ds := Calls(hpD+"decodeString").F(c.P, fn)
		why := ""
		if len(ds) < 2 {
			why = fmt.Sprintf("%d decodeString calls (want name and value)", len(ds))
		}
		for _, in := range ds {
			dep := false
			fs := FactsAtInstr(in)
			for _, f := range fs {
				if f.Atom.Kind == TRUE && DependsOn(f.If.Cond, IsCallTo("(http2/hpack.indexType).indexed")) {
					dep = true
				}
			}
			if !dep && why == "" {
				// unconditional decoding is fine too
				if _, reach := HxReach(fn.Blocks[0].Instrs[0], true, []ssa.Instruction{add.F(c.P, fn)[0]}, []ssa.Instruction{in}); reach {
					why = fmt.Sprintf("`%s` can be skipped on a path to dynTab.add under a condition that ignores it.indexed()", DescribeInstr(in))
				}
			}
		}
		c.Check(why == "", rule, construct, fn.Pos(), fmt.Sprintf("%d decodeString call(s)", len(ds)), why)

		// provenance of name and value
		rule = "field-provenance"
		first := func(v ssa.Value) bool {
			cl, ok := v.(*ssa.Call)
			return ok && CalleeName(&cl.Call) == hpD+"readString" && Term(BaselineArgs(&cl.Call)[1]) == "readVarInt($0,$r.buf)#1"
		}
		second := func(v ssa.Value) bool {
			cl, ok := v.(*ssa.Call)
			return ok && CalleeName(&cl.Call) == hpD+"readString" && Term(BaselineArgs(&cl.Call)[1]) != "readVarInt($0,$r.buf)#1"
		}
		var nameDec, valDec []ssa.Instruction
		for _, in := range Stores("http2/hpack.HeaderField.Name").F(c.P, fn) {
			if DependsOn(in.(*ssa.Store).Val, IsCallTo(hpD+"decodeString")) {
				nameDec = append(nameDec, in)
			}
		}
		for _, in := range Stores("http2/hpack.HeaderField.Value").F(c.P, fn) {
			valDec = append(valDec, in)
		}
		why = ""
		if len(nameDec) != 1 || len(valDec) != 1 {
			why = fmt.Sprintf("%d decoded-name stores, %d value stores", len(nameDec), len(valDec))
		} else {
			nv, vv := nameDec[0].(*ssa.Store).Val, valDec[0].(*ssa.Store).Val
			switch {
			case !DependsOn(nv, first) || DependsOn(nv, second):
				why = "hf.Name is not decoded from the first string only"
			case !DependsOn(vv, second) || !DependsOn(vv, IsCallTo(hpD+"decodeString")):
				why = "hf.Value is not decoded from the second string"
			}
		}
		c.Check(why == "", rule, lit+": new name from the first string, value from the second", fn.Pos(), "", why)
	}
	c.Guard(lit, Stores("http2/hpack.HeaderField.Name").StoredIs("at($r,readVarInt($0,$r.buf)#0)#0.Name"), "readVarInt($0,$r.buf)#0 > 0")
	c.Guard(lit, Calls(hpD+"readString").ArgIs(1, "readVarInt($0,$r.buf)#1"), "readVarInt($0,$r.buf)#0 <= 0")
	c.NeverAfter(lit, c.Edge("!at($r,readVarInt($0,$r.buf)#0)#1"), Union(Calls(hpD+"callEmit"), add), true)
	c.Count(lit, Calls(hpD+"readString"), 2, 2)
	c.Count(lit, Calls(hpD+"at").ArgIs(1, "readVarInt($0,$r.buf)#0"), 1, 1)
	// indexed field
	c.Has(idx, Stores("http2/hpack.HeaderField.Name").StoredIs("at($r,readVarInt(7,$r.buf)#0)#0.Name"))
	c.Has(idx, Stores("http2/hpack.HeaderField.Value").StoredIs("at($r,readVarInt(7,$r.buf)#0)#0.Value"))
	c.Reject(idx, Calls(hpD+"callEmit"), "!at($r,readVarInt(7,$r.buf)#0)#1")
	c.HxNone(idx, add)
	// emitted unchanged
	c.Count(hpD+"callEmit", Calls("fieldcall:emit").ArgIs(0, "$0"), 1, 1)
	// a new header block may start with a size update again
	c.Has(hpD+"Close", Stores("http2/hpack.Decoder.firstField").StoredIs("true"))
}

func c01Tables(c *Ctx) {
	// one definition
	rule := "shared-table"
	ef, df := c.P.Field("http2/hpack.Encoder.dynTab"), c.P.Field("http2/hpack.Decoder.dynTab")
	if ef == nil || df == nil {
		c.Undecided(rule, "Encoder.dynTab and Decoder.dynTab have one type", "field not found")
	} else {
		c.Check(ef.Type().String() == df.Type().String() && strings.HasSuffix(ef.Type().String(), "hpack.dynamicTable"), rule, "Encoder.dynTab and Decoder.dynTab have one type", ef.Pos(), ef.Type().String(), "types differ: "+ef.Type().String()+" vs "+df.Type().String())
	}
	c.Callers(hpX+"add", hpE+"WriteField", hpD+"parseFieldLiteral")
	c.Callers(hpT+"addEntry", hpX+"add")
	c.Callers(hpX+"evict", hpX+"add", hpX+"setMaxSize")
	c.Callers(hpT+"evictOldest", hpX+"evict")
	c.Callers(hpT+"idToIndex", hpT+"search")
	c.Count(hpX+"add", Calls(hpT+"addEntry").ArgIs(1, "$0"), 1, 1)
	c.Writers("http2/hpack.headerFieldTable.ents", hpT+"addEntry", hpT+"evictOldest", hpH+"init")
	c.Writers("http2/hpack.headerFieldTable.evictCount", hpT+"evictOldest", hpH+"init")
	c.HxOnly("map-writers", "updates of headerFieldTable.byName", c.P.HxMapUpdates("http2/hpack.headerFieldTable.byName"), hpT+"addEntry", hpT+"evictOldest")
	c.HxOnly("map-writers", "updates of headerFieldTable.byNameValue", c.P.HxMapUpdates("http2/hpack.headerFieldTable.byNameValue"), hpT+"addEntry", hpT+"evictOldest")
	c.HxOnly("global-writers", "stores through staticTable", c.P.HxGlobalWriters(hpH+"staticTable"), hpH+"init")

	// unique ids and index direction
	rule = "index-arithmetic"
	if fn := c.MustFn(hpT + "addEntry"); fn != nil {
		n, bad := 0, ""
		HxEachInstr(fn, func(in ssa.Instruction) {
			if mu, ok := in.(*ssa.MapUpdate); ok {
				n++
				if !linIs(c, mu.Value, "len($r) + $r.evictCount + 1") {
					bad = Term(mu.Value)
				}
			}
		})
		c.Check(n == 2 && bad == "", rule, "addEntry records id = len + evictCount + 1 in both maps", fn.Pos(), "", fmt.Sprintf("%d map updates; offending value `%s`", n, bad))
		c.NeverAfter(hpT+"addEntry", Stores("http2/hpack.headerFieldTable.ents"), Calls(hpT+"len"), false)
		c.Has(hpT+"addEntry", Stores("http2/hpack.headerFieldTable.ents").Where("append of the field", func(in ssa.Instruction) bool {
			return strings.HasPrefix(Term(in.(*ssa.Store).Val), "append($r.ents,")
		}))
	}
	if fn := c.MustFn(hpT + "evictOldest"); fn != nil {
		// loop variable indexing ents: element k of t.ents, read either as t.ents[k] or as element k of the prefix
		// t.ents[:m] (for k, f := range t.ents[:m]); the index is a linear form over a loop-carried variable
		// (φk for an index loop, φrangeindex+1 for a range loop).
		k := ""
		var kLin Lin
		HxEachInstr(fn, func(in ssa.Instruction) {
			ia, ok := in.(*ssa.IndexAddr)
			if !ok || k != "" || !c01EntsPrefix(ia.X) {
				return
			}
			l := Linearize(ia.Index)
			carried := false
			for t, cf := range l.Coef {
				if strings.HasPrefix(t, "φ") && cf == 1 {
					carried = true
				}
			}
			if !carried || len(l.Coef) != 1 {
				return
			}
			if _, inLoopWithDelete := HxReach(in, false, Calls("builtin:delete").F(c.P, fn), nil); inLoopWithDelete {
				k, kLin = l.String(), l
			}
		})
		if k == "" {
			c.Undecided(rule, "evictOldest deletes only entries whose id is evictCount+k+1", "loop over ents[k] not recognised")
		} else {
			for _, mname := range []string{"byName", "byNameValue"} {
				del := Calls("builtin:delete").ArgIs(0, "$r."+mname)
				sites := del.F(c.P, fn)
				why := ""
				if len(sites) != 1 {
					why = fmt.Sprintf("%d delete calls", len(sites))
				} else {
					found := false
					for _, f := range FactsAtInstr(sites[0]) {
						a := f.Atom
						if a.Kind != EQ || len(a.L.Coef) != 3 {
							continue
						}
						sign := int64(0)
						for t, cf := range a.L.Coef {
							if strings.HasPrefix(t, "$r."+mname+"[") {
								sign = cf
							}
						}
						if sign == 0 || a.L.Coef["$r.evictCount"] != -sign {
							continue
						}
						// sign*(map[key] - evictCount) - sign*(k + 1) == 0
						rest := Lin{Coef: map[string]int64{}, K: a.L.K}
						for t, cf := range a.L.Coef {
							if t != "$r.evictCount" && !strings.HasPrefix(t, "$r."+mname+"[") {
								rest.Coef[t] = cf
							}
						}
						var d Lin
						if sign == 1 {
							d = rest.Plus(kLin.AddK(1))
						} else {
							d = rest.Sub(kLin.AddK(1))
						}
						if d.IsConst() && d.K == 0 {
							found = true
						}
					}
					if !found {
						why = "delete is not guarded by " + mname + "[key] == evictCount + " + k + " + 1"
					}
				}
				c.Check(why == "", rule, "evictOldest deletes from "+mname+" only entries whose id is evictCount+k+1", fn.Pos(), "", why)
			}
		}
		st := Stores("http2/hpack.headerFieldTable.evictCount")
		c.Has(hpT+"evictOldest", st.Where("evictCount + n", func(in ssa.Instruction) bool { return linIs(c, in.(*ssa.Store).Val, "$r.evictCount + $0") }))
		c.Count(hpT+"evictOldest", st, 1, 1)
		c.NeverAfter(hpT+"evictOldest", st, Calls("builtin:delete"), false)
		c.Has(hpT+"evictOldest", Calls("builtin:copy").ArgIs(0, "$r.ents").ArgIs(1, "$r.ents[$0:]"))
		c.Has(hpT+"evictOldest", Stores("http2/hpack.headerFieldTable.ents").StoredIs("$r.ents[:(len($r)-$0)]"))
	}
	if fn := c.MustFn(hpT + "idToIndex"); fn != nil {
		dyn, stat, other := 0, 0, ""
		var dynIn, statIn ssa.Instruction
		for _, in := range Returns().F(c.P, fn) {
			v := in.(*ssa.Return).Results[0]
			switch {
			case linIs(c, v, "len($r) - $0 + $r.evictCount + 1"):
				dyn++
				dynIn = in
			case linIs(c, v, "$0 - $r.evictCount"):
				stat++
				statIn = in
			default:
				other = Term(v)
			}
		}
		c.Check(dyn == 1 && stat == 1 && other == "", rule, "idToIndex = len-(id-evictCount-1) (dynamic) or id-evictCount (static)", fn.Pos(), "", fmt.Sprintf("%d dynamic, %d static returns, other `%s`", dyn, stat, other))
		if dynIn != nil && statIn != nil {
			sel := func(in ssa.Instruction) Sel {
				return Sel{Name: "return " + Term(in.(*ssa.Return).Results[0]), F: func(*Prog, *ssa.Function) []ssa.Instruction { return []ssa.Instruction{in} }}
			}
			c.Guard(hpT+"idToIndex", sel(dynIn), "$r != http2/hpack.staticTable")
			c.Guard(hpT+"idToIndex", sel(statIn), "$r == http2/hpack.staticTable")
		}
	}
	if fn := c.MustFn(hpE + "searchTable"); fn != nil {
		bad := ""
		n := 0
		dynSpec := "search(&$r.dynTab.table,$0)#0 + len(http2/hpack.staticTable)"
		isDyn := func(in ssa.Instruction) bool { return linIs(c, in.(*ssa.Return).Results[0], dynSpec) }
		for _, in := range Returns().F(c.P, fn) {
			switch {
			case isDyn(in):
				n++
			case Term(in.(*ssa.Return).Results[0]) == "search(http2/hpack.staticTable,$0)#0":
			default:
				bad = Term(in.(*ssa.Return).Results[0])
			}
		}
		c.Check(bad == "" && n == 1, rule, "searchTable returns static indices as is and dynamic indices plus the static length", fn.Pos(), "", fmt.Sprintf("%d dynamic returns, offending `%s`", n, bad))
		c.Reject(hpE+"searchTable", Returns().Where("dynamic index", isDyn), "!search(&$r.dynTab.table,$0)#1", "search(&$r.dynTab.table,$0)#0 == 0")
	}
	if fn := c.MustFn(hpD + "at"); fn != nil {
		why := ""
		sites := Indexing("$r.dynTab.table.ents").F(c.P, fn)
		if len(sites) != 1 {
			why = fmt.Sprintf("%d dynamic index sites", len(sites))
		} else if ia, ok := sites[0].(*ssa.IndexAddr); !ok {
			why = "not an index expression"
		} else {
			l := Linearize(ia.Index)
			lenTerm := ""
			for t, cf := range l.Coef {
				if cf == 1 && strings.HasPrefix(t, "len(") && t != "len(http2/hpack.staticTable)" {
					lenTerm = t
				}
			}
			if len(l.Coef) != 3 || l.K != 0 || l.Coef["$0"] != -1 || l.Coef["len(http2/hpack.staticTable)"] != 1 || lenTerm == "" {
				why = "index is `" + l.String() + "`, expected len(dynamic) - i + len(static)"
			} else if lenTerm != "len(&$r.dynTab.table)" {
				// the length must be that of (a copy of) the dynamic table
				ok := false
				HxEachInstr(fn, func(in ssa.Instruction) {
					if st, isSt := in.(*ssa.Store); isSt {
						if al, isAl := st.Addr.(*ssa.Alloc); isAl && "len(&%"+al.Comment+")" == lenTerm && Term(st.Val) == "$r.dynTab.table" {
							ok = true
						}
					}
				})
				if !ok {
					why = "length term `" + lenTerm + "` is not the dynamic table's length"
				}
			}
		}
		c.Check(why == "", rule, "Decoder.at reads dynamic ents[len - (i - staticLen)]", fn.Pos(), "", why)
		st := Indexing("http2/hpack.staticTable.ents").F(c.P, fn)
		ok := len(st) == 1
		if ok {
			ia, isIA := st[0].(*ssa.IndexAddr)
			ok = isIA && linIs(c, ia.Index, "$0 - 1")
		}
		c.Check(ok, rule, "Decoder.at reads static ents[i-1]", fn.Pos(), "", "static index is not i-1")
	}
	c.Has(hpD+"maxTableIndex", Returns().Where("len(dynamic)+len(static)", func(in ssa.Instruction) bool {
		return linIs(c, in.(*ssa.Return).Results[0], "len(&$r.dynTab.table) + len(http2/hpack.staticTable)")
	}))
}

// c01StaticTable reads the staticTable composite literal.
func c01StaticTable(c *Ctx) {
	rule := "static-table"
	lit, pk := c.P.VarDecl(hpH + "staticTable")
	if lit == nil {
		c.Undecided(rule, "literal", "staticTable initialiser not found")
		return
	}
	fields := map[string]ast.Expr{}
	for _, e := range Elts(lit) {
		k, v := KV(e)
		if id, ok := k.(*ast.Ident); ok {
			fields[id.Name] = v
		}
	}
	structVals := func(e ast.Expr, names ...string) map[string]ast.Expr {
		out := map[string]ast.Expr{}
		for i, el := range Elts(e) {
			k, v := KV(el)
			if id, ok := k.(*ast.Ident); ok {
				out[id.Name] = v
			} else if i < len(names) {
				out[names[i]] = v
			}
		}
		return out
	}
	type ent struct{ name, value string }
	var ents []ent
	undecided := ""
	sens := ""
	for i, e := range Elts(fields["ents"]) {
		sv := structVals(e, "Name", "Value", "Sensitive")
		n, ok1 := StrOf(pk, sv["Name"])
		v, ok2 := StrOf(pk, sv["Value"])
		if !ok1 || !ok2 {
			undecided = fmt.Sprintf("ents[%d] is not a constant name/value pair", i)
		}
		if s := sv["Sensitive"]; s != nil {
			if cv := ConstOf(pk, s); cv == nil || cv.String() != "false" {
				sens = fmt.Sprintf("ents[%d] (%s)", i, n)
			}
		}
		ents = append(ents, ent{n, v})
	}
	if len(ents) == 0 || undecided != "" {
		c.Undecided(rule, "ents", "cannot read entries: "+undecided)
		return
	}
	c.Check(sens == "", rule, "no static entry is Sensitive", lit.Pos(), fmt.Sprintf("%d entries", len(ents)), sens+" is Sensitive")
	ec := int64(0)
	okEC := true
	if e := fields["evictCount"]; e != nil {
		ec, okEC = IntOf(pk, e)
	}
	c.Check(okEC && ec == 0, rule, "evictCount is 0 (ids are 1-based positions)", lit.Pos(), "", fmt.Sprintf("evictCount = %d", ec))
	bad, n := "", 0
	for _, e := range Elts(fields["byName"]) {
		k, v := KV(e)
		name, ok1 := StrOf(pk, k)
		id, ok2 := IntOf(pk, v)
		n++
		switch {
		case !ok1 || !ok2:
			bad = "non-constant entry"
		case id < 1 || id > int64(len(ents)):
			bad = fmt.Sprintf("byName[%q] = %d is out of range 1..%d", name, id, len(ents))
		case ents[id-1].name != name:
			bad = fmt.Sprintf("byName[%q] = %d but ents[%d].Name is %q", name, id, id-1, ents[id-1].name)
		}
		if bad != "" {
			break
		}
	}
	c.Check(bad == "" && n > 0, rule, "every byName id names an entry with that name", lit.Pos(), fmt.Sprintf("%d keys", n), bad)
	bad, n = "", 0
	for _, e := range Elts(fields["byNameValue"]) {
		k, v := KV(e)
		sv := structVals(k, "name", "value")
		name, ok1 := StrOf(pk, sv["name"])
		val, ok2 := StrOf(pk, sv["value"])
		if sv["value"] == nil {
			val, ok2 = "", true
		}
		id, ok3 := IntOf(pk, v)
		n++
		switch {
		case !ok1 || !ok2 || !ok3:
			bad = "non-constant entry"
		case id < 1 || id > int64(len(ents)):
			bad = fmt.Sprintf("byNameValue[{%q,%q}] = %d is out of range 1..%d", name, val, id, len(ents))
		case ents[id-1] != ent{name, val}:
			bad = fmt.Sprintf("byNameValue[{%q,%q}] = %d but ents[%d] is {%q,%q}", name, val, id, id-1, ents[id-1].name, ents[id-1].value)
		}
		if bad != "" {
			break
		}
	}
	c.Check(bad == "" && n > 0, rule, "every byNameValue id names an entry with that name and value", lit.Pos(), fmt.Sprintf("%d keys", n), bad)
}

func c01(c *Ctx) {
	if m := hpackModel(c); m != nil {
		m.checkIndexTypes(c)
		m.checkWire(c)
	}
	c01VarInt(c)
	c01Strings(c)
	c01Encoder(c)
	c01Decoder(c)
	c01Tables(c)
	c01StaticTable(c)
}

// c01EntsPrefix reports whether v is the receiver's ents slice or a prefix ents[:m] of it (no low bound), so that
// element k of v is element k of ents.
func c01EntsPrefix(v ssa.Value) bool {
	if sl, ok := v.(*ssa.Slice); ok {
		if sl.Low != nil {
			if lo, ok := (&HxEval{}).Value(sl.Low); !ok || lo != 0 {
				return false
			}
		}
		v = sl.X
	}
	return Term(v) == "$r.ents"
}
