package props

import . "verif/sa/core"

func init() {
	Register(&Property{
		ID:    "C02",
		Floor: 14,
		Clauses: "hpack decoder limits as dominating guards: table-size update bounded by allowedMaxSize before setMaxSize; " +
			"string length bounded by maxStrLen and by the available bytes before slicing; Huffman output length tested before each byte written; " +
			"emit callback reached only through callEmit and only under its length test; Close rejects buffered partial input; " +
			"varint overflow return inside the continuation loop; table index bounds tests before table indexing; " +
			"ownership of dynTab.maxSize/size; readVarInt called with constant prefix sizes in 1..8.",
		NotCovered: "uint32 wrap-around of HeaderField.Size; transient size>maxSize inside add/evict; exact error values; nil-dereference/OOM classes.",
		Run:        c02,
	})
}

func c02(c *Ctx) {
	const D = "(*http2/hpack.Decoder)."
	// table size update: reject size > allowedMaxSize before setMaxSize
	up := D + "parseDynamicTableSizeUpdate"
	setMax := Calls("(*http2/hpack.dynamicTable).setMaxSize")
	c.Reject(up, setMax, "readVarInt(5,$r.buf)#0 > $r.dynTab.allowedMaxSize")
	c.Reject(up, setMax, "readVarInt(5,$r.buf)#2 != nil")
	c.Reject(up, setMax, "!$r.firstField", "$r.dynTab.size > 0")
	// the value installed is the one that was checked
	c.Has(up, setMax.ArgIs(1, "readVarInt(5,$r.buf)#0"))
	c.Writers("http2/hpack.dynamicTable.maxSize", "(*http2/hpack.dynamicTable).setMaxSize")
	c.Writers("http2/hpack.dynamicTable.size", "(*http2/hpack.dynamicTable).add", "(*http2/hpack.dynamicTable).evict")
	c.CallAfter("(*http2/hpack.dynamicTable).setMaxSize", Stores("http2/hpack.dynamicTable.maxSize"), "(*http2/hpack.dynamicTable).evict")
	c.CallAfter("(*http2/hpack.dynamicTable).add", Stores("http2/hpack.dynamicTable.size"), "(*http2/hpack.dynamicTable).evict")

	// readString: limits before slicing
	rs := D + "readString"
	c.Reject(rs, RetOK(), "$r.maxStrLen != 0", "readVarInt(7,$0)#0 > $r.maxStrLen")
	c.Reject(rs, RetOK(), "len(readVarInt(7,$0)#1) < readVarInt(7,$0)#0")
	c.Reject(rs, RetOK(), "len($0) == 0")
	c.Reject(rs, RetOK(), "readVarInt(7,$0)#2 != nil")

	// callEmit: emit under the length test and emitEnabled; emit only from callEmit
	ce := D + "callEmit"
	emit := Calls("fieldcall:emit")
	c.Reject(ce, emit, "$r.maxStrLen != 0", "len($0.Name) > $r.maxStrLen")
	c.Reject(ce, emit, "$r.maxStrLen != 0", "len($0.Value) > $r.maxStrLen")
	c.Guard(ce, emit, "$r.emitEnabled")
	c.OnlyCalledIn("calls of Decoder.emit", []string{"fieldcall:emit"}, D+"callEmit")

	// Close: leftover bytes are an error
	c.Reject(D+"Close", RetOK(), "Len(&$r.saveBuf) > 0")

	// readVarInt: bad n panics only for n outside 1..8; every caller passes a constant or a forwarded parameter
	rv := "http2/hpack.readVarInt"
	c.Reject(rv, RetOK(), "len($1) == 0")
	c.HasBranch(rv, "φm+7 >= 63") // overflow test inside the loop (m += 7; m >= 63)
	c.CallArgs(rv, 0, "5", "6", "4", "7", "$0")
	c.CallArgs(D+"parseFieldLiteral", 1, "6", "4")

	// panic-site inventory over everything reachable from the decoder API
	c.PanicInventory([]string{D + "Write", D + "Close", D + "DecodeFull", D + "SetMaxDynamicTableSize",
		D + "SetAllowedMaxDynamicTableSize", D + "SetMaxStringLength", "http2/hpack.HuffmanDecode", "http2/hpack.HuffmanDecodeToString"}, nil,
		map[string]Inv{
			D + "at":                                      {"idx=2", "static index under 0<i<=len(static), dynamic index under i<=maxTableIndex: both guarded (guard-before obligations above)"},
			D + "decodeString":                            {"assert=1", "bufPool only ever holds *bytes.Buffer (sync.Pool New)"},
			D + "parseHeaderFieldRepr":                    {"idx=1", "d.buf[0]: the only caller (Write) loops on len(d.buf) > 0 (obligation below)"},
			"(*http2/hpack.dynamicTable).evict":           {"idx=1", "ents[n] under n < table.len() (loop condition)"},
			"(*http2/hpack.headerFieldTable).evictOldest": {"idx=4 panic=2", "n <= len(ents) panic guard first; evict passes n <= len; evictCount overflow unreachable below 2^64 insertions"},
			"http2/hpack.HuffmanDecode":                   {"assert=1", "bufPool only ever holds *bytes.Buffer"},
			"http2/hpack.HuffmanDecodeToString":           {"assert=1", "bufPool only ever holds *bytes.Buffer"},
			"http2/hpack.buildRootHuffmanNode":            {"idx=1 panic=1", "table construction at first use over the constant code table (C04 checks the table)"},
			"http2/hpack.readVarInt":                      {"panic=1", "panic(bad n) only for n outside 1..8; every call passes a constant in {4,5,6,7} (call-args obligations)"},
		})
	c.Guard(D+"Write", Calls(D+"parseHeaderFieldRepr"), "len($r.buf) > 0")
	c.Callers(D+"parseHeaderFieldRepr", D+"Write")
	c.Reject("(*http2/hpack.headerFieldTable).evictOldest", Indexing("$r.ents"), "$0 > len($r)")
	c.Guard("(*http2/hpack.dynamicTable).evict", Indexing("$r.table.ents"), "φn < len(&$r.table)")

	// at(): index tests precede table indexing
	at := D + "at"
	c.Reject(at, RetConst(1, "true"), "$0 == 0")
	c.Guard(at, Indexing("http2/hpack.staticTable.ents"), "$0 != 0", "$0 <= len(http2/hpack.staticTable)")
	c.Guard(at, Indexing("$r.dynTab.table.ents"), "$0 > len(http2/hpack.staticTable)", "$0 <= maxTableIndex($r)")

	// huffmanDecode: maxLen test before each WriteByte
	hd := "http2/hpack.huffmanDecode"
	c.Count(hd, Calls("(*bytes.Buffer).WriteByte"), 2, 2)
	c.Reject(hd, Calls("(*bytes.Buffer).WriteByte"), "$1 != 0", "Len($0) == $1")
}
