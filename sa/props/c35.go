package props

import (
	"fmt"
	"go/token"
	"sort"
	"strings"

	"golang.org/x/tools/go/ssa"

	. "verif/sa/core"
)

func init() {
	Register(&Property{
		ID:    "C35",
		Floor: 80,
		Clauses: "HTTP/3 frame limit discipline as structure: stream.lim is written only by readFrameHeader, endFrame, discardFrame, recordBytesRead and the two constructors; inside internal/http3 the QUIC stream is read only by stream.Read, ReadByte, readVarint and discardFrame; " +
			"Read/ReadByte/readVarint account every read through recordBytesRead (argument = the count read / 1 / the length announced by the first byte) and test its error before a successful return; " +
			"readFrameHeader refuses while lim >= 0 and installs the second varint as lim; endFrame refuses lim != 0 and resets to -1; recordBytesRead tests lim < 0 after the subtraction on every path to a nil return and reports errH3FrameError; " +
			"stream.Read/ReadByte map EOF inside a frame and other read errors to errH3FrameError and return nil only without error; readVarint maps a truncated continuation to errH3FrameError; " +
			"discardUnknownFrame has a case for every frameType constant, each refusing before discardFrame; discardFrame iterates to lim, resets lim to -1 before returning nil and reports errH3FrameError; " +
			"bodyReader.Read: stream.Read only with lim >= 0, the buffer handed to stream.Read is the caller's buffer or a slice of it of length <= lim (guarded merge or min()) and every reslice of it stays within len(p), after a frame header body bytes are read only through the DATA case or after discardUnknownFrame, endFrame only at lim == 0, " +
			"the sticky error is tested before any stream access and stored by the deferred function; readSettings: frame type and header error tested first, varints read only while lim > 0, reserved identifiers 2..5 refused before the callback, endFrame on the exit path; " +
			"writeVarint/readVarint case table (thresholds 2^(8n-2)-1, n = 1,2,4,8 bytes, tag log2(n)<<6, descending shifts; reader mask 0x3f, length 1<<(b>>6), v<<8|b); " +
			"no peer-sized make reachable from the frame/settings readers; reviewed panic-site inventory for them.",
		NotCovered: "values of the bytes delivered; that lim equals the true remaining frame length (arithmetic over histories); nil dereference after recordBytesRead sets st.stream = nil; " +
			"callers outside body.go/settings.go that drive readFrameHeader/endFrame (request and response header parsing) beyond the writers/callers sets; the QUIC stream layer; negative arguments of writeVarint.",
		Run: c35,
	})
}

func c35(c *Ctx) {
	const ST = "(*" + h3 + "stream)."
	lim := h3 + "stream.lim"
	qRead, qReadByte := "(*quic.Stream).Read", "(*quic.Stream).ReadByte"
	frameErr, ok := c.P.ConstInt(h3 + "errH3FrameError")
	if !ok {
		c.Undecided("anchor", h3+"errH3FrameError", "constant not found")
		return
	}
	fe := fmt.Sprint(frameErr)
	rec := Calls(ST + "recordBytesRead")

	// ---- ownership
	c.Writers(lim, ST+"readFrameHeader", ST+"endFrame", ST+"discardFrame", ST+"recordBytesRead", h3+"newConnStream", h3+"newStream")
	{
		allowed := map[string]bool{ST + "Read": true, ST + "ReadByte": true, ST + "readVarint": true, ST + "discardFrame": true}
		n, bad := 0, []string{}
		var pos token.Pos
		for _, fn := range c.P.All {
			if !strings.Contains(FnName(Outer(fn)), "internal/http3.") {
				continue
			}
			ForEachInstr(fn, func(in ssa.Instruction) {
				if ci, ok := in.(ssa.CallInstruction); ok {
					cn := CalleeName(ci.Common())
					if cn == qRead || cn == qReadByte {
						n++
						if o := FnName(Outer(fn)); !allowed[o] {
							bad = append(bad, o)
							pos = in.Pos()
						}
					}
				}
			})
		}
		sort.Strings(bad)
		c.Check(n >= 4 && len(bad) == 0, "callers", "quic.Stream.Read/ReadByte inside internal/http3 ⊆ {stream.Read, stream.ReadByte, stream.readVarint, stream.discardFrame}", pos,
			fmt.Sprintf("%d call(s)", n), "also called in "+strings.Join(bad, ", "))
	}

	// ---- stream.Read
	rd := ST + "Read"
	c.CallAfter(rd, Calls(qRead), ST+"recordBytesRead")
	c.Count(rd, rec.ArgIs(1, "Read($r.stream,$0)#0"), 1, 1)
	c.ErrChecked(rd, rec, -1, RetOK())
	// EOF inside a frame never yields a nil error. io.EOF is a non-nil sentinel (errors.New), so
	// err == io.EOF implies err != nil: the implied atom is part of the assumption, which lets both the
	// dominance form (a leading `if err == nil { return n, nil }`) and the path evaluation (which
	// does not know that io.EOF differs from nil) discard the no-error exit.
	c.Reject(rd, RetOK(), "Read($r.stream,$0)#1 == io.EOF", "Read($r.stream,$0)#1 != nil", "$r.lim > 0")
	c.Count(rd, c.EdgeWhere("$r.lim > 0", "Read($r.stream,$0)#1 == io.EOF"), 1, 1)
	// any other read error never yields a nil error (the nil return after a non-nil error is legitimate
	// exactly for EOF at a frame end, so the rule is stated over the error value, not over "after the err != nil edge")
	c.Reject(rd, RetOK(), "Read($r.stream,$0)#1 != nil", "Read($r.stream,$0)#1 != io.EOF")
	c.Guard(rd, RetTerm(1, "io.EOF"), "Read($r.stream,$0)#1 == io.EOF", "$r.lim <= 0", "$r.lim != 0")
	c.Count(rd, RetTerm(1, fe), 2, -1)

	// ---- stream.ReadByte
	rb := ST + "ReadByte"
	c.Before(rb, rec, Calls(qReadByte))
	c.Count(rb, rec.ArgIs(1, "1"), 1, 1)
	c.Reject(rb, Calls(qReadByte), "recordBytesRead($r,1) != nil")
	c.Reject(rb, RetOK(), "ReadByte($r.stream)#1 != nil")
	c.Guard(rb, RetTerm(1, "io.EOF"), "ReadByte($r.stream)#1 == io.EOF", "$r.lim < 0")
	c.Count(rb, RetTerm(1, fe), 1, -1)

	// ---- stream.readVarint (reader half of the codec is checked below)
	rv := ST + "readVarint"
	c.PassBetween(rv, Calls(qReadByte), RetOK(), rec, false)
	c.ArgFrom(rv, rec, 1, "the first byte read", IsCallTo(qReadByte))
	c.ErrChecked(rv, rec, -1, RetOK())
	c.Count(rv, RetTerm(1, fe), 1, -1)
	if fn := c.MustFn(rv); fn != nil {
		for i, in := range Calls(qReadByte).F(c.P, fn) {
			// each byte read is followed by its own error test before the value is used
			call := in.(*ssa.Call)
			sel := Sel{Name: fmt.Sprintf("quic ReadByte #%d", i+1), F: func(*Prog, *ssa.Function) []ssa.Instruction { return []ssa.Instruction{call} }}
			c.ErrChecked(rv, sel, 1, RetOK())
		}
	}

	// ---- frame header / end
	fh := ST + "readFrameHeader"
	c.Reject(fh, Union(Calls(rv), Calls(h3+"readVarint[internal/http3.frameType]"), Stores(lim), RetOK()), "$r.lim >= 0")
	c.Count(fh, Stores(lim).StoredIs("readVarint($r)#0"), 1, 1)
	c.ErrChecked(fh, Calls(rv), 1, Union(Stores(lim), RetOK()))
	c.ErrChecked(fh, Calls(h3+"readVarint[internal/http3.frameType]"), 1, Union(Stores(lim), RetOK()))
	c.Before(fh, Calls(h3+"readVarint[internal/http3.frameType]"), Calls(rv))
	c.Count(fh, RetTerm(1, fe), 1, -1)
	ef := ST + "endFrame"
	c.Reject(ef, Union(Stores(lim), RetOK()), "$r.lim != 0")
	c.Count(ef, Stores(lim).StoredIs("-1"), 1, 1)
	c.Count(ef, Stores(h3+"connectionError.code").StoredIs(fe), 1, 1)

	// ---- recordBytesRead
	rr := ST + "recordBytesRead"
	c.Count(rr, Stores(lim).StoredIs("($r.lim-$0)"), 1, 1)
	c.Guard(rr, Stores(lim), "$r.lim >= 0")
	c.PassBetween(rr, Stores(lim), RetOK(), c.Edge("$r.lim >= 0"), false)
	c.Count(rr, Stores(h3+"connectionError.code").StoredIs(fe), 1, 1)
	c.NeverAfter(rr, Stores(h3+"connectionError.code"), RetOK(), false)

	// ---- unknown frames
	du := ST + "discardUnknownFrame"
	c.SwitchCovers(du, h3+"frameType")
	for name, v := range c.P.ConstsOfType(h3 + "frameType") {
		_ = name
		c.Reject(du, Calls(ST+"discardFrame"), "$0 == "+v.ExactString())
	}
	c.Count(du, Calls(ST+"discardFrame"), 1, 1)
	df := ST + "discardFrame"
	c.Before(df, Stores(lim).StoredIs("-1"), RetOK())
	c.ErrChecked(df, Calls(qReadByte), 1, Union(Stores(lim), RetOK()))
	c.Count(df, Stores(h3+"streamError.code").StoredIs(fe), 1, 1)
	if fn := c.MustFn(df); fn != nil {
		// the loop reading bytes is bounded by lim: some loop test compares a counter with $r.lim
		found := false
		ForEachInstr(fn, func(in ssa.Instruction) {
			if ifi, ok := in.(*ssa.If); ok {
				a := CondAtom(ifi.Cond)
				if a.Kind == LE && a.L.Coef["$r.lim"] != 0 && len(a.L.Coef) == 2 {
					found = true
				}
			}
		})
		c.Check(found, "loop-bound", df+": the discard loop is bounded by lim", fn.Pos(), "", "no loop test relating a counter to $r.lim")
	}

	// ---- bodyReader.Read
	br := "(*" + h3 + "bodyReader).Read"
	stRead := Calls(rd)
	fData, _ := c.P.ConstInt(h3 + "frameTypeData")
	c.Guard(br, stRead, "$r.st.lim >= 0")
	// the clamp, over values: the caller's buffer is only ever resliced within its length
	// (`if len(p) > lim { p = p[:lim] }` establishes lim < len(p); `p[:min(len(p), lim)]` is bounded by construction),
	// and what reaches stream.Read is p or a slice of p of length <= lim (on the edge where the unsliced p
	// arrives the branch facts give len(p) <= lim; a slice p[:h] has h <= lim).
	c.H3qSlicesInBounds(br, "$0")
	c.H3qBufClamped(br, stRead, 1, "$0", "$r.st.lim")
	c.PassBetween(br, Calls(fh), stRead, Union(c.Edge(fmt.Sprintf("readFrameHeader($r.st)#0 == %d", fData)), Calls(du)), false)
	c.ErrChecked(br, Calls(du), -1, Union(stRead, Calls(fh)))
	c.Guard(br, Calls(ef), "$r.st.lim == 0")
	c.Guard(br, Calls(fh), "$r.st.lim < 0")
	c.Reject(br, Union(stRead, Calls(fh), Calls(ef)), "$r.err != nil")
	c.Before(br, Defers(br+"$1"), Union(stRead, Calls(fh), Calls(ef)))
	c.Guard(br+"$1", Stores(h3+"bodyReader.err"), "^err != nil")
	c.Count(br+"$1", Stores(h3+"bodyReader.err").StoredIs("^err"), 1, 1)
	c.Writers(h3+"bodyReader.err", br, "(*"+h3+"bodyReader).Close")

	// ---- settings
	rs := ST + "readSettings"
	cb := CallsOfParam(0)
	fSettings, _ := c.P.ConstInt(h3 + "frameTypeSettings")
	c.Reject(rs, Union(Calls(rv), cb, Calls(ef)), fmt.Sprintf("readFrameHeader($r)#0 != %d", fSettings))
	c.Reject(rs, Union(Calls(rv), cb, Calls(ef)), "readFrameHeader($r)#1 != nil")
	c.Guard(rs, Calls(rv), "$r.lim > 0")
	c.ErrChecked(rs, Calls(rv), 1, cb)
	c.PassBetween(rs, c.Edge("$r.lim <= 0"), Returns(), Calls(ef), true)
	if fn := c.MustFn(rs); fn != nil {
		if sites := cb.F(c.P, fn); len(sites) == 1 {
			id := Term(BaselineArgs(sites[0].(ssa.CallInstruction).Common())[0])
			for k := 2; k <= 5; k++ {
				c.Reject(rs, cb, fmt.Sprintf("%s == %d", id, k))
			}
		} else {
			c.Undecided("anchor", rs+": callback", fmt.Sprintf("%d callback call sites", len(sites)))
		}
	}

	// ---- varint codec
	varintTable(c, ST+"writeVarint", rv)

	// ---- allocation and panics
	entries := []string{br, rs, fh, ef, du, df, rd, rb, rv, rr, "(*" + h3 + "genericConn).handleUnidirectionalStream"}
	stop := []string{qRead, qReadByte, "(*" + h3 + "qpackDecoder).decode",
		"(*" + h3 + "serverConn).handleControlStream", "(*" + h3 + "clientConn).handleControlStream",
		"(*" + h3 + "serverConn).abort", "(*" + h3 + "clientConn).abort", "(*" + h3 + "genericConn).handleStreamError"}
	c.BoundedAlloc("frame and settings readers", entries, stop, AllocSources{
		Calls:  []string{rv, h3 + "readVarint[internal/http3.frameType]", ST + "readPrefixedIntWithByte", "encoding/binary.ReadUvarint"},
		Fields: []string{lim},
	}, nil)
	if fn := c.MustFn(ST + "readFrameData"); fn != nil {
		refs := c.P.FuncRefs(fn)
		who := []string{}
		for _, r := range refs {
			who = append(who, r.Fn)
		}
		c.Check(len(refs) == 0, "callers", ST+"readFrameData (make([]byte, lim)) has no caller outside tests", fn.Pos(), "", "referenced from "+strings.Join(who, ", "))
	}
	c.PanicInventory(entries, stop, map[string]Inv{
		qRead:     {Sites: "idx=3 panic=1", Why: "QUIC receive path below stream.Read: boundary of this property (callees not followed)"},
		qReadByte: {Sites: "idx=1", Why: "QUIC receive path below stream.ReadByte: boundary of this property"},
	})
}

// varintTable checks the writer's case table against the QUIC varint layout and
// the reader's constants against the same layout.
func varintTable(c *Ctx, wr, rd string) {
	rule := "varint-table"
	wf, rf := c.MustFn(wr), c.MustFn(rd)
	if wf == nil || rf == nil {
		return
	}
	const qWriteByte = "(*quic.Stream).WriteByte"
	// group WriteByte calls by block
	byBlock := map[*ssa.BasicBlock][]*ssa.Call{}
	var order []*ssa.BasicBlock
	ForEachInstr(wf, func(in ssa.Instruction) {
		if call, ok := in.(*ssa.Call); ok && CalleeName(&call.Call) == qWriteByte {
			if byBlock[call.Block()] == nil {
				order = append(order, call.Block())
			}
			byBlock[call.Block()] = append(byBlock[call.Block()], call)
		}
	})
	seen := map[int]bool{}
	for _, b := range order {
		calls := byBlock[b]
		n := len(calls)
		construct := fmt.Sprintf("%s: %d-byte case", wr, n)
		lg := map[int]int64{1: 0, 2: 1, 4: 2, 8: 3}
		tagWant, okN := lg[n]
		if !okN || seen[n] {
			c.Fail(rule, construct, calls[0].Pos(), "number of bytes written in one case must be a distinct one of 1, 2, 4, 8")
			continue
		}
		seen[n] = true
		// threshold: the case is entered under $0 <= 2^(8n-2)-1
		want := fmt.Sprintf("$0 <= %d", (int64(1)<<uint(8*n-2))-1)
		if !c.P.HoldsAt(calls[0], want, true) {
			c.Fail(rule, construct, calls[0].Pos(), "case is not entered under "+want+"; facts: {"+FactsText(calls[0])+"}")
			continue
		}
		bad := ""
		for i, call := range calls {
			shift := int64(8 * (n - 1 - i))
			arg := BaselineArgs(&call.Call)[1]
			tag := int64(0)
			v := stripConv(arg)
			if bo, ok := v.(*ssa.BinOp); ok && bo.Op == token.OR {
				k, isK := stripConv(bo.X).(*ssa.Const)
				rest := bo.Y
				if !isK {
					k, isK = stripConv(bo.Y).(*ssa.Const)
					rest = bo.X
				}
				if !isK {
					bad = fmt.Sprintf("byte %d: OR without a constant tag", i)
					break
				}
				tag, _ = IntOf64(k)
				v = stripConv(rest)
			}
			got := int64(0)
			if bo, ok := v.(*ssa.BinOp); ok && bo.Op == token.SHR {
				k, isK := stripConv(bo.Y).(*ssa.Const)
				if !isK {
					bad = fmt.Sprintf("byte %d: non-constant shift", i)
					break
				}
				got, _ = IntOf64(k)
				v = stripConv(bo.X)
			}
			if Term(v) != "$0" || got != shift {
				bad = fmt.Sprintf("byte %d is `%s`, want $0>>%d", i, Term(arg), shift)
				break
			}
			wantTag := int64(0)
			if i == 0 {
				wantTag = tagWant << 6
			}
			if tag != wantTag {
				bad = fmt.Sprintf("byte %d carries tag %#x, want %#x", i, tag, wantTag)
				break
			}
		}
		if bad != "" {
			c.Fail(rule, construct, calls[0].Pos(), bad)
		} else {
			c.OK(rule, construct, want+fmt.Sprintf(", tag %#x", tagWant<<6))
		}
	}
	c.Check(len(seen) == 4, rule, wr+": cases for 1, 2, 4 and 8 bytes", wf.Pos(), "", fmt.Sprintf("%d cases found", len(seen)))
	c.Guard(wr, Panics(), fmt.Sprintf("$0 > %d", (int64(1)<<62)-1))
	// reader
	var mask, lenShift, accShift int64 = -1, -1, -1
	ForEachInstr(rf, func(in ssa.Instruction) {
		bo, ok := in.(*ssa.BinOp)
		if !ok {
			return
		}
		k, isK := stripConv(bo.Y).(*ssa.Const)
		if !isK {
			return
		}
		n, _ := IntOf64(k)
		switch bo.Op {
		case token.AND:
			mask = n
		case token.SHR:
			lenShift = n
		case token.SHL:
			if _, one := stripConv(bo.X).(*ssa.Const); !one {
				accShift = n
			}
		}
	})
	c.Check(mask == 0x3f && lenShift == 6 && accShift == 8, rule, rd+": value mask 0x3f, length 1<<(b>>6), accumulate v<<8|b", rf.Pos(), "",
		fmt.Sprintf("mask %#x, length shift %d, accumulate shift %d", mask, lenShift, accShift))
	// the continuation loop runs to the same length that is recorded afterwards
	if recs := Calls("(*"+h3+"stream).recordBytesRead").F(c.P, rf); len(recs) == 1 {
		lenT := Term(BaselineArgs(recs[0].(ssa.CallInstruction).Common())[1])
		found := false
		ForEachInstr(rf, func(in ssa.Instruction) {
			if ifi, ok := in.(*ssa.If); ok {
				a := CondAtom(ifi.Cond)
				if a.Kind == LE && a.L.Coef[lenT] != 0 && len(a.L.Coef) == 2 {
					found = true
				}
			}
		})
		c.Check(found, rule, rd+": continuation loop bounded by the recorded length "+lenT, rf.Pos(), "", "no loop test against "+lenT)
	} else {
		c.Undecided(rule, rd+": continuation loop", "expected exactly one recordBytesRead call")
	}
}

func stripConv(v ssa.Value) ssa.Value {
	for {
		switch x := v.(type) {
		case *ssa.Convert:
			v = x.X
		case *ssa.ChangeType:
			v = x.X
		default:
			return v
		}
	}
}
