package props

import (
	"strings"

	"golang.org/x/tools/go/ssa"

	. "verif/sa/core"
)

type ssaInstr = ssa.Instruction

// inRangeLoop: the call's argument is indexed by a range-loop counter.
func inRangeLoop(in ssa.Instruction) bool {
	ci, ok := in.(ssa.CallInstruction)
	if !ok {
		return false
	}
	for _, a := range ci.Common().Args {
		if strings.Contains(Term(a), "φrangeindex") {
			return true
		}
	}
	return false
}

// loopCarried reports whether v is (or merges) a value that survives from one
// loop iteration to the next: a phi that is reachable from its own edges.
func loopCarried(v ssa.Value) bool {
	var visit func(x ssa.Value, stack map[*ssa.Phi]bool) bool
	visit = func(x ssa.Value, stack map[*ssa.Phi]bool) bool {
		ph, ok := x.(*ssa.Phi)
		if !ok {
			return false
		}
		if stack[ph] {
			return true
		}
		stack[ph] = true
		defer delete(stack, ph)
		for _, e := range ph.Edges {
			if visit(e, stack) {
				return true
			}
		}
		return false
	}
	return visit(v, map[*ssa.Phi]bool{})
}
