package props

import (
	"strings"

	"golang.org/x/tools/go/ssa"

	. "verif/sa/core"
)

type ssaInstr = ssa.Instruction

// inRangeLoop: the call's last argument is an element x[i] whose index i is a
// bare loop counter (not a field such as level.newest): the call sits in a loop over x.
func inRangeLoop(in ssa.Instruction) bool {
	ci, ok := in.(ssa.CallInstruction)
	if !ok || len(BaselineArgs(ci.Common())) == 0 {
		return false
	}
	a := BaselineArgs(ci.Common())[len(BaselineArgs(ci.Common()))-1]
	ld, ok := a.(*ssa.UnOp)
	if !ok {
		return false
	}
	ia, ok := ld.X.(*ssa.IndexAddr)
	if !ok {
		return false
	}
	t := Term(ia.Index)
	return strings.Contains(t, "φ") && !strings.Contains(t, ".")
}

// loopCarried reports whether v is (or merges) a value that survives from one
// loop iteration to the next: a phi that is reachable from its own edges.
func loopCarried(v ssa.Value) bool {
	var visit func(x ssa.Value, stack map[*ssa.Phi]bool) bool
	visit = func(x ssa.Value, stack map[*ssa.Phi]bool) bool {
		ph, ok := x.(*ssa.Phi)
		if !ok {
			return false
		}
		if stack[ph] {
			return true
		}
		stack[ph] = true
		defer delete(stack, ph)
		for _, e := range ph.Edges {
			if visit(e, stack) {
				return true
			}
		}
		return false
	}
	return visit(v, map[*ssa.Phi]bool{})
}

// ifCondCall returns the call that is the (possibly negated) condition of ifi.
func ifCondCall(ifi *ssa.If) (*ssa.Call, bool) {
	v := ifi.Cond
	for {
		if u, ok := v.(*ssa.UnOp); ok {
			v = u.X
			continue
		}
		break
	}
	c, ok := v.(*ssa.Call)
	return c, ok
}

// loopVar reports whether v is a loop variable: a phi one of whose incoming
// values is computed from the phi itself (i = i >> 7, n += k).
func loopVar(v ssa.Value) bool {
	ph, ok := v.(*ssa.Phi)
	if !ok {
		return false
	}
	found := false
	for _, e := range ph.Edges {
		if e == ssa.Value(ph) {
			continue
		}
		Backward(e, func(x ssa.Value) bool {
			if x == ssa.Value(ph) {
				found = true
			}
			return !found
		})
	}
	return found
}

// upperBounds returns values that are each >= v by construction: v itself and,
// when v is min(a, b, ...), the upper bounds of every argument.
func upperBounds(v ssa.Value) []ssa.Value {
	out := []ssa.Value{v}
	if call, ok := v.(*ssa.Call); ok {
		if b, isB := call.Call.Value.(*ssa.Builtin); isB && b.Name() == "min" {
			for _, a := range BaselineArgs(&call.Call) {
				out = append(out, upperBounds(a)...)
			}
		}
	}
	return out
}
