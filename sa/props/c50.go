package props

import (
	"fmt"
	"go/ast"
	"go/token"
	"go/types"
	"regexp"
	"sort"
	"strings"

	"golang.org/x/tools/go/ssa"

	. "verif/sa/core"
)

var m1ProfileCall = regexp.MustCompile(`^[A-Za-z_][A-Za-z0-9_]*\(\$r[,)]`)

func init() {
	Register(&Property{
		ID:    "C50",
		Floor: 70,
		Clauses: "idna A-label handling in Profile.process: the ASCII-only rejection (punyError after a successful decode) exists, is guarded by exactly isASCII(u) and len(u)>0, flows into the returned error, and is LIVE in the analysed build: no dominating branch condition of it (nor of decode, labels.set, validateLabel, encode) is a build-time constant that evaluates the other way; " +
			"it does not depend on any Profile option; labels are decoded only under the \"xn--\" prefix test with the prefix stripped; a decode error is recorded, skips labels.set and flows into the result; ToASCII/ToUnicode both go through process; non-ASCII labels are encoded with the same prefix; " +
			"punycode.decode rejects: delimiter at index 0, input exhausted inside a digit sequence (tested before the digit is read), invalid digit, overflow of either madd, code point below 0 or above MaxRune; madd multiplies in 64 bits and tests before adding; " +
			"encodeDigit/decodeDigit are inverse on 0..35 and decodeDigit accepts exactly [0-9A-Za-z] (exhaustive abstract evaluation over all 256 bytes); decode, encode and adapt reference the same named bootstring parameters, whose values are those of RFC 3492 section 5; both directions call adapt.",
		NotCovered: "idempotence of ToASCII and the ToASCII/ToUnicode laws (runtime); arithmetic equivalence of encode and decode beyond shared parameters and digit tables; the UTS 46 mapping/validation tables; " +
			"an empty decode (\"xn--\") is not treated as ASCII-only by the code (len(u)>0) and is left to validateLabel.",
		Run: c50,
	})
}

// m1BoolBranch selects the first instruction of the branch on which the idx-th
// (boolean) result of a call to callee has the given value.
func m1BoolBranch(callee string, idx int, val bool) Sel {
	return Sel{Name: fmt.Sprintf("branch %s#%d=%v", callee, idx, val), F: func(p *Prog, fn *ssa.Function) []ssa.Instruction {
		calls := map[ssa.Value]bool{}
		for _, in := range Calls(callee).F(p, fn) {
			calls[in.(ssa.Value)] = true
		}
		var out []ssa.Instruction
		for _, b := range fn.Blocks {
			if len(b.Instrs) == 0 {
				continue
			}
			ifi, ok := b.Instrs[len(b.Instrs)-1].(*ssa.If)
			if !ok {
				continue
			}
			cond, neg := ifi.Cond, false
			if u, ok := cond.(*ssa.UnOp); ok && u.Op == token.NOT {
				cond, neg = u.X, true
			}
			hit := false
			if ex, ok := cond.(*ssa.Extract); ok && calls[ex.Tuple] && ex.Index == idx {
				hit = true
			}
			if calls[cond] && idx == 0 {
				hit = true
			}
			if !hit {
				continue
			}
			succ := b.Succs[0]
			if val == neg {
				succ = b.Succs[1]
			}
			if len(succ.Instrs) > 0 {
				out = append(out, succ.Instrs[0])
			}
		}
		return out
	}}
}

// m1DeadFacts lists dominating branch conditions of in that are compile-time
// constants evaluating against the branch taken (the site is dead code in
// this build), and those that are constants at all.
func m1DeadFacts(in ssa.Instruction) (dead, constant []string) {
	for _, f := range FactsAtInstr(in) {
		k, ok := f.If.Cond.(*ssa.Const)
		if !ok {
			continue
		}
		s := f.Atom.String()
		constant = append(constant, s)
		want := f.Atom.Kind == TRUE // the edge taken needs the condition to be true
		if Term(k) == "true" != want {
			dead = append(dead, s)
		}
	}
	return
}

// m1ConstConjuncts names the constant operands of && chains in if-conditions of
// fn's syntax that enclose a call of the named function (for messages only).
func m1ConstConjuncts(p *Prog, fn *ssa.Function, callName string) []string {
	var out []string
	pk := p.PkgOfFn(fn)
	if fn.Syntax() == nil || pk == nil {
		return nil
	}
	var stack []ast.Node
	ast.Inspect(fn.Syntax(), func(n ast.Node) bool {
		if n == nil {
			stack = stack[:len(stack)-1]
			return true
		}
		stack = append(stack, n)
		ce, ok := n.(*ast.CallExpr)
		if !ok {
			return true
		}
		id, ok := ce.Fun.(*ast.Ident)
		if !ok || id.Name != callName {
			return true
		}
		for _, anc := range stack {
			ifs, ok := anc.(*ast.IfStmt)
			if !ok {
				continue
			}
			var split func(e ast.Expr)
			split = func(e ast.Expr) {
				if be, ok := e.(*ast.BinaryExpr); ok && be.Op == token.LAND {
					split(be.X)
					split(be.Y)
					return
				}
				if pe, ok := e.(*ast.ParenExpr); ok {
					split(pe.X)
					return
				}
				if tv, ok := pk.TypesInfo.Types[e]; ok && tv.Value != nil {
					out = append(out, fmt.Sprintf("%s (= %s)", types.ExprString(e), tv.Value))
				}
			}
			split(ifs.Cond)
		}
		return true
	})
	return out
}

// m1PkgConstsUsed lists the package-level constants of the function's own package referenced in its syntax.
func m1PkgConstsUsed(p *Prog, fn *ssa.Function) map[string]bool {
	out := map[string]bool{}
	pk := p.PkgOfFn(fn)
	if fn == nil || fn.Syntax() == nil || pk == nil {
		return out
	}
	ast.Inspect(fn.Syntax(), func(n ast.Node) bool {
		if id, ok := n.(*ast.Ident); ok {
			if k, ok := pk.TypesInfo.Uses[id].(*types.Const); ok && k.Pkg() == pk.Types && k.Parent() == pk.Types.Scope() {
				out[k.Name()] = true
			}
		}
		return true
	})
	return out
}

func c50(c *Ctx) {
	const proc = "(*idna.Profile).process"
	fn := c.MustFn(proc)
	if fn == nil {
		return
	}
	one := func(sel Sel) ssa.Instruction {
		ins := sel.F(c.P, fn)
		if len(ins) != 1 {
			return nil
		}
		return ins[0]
	}
	// ---- anchors
	dec := one(Calls("idna.decode"))
	if dec == nil || !c.Count(proc, Calls("idna.decode"), 1, 1) {
		c.Undecided("anchor", proc+": decode call", "expected exactly one call of idna.decode")
		return
	}
	u := Term(dec.(ssa.Value)) + "#0"
	derr := Term(dec.(ssa.Value)) + "#1"
	rej := Calls("idna.punyError")
	if !c.Count(proc, rej, 1, 1) {
		return
	}
	rejIn := one(rej)

	// ---- the rejection and its exact guard
	c.Guard(proc, rej, "isASCII("+u+")", "len("+u+") > 0", derr+" == nil")
	c.Has(proc, Calls("idna.isASCII").ArgIs(0, u))
	// liveness in this build
	live := func(name string, sel Sel) {
		for i, in := range sel.F(c.P, fn) {
			construct := fmt.Sprintf("%s: %s", proc, name)
			if i > 0 {
				construct = fmt.Sprintf("%s #%d", construct, i+1)
			}
			dead, _ := m1DeadFacts(in)
			msg := ""
			if len(dead) > 0 {
				msg = "dominated by a branch on a build-time constant that evaluates to " + strings.Join(dead, ", ") + " for the taken edge: unreachable in this build"
				if names := m1ConstConjuncts(c.P, fn, "punyError"); len(names) > 0 && name == "ASCII-only rejection" {
					msg += "; constant conjunct(s) in the enclosing if: " + strings.Join(names, ", ")
				}
			}
			c.Check(len(dead) == 0, "live-in-build", construct, InstrPos(in), "no dominating constant-false condition", msg)
		}
	}
	if len(rej.F(c.P, fn)) == 0 {
		c.Undecided("live-in-build", proc+": ASCII-only rejection", "site not found")
	}
	live("ASCII-only rejection", rej)
	live("isASCII test", Calls("idna.isASCII"))
	live("decode", Calls("idna.decode"))
	live("labels.set", Calls("(*idna.labelIter).set"))
	live("validateLabel", Calls("(*idna.Profile).validateLabel"))
	live("encode", Calls("idna.encode"))
	// no constant at all may guard the rejection (a constant true conjunct today is a constant false in another toolchain)
	if rejIn != nil {
		_, consts := m1DeadFacts(rejIn)
		c.Check(len(consts) == 0, "live-in-build", proc+": ASCII-only rejection does not depend on a build-time constant", InstrPos(rejIn), "", "guarded by constant condition(s) "+strings.Join(consts, ", ")+" "+strings.Join(m1ConstConjuncts(c.P, fn, "punyError"), ", "))
		// independent of profile options
		var opt []string
		for _, f := range FactsAtInstr(rejIn) {
			for t := range f.Atom.L.Coef {
				// a field of the profile, or any call that receives the profile (p.validateLabels(), ...)
				if strings.HasPrefix(t, "$r.") || m1ProfileCall.MatchString(t) {
					opt = append(opt, f.Atom.String())
				}
			}
		}
		sort.Strings(opt)
		c.Check(len(opt) == 0, "profile-independent", proc+": ASCII-only rejection", InstrPos(rejIn), "no dominating condition reads a Profile option", "rejection only happens under option test(s): "+strings.Join(opt, ", "))
	}
	// the rejection, decode errors, validation and encode errors reach the returned error
	leaves := map[string]bool{}
	for _, r := range Returns().F(c.P, fn) {
		rr := r.(*ssa.Return)
		if len(rr.Results) == 2 {
			for _, l := range PhiLeaves(rr.Results[1]) {
				leaves[m1Leaf(l)] = true
			}
		}
	}
	for _, l := range []string{"idna.punyError", "idna.decode#1", "(*idna.Profile).validateLabel", "idna.encode#1"} {
		c.Check(leaves[l], "error-propagates", proc+": "+l+" reaches the returned error", fn.Pos(), "", "this error value never flows into process's error result")
	}

	// ---- A-label recognition and decode-failure handling
	c.Has(proc, Calls("strings.HasPrefix").ArgIs(1, `"xn--"`))
	prefixed := false
	for _, f := range FactsAtInstr(dec) {
		for t := range f.Atom.L.Coef {
			if f.Atom.Kind == TRUE && strings.HasPrefix(t, "HasPrefix(") && strings.HasSuffix(t, `,"xn--")`) {
				prefixed = true
			}
		}
	}
	c.Check(prefixed, "guard-before", proc+": decode only under the xn-- prefix test", InstrPos(dec), "", "decode is not dominated by strings.HasPrefix(label, \"xn--\")")
	if v, ok := c.P.Object("idna.acePrefix").(*types.Const); ok {
		c.Check(v.Val().ExactString() == `"xn--"`, "constant", "idna.acePrefix", token.NoPos, "xn--", "acePrefix is "+v.Val().ExactString())
	} else {
		c.Undecided("constant", "idna.acePrefix", "not found")
	}
	c.Check(strings.HasSuffix(Term(BaselineArgs(&dec.(*ssa.Call).Call)[0]), "[4:]"), "decode-arg", proc+": decode receives the label without its 4-byte prefix", InstrPos(dec), "", "argument is "+Term(BaselineArgs(&dec.(*ssa.Call).Call)[0]))
	set := Calls("(*idna.labelIter).set").ArgIs(1, u)
	// a failed decode keeps the old label: neither set(u) nor validateLabel(u) before the next label is decoded
	c.NeverAfterUntil(proc, m1ErrBranchOf("idna.decode"), set, Calls("idna.decode"))
	c.NeverAfterUntil(proc, m1ErrBranchOf("idna.decode"), Calls("(*idna.Profile).validateLabel").ArgIs(1, u), Calls("idna.decode"))
	c.Guard(proc, set, derr+" == nil")
	c.Has(proc, Calls("(*idna.Profile).validateLabel").ArgIs(1, u))
	// ToASCII direction
	c.Guard(proc, Calls("idna.encode"), "$1")
	c.Has(proc, Calls("idna.encode").ArgIs(0, `"xn--"`))
	nonASCII := false
	for _, in := range Calls("idna.encode").F(c.P, fn) {
		for _, f := range FactsAtInstr(in) {
			for t := range f.Atom.L.Coef {
				if f.Atom.Kind == FALS && strings.HasPrefix(t, "ascii(") {
					nonASCII = true
				}
			}
		}
	}
	c.Check(nonASCII, "guard-before", proc+": encode only for labels that are not ASCII", fn.Pos(), "", "encode is not under !ascii(label)")
	c.Has("(*idna.Profile).ToASCII", Calls(proc).ArgIs(2, "true"))
	c.Has("(*idna.Profile).ToUnicode", Calls(proc).ArgIs(2, "false"))
	c.Callers("idna.decode", proc)

	// ---- punycode.decode
	c50decode(c)

	// ---- digit tables (exhaustive)
	c50digits(c)

	// ---- shared bootstring parameters
	want := map[string]int64{"base": 36, "tmin": 1, "tmax": 26, "skew": 38, "damp": 700, "initialBias": 72, "initialN": 128}
	var names []string
	for n := range want {
		names = append(names, n)
	}
	sort.Strings(names)
	for _, n := range names {
		v, ok := c.P.ConstInt("idna." + n)
		c.Check(ok && v == want[n], "rfc3492-parameter", "idna."+n, token.NoPos, fmt.Sprintf("= %d", want[n]), fmt.Sprintf("is %d (found=%v), RFC 3492 section 5 says %d", v, ok, want[n]))
	}
	uses := map[string][]string{
		"idna.decode": {"base", "tmin", "tmax", "initialBias", "initialN"},
		"idna.encode": {"base", "tmin", "tmax", "initialBias", "initialN"},
		"idna.adapt":  {"base", "tmin", "tmax", "skew", "damp"},
	}
	for _, f := range []string{"idna.decode", "idna.encode", "idna.adapt"} {
		ff := c.MustFn(f)
		if ff == nil {
			continue
		}
		used := m1PkgConstsUsed(c.P, ff)
		for _, n := range uses[f] {
			c.Check(used[n], "shared-parameter", f+" uses idna."+n, ff.Pos(), "", "the function does not reference the shared named constant (a private literal would let encoder and decoder drift apart)")
		}
	}
	c.Has("idna.decode", Calls("idna.adapt"))
	c.Has("idna.encode", Calls("idna.adapt"))
	c.Callers("idna.adapt", "idna.decode", "idna.encode")
}

func c50decode(c *Ctx) {
	const dec = "idna.decode"
	fn := c.MustFn(dec)
	if fn == nil {
		return
	}
	okRet := RetOK().Where("non-empty result", func(in ssa.Instruction) bool { return Term(in.(*ssa.Return).Results[0]) != `""` })
	c.Reject(dec, okRet, `LastIndex($0,"-") == 0`)
	c.Has(dec, Calls("strings.LastIndex").ArgIs(0, "$0").ArgIs(1, `"-"`))
	// digit and overflow tests
	c.NeverAfter(dec, m1BoolBranch("idna.decodeDigit", 1, false), RetOK(), true)
	c.NeverAfter(dec, m1BoolBranch("idna.madd", 1, true), RetOK(), true)
	nm := len(Calls("idna.madd").F(c.P, fn))
	c.Check(nm >= 2 && len(m1BoolBranch("idna.madd", 1, true).F(c.P, fn)) == nm, "result-tested", dec+": every madd overflow flag is branched on", fn.Pos(), fmt.Sprintf("%d calls", nm), "some madd call's overflow result is not tested")
	c.Check(len(m1BoolBranch("idna.decodeDigit", 1, false).F(c.P, fn)) == len(Calls("idna.decodeDigit").F(c.P, fn)), "result-tested", dec+": decodeDigit's ok flag is branched on", fn.Pos(), "", "decodeDigit's ok result is not tested")
	// input exhausted inside a variable-length integer: tested before the digit is read
	rets := map[ssa.Instruction]bool{}
	for _, r := range RetOK().F(c.P, fn) {
		rets[r] = true
	}
	reachOK := func(b *ssa.BasicBlock) bool {
		seen := map[*ssa.BasicBlock]bool{}
		var walk func(x *ssa.BasicBlock) bool
		walk = func(x *ssa.BasicBlock) bool {
			if seen[x] {
				return false
			}
			seen[x] = true
			for _, in := range x.Instrs {
				if rets[in] {
					return true
				}
			}
			for _, s := range x.Succs {
				if walk(s) {
					return true
				}
			}
			return false
		}
		return walk(b)
	}
	digitCalls := Calls("idna.decodeDigit").F(c.P, fn)
	exhausted := false
	var hi, lo *ssa.If
	for _, b := range fn.Blocks {
		if len(b.Instrs) == 0 {
			continue
		}
		ifi, ok := b.Instrs[len(b.Instrs)-1].(*ssa.If)
		if !ok {
			continue
		}
		if bo, ok := ifi.Cond.(*ssa.BinOp); ok && bo.Op == token.EQL && (Term(bo.X) == "len($0)" || Term(bo.Y) == "len($0)") && len(digitCalls) == 1 {
			if b.Dominates(digitCalls[0].Block()) && !reachOK(b.Succs[0]) && m1EdgeDom(b, 1, digitCalls[0].Block()) {
				exhausted = true
			}
		}
		a := CondAtom(ifi.Cond)
		if a.Kind == LE && a.L.K == 0x10FFFF+1 && !reachOK(b.Succs[0]) {
			hi = ifi
		}
	}
	c.Check(exhausted, "reject-before", dec+": position == len(encoded) rejected before each digit is read", fn.Pos(), "", "no test of the read position against len(encoded) that dominates decodeDigit(encoded[pos]) and rejects")
	if hi != nil {
		// the matching lower bound: same linear terms, opposite sign, constant 1 (x < 0)
		ha := CondAtom(hi.Cond)
		for _, b := range fn.Blocks {
			if len(b.Instrs) == 0 {
				continue
			}
			ifi, ok := b.Instrs[len(b.Instrs)-1].(*ssa.If)
			if !ok {
				continue
			}
			a := CondAtom(ifi.Cond)
			if a.Kind != LE || a.L.K != 1 || len(a.L.Coef) != len(ha.L.Coef) || reachOK(b.Succs[0]) {
				continue
			}
			same := true
			for t, k := range a.L.Coef {
				if ha.L.Coef[t] != -k {
					same = false
				}
			}
			if same {
				lo = ifi
			}
		}
	}
	c.Check(hi != nil, "reject-before", dec+": code point above utf8.MaxRune rejected", fn.Pos(), "", "no rejecting test against 0x10FFFF")
	c.Check(lo != nil, "reject-before", dec+": negative code point (int32 wrap) rejected", fn.Pos(), "", "no rejecting test n < 0 on the value tested against MaxRune")
	// madd
	c.Reject("idna.madd", RetConst(1, "false"), "($1*$2) > 2147483647 - $0")
	c.Guard("idna.madd", RetConst(1, "true"), "($1*$2) > 2147483647 - $0")
	if m := c.MustFn("idna.madd"); m != nil {
		wide := false
		for _, b := range m.Blocks {
			for _, in := range b.Instrs {
				if bo, ok := in.(*ssa.BinOp); ok && bo.Op == token.MUL {
					if bt, ok := bo.Type().Underlying().(*types.Basic); ok && bt.Kind() == types.Int64 {
						wide = true
					} else {
						wide = false
					}
				}
			}
		}
		c.Check(wide, "wide-multiply", "idna.madd: b*c computed in int64", m.Pos(), "", "the product is not computed in 64 bits: an int32 product can wrap before the overflow test")
	}
}

func m1EdgeDom(b *ssa.BasicBlock, k int, target *ssa.BasicBlock) bool {
	s := b.Succs[k]
	return len(s.Preds) == 1 && s.Dominates(target)
}

func c50digits(c *Ctx) {
	enc, dec := c.MustFn("idna.encodeDigit"), c.MustFn("idna.decodeDigit")
	if enc == nil || dec == nil {
		return
	}
	runDec := func(x int) (int, bool, bool) {
		outs, err := c.P.AbsRun(dec, []M1Val{M1Int{Bits: uint64(x)}})
		if err != nil || len(outs) != 1 || outs[0].Panic || len(outs[0].Results) != 2 {
			return 0, false, false
		}
		d, ok1 := outs[0].Results[0].(M1Int)
		ok, ok2 := outs[0].Results[1].(M1Bool)
		return int(int32(d.Bits)), bool(ok), ok1 && ok2
	}
	bad := ""
	for d := 0; d < 36 && bad == ""; d++ {
		outs, err := c.P.AbsRun(enc, []M1Val{M1Int{Bits: uint64(d)}})
		if err != nil || len(outs) != 1 || outs[0].Panic || len(outs[0].Results) != 1 {
			bad = fmt.Sprintf("encodeDigit(%d) does not evaluate to a single value", d)
			break
		}
		b, ok := outs[0].Results[0].(M1Int)
		if !ok {
			bad = fmt.Sprintf("encodeDigit(%d) is not constant", d)
			break
		}
		wantB := 'a' + d
		if d >= 26 {
			wantB = '0' + d - 26
		}
		if int(b.Bits) != wantB {
			bad = fmt.Sprintf("encodeDigit(%d) = %q, RFC 3492 says %q", d, rune(b.Bits), rune(wantB))
			break
		}
		back, ok2, det := runDec(int(b.Bits))
		if !det || !ok2 || back != d {
			bad = fmt.Sprintf("decodeDigit(encodeDigit(%d)) = (%d,%v)", d, back, ok2)
		}
	}
	c.Check(bad == "", "digit-table", "decodeDigit(encodeDigit(d)) == d for d in 0..35, lowercase letters then digits", enc.Pos(), "36 digits", bad)
	for _, d := range []int{-1, 36} {
		outs, err := c.P.AbsRun(enc, []M1Val{M1Norm(uint64(int64(d)), types.Typ[types.Int32])})
		c.Check(err == nil && len(outs) == 1 && outs[0].Panic, "digit-table", fmt.Sprintf("encodeDigit(%d) is not a digit", d), enc.Pos(), "panics (internal error), never emitted", "a value outside 0..35 is encoded as a digit")
	}
	bad = ""
	n := 0
	for x := 0; x < 256 && bad == ""; x++ {
		d, ok, det := runDec(x)
		if !det {
			bad = fmt.Sprintf("decodeDigit(%#x) does not evaluate to a single constant result", x)
			break
		}
		want, wok := 0, true
		switch {
		case '0' <= x && x <= '9':
			want = x - '0' + 26
		case 'A' <= x && x <= 'Z':
			want = x - 'A'
		case 'a' <= x && x <= 'z':
			want = x - 'a'
		default:
			wok = false
		}
		if ok != wok || ok && d != want {
			bad = fmt.Sprintf("decodeDigit(%q) = (%d,%v), want (%d,%v)", rune(x), d, ok, want, wok)
		}
		n++
	}
	c.Check(bad == "", "digit-table", "decodeDigit accepts exactly [0-9A-Za-z] with the RFC 3492 values", dec.Pos(), fmt.Sprintf("%d byte values", n), bad)
}
