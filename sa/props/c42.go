package props

import (
	"fmt"
	"go/constant"
	"go/token"
	"go/types"
	"sort"
	"strings"

	. "verif/sa/core"

	"golang.org/x/tools/go/ssa"
)

func init() {
	Register(&Property{
		ID:    "C42",
		Floor: 21,
		Clauses: "html/atom, exhaustively over the generated tables read from source: the hash function is xor-then-multiply over the accumulated value and returns it " +
			"(multiplier read from fnv); Lookup probes table[h&mask] then table[(h>>k)&mask] with h = fnv(seed, s), mask < len(table) (seed, k, mask read from Lookup); " +
			"Atom.String and Atom.string decode atomText[a>>s : a>>s + a&m] with the same s,m, which is also the length mask used by Lookup; " +
			"every Atom constant decodes to a non-empty in-range substring of atomText no longer than maxAtomLen; constants are pairwise distinct in value and in name; " +
			"every constant is stored in table at one of its two probe slots computed with the constants read above; every non-zero table entry is a declared constant; " +
			"no length-only test in Lookup cuts off a defined atom's length; every non-zero return of Lookup is dominated by the length-equality test and by match() on the same entry; " +
			"match returns true only past its loop exit and never on the branch where two bytes differ; " +
			"the table, atomText and the decode helpers are not written/called from unexpected places.",
		NotCovered: "that fnv/match visit every byte (loop bounds are taken from the range statement, not proven); run-time equality Lookup(a.String())==a is inferred from the table check plus the guards, not executed; " +
			"atoms outside the declared constants passed to String(); allocation behaviour of atom.String.",
		Run: c42,
	})
}

func c42(c *Ctx) {
	const pkg = "html/atom"
	rule := "atom-table"

	// ---- constants and tables from source --------------------------------
	var atomText string
	if o, ok := c.P.Object(pkg + ".atomText").(*types.Const); ok && o.Val().Kind() == constant.String {
		atomText = constant.StringVal(o.Val())
	}
	if !c.Check(atomText != "", rule, "atomText is a non-empty string constant", token.NoPos, fmt.Sprintf("%d bytes", len(atomText)), "html/atom.atomText not found or empty") {
		return
	}
	maxAtomLen, ok := c.P.ConstInt(pkg + ".maxAtomLen")
	if !ok {
		c.Undecided("anchor", pkg+".maxAtomLen", "constant not found")
		return
	}
	atoms := c.P.ConstsOfType(pkg + ".Atom")
	if len(atoms) < 100 {
		c.Undecided("anchor", pkg+".Atom constants", fmt.Sprintf("only %d constants of type Atom found", len(atoms)))
		return
	}
	tabExpr, tabPk := c.P.VarDecl(pkg + ".table")
	if tabExpr == nil {
		c.Undecided("anchor", pkg+".table", "table literal not found")
		return
	}
	tabLen := int64(-1)
	if at, ok := tabPk.TypesInfo.TypeOf(tabExpr).Underlying().(*types.Array); ok {
		tabLen = at.Len()
	}
	table := map[int64]uint32{}
	badLit := ""
	next := int64(0)
	for _, el := range Elts(tabExpr) {
		k, v := KV(el)
		idx := next
		if k != nil {
			var ok bool
			if idx, ok = IntOf(tabPk, k); !ok {
				badLit = "non-constant key"
				break
			}
		}
		val, ok := IntOf(tabPk, v)
		if !ok {
			badLit = "non-constant value"
			break
		}
		table[idx] = uint32(val)
		next = idx + 1
	}
	if !c.Check(badLit == "" && tabLen > 0 && len(table) > 0, rule, "table literal is a constant array", tabExpr.Pos(),
		fmt.Sprintf("%d explicit entries, array length %d", len(table), tabLen), "cannot read table: "+badLit) {
		return
	}

	// ---- hash function shape ----------------------------------------------
	mult, okShape := c42FnvShape(c)
	seed, shift2, mask, okProbe := c42LookupShape(c, tabLen)
	dshift, dmask, okDecode := c42DecodeShape(c, atomText)
	if !okShape || !okProbe || !okDecode {
		return
	}
	fnv := func(h uint32, s string) uint32 {
		for i := 0; i < len(s); i++ {
			h ^= uint32(s[i])
			h *= mult
		}
		return h
	}
	decode := func(a uint32) (string, bool) {
		start, n := a>>dshift, a&dmask
		if n == 0 || uint64(start)+uint64(n) > uint64(len(atomText)) {
			return "", false
		}
		return atomText[start : start+n], true
	}

	// ---- exhaustive checks over the constants ------------------------------
	names := make([]string, 0, len(atoms))
	for n := range atoms {
		names = append(names, n)
	}
	sort.Strings(names)
	var badDecode, badLen, dupVal, dupStr, notInTable []string
	byVal := map[uint32]string{}
	byStr := map[string]string{}
	lengths := map[int]bool{}
	for _, n := range names {
		u, _ := constant.Uint64Val(constant.ToInt(atoms[n]))
		a := uint32(u)
		s, ok := decode(a)
		if !ok || uint64(a) != u {
			badDecode = append(badDecode, fmt.Sprintf("%s=%#x", n, u))
			continue
		}
		if int64(len(s)) > maxAtomLen {
			badLen = append(badLen, fmt.Sprintf("%s (%q, %d bytes)", n, s, len(s)))
		}
		lengths[len(s)] = true
		if prev, dup := byVal[a]; dup {
			dupVal = append(dupVal, prev+"="+n)
		}
		byVal[a] = n
		if prev, dup := byStr[s]; dup {
			dupStr = append(dupStr, fmt.Sprintf("%s and %s both %q", prev, n, s))
		}
		byStr[s] = n
		h := fnv(seed, s)
		if table[int64(h&mask)] != a && table[int64((h>>shift2)&mask)] != a {
			notInTable = append(notInTable, fmt.Sprintf("%s (%q: slots %#x, %#x)", n, s, h&mask, (h>>shift2)&mask))
		}
	}
	pos := tabExpr.Pos()
	for _, l := range []*[]string{&badDecode, &badLen, &dupVal, &dupStr, &notInTable} {
		if len(*l) > 8 {
			*l = append((*l)[:8], fmt.Sprintf("… (%d in all)", len(*l)))
		}
	}
	c.Check(len(badDecode) == 0, rule, "every Atom constant decodes to a non-empty in-range substring of atomText", pos,
		fmt.Sprintf("%d constants", len(names)), "bad: "+strings.Join(badDecode, ", "))
	c.Check(len(badLen) == 0, rule, "no atom name is longer than maxAtomLen", pos, fmt.Sprintf("maxAtomLen=%d", maxAtomLen), "too long: "+strings.Join(badLen, ", "))
	c.Check(len(dupVal) == 0, rule, "Atom constants are pairwise distinct in value", pos, "", "equal values: "+strings.Join(dupVal, ", "))
	c.Check(len(dupStr) == 0, rule, "Atom constants are pairwise distinct in name", pos, "", strings.Join(dupStr, "; "))
	c.Check(len(notInTable) == 0, rule, "every Atom constant sits in table at one of its two probe slots", pos,
		fmt.Sprintf("fnv multiplier %d, seed %#x, second probe >>%d, mask %#x", mult, seed, shift2, mask), "not found by Lookup: "+strings.Join(notInTable, ", "))
	var strangers []string
	for idx, v := range table {
		if v == 0 {
			continue
		}
		if idx < 0 || idx >= tabLen {
			strangers = append(strangers, fmt.Sprintf("index %#x out of range", idx))
		}
		if _, ok := byVal[v]; !ok {
			s, _ := decode(v)
			strangers = append(strangers, fmt.Sprintf("table[%#x]=%#x (%q)", idx, v, s))
		}
	}
	sort.Strings(strangers)
	c.Check(len(strangers) == 0, rule, "every non-zero table entry is a declared Atom constant", pos, fmt.Sprintf("%d entries", len(table)),
		"Lookup can return an undeclared atom: "+strings.Join(strangers, ", "))

	// ---- Lookup's guards ------------------------------------------------------
	lk := pkg + ".Lookup"
	fn := c.MustFn(lk)
	if fn == nil {
		return
	}
	var nonZero []ssa.Instruction
	HtmEach(fn, func(in ssa.Instruction) {
		if r, ok := in.(*ssa.Return); ok && len(r.Results) == 1 {
			if k, isConst := HtmConstInt(r.Results[0]); !(isConst && k == 0) {
				nonZero = append(nonZero, in)
			}
		}
	})
	if len(nonZero) == 0 {
		c.Undecided("guard-before", lk+": non-zero returns", "Lookup has no return of a table entry")
	}
	for i, in := range nonZero {
		v := Term(in.(*ssa.Return).Results[0])
		sel := Sel{Name: fmt.Sprintf("return of probe %d", i+1), F: func(*Prog, *ssa.Function) []ssa.Instruction { return []ssa.Instruction{in} }}
		if !strings.Contains(v, pkg+".table[") {
			c.Fail("guard-before", lk+": "+sel.Name+" returns a table entry", in.Pos(), "returns "+v+", which is not an entry of table")
			continue
		}
		c.Guard(lk, sel, fmt.Sprintf("(%s&%d) == len($0)", v, dmask), fmt.Sprintf("match(string(%s),$0)", v))
	}
	// length-only tests must let every defined length through to a table return
	var cut []string
	HtmEach(fn, func(in ssa.Instruction) {
		ifi, ok := in.(*ssa.If)
		if !ok {
			return
		}
		a := CondAtom(ifi.Cond)
		coef, only := a.L.Coef["len($0)"]
		if !only || len(a.L.Coef) != 1 {
			return
		}
		for l := range lengths {
			val := coef*int64(l) + a.L.K
			var holds bool
			switch a.Kind {
			case LE:
				holds = val <= 0
			case EQ:
				holds = val == 0
			case NE:
				holds = val != 0
			default:
				return
			}
			succ := ifi.Block().Succs[0]
			if !holds {
				succ = ifi.Block().Succs[1]
			}
			if !HtmBlockReaches(succ, nonZero) {
				cut = append(cut, fmt.Sprintf("length %d fails `%s`", l, a))
			}
		}
	})
	sort.Strings(cut)
	c.Check(len(cut) == 0, "length-window", lk+": length-only tests admit every defined atom length", fn.Pos(),
		fmt.Sprintf("%d distinct lengths", len(lengths)), strings.Join(cut, "; "))

	// match(): true only after the loop; never on the branch where bytes differ
	c42Match(c)

	// ---- ownership ----------------------------------------------------------
	c42GlobalNotWritten(c, pkg, "table")
	c.Callers("(html/atom.Atom).string", lk)
	c.Callers(pkg+".match", lk)
	c.Callers(pkg+".fnv", lk)
}

// c42FnvShape checks h = (h ^ s[i]) * K inside a loop, returns the accumulated value, and yields K.
func c42FnvShape(c *Ctx) (uint32, bool) {
	name := "html/atom.fnv"
	rule := "hash-shape"
	fn := c.MustFn(name)
	if fn == nil {
		return 0, false
	}
	var muls []*ssa.BinOp
	HtmEach(fn, func(in ssa.Instruction) {
		if b, ok := in.(*ssa.BinOp); ok && b.Op == token.MUL {
			muls = append(muls, b)
		}
	})
	if len(muls) != 1 {
		c.Fail(rule, name+": one multiply per byte", fn.Pos(), fmt.Sprintf("found %d multiplications", len(muls)))
		return 0, false
	}
	x, k, ok := HtmBin(muls[0], token.MUL)
	if !ok {
		c.Fail(rule, name+": multiplier is a constant", muls[0].Pos(), "the multiplication has no constant operand")
		return 0, false
	}
	xor, ok := HtmStrip(x).(*ssa.BinOp)
	if !ok || xor.Op != token.XOR {
		c.Fail(rule, name+": xor-then-multiply", muls[0].Pos(), "the multiplied value is `"+Term(x)+"`, not h ^ byte")
		return 0, false
	}
	// one xor operand is the loop-carried accumulator (a phi fed by the parameter h and by the product), the other a byte of s
	var acc *ssa.Phi
	var other ssa.Value
	if p, ok := HtmStrip(xor.X).(*ssa.Phi); ok {
		acc, other = p, xor.Y
	} else if p, ok := HtmStrip(xor.Y).(*ssa.Phi); ok {
		acc, other = p, xor.X
	}
	good := acc != nil
	if good {
		fromParam, fromMul := false, false
		for _, e := range acc.Edges {
			if pp, ok := e.(*ssa.Parameter); ok && pp == fn.Params[0] {
				fromParam = true
			}
			if e == ssa.Value(muls[0]) {
				fromMul = true
			}
		}
		good = fromParam && fromMul && len(acc.Edges) == 2
	}
	if good {
		// the byte is an element of parameter s
		u, ok := HtmStrip(other).(*ssa.UnOp)
		good = ok && u.Op == token.MUL
		if good {
			ia, ok := u.X.(*ssa.IndexAddr)
			good = ok && ia.X == ssa.Value(fn.Params[1])
		}
	}
	if !c.Check(good, rule, name+": accumulator = (accumulator ^ s[i]) * K, seeded by the parameter", muls[0].Pos(), fmt.Sprintf("K=%d", k),
		"the hash step is `"+Term(muls[0])+"`; expected (φh ^ s[i]) * const with φh fed by $0 and the product") {
		return 0, false
	}
	retOK := true
	n := 0
	HtmEach(fn, func(in ssa.Instruction) {
		if r, ok := in.(*ssa.Return); ok {
			n++
			if len(r.Results) != 1 || HtmStrip(r.Results[0]) != ssa.Value(acc) {
				retOK = false
			}
		}
	})
	c.Check(retOK && n > 0, rule, name+": returns the accumulator", fn.Pos(), "", "a return does not yield the accumulated hash")
	return uint32(k), retOK
}

// c42LookupShape reads seed, second-probe shift and mask from the two table probes of Lookup.
func c42LookupShape(c *Ctx, tabLen int64) (seed uint32, shift uint32, mask uint32, ok bool) {
	name := "html/atom.Lookup"
	rule := "hash-shape"
	fn := c.MustFn(name)
	if fn == nil {
		return
	}
	type probe struct {
		shift int64
		mask  int64
		seed  int64
		in    ssa.Instruction
	}
	var probes []probe
	bad := ""
	HtmEach(fn, func(in ssa.Instruction) {
		ia, isIA := in.(*ssa.IndexAddr)
		if !isIA {
			return
		}
		g, isG := ia.X.(*ssa.Global)
		if !isG || g.Name() != "table" {
			return
		}
		x, m, ok := HtmBin(ia.Index, token.AND)
		if !ok {
			bad = "table index `" + Term(ia.Index) + "` is not masked with a constant"
			return
		}
		sh := int64(0)
		if y, k, ok := HtmBin(x, token.SHR); ok {
			x, sh = y, k
		}
		call, isCall := HtmStrip(x).(*ssa.Call)
		if !isCall || CalleeName(&call.Call) != "html/atom.fnv" || len(BaselineArgs(&call.Call)) != 2 {
			bad = "table index `" + Term(ia.Index) + "` is not derived from fnv(seed, s)"
			return
		}
		sd, isConst := HtmConstInt(BaselineArgs(&call.Call)[0])
		if !isConst || BaselineArgs(&call.Call)[1] != ssa.Value(fn.Params[0]) {
			bad = "fnv is not called with a constant seed and the looked-up bytes: " + Term(call)
			return
		}
		probes = append(probes, probe{sh, m, sd, in})
	})
	if bad != "" || len(probes) == 0 {
		if bad == "" {
			bad = "no probe of table found"
		}
		c.Fail(rule, name+": probes are table[fnv(seed,s)>>k & mask]", fn.Pos(), bad)
		return
	}
	shifts := map[int64]bool{}
	for _, p := range probes {
		shifts[p.shift] = true
		if p.mask != probes[0].mask || p.seed != probes[0].seed {
			bad = "probes disagree on mask or seed"
		}
		if p.mask < 0 || p.mask >= tabLen {
			bad = fmt.Sprintf("mask %#x is not below the table length %d (index out of range)", p.mask, tabLen)
		}
	}
	var second int64 = -1
	for s := range shifts {
		if s != 0 {
			if second >= 0 {
				bad = "more than two distinct probe shifts"
			}
			second = s
		}
	}
	if !shifts[0] || second < 0 {
		bad = "expected one unshifted and one shifted probe"
	}
	if !c.Check(bad == "", rule, name+": probes are table[h&mask] and table[(h>>k)&mask], mask < len(table), one constant seed", fn.Pos(),
		fmt.Sprintf("seed %#x, k=%d, mask %#x, table length %d", probes[0].seed, second, probes[0].mask, tabLen), bad) {
		return
	}
	return uint32(probes[0].seed), uint32(second), uint32(probes[0].mask), true
}

// c42DecodeShape checks that String and string slice atomText[a>>s : a>>s + a&m] with equal s, m.
func c42DecodeShape(c *Ctx, atomText string) (shift, mask uint32, ok bool) {
	rule := "decode-shape"
	type sm struct{ s, m int64 }
	var got []sm
	for _, name := range []string{"(html/atom.Atom).String", "(html/atom.Atom).string"} {
		fn := c.MustFn(name)
		if fn == nil {
			return
		}
		var found *sm
		bad := ""
		HtmEach(fn, func(in ssa.Instruction) {
			sl, isSl := in.(*ssa.Slice)
			if !isSl {
				return
			}
			if s, isStr := HtmConstStr(sl.X); !isStr || s != atomText {
				bad = "slices something other than atomText"
				return
			}
			lo, s, ok1 := HtmBin(sl.Low, token.SHR)
			if !ok1 || HtmStrip(lo) != ssa.Value(fn.Params[0]) {
				bad = "low bound `" + Term(sl.Low) + "` is not a >> const"
				return
			}
			add, isAdd := HtmStrip(sl.High).(*ssa.BinOp)
			if !isAdd || add.Op != token.ADD {
				bad = "high bound `" + Term(sl.High) + "` is not start + length"
				return
			}
			var m int64 = -1
			for _, pair := range [][2]ssa.Value{{add.X, add.Y}, {add.Y, add.X}} {
				st, s2, okS := HtmBin(pair[0], token.SHR)
				ln, m2, okM := HtmBin(pair[1], token.AND)
				if okS && okM && s2 == s && HtmStrip(st) == ssa.Value(fn.Params[0]) && HtmStrip(ln) == ssa.Value(fn.Params[0]) {
					m = m2
				}
			}
			if m < 0 {
				bad = "high bound `" + Term(sl.High) + "` is not (a>>s) + (a&m) with the same s"
				return
			}
			found = &sm{s, m}
		})
		if found == nil && bad == "" {
			bad = "no slice of atomText found"
		}
		if !c.Check(bad == "" && found != nil, rule, name+": returns atomText[a>>s : a>>s + a&m]", fn.Pos(), fmt.Sprintf("%+v", found), bad) {
			return
		}
		got = append(got, *found)
	}
	if !c.Check(got[0] == got[1] && got[0].s > 0 && got[0].s < 32 && got[0].m > 0, rule, "String and string decode identically", token.NoPos,
		fmt.Sprintf("shift %d mask %#x", got[0].s, got[0].m), fmt.Sprintf("String uses %+v, string uses %+v", got[0], got[1])) {
		return
	}
	return uint32(got[0].s), uint32(got[0].m), true
}

func c42Match(c *Ctx) {
	name := "html/atom.match"
	rule := "compare-all"
	fn := c.MustFn(name)
	if fn == nil {
		return
	}
	var retTrue, retFalse []ssa.Instruction
	HtmEach(fn, func(in ssa.Instruction) {
		if r, ok := in.(*ssa.Return); ok && len(r.Results) == 1 {
			if k, ok := HtmStrip(r.Results[0]).(*ssa.Const); ok && k.Value != nil && k.Value.Kind() == constant.Bool {
				if constant.BoolVal(k.Value) {
					retTrue = append(retTrue, in)
				} else {
					retFalse = append(retFalse, in)
				}
			} else {
				retTrue = append(retTrue, in) // a computed result may be true
			}
		}
	})
	if len(retTrue) == 0 {
		c.Undecided(rule, name+": return true", "no return of true")
		return
	}
	// the byte comparison: an If over s[i] vs t[i] with the same index
	var cmp *ssa.If
	var diffSucc *ssa.BasicBlock
	HtmEach(fn, func(in ssa.Instruction) {
		ifi, ok := in.(*ssa.If)
		if !ok {
			return
		}
		b, ok := ifi.Cond.(*ssa.BinOp)
		if !ok || (b.Op != token.NEQ && b.Op != token.EQL) {
			return
		}
		idx := func(v ssa.Value) (base ssa.Value, i ssa.Value) {
			switch x := HtmStrip(v).(type) {
			case *ssa.Lookup: // string index (older go/ssa)
				return x.X, x.Index
			case *ssa.Index: // string or array index
				return x.X, x.Index
			case *ssa.UnOp:
				if ia, ok := x.X.(*ssa.IndexAddr); ok && x.Op == token.MUL {
					return ia.X, ia.Index
				}
			}
			return nil, nil
		}
		bx, ix := idx(b.X)
		by, iy := idx(b.Y)
		if bx == nil || by == nil || ix != iy {
			return
		}
		p0, p1 := ssa.Value(fn.Params[0]), ssa.Value(fn.Params[1])
		if !(bx == p0 && by == p1 || bx == p1 && by == p0) {
			return
		}
		cmp = ifi
		if b.Op == token.NEQ {
			diffSucc = ifi.Block().Succs[0]
		} else {
			diffSucc = ifi.Block().Succs[1]
		}
	})
	if cmp == nil {
		c.Fail(rule, name+": compares s[i] with t[i]", fn.Pos(), "no branch comparing the two arguments at the same index")
		return
	}
	c.Check(!HtmBlockReaches(diffSucc, retTrue), rule, name+": when s[i] != t[i] never returns true", cmp.Pos(), "",
		"a return that may be true is reachable on the branch where the bytes differ")
	// every return true is dominated by the loop-exit edge (index reached len(t))
	okExit := true
	for _, r := range retTrue {
		found := false
		for _, f := range FactsAtInstr(r) {
			if f.Atom.Kind == LE && f.Atom.L.Coef["len($1)"] == 1 {
				found = true
			}
		}
		if !found {
			okExit = false
		}
	}
	c.Check(okExit, rule, name+": returns true only after the index has reached len(t)", fn.Pos(), "", "a return of true is not dominated by the loop-exit test on len(t)")
}

// c42GlobalNotWritten: the package-level variable is never stored to nor has its address taken outside element loads.
func c42GlobalNotWritten(c *Ctx, pkg, name string) {
	rule := "writers"
	construct := pkg + "." + name + " is read-only"
	var bad []string
	n := 0
	for _, fn := range c.P.All {
		HtmEach(fn, func(in ssa.Instruction) {
			for _, op := range in.Operands(nil) {
				g, ok := (*op).(*ssa.Global)
				if !ok || g.Name() != name || g.Pkg == nil || Short(g.Pkg.Pkg.Path()) != pkg {
					continue
				}
				n++
				switch x := in.(type) {
				case *ssa.IndexAddr:
					// element address: must only be loaded (the package initializer stores the literal's constants)
					if refs := x.Referrers(); refs != nil {
						for _, r := range *refs {
							if u, ok := r.(*ssa.UnOp); ok && u.Op == token.MUL {
								continue
							}
							if st, ok := r.(*ssa.Store); ok && fn.Synthetic == "package initializer" && st.Addr == ssa.Value(x) {
								if _, isConst := st.Val.(*ssa.Const); isConst {
									continue
								}
							}
							if _, ok := r.(*ssa.DebugRef); ok {
								continue
							}
							bad = append(bad, FnName(fn)+": "+c.P.Pos(InstrPos(r)))
						}
					}
				case *ssa.UnOp:
					if x.Op != token.MUL {
						bad = append(bad, FnName(fn)+": "+c.P.Pos(InstrPos(in)))
					}
				case *ssa.Store:
					bad = append(bad, FnName(fn)+": "+c.P.Pos(InstrPos(in)))
				default:
					if fn.Synthetic == "package initializer" {
						continue
					}
					bad = append(bad, FnName(fn)+": "+c.P.Pos(InstrPos(in)))
				}
			}
		})
	}
	if n == 0 {
		c.Undecided(rule, construct, "no reference to the variable found")
		return
	}
	if len(bad) > 6 {
		bad = append(bad[:6], "…")
	}
	c.Check(len(bad) == 0, rule, construct, token.NoPos, fmt.Sprintf("%d reference(s), all element loads or literal initialisation", n), "written or address-taken at "+strings.Join(bad, ", "))
}
