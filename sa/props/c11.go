package props

import (
	. "verif/sa/core"
)

func init() {
	Register(&Property{
		ID:    "C11",
		Floor: 50,
		Clauses: "receive-window enforcement as dominating guards: inflow.take and takeInflows refuse n > avail (strict comparison, so n == avail is accepted) before any decrement, decrement every window by the same n and return true only after the decrements; " +
			"inflow.avail is written only by inflow.init/add/take and takeInflows; " +
			"server processData: the only body write is dominated by a successful takeInflows(connection window, addressed stream's window, full frame length), delivers exactly Data(f), " +
			"and the failing edge of takeInflows and of every connection-only take (closed/reset streams, over-long bodies, GOAWAY drain in processFrame) reaches a FLOW_CONTROL stream error and neither the body nor a nil return; " +
			"Transport processData: bufPipe.Write is dominated by a successful takeInflows under cc.mu, the failing edges of takeInflows and of the unknown-stream take return ConnectionError(FLOW_CONTROL) without writing; " +
			"pipe.Write is called statically only from these two functions.",
		NotCovered: "that the advertised window equals inflow.avail plus unsent credit at every moment (C10's ownership and refund rules); races with WINDOW_UPDATE frames in flight (the window is debited and credited under one lock/goroutine by construction); " +
			"negative avail after a SETTINGS shrink (uint32 conversion of a negative avail); whether the server's choice of a stream error rather than a connection error for a connection-window violation is 'appropriate'.",
		Run: c11,
	})
}

func c11(c *Ctx) {
	const (
		take  = "(*http2.inflow).take"
		both  = "http2.takeInflows"
		avail = "http2.inflow.avail"
		write = "(*http2.pipe).Write"
		spd   = "(*http2.serverConn).processData"
		cpd   = "(*http2.clientConnReadLoop).processData"
		pf    = "(*http2.serverConn).processFrame"
		serr  = "http2.streamError"
	)
	// ---- the primitives ----------------------------------------------------
	c.WritersNoEscape(avail, "(*http2.inflow).init", "(*http2.inflow).add", take, both)
	c.Reject(take, Union(Stores(avail), RetConst(0, "true")), "$0 > $r.avail")
	c.Has(take, StoreAs("$r.avail = ($r.avail-$0)"))
	c.Count(take, Stores(avail), 1, 1)
	c.Before(take, Stores(avail), RetConst(0, "true"))
	c.PassThroughIncl(take, c.Edge("$0 > $r.avail"), RetConst(0, "false"))
	c.Guard(take, RetConst(0, "false"), "$0 > $r.avail")

	c.Reject(both, Union(Stores(avail), RetConst(0, "true")), "$2 > $0.avail")
	c.Reject(both, Union(Stores(avail), RetConst(0, "true")), "$0.avail >= $2", "$2 > $1.avail")
	c.Has(both, StoreAs("$0.avail = ($0.avail-$2)"))
	c.Has(both, StoreAs("$1.avail = ($1.avail-$2)"))
	c.Count(both, Stores(avail), 2, 2)
	c.AlwaysBefore(both, StoreAs("$0.avail = ($0.avail-$2)"), RetConst(0, "true"))
	c.AlwaysBefore(both, StoreAs("$1.avail = ($1.avail-$2)"), RetConst(0, "true"))
	c.Guard(both, Stores(avail), "$2 <= $0.avail", "$2 <= $1.avail")
	c.Count(both, RetConst(0, "false"), 1, 1)
	c.Count(both, RetConst(0, "true"), 1, 1)

	// ---- server ----------------------------------------------------------------
	const (
		st       = "state($r,Header($0.FrameHeader).StreamID)#1"
		sTake2   = "takeInflows(&$r.inflow,&" + st + ".inflow,$0.FrameHeader.Length)"
		sTake1   = "take(&$r.inflow,$0.FrameHeader.Length)"
		flowErr  = "3" // ErrCodeFlowControl
		pfTake   = "take(&$r.inflow,$0.(*http2.DataFrame)#0.FrameHeader.Length)"
		cst      = "streamByID($r,$0.FrameHeader.StreamID,true)"
		cTake2   = "takeInflows(&$r.cc.inflow,&" + cst + ".inflow,$0.FrameHeader.Length)"
		cTake1   = "take(&$r.cc.inflow,$0.FrameHeader.Length)"
		connFlow = "3" // ConnectionError(ErrCodeFlowControl)
	)
	if v, ok := c.P.ConstInt("http2.ErrCodeFlowControl"); !ok || v != 3 {
		c.Fail("constant", "http2.ErrCodeFlowControl == 3", 0, "the FLOW_CONTROL_ERROR code is not 3")
	} else {
		c.OK("constant", "http2.ErrCodeFlowControl == 3", "")
	}
	bodyWrite := Calls(write)
	c.OnlyCalledIn("static calls of (*http2.pipe).Write", []string{write}, spd, cpd)
	c.Count(spd, bodyWrite, 1, 1)
	c.Guard(spd, bodyWrite, sTake2)
	c.Has(spd, bodyWrite.ArgIs(0, st+".body").ArgIs(1, "Data($0)"))
	c.Has(spd, Calls(both).ArgIs(0, "&$r.inflow").ArgIs(1, "&"+st+".inflow").ArgIs(2, "$0.FrameHeader.Length"))
	c.Count(spd, Calls(both), 1, 1)
	c.NeverAfter(spd, c.Edge("!"+sTake2), Union(bodyWrite, RetOK()), true)
	c.PassThroughIncl(spd, c.Edge("!"+sTake2), Calls(serr).ArgIs(1, flowErr))
	c.ResultUsed(spd, Calls(both))
	// every path that accepts a frame with payload into the body passes takeInflows; frames not delivered still debit the connection window
	c.Count(spd, Calls(take), 2, 2)
	c.Count(spd, Calls(take).ArgIs(0, "&$r.inflow").ArgIs(1, "$0.FrameHeader.Length"), 2, 2)
	c.NeverAfter(spd, c.Edge("!"+sTake1), Union(bodyWrite, RetOK()), true)
	c.PassThroughIncl(spd, c.Edge("!"+sTake1), Calls(serr).ArgIs(1, flowErr))
	c.ResultUsed(spd, Calls(take))
	// the flow-control error is what the function returns on those edges
	c.Has(spd, Calls("(*http2.serverConn).countError").ArgIs(2, "streamError(Header($0.FrameHeader).StreamID,3)"))
	// GOAWAY drain in processFrame
	c.Has(pf, Calls(take).ArgIs(0, "&$r.inflow").ArgIs(1, "$0.(*http2.DataFrame)#0.FrameHeader.Length"))
	c.NeverAfter(pf, c.Edge("!"+pfTake), Union(RetOK(), Calls(spd)), true)
	c.PassThroughIncl(pf, c.Edge("!"+pfTake), Calls(serr).ArgIs(1, flowErr))
	c.ResultUsed(pf, Calls(take))
	// DATA frames reach processData only from processFrame
	c.Callers(spd, pf)

	// ---- Transport ---------------------------------------------------------------
	c.Count(cpd, bodyWrite, 1, 1)
	c.Guard(cpd, bodyWrite, cTake2)
	c.Has(cpd, bodyWrite.ArgIs(0, "&"+cst+".bufPipe").ArgIs(1, "Data($0)"))
	c.Has(cpd, Calls(both).ArgIs(0, "&$r.cc.inflow").ArgIs(1, "&"+cst+".inflow").ArgIs(2, "$0.FrameHeader.Length"))
	c.Count(cpd, Calls(both), 1, 1)
	c.NeverAfter(cpd, c.Edge("!"+cTake2), Union(bodyWrite, RetOK()), true)
	c.PassThroughIncl(cpd, c.Edge("!"+cTake2), RetTerm(0, connFlow))
	c.ResultUsed(cpd, Calls(both))
	c.Has(cpd, Calls(take).ArgIs(0, "&$r.cc.inflow").ArgIs(1, "$0.FrameHeader.Length"))
	c.NeverAfter(cpd, c.Edge("!"+cTake1), Union(bodyWrite, RetOK()), true)
	c.PassThroughIncl(cpd, c.Edge("!"+cTake1), RetTerm(0, connFlow))
	c.ResultUsed(cpd, Calls(take))
	// window debits race with credits from Read/Close on other goroutines: both under cc.mu
	lock, unlock := []string{"(*sync.Mutex).Lock"}, []string{"(*sync.Mutex).Unlock"}
	c.HeldAt(cpd, Calls(both), "$r.cc.mu", lock, unlock)
	c.HeldAt(cpd, Calls(take), "$r.cc.mu", lock, unlock)
	c.Callers(cpd, "(*http2.clientConnReadLoop).run")
	// who may debit a receive window
	c.Callers(both, spd, cpd)
	c.Callers(take, spd, pf, cpd)
}
