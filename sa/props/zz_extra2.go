package props

// Supplementary rules added after the second round of seeded changes, part 2
// (seeded/<id>-2 that the first set of rules did not report). Each is a
// structural necessary condition of the named property, documented in DESIGN.md section 6.

import (
	"fmt"
	"go/token"
	"go/types"
	"strings"

	"golang.org/x/tools/go/ssa"

	. "verif/sa/core"
)

func init() {
	// C01-2 (continuation loop `i > 128`): the last byte of a prefixed integer must have its continuation bit
	// clear, i.e. the loop emitting 7-bit groups only stops when the remainder is below 128.
	ExtraClause("C01", "Also: in appendVarInt the remainder written as the final byte is < 128 (continuation bit clear) on every path.")
	RegisterExtra("C01", func(c *Ctx) {
		const name = "http2/hpack.appendVarInt"
		fn := c.MustFn(name)
		if fn == nil {
			return
		}
		n := 0
		for _, b := range fn.Blocks {
			for _, in := range b.Instrs {
				cv, ok := in.(*ssa.Convert)
				if !ok || !loopVar(cv.X) {
					continue
				}
				if bt, _ := cv.Type().Underlying().(*types.Basic); bt == nil || bt.Kind() != types.Uint8 {
					continue
				}
				n++
				c.Check(FactsImply(in, LEZero(Linearize(cv.X).AddK(-127))), "final-group-below-128",
					name+": the loop-carried remainder converted to the last byte is <= 127", in.Pos(),
					"", "byte("+Term(cv.X)+") is written without a dominating test establishing "+Term(cv.X)+" < 128: a remainder of exactly 128 is emitted as 0x80, which the decoder reads as a continuation byte")
			}
		}
		if n == 0 {
			c.Undecided("final-group-below-128", name+": final byte", "no conversion of the loop-carried remainder to a byte found")
		}
	})

	// C05-2 (the decoded field is overwritten by the table entry after Sensitive was set): the field handed to
	// callEmit by parseFieldLiteral has Sensitive assigned from it.sensitive() after the last whole-struct assignment.
	ExtraClause("C05", "Also: in Decoder.parseFieldLiteral every path from the start (or from any whole-struct assignment to the field being built) to callEmit passes the assignment Sensitive = it.sensitive().")
	RegisterExtra("C05", func(c *Ctx) {
		const name = "(*http2/hpack.Decoder).parseFieldLiteral"
		whole := StoresWhere("whole HeaderField assignment", func(st *ssa.Store) bool {
			if _, isAlloc := st.Addr.(*ssa.Alloc); !isAlloc {
				return false
			}
			nt, _ := st.Val.Type().(*types.Named)
			return nt != nil && nt.Obj().Name() == "HeaderField"
		})
		sens := Stores("http2/hpack.HeaderField.Sensitive").Where("value is it.sensitive()", func(in ssa.Instruction) bool {
			st, ok := in.(*ssa.Store)
			return ok && IsCallTo("(http2/hpack.indexType).sensitive")(st.Val)
		})
		c.Via(name, Union(Entry(), whole), Calls("(*http2/hpack.Decoder).callEmit"), sens)
	})

	// C11-2 (connection inflow initialised without the protocol's initial 65535): what the Transport accepts on
	// the connection equals what it advertised: the initial window plus the WINDOW_UPDATE sent with the preface.
	ExtraClause("C11", "Also: in Transport.newClientConn the connection inflow is initialised to the increment of the preface WINDOW_UPDATE plus initialWindowSize (enforced window = advertised window).")
	RegisterExtra("C11", func(c *Ctx) {
		const name = "(*http2.Transport).newClientConn"
		fn := c.MustFn(name)
		if fn == nil {
			return
		}
		iws, ok := c.P.ConstInt("http2.initialWindowSize")
		wus := Calls("(*http2.Framer).WriteWindowUpdate").F(c.P, fn)
		inits := Calls("(*http2.inflow).init").F(c.P, fn)
		if !ok || len(wus) != 1 || len(inits) != 1 {
			c.Undecided("advertised-equals-enforced", name+": connection window", fmt.Sprintf("%d WriteWindowUpdate, %d inflow.init site(s)", len(wus), len(inits)))
			return
		}
		adv := Linearize(BaselineArgs(wus[0].(ssa.CallInstruction).Common())[2])
		enf := Linearize(BaselineArgs(inits[0].(ssa.CallInstruction).Common())[1])
		d := enf.Sub(adv)
		c.Check(d.IsConst() && d.K == iws, "advertised-equals-enforced", name+": inflow.init(n) with n = WINDOW_UPDATE increment + initialWindowSize", inits[0].Pos(),
			"difference "+d.String(), "enforced - advertised increment = "+d.String()+fmt.Sprintf(", want %d: DATA inside the advertised connection window is rejected (or DATA beyond it accepted)", iws))
	})

	// C16-2 (the error code of a GOAWAY already in progress is no longer upgraded): a fatal error during a graceful
	// shutdown must replace ErrCodeNo, since only a non-zero goAwayCode makes serve() discard input and arm the shutdown timer.
	ExtraClause("C16", "Also: serverConn.goAway called while a graceful (NO_ERROR) GOAWAY is in progress records the new error code.")
	RegisterExtra("C16", func(c *Ctx) {
		const name = "(*http2.serverConn).goAway"
		c.Has(name, c.UnderFact(c.UnderFact(Stores("http2.serverConn.goAwayCode").StoredIs("$0"), "$r.inGoAway", true), "$r.goAwayCode == 0", true))
	})

	// C19-2 (early return for a frame that only repeats received bytes, before the FIN is recorded).
	ExtraClause("C19", "Also: in Stream.handleData every non-discarding, error-free path of a frame with FIN set passes the assignment of insize.")
	RegisterExtra("C19", func(c *Ctx) {
		const name = "(*quic.Stream).handleData"
		isErr := func(v ssa.Value) bool {
			return types.Identical(v.Type(), types.Universe.Lookup("error").Type())
		}
		c.HcPassThroughUnless(name, Calls("(*quic.Stream).checkStreamBounds"), Stores("quic.Stream.insize"),
			HcUnionEdges(HcEdgeWhere("!$2"), HcEdgeWhere("isSet($r.inclosed)"), HcEdgeWhere("$r.inresetcode != -1"), HcNonNilEdgeOf("an error result", isErr)))
	})

	// C20-2 (send window of a peer-opened stream taken from the wrong transport parameter).
	ExtraClause("C20", "Also: the initial send window of a stream comes from the transport parameter for that stream's initiator: peer-opened bidi streams use initial_max_stream_data_bidi_local, locally opened ones the bidi_remote/uni entry for their type; each field is filled from the matching parameter.")
	RegisterExtra("C20", func(c *Ctx) {
		c.Has("(*quic.Conn).streamForFrame", Stores("quic.Stream.outwin").StoredIs("$r.streams.peerInitialMaxStreamDataBidiLocal"))
		c.Count("(*quic.Conn).streamForFrame", Stores("quic.Stream.outwin"), 1, 1)
		c.Has("(*quic.Conn).newLocalStream", Stores("quic.Stream.outwin").StoredIs("$r.streams.peerInitialMaxStreamDataRemote[$1]"))
		c.Count("(*quic.Conn).newLocalStream", Stores("quic.Stream.outwin"), 1, 1)
		const rtp = "(*quic.Conn).receiveTransportParameters"
		c.Has(rtp, Stores("quic.streamsState.peerInitialMaxStreamDataBidiLocal").StoredIs("$0.initialMaxStreamDataBidiLocal"))
		c.Has(rtp, StoresTo("$r.streams.peerInitialMaxStreamDataRemote[0]").StoredIs("$0.initialMaxStreamDataBidiRemote"))
		c.Has(rtp, StoresTo("$r.streams.peerInitialMaxStreamDataRemote[1]").StoredIs("$0.initialMaxStreamDataUni"))
	})

	// C28-2 (Length-field cap computed from the payload offset instead of the packet-number offset).
	ExtraClause("C28", "Also: startProtectedLongHeaderPacket caps the packet at (packet number offset) + 16383 - AEAD overhead or less, so the 2-byte Length field (packet number + payload + overhead) cannot wrap.")
	RegisterExtra("C28", func(c *Ctx) {
		const name = "(*quic.packetWriter).startProtectedLongHeaderPacket"
		fn := c.MustFn(name)
		if fn == nil {
			return
		}
		over, ok := c.P.ConstInt("quic.aeadOverhead")
		pay := Stores("quic.packetWriter.payOff").F(c.P, fn)
		lims := Stores("quic.packetWriter.pktLim").F(c.P, fn)
		var pn ssa.Value
		for _, in := range Calls("quic.packetNumberLength").F(c.P, fn) {
			pn = in.(*ssa.Call)
		}
		if !ok || pn == nil || len(pay) == 0 || len(lims) == 0 {
			c.Undecided("length-field-cap", name+": pktLim", "anchors not found")
			return
		}
		// payOff = pnumOff + packetNumberLength(...): take the store of payOff whose value contains that call.
		var payLin *Lin
		for _, in := range pay {
			l := Linearize(in.(*ssa.Store).Val)
			if l.Coef[Term(pn)] == 1 {
				payLin = &l
			}
		}
		if payLin == nil {
			c.Undecided("length-field-cap", name+": pktLim", "payOff is not pnumOff + packetNumberLength(...)")
			return
		}
		pnumOff := payLin.Sub(Linearize(pn))
		// some store to pktLim (the conditional clamp, or a min(...)) is bounded by pnumOff + 16383 - overhead
		capped := false
		for _, in := range lims {
			for _, u := range upperBounds(in.(*ssa.Store).Val) {
				d := Linearize(u).Sub(pnumOff)
				if d.IsConst() && d.K <= 16383-over {
					capped = true
				} else if d.IsConst() {
					c.Fail("length-field-cap", name+": pktLim clamp <= pnumOff + 16383 - aeadOverhead", in.Pos(), fmt.Sprintf("pktLim = pnumOff + %d allows Length = %d > 16383: the hard-coded 2-byte varint wraps", d.K, d.K+over))
					return
				}
			}
		}
		c.Check(capped, "length-field-cap", name+": pktLim clamp <= pnumOff + 16383 - aeadOverhead", fn.Pos(), "", "no store caps pktLim relative to the packet number offset")
	})

	// C33-2 (per-field-line variables hoisted out of the loop): what decode reports for a field line is decided
	// by that line's own bytes; a first byte that matches no representation leaves name empty and is rejected.
	ExtraClause("C33", "Also: the itype/name/value passed to the callback in qpackDecoder.decode are not carried over from the previous field line.")
	RegisterExtra("C33", func(c *Ctx) {
		const name = "(*internal/http3.qpackDecoder).decode"
		for i, what := range []string{"itype", "name", "value"} {
			c.ArgNotFrom(name, CallsOfParam(1), i, "a loop-carried "+what, loopCarried)
		}
	})

	// C37-2 (`n += len+1; if n > length` in uint16): the running total of TXT bytes is advanced only after it is
	// known to stay within the announced length, so the 16-bit sum cannot wrap.
	ExtraClause("C37", "Also: in unpackTXTResource the 16-bit running length is increased only under a test establishing that the new total is <= the RDLENGTH (no wrap-around).")
	RegisterExtra("C37", func(c *Ctx) {
		const name = "dns/dnsmessage.unpackTXTResource"
		fn := c.MustFn(name)
		if fn == nil {
			return
		}
		n := 0
		for _, b := range fn.Blocks {
			for _, in := range b.Instrs {
				add, ok := in.(*ssa.BinOp)
				if !ok || add.Op != token.ADD {
					continue
				}
				bt, _ := add.Type().Underlying().(*types.Basic)
				if bt == nil || bt.Kind() != types.Uint16 || !(loopVar(add.X) || loopVar(add.Y)) {
					continue
				}
				n++
				lim := Linearize(add).Sub(Linearize(fn.Params[2]))
				c.Check(FactsImply(in, LEZero(lim)), "no-wrap-accumulator", name+": uint16 running length + record size <= RDLENGTH before the addition", in.Pos(), "",
					"`"+Term(add)+"` is computed in uint16 with no dominating test bounding it by the record length: it wraps for a 65535-byte RDATA and the length check passes")
			}
		}
		if n == 0 {
			c.Undecided("no-wrap-accumulator", name+": running length", "no uint16 addition on the loop-carried length found")
		}
	})

	// C41-2 (whitespace-only text tested with strings.TrimSpace): insertion modes hand whitespace-only text to a
	// sibling mode that consumes it only if it is whitespace by the HTML definition; a Unicode-space test makes
	// the two disagree and the same token is re-dispatched for ever.
	ExtraClause("C41", "Also: package html classifies whitespace only with its own HTML whitespace set; it never calls strings.TrimSpace/Fields/TrimFunc/FieldsFunc or unicode.IsSpace.")
	RegisterExtra("C41", func(c *Ctx) {
		banned := map[string]bool{"strings.TrimSpace": true, "strings.Fields": true, "strings.TrimFunc": true, "strings.FieldsFunc": true,
			"strings.TrimLeftFunc": true, "strings.TrimRightFunc": true, "unicode.IsSpace": true, "bytes.TrimSpace": true, "bytes.Fields": true}
		nf, ncalls := 0, 0
		bad := ""
		var pos token.Pos
		for _, fn := range c.P.All {
			if fn.Pkg == nil || fn.Pkg.Pkg.Path() != "golang.org/x/net/html" {
				continue
			}
			nf++
			for _, b := range fn.Blocks {
				for _, in := range b.Instrs {
					ci, ok := in.(ssa.CallInstruction)
					if !ok {
						continue
					}
					ncalls++
					if banned[CalleeName(ci.Common())] {
						bad = FnName(fn) + " calls " + CalleeName(ci.Common())
						pos = in.Pos()
					}
					for _, a := range BaselineArgs(ci.Common()) {
						if f, isF := a.(*ssa.Function); isF && banned[FnName(f)] {
							bad = FnName(fn) + " passes " + FnName(f)
							pos = in.Pos()
						}
					}
				}
			}
		}
		if nf < 50 || ncalls < 500 {
			c.Undecided("html-whitespace-only", "package html: whitespace classification", fmt.Sprintf("only %d functions / %d calls scanned", nf, ncalls))
			return
		}
		c.Check(bad == "", "html-whitespace-only", "package html: no Unicode-whitespace classification of token data", pos, fmt.Sprintf("%d functions, %d calls", nf, ncalls), bad+": text that is whitespace by the Unicode but not the HTML definition is delegated to a mode that does not consume it")
	})

	// C60-2 (parseName accepts at most 63 where marshalName produces up to 64).
	ExtraClause("C60", "Also: InterfaceInfo.parseName accepts every name-field length that nameLen can produce (up to 64).")
	RegisterExtra("C60", func(c *Ctx) {
		const pname, mname = "(*icmp.InterfaceInfo).parseName", "(*icmp.InterfaceInfo).nameLen"
		pf, mf := c.MustFn(pname), c.MustFn(mname)
		if pf == nil || mf == nil {
			return
		}
		var max int64 = -1
		for _, in := range Returns().F(c.P, mf) {
			if k, ok := in.(*ssa.Return).Results[0].(*ssa.Const); ok && k.Int64() > max {
				max = k.Int64()
			}
		}
		st := StoresTo("$r.Interface.Name").F(c.P, pf)
		if max < 0 || len(st) == 0 {
			c.Undecided("accepts-all-produced", pname+": accepted length", "anchors not found")
			return
		}
		ok, why := true, ""
		for _, f := range FactsAtInstr(st[0]) {
			a := f.Atom
			if a.Kind != LE || len(a.L.Coef) != 1 {
				continue
			}
			for t, k := range a.L.Coef {
				if k == 1 && strings.HasPrefix(t, "$0[0]") && -a.L.K < max {
					ok, why = false, fmt.Sprintf("the name is only accepted under %s, but nameLen produces lengths up to %d", a.String(), max)
				}
			}
		}
		c.Check(ok, "accepts-all-produced", pname+": upper bound on the accepted length >= largest length nameLen produces", st[0].Pos(), fmt.Sprintf("max produced %d", max), why)
	})
}

func init() {
	// F11 (genuine defect, fixed in /repo 3ac2ec8): recordBytesRead set st.stream = nil after an over-read
	// ("panic if we try to read again"), but the same *stream writes the response, closes the read side and
	// resets the stream, all of which dereference st.stream unconditionally: one malformed frame crashed the
	// server. Contradiction rule: a field that many functions dereference without a nil test is never set to nil,
	// and is written only where the stream object is built.
	ExtraClause("C35", "Also: http3.stream.stream (dereferenced without a nil test by the read, write, close and reset paths) is written only by the two constructors and never assigned nil.")
	RegisterExtra("C35", func(c *Ctx) {
		const field = "internal/http3.stream.stream"
		c.Writers(field, "internal/http3.newConnStream", "internal/http3.newStream")
		n, bad := 0, ""
		var pos token.Pos
		derefs := 0
		fv := c.P.Field(field)
		for _, fn := range c.P.All {
			for _, b := range fn.Blocks {
				for _, in := range b.Instrs {
					switch x := in.(type) {
					case *ssa.Store:
						if FieldOfAddr(x.Addr) != fv || fv == nil {
							continue
						}
						n++
						if k, isK := x.Val.(*ssa.Const); isK && k.Value == nil {
							bad = FnName(fn) + " assigns nil"
							pos = in.Pos()
						}
					case *ssa.UnOp:
						if x.Op == token.MUL && fv != nil && FieldOfAddr(x.X) == fv {
							derefs++
						}
					}
				}
			}
		}
		if fv == nil || n == 0 || derefs < 10 {
			c.Undecided("never-nil", field+": never assigned nil", fmt.Sprintf("field found=%v, %d store(s), %d load(s)", fv != nil, n, derefs))
			return
		}
		c.Check(bad == "", "never-nil", field+": never assigned nil", pos, fmt.Sprintf("%d store(s), %d unconditional load(s)", n, derefs), bad+": every later write, CloseRead or Reset on this stream dereferences nil (a peer can crash the server with one malformed frame)")
	})
}

func init() {
	// F12 (genuine defect, fixed in /repo 7f5b4f7): Decoder.Write cleared firstField after every representation,
	// so the second of the two dynamic table size updates the Encoder emits after SetMaxDynamicTableSize was
	// called twice (smallest size, then final size: RFC 7541 section 4.2) was rejected whenever the table was
	// still non-empty. A size update must not end "the beginning of the block".
	ExtraClause("C01", "Also: the Decoder clears its start-of-block flag only for a header field representation, never after a dynamic table size update (the Encoder may emit two updates in a row).")
	RegisterExtra("C01", func(c *Ctx) {
		const w = "(*http2/hpack.Decoder).Write"
		clear := Stores("http2/hpack.Decoder.firstField").StoredIs("false")
		c.Any(
			func() { c.Guard(w, clear, "($r.buf[0]&224) != 32") },
			func() {
				// or the flag is cleared inside the field parsers only
				c.Count(w, clear, 0, 0)
				c.Count("(*http2/hpack.Decoder).parseDynamicTableSizeUpdate", clear, 0, 0)
				c.Has("(*http2/hpack.Decoder).parseFieldIndexed", clear)
				c.Has("(*http2/hpack.Decoder).parseFieldLiteral", clear)
			})
	})
}

func init() {
	// F13 (genuine defect, fixed in /repo 433780d): inBodyIM read p.context.DataAtom for <input>/<select> in fragment
	// mode although ParseFragment accepts a nil context (every other use tests p.context != nil): the parser's recover
	// turned the nil dereference into an error and no tree was returned.
	// F14 (genuine defect, fixed in /repo d98801f): Render refused a tree Parse had produced, because the "void element
	// has child nodes" test ignored the namespace (<svg><source>x).
	ExtraClause("C41", "Also: every dereference of parser.context is reached only under p.context != nil; render1 refuses a void element with children only in the HTML namespace.")
	RegisterExtra("C41", func(c *Ctx) {
		fv := c.P.Field("html.parser.context")
		if fv == nil {
			c.Undecided("nil-guarded", "html.parser.context", "field not found")
			return
		}
		n := 0
		for _, fn := range c.P.All {
			if fn.Pkg == nil || fn.Pkg.Pkg.Path() != "golang.org/x/net/html" {
				continue
			}
			for _, b := range fn.Blocks {
				for _, in := range b.Instrs {
					ld, ok := in.(*ssa.UnOp)
					if !ok || ld.Op != token.MUL || FieldOfAddr(ld.X) != fv || ld.Referrers() == nil {
						continue
					}
					for _, r := range *ld.Referrers() {
						deref := false
						switch x := r.(type) {
						case *ssa.FieldAddr:
							deref = x.X == ssa.Value(ld)
						case *ssa.Field:
							deref = x.X == ssa.Value(ld)
						case *ssa.UnOp:
							deref = x.Op == token.MUL && x.X == ssa.Value(ld)
						}
						if !deref {
							continue
						}
						n++
						a := Atom{Kind: NE, L: Lin{Coef: map[string]int64{Term(ld): 1}}}
						c.Check(GuardedByPaths(fn, [][]Atom{{a}}, []ssa.Instruction{r}), "nil-guarded",
							FnName(fn)+": parser.context is dereferenced only under a test that it is not nil", r.Pos(), "",
							"`"+DescribeInstr(r)+"` is reachable with "+Term(ld)+" == nil (ParseFragment accepts a nil context)")
					}
				}
			}
		}
		if n == 0 {
			c.Undecided("nil-guarded", "html.parser.context", "no dereference found")
		}
		c.WdGuardAny("html.render1", c.UnderFact(Returns(), "html.voidElements[$1.Data]", true), []string{`$1.Namespace == ""`}, []string{"$1.FirstChild == nil"})
	})
}
