package props

import (
	"fmt"

	"golang.org/x/tools/go/ssa"

	. "verif/sa/core"
)

func init() {
	Register(&Property{
		ID:    "C34",
		Floor: 20,
		Clauses: "Content-Length clause only, as dominating tests in internal/http3/body.go. bodyReader.Read: the `remain >= 0 && lim > remain` test sits under the DATA case and on every path from that case to stream.Read, and nothing is read after it holds; " +
			"a clean EOF from readFrameHeader with remain > 0 never reaches the generic error return (which would surface io.EOF); a HEADERS (trailer) frame with remain > 0 never reaches the trailer decoder or discardFrame; " +
			"remain is decremented under `remain > 0` by the count stream.Read returned, on every path from that read to a return; remain is written only by Read, Close and the two constructors. " +
			"bodyWriter.write: when remain >= 0 and the DATA frame length exceeds remain neither the frame header nor any byte is written, the frame length written is the value compared and it is a sum of len() of the chunks, " +
			"remain is decremented under `remain >= 0` by the count stream.Write returned; bodyWriter.Close refuses with remain > 0 before writing trailers or closing the stream; remain has three writers.",
		NotCovered: "everything else in C34: faithful delivery of method/path/headers/body/trailers end to end, behaviour under datagram loss and reordering, responseWriter buffering, flow of the Content-Length header value into remain " +
			"(server side uses strconv.Atoi and treats a negative or unparsable value as unknown length), bodies declared with length 0 (replaced by http.NoBody), arithmetic of the decrements (write subtracts the cumulative count once per chunk).",
		Run: c34,
	})
}

func c34(c *Ctx) {
	const ST = "(*" + h3 + "stream)."
	rd := "(*" + h3 + "bodyReader).Read"
	fData, ok1 := c.P.ConstInt(h3 + "frameTypeData")
	fHdr, ok2 := c.P.ConstInt(h3 + "frameTypeHeaders")
	if !ok1 || !ok2 {
		c.Undecided("anchor", "frameTypeData/frameTypeHeaders", "constants not found")
		return
	}
	isData := fmt.Sprintf("readFrameHeader($r.st)#0 == %d", fData)
	isHdr := fmt.Sprintf("readFrameHeader($r.st)#0 == %d", fHdr)
	stRead := Calls(ST + "Read")

	// DATA longer than the declared remainder
	long := c.Edge("$r.st.lim > $r.remain")
	c.Guard(rd, long, isData, "$r.remain >= 0")
	c.NeverAfter(rd, long, Union(stRead, Calls(ST+"readFrameHeader")), true)
	c.PassBetween(rd, c.Edge(isData), stRead, Union(c.Edge("$r.st.lim > $r.remain"), c.Edge("$r.st.lim <= $r.remain"), c.Edge("$r.remain < 0")), true)
	c.Count(rd, long, 1, 1)
	// EOF while bytes are still owed
	short := c.EdgeWhere("$r.remain > 0", "readFrameHeader($r.st)#1 == io.EOF")
	c.NeverAfter(rd, short, Union(c.Edge("readFrameHeader($r.st)#1 != nil"), stRead), true)
	c.Before(rd, c.TestOf("readFrameHeader($r.st)#1 == io.EOF"), c.TestOf("readFrameHeader($r.st)#1 != nil"))
	// trailers while bytes are still owed
	early := c.EdgeWhere("$r.remain > 0", isHdr)
	c.NeverAfter(rd, early, Union(Calls("(*"+h3+"qpackDecoder).decode"), Calls(ST+"discardFrame"), stRead), true)
	c.Reject(rd, Calls("(*"+h3+"qpackDecoder).decode"), isHdr, "$r.remain > 0")
	// accounting
	remR := h3 + "bodyReader.remain"
	c.Guard(rd, Stores(remR), "$r.remain > 0")
	c.StoredFrom(rd, Stores(remR), "the count returned by stream.Read", IsCallTo(ST+"Read"))
	c.StoredFrom(rd, Stores(remR), "the previous remain", func(v ssa.Value) bool { return Term(v) == "$r.remain" })
	c.PassThrough(rd, stRead, Union(Stores(remR), c.Edge("$r.remain <= 0")))
	c.Writers(remR, rd, "(*"+h3+"bodyReader).Close", "(*"+h3+"clientConn).RoundTrip", "(*"+h3+"serverConn).handleRequestStream")

	// writer
	wr := "(*" + h3 + "bodyWriter).write"
	remW := h3 + "bodyWriter.remain"
	out := Union(Calls(ST+"writeVarint"), Calls(ST+"Write"))
	if fn := c.MustFn(wr); fn != nil {
		wv := Calls(ST+"writeVarint").F(c.P, fn)
		if len(wv) != 2 {
			c.Undecided("anchor", wr+": frame header", fmt.Sprintf("%d writeVarint calls, expected type and length", len(wv)))
		} else {
			typ := Term(BaselineArgs(wv[0].(ssa.CallInstruction).Common())[1])
			size := Term(BaselineArgs(wv[1].(ssa.CallInstruction).Common())[1])
			c.Check(typ == fmt.Sprint(fData), "frame-type", wr+": body bytes are framed as DATA", wv[0].Pos(), "", "frame type written is "+typ)
			c.Reject(wr, out, "$r.remain >= 0", size+" > $r.remain")
			c.ArgFrom(wr, Calls(ST+"writeVarint").ArgIs(1, size), 1, "len() of the chunks", IsCallTo("builtin:len"))
		}
	}
	c.Guard(wr, Stores(remW), "$r.remain >= 0")
	c.StoredFrom(wr, Stores(remW), "the count returned by stream.Write", IsCallTo(ST+"Write"))
	c.Before(wr, Calls(ST+"Write"), Stores(remW))
	cl := "(*" + h3 + "bodyWriter).Close"
	c.Reject(cl, Union(RetOK(), Calls(ST+"writeVarint"), Calls("(*quic.Stream).CloseWrite")), "$r.remain > 0")
	c.Writers(remW, wr, "(*"+h3+"clientConn).writeBodyAndTrailer", "(*"+h3+"serverConn).handleRequestStream")
}
