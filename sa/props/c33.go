package props

import (
	"fmt"
	"go/token"
	"go/types"
	"math/bits"
	"strconv"
	"strings"

	"golang.org/x/tools/go/ssa"

	. "verif/sa/core"
)

func init() {
	Register(&Property{
		ID:    "C33",
		Floor: 92,
		Clauses: "QPACK encoder/decoder agreement as structure: for the three field-line representations the encoder's tag byte has exactly the number of leading zeros the decoder dispatches on, " +
			"both sides use the same prefix lengths in the same order (8/7 section prefix; 6; 4 then 7; 3 then 7), the same T-bit and N-bit masks, masks/tag/H bit/prefix bits are pairwise disjoint, " +
			"tableType/indexType constants are zero resp. contain every mask used, the decoder hands the dispatched byte to the representation decoder and returns the N bit it read, the encoder forwards itype/name/value and only emits static-table references; " +
			"encoder lower-cases through LowerHeader and emits nothing for non-ASCII names; " +
			"rejection inventory as dominating tests before the field callback / nil return: Required Insert Count != 0, read errors, LeadingZeros8 cases 3 and 4 set an error, T=0 (dynamic) references, static index < 0 or >= len(table), " +
			"empty name, pseudo-header after a regular field, string length > st.lim, Huffman and prefixed-integer errors, varint overflow; every error returned by a representation decoder is tested before the callback; " +
			"static table: staticTableEntry indexes the same array initStaticTableMaps builds both encoder maps from, the maps are written nowhere else; " +
			"no make([]T,n) reachable from (*qpackDecoder).decode sized by a wire-read integer or by stream.lim; reviewed panic-site inventory from decode.",
		NotCovered: "byte-for-byte equality of decoded and encoded strings (Huffman coder and prefixed-integer arithmetic are not evaluated); equality of the static table with RFC 9204 Appendix A; " +
			"memory use of io.ReadAll growing with the bytes actually received; nil dereference after stream.recordBytesRead poisons st.stream; the QUIC stream layer below stream.Read/ReadByte (its sites are only counted).",
		Run: c33,
	})
}

const h3 = "internal/http3."

// orParts splits an OR tree into its constant part and the (callee, const mask) calls.
func orParts(v ssa.Value, konst *int64, calls map[string]int64, other *[]string) {
	switch x := v.(type) {
	case *ssa.BinOp:
		if x.Op == token.OR {
			orParts(x.X, konst, calls, other)
			orParts(x.Y, konst, calls, other)
			return
		}
		if x.Op == token.AND {
			// mask & byte(t): the body of tableType.tbit / indexType.nbit written out
			a, b := x.X, x.Y
			if _, isK := a.(*ssa.Const); isK {
				a, b = b, a
			}
			if k, isK := b.(*ssa.Const); isK {
				switch cv := a.(type) {
				case *ssa.Convert:
					a = cv.X
				case *ssa.ChangeType:
					a = cv.X
				}
				if nt, _ := a.Type().(*types.Named); nt != nil {
					if n, ok := IntOf64(k); ok {
						switch nt.Obj().Name() {
						case "tableType":
							calls["tbit"] = n
							return
						case "indexType":
							calls["nbit"] = n
							return
						}
					}
				}
			}
		}
	case *ssa.Const:
		if n, ok := IntOf64(x); ok {
			*konst |= n
			return
		}
	case *ssa.Convert:
		orParts(x.X, konst, calls, other)
		return
	case *ssa.Call:
		if f := x.Call.StaticCallee(); f != nil && len(BaselineArgs(&x.Call)) == 2 {
			if k, ok := BaselineArgs(&x.Call)[1].(*ssa.Const); ok {
				if n, ok := IntOf64(k); ok {
					calls[f.Name()] = n
					return
				}
			}
		}
	}
	*other = append(*other, Term(v))
}

// IntOf64 reads an integer constant.
func IntOf64(k *ssa.Const) (int64, bool) {
	if k.Value == nil {
		if b, ok := k.Type().Underlying().(*types.Basic); ok && b.Info()&types.IsInteger != 0 {
			return 0, true
		}
		return 0, false
	}
	s := k.Value.ExactString()
	n, err := strconv.ParseInt(s, 10, 64)
	return n, err == nil
}

// andMaskOfParam: for a call f(b & M) returns M when b is parameter pname.
func andMaskOfParam(v ssa.Value, pname string) (int64, bool) {
	bo, ok := v.(*ssa.BinOp)
	if !ok || bo.Op != token.AND {
		return 0, false
	}
	a, b := bo.X, bo.Y
	if _, ok := a.(*ssa.Const); ok {
		a, b = b, a
	}
	k, ok := b.(*ssa.Const)
	if !ok || Term(a) != pname {
		return 0, false
	}
	return IntOf64(k)
}

func c33(c *Ctx) {
	const ST = "(*" + h3 + "stream)."
	dec := "(*" + h3 + "qpackDecoder).decode"
	encCB := "(*" + h3 + "qpackEncoder).encode$1"
	cb := CallsOfParam(1)

	wv := map[string]SeqTok{
		h3 + "appendPrefixedInt":    {Tok: "int", ConstArg: 2, FieldArg: -1},
		h3 + "appendPrefixedString": {Tok: "str", ConstArg: 2, FieldArg: -1},
	}
	rv := map[string]SeqTok{
		ST + "readPrefixedInt":            {Tok: "int", ConstArg: 1, FieldArg: -1},
		ST + "readPrefixedIntWithByte":    {Tok: "int", ConstArg: 2, FieldArg: -1},
		ST + "readPrefixedString":         {Tok: "str", ConstArg: 1, FieldArg: -1},
		ST + "readPrefixedStringWithByte": {Tok: "str", ConstArg: 2, FieldArg: -1},
	}

	// ---- table/index type constants and converters
	staticT, ok1 := c.P.ConstInt(h3 + "staticTable")
	dynT, ok2 := c.P.ConstInt(h3 + "dynamicTable")
	neverI, ok3 := c.P.ConstInt(h3 + "neverIndex")
	mayI, ok4 := c.P.ConstInt(h3 + "mayIndex")
	if !(ok1 && ok2 && ok3 && ok4) {
		c.Undecided("anchor", "tableType/indexType constants", "staticTable/dynamicTable/neverIndex/mayIndex not found")
		return
	}
	c.Check(dynT == 0 && mayI == 0, "bit-constants", "dynamicTable and mayIndex are 0 (tbit/nbit produce a clear bit)", token.NoPos,
		"", fmt.Sprintf("dynamicTable=%#x mayIndex=%#x", dynT, mayI))
	for _, p := range []struct {
		fn   string
		zero int64
		one  int64
	}{{h3 + "tableTypeForTbit", dynT, staticT}, {h3 + "indexTypeForNBit", mayI, neverI}} {
		c.Reject(p.fn, RetConst(0, fmt.Sprint(p.one)), "$0 == 0")
		c.Reject(p.fn, RetConst(0, fmt.Sprint(p.zero)), "$0 != 0")
	}
	for _, m := range []string{"(" + h3 + "tableType).tbit", "(" + h3 + "indexType).nbit"} {
		c.Has(m, RetTerm(0, "($0&$r)"))
	}

	// ---- per representation: encoder tag / masks / prefix vs decoder
	type rep struct {
		enc, dec string
		usesT    bool
		usesN    bool
	}
	reps := []rep{
		{h3 + "appendIndexedFieldLine", ST + "decodeIndexedFieldLine", true, false},
		{h3 + "appendLiteralFieldLineWithNameReference", ST + "decodeLiteralFieldLineWithNameReference", true, true},
		{h3 + "appendLiteralFieldLineWithLiteralName", ST + "decodeLiteralFieldLineWithLiteralName", false, true},
	}
	seenLZ := map[int]string{}
	for _, r := range reps {
		ef, df := c.MustFn(r.enc), c.MustFn(r.dec)
		if ef == nil || df == nil {
			continue
		}
		c.TokSeqAgree(r.enc, r.dec, wv, rv)
		// encoder: first primitive call carries the tag
		var first ssa.CallInstruction
		ForEachInstr(ef, func(in ssa.Instruction) {
			if ci, ok := in.(ssa.CallInstruction); ok && first == nil {
				n := CalleeName(ci.Common())
				if n == h3+"appendPrefixedInt" || n == h3+"appendPrefixedString" {
					first = ci
				}
			}
		})
		if first == nil {
			c.Undecided("wire-tag", r.enc, "no appendPrefixedInt/appendPrefixedString call")
			continue
		}
		isStr := CalleeName(first.Common()) == h3+"appendPrefixedString"
		var tag int64
		masks := map[string]int64{}
		var other []string
		orParts(BaselineArgs(first.Common())[1], &tag, masks, &other)
		pk, okp := BaselineArgs(first.Common())[2].(*ssa.Const)
		plen, _ := int64(0), false
		if okp {
			plen, okp = IntOf64(pk)
		}
		if !okp || len(other) > 0 || tag <= 0 || tag > 255 {
			c.Undecided("wire-tag", r.enc, fmt.Sprintf("first byte is not constant|tbit(mask)|nbit(mask) with a constant prefix length (other parts %v, tag %d)", other, tag))
			continue
		}
		lz := bits.LeadingZeros8(uint8(tag))
		c.Check(bits.OnesCount8(uint8(tag)) == 1, "wire-tag", r.enc+": tag byte is a single marker bit", first.Pos(), fmt.Sprintf("tag %#x", tag), fmt.Sprintf("tag %#x has several bits set", tag))
		if prev, dup := seenLZ[lz]; dup {
			c.Fail("wire-tag", r.enc+": tag is unique", first.Pos(), fmt.Sprintf("same leading-zero count %d as %s", lz, prev))
		} else {
			seenLZ[lz] = r.enc
			c.OK("wire-tag", r.enc+": tag is unique", fmt.Sprintf("leading zeros %d", lz))
		}
		// decoder dispatch on exactly that leading-zero count, handing over the dispatched byte
		c.Guard(dec, Calls(r.dec), fmt.Sprintf("LeadingZeros8(ReadByte($0)#0) == %d", lz))
		c.Count(dec, Calls(r.dec).ArgIs(1, "ReadByte($0)#0"), 1, 1)
		// bit layout: tag, T, N, H, prefix pairwise disjoint and below the tag bit
		prefix := int64(1)<<uint(plen) - 1
		parts := []struct {
			name string
			v    int64
		}{{"tag", tag}, {"prefix", prefix}}
		if isStr {
			parts = append(parts, struct {
				name string
				v    int64
			}{"H", int64(1) << uint(plen)})
		}
		tm, hasT := masks["tbit"]
		nm, hasN := masks["nbit"]
		if hasT {
			parts = append(parts, struct {
				name string
				v    int64
			}{"T", tm})
		}
		if hasN {
			parts = append(parts, struct {
				name string
				v    int64
			}{"N", nm})
		}
		c.Check(hasT == r.usesT && hasN == r.usesN, "wire-tag", r.enc+": carries the T/N bits of its representation", first.Pos(), "",
			fmt.Sprintf("T present=%v (want %v), N present=%v (want %v)", hasT, r.usesT, hasN, r.usesN))
		overlap, union := "", int64(0)
		for i := range parts {
			for j := i + 1; j < len(parts); j++ {
				if parts[i].v&parts[j].v != 0 {
					overlap += fmt.Sprintf(" %s(%#x)&%s(%#x)", parts[i].name, parts[i].v, parts[j].name, parts[j].v)
				}
			}
			union |= parts[i].v
		}
		c.Check(overlap == "" && union < 2*tag && union <= 255, "wire-layout", r.enc+": tag, T, N, H and prefix bits are disjoint and the tag is the top bit", first.Pos(),
			fmt.Sprintf("tag %#x prefix %#x union %#x", tag, prefix, union), "overlap:"+overlap+fmt.Sprintf(" union %#x", union))
		if hasT {
			c.Check(staticT&tm == tm, "bit-constants", r.enc+": staticTable contains the T mask", first.Pos(), "", fmt.Sprintf("staticTable %#x, mask %#x", staticT, tm))
		}
		if hasN {
			c.Check(neverI&nm == nm, "bit-constants", r.enc+": neverIndex contains the N mask", first.Pos(), "", fmt.Sprintf("neverIndex %#x, mask %#x", neverI, nm))
		}
		// decoder masks
		var dT, dN int64 = -1, -1
		ForEachInstr(df, func(in ssa.Instruction) {
			call, ok := in.(*ssa.Call)
			if !ok || len(BaselineArgs(&call.Call)) != 1 {
				return
			}
			m, ok := andMaskOfParam(BaselineArgs(&call.Call)[0], "$0")
			if !ok {
				return
			}
			switch CalleeName(&call.Call) {
			case h3 + "tableTypeForTbit":
				dT = m
			case h3 + "indexTypeForNBit":
				dN = m
			}
		})
		if r.usesT {
			c.Check(dT == tm, "wire-masks", r.enc+" ~ "+r.dec+": T-bit mask", df.Pos(), fmt.Sprintf("%#x", tm), fmt.Sprintf("encoder %#x, decoder %#x", tm, dT))
			// dynamic references are refused: success only under T == static
			c.Guard(r.dec, RetOK(), fmt.Sprintf("tableTypeForTbit(($0&%d)) == %d", dT, staticT))
			c.ErrChecked(r.dec, Calls(h3+"staticTableEntry"), 1, RetOK())
		}
		if r.usesN {
			c.Check(dN == nm, "wire-masks", r.enc+" ~ "+r.dec+": N-bit mask", df.Pos(), fmt.Sprintf("%#x", nm), fmt.Sprintf("encoder %#x, decoder %#x", nm, dN))
			nOK := len(RetOK().F(c.P, df))
			c.Count(r.dec, RetTerm(0, fmt.Sprintf("indexTypeForNBit(($0&%d))", dN)), nOK, nOK)
		} else {
			nOK := len(RetOK().F(c.P, df))
			c.Count(r.dec, RetConst(0, fmt.Sprint(mayI)), nOK+2, -1)
		}
		// every error of the primitives is tested before a successful return
		for callee, idx := range map[string]int{ST + "readPrefixedIntWithByte": 1, ST + "readPrefixedString": 2, ST + "readPrefixedStringWithByte": 1} {
			if len(Calls(callee).F(c.P, df)) > 0 {
				c.ErrChecked(r.dec, Calls(callee), idx, RetOK())
			}
		}
	}

	// ---- section prefix and dispatch remainder
	c.TokSeqAgree("(*"+h3+"qpackEncoder).encode", dec, wv, rv)
	c.Reject(dec, Union(cb, RetOK()), "readPrefixedInt($0,8)#1 != 0")
	c.Reject(dec, Union(cb, RetOK()), "readPrefixedInt($0,8)#2 != nil")
	c.Reject(dec, Union(cb, RetOK()), "readPrefixedInt($0,7)#2 != nil")
	c.Reject(dec, cb, "ReadByte($0)#1 != nil")
	c.Guard(dec, cb, "$0.lim > 0")
	// cases 3 and 4 (post-base forms need the dynamic table) produce an error that the common test sees
	for _, k := range []int{3, 4} {
		if !seenLZKnown(seenLZ, k) {
			postBaseCaseSetsError(c, dec, k)
		}
	}
	if fn := c.MustFn(dec); fn != nil {
		// errors of the representation decoders
		for _, r := range reps {
			c.ErrChecked(dec, Calls(r.dec), 3, cb)
		}
		// name checks use the very value handed to the callback
		if sites := cb.F(c.P, fn); len(sites) == 1 {
			args := BaselineArgs(sites[0].(ssa.CallInstruction).Common())
			name := Term(args[1])
			c.Reject(dec, cb, "len("+name+") == 0")
			// pseudo-header after regular field: a boolean merged over the loop is tested under name[0]==':'
			flag := ""
			ForEachInstr(fn, func(in ssa.Instruction) {
				ifi, ok := in.(*ssa.If)
				if !ok || flag != "" {
					return
				}
				if _, isPhi := ifi.Cond.(*ssa.Phi); isPhi && c.P.HoldsAt(in, name+"[0] == 58", true) {
					flag = Term(ifi.Cond)
				}
			})
			if flag == "" {
				c.Fail("reject-before", dec+": pseudo-header after regular field", fn.Pos(), "no boolean test under name[0]==':'")
			} else {
				c.Reject(dec, cb, name+"[0] == 58", flag)
				// the flag becomes true exactly on the non-pseudo branch
				okSet := false
				ForEachInstr(fn, func(in ssa.Instruction) {
					ph, ok := in.(*ssa.Phi)
					if !ok || ph.Type().String() != "bool" {
						return
					}
					for i, e := range ph.Edges {
						if k, ok := e.(*ssa.Const); ok && k.Value != nil && k.Value.String() == "true" {
							pred := ph.Block().Preds[i]
							if len(pred.Instrs) > 0 && c.P.HoldsAt(pred.Instrs[len(pred.Instrs)-1], name+"[0] != 58", true) {
								okSet = true
							}
						}
					}
				})
				c.Check(okSet, "flag-set", dec+": the regular-field flag is set on the branch where name[0] != ':'", fn.Pos(), "", "no phi edge `true` from a block under name[0] != ':'")
			}
			c.Check(strings.Contains(Term(args[0]), "decodeLiteralFieldLineWithNameReference($0,ReadByte($0)#0)#0") &&
				strings.Contains(Term(args[2]), "decodeIndexedFieldLine($0,ReadByte($0)#0)#2"),
				"value-flow", dec+": callback receives the results of the representation decoders", sites[0].Pos(), "", "callback arguments are "+Term(args[0])+" / "+Term(args[2]))
		} else {
			c.Undecided("anchor", dec+": callback call", fmt.Sprintf("%d call sites of the callback parameter", len(sites)))
		}
	}

	// ---- static table
	se := h3 + "staticTableEntry"
	tbl := h3 + "staticTableEntries"
	n := int64(-1)
	if obj := c.P.Object(tbl); obj != nil {
		if at, ok := obj.Type().Underlying().(*types.Array); ok {
			n = at.Len()
		}
	}
	if n <= 0 {
		c.Undecided("anchor", tbl, "static table array not found")
	} else {
		c.Reject(se, RetOK(), "$0 < 0")
		c.Reject(se, RetOK(), fmt.Sprintf("$0 >= %d", n))
		c.Guard(se, Indexing(tbl), "$0 >= 0", fmt.Sprintf("$0 < %d", n))
	}
	c.Has(se, RetTerm(0, tbl+"[$0]"))
	im := h3 + "initStaticTableMaps"
	for _, g := range []string{"staticTableByName", "staticTableByNameValue"} {
		globalWrittenOnlyIn(c, "internal/http3", g, im)
	}
	if fn := c.MustFn(im); fn != nil {
		nUpd, fromTbl := 0, 0
		ForEachInstr(fn, func(in ssa.Instruction) {
			if mu, ok := in.(*ssa.MapUpdate); ok {
				nUpd++
				if DependsOn(mu.Key, func(v ssa.Value) bool { g, ok := v.(*ssa.Global); return ok && g.Name() == "staticTableEntries" }) {
					fromTbl++
				}
			}
		})
		c.Check(nUpd >= 2 && nUpd == fromTbl, "single-source", im+": every map key is read from staticTableEntries", fn.Pos(), fmt.Sprintf("%d map updates", nUpd), fmt.Sprintf("%d map updates, %d keyed from the table", nUpd, fromTbl))
	}
	c.Callers(im, "(*"+h3+"qpackEncoder).init")

	// ---- encoder callback
	emit := Calls(h3+"appendIndexedFieldLine", h3+"appendLiteralFieldLineWithNameReference", h3+"appendLiteralFieldLineWithLiteralName")
	c.Reject(encCB, emit, "!LowerHeader($1)#1")
	c.Guard(encCB, Calls(h3+"appendIndexedFieldLine"), "$0 == "+fmt.Sprint(mayI))
	c.CallArgs(h3+"appendIndexedFieldLine", 1, fmt.Sprint(staticT))
	c.CallArgs(h3+"appendLiteralFieldLineWithNameReference", 1, fmt.Sprint(staticT))
	c.CallArgs(h3+"appendLiteralFieldLineWithNameReference", 2, "$0")
	c.CallArgs(h3+"appendLiteralFieldLineWithNameReference", 4, "$2")
	c.CallArgs(h3+"appendLiteralFieldLineWithLiteralName", 1, "$0")
	c.CallArgs(h3+"appendLiteralFieldLineWithLiteralName", 2, "LowerHeader($1)#0")
	c.CallArgs(h3+"appendLiteralFieldLineWithLiteralName", 3, "$2")
	c.ArgFrom(encCB, Calls(h3+"appendIndexedFieldLine"), 2, "staticTableByNameValue lookup", func(v ssa.Value) bool {
		l, ok := v.(*ssa.Lookup)
		return ok && Term(l.X) == h3+"staticTableByNameValue"
	})
	c.ArgFrom(encCB, Calls(h3+"appendLiteralFieldLineWithNameReference"), 3, "staticTableByName[lower-cased name]", func(v ssa.Value) bool {
		l, ok := v.(*ssa.Lookup)
		return ok && Term(l.X) == h3+"staticTableByName" && Term(l.Index) == "LowerHeader($1)#0"
	})

	// ---- strings and integers
	rs := ST + "readPrefixedStringWithByte"
	c.Reject(rs, RetOK(), "$r.lim >= 0", "readPrefixedIntWithByte($r,$0,$1)#0 > $r.lim")
	c.ErrChecked(rs, Calls(ST+"readPrefixedIntWithByte"), 1, RetOK())
	c.ErrChecked(rs, Calls("http2/hpack.HuffmanDecodeToString"), 1, RetOK())
	c.Guard(rs, Calls("http2/hpack.HuffmanDecodeToString"), "($0&(1<<$1)) != 0")
	if fn := c.MustFn(rs); fn != nil {
		// every std reader whose error result exists is checked too (ReadAll / ReadFull …)
		ForEachInstr(fn, func(in ssa.Instruction) {
			call, ok := in.(*ssa.Call)
			if !ok {
				return
			}
			n := CalleeName(&call.Call)
			if strings.HasPrefix(n, "io.Read") {
				res := call.Call.Signature().Results()
				c.ErrChecked(rs, Calls(n), res.Len()-1, RetOK())
			}
		})
	}
	ri := ST + "readPrefixedIntWithByte"
	c.ErrChecked(ri, Calls("encoding/binary.ReadUvarint"), 1, RetOK())
	c.NeverAfter(ri, c.Edge("ReadUvarint($r)#0 > 9223372036854775807-(1<<$1)+1"), RetOK(), true)
	c.Reject(ST+"readPrefixedInt", Calls(ri), "ReadByte($r)#1 != nil")
	c.Reject(ST+"readPrefixedString", Calls(rs), "ReadByte($r)#1 != nil")
	c.CallArgs(ri, 2, "6", "4", "$1", "$0")
	c.CallArgs(rs, 2, "3", "$0")

	// ---- allocation and panics
	quicStop := []string{"(*quic.Stream).Read", "(*quic.Stream).ReadByte"}
	c.BoundedAlloc("qpack decoder", []string{dec}, quicStop, AllocSources{
		Calls:  []string{ST + "readPrefixedIntWithByte", ST + "readPrefixedInt", ST + "readVarint", "encoding/binary.ReadUvarint"},
		Fields: []string{h3 + "stream.lim"},
	}, nil)
	c.PanicInventory([]string{dec}, quicStop, map[string]Inv{
		"(*quic.Stream).Read":               {Sites: "idx=3 panic=1", Why: "QUIC receive path below stream.Read: boundary of this property (callees not followed); its own sites belong to the QUIC stream properties"},
		"(*quic.Stream).ReadByte":           {Sites: "idx=1", Why: "QUIC receive path below stream.ReadByte: boundary of this property"},
		"http2/hpack.HuffmanDecodeToString": {Sites: "assert=1", Why: "bufPool only ever holds *bytes.Buffer (sync.Pool New)"},
		"http2/hpack.buildRootHuffmanNode":  {Sites: "idx=1 panic=1", Why: "table construction at first use over the constant code table (checked by the hpack Huffman property)"},
	})
}

// postBaseCaseSetsError: the error variable tested after the dispatch switch
// receives, from the block entered when LeadingZeros8(first byte) == k, a
// freshly created (hence non-nil) error.
func postBaseCaseSetsError(c *Ctx, dec string, k int) {
	rule := "case-sets-error"
	construct := fmt.Sprintf("%s: dispatch case %d (post-base form) yields a non-nil error", dec, k)
	fn := c.MustFn(dec)
	if fn == nil {
		return
	}
	spec := fmt.Sprintf("LeadingZeros8(ReadByte($0)#0) == %d", k)
	found, good := false, false
	want, perr := c.P.ParseAtom(spec)
	if perr != nil {
		c.Undecided(rule, construct, perr.Error())
		return
	}
	isErr := func(t types.Type) bool { return types.Identical(t, types.Universe.Lookup("error").Type()) }
	// follow the edge on which the dispatch value equals k (a case may list several values, so the
	// case body can have several predecessors) through straight-line blocks to the merge of the error variable
	ForEachInstr(fn, func(in ssa.Instruction) {
		ifi, ok := in.(*ssa.If)
		if !ok {
			return
		}
		a := CondAtom(ifi.Cond)
		idx := -1
		if SameAtom(a, want) {
			idx = 0
		} else if SameAtom(a.Negate(), want) {
			idx = 1
		}
		if idx < 0 {
			return
		}
		prev, cur := ifi.Block(), ifi.Block().Succs[idx]
		for steps := 0; steps < 8; steps++ {
			var ph *ssa.Phi
			for _, x := range cur.Instrs {
				if p, isPhi := x.(*ssa.Phi); isPhi && isErr(p.Type()) {
					ph = p
				}
			}
			if ph != nil {
				for i, pred := range cur.Preds {
					if pred != prev {
						continue
					}
					found = true
					e := ph.Edges[i]
					if call, ok := e.(*ssa.Call); ok {
						n := CalleeName(&call.Call)
						good = n == "errors.New" || n == "fmt.Errorf"
					} else if mi, ok := e.(*ssa.MakeInterface); ok {
						_, isConst := mi.X.(*ssa.Const)
						good = isConst
					}
				}
				return
			}
			if len(cur.Succs) != 1 {
				return
			}
			prev, cur = cur, cur.Succs[0]
		}
	})
	switch {
	case !found:
		c.Fail(rule, construct, fn.Pos(), "no error value flows out of a block entered under "+spec)
	case !good:
		c.Fail(rule, construct, fn.Pos(), "the error value assigned under "+spec+" is not a freshly created error")
	default:
		c.OK(rule, construct, "")
	}
}

func seenLZKnown(m map[int]string, k int) bool { _, ok := m[k]; return ok }

// globalWrittenOnlyIn: stores to / map updates of the package-level variable happen only in fn.
func globalWrittenOnlyIn(c *Ctx, pkg, name, allowed string) {
	rule := "writers"
	construct := pkg + "." + name + " written only in " + allowed
	n, bad := 0, ""
	var pos token.Pos
	for _, fn := range c.P.All {
		ForEachInstr(fn, func(in ssa.Instruction) {
			var g ssa.Value
			switch x := in.(type) {
			case *ssa.Store:
				g = x.Addr
			case *ssa.MapUpdate:
				if ld, ok := x.Map.(*ssa.UnOp); ok {
					g = ld.X
				}
			default:
				return
			}
			gl, ok := g.(*ssa.Global)
			if !ok || gl.Name() != name || Short(gl.Pkg.Pkg.Path()) != pkg {
				return
			}
			n++
			if o := FnName(Outer(fn)); o != allowed {
				bad = o
				pos = in.Pos()
			}
		})
	}
	if n == 0 {
		c.Undecided(rule, construct, "no write found")
		return
	}
	c.Check(bad == "", rule, construct, pos, fmt.Sprintf("%d write(s)", n), "also written in "+bad)
}
