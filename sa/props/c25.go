package props

import (
	"fmt"
	"regexp"
	"sort"
	"strings"

	"golang.org/x/tools/go/ssa"

	. "verif/sa/core"
)

func init() {
	Register(&Property{
		ID:    "C25",
		Floor: 37,
		Clauses: "receive path: in Conn.handleLongHeader and Conn.handle1RTT acks.shouldProcess(num)==true on the same ackState and packet number dominates handleFrames and acks.receive, every handleFrames is followed by acks.receive, and these are their only callers; " +
			"shouldProcess returns true only under seen.min()<=num and !seen.contains(num). " +
			"ackState.seen is mutated only by receive (add(num,num+1), then removeranges(0,n) under numRanges>8) and handleAck (sub(0, rangeContaining(largest).start)), i.e. only prefixes are dropped; handleAck is reached only for an acknowledged ACK frame with the recorded largest. " +
			"ACK frames: packetWriter.appendAckFrame is fed acksToSend's first result, which is ackState.seen or nil; the numbers written are exactly max, first range size-1, gap = next.start-this.end-1, size-1 of ranges of that set (plus delay and ECN counters). " +
			"peer ACKs: lossState.receiveAckRange rejects end > spaces.end() and a packet in state sentPacketUnsent with PROTOCOL_VIOLATION before any state change; skipNumber records the skipped number as sentPacketUnsent in the sent list; consumeAckFrame calls back only with 0 <= start < end; receiveAckRange errors reach Conn.abort.",
		NotCovered: "interaction of pruning with duplicate suppression over histories beyond the structural min() guard; correctness of rangeset operations; packet-number decoding (C23); that the ACK frame fits/ordering of frames; ECN count accuracy.",
		Run:        c25,
	})
}

const qaPnT = "[golang.org/x/net/quic.packetNumber]"

func c25(c *Ctx) {
	const A = "(*quic.ackState)."
	hf := "(*quic.Conn).handleFrames"
	recv := A + "receive"
	sp := A + "shouldProcess"

	// ---- shouldProcess dominates processing
	for _, fn := range []string{"(*quic.Conn).handleLongHeader", "(*quic.Conn).handle1RTT"} {
		qaC25guard(c, fn, sp, hf, recv)
		c.CallAfter(fn, Calls(hf), recv)
		c.Count(fn, Calls(sp), 1, 1)
	}
	c.Callers(hf, "(*quic.Conn).handleLongHeader", "(*quic.Conn).handle1RTT")
	c.Callers(recv, "(*quic.Conn).handleLongHeader", "(*quic.Conn).handle1RTT")
	c.Reject(sp, RetConst(0, "true"), "min"+qaPnT+"($r.seen) > $0")
	c.Reject(sp, RetConst(0, "true"), "contains"+qaPnT+"($r.seen,$0)")

	// ---- who changes seen, and how
	c.Writers("quic.ackState.seen", recv, A+"handleAck")
	rs := "(*quic.rangeset[quic.packetNumber])."
	add := Calls(rs + "add[quic.packetNumber]")
	c.Has(recv, add.ArgIs(0, "&$r.seen").ArgIs(1, "$2").ArgIs(2, "($2+1)"))
	c.Count(recv, add, 1, 1)
	rm := Calls(rs + "removeranges[quic.packetNumber]")
	c.Guard(recv, rm, "numRanges"+qaPnT+"($r.seen) > 8")
	c.Has(recv, rm.ArgIs(1, "0").ArgIs(2, "(numRanges"+qaPnT+"($r.seen)-8)"))
	c.Before(recv, add, rm)
	c.Count(recv, Calls(rs+"sub[quic.packetNumber]"), 0, 0)
	ha := A + "handleAck"
	sub := Calls(rs + "sub[quic.packetNumber]")
	c.Has(ha, sub.ArgIs(0, "&$r.seen").ArgIs(1, "0").ArgIs(2, "rangeContaining"+qaPnT+"($r.seen,$0).start"))
	c.Count(ha, sub, 1, 1)
	c.Count(ha, Union(add, rm), 0, 0)
	hal := "(*quic.Conn).handleAckOrLoss"
	c.Callers(ha, hal)
	c.Guard(hal, Calls(ha), "$2 == @quic.packetAcked")
	c.Has(hal, Calls(ha).ArgIs(0, "&$r.acks[$0]").ArgIs(1, "nextInt($1)"))
	wa := "(*quic.packetWriter).appendAckFrame"
	c.Has(wa, Calls("(*quic.sentPacket).appendInt").ArgIs(1, "max"+qaPnT+"($0)"))

	// ---- ACK frames are built from the seen set
	caf := "(*quic.Conn).appendAckFrame"
	c.Has(caf, Calls(wa).ArgIs(1, "acksToSend(&$r.acks[$1],$0)#0"))
	c.Callers(wa, caf, "(quic.debugFrameAck).write")
	qaC25results(c, A+"acksToSend", 0, "nil", "$r.seen")
	qaC25ackNumbers(c, wa)
	c.Reject(wa, Calls("internal/quic/quicwire.AppendVarint"), "len($0) == 0")

	// ---- ACKs from the peer
	rar := "(*quic.lossState).receiveAckRange"
	effects := Union(RetOK(), Stores("quic.sentPacket.state"), Calls("(*quic.ccReno).packetAcked"), QaCallsParam(5))
	c.Reject(rar, effects, "$4 > end(&$r.spaces[$1].sentPacketList)")
	pv, _ := c.P.ConstInt("quic.errProtocolViolation")
	code := Stores("quic.localTransportError.code").StoredIs(fmt.Sprint(pv))
	c.Has(rar, c.QaUnder(code, "$4 > end(&$r.spaces[$1].sentPacketList)"))
	qaC25unsent(c, rar, pv)
	sk := "(*quic.lossState).skipNumber"
	us, _ := c.P.ConstInt("quic.sentPacketUnsent")
	c.Has(sk, Stores("quic.sentPacket.state").StoredIs(fmt.Sprint(us)))
	c.Has(sk, Calls("(*quic.sentPacketList).add").ArgIs(1, "newSentPacket()"))
	c.Has(sk, Stores("quic.sentPacket.num").StoredIs("$r.spaces[$1].sentPacketList.nextNum"))
	c.Callers(rar, "(*quic.Conn).handleAckFrame")
	cl := "(*quic.Conn).handleAckFrame$1"
	c.CallAfterIncl(cl, c.Edge("receiveAckRange(&^c.loss,^now,^space,$0,$1,$2,closure:handleAckOrLoss$bound) != nil"), "(*quic.Conn).abort")
	qaC25callbackRange(c, "quic.consumeAckFrame")
}

// qaC25guard: the handleFrames and receive calls of fn are dominated by
// shouldProcess(...) == true on the ackState and packet number given to receive.
func qaC25guard(c *Ctx, fnName, sp, hf, recv string) {
	fn := c.MustFn(fnName)
	if fn == nil {
		return
	}
	construct := fnName + ": handleFrames and acks.receive only under acks.shouldProcess(num) on the same ack state and number"
	rcs := Calls(recv).F(c.P, fn)
	hfs := Calls(hf).F(c.P, fn)
	if len(rcs) != 1 || len(hfs) != 1 {
		c.Undecided("guard-before", construct, fmt.Sprintf("%d receive and %d handleFrames calls; rule expects one each", len(rcs), len(hfs)))
		return
	}
	rc := rcs[0].(*ssa.Call)
	for _, site := range []ssa.Instruction{rcs[0], hfs[0]} {
		ok := false
		for _, f := range FactsAtInstr(site) {
			call, isCall := f.If.Cond.(*ssa.Call)
			if !isCall || f.Atom.Kind != TRUE || CalleeName(&call.Call) != sp {
				continue
			}
			if Term(BaselineArgs(&call.Call)[0]) == Term(BaselineArgs(&rc.Call)[0]) && Term(BaselineArgs(&call.Call)[1]) == Term(BaselineArgs(&rc.Call)[3]) {
				ok = true
			}
		}
		if !ok {
			c.Fail("guard-before", construct, site.Pos(), "`"+DescribeInstr(site)+"` is reachable without shouldProcess having accepted that packet number in that number space")
			return
		}
	}
	c.OK("guard-before", construct, "2 sites")
}

// qaC25results: result idx of every return of fnName renders as one of allowed.
func qaC25results(c *Ctx, fnName string, idx int, allowed ...string) {
	fn := c.MustFn(fnName)
	if fn == nil {
		return
	}
	construct := fmt.Sprintf("%s: result #%d ∈ {%s}", fnName, idx, strings.Join(allowed, ", "))
	rets := Returns().F(c.P, fn)
	seen := map[string]bool{}
	for _, r := range rets {
		t := Term(r.(*ssa.Return).Results[idx])
		ok := false
		for _, a := range allowed {
			if a == t {
				ok = true
			}
		}
		if !ok {
			c.Fail("result-from", construct, r.Pos(), "returns `"+t+"`")
			return
		}
		seen[t] = true
	}
	c.Check(seen[allowed[len(allowed)-1]], "result-from", construct, fn.Pos(), fmt.Sprintf("%d returns", len(rets)), "never returns "+allowed[len(allowed)-1])
}

var qaPhiName = regexp.MustCompile(`φ[A-Za-z_0-9]+`)

// qaC25ackNumbers: the varints written by packetWriter.appendAckFrame are, in
// linear normal form and modulo the loop index, exactly the RFC 9000 19.3
// numbers of the range set parameter.
func qaC25ackNumbers(c *Ctx, wa string) {
	fn := c.MustFn(wa)
	if fn == nil {
		return
	}
	construct := wa + ": numbers written are largest, delay, first-range, gap, range-length of the set (and ECN counts)"
	want := map[string]string{
		"max" + qaPnT + "($0)":                 "largest acknowledged",
		"$1":                                   "ack delay",
		"size" + qaPnT + "($0[(len($0)-1)])-1": "first range = size-1 of the highest range",
		"$0[(φ+1)].start-$0[φ].end-1":          "gap = next.start - this.end - 1",
		"size" + qaPnT + "($0[φ])-1":           "range length = size-1",
		"$2.t0":                                "ECT0 count",
		"$2.t1":                                "ECT1 count",
		"$2.ce":                                "CE count",
	}
	got := map[string]bool{}
	for _, in := range Calls("internal/quic/quicwire.AppendVarint").F(c.P, fn) {
		l := qaPhiName.ReplaceAllString(Linearize(BaselineArgs(&in.(*ssa.Call).Call)[1]).String(), "φ")
		if _, ok := want[l]; !ok {
			c.Fail("codec-values", construct, in.Pos(), "writes `"+l+"`, which is none of the ACK frame fields derived from the acknowledged set")
			return
		}
		got[l] = true
	}
	var missing []string
	for k, d := range want {
		if !got[k] {
			missing = append(missing, d)
		}
	}
	sort.Strings(missing)
	c.Check(len(missing) == 0, "codec-values", construct, fn.Pos(), fmt.Sprintf("%d fields", len(got)), "not written: "+strings.Join(missing, "; "))
}

// qaC25unsent: receiveAckRange tests the state of the packet it is about to
// mark against sentPacketUnsent, and on equality returns PROTOCOL_VIOLATION
// without any state change.
func qaC25unsent(c *Ctx, rar string, pv int64) {
	fn := c.MustFn(rar)
	if fn == nil {
		return
	}
	construct := rar + ": acknowledgement of a skipped (sentPacketUnsent) number is rejected with PROTOCOL_VIOLATION before any state change"
	us, _ := c.P.ConstInt("quic.sentPacketUnsent")
	acked, _ := c.P.ConstInt("quic.sentPacketAcked")
	var stores []ssa.Instruction
	for _, s := range Stores("quic.sentPacket.state").StoredIs(fmt.Sprint(acked)).F(c.P, fn) {
		stores = append(stores, s)
	}
	if len(stores) == 0 {
		c.Undecided("reject-before", construct, "no store of sentPacketAcked found")
		return
	}
	tests := c.P.QaFieldTests(fn, "quic.sentPacket.state", us)
	for _, st := range stores {
		obj := QaObjOfFieldStore(st)
		ok := false
		for _, t := range tests {
			if t.Obj != obj || !t.If.Block().Dominates(st.Block()) {
				continue
			}
			from := QaFirstOf("packet.state == sentPacketUnsent", t.EqSucc)
			bad := Union(RetOK(), Stores("quic.sentPacket.state"), Calls("(*quic.ccReno).packetAcked"), QaCallsParam(5))
			code := Stores("quic.localTransportError.code").StoredIs(fmt.Sprint(pv))
			if c.NeverAfter(rar, from, bad, true) && c.PassThroughIncl(rar, from, code) {
				ok = true
			}
		}
		if !ok {
			c.Fail("reject-before", construct, st.Pos(), "no dominating test of the same packet against sentPacketUnsent that rejects")
			return
		}
	}
	c.OK("reject-before", construct, fmt.Sprintf("%d store(s)", len(stores)))
}

// qaC25callbackRange: consumeAckFrame invokes its callback only with
// 0 <= start and start < end.
func qaC25callbackRange(c *Ctx, fnName string) {
	fn := c.MustFn(fnName)
	if fn == nil {
		return
	}
	construct := fnName + ": range callback only under 0 <= start < end"
	calls := QaCallsParam(1).F(c.P, fn)
	if len(calls) == 0 {
		c.Undecided("guard-before", construct, "callback call not found")
		return
	}
	for _, in := range calls {
		args := BaselineArgs(&in.(*ssa.Call).Call)
		start, end := Linearize(args[1]), Linearize(args[2])
		zero := Lin{Coef: map[string]int64{}}
		nonneg := Atom{Kind: LE, L: QaLinSub(zero, start, 0)} // -start <= 0
		less := Atom{Kind: LE, L: QaLinSub(start, end, 1)}    // start - end + 1 <= 0
		if !QaFactsInclude(in, nonneg, false) || !QaFactsInclude(in, less, false) {
			c.Fail("guard-before", construct, in.Pos(), "callback `"+DescribeInstr(in)+"` is not dominated by tests establishing "+nonneg.String()+" and "+less.String())
			return
		}
	}
	c.OK("guard-before", construct, fmt.Sprintf("%d call(s)", len(calls)))
}
