package props

import (
	"fmt"
	"sort"
	"strings"

	"golang.org/x/tools/go/ssa"

	. "verif/sa/core"
)

func init() {
	Register(&Property{
		ID:    "C19",
		Floor: 60,
		Clauses: "sent-frame bookkeeping: every frame kind that a packetWriter appender reachable from Conn.maybeSend records in sentPacket has a case in Conn.handleAckOrLoss, " +
			"and that case reads back exactly the integers/ranges the appender recorded; the recorded STREAM range is the offset and size actually framed. " +
			"Stream.ackOrLossData: a lost range is re-added to outunsent and acknowledged ranges are removed again; ranges enter outacked only on packetAcked; the FIN state is touched only for FIN frames; " +
			"buffer release only below an acknowledged prefix; ownership of outacked/outunsent/inset/insize. " +
			"Stream.Close returns nil only for a read-only stream or under outclosed.isReceived && outacked.isrange(0,out.end), after waitOnDone succeeded. " +
			"Stream.handleData: bounds check first and rejecting; nothing stored after a flow-control error; writeAt and inset.add are paired and use the same offset, the range end is off+len(b); " +
			"the duplicate-prefix trim advances the offset and the slice together; insize set only for FIN frames, to the frame end. " +
			"Stream.Read: io.EOF only at in.start==insize or when the copy ends at insize; data is copied from in.start and clipped to the first received range; the panic guard on inset precedes the copy.",
		NotCovered: "byte equality end to end under loss/reordering/duplication (runtime); correctness of rangeset and pipe (C24/C30 not applicable); loss detection timing and PTO liveness; " +
			"gate discipline of the in/out fields (C29); that frames reach the peer at all.",
		Run: c19,
	})
}

func c19(c *Ctx) {
	const S = "(*quic.Stream)."
	const W = "(*quic.packetWriter)."
	const SP = "(*quic.sentPacket)."
	hal := "(*quic.Conn).handleAckOrLoss"

	// ---- frame kinds recorded by reachable appenders have a case, and the payload agrees
	clauses, hasDefault, found := c.P.QaSwitchOnCall(hal, "next")
	if !found {
		c.Undecided("switch-covers", hal+": switch on sent.next()", "switch not found")
	} else {
		caseOf := map[int64]int{}
		for i, cl := range clauses {
			for v := range cl.Vals {
				caseOf[v] = i
			}
		}
		reach, missing := c.P.QaReachableFrom("(*quic.Conn).maybeSend")
		if len(missing) > 0 {
			c.Undecided("anchor", "(*quic.Conn).maybeSend", "entry not found")
		}
		var appenders []string
		for name := range reach {
			if strings.HasPrefix(name, W) {
				appenders = append(appenders, name)
			}
		}
		sort.Strings(appenders)
		recorders := 0
		for _, name := range appenders {
			fn := c.P.Fn(name)
			recs := c.P.QaCallsInOrder(fn, SP+"appendAckElicitingFrame", SP+"appendNonAckElicitingFrame")
			if len(recs) == 0 {
				continue
			}
			recorders++
			c.Touch(name)
			construct := name + ": recorded frame kinds handled by handleAckOrLoss"
			if len(recs) != 1 {
				c.Undecided("switch-covers", construct, fmt.Sprintf("%d recording calls in one appender; rule expects one", len(recs)))
				continue
			}
			kinds, ok := QaConstSet(BaselineArgs(&recs[0].Call)[1])
			if !ok || len(kinds) == 0 {
				c.Undecided("switch-covers", construct, "recorded frame type `"+Term(BaselineArgs(&recs[0].Call)[1])+"` is not a finite set of constants")
				continue
			}
			var lacking []int64
			idx := map[int]bool{}
			for k := range kinds {
				if i, ok := caseOf[k]; ok {
					idx[i] = true
				} else {
					lacking = append(lacking, k)
				}
			}
			if len(lacking) > 0 {
				m := map[int64]bool{}
				for _, k := range lacking {
					m[k] = true
				}
				c.Fail("switch-covers", construct, recs[0].Pos(), "frame type(s) "+QaSortedInts(m)+" are recorded for ack/loss processing but handleAckOrLoss has no case (it panics in its default clause)")
				continue
			}
			c.OK("switch-covers", construct, "kinds "+QaSortedInts(kinds))
			// payload agreement
			var wrote []string
			for _, call := range c.P.QaCallsInOrder(fn, SP+"appendInt", SP+"appendOffAndSize") {
				if call.Pos() > recs[0].Pos() {
					if strings.HasSuffix(CalleeName(&call.Call), "appendInt") {
						wrote = append(wrote, "int")
					} else {
						wrote = append(wrote, "range")
					}
				}
			}
			c2 := name + ": recorded payload is what the handleAckOrLoss case reads"
			good := true
			for i := range idx {
				var read []string
				for _, m := range QaMethodCallsIn(clauses[i].Body, "nextInt", "nextRange") {
					if m == "nextInt" {
						read = append(read, "int")
					} else {
						read = append(read, "range")
					}
				}
				if strings.Join(read, ",") != strings.Join(wrote, ",") {
					good = false
					c.Fail("codec-agree", c2, recs[0].Pos(), fmt.Sprintf("appender records [%s] after the frame type, the case for %s reads [%s]", strings.Join(wrote, ","), QaSortedInts(clauses[i].Vals), strings.Join(read, ",")))
					break
				}
			}
			if good {
				c.OK("codec-agree", c2, "["+strings.Join(wrote, ",")+"]")
			}
		}
		c.Check(recorders >= 11, "switch-covers", "appenders reachable from Conn.maybeSend that record a frame", c.P.Fn(hal).Pos(),
			fmt.Sprintf("%d", recorders), fmt.Sprintf("only %d recording appenders reachable from maybeSend (expected at least 11): reachability lost", recorders))
		c.Check(hasDefault, "switch-covers", hal+": unknown recorded frame type is not silently skipped", c.P.Fn(hal).Pos(), "default clause present",
			"no default clause: an unhandled recorded frame would desynchronise the read offset silently")
	}
	// the record helpers are used by the packet writer only
	c.OnlyCalledIn("sentPacket.append*Frame recorders", []string{SP + "appendAckElicitingFrame", SP + "appendNonAckElicitingFrame", SP + "appendInt", SP + "appendOffAndSize"},
		W+"appendAckFrame", W+"appendResetStreamFrame", W+"appendStopSendingFrame", W+"appendCryptoFrame", W+"appendStreamFrame", W+"appendMaxDataFrame",
		W+"appendMaxStreamDataFrame", W+"appendMaxStreamsFrame", W+"appendDataBlockedFrame", W+"appendStreamDataBlockedFrame", W+"appendStreamsBlockedFrame",
		W+"appendNewConnectionIDFrame", W+"appendRetireConnectionIDFrame", W+"appendHandshakeDoneFrame")
	c.OnlyCalledIn("sentPacket.next* readers", []string{SP + "next", SP + "nextInt", SP + "nextRange"}, hal, SP+"nextRange")
	// STREAM: the recorded id/offset/size are the ones framed
	asf := W + "appendStreamFrame"
	c.Has(asf, Calls(SP+"appendInt").ArgIs(1, "$0"))
	c.Has(asf, Calls(SP+"appendOffAndSize").ArgIs(1, "$1"))
	c.QaArgSatisfies(asf, Calls(SP+"appendOffAndSize"), 2, "the size the frame was cut to (the returned slice length)", func(v ssa.Value) bool {
		return qaSameAsSliceLen(c, asf, v)
	})
	// handleAckOrLoss dispatches STREAM frames with the recorded values
	c.Has(hal, Calls(S+"ackOrLossData").ArgIs(2, "nextRange($1)#0").ArgIs(3, "nextRange($1)#1").ArgIs(5, "$2"))

	// ---- ackOrLossData
	aol := S + "ackOrLossData"
	add, sub := "(*quic.rangeset[int64]).add[int64]", "(*quic.rangeset[int64]).sub[int64]"
	lostAdd := Calls(add).ArgIs(0, "&$r.outunsent").ArgIs(1, "$1").ArgIs(2, "$2")
	c.Guard(aol, lostAdd, "$4 == @quic.packetLost")
	// the lost range itself (start,end as recorded) is what is re-added: a missing
	// site is a failure here, not merely an unanchored rule.
	c.Has(aol, c.QaUnder(lostAdd, "$4 == @quic.packetLost"))
	ackAdd := Calls(add).ArgIs(0, "&$r.outacked")
	c.Guard(aol, ackAdd, "$4 == @quic.packetAcked")
	c.Has(aol, ackAdd.ArgIs(1, "$1").ArgIs(2, "$2"))
	c.ArgFrom(aol, c.QaUnder(Calls(sub).ArgIs(0, "&$r.outunsent"), "$4 == @quic.packetLost"), 1, "Stream.outacked", c.P.QaIsLoadOf("quic.Stream.outacked"))
	c.NeverAfter(aol, c.QaUnder(Calls(sub).ArgIs(0, "&$r.outunsent"), "$4 == @quic.packetLost"), lostAdd, false)
	c.Guard(aol, Calls("(*quic.sentVal).ackOrLoss").ArgIs(0, "&$r.outclosed"), "$3")
	c.Guard(aol, Calls("(*quic.pipe).discardBefore"), "contains[int64]($r.outacked,$r.out.start)", "$4 == @quic.packetAcked")
	c.Has(aol, Calls("(*quic.pipe).discardBefore").ArgIs(1, "$r.outacked[0].end"))
	c.Writers("quic.Stream.outacked", aol)
	c.Writers("quic.Stream.outunsent", aol, S+"flushLocked", S+"handleMaxStreamData", S+"appendOutFramesLocked", S+"resetInternal")
	c.Callers(aol, hal)

	// ---- Close
	cl := S + "Close"
	c.QaGuardAny(cl, QaResultNilErr(), []string{"IsReadOnly($r)"},
		[]string{"isReceived($r.outclosed)", "isrange[int64]($r.outacked,0,$r.out.end)", "waitOnDone($r.conn,$r.outctx,$r.outdone) == nil"})
	c.Before(cl, Calls(S+"CloseWrite"), Calls("(*quic.Conn).waitOnDone"))

	// ---- handleData
	hd := S + "handleData"
	writeAt := Calls("(*quic.pipe).writeAt")
	insetAdd := Calls(add).ArgIs(0, "&$r.inset")
	insize := Stores("quic.Stream.insize")
	bounds := "checkStreamBounds($r,($0+len($1)),$2) != nil"
	c.Reject(hd, Union(writeAt, insetAdd, insize, Calls("(*quic.Conn).handleStreamBytesReceived")), bounds)
	c.NeverAfter(hd, c.Edge("handleStreamBytesReceived($r.conn,(($0+len($1))-$r.in.end)) != nil"), Union(writeAt, insetAdd, insize), true)
	c.QaPaired(hd, writeAt, insetAdd)
	c.QaPaired(hd, insetAdd, writeAt)
	c.Has(hd, insetAdd.ArgIs(2, "($0+len($1))"))
	qaSameOffsetAndTrim(c, hd)
	c.Guard(hd, insize, "$2")
	c.Has(hd, insize.StoredIs("($0+len($1))"))
	c.Writers("quic.Stream.inset", hd)
	c.Writers("quic.Stream.insize", hd, S+"handleReset", "quic.newStream")
	c.Callers(hd, "(*quic.Conn).handleStreamFrame")

	// ---- Read
	// The buffer handed to pipe.copy is identified structurally (it is whatever
	// value the copy call receives), not by the way the clamp is spelled:
	// if-clamp, min(), a named size local all denote the same buffer.
	rd := S + "Read"
	cp := Calls("(*quic.pipe).copy")
	var eofAlts [][]string
	copiedEnd := map[string]bool{} // linear forms of in.start+len(buffer copied)
	eofAlts = append(eofAlts, []string{"$r.in.start == $r.insize"})
	if fn := c.P.Fn(rd); fn != nil {
		for _, in := range cp.F(c.P, fn) {
			if ci, ok := in.(ssa.CallInstruction); ok && len(BaselineArgs(ci.Common())) > 2 {
				bt := Term(QaStripConv(BaselineArgs(ci.Common())[2]))
				eofAlts = append(eofAlts, []string{"$r.in.start + len(" + bt + ") == $r.insize"})
				copiedEnd[c.P.Q1LinOfSpec("$r.in.start + len("+bt+")")] = true
			}
		}
	}
	c.Q1GuardAny(rd, QaResultIs(1, "io.EOF"), "$r.in.start==$r.insize or $r.in.start+len(<the buffer passed to pipe.copy>)==$r.insize", eofAlts...)
	c.Has(rd, cp.ArgIs(1, "$r.in.start"))
	c.Reject(rd, cp, "len($r.inset) < 1")
	c.Reject(rd, cp, "$r.inset[0].start != 0")
	c.Reject(rd, cp, "$r.inset[0].end <= $r.in.start")
	const avail = "$r.inset[0].end - $r.in.start"
	c.QaClampedOrExempt(rd, cp, 2, "a slice ending at inset[0].end-in.start", func(v ssa.Value) bool {
		return qaSliceHighAtMost(c, v, avail)
	}, avail+" >= len($0)")
	c.Before(rd, cp, Calls("(*quic.pipe).discardBefore").Where("arg1=in.start+len(<the buffer passed to pipe.copy>)", func(in ssa.Instruction) bool {
		ci, ok := in.(ssa.CallInstruction)
		return ok && len(BaselineArgs(ci.Common())) > 1 && copiedEnd[Q1LinOf(BaselineArgs(ci.Common())[1])]
	}))
}

// qaSameAsSliceLen: v is the length of the slice the function returns as its
// first result (x[:v]).
func qaSameAsSliceLen(c *Ctx, fnName string, v ssa.Value) bool {
	fn := c.P.Fn(fnName)
	if fn == nil {
		return false
	}
	ok := false
	for _, b := range fn.Blocks {
		for _, in := range b.Instrs {
			r, isRet := in.(*ssa.Return)
			if !isRet || len(r.Results) == 0 {
				continue
			}
			if sl, isSl := r.Results[0].(*ssa.Slice); isSl && sl.High != nil && QaStripConv(sl.High) == QaStripConv(v) {
				ok = true
			}
		}
	}
	return ok
}

// qaSliceHighAtMost: v is x[:h] (or x[0:h]) with h provably <= bound (a linear
// expression in spec syntax) where the slice is taken: h is the bound itself,
// min(…, bound), or an if/else merge / guarded value bounded by it.
func qaSliceHighAtMost(c *Ctx, v ssa.Value, bound string) bool {
	sl, ok := v.(*ssa.Slice)
	if !ok || sl.High == nil {
		return false
	}
	if sl.Low != nil {
		if s, ok := QaConstSet(sl.Low); !ok || len(s) != 1 || !s[0] {
			return false
		}
	}
	return c.P.Q1ValueBounded(sl.High, sl, bound)
}

// qaSameOffsetAndTrim: in handleData the offset given to pipe.writeAt is the
// start given to inset.add, and wherever the offset was advanced past a
// duplicate prefix the data slice was advanced by the same amount.
func qaSameOffsetAndTrim(c *Ctx, hd string) {
	fn := c.MustFn(hd)
	if fn == nil {
		return
	}
	ws := Calls("(*quic.pipe).writeAt").F(c.P, fn)
	as := Calls("(*quic.rangeset[int64]).add[int64]").ArgIs(0, "&$r.inset").F(c.P, fn)
	c1 := hd + ": pipe.writeAt offset is the start of the range added to inset"
	c2 := hd + ": duplicate-prefix trim advances data slice and offset together"
	if len(ws) != 1 || len(as) != 1 {
		c.Undecided("same-value", c1, fmt.Sprintf("%d writeAt and %d inset.add sites; rule expects one each", len(ws), len(as)))
		return
	}
	w := ws[0].(*ssa.Call)
	a := as[0].(*ssa.Call)
	off := QaStripConv(BaselineArgs(&w.Call)[2])
	c.Check(off == QaStripConv(BaselineArgs(&a.Call)[1]), "same-value", c1, w.Pos(), Term(off),
		"writeAt stores at `"+Term(off)+"` but inset records a range starting at `"+Term(BaselineArgs(&a.Call)[1])+"`")
	data := QaStripConv(BaselineArgs(&w.Call)[1])
	pb, okb := data.(*ssa.Phi)
	po, oko := off.(*ssa.Phi)
	if !okb && !oko {
		_, p1 := data.(*ssa.Parameter)
		_, p2 := off.(*ssa.Parameter)
		c.Check(p1 && p2, "same-value", c2, w.Pos(), "no trimming: parameters passed through", "data or offset modified without the other")
		return
	}
	if !okb || !oko || pb.Block() != po.Block() || len(pb.Edges) != len(po.Edges) {
		c.Fail("same-value", c2, w.Pos(), "data `"+Term(data)+"` and offset `"+Term(off)+"` are not adjusted at the same place")
		return
	}
	n := 0
	for i := range pb.Edges {
		bi, oi := QaStripConv(pb.Edges[i]), QaStripConv(po.Edges[i])
		_, p1 := bi.(*ssa.Parameter)
		_, p2 := oi.(*ssa.Parameter)
		if p1 && p2 {
			continue
		}
		sl, ok := bi.(*ssa.Slice)
		good := false
		if ok && sl.High == nil && sl.Low != nil {
			if _, isP := sl.X.(*ssa.Parameter); isP {
				if d, ok := QaStripConv(sl.Low).(*ssa.BinOp); ok && d.Op.String() == "-" && QaStripConv(d.X) == oi {
					if _, isP := QaStripConv(d.Y).(*ssa.Parameter); isP {
						good = true
					}
				}
			}
		}
		if !good {
			c.Fail("same-value", c2, w.Pos(), "on one path the data is `"+Term(bi)+"` while the offset is `"+Term(oi)+"`: not b[newOff-off:] together with newOff")
			return
		}
		n++
	}
	c.OK("same-value", c2, fmt.Sprintf("%d trimmed path(s)", n))
}
