package props

import (
	"fmt"

	. "verif/sa/core"

	"golang.org/x/tools/go/ssa"
)

func init() {
	Register(&Property{
		ID:    "C18",
		Floor: 33,
		Clauses: "processGoAway always removes the conn from the pool (MarkDead) and calls setGoAway with the frame; cc.goAway is written hcOnly there (never reset) with cc.mu held; " +
			"isUsableLocked returns false whenever goAway != nil, idleStateLocked needs isUsableLocked (hcOnly exception: never-used closed conn), awaitOpenSlotForStreamLocked returns an error when the conn is closed or cannot take a request, and addStreamLocked runs hcOnly after it returned nil — so no stream is opened after GOAWAY; " +
			"setGoAway: streams with ID <= LastStreamID are never aborted, every stream with ID > LastStreamID is aborted, with errClientConnGotGoAway except stream 1 under a non-NO error code; " +
			"canRetryError(errClientConnGotGoAway) is true; shouldRetryRequest returns a request hcOnly for retryable errors and, when a body was already handed out, hcOnly with a fresh GetBody body or for errClientConnUnusable; roundTripViaPool asks the pool for a conn again on retry; " +
			"readLoop cleanup turns EOF after GOAWAY into GoAwayError and aborts the streams the peer has not closed.",
		NotCovered: "that a retried request is sent at most once per connection over all histories; requests whose headers were never written when GOAWAY arrives; GOAWAY frames that raise LastStreamID; backoff timing; the go1.27 wrapper build.",
		Run:        c18,
	})
}

func c18(c *Ctx) {
	const (
		pga     = "(*http2.clientConnReadLoop).processGoAway"
		setGA   = "(*http2.ClientConn).setGoAway"
		usable  = "(*http2.ClientConn).isUsableLocked"
		idle    = "(*http2.ClientConn).idleStateLocked"
		await   = "(*http2.ClientConn).awaitOpenSlotForStreamLocked"
		wreq    = "(*http2.clientStream).writeRequest"
		addStrm = "(*http2.ClientConn).addStreamLocked"
		abort   = "(*http2.clientStream).abortStreamLocked"
		retry   = "http2.canRetryError"
		should  = "http2.shouldRetryRequest"
		viaPool = "(*http2.Transport).roundTripViaPool"
		cleanup = "(*http2.clientConnReadLoop).cleanup"
		gaErr   = "http2.errClientConnGotGoAway"
	)
	// ---- recording the GOAWAY ---------------------------------------------------
	c.Before(pga, Calls(setGA).ArgIs(0, "$r.cc").ArgIs(1, "$0"), Returns())
	c.Before(pga, Calls(".MarkDead").ArgIs(0, "$r.cc"), Returns())
	c.Callers(setGA, pga)
	stGA := Stores("http2.ClientConn.goAway")
	c.Writers("http2.ClientConn.goAway", setGA)
	c.Has(setGA, stGA.StoredIs("$0"))
	c.Count(setGA, stGA, 1, 1)
	c.HeldAt(setGA, Union(stGA, Calls(abort)), "$r.mu", []string{hcC17Lock}, []string{hcC17Unlock})

	// ---- no new streams afterwards ------------------------------------------------
	c.Reject(usable, Calls("(*http2.ClientConn).tooIdleLocked"), "$r.goAway != nil")
	hcC17OnlyTrueVia(c, usable, "(*http2.ClientConn).tooIdleLocked")
	stCan := Stores("http2.clientConnIdleState.canTakeNewRequest")
	hcC17IdleState(c, idle, stCan)
	c.Guard(idle, stCan.StoredIs("true"), "$r.nextStreamID == 1", "$r.closed")
	c.Reject(await, RetOK(), "$r.closed")
	c.Reject(await, RetOK(), "!canTakeNewRequestLocked($r)")
	c.HcNoPathWithout(await, Calls("(*sync.Cond).Wait"), RetOK(), Calls("(*http2.ClientConn).canTakeNewRequestLocked"))
	c.Reject(wreq, Calls(addStrm), "awaitOpenSlotForStreamLocked($r.cc,$r) != nil")
	c.Callers(addStrm, wreq)

	// ---- classifying the in-flight streams ------------------------------------------
	aborts := Calls(abort)
	c.Guard(setGA, aborts, "next(range($r.streams))#1 > $0.LastStreamID")
	c.HcPassThroughUnless(setGA, c.Edge("next(range($r.streams))#1 > $0.LastStreamID"), aborts, HcNoEdges())
	hcC18AbortsNextStream(c, setGA, aborts)
	other := aborts.Where("error is not errClientConnGotGoAway", func(in ssa.Instruction) bool { return Term(HcCallArg(in, 1)) != gaErr })
	c.Has(setGA, aborts.ArgIs(1, gaErr))
	c.Guard(setGA, other, "next(range($r.streams))#1 == 1", "$r.goAway.ErrCode != 0")

	// ---- retry ---------------------------------------------------------------------------
	c.Reject(retry, RetConst(0, "false"), "$0 == "+gaErr)
	c.Reject(retry, Returns().Where("not the constant true", func(in ssa.Instruction) bool {
		return Term(in.(*ssa.Return).Results[0]) != "true"
	}), "$0 == "+gaErr)
	c.Reject(should, RetOK(), "!canRetryError($1)")
	hcC18ReplayOnly(c, should)
	c.Callers(should, viaPool)
	c.HcNoPathWithout(viaPool, Calls(should), Calls("(*http2.ClientConn).RoundTrip"), Calls(".GetClientConn"))
	c.Writers("http2.clientStream.abortErr", abort)
	c.Has(abort+"$1", Stores("http2.clientStream.abortErr"))

	// ---- streams the server did process -------------------------------------------------------
	c.Has(cleanup, Stores("http2.GoAwayError.LastStreamID").StoredIs("$r.cc.goAway.LastStreamID"))
	c.Guard(cleanup, Stores("http2.GoAwayError.LastStreamID"), "$r.cc.goAway != nil", "isEOFOrNetReadError($r.cc.readerErr)")
	c.Has(cleanup, aborts)
	c.HeldAt(cleanup, aborts, "$r.cc.mu", []string{hcC17Lock}, []string{hcC17Unlock})
}

// hcC18AbortsNextStream: every abort in setGoAway targets the stream of the
// current iteration of the range over cc.streams.
func hcC18AbortsNextStream(c *Ctx, fnName string, aborts Sel) {
	rule := "value-is"
	construct := fnName + ": aborts act on the stream whose ID was compared with LastStreamID"
	fn := c.MustFn(fnName)
	if fn == nil {
		return
	}
	sites := aborts.F(c.P, fn)
	if len(sites) < 2 {
		c.Fail(rule, construct, fn.Pos(), fmt.Sprintf("%d abort site(s), reviewed 2", len(sites)))
		return
	}
	for _, in := range sites {
		if Term(HcCallArg(in, 0)) != "next(range($r.streams))#2" {
			c.Fail(rule, construct, InstrPos(in), "aborts "+Term(HcCallArg(in, 0)))
			return
		}
	}
	c.OK(rule, construct, fmt.Sprintf("%d site(s)", len(sites)))
}

// hcC18ReplayOnly: shouldRetryRequest hands back the original request (its
// body may have been consumed) hcOnly when there was no body or nothing was
// written (errClientConnUnusable); otherwise the request is a copy with a
// GetBody body.
func hcC18ReplayOnly(c *Ctx, fnName string) {
	rule := "replay-guard"
	construct := fnName + ": the original request is reused hcOnly without body or for errClientConnUnusable; else GetBody copy"
	fn := c.MustFn(fnName)
	if fn == nil {
		return
	}
	n := 0
	for _, in := range RetOK().F(c.P, fn) {
		r := in.(*ssa.Return)
		n++
		if Term(r.Results[0]) == "$0" {
			noBody := !c.HcFactsHold(in, "$0.Body != nil") || !c.HcFactsHold(in, "$0.Body != net/http.NoBody")
			unusable := c.HcFactsHold(in, "$1 == http2.errClientConnUnusable")
			if !noBody && !unusable {
				c.Fail(rule, construct, InstrPos(in), "returns the original request although a body exists and the error is not errClientConnUnusable")
				return
			}
			continue
		}
		if !c.HcFactsHold(in, "$0.GetBody != nil", "call($0.GetBody)()#1 == nil") {
			c.Fail(rule, construct, InstrPos(in), "returns `"+Term(r.Results[0])+"` without a successful GetBody")
			return
		}
	}
	if n < 3 {
		c.Fail(rule, construct, fn.Pos(), fmt.Sprintf("%d successful return(s), reviewed 3", n))
		return
	}
	c.OK(rule, construct, fmt.Sprintf("%d return(s)", n))
}
