package props

import (
	"fmt"
	"go/ast"
	"go/token"
	"go/types"
	"regexp"
	"sort"
	"strings"

	"golang.org/x/tools/go/packages"
	"golang.org/x/tools/go/ssa"

	. "verif/sa/core"
)

func init() {
	Register(&Property{
		ID:    "C04",
		Floor: 34,
		Clauses: "Huffman code table, computed exhaustively from the huffmanCodes/huffmanCodeLen literals (256 symbols): every code fits its length; lengths are at least 1 and small enough for AppendHuffmanString's 64-bit buffer (max length + flush threshold - 1 <= 64); " +
			"the 256 codewords are pairwise prefix-free; they leave exactly one codeword unused (Kraft sum = 1 - 2^-L), that codeword is all ones, at least 8 bits long (EOS), so no symbol code is a run of ones and up to 7 padding one-bits never complete a symbol; " +
			"AppendHuffmanString's EOS constants / padding byte equal the unused codeword's top bits; the tables are never written after package initialisation. " +
			"Structure of the coder: AppendHuffmanString and HuffmanEncodeLength index both tables with the input byte, shift-in by the code length and OR the code, flush exactly threshold/8 bytes when threshold bits are pending; HuffmanEncodeLength returns (sum of lengths+7)/8. " +
			"buildRootHuffmanNode descends by code>>(len-8) while len>8, then fills children[code<<(8-len) .. +1<<(8-len)) with the symbol's leaf, whose codeLen is the reduced length and whose sym is the table index. " +
			"huffmanDecode: child pointers are nil-checked (a nil child returns an error at once) before any use; a byte is written only for a leaf (children == nil) and only when 8 bits are pending or codeLen <= pending bits, and codeLen bits are then consumed; " +
			"every nil return passes the `pending symbol bits > 7` rejection and the all-ones padding mask test. HuffmanDecode/HuffmanDecodeToString produce output only when huffmanDecode returned nil and pass maxLen 0.",
		NotCovered: "the bit-buffer arithmetic of AppendHuffmanString and huffmanDecode for every input length (runtime arithmetic: shifts, the final 1-4 byte switch, cbits/sbits bookkeeping beyond the shapes listed); that the decode tree built at run time equals the table (only the index expressions are checked); " +
			"equality with RFC 7541 Appendix B is informational only (compared with the toolchain's vendored copy when it is loaded; a mismatch is a note, not a violation); lengths being within 5..30 is reported as a note.",
		Run: c04,
	})
}

// hpIntArray reads an integer array/slice composite literal.
func hpIntArray(pk *packages.Package, lit ast.Expr) ([]int64, string) {
	var out []int64
	next := int64(0)
	for _, e := range Elts(lit) {
		k, v := KV(e)
		if k != nil {
			i, ok := IntOf(pk, k)
			if !ok {
				return nil, "non-constant index"
			}
			next = i
		}
		x, ok := IntOf(pk, v)
		if !ok {
			return nil, fmt.Sprintf("element %d is not an integer constant", next)
		}
		for int64(len(out)) <= next {
			out = append(out, 0)
		}
		out[next] = x
		next++
	}
	return out, ""
}

type hpHuff struct {
	codes, lens    []int64
	eosCode        int64
	eosLen         int64
	minLen, maxLen int64
}

func c04Table(c *Ctx) *hpHuff {
	rule := "huffman-table"
	cl, pk := c.P.VarDecl(hpH + "huffmanCodes")
	ll, _ := c.P.VarDecl(hpH + "huffmanCodeLen")
	if cl == nil || ll == nil {
		c.Undecided(rule, "literals", "huffmanCodes / huffmanCodeLen initialiser not found")
		return nil
	}
	codes, why := hpIntArray(pk, cl)
	if why != "" {
		c.Undecided(rule, "huffmanCodes", why)
		return nil
	}
	lens, why := hpIntArray(pk, ll)
	if why != "" {
		c.Undecided(rule, "huffmanCodeLen", why)
		return nil
	}
	pos := cl.Pos()
	if !c.Check(len(codes) == 256 && len(lens) == 256, rule, "both tables have one entry per byte value", pos, "256", fmt.Sprintf("%d codes, %d lengths", len(codes), len(lens))) {
		return nil
	}
	h := &hpHuff{codes: codes, lens: lens, minLen: 99}
	bad := ""
	for s := 0; s < 256 && bad == ""; s++ {
		l := lens[s]
		if l < 1 || l > 32 {
			bad = fmt.Sprintf("symbol %d has length %d", s, l)
		} else if codes[s] < 0 || codes[s] >= int64(1)<<uint(l) {
			bad = fmt.Sprintf("symbol %d: code %#x does not fit %d bits", s, codes[s], l)
		}
		if l < h.minLen {
			h.minLen = l
		}
		if l > h.maxLen {
			h.maxLen = l
		}
	}
	if !c.Check(bad == "", rule, "every code fits its length (1..32 bits)", pos, fmt.Sprintf("lengths %d..%d", h.minLen, h.maxLen), bad) {
		return nil
	}
	// codewords as intervals of the 32-bit code space
	type iv struct {
		lo, hi int64
		sym    int
	}
	ivs := make([]iv, 256)
	for s := 0; s < 256; s++ {
		sh := uint(32 - lens[s])
		ivs[s] = iv{codes[s] << sh, (codes[s] + 1) << sh, s}
	}
	sort.Slice(ivs, func(i, j int) bool { return ivs[i].lo < ivs[j].lo })
	bad = ""
	type gap struct{ lo, hi int64 }
	var gaps []gap
	cur := int64(0)
	for _, x := range ivs {
		if x.lo < cur {
			bad = fmt.Sprintf("the code of symbol %d overlaps (is a prefix of, or has as prefix) the code of another symbol", x.sym)
			break
		}
		if x.lo > cur {
			gaps = append(gaps, gap{cur, x.lo})
		}
		cur = x.hi
	}
	if cur < int64(1)<<32 {
		gaps = append(gaps, gap{cur, int64(1) << 32})
	}
	if !c.Check(bad == "", rule, "the 256 codewords are pairwise prefix-free", pos, "", bad) {
		return nil
	}
	bad = ""
	if len(gaps) != 1 {
		bad = fmt.Sprintf("%d unused regions of the code space (want exactly one, the EOS codeword)", len(gaps))
	} else {
		size := gaps[0].hi - gaps[0].lo
		if size&(size-1) != 0 || gaps[0].lo%size != 0 {
			bad = fmt.Sprintf("the unused region [%#x,%#x) is not a single codeword", gaps[0].lo, gaps[0].hi)
		} else {
			l := int64(32)
			for s := size; s > 1; s >>= 1 {
				l--
			}
			h.eosLen = l
			h.eosCode = gaps[0].lo >> uint(32-l)
		}
	}
	if !c.Check(bad == "", rule, "exactly one codeword is unused (Kraft sum = 1 - 2^-L)", pos, fmt.Sprintf("EOS = %#x/%d bits", h.eosCode, h.eosLen), bad) {
		return nil
	}
	c.Check(h.eosCode == int64(1)<<uint(h.eosLen)-1 && h.eosLen >= 8, rule, "the unused codeword (EOS) is all ones and at least 8 bits long", pos,
		fmt.Sprintf("%d ones", h.eosLen), fmt.Sprintf("EOS would be %#x with %d bits", h.eosCode, h.eosLen))
	bad = ""
	for s := 0; s < 256; s++ {
		if codes[s] == int64(1)<<uint(lens[s])-1 {
			bad = fmt.Sprintf("symbol %d has the all-ones code of length %d: padding bits would decode to it", s, lens[s])
		}
	}
	c.Check(bad == "", rule, "no symbol code consists of one-bits only", pos, "", bad)
	if h.minLen != 5 || h.maxLen != 30 {
		c.Note("code lengths are %d..%d (RFC 7541: 5..30)", h.minLen, h.maxLen)
	}
	// informational RFC cross-check against the toolchain's vendored copy
	if v := c.P.HxFindPkg("vendor/golang.org/x/net/http2/hpack"); v != nil && v.TypesInfo != nil {
		var vc, vl []int64
		for _, f := range v.Syntax {
			for _, d := range f.Decls {
				if gd, ok := d.(*ast.GenDecl); ok && gd.Tok == token.VAR {
					for _, sp := range gd.Specs {
						vs := sp.(*ast.ValueSpec)
						for i, id := range vs.Names {
							if i < len(vs.Values) && id.Name == "huffmanCodes" {
								vc, _ = hpIntArray(v, vs.Values[i])
							}
							if i < len(vs.Values) && id.Name == "huffmanCodeLen" {
								vl, _ = hpIntArray(v, vs.Values[i])
							}
						}
					}
				}
			}
		}
		same := len(vc) == 256 && len(vl) == 256
		for s := 0; same && s < 256; s++ {
			same = vc[s] == codes[s] && vl[s] == lens[s]
		}
		c.Note("informational: table %s the toolchain's vendored golang.org/x/net/http2/hpack copy (RFC 7541 Appendix B)", map[bool]string{true: "equals", false: "DIFFERS from (or could not be compared with)"}[same])
	}
	return h
}

func c04(c *Ctx) {
	h := c04Table(c)
	c.HxOnly("global-writers", "stores into huffmanCodes", c.P.HxGlobalWriters(hpH+"huffmanCodes"), hpH+"init")
	c.HxOnly("global-writers", "stores into huffmanCodeLen", c.P.HxGlobalWriters(hpH+"huffmanCodeLen"), hpH+"init")
	c.HxOnly("global-writers", "stores into lazyRootHuffmanNode", c.P.HxGlobalWriters(hpH+"lazyRootHuffmanNode"), hpH+"buildRootHuffmanNode")
	c04Encoder(c, h)
	c04Build(c)
	c04Decoder(c)

	hd := hpH + "huffmanDecode"
	c.Callers(hd, hpH+"HuffmanDecode", hpH+"HuffmanDecodeToString", hpD+"decodeString")
	c.Callers(hpH+"buildRootHuffmanNode", hpH+"getRootHuffmanNode")
	c.Before(hpH+"getRootHuffmanNode", Calls("(*sync.Once).Do"), Returns())
	c.Count(hd, Calls(hpH+"getRootHuffmanNode"), 1, 1)
	c.Count(hpH+"HuffmanDecode", Calls(hd).ArgIs(1, "0").ArgIs(2, "$1"), 1, 1)
	c.Count(hpH+"HuffmanDecodeToString", Calls(hd).ArgIs(1, "0").ArgIs(2, "$0"), 1, 1)
	c.Reject(hpH+"HuffmanDecode", Calls(".Write"), "huffmanDecode(Get(http2/hpack.bufPool).(*bytes.Buffer),0,$1) != nil")
	c.Reject(hpH+"HuffmanDecodeToString", Calls("(*bytes.Buffer).String"), "huffmanDecode(Get(http2/hpack.bufPool).(*bytes.Buffer),0,$0) != nil")
	c.Before(hpH+"HuffmanDecode", Calls("(*bytes.Buffer).Reset"), Calls(hd))
	c.Before(hpH+"HuffmanDecodeToString", Calls("(*bytes.Buffer).Reset"), Calls(hd))
	c.Before(hpD+"decodeString", Calls("(*bytes.Buffer).Reset"), Calls(hd))
}

// tableIndex returns the rendered index when v reads table[...] (huffmanCodes or huffmanCodeLen), through conversions.
func tableIndex(v ssa.Value, table string) (string, bool) {
	for {
		switch x := v.(type) {
		case *ssa.Convert:
			v = x.X
			continue
		case *ssa.UnOp:
			if x.Op == token.MUL {
				if ia, ok := x.X.(*ssa.IndexAddr); ok && Term(ia.X) == "&"+hpH+table || ok && Term(ia.X) == hpH+table {
					return Term(ia.Index), true
				}
			}
		case *ssa.Index:
			if Term(x.X) == hpH+table {
				return Term(x.Index), true
			}
		}
		return "", false
	}
}

func c04Encoder(c *Ctx, h *hpHuff) {
	rule := "huffman-encoder"
	ahs := c.MustFn(hpH + "AppendHuffmanString")
	hel := c.MustFn(hpH + "HuffmanEncodeLength")
	if ahs == nil || hel == nil {
		return
	}
	// table accesses use the input byte
	for _, f := range []struct {
		fn    *ssa.Function
		param string
		want  map[string]int
	}{{ahs, "$1[", map[string]int{"huffmanCodes": 1, "huffmanCodeLen": 1}}, {hel, "$0[", map[string]int{"huffmanCodeLen": 1}}} {
		seen := map[string]int{}
		idx := map[string]bool{}
		HxEachInstr(f.fn, func(in ssa.Instruction) {
			if v, ok := in.(ssa.Value); ok {
				for t := range f.want {
					if i, ok := tableIndex(v, t); ok {
						if _, conv := v.(*ssa.Convert); conv {
							return
						}
						seen[t]++
						idx[i] = true
					}
				}
			}
		})
		why := ""
		for t, n := range f.want {
			if seen[t] < n {
				why = "no read of " + t
			}
		}
		if len(idx) != 1 {
			why = fmt.Sprintf("tables are indexed with %d different expressions", len(idx))
		}
		for i := range idx {
			if !strings.HasPrefix(i, f.param) {
				why = "table index `" + i + "` is not a byte of the input string"
			}
		}
		c.Check(why == "", rule, FnName(f.fn)+": code and length are looked up with the same input byte", f.fn.Pos(), "", why)
	}
	// x = x<<len | code ; n += len
	shiftOr, addLen := false, false
	HxEachInstr(ahs, func(in ssa.Instruction) {
		b, ok := in.(*ssa.BinOp)
		if !ok {
			return
		}
		switch b.Op {
		case token.OR:
			if _, isCode := tableIndex(b.Y, "huffmanCodes"); isCode {
				if sh, ok := b.X.(*ssa.BinOp); ok && sh.Op == token.SHL {
					amt := sh.Y
					if r, ok := amt.(*ssa.BinOp); ok && r.Op == token.REM {
						if k, ok := (&HxEval{}).Value(r.Y); ok && k >= 32 {
							amt = r.X
						}
					}
					if _, isLen := tableIndex(amt, "huffmanCodeLen"); isLen {
						shiftOr = true
					}
				}
			}
		case token.ADD:
			if _, isLen := tableIndex(b.Y, "huffmanCodeLen"); isLen {
				if _, isPhi := b.X.(*ssa.Phi); isPhi {
					addLen = true
				}
			}
		}
	})
	c.Check(shiftOr, rule, "AppendHuffmanString shifts the buffer by the code length and ORs the code in", ahs.Pos(), "", "no x<<len | code step found")
	c.Check(addLen, rule, "AppendHuffmanString adds the code length to the pending bit count", ahs.Pos(), "", "no n += len step found")
	// flush threshold
	var thr int64 = -1
	var flushIf *ssa.If
	HxEachInstr(ahs, func(in ssa.Instruction) {
		ifi, ok := in.(*ssa.If)
		if !ok {
			return
		}
		a := CondAtom(ifi.Cond)
		if a.Kind != LE || a.L.K <= 0 {
			return
		}
		for t, cf := range a.L.Coef {
			if cf == -1 && strings.HasPrefix(t, hpH+"huffmanCodeLen[") {
				thr, flushIf = a.L.K, ifi
			}
		}
	})
	if thr < 0 {
		c.Undecided(rule, "AppendHuffmanString flush threshold", "no branch `n + len >= T` found")
	} else {
		nbytes := int64(-1)
		for _, in := range flushIf.Block().Succs[0].Instrs {
			if call, ok := in.(*ssa.Call); ok {
				if b, ok := call.Call.Value.(*ssa.Builtin); ok && b.Name() == "append" && len(BaselineArgs(&call.Call)) == 2 {
					if sl, ok := BaselineArgs(&call.Call)[1].(*ssa.Slice); ok {
						if pt, ok := sl.X.Type().Underlying().(*types.Pointer); ok {
							if at, ok := pt.Elem().Underlying().(*types.Array); ok {
								nbytes = at.Len()
							}
						}
					}
				}
			}
		}
		rems := binConsts(ahs, token.REM, nil)
		hasRem := false
		for _, r := range rems {
			if r == thr {
				hasRem = true
			}
		}
		c.Check(nbytes*8 == thr && hasRem, rule, "AppendHuffmanString flushes threshold/8 bytes and keeps n mod threshold bits", ahs.Pos(), fmt.Sprintf("threshold %d bits, %d bytes", thr, nbytes),
			fmt.Sprintf("threshold %d bits, %d bytes appended, modulus constants %v", thr, nbytes, rems))
		if h != nil {
			c.Check(h.maxLen+thr-1 <= 64, rule, "longest code plus pending bits fits the 64-bit buffer", ahs.Pos(), fmt.Sprintf("%d + %d <= 64", h.maxLen, thr-1), fmt.Sprintf("%d + %d > 64", h.maxLen, thr-1))
		}
	}
	// padding
	if h != nil && h.eosLen >= 8 {
		top := h.eosCode >> uint(h.eosLen-8)
		var pads []int64
		HxEachInstr(ahs, func(in ssa.Instruction) {
			if b, ok := in.(*ssa.BinOp); ok && b.Op == token.SHR {
				if k, ok := b.X.(*ssa.Const); ok {
					if v, ok := (&HxEval{}).Value(k); ok {
						pads = append(pads, v)
					}
				}
			}
		})
		c.Check(len(pads) == 1 && pads[0] == top, rule, "padding byte is the top 8 bits of the unused (EOS) codeword", ahs.Pos(), fmt.Sprintf("%#02x", top), fmt.Sprintf("padding constants %v, EOS top byte %#02x", pads, top))
		// named local constants, when present
		pk := c.P.PkgOfFn(ahs)
		vals := map[string]int64{}
		for id, obj := range pk.TypesInfo.Defs {
			if k, ok := obj.(*types.Const); ok && ahs.Syntax() != nil && id.Pos() >= ahs.Syntax().Pos() && id.Pos() <= ahs.Syntax().End() {
				if v, ok := IntOf(pk, id); ok {
					vals[k.Name()] = v
				} else if iv, ok := constInt(k); ok {
					vals[k.Name()] = iv
				}
			}
		}
		code, ok1 := vals["eosCode"]
		nb, ok2 := vals["eosNBits"]
		if ok1 && ok2 {
			c.Check(code == h.eosCode && nb == h.eosLen, rule, "eosCode/eosNBits equal the table's unused codeword", ahs.Pos(), "", fmt.Sprintf("eosCode %#x/%d, table leaves %#x/%d", code, nb, h.eosCode, h.eosLen))
		} else {
			c.Note("AppendHuffmanString has no local constants named eosCode/eosNBits; only the padding byte was compared")
		}
	}
	// HuffmanEncodeLength = (sum + 7) / 8
	why := "no return"
	for _, in := range Returns().F(c.P, hel) {
		why = "result is `" + Term(in.(*ssa.Return).Results[0]) + "`, expected (sum of code lengths + 7) / 8"
		q, ok := in.(*ssa.Return).Results[0].(*ssa.BinOp)
		if !ok || q.Op != token.QUO {
			break
		}
		a, ok := q.X.(*ssa.BinOp)
		d, okd := (&HxEval{}).Value(q.Y)
		if !ok || a.Op != token.ADD || !okd || d != 8 {
			break
		}
		k, okk := (&HxEval{}).Value(a.Y)
		ph, isPhi := a.X.(*ssa.Phi)
		if !okk || k != 7 || !isPhi {
			break
		}
		acc := false
		for _, e := range ph.Edges {
			if s, ok := e.(*ssa.BinOp); ok && s.Op == token.ADD && s.X == ph {
				if _, isLen := tableIndex(s.Y, "huffmanCodeLen"); isLen {
					acc = true
				}
			}
		}
		if acc {
			why = ""
		}
	}
	c.Check(why == "", rule, "HuffmanEncodeLength returns (sum of code lengths + 7) / 8", hel.Pos(), "", why)
}

func constInt(k *types.Const) (int64, bool) {
	return (&HxEval{}).Value(ssa.NewConst(k.Val(), k.Type()))
}

var (
	reDescend = regexp.MustCompile(`^\(http2/hpack\.huffmanCodes\[(.+)\]>>\((.+)-8\)\)$`)
	reOne     = regexp.MustCompile(`^\(1<<\(8-(.+)\)\)$`)
	reStart   = regexp.MustCompile(`^\(http2/hpack\.huffmanCodes\[(.+)\]<<\(8-(.+)\)\)$`)
	reHigh    = regexp.MustCompile(`^\(.+>>\(.+-8\)\)$`)
	reLow     = regexp.MustCompile(`^\(.+<<\(8-.+\)\)$`)
)

func isChildrenArray(v ssa.Value) bool {
	u, ok := v.(*ssa.UnOp)
	if !ok || u.Op != token.MUL {
		return false
	}
	fa, ok := u.X.(*ssa.FieldAddr)
	return ok && strings.HasSuffix(Term(fa), ".children")
}

func c04Build(c *Ctx) {
	rule := "huffman-tree"
	name := hpH + "buildRootHuffmanNode"
	fn := c.MustFn(name)
	if fn == nil {
		return
	}
	// symbol index
	sym := ""
	HxEachInstr(fn, func(in ssa.Instruction) {
		if v, ok := in.(ssa.Value); ok {
			if i, ok := tableIndex(v, "huffmanCodeLen"); ok {
				if _, conv := v.(*ssa.Convert); !conv {
					sym = i
				}
			}
		}
	})
	if sym == "" {
		c.Undecided(rule, name, "no read of huffmanCodeLen[sym]")
		return
	}
	// leaf fields
	var lenPhi *ssa.Phi
	why := ""
	sts := Stores("http2/hpack.node.codeLen").F(c.P, fn)
	if len(sts) != 1 {
		why = fmt.Sprintf("%d stores to node.codeLen", len(sts))
	} else if ph, ok := sts[0].(*ssa.Store).Val.(*ssa.Phi); !ok {
		why = "leaf codeLen is `" + Term(sts[0].(*ssa.Store).Val) + "`, not the length reduced modulo whole bytes"
	} else {
		lenPhi = ph
		fromTable, reduced := false, false
		for _, e := range ph.Edges {
			if i, ok := tableIndex(e, "huffmanCodeLen"); ok && i == sym {
				fromTable = true
			}
			if s, ok := e.(*ssa.BinOp); ok && s.Op == token.SUB && s.X == ph {
				if k, ok := (&HxEval{}).Value(s.Y); ok && k == 8 {
					reduced = true
				}
			}
		}
		if !fromTable || !reduced {
			why = "leaf codeLen does not start at huffmanCodeLen[sym] and drop by 8 per level"
		}
	}
	c.Check(why == "", rule, "leaf codeLen is the table length reduced by 8 per tree level", fn.Pos(), "", why)
	if lenPhi != nil {
		a, err := c.P.ParseAtom(Term(lenPhi) + " > 8")
		ok := false
		if err == nil {
			HxEachInstr(fn, func(in ssa.Instruction) {
				if ifi, isIf := in.(*ssa.If); isIf && ifi.Cond.(ssa.Value) != nil {
					if b, isB := ifi.Cond.(*ssa.BinOp); isB && (b.X == lenPhi || b.Y == lenPhi) && SameAtom(CondAtom(ifi.Cond), a) {
						ok = true
					}
				}
			})
		}
		c.Check(ok, rule, "descent continues exactly while more than 8 bits remain", fn.Pos(), "", "no loop condition `remaining length > 8`")
	}
	sts = Stores("http2/hpack.node.sym").F(c.P, fn)
	c.Check(len(sts) == 1 && Term(sts[0].(*ssa.Store).Val) == sym, rule, "leaf sym is the table index", fn.Pos(), "", "node.sym is not set to the symbol index "+sym)
	// index expressions into children arrays
	descend, fill := 0, 0
	badIdx := ""
	var fillStores []*ssa.Store
	HxEachInstr(fn, func(in ssa.Instruction) {
		ia, ok := in.(*ssa.IndexAddr)
		if !ok || !isChildrenArray(ia.X) {
			return
		}
		t := Term(ia.Index)
		if m := reDescend.FindStringSubmatch(t); m != nil && m[1] == sym && lenPhi != nil && m[2] == Term(lenPhi) {
			descend++
			return
		}
		if _, isPhi := ia.Index.(*ssa.Phi); isPhi {
			fill++
			for _, r := range *ia.Referrers() {
				if st, ok := r.(*ssa.Store); ok && st.Addr == ia {
					fillStores = append(fillStores, st)
				}
			}
			return
		}
		badIdx = t
	})
	c.Check(descend >= 1 && badIdx == "", rule, "internal levels are selected by code >> (remaining length - 8)", fn.Pos(), "", fmt.Sprintf("%d matching index expressions; unexpected index `%s`", descend, badIdx))
	why = ""
	if len(fillStores) != 1 {
		why = fmt.Sprintf("%d leaf stores into children[i]", len(fillStores))
	} else {
		st := fillStores[0]
		if lv, ok := st.Val.(*ssa.IndexAddr); !ok || Term(lv.Index) != sym {
			why = "children[i] receives `" + Term(st.Val) + "`, not the leaf of symbol " + sym
		}
		// loop bounds: i from start to start + (1 << shift)
		ph := st.Addr.(*ssa.IndexAddr).Index.(*ssa.Phi)
		boundOK, startOK := false, false
		HxEachInstr(fn, func(in ssa.Instruction) {
			ifi, ok := in.(*ssa.If)
			if !ok {
				return
			}
			b, ok := ifi.Cond.(*ssa.BinOp)
			if !ok || b.X != ph || b.Op != token.LSS {
				return
			}
			l := Linearize(b.Y)
			var one, start string
			for t, cf := range l.Coef {
				if cf != 1 {
					return
				}
				if m := reOne.FindStringSubmatch(t); m != nil {
					one = m[1]
				} else if m := reStart.FindStringSubmatch(t); m != nil && m[1] == sym {
					start = m[2]
				}
			}
			if len(l.Coef) == 2 && l.K == 0 && one != "" && one == start && lenPhi != nil && one == Term(lenPhi) {
				boundOK = true
			}
		})
		for _, e := range ph.Edges {
			if m := reStart.FindStringSubmatch(Term(e)); m != nil && m[1] == sym && lenPhi != nil && m[2] == Term(lenPhi) {
				// the start must be truncated to a byte
				if cv, ok := e.(*ssa.Convert); ok {
					if inner, ok := cv.X.(*ssa.Convert); ok {
						if bt, ok := inner.Type().Underlying().(*types.Basic); ok && bt.Kind() == types.Uint8 {
							startOK = true
						}
					}
				}
			}
		}
		if why == "" && !boundOK {
			why = "the fill loop does not run up to (code << (8-len)) + (1 << (8-len))"
		}
		if why == "" && !startOK {
			why = "the fill loop does not start at uint8(code << (8-len))"
		}
	}
	c.Check(why == "", rule, "a leaf fills children[uint8(code<<(8-len)) .. +(1<<(8-len)))", fn.Pos(), "", why)
}

func c04Decoder(c *Ctx) {
	rule := "huffman-decoder"
	name := hpH + "huffmanDecode"
	fn := c.MustFn(name)
	if fn == nil {
		return
	}
	// child pointers loaded from a children array
	var kids []*ssa.UnOp
	hi, lo := 0, 0
	HxEachInstr(fn, func(in ssa.Instruction) {
		u, ok := in.(*ssa.UnOp)
		if !ok || u.Op != token.MUL {
			return
		}
		ia, ok := u.X.(*ssa.IndexAddr)
		if !ok || !isChildrenArray(ia.X) {
			return
		}
		kids = append(kids, u)
		t := Term(ia.Index)
		if reHigh.MatchString(t) {
			hi++
		} else if reLow.MatchString(t) {
			lo++
		}
	})
	c.Check(len(kids) == 2 && hi == 1 && lo == 1, rule, "children are selected by the top 8 pending bits (cur>>(cbits-8) in the byte loop, cur<<(8-cbits) for the tail)", fn.Pos(), "",
		fmt.Sprintf("%d child loads, %d of the form x>>(n-8), %d of the form x<<(8-n)", len(kids), hi, lo))
	why := ""
	for _, k := range kids {
		kt := Term(k)
		nonNil, err := c.P.ParseAtom(kt + " != nil")
		if err != nil {
			why = err.Error()
			break
		}
		tested := false
		HxEachInstr(fn, func(in ssa.Instruction) {
			ifi, ok := in.(*ssa.If)
			if !ok {
				return
			}
			b, ok := ifi.Cond.(*ssa.BinOp)
			if !ok || (b.X != k && b.Y != k) {
				return
			}
			a := CondAtom(ifi.Cond)
			var nilSucc *ssa.BasicBlock
			if SameAtom(a, nonNil) {
				nilSucc = ifi.Block().Succs[1]
			} else if SameAtom(a.Negate(), nonNil) {
				nilSucc = ifi.Block().Succs[0]
			} else {
				return
			}
			tested = true
			last := nilSucc.Instrs[len(nilSucc.Instrs)-1]
			if r, ok := last.(*ssa.Return); !ok || Term(r.Results[0]) == "nil" {
				why = "a missing child does not lead directly to an error return"
			}
		})
		if !tested {
			why = "child pointer `" + kt + "` is never compared with nil"
		}
		for _, r := range *k.Referrers() {
			if fa, ok := r.(*ssa.FieldAddr); ok && fa.X == k {
				ok := false
				for _, f := range FactsAt(fa.Block()) {
					if SameAtom(f.Atom, nonNil) {
						ok = true
					}
				}
				if !ok {
					why = "field `" + Term(fa)[1:] + "` is read without a dominating nil test"
				}
			}
		}
	}
	c.Check(why == "" && len(kids) > 0, rule, "every child pointer is nil-checked (error return) before use", fn.Pos(), fmt.Sprintf("%d child loads", len(kids)), why)

	// WriteByte sites
	wb := Calls("(*bytes.Buffer).WriteByte").F(c.P, fn)
	why = ""
	if len(wb) != 2 {
		why = fmt.Sprintf("%d WriteByte sites", len(wb))
	}
	for _, in := range wb {
		arg := Term(BaselineArgs(&in.(*ssa.Call).Call)[1])
		if !strings.HasSuffix(arg, ".sym") {
			why = "WriteByte writes `" + arg + "`, not a leaf symbol"
			break
		}
		node := strings.TrimSuffix(arg, ".sym")
		leaf, err := c.P.ParseAtom(node + ".children == nil")
		if err != nil {
			why = err.Error()
			break
		}
		isLeaf, enough, consumed := false, false, false
		for _, f := range FactsAtInstr(in) {
			if SameAtom(f.Atom, leaf) {
				isLeaf = true
			}
			a := f.Atom
			if a.Kind == LE && len(a.L.Coef) == 1 && a.L.K == 8 {
				for _, cf := range a.L.Coef {
					if cf == -1 {
						enough = true // at least 8 pending bits
					}
				}
			}
			if a.Kind == LE && len(a.L.Coef) == 2 && a.L.K == 0 && a.L.Coef[node+".codeLen"] == 1 {
				enough = true // codeLen <= pending bits
			}
		}
		// path statement: from the WriteByte site every path to the next symbol (the next child load or WriteByte)
		// or to an accepting return passes `pending -= node.codeLen`; error returns are excepted.
		stops := map[ssa.Instruction]bool{}
		for _, k := range kids {
			stops[k] = true
		}
		for _, w := range wb {
			stops[w] = true
		}
		consumedWhy := c04ConsumedAfter(in, node+".codeLen", stops)
		consumed = consumedWhy == ""
		switch {
		case !isLeaf:
			why = "WriteByte is not guarded by children == nil of the same node"
		case !enough:
			why = "WriteByte is reachable with fewer pending bits than the leaf's codeLen"
		case !consumed:
			why = "codeLen bits are not consumed after WriteByte (" + consumedWhy + ")"
		}
	}
	c.Check(why == "", rule, "a symbol is emitted only for a leaf with enough pending bits, then codeLen bits are consumed", fn.Pos(), fmt.Sprintf("%d sites", len(wb)), why)

	// accepting return
	rets := RetOK().F(c.P, fn)
	why = ""
	if len(rets) == 0 {
		why = "no nil return"
	}
	for _, in := range rets {
		over, maskOK := false, false
		for _, f := range FactsAtInstr(in) {
			a := f.Atom
			if a.Kind == LE && len(a.L.Coef) == 1 && a.L.K == -7 {
				for _, cf := range a.L.Coef {
					if cf == 1 {
						over = true
					}
				}
			}
			if a.Kind == EQ {
				if b, ok := f.If.Cond.(*ssa.BinOp); ok && (b.Op == token.NEQ || b.Op == token.EQL) {
					and, m := b.X, b.Y
					if ab, ok := and.(*ssa.BinOp); ok && ab.Op == token.AND && (ab.Y == m || ab.X == m) {
						if sub, ok := m.(*ssa.BinOp); ok && sub.Op == token.SUB {
							one, _ := (&HxEval{}).Value(sub.Y)
							if sh, ok := sub.X.(*ssa.BinOp); ok && sh.Op == token.SHL && one == 1 {
								if k, ok := (&HxEval{}).Value(sh.X); ok && k == 1 {
									maskOK = true
								}
							}
						}
					}
				}
			}
		}
		if !over {
			why = "a nil return is reachable without the `more than 7 pending symbol bits` rejection"
		} else if !maskOK {
			why = "a nil return is reachable without the test cur & (1<<cbits - 1) == (1<<cbits - 1)"
		}
	}
	c.Check(why == "", rule, "acceptance requires at most 7 leftover bits, all ones", fn.Pos(), fmt.Sprintf("%d nil return(s)", len(rets)), why)
}

// c04ConsumedAfter walks every path that starts right after instruction `from`. A path is fine when it passes a
// subtraction `x - <lenTerm>` whose result is used (the pending-bit count is reduced by the code length) or ends in an
// error return. It is not fine when it reaches one of the `stops` instructions (the next symbol is looked up or written)
// or an accepting (nil) return first. The empty string means every path is fine.
func c04ConsumedAfter(from ssa.Instruction, lenTerm string, stops map[ssa.Instruction]bool) string {
	type start struct {
		b *ssa.BasicBlock
		i int
	}
	fb := from.Block()
	idx := -1
	for i, x := range fb.Instrs {
		if x == from {
			idx = i
		}
	}
	if idx < 0 {
		return "site not found in its block"
	}
	seen := map[*ssa.BasicBlock]bool{}
	work := []start{{fb, idx + 1}}
	for len(work) > 0 {
		w := work[len(work)-1]
		work = work[:len(work)-1]
		done := false
		for _, x := range w.b.Instrs[w.i:] {
			if b, ok := x.(*ssa.BinOp); ok && b.Op == token.SUB && Term(b.Y) == lenTerm && b.Referrers() != nil && len(*b.Referrers()) > 0 {
				done = true
				break
			}
			if stops[x] {
				return "the next symbol is reached without the subtraction"
			}
			if r, ok := x.(*ssa.Return); ok {
				if len(r.Results) == 0 || Term(r.Results[len(r.Results)-1]) == "nil" {
					return "an accepting return is reached without the subtraction"
				}
				done = true
				break
			}
			if _, ok := x.(*ssa.Panic); ok {
				done = true
				break
			}
		}
		if done {
			continue
		}
		for _, s := range w.b.Succs {
			if !seen[s] {
				seen[s] = true
				work = append(work, start{s, 0})
			}
		}
	}
	return ""
}
