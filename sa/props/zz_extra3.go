package props

// Supplementary rules added after the third round of seeded changes (seeded/<id>-3).

import (
	"fmt"
	"strings"
	"go/token"
	"go/types"

	"golang.org/x/tools/go/ssa"

	. "verif/sa/core"
)

func stripConvs(v ssa.Value) ssa.Value {
	for {
		switch x := v.(type) {
		case *ssa.Convert:
			v = x.X
			continue
		case *ssa.ChangeType:
			v = x.X
			continue
		}
		return v
	}
}

func init() {
	// C11-3 (stream-level WINDOW_UPDATE nested under sendConn > 0): what inflow.add hands back is the amount by
	// which the enforced window was enlarged; it has to be advertised whenever it is positive, whatever the other window did.
	ExtraClause("C11", "Also: in the Transport's processData every positive amount returned by an inflow.add is written as a WINDOW_UPDATE on every path to the return (enforced window = advertised window).")
	RegisterExtra("C11", func(c *Ctx) {
		const name = "(*http2.clientConnReadLoop).processData"
		fn := c.MustFn(name)
		if fn == nil {
			return
		}
		wus := Calls("(*http2.Framer).WriteWindowUpdate").F(c.P, fn)
		adds := Calls("(*http2.inflow).add").F(c.P, fn)
		rets := map[ssa.Instruction]bool{}
		for _, r := range HcNormalReturns().F(c.P, fn) {
			rets[r] = true
		}
		n := 0
		for _, a := range adds {
			call := a.(*ssa.Call)
			// the window updates that carry this add's result
			via := map[ssa.Instruction]bool{}
			var amount ssa.Value
			for _, w := range wus {
				arg := stripConvs(BaselineArgs(w.(ssa.CallInstruction).Common())[2])
				if DependsOn(arg, func(v ssa.Value) bool { return v == ssa.Value(call) }) {
					via[w] = true
					amount = arg
				}
			}
			construct := fmt.Sprintf("%s: the amount returned by `%s` is advertised whenever it is positive", name, DescribeInstr(a))
			if len(via) == 0 {
				c.Fail("advertised-equals-enforced", construct, a.Pos(), "no WriteWindowUpdate carries this amount")
				continue
			}
			n++
			pos := LEZero(Linearize(amount).Sub(Linearize(amount)).Sub(Linearize(amount)).AddK(1)) // -amount + 1 <= 0
			r, reach := ReachableUnderFrom(fn, a, []Atom{pos}, rets, via)
			where := ""
			if reach {
				where = c.P.Pos(r.Pos())
			}
			c.Check(!reach, "advertised-equals-enforced", construct, a.Pos(), fmt.Sprintf("%d update site(s)", len(via)),
				"with "+Term(amount)+" > 0 the return at "+where+" is reached without the WINDOW_UPDATE: the peer may not use window that is enforced as open (or the reverse)")
		}
		if n == 0 {
			c.Undecided("advertised-equals-enforced", name, "no inflow.add / WriteWindowUpdate pair found")
		}
	})

	// C12-3 (the recursive walk ranges over the shared scratch slice that the recursion overwrites).
	ExtraClause("C12", "Also: the RFC 7540 tree walk recurses into nodes taken from the tree links (kids/next), never from the shared scratch slice.")
	RegisterExtra("C12", func(c *Ctx) {
		const name = "(*http2.priorityNodeRFC7540).walkReadyInOrder"
		fn := c.MustFn(name)
		if fn == nil || len(fn.Params) < 3 {
			return
		}
		tmp := fn.Params[2]
		c.ArgNotFrom(name, Calls(name), 0, "an element of the scratch slice *tmp", func(v ssa.Value) bool {
			// a load through the tmp parameter: *tmp, (*tmp)[i]
			u, ok := v.(*ssa.UnOp)
			return ok && u.Op == token.MUL && u.X == ssa.Value(tmp)
		})
	})

	// C13-3 (the incremental/non-incremental toggle moved above the control-frame return).
	ExtraClause("C13", "Also: Pop flips prioritizeIncremental only when it goes on to serve a stream queue, not when it returns a control frame.")
	RegisterExtra("C13", func(c *Ctx) {
		const name = "(*http2.priorityWriteSchedulerRFC9218).Pop"
		c.NeverAfter(name, Stores("http2.priorityWriteSchedulerRFC9218.prioritizeIncremental"), Calls("(*http2.writeQueue).shift").ArgIs(0, "&$r.control"), false)
	})

	// C15-3 (`>` became `>=` in the post-GOAWAY discard test): frames on streams the GOAWAY still covers are processed.
	ExtraClause("C15", "Also: after a graceful GOAWAY (NO_ERROR) processFrame discards only frames with a stream id above maxClientStreamID; a frame on the last accepted stream (or on stream 0) is still dispatched.")
	RegisterExtra("C15", func(c *Ctx) {
		const name = "(*http2.serverConn).processFrame"
		fn := c.MustFn(name)
		if fn == nil {
			return
		}
		// the dispatch: the type switch on the frame, i.e. the calls of the per-type process* methods
		var dispatch []ssa.Instruction
		for _, b := range fn.Blocks {
			for _, in := range b.Instrs {
				if ci, ok := in.(ssa.CallInstruction); ok {
					if n := CalleeName(ci.Common()); strings.HasPrefix(n, "(*http2.serverConn).process") {
						dispatch = append(dispatch, in)
					}
				}
			}
		}
		if len(dispatch) < 8 {
			c.Undecided("graceful-goaway-dispatch", name, fmt.Sprintf("%d process* call sites found", len(dispatch)))
			return
		}
		// under inGoAway, goAwayCode == 0 and StreamID <= maxClientStreamID the discard return is not taken:
		// every normal return is preceded by a dispatch call or is an error return of the type switch
		ok, as := true, []Atom{}
		for _, s := range []string{"$r.inGoAway", "$r.goAwayCode == 0", ".Header($0).StreamID <= $r.maxClientStreamID"} {
			a, err := c.P.ParseAtom(s)
			if err != nil {
				ok = false
			}
			as = append(as, a)
		}
		if !ok {
			c.Undecided("graceful-goaway-dispatch", name, "spec not parsable")
			return
		}
		// the discard path is the one that reaches inflow.take / sendWindowUpdate without dispatching
		discard := Union(Calls("(*http2.inflow).take"), Calls("(*http2.serverConn).sendWindowUpdate")).F(c.P, fn)
		targets := map[ssa.Instruction]bool{}
		for _, d := range discard {
			targets[d] = true
		}
		// plus a nil return that is not preceded by a dispatch
		for _, r := range RetOK().F(c.P, fn) {
			targets[r] = true
		}
		barriers := map[ssa.Instruction]bool{}
		for _, d := range dispatch {
			barriers[d] = true
		}
		// returns inside the dispatch region are behind a barrier; the default case (unknown frame type) returns nil
		// without a process call, so it is excluded by assuming a known type is impossible to state: accept the
		// default-case return by requiring only that the DISCARD sites are unreachable
		for _, r := range RetOK().F(c.P, fn) {
			delete(targets, r)
		}
		t, reach := ReachableUnderFrom(fn, nil, as, targets, barriers)
		where := ""
		if reach {
			where = DescribeInstr(t) + " at " + c.P.Pos(t.Pos())
		}
		c.Check(!reach && len(discard) > 0, "graceful-goaway-dispatch", name+": with goAwayCode == NO_ERROR and StreamID <= maxClientStreamID the frame is not discarded", fn.Pos(),
			fmt.Sprintf("%d discard site(s), %d dispatch site(s)", len(discard), len(dispatch)), "the discard path ("+where+") is reachable for a frame on a stream the GOAWAY still covers")
	})

	// C16-3 (the code upgrade restricted to "GOAWAY not yet written").
	ExtraClause("C16", "Also: whenever goAway is called during a graceful (NO_ERROR) GOAWAY the new code is recorded, on every path.")
	RegisterExtra("C16", func(c *Ctx) {
		c.PassesUnder("(*http2.serverConn).goAway", Entry(), Stores("http2.serverConn.goAwayCode").StoredIs("$0"), "$r.inGoAway", "$r.goAwayCode == 0")
	})

	// C19-3 (FIN decided before the frame was clamped to connection flow control).
	ExtraClause("C19", "Also: the FIN bit handed to appendStreamFrame is computed from the same (clamped) size that is handed to it.")
	RegisterExtra("C19", func(c *Ctx) {
		const name = "(*quic.Stream).appendOutFramesLocked"
		fn := c.MustFn(name)
		if fn == nil {
			return
		}
		sites := Calls("(*quic.packetWriter).appendStreamFrame").F(c.P, fn)
		if len(sites) == 0 {
			c.Undecided("fin-of-sent-range", name, "no such site in this function")
			return
		}
		for _, in := range sites {
			args := BaselineArgs(in.(ssa.CallInstruction).Common())
			if len(args) < 5 {
				c.Undecided("fin-of-sent-range", name, "unexpected appendStreamFrame arity")
				return
			}
			size, fin := stripConvs(args[3]), args[4]
			isBool := func(t types.Type) bool { b, ok := t.Underlying().(*types.Basic); return ok && b.Info()&types.IsBoolean != 0 }
			c.Check(isBool(fin.Type()) && DependsOn(fin, func(v ssa.Value) bool { return v == size }), "fin-of-sent-range",
				name+": the fin argument of appendStreamFrame is derived from the size argument of the same call", in.Pos(), "",
				"fin `"+Term(fin)+"` does not depend on the size that is sent: a frame carrying only a prefix of the remaining data can be marked FIN")
		}
	})
}

func init() {
	// C21-3 (the enforced stream limit advanced without sending MAX_STREAMS).
	ExtraClause("C21", "Also: remoteStreamLimits.maybeUpdateMax raises the enforced limit only on a path that also schedules the MAX_STREAMS frame advertising it.")
	RegisterExtra("C21", func(c *Ctx) {
		c.CallAfter("(*quic.remoteStreamLimits).maybeUpdateMax", Stores("quic.remoteStreamLimits.max"), "(*quic.sentVal).setUnsent")
	})

	// C25-3 (per-range error collected in a variable that later ranges overwrite).
	ExtraClause("C25", "Also: the error of receiveAckRange is acted on (connection abort) in the same callback invocation that produced it, for every ACK range.")
	RegisterExtra("C25", func(c *Ctx) {
		const cb = "(*quic.Conn).handleAckFrame$1"
		fn := c.MustFn(cb)
		if fn == nil {
			return
		}
		// the call's error is tested in this very function and the non-nil edge aborts
		var nonNil []ssa.Instruction
		calls := Calls("(*quic.lossState).receiveAckRange").F(c.P, fn)
		for _, b := range fn.Blocks {
			if len(b.Instrs) == 0 {
				continue
			}
			ifi, ok := b.Instrs[len(b.Instrs)-1].(*ssa.If)
			if !ok {
				continue
			}
			bo, ok := ifi.Cond.(*ssa.BinOp)
			if !ok || (bo.Op != token.NEQ && bo.Op != token.EQL) {
				continue
			}
			for _, call := range calls {
				if bo.X == ssa.Value(call.(*ssa.Call)) || bo.Y == ssa.Value(call.(*ssa.Call)) {
					idx := 0
					if bo.Op == token.EQL {
						idx = 1
					}
					if s := b.Succs[idx]; len(s.Instrs) > 0 {
						nonNil = append(nonNil, s.Instrs[0])
					}
				}
			}
		}
		if len(calls) == 0 {
			c.Undecided("error-acted-on", cb, "no such site in this function")
			return
		}
		if !c.Check(len(nonNil) == len(calls), "error-acted-on", cb+": the error of receiveAckRange is tested in the callback that produced it", fn.Pos(), "",
			"the result is not compared with nil here (a later range can overwrite it before anyone looks)") {
			return
		}
		c.CallAfterIncl(cb, Sel{Name: "receiveAckRange(...) != nil", F: func(*Prog, *ssa.Function) []ssa.Instruction { return nonNil }}, "(*quic.Conn).abort")
	})

	// C27-3 (bulk padding with the added size computed after the append, i.e. always 0).
	ExtraClause("C27", "Also: whatever maybeSend appends to the datagram as Initial padding is added to sentInitial.size (same amount, evaluated against the same buffer length).")
	RegisterExtra("C27", func(c *Ctx) {
		const name = "(*quic.Conn).maybeSend"
		fn := c.MustFn(name)
		if fn == nil {
			return
		}
		n := 0
		for _, in := range Stores("quic.sentPacket.size").F(c.P, fn) {
			st := in.(*ssa.Store)
			add, ok := st.Val.(*ssa.BinOp)
			if !ok || add.Op != token.ADD {
				continue
			}
			n++
			delta := Linearize(add.Y)
			if _, isLoad := add.X.(*ssa.UnOp); !isLoad {
				delta = Linearize(add.X)
			}
			// an append in the same block (or the block of the enclosing test) whose appended length is delta
			found, seenAppend := false, ""
			for _, b := range fn.Blocks {
				if b != in.Block() && !b.Dominates(in.Block()) {
					continue
				}
				for _, x := range b.Instrs {
					call, isCall := x.(*ssa.Call)
					if !isCall {
						continue
					}
					if bi, isB := call.Call.Value.(*ssa.Builtin); !isB || bi.Name() != "append" || len(call.Call.Args) != 2 {
						continue
					}
					var l Lin
					switch a := call.Call.Args[1].(type) {
					case *ssa.Slice:
						al, isAl := a.X.(*ssa.Alloc)
						if !isAl {
							continue
						}
						at, isArr := al.Type().Underlying().(*types.Pointer).Elem().Underlying().(*types.Array)
						if !isArr {
							continue
						}
						l = Lin{Coef: map[string]int64{}, K: at.Len()}
					case *ssa.MakeSlice:
						l = Linearize(a.Len)
					default:
						continue
					}
					seenAppend = l.String()
					if d := l.Sub(delta); d.IsConst() && d.K == 0 {
						found = true
					}
				}
			}
			c.Check(found, "padding-accounted", name+": the amount added to sentInitial.size equals the number of bytes appended as padding", in.Pos(), "",
				"size grows by "+delta.String()+" but the padding appended is "+seenAppend+": padding bytes are sent without being charged to the anti-amplification budget")
		}
		if n == 0 {
			c.Undecided("padding-accounted", name, "no increment of sentPacket.size found")
		}
	})

	// C37-3 (the header-then-skip fast path rejects a record that ends exactly at the end of the message).
	ExtraClause("C37", "Also: Parser.skipResource's fast path accepts every record whose end offset is <= len(msg), like the parse methods and func skipResource.")
	RegisterExtra("C37", func(c *Ctx) {
		c.Reject("(*dns/dnsmessage.Parser).skipResource", RetTerm(0, "dns/dnsmessage.errResourceLen"), "$r.resHeaderValid", "$r.off + $r.resHeaderLength <= len($r.msg)")
	})

	// C39-3 (span fix-up after buffer compaction skipped when nothing was copied).
	ExtraClause("C39", "Also: when Tokenizer.readByte compacts the buffer and raw.start != 0, the data/attribute spans are shifted on every path.")
	RegisterExtra("C39", func(c *Ctx) {
		const name = "(*html.Tokenizer).readByte"
		copies := Sel{Name: "buffer compaction copy", F: func(p *Prog, fn *ssa.Function) []ssa.Instruction {
			var out []ssa.Instruction
			for _, b := range fn.Blocks {
				for _, in := range b.Instrs {
					if call, ok := in.(*ssa.Call); ok {
						if bi, isB := call.Call.Value.(*ssa.Builtin); isB && bi.Name() == "copy" {
							out = append(out, in)
						}
					}
				}
			}
			return out
		}}
		c.PassesUnder(name, copies, StoresTo("$r.data.start"), "$r.raw.start != 0")
	})
}

func init() {
	// C46-3 (Rename unlinks the source before the destination has been validated and forgets to restore it on one error path).
	ExtraClause("C46", "Also: memFS.Rename removes the source entry only after every failure exit: no error return is reachable after the delete.")
	RegisterExtra("C46", func(c *Ctx) {
		const name = "(*webdav.memFS).Rename"
		errRets := Sel{Name: "return <non-nil error>", F: func(p *Prog, fn *ssa.Function) []ssa.Instruction {
			ok := map[ssa.Instruction]bool{}
			for _, r := range RetOK().F(p, fn) {
				ok[r] = true
			}
			var out []ssa.Instruction
			for _, r := range Returns().F(p, fn) {
				if !ok[r] {
					out = append(out, r)
				}
			}
			return out
		}}
		c.NeverAfter(name, Calls("builtin:delete"), errRets, false)
	})

	// C48-3 (the extension number of an ancillary load narrowed to 8 bits).
	ExtraClause("C48", "Also: RawInstruction.Disassemble never narrows K (no conversion of a value derived from ri.K to a type of fewer than 32 bits).")
	RegisterExtra("C48", func(c *Ctx) {
		const name = "(bpf.RawInstruction).Disassemble"
		fn := c.MustFn(name)
		if fn == nil {
			return
		}
		fromK := func(v ssa.Value) bool {
			return DependsOn(v, func(x ssa.Value) bool {
				switch f := x.(type) {
				case *ssa.Field:
					if st, ok := f.X.Type().Underlying().(*types.Struct); ok && f.Field < st.NumFields() {
						return st.Field(f.Field).Name() == "K"
					}
				case *ssa.UnOp:
					if fv := FieldOfAddr(f.X); fv != nil {
						return fv.Name() == "K"
					}
				}
				return false
			})
		}
		n, bad := 0, ""
		var pos token.Pos
		for _, b := range fn.Blocks {
			for _, in := range b.Instrs {
				cv, ok := in.(*ssa.Convert)
				if !ok || !fromK(cv.X) {
					continue
				}
				n++
				bt, _ := cv.Type().Underlying().(*types.Basic)
				if bt == nil {
					continue
				}
				switch bt.Kind() {
				case types.Uint8, types.Int8, types.Uint16, types.Int16:
					bad = "K is converted to " + cv.Type().String()
					pos = in.Pos()
				}
			}
		}
		if n == 0 {
			c.Undecided("k-not-narrowed", name, "no conversion of K found")
			return
		}
		c.Check(bad == "", "k-not-narrowed", name+": K is never narrowed below 32 bits", pos, fmt.Sprintf("%d conversion(s)", n), bad+": values that differ only in the dropped bits disassemble to the same instruction")
	})

	// C53-3 (the untrimmed list entry handed to AddHost).
	ExtraClause("C53", "Also: every entry PerHost.AddFromString registers (AddHost, AddZone, AddIP, AddNetwork) is derived from the whitespace-trimmed entry.")
	RegisterExtra("C53", func(c *Ctx) {
		const name = "(*proxy.PerHost).AddFromString"
		trimmed := IsCallTo("strings.TrimSpace")
		c.ArgFrom(name, Calls("(*proxy.PerHost).AddHost"), 1, "strings.TrimSpace(entry)", trimmed)
		c.ArgFrom(name, Calls("(*proxy.PerHost).AddZone"), 1, "strings.TrimSpace(entry)", trimmed)
	})

	// C56-3 (unescaped characters of a display string no longer fed to the incremental UTF-8 validator).
	ExtraClause("C56", "Also: every character consumeDisplayString accepts, escaped or literal, goes through the incremental UTF-8 validator (each loop iteration calls it).")
	RegisterExtra("C56", func(c *Ctx) {
		c.EveryCyclePasses("internal/httpsfv.consumeDisplayString", Calls("internal/httpsfv.consumeDisplayString$1", "internal/httpsfv.isPartOfValidRune"))
	})

	// C61-3 (pendingTime moved before the pending observations were merged into their bucket).
	ExtraClause("C61", "Also: timeSeries.AddWithTime merges the pending observations before it moves pendingTime.")
	RegisterExtra("C61", func(c *Ctx) {
		c.NeverAfter("(*internal/timeseries.timeSeries).AddWithTime", Stores("internal/timeseries.timeSeries.pendingTime"), Calls("(*internal/timeseries.timeSeries).mergePendingUpdates"), false)
	})
}

func init() {
	// C60-3 (the length octet dropped from InterfaceInfo.nameLen): marshalName writes one length octet followed by
	// the name, so the space reserved must be the 4-byte round-up of 1 + len(name).
	ExtraClause("C60", "Also: InterfaceInfo.nameLen reserves the 4-byte round-up of at least 1 + len(Name) (length octet plus name), as marshalName writes.")
	RegisterExtra("C60", func(c *Ctx) {
		const name = "(*icmp.InterfaceInfo).nameLen"
		fn := c.MustFn(name)
		if fn == nil {
			return
		}
		n := 0
		for _, r := range Returns().F(c.P, fn) {
			v := r.(*ssa.Return).Results[0]
			if _, isK := v.(*ssa.Const); isK {
				continue
			}
			n++
			// (x + 3) &^ 3
			bo, ok := v.(*ssa.BinOp)
			if !ok || bo.Op != token.AND_NOT {
				c.Fail("reserves-length-octet", name+": computed result is a 4-byte round-up", r.Pos(), "result `"+Term(v)+"` is not (x+3)&^3")
				continue
			}
			inner := Linearize(bo.X) // x + 3
			want := Lin{Coef: map[string]int64{"len($r.Interface.Name)": 1}, K: 4}
			d := inner.Sub(want)
			c.Check(d.IsConst() && d.K >= 0, "reserves-length-octet", name+": rounds up at least 1 + len(Name)", r.Pos(), "",
				"rounds up "+inner.AddK(-3).String()+", but marshalName writes 1 + len(Name) octets: a name whose length is a multiple of 4 overflows its field by one octet")
		}
		if n == 0 {
			c.Undecided("reserves-length-octet", name, "no computed return found")
		}
	})
}

func init() {
	// F15 (genuine defect, fixed in /repo 0443d55): in a fragment with a foreign context element the stack of open
	// elements can be the root html element alone; parseForeignContent popped any element matching an end tag,
	// the root included, and the next token dereferenced the nil current node.
	ExtraClause("C41", "Also: parseForeignContent never truncates the stack of open elements to length 0 (the root html element is never popped).")
	RegisterExtra("C41", func(c *Ctx) {
		const name = "html.parseForeignContent"
		fn := c.MustFn(name)
		if fn == nil {
			return
		}
		n := 0
		for _, in := range Stores("html.parser.oe").F(c.P, fn) {
			sl, ok := in.(*ssa.Store).Val.(*ssa.Slice)
			if !ok || sl.High == nil {
				continue
			}
			n++
			h := Linearize(sl.High)
			need := h.Sub(h).Sub(h).AddK(1) // 1 - h <= 0
			c.Check(FactsImply(in, LEZero(need)), "stack-never-emptied", name+": `p.oe = p.oe[:h]` only with h >= 1", in.Pos(), "",
				"the stack is cut to "+h.String()+" elements with no dominating test that this is at least 1: an end tag can pop the root html element")
		}
		if n == 0 {
			c.Undecided("stack-never-emptied", name, "no truncation of parser.oe found")
		}
	})
}

func init() {
	// C03-4 (the saveBuf size limit moved before parsing, measuring saved bytes + the whole new chunk).
	ExtraClause("C03", "Also: Decoder.Write gives up with ErrStringLength only after a parse attempt has returned errNeedMore, i.e. for the one pending incomplete representation, never for the size of a chunk.")
	RegisterExtra("C03", func(c *Ctx) {
		const w = "(*http2/hpack.Decoder).Write"
		// returns whose error may be ErrStringLength (directly or as one input of a merged result variable)
		mayBe := Sel{Name: "return that may yield ErrStringLength", F: func(p *Prog, fn *ssa.Function) []ssa.Instruction {
			var out []ssa.Instruction
			for _, r := range Returns().F(p, fn) {
				ret := r.(*ssa.Return)
				if len(ret.Results) < 2 {
					continue
				}
				hit := false
				var walk func(v ssa.Value, d int)
				walk = func(v ssa.Value, d int) {
					if ph, ok := v.(*ssa.Phi); ok && d < 6 {
						for _, e := range ph.Edges {
							walk(e, d+1)
						}
						return
					}
					if Term(v) == "http2/hpack.ErrStringLength" {
						hit = true
					}
				}
				walk(RetResult(ret, 1), 0)
				if hit {
					out = append(out, r)
				}
			}
			return out
		}}
		c.Guard(w, mayBe, "parseHeaderFieldRepr($r) == http2/hpack.errNeedMore")
		c.Has(w, mayBe)
	})
}

func init() {
	// selftest C34/c402ca0544 (the `r.remain -= n` of bodyReader.Read deleted): with the store gone the rules anchored on
	// it have nothing to examine, so its existence is required here.
	ExtraClause("C34", "Also: bodyReader.Read decreases the remaining Content-Length by the number of bytes read.")
	RegisterExtra("C34", func(c *Ctx) {
		c.Has("(*internal/http3.bodyReader).Read", Stores("internal/http3.bodyReader.remain"))
	})
}
