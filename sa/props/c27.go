package props

import (
	"fmt"

	"golang.org/x/tools/go/ssa"

	. "verif/sa/core"
)

func init() {
	Register(&Property{
		ID:    "C27",
		Floor: 53,
		Clauses: "lossState.antiAmplificationLimit is written only by init (unlimited, under side==clientSide), validateClientAddress (unlimited), packetSent (max(0, limit-sent.size)) and datagramReceived (limit + 3*size, coefficient 3); " +
			"sendLimit returns anything but ccBlocked only under limit >= minPacketSize; maxSendSize is min(limit, …); " +
			"Conn.maybeSend returns on ccBlocked before resetting the writer, building frames or sending; the packet writer is reset to loss.maxSendSize() once per datagram and sendLimit is re-evaluated between two sends; " +
			"every packet a finish*Packet call returned is reported to Conn.packetSent before the datagram is sent (Initial: unless Initial keys can no longer be written), Conn.packetSent forwards the same packet to lossState.packetSent, whose limit update is unconditional on the packet kind; " +
			"bytes appended to the datagram after the writer produced it (datagram-level padding) are bounded by a test involving the send limit (violated on the pinned tree by the Initial padding loop: listed in known_findings.txt); " +
			"validateClientAddress is called only in handleLongHeader under ptype==Handshake && side==serverSide after shouldProcess accepted and handleFrames ran (the packet was decrypted); datagramReceived is called once, with len(dgram.b), after the peer-address equality test; " +
			"endpoint-level stateless replies: sendVersionNegotiation, validateInitialAddress (Retry / CONNECTION_CLOSE) and newConn are reached only under len(m.b) >= 1200; the CONNECTION_CLOSE reply is limited to 1200 bytes; a stateless reset is m.b[:min(len-1, 42)], i.e. shorter than its trigger; these are the only callers of Endpoint.sendDatagram.",
		NotCovered: "the numeric size of Retry and Version Negotiation packets (bounded by connection-id/token constants, not computed); that sent.size equals the bytes put on the wire for coalesced datagrams; per-address accounting across migration (unsupported by the implementation); timing (PTO at the limit).",
		Run:        c27,
	})
}

func c27(c *Ctx) {
	const L = "(*quic.lossState)."
	lim := "quic.lossState.antiAmplificationLimit"
	unl, _ := c.P.ConstInt("quic.antiAmplificationUnlimited")
	blocked, _ := c.P.ConstInt("quic.ccBlocked")

	// ---- the counter
	c.Writers(lim, L+"init", L+"validateClientAddress", L+"packetSent", L+"datagramReceived")
	c.QaStoreShapes(L+"init", lim, fmt.Sprintf("const:%d", unl))
	c.Guard(L+"init", Stores(lim), "$0 == @quic.clientSide")
	c.QaStoreShapes(L+"validateClientAddress", lim, fmt.Sprintf("const:%d", unl))
	c.QaStoreShapes(L+"packetSent", lim, "dec-floor0:$3.size")
	c.QaStoreShapes(L+"datagramReceived", lim, "add:3*$1")
	c.Count(L+"packetSent", Stores(lim), 1, 1)
	c.Count(L+"datagramReceived", Stores(lim), 1, 1)
	c.PassThroughIncl(L+"packetSent", c.Edge("$r.antiAmplificationLimit != @quic.antiAmplificationUnlimited"), Stores(lim))
	c.Before(L+"packetSent", c.Edge("$r.antiAmplificationLimit != @quic.antiAmplificationUnlimited"), Stores(lim))
	qaC27firstTest(c, L+"packetSent", "$r.antiAmplificationLimit != @quic.antiAmplificationUnlimited")

	// ---- sendLimit / maxSendSize
	sl := L + "sendLimit"
	var others []Sel
	for _, n := range []string{"quic.ccOK", "quic.ccLimited", "quic.ccPaced"} {
		k, _ := c.P.ConstInt(n)
		others = append(others, RetConst(0, fmt.Sprint(k)))
	}
	c.Reject(sl, Union(others...), "$r.antiAmplificationLimit < @quic.minPacketSize")
	c.Has(sl, c.QaUnder(RetConst(0, fmt.Sprint(blocked)), "$r.antiAmplificationLimit < @quic.minPacketSize"))
	qaC27results(c, sl)
	c.Has(L+"maxSendSize", QaResultIs(0, "min($r.antiAmplificationLimit,$r.cc.maxDatagramSize)"))
	c.Callers(sl, "(*quic.Conn).maybeSend")

	// ---- maybeSend
	ms := "(*quic.Conn).maybeSend"
	const W = "(*quic.packetWriter)."
	reset := Calls(W + "reset")
	send := Calls("(*quic.Endpoint).sendDatagram")
	build := Union(reset, send, Calls("(*quic.Conn).appendFrames"), Calls(W+"startProtectedLongHeaderPacket"), Calls(W+"start1RTTPacket"))
	c.Reject(ms, build, "sendLimit(&$r.loss,$0)#0 == @quic.ccBlocked")
	c.Has(ms, reset.ArgIs(0, "&$r.w").ArgIs(1, "maxSendSize(&$r.loss)"))
	c.Count(ms, reset, 1, 1)
	c.Count(ms, send, 1, 1)
	c.Before(ms, reset, Union(send, Calls("(*quic.Conn).appendFrames")))
	c.QaBetween(ms, send, send, Calls(sl), false)
	c.QaBetween(ms, send, Union(Calls("(*quic.Conn).appendFrames"), Calls(W+"datagram")), reset, false)
	c.Callers(W+"reset", ms, "(*quic.Endpoint).sendConnectionClose")
	// what is sent is the writer's datagram
	c.ArgFrom(ms, send, 1, "packetWriter.datagram()", IsCallTo(W+"datagram"))
	c.Has(ms, Calls(W+"datagram").ArgIs(0, "&$r.w"))
	qaC27padding(c, ms)
	// every finished packet is charged
	cps := "(*quic.Conn).packetSent"
	for _, k := range []struct{ name, finish, keyArg, key string }{
		{"Initial", W + "finishProtectedLongHeaderPacket", "$r.keysInitial.w", "!canWrite(&$r.keysInitial)"},
		{"Handshake", W + "finishProtectedLongHeaderPacket", "$r.keysHandshake.w", ""},
		{"1-RTT", W + "finish1RTTPacket", "&$r.keysAppData", ""},
	} {
		idx := 2
		if k.name == "1-RTT" {
			idx = 4
		}
		fin := Calls(k.finish).ArgIs(idx, k.keyArg)
		fn := c.P.Fn(ms)
		if fn == nil {
			break
		}
		fins := fin.F(c.P, fn)
		if len(fins) != 1 {
			c.Undecided("pass-through", ms+": "+k.name+" packet charged", fmt.Sprintf("%d finish calls", len(fins)))
			continue
		}
		isFin := func(v ssa.Value) bool { return v == fins[0].(ssa.Value) }
		charged := Calls(cps).Where("the packet returned by finish ("+k.name+")", func(in ssa.Instruction) bool {
			return DependsOn(BaselineArgs(&in.(*ssa.Call).Call)[3], isFin)
		})
		edges := QaNilEdgesOn(fn, isFin)
		desc := "the branch on which finish returned nil"
		if k.key != "" {
			edges = append(edges, c.P.QaAtomEdges(fn, k.key)...)
			desc += " or " + k.key
		}
		c.QaBetweenE(ms, fin, send, charged, desc, edges)
	}
	c.Has(cps, Calls(L+"packetSent").ArgIs(0, "&$r.loss").ArgIs(4, "$2"))
	c.Before(cps, Calls(L+"packetSent"), Returns())
	c.Callers(W+"finishProtectedLongHeaderPacket", ms, "(*quic.Endpoint).sendConnectionClose")
	c.Callers(W+"finish1RTTPacket", ms)

	// ---- address validation and receive credit
	hlh := "(*quic.Conn).handleLongHeader"
	c.Callers(L+"validateClientAddress", hlh)
	const PKT = "parseLongHeaderPacket($5,$4,largestSeen(&$r.acks[$3]))#0"
	vca := Calls(L + "validateClientAddress")
	c.Guard(hlh, vca, PKT+".ptype == @quic.packetTypeHandshake", "$r.side == @quic.serverSide", "shouldProcess(&$r.acks[$3],"+PKT+".num)", "parseLongHeaderPacket($5,$4,largestSeen(&$r.acks[$3]))#1 >= 0")
	c.Before(hlh, Calls("(*quic.Conn).handleFrames"), vca)
	c.Callers(hlh, "(*quic.Conn).handleDatagram")
	hdg := "(*quic.Conn).handleDatagram"
	dr := Calls(L + "datagramReceived")
	c.Callers(L+"datagramReceived", hdg)
	c.Count(hdg, dr, 1, 1)
	c.Has(hdg, dr.ArgIs(0, "&$r.loss").ArgIs(2, "len($1.b)"))
	c.Reject(hdg, dr, "IsValid($1.peerAddr)", "$1.peerAddr != $r.peerAddr")

	// ---- endpoint-level stateless replies
	const E = "(*quic.Endpoint)."
	hud := E + "handleUnknownDestinationDatagram"
	replies := Union(Calls(E+"sendVersionNegotiation"), Calls(E+"validateInitialAddress"), Calls(E+"newConn"))
	c.Guard(hud, replies, "len($0.b) >= @quic.paddedInitialDatagramSize")
	c.Count(hud, replies, 3, 3)
	c.Callers(E+"sendVersionNegotiation", hud)
	c.Callers(E+"validateInitialAddress", hud)
	c.Callers(E+"sendRetry", E+"validateInitialAddress")
	c.Callers(E+"sendConnectionClose", E+"validateInitialAddress")
	c.Callers(E+"maybeSendStatelessReset", hud)
	c.Callers(E+"sendDatagram", ms, E+"maybeSendStatelessReset", E+"sendConnectionClose", E+"sendRetry", E+"sendVersionNegotiation")
	c.Has(E+"sendConnectionClose", Calls(W+"reset").ArgIs(1, "1200"))
	pid, _ := c.P.ConstInt("quic.paddedInitialDatagramSize")
	c.Check(pid == 1200, "table", "quic.paddedInitialDatagramSize == 1200", 0, "1200", fmt.Sprintf("is %d", pid))
	msr := E + "maybeSendStatelessReset"
	c.QaStoredSatisfies(msr, Stores("quic.datagram.b"), "trigger[:min(len(trigger)-1, …)]", func(v ssa.Value) bool {
		sl, ok := v.(*ssa.Slice)
		if !ok || sl.Low != nil || sl.High == nil || Term(sl.X) != "$0" {
			return false
		}
		return QaMinWith("(len($0)-1)")(sl.High)
	})
	c.Has(msr, Calls(E+"sendDatagram"))
	c.Has(hud, Calls(msr).ArgIs(1, "$0.b"))
}

// qaC27firstTest: the named test is evaluated on every path (it is not nested
// under another condition): its block dominates every return.
func qaC27firstTest(c *Ctx, fnName, spec string) {
	fn := c.MustFn(fnName)
	if fn == nil {
		return
	}
	construct := fnName + ": the limit update test " + spec + " is evaluated for every packet kind"
	a, err := c.P.ParseAtom(spec)
	if err != nil {
		c.Undecided("unconditional", construct, err.Error())
		return
	}
	for _, b := range fn.Blocks {
		if len(b.Instrs) == 0 {
			continue
		}
		ifi, ok := b.Instrs[len(b.Instrs)-1].(*ssa.If)
		if !ok {
			continue
		}
		ca := CondAtom(ifi.Cond)
		if !SameAtom(ca, a) && !SameAtom(ca.Negate(), a) {
			continue
		}
		c.Check(len(FactsAt(b)) == 0, "unconditional", construct, ifi.Pos(), "no dominating condition",
			"the anti-amplification charge is skipped for some packets (nested under another test)")
		return
	}
	c.Fail("unconditional", construct, fn.Pos(), "test not found")
}

// qaC27results: the first result of every return of sendLimit is a constant.
func qaC27results(c *Ctx, fnName string) {
	fn := c.MustFn(fnName)
	if fn == nil {
		return
	}
	construct := fnName + ": every return carries a constant ccLimit (so the reject rule sees all of them)"
	n := 0
	for _, r := range Returns().F(c.P, fn) {
		if _, ok := r.(*ssa.Return).Results[0].(*ssa.Const); !ok {
			c.Fail("result-from", construct, r.Pos(), "returns `"+Term(r.(*ssa.Return).Results[0])+"`")
			return
		}
		n++
	}
	c.OK("result-from", construct, fmt.Sprintf("%d returns", n))
}

// qaC27padding: every builtin append through which the buffer handed to
// sendDatagram passes (padding added after the packet writer, which is
// itself limited by reset(maxSendSize)) is dominated by a test whose
// condition involves the send limit.
func qaC27padding(c *Ctx, ms string) {
	fn := c.MustFn(ms)
	if fn == nil {
		return
	}
	construct := ms + ": datagram-level padding appended after the packet writer is bounded by the anti-amplification send limit"
	sends := Calls("(*quic.Endpoint).sendDatagram").F(c.P, fn)
	if len(sends) == 0 {
		c.Undecided("clamp", construct, "no sendDatagram call")
		return
	}
	limited := func(v ssa.Value) bool {
		return IsCallTo("(*quic.lossState).maxSendSize")(v) || c.P.QaIsLoadOf("quic.lossState.antiAmplificationLimit")(v) || c.P.QaIsLoadOf("quic.packetWriter.dgramLim")(v)
	}
	var appends []*ssa.Call
	for _, s := range sends {
		Backward(BaselineArgs(&s.(*ssa.Call).Call)[1], func(v ssa.Value) bool {
			if call, ok := v.(*ssa.Call); ok {
				if b, ok := call.Call.Value.(*ssa.Builtin); ok && b.Name() == "append" {
					appends = append(appends, call)
				}
			}
			return true
		})
	}
	for _, a := range appends {
		ok := false
		for _, f := range FactsAtInstr(a) {
			if DependsOn(f.If.Cond, limited) {
				ok = true
			}
		}
		if !ok {
			c.Fail("clamp", construct, a.Pos(), "`"+DescribeInstr(a)+"` grows the datagram under {"+qaFactList(a)+"} only: none of these tests involves loss.maxSendSize()/antiAmplificationLimit, so a datagram can exceed the limit the writer was reset to")
			return
		}
	}
	c.OK("clamp", construct, fmt.Sprintf("%d append site(s)", len(appends)))
}

func qaFactList(in ssa.Instruction) string {
	s := ""
	for i, f := range FactsAtInstr(in) {
		if i > 0 {
			s += " ; "
		}
		s += f.Atom.String()
	}
	return s
}
