package props

import (
	"fmt"
	"go/ast"
	"go/token"
	"os"
	"path/filepath"
	"strings"

	"golang.org/x/tools/go/ssa"

	. "verif/sa/core"
)

func init() {
	Register(&Property{
		ID:    "C51",
		Floor: 52,
		Clauses: "publicsuffix packed tables, read from the //go:embed files named in table.go and decoded with the bit-layout constants of table.go exactly as list.go does (the decoding expressions of nodeLabel, PublicSuffix and the two get methods are checked against those constants): " +
			"exhaustively over every node and every children entry: sizes are whole records; field widths fit 40/32 bits; each node's children index, text offset+length and each entry's lo<=hi<=#nodes are in range; node types are 0..2; " +
			"labels are non-empty and dot-free; the root range [0,numTLD) and every children range are strictly increasing by label (find's binary-search precondition); every node is reachable from the root. " +
			"Algorithm structure: IP literals short-circuit before any lookup; the root range is [0,numTLD); nodes.get only under f != notFound; an exception node leaves the loop with suffix 1+len(s); the wildcard of the parent is applied at the top of the next iteration before the empty-range and find exits; " +
			"the loop stops when no dot is left; the default rule returns the last label; find returns mid on equality, moves lo to mid+1 when the node label is smaller and hi to mid otherwise, and notFound when the range is empty; " +
			"EffectiveTLDPlusOne rejects leading/trailing/double dots, a suffix as long as the domain, and a non-dot separator.",
		NotCovered: "equivalence of the embedded tables with the PSL text of the stated revision (the list is not in the repository); ICANN flag correctness per rule; IDN/case normalisation of the input (callers must pass lower-case ASCII/punycode).",
		Run:        c51,
	})
}

// m1EmbedFile returns the contents of the single file named by the //go:embed directive of the package-level variable.
func m1EmbedFile(p *Prog, pkg, name string) ([]byte, string, error) {
	pk := p.Pkg(pkg)
	if pk == nil {
		return nil, "", fmt.Errorf("package %s not loaded", pkg)
	}
	for _, f := range pk.Syntax {
		for _, d := range f.Decls {
			gd, ok := d.(*ast.GenDecl)
			if !ok || gd.Tok != token.VAR {
				continue
			}
			for _, s := range gd.Specs {
				vs := s.(*ast.ValueSpec)
				for _, id := range vs.Names {
					if id.Name != name {
						continue
					}
					doc := vs.Doc
					if doc == nil {
						doc = gd.Doc
					}
					if doc == nil {
						return nil, "", fmt.Errorf("variable %s has no //go:embed directive", name)
					}
					for _, cm := range doc.List {
						if strings.HasPrefix(cm.Text, "//go:embed ") {
							pat := strings.TrimSpace(strings.TrimPrefix(cm.Text, "//go:embed "))
							dir := filepath.Dir(p.Fset.Position(f.Pos()).Filename)
							b, err := os.ReadFile(filepath.Join(dir, pat))
							return b, pkg + "/" + pat, err
						}
					}
					return nil, "", fmt.Errorf("variable %s has no //go:embed directive", name)
				}
			}
		}
	}
	return nil, "", fmt.Errorf("variable %s not found", name)
}

func c51(c *Ctx) {
	const pkg = "publicsuffix"
	k := map[string]int64{}
	for _, n := range []string{"nodesBits", "nodesBitsChildren", "nodesBitsICANN", "nodesBitsTextOffset", "nodesBitsTextLength",
		"childrenBitsWildcard", "childrenBitsNodeType", "childrenBitsHi", "childrenBitsLo", "nodeTypeNormal", "nodeTypeException", "nodeTypeParentOnly", "numTLD", "notFound"} {
		v, ok := c.P.ConstInt(pkg + "." + n)
		if !ok {
			c.Undecided("constant", pkg+"."+n, "not found")
			return
		}
		k[n] = v
	}
	mask := func(bits int64) int64 { return 1<<uint(bits) - 1 }
	c.Check(k["nodesBits"] == 40 && k["nodesBitsChildren"]+k["nodesBitsICANN"]+k["nodesBitsTextOffset"]+k["nodesBitsTextLength"] <= k["nodesBits"], "layout", "node fields fit the 40-bit record", token.NoPos,
		fmt.Sprintf("%d+%d+%d+%d <= %d", k["nodesBitsChildren"], k["nodesBitsICANN"], k["nodesBitsTextOffset"], k["nodesBitsTextLength"], k["nodesBits"]), "field widths exceed the record or nodesBits is not 40 (uint40String.get reads 5 bytes)")
	c.Check(k["childrenBitsWildcard"]+k["childrenBitsNodeType"]+k["childrenBitsHi"]+k["childrenBitsLo"] <= 32, "layout", "children fields fit the 32-bit record", token.NoPos, "", "field widths exceed 32 bits")
	c.Check(k["nodeTypeNormal"] == 0 && k["nodeTypeException"] == 1 && k["nodeTypeParentOnly"] == 2 && mask(k["childrenBitsNodeType"]) >= 2, "layout", "node types are 0,1,2 and fit their field", token.NoPos, "", "node type constants changed")
	c.Check(k["notFound"] == 1<<32-1, "layout", "notFound is the all-ones index", token.NoPos, "", "notFound could collide with a node index")

	// ---- the decoding expressions in list.go agree with the constants (so the decoding below is the code's)
	sTL, sTO := k["nodesBitsTextLength"], k["nodesBitsTextOffset"]
	c.Has("publicsuffix.nodeLabel", RetTerm(0, fmt.Sprintf("publicsuffix.text[((get(publicsuffix.nodes,$0)>>%d)&%d):(((get(publicsuffix.nodes,$0)>>%d)&%d)+(get(publicsuffix.nodes,$0)&%d))]", sTL, mask(sTO), sTL, mask(sTO), mask(sTL))))
	c.Has("(publicsuffix.uint32String).get", RetTerm(0, "((($r[($0*4):][3]|($r[($0*4):][2]<<8))|($r[($0*4):][1]<<16))|($r[($0*4):][0]<<24))"))
	c.Has("(publicsuffix.uint40String).get", RetTerm(0, fmt.Sprintf("(((($r[($0*%d):][4]|($r[($0*%d):][3]<<8))|($r[($0*%d):][2]<<16))|($r[($0*%d):][1]<<24))|($r[($0*%d):][0]<<32))", k["nodesBits"]/8, k["nodesBits"]/8, k["nodesBits"]/8, k["nodesBits"]/8, k["nodesBits"]/8)))
	const ps = "publicsuffix.PublicSuffix"
	psFn := c.MustFn(ps)
	if psFn == nil {
		return
	}
	findCalls := Calls("publicsuffix.find").F(c.P, psFn)
	if !c.Count(ps, Calls("publicsuffix.find"), 1, 1) {
		return
	}
	findCall := findCalls[0].(*ssa.Call)
	chGet := Calls("(publicsuffix.uint32String).get").F(c.P, psFn)
	if c.Count(ps, Calls("(publicsuffix.uint32String).get"), 1, 1) {
		arg := Term(BaselineArgs(&chGet[0].(*ssa.Call).Call)[1])
		c.Check(strings.HasSuffix(arg, fmt.Sprintf(">>%d)>>%d)&%d)", sTO+sTL, k["nodesBitsICANN"], mask(k["nodesBitsChildren"]))) && strings.HasPrefix(arg, "(((get(publicsuffix.nodes,"), "decoding", ps+": children index = node >> (textOffset+textLength) >> icann & mask", chGet[0].Pos(), arg, "children.get is indexed by "+arg)
	}
	leafTerms := func(v ssa.Value) []string {
		var out []string
		for _, l := range PhiLeaves(v) {
			out = append(out, Term(l))
		}
		return out
	}
	has := func(ss []string, pred func(string) bool) bool {
		for _, s := range ss {
			if pred(s) {
				return true
			}
		}
		return false
	}
	loL, hiL := leafTerms(BaselineArgs(&findCall.Call)[1]), leafTerms(BaselineArgs(&findCall.Call)[2])
	c.Check(has(loL, func(s string) bool { return s == "0" }) && has(hiL, func(s string) bool { return s == fmt.Sprint(k["numTLD"]) }), "root-range", ps+": the walk starts with [0, numTLD)", findCall.Pos(), "", fmt.Sprintf("initial lo/hi leaves are %v / %v", loL, hiL))
	c.Check(has(loL, func(s string) bool {
		return strings.HasPrefix(s, "(get(publicsuffix.children,") && strings.HasSuffix(s, fmt.Sprintf(")&%d)", mask(k["childrenBitsLo"])))
	}), "decoding", ps+": lo = children & loMask", findCall.Pos(), "", fmt.Sprintf("lo leaves %v", loL))
	c.Check(has(hiL, func(s string) bool {
		return strings.HasPrefix(s, "((get(publicsuffix.children,") && strings.HasSuffix(s, fmt.Sprintf(")>>%d)&%d)", k["childrenBitsLo"], mask(k["childrenBitsHi"])))
	}), "decoding", ps+": hi = children >> loBits & hiMask", findCall.Pos(), "", fmt.Sprintf("hi leaves %v", hiL))
	typeSuffix := fmt.Sprintf(")>>%d)>>%d)&%d)", k["childrenBitsLo"], k["childrenBitsHi"], mask(k["childrenBitsNodeType"]))
	wildSuffix := fmt.Sprintf(")>>%d)>>%d)>>%d)&%d)", k["childrenBitsLo"], k["childrenBitsHi"], k["childrenBitsNodeType"], mask(k["childrenBitsWildcard"]))
	// node-type edges
	typeEdge := func(val int64) Sel {
		return Sel{Name: fmt.Sprintf("branch nodeType==%d", val), F: func(p *Prog, fn *ssa.Function) []ssa.Instruction {
			var out []ssa.Instruction
			for _, b := range fn.Blocks {
				if len(b.Instrs) == 0 {
					continue
				}
				ifi, ok := b.Instrs[len(b.Instrs)-1].(*ssa.If)
				if !ok {
					continue
				}
				a := CondAtom(ifi.Cond)
				if a.Kind != EQ && a.Kind != NE || len(a.L.Coef) != 1 {
					continue
				}
				for t, co := range a.L.Coef {
					if strings.HasSuffix(t, typeSuffix) && a.L.K == -co*val {
						s := b.Succs[0]
						if a.Kind == NE {
							s = b.Succs[1]
						}
						if len(s.Instrs) > 0 {
							out = append(out, s.Instrs[0])
						}
					}
				}
			}
			return out
		}}
	}
	c.Count(ps, typeEdge(k["nodeTypeNormal"]), 1, 1)
	if c.Count(ps, typeEdge(k["nodeTypeException"]), 1, 1) {
		c.NeverAfter(ps, typeEdge(k["nodeTypeException"]), Calls("publicsuffix.find"), true)
	}
	// the returned slice starts, on the exception path, at 1+len(s)
	var retIdx []string
	// (the index domain is cut at on the paths where a rule matched: see c51DefaultRule; the default
	// rule's 1+LastIndexByte(domain,'.') is not a value of the walk)
	retLeaves := c51RetLeaves(psFn)
	anyMatched := false
	for _, rl := range retLeaves {
		anyMatched = anyMatched || rl.matched
	}
	for _, rl := range retLeaves {
		if rl.low == nil || anyMatched && !rl.matched {
			continue // (without any such path — reported by the default rule — every returned index is looked at)
		}
		for _, l := range PhiLeaves(rl.low) {
			if bo, ok := l.(*ssa.BinOp); ok && bo.Op == token.ADD {
				x, y := m1Strip(bo.X), m1Strip(bo.Y)
				if _, isCall := y.(*ssa.Call); !isCall {
					x, y = y, x
				}
				if cl, ok := y.(*ssa.Call); ok && Term(x) == "1" && CalleeName(&cl.Call) == "builtin:len" {
					retIdx = append(retIdx, "1+len")
				}
				if cl, ok := y.(*ssa.Call); ok && Term(x) == "1" && CalleeName(&cl.Call) == "strings.LastIndexByte" && len(cl.Call.Args) == 2 && cl.Call.Args[0] != ssa.Value(psFn.Params[0]) {
					retIdx = append(retIdx, "1+dot")
				}
			}
		}
	}
	c.Check(has(retIdx, func(s string) bool { return s == "1+len" }), "suffix-index", ps+": an exception rule yields suffix = 1+len(s) (the rule minus its leftmost label)", psFn.Pos(), "", "no result index of the form 1+len(s)")
	c.Check(has(retIdx, func(s string) bool { return s == "1+dot" }), "suffix-index", ps+": a normal/wildcard match yields suffix = 1+dot", psFn.Pos(), "", "no result index of the form 1+LastIndexByte(s,'.')")
	// wildcard applied at loop top
	var wildIf *ssa.If
	for _, b := range psFn.Blocks {
		if len(b.Instrs) == 0 {
			continue
		}
		if ifi, ok := b.Instrs[len(b.Instrs)-1].(*ssa.If); ok {
			if ph, ok := ifi.Cond.(*ssa.Phi); ok && has(leafTerms(ph), func(s string) bool { return strings.HasSuffix(s, wildSuffix[:len(wildSuffix)-1]+")!=0)") }) {
				wildIf = ifi
			}
		}
	}
	if wildIf == nil {
		c.Fail("wildcard", ps+": loop-carried wildcard flag decoded from the children entry", psFn.Pos(), "no branch on a flag fed by (children >> lo >> hi >> type) & 1 != 0")
	} else {
		c.OK("wildcard", ps+": loop-carried wildcard flag decoded from the children entry", "")
		emptyRange := false
		for _, b := range psFn.Blocks {
			if len(b.Instrs) == 0 {
				continue
			}
			if ifi, ok := b.Instrs[len(b.Instrs)-1].(*ssa.If); ok {
				if bo, ok := ifi.Cond.(*ssa.BinOp); ok && bo.Op == token.EQL && (bo.X == BaselineArgs(&findCall.Call)[1] && bo.Y == BaselineArgs(&findCall.Call)[2] || bo.X == BaselineArgs(&findCall.Call)[2] && bo.Y == BaselineArgs(&findCall.Call)[1]) {
					emptyRange = wildIf.Block().Dominates(b) && wildIf.Block() != b
				}
			}
		}
		t := wildIf.Block().Succs[0]
		_, isJump := t.Instrs[len(t.Instrs)-1].(*ssa.Jump)
		c.Check(isJump && len(t.Succs) == 1 && t.Succs[0] == wildIf.Block().Succs[1], "wildcard", ps+": the wildcard assignment is unconditional under the flag", wildIf.Pos(), "", "the branch taken when the parent has a wildcard tests a further condition before assigning suffix/icann")
		c.Check(wildIf.Block().Dominates(findCall.Block()) && emptyRange, "wildcard", ps+": the parent's wildcard is applied before the empty-range exit and before find", wildIf.Pos(), "", "the wildcard branch does not precede the lo==hi test and the find call")
	}
	c.Check(has(m1RetLeafTerms(psFn), func(s string) bool {
		return strings.HasSuffix(s, fmt.Sprintf(")>>%d)&%d)!=0)", sTO+sTL, mask(k["nodesBitsICANN"])))
	}), "decoding", ps+": icann = node >> (textOffset+textLength) & 1", psFn.Pos(), "", "the returned ICANN flag is not fed by that bit")

	// ---- structural guards
	c.Reject(ps, Calls("publicsuffix.find"), "ParseAddr($0)#1 == nil")
	c.Guard(ps, RetConst(1, "false").Where("value is the input", func(in ssa.Instruction) bool { return Term(in.(*ssa.Return).Results[0]) == "$0" }), "ParseAddr($0)#1 == nil")
	c.Guard(ps, Calls("(publicsuffix.uint40String).get"), Term(findCall)+" != @publicsuffix.notFound")
	{
		t := Term(BaselineArgs(&findCall.Call)[0])
		good := false
		if i := strings.Index(t, "[(1+LastIndexByte("); i > 0 {
			good = t == t[:i]+"[(1+LastIndexByte("+t[:i]+",46)):]"
		}
		c.Check(good, "label-split", ps+": find receives the text after the last dot of the remaining name", findCall.Pos(), t, "find is called with "+t)
	}
	noDot := Sel{Name: "branch no dot left", F: func(p *Prog, fn *ssa.Function) []ssa.Instruction {
		var out []ssa.Instruction
		for _, b := range fn.Blocks {
			if len(b.Instrs) == 0 {
				continue
			}
			ifi, ok := b.Instrs[len(b.Instrs)-1].(*ssa.If)
			if !ok {
				continue
			}
			a := CondAtom(ifi.Cond)
			if a.Kind != EQ && a.Kind != NE || len(a.L.Coef) != 1 {
				continue
			}
			for t, co := range a.L.Coef {
				if strings.HasPrefix(t, "LastIndexByte(") && a.L.K == co {
					s := b.Succs[0]
					if a.Kind == NE {
						s = b.Succs[1]
					}
					if len(s.Instrs) > 0 {
						out = append(out, s.Instrs[0])
					}
				}
			}
		}
		return out
	}}
	if c.Count(ps, noDot, 1, 1) {
		c.NeverAfter(ps, noDot, Calls("publicsuffix.find"), true)
	}
	c51DefaultRule(c, psFn)
	c.Callers("publicsuffix.find", ps)

	c51find(c)

	const e1 = "publicsuffix.EffectiveTLDPlusOne"
	c.Reject(e1, Calls(ps), `HasPrefix($0,".")`)
	c.Reject(e1, Calls(ps), `HasSuffix($0,".")`)
	c.Reject(e1, Calls(ps), `Contains($0,"..")`)
	c.Reject(e1, RetOK(), "len($0) <= len(PublicSuffix($0)#0)")
	c.Reject(e1, RetOK(), "$0[((len($0)-len(PublicSuffix($0)#0))-1)] != 46")
	c.Has(e1, RetOK().Where("suffix plus one label", func(in ssa.Instruction) bool {
		return Term(in.(*ssa.Return).Results[0]) == "$0[(1+LastIndexByte($0[:((len($0)-len(PublicSuffix($0)#0))-1)],46)):]"
	}))

	// ---- exhaustive table checks
	c51tables(c, k)
}

// c51RetLeaf is one value the first result of PublicSuffix can take: the start index of the
// returned tail of domain, with the branch facts of the path it is returned on.
type c51RetLeaf struct {
	ret   *ssa.Return
	val   ssa.Value // the returned string when low == nil (not a tail of domain)
	low   ssa.Value // domain[low:]
	facts []Fact
	// matched: the facts of the path establish low != len(domain) (a rule matched; low is the walk's suffix index)
	matched bool
}

// c51RetLeaves expands the first result of every return of PublicSuffix into its leaves. A merge
// (of the returned string or of the index it is cut at) counts once per incoming value, with the
// facts of the edge it arrives on, so `if c { return d[a:] }; return d[b:]`, `i := b; if c { i = a };
// return d[i:]` and `r := d[b:]; if c { r = d[a:] }; return r` are the same to it. The expansion of an
// index stops at the value that the path's facts compare unequal to len(domain): that is the suffix
// index the walk computed, whatever it is merged from.
func c51RetLeaves(fn *ssa.Function) []c51RetLeaf {
	var out []c51RetLeaf
	lenDomain := Lin{Coef: map[string]int64{"len($0)": 1}}
	implied := func(fs []Fact, spec Atom) bool {
		for _, f := range fs {
			if Implies(f.Atom, spec) {
				return true
			}
		}
		return false
	}
	for _, in := range Returns().F(nil, fn) {
		r := in.(*ssa.Return)
		if len(r.Results) == 0 {
			continue
		}
		var expandLow func(v ssa.Value, fs []Fact, seen map[ssa.Value]bool, depth int)
		expandLow = func(v ssa.Value, fs []Fact, seen map[ssa.Value]bool, depth int) {
			if implied(fs, Atom{Kind: NE, L: Linearize(v).Sub(lenDomain)}) {
				out = append(out, c51RetLeaf{ret: r, low: v, facts: fs, matched: true})
				return
			}
			ph, isPhi := m1Strip(v).(*ssa.Phi)
			if !isPhi || seen[ph] || depth > 6 {
				out = append(out, c51RetLeaf{ret: r, low: v, facts: fs})
				return
			}
			seen[ph] = true
			for i, e := range ph.Edges {
				if i < len(ph.Block().Preds) {
					expandLow(e, append(append([]Fact{}, fs...), EdgeFacts_h2server(ph.Block().Preds[i], ph.Block())...), seen, depth+1)
				}
			}
			delete(seen, ph)
		}
		var expand func(v ssa.Value, fs []Fact, seen map[ssa.Value]bool, depth int)
		expand = func(v ssa.Value, fs []Fact, seen map[ssa.Value]bool, depth int) {
			if ph, ok := v.(*ssa.Phi); ok && !seen[ph] && depth <= 6 {
				seen[ph] = true
				for i, e := range ph.Edges {
					if i < len(ph.Block().Preds) {
						expand(e, append(append([]Fact{}, fs...), EdgeFacts_h2server(ph.Block().Preds[i], ph.Block())...), seen, depth+1)
					}
				}
				delete(seen, ph)
				return
			}
			if sl, ok := v.(*ssa.Slice); ok && sl.Low != nil && sl.High == nil && sl.Max == nil && len(fn.Params) == 1 && sl.X == ssa.Value(fn.Params[0]) {
				expandLow(sl.Low, fs, map[ssa.Value]bool{}, 0)
				return
			}
			out = append(out, c51RetLeaf{ret: r, val: v, facts: fs})
		}
		expand(r.Results[0], FactsAtInstr(r), map[ssa.Value]bool{}, 0)
	}
	return out
}

// c51DefaultRule: the prevailing rule when no rule of the list matched is "*": the public suffix
// is the last label. Stated over the leaves of the returned value: apart from the IP-literal
// short-circuit, PublicSuffix returns a tail domain[i:] of its argument, and
//   - i is the walk's suffix index only on paths where that index != len(domain) (some rule matched);
//   - i is 1+LastIndexByte(domain,'.') only on paths where the suffix index is still len(domain)
//     (the initial value: no rule matched), and that way of returning exists;
//   - nothing else is returned.
func c51DefaultRule(c *Ctx, fn *ssa.Function) {
	const ps = "publicsuffix.PublicSuffix"
	const rule = "default-rule"
	construct := ps + ": the last label is returned exactly when no rule matched (suffix index still len(domain)), domain[suffix:] otherwise"
	leaves := c51RetLeaves(fn)
	lenDomain := Lin{Coef: map[string]int64{"len($0)": 1}}
	ipAtom, err := c.P.ParseAtom("ParseAddr($0)#1 == nil")
	if err != nil {
		c.Undecided(rule, construct, err.Error())
		return
	}
	implied := func(fs []Fact, spec Atom) bool {
		for _, f := range fs {
			if Implies(f.Atom, spec) {
				return true
			}
		}
		return false
	}
	var suffixes []ssa.Value // the suffix indices returned under "a rule matched"
	for _, l := range leaves {
		if l.matched {
			suffixes = append(suffixes, l.low)
		}
	}
	nDefault, nMatched, bad := 0, 0, ""
	var badPos token.Pos
	fail := func(l c51RetLeaf, why string) {
		if bad == "" {
			bad, badPos = why, l.ret.Pos()
		}
	}
	for _, l := range leaves {
		switch {
		case l.low == nil:
			if len(fn.Params) == 1 && l.val == ssa.Value(fn.Params[0]) && implied(l.facts, ipAtom) {
				continue // the IP-literal short-circuit (guarded by its own rule)
			}
			fail(l, "the value `"+Term(l.val)+"` is returned, which is not a tail domain[i:] of the argument; facts on that path: {"+c51FactText(l.facts)+"}")
		case l.matched:
			nMatched++
		default:
			li := Linearize(l.low)
			if !(li.K == 1 && len(li.Coef) == 1 && li.Coef["LastIndexByte($0,46)"] == 1) {
				fail(l, "domain["+Term(l.low)+":] is returned on a path that neither establishes that index != len(domain) (a rule matched) nor cuts at 1+LastIndexByte(domain,'.') (the default rule); facts on that path: {"+c51FactText(l.facts)+"}")
				continue
			}
			// the default value: only where the walk's suffix index is still len(domain)
			under := false
			for _, s := range suffixes {
				if implied(l.facts, LEZero(lenDomain.Sub(Linearize(s)))) {
					under = true
				}
			}
			if !under {
				fail(l, "the last label domain[1+LastIndexByte(domain,'.'):] is returned on a path that does not establish suffix index == len(domain) (no rule matched); facts on that path: {"+c51FactText(l.facts)+"}")
				continue
			}
			nDefault++
		}
	}
	if bad == "" && nMatched == 0 {
		bad, badPos = "no return of domain[suffix:] under suffix != len(domain)", fn.Pos()
	}
	if bad == "" && nDefault == 0 {
		bad, badPos = "the default rule is gone: no path returns domain[1+LastIndexByte(domain,'.'):] under suffix index == len(domain)", fn.Pos()
	}
	c.Check(bad == "", rule, construct, badPos, fmt.Sprintf("%d path(s) return the last label, %d domain[suffix:]", nDefault, nMatched), bad)
}

func c51FactText(fs []Fact) string {
	var ss []string
	seen := map[string]bool{}
	for _, f := range fs {
		if t := f.Atom.String(); !seen[t] {
			seen[t] = true
			ss = append(ss, t)
		}
	}
	return strings.Join(ss, " ; ")
}

// m1RetLeafTerms renders the phi leaves of the second result of every return.
func m1RetLeafTerms(fn *ssa.Function) []string {
	var out []string
	for _, b := range fn.Blocks {
		for _, in := range b.Instrs {
			if r, ok := in.(*ssa.Return); ok && len(r.Results) == 2 {
				for _, l := range PhiLeaves(r.Results[1]) {
					out = append(out, Term(l))
				}
			}
		}
	}
	return out
}

// Three-way outcomes of comparing the node label s with the wanted label w, as a bit set.
const (
	c51LT  = 1 // s < w
	c51EQ  = 2 // s == w
	c51GT  = 4 // s > w
	c51Any = c51LT | c51EQ | c51GT
)

func c51OutcomeText(o int) string {
	if o == 0 {
		return "none"
	}
	var ss []string
	if o&c51LT != 0 {
		ss = append(ss, "node<wanted")
	}
	if o&c51EQ != 0 {
		ss = append(ss, "node==wanted")
	}
	if o&c51GT != 0 {
		ss = append(ss, "node>wanted")
	}
	return strings.Join(ss, "|")
}

// c51Outcomes returns the outcomes of comparing s with w under which cond evaluates to val
// (c51Any when cond is not a comparison of the two). Recognised: s OP w, w OP s for the six
// comparison operators, and strings.Compare / cmp.Compare of the two against an integer constant.
func c51Outcomes(cond ssa.Value, val bool, s, w ssa.Value) int {
	for {
		if u, ok := cond.(*ssa.UnOp); ok && u.Op == token.NOT {
			cond, val = u.X, !val
			continue
		}
		break
	}
	bo, ok := cond.(*ssa.BinOp)
	if !ok {
		return c51Any
	}
	rel := func(op token.Token, a, b int64) (bool, bool) {
		switch op {
		case token.LSS:
			return a < b, true
		case token.LEQ:
			return a <= b, true
		case token.GTR:
			return a > b, true
		case token.GEQ:
			return a >= b, true
		case token.EQL:
			return a == b, true
		case token.NEQ:
			return a != b, true
		}
		return false, false
	}
	// sign(s ? w) for each outcome; evaluate `left OP right` where the pair is (sign*orient, k)
	set := func(orient, k int64, constLeft bool) int {
		out := 0
		for _, o := range []struct {
			bit  int
			sign int64
		}{{c51LT, -1}, {c51EQ, 0}, {c51GT, 1}} {
			a, b := o.sign*orient, k
			if constLeft {
				a, b = b, a
			}
			r, known := rel(bo.Op, a, b)
			if !known {
				return c51Any
			}
			if r == val {
				out |= o.bit
			}
		}
		return out
	}
	x, y := m1Strip(bo.X), m1Strip(bo.Y)
	switch {
	case x == s && y == w:
		return set(1, 0, false)
	case x == w && y == s:
		return set(-1, 0, false)
	}
	cmpOf := func(v ssa.Value) int64 {
		call, ok := v.(*ssa.Call)
		if !ok || len(call.Call.Args) != 2 {
			return 0
		}
		n := CalleeName(&call.Call)
		if i := strings.Index(n, "["); i > 0 {
			n = n[:i]
		}
		if n != "strings.Compare" && n != "cmp.Compare" {
			return 0
		}
		a, b := m1Strip(call.Call.Args[0]), m1Strip(call.Call.Args[1])
		switch {
		case a == s && b == w:
			return 1
		case a == w && b == s:
			return -1
		}
		return 0
	}
	if o := cmpOf(x); o != 0 {
		if kc, ok := y.(*ssa.Const); ok {
			if k, ok := IntOf64(kc); ok {
				return set(o, k, false)
			}
		}
	}
	if o := cmpOf(y); o != 0 {
		if kc, ok := x.(*ssa.Const); ok {
			if k, ok := IntOf64(kc); ok {
				return set(o, k, true)
			}
		}
	}
	return c51Any
}

func c51LastIf(b *ssa.BasicBlock) *ssa.If {
	if len(b.Instrs) == 0 {
		return nil
	}
	ifi, _ := b.Instrs[len(b.Instrs)-1].(*ssa.If)
	return ifi
}

// c51OutcomesAt: the outcomes consistent with every branch edge that dominates block b.
func c51OutcomesAt(b *ssa.BasicBlock, s, w ssa.Value) int {
	out := c51Any
	for d := b.Idom(); d != nil; d = d.Idom() {
		ifi := c51LastIf(d)
		if ifi == nil || len(d.Succs) != 2 || d.Succs[0] == d.Succs[1] {
			continue
		}
		for k, su := range d.Succs {
			if len(su.Preds) == 1 && su.Dominates(b) {
				out &= c51Outcomes(ifi.Cond, k == 0, s, w)
			}
		}
	}
	return out
}

// c51OutcomesOnEdge: the outcomes consistent with leaving pred towards succ.
func c51OutcomesOnEdge(pred, succ *ssa.BasicBlock, s, w ssa.Value) int {
	out := c51OutcomesAt(pred, s, w)
	if ifi := c51LastIf(pred); ifi != nil && len(pred.Succs) == 2 && pred.Succs[0] != pred.Succs[1] {
		if pred.Succs[0] == succ {
			out &= c51Outcomes(ifi.Cond, true, s, w)
		} else if pred.Succs[1] == succ {
			out &= c51Outcomes(ifi.Cond, false, s, w)
		}
	}
	return out
}

// c51Leaf is one way of finishing an iteration: the values lo and hi take in the next
// iteration and the comparison outcomes under which that happens.
type c51Leaf struct {
	lo, hi ssa.Value
	out    int
}

// c51BackEdgeLeaves expands the loop-carried lo/hi into their leaves: one per back edge, and,
// where the value arriving on a back edge is itself a merge below the header, one per incoming
// edge of that merge (lo and hi are followed together), with the outcomes of the edges passed.
func c51BackEdgeLeaves(loPhi, hiPhi *ssa.Phi, s, w ssa.Value) []c51Leaf {
	header := loPhi.Block()
	var leaves []c51Leaf
	phiIn := func(v ssa.Value) *ssa.Phi {
		if ph, ok := v.(*ssa.Phi); ok && ph.Block() != header {
			return ph
		}
		return nil
	}
	var expand func(lo, hi ssa.Value, out, depth int)
	expand = func(lo, hi ssa.Value, out, depth int) {
		var blk *ssa.BasicBlock
		if ph := phiIn(lo); ph != nil {
			blk = ph.Block()
		}
		if ph := phiIn(hi); ph != nil && (blk == nil || blk != ph.Block() && blk.Dominates(ph.Block())) {
			blk = ph.Block() // the later merge first
		}
		if blk == nil || depth > 6 || out == 0 {
			leaves = append(leaves, c51Leaf{lo, hi, out})
			return
		}
		for i, p := range blk.Preds {
			l2, h2 := lo, hi
			if ph := phiIn(lo); ph != nil && ph.Block() == blk && i < len(ph.Edges) {
				l2 = ph.Edges[i]
			}
			if ph := phiIn(hi); ph != nil && ph.Block() == blk && i < len(ph.Edges) {
				h2 = ph.Edges[i]
			}
			expand(l2, h2, out&c51OutcomesOnEdge(p, blk, s, w), depth+1)
		}
	}
	for i, p := range header.Preds {
		if !header.Dominates(p) || i >= len(loPhi.Edges) || i >= len(hiPhi.Edges) {
			continue // the edge entering the loop
		}
		expand(loPhi.Edges[i], hiPhi.Edges[i], c51OutcomesOnEdge(p, header, s, w), 0)
	}
	return leaves
}

// c51find: find is a binary search over [lo,hi). The decision is made over the three-way
// outcome of comparing the node label with the wanted label, so the order and nesting of the
// tests (if / else-if chain in either order, tagless switch, strings.Compare) do not matter:
//   - the loop body runs only under lo < hi, notFound is returned only under hi <= lo;
//   - mid = lo + (hi-lo)/2;
//   - every way of continuing the loop happens under exactly one outcome: node < wanted with
//     lo = mid+1 and hi unchanged, or node > wanted with hi = mid and lo unchanged (so on
//     equality the loop never continues);
//   - mid is returned only under node == wanted.
func c51find(c *Ctx) {
	const name = "publicsuffix.find"
	const rule = "binary-search"
	fn := c.MustFn(name)
	if fn == nil {
		return
	}
	if len(fn.Params) != 3 {
		c.Undecided(rule, name, "find no longer takes (label, lo, hi)")
		return
	}
	nl := Calls("publicsuffix.nodeLabel").F(c.P, fn)
	if !c.Count(name, Calls("publicsuffix.nodeLabel"), 1, 1) {
		return
	}
	c.Count(name, RetTerm(0, fmt.Sprint(uint32(1<<32-1))), 1, -1)
	// loop-carried lo / hi: identified by the parameters they start from
	var loPhi, hiPhi *ssa.Phi
	for _, b := range fn.Blocks {
		for _, in := range b.Instrs {
			if ph, ok := in.(*ssa.Phi); ok && m1IsLoopHeader(b) {
				for _, e := range ph.Edges {
					if e == fn.Params[1] {
						loPhi = ph
					}
					if e == fn.Params[2] {
						hiPhi = ph
					}
				}
			}
		}
	}
	if loPhi == nil || hiPhi == nil || loPhi.Block() != hiPhi.Block() {
		if c51findLibrary(c, fn, nl[0].(*ssa.Call)) {
			return
		}
		c.Undecided(rule, name, "loop-carried lo/hi not found")
		return
	}
	s := ssa.Value(nl[0].(*ssa.Call))
	w := ssa.Value(fn.Params[0])
	mid := BaselineArgs(&nl[0].(*ssa.Call).Call)[0]
	lo, hi := Term(loPhi), Term(hiPhi)

	// lo < hi inside, hi <= lo at notFound
	c.Check(c.P.HoldsAt(nl[0], lo+" < "+hi, false), rule, name+": the range is searched only while lo < hi", nl[0].Pos(), "", "the node label is read without lo < hi being established; facts here: {"+FactsText(nl[0])+"}")
	notFoundGuard := true
	for _, r := range RetTerm(0, fmt.Sprint(uint32(1<<32-1))).F(c.P, fn) {
		if !c.P.HoldsAt(r, hi+" <= "+lo, false) {
			notFoundGuard = false
		}
	}
	c.Check(notFoundGuard, rule, name+": notFound only when lo >= hi", fn.Pos(), "", "a notFound return is not under hi <= lo")

	// mid
	mt := Term(m1Strip(mid))
	midOK := false
	for _, f := range []string{"(%[1]s+((%[2]s-%[1]s)/2))", "(((%[2]s-%[1]s)/2)+%[1]s)", "(%[1]s+((%[2]s-%[1]s)>>1))", "(((%[2]s-%[1]s)>>1)+%[1]s)", "((%[1]s+%[2]s)/2)", "((%[2]s+%[1]s)/2)", "((%[1]s+%[2]s)>>1)", "((%[2]s+%[1]s)>>1)"} {
		if mt == fmt.Sprintf(f, lo, hi) {
			midOK = true
		}
	}
	c.Check(midOK, rule, name+": mid lies in [lo,hi)", fn.Pos(), mt, "mid is "+mt)

	// mid is returned only on equality
	retMid := Returns().Where("returns mid", func(in ssa.Instruction) bool {
		r := in.(*ssa.Return).Results[0]
		return r == mid || m1Strip(r) == m1Strip(mid)
	})
	if rs := retMid.F(c.P, fn); len(rs) == 0 {
		c.Fail(rule, name+": mid is returned under node label == wanted label", fn.Pos(), "no return of mid")
	} else {
		bad := ""
		for _, r := range rs {
			if o := c51OutcomesAt(r.Block(), s, w); o != c51EQ {
				bad = fmt.Sprintf("mid is returned at %s under the outcomes {%s}", c.P.Pos(r.Pos()), c51OutcomeText(o))
			}
		}
		c.Check(bad == "", rule, name+": mid is returned under node label == wanted label", rs[0].Pos(), fmt.Sprintf("%d return(s)", len(rs)), bad)
	}

	// the ways of continuing the loop
	isMidPlus1 := func(v ssa.Value) bool {
		t := Term(m1Strip(v))
		return t == "("+Term(mid)+"+1)" || t == "(1+"+Term(mid)+")"
	}
	isMid := func(v ssa.Value) bool { return v == mid || m1Strip(v) == m1Strip(mid) || Term(m1Strip(v)) == mt }
	nLT, nGT := 0, 0
	loMoves, hiKept, hiMoves, loKept, decided := "", "", "", "", ""
	for _, l := range c51BackEdgeLeaves(loPhi, hiPhi, s, w) {
		switch l.out {
		case 0:
			// contradictory conditions: not an execution
		case c51LT:
			nLT++
			if !isMidPlus1(l.lo) {
				loMoves = "under node label < wanted label lo becomes " + m1TermOrNil(l.lo)
			}
			if l.hi != ssa.Value(hiPhi) {
				hiKept = "under node label < wanted label hi becomes " + m1TermOrNil(l.hi)
			}
		case c51GT:
			nGT++
			if !isMid(l.hi) {
				hiMoves = "under node label > wanted label hi becomes " + m1TermOrNil(l.hi)
			}
			if l.lo != ssa.Value(loPhi) {
				loKept = "under node label > wanted label lo becomes " + m1TermOrNil(l.lo)
			}
		default:
			decided = fmt.Sprintf("the loop continues with lo=%s, hi=%s under the outcomes {%s}", m1TermOrNil(l.lo), m1TermOrNil(l.hi), c51OutcomeText(l.out))
		}
	}
	if nLT == 0 && loMoves == "" {
		loMoves = "no way of continuing the loop is taken exactly when node label < wanted label"
	}
	if nGT == 0 && hiMoves == "" {
		hiMoves = "no way of continuing the loop is taken exactly when node label > wanted label"
	}
	c.Check(decided == "", rule, name+": the loop continues only under node label < wanted label or node label > wanted label (never on equality)", fn.Pos(), "", decided)
	c.Check(loMoves == "", rule, name+": node label < wanted label moves lo to mid+1", fn.Pos(), "", loMoves)
	c.Check(hiMoves == "", rule, name+": node label > wanted label moves hi to mid", fn.Pos(), "", hiMoves)
	c.Check(hiKept == "", rule, name+": hi unchanged when lo moves", fn.Pos(), "", hiKept)
	c.Check(loKept == "", rule, name+": lo unchanged when hi moves", fn.Pos(), "", loKept)
}

// c51findLibrary decides find written with the library search: i := lo + sort.Search(hi-lo, func(i) { return nodeLabel(lo+i) >= label }).
// sort.Search returns hi-lo when no element satisfies the predicate, so i must be tested against hi before
// node i is looked at; i is returned only under i < hi and nodeLabel(i) == label. Reports whether the form was recognised.
func c51findLibrary(c *Ctx, fn *ssa.Function, nl *ssa.Call) bool {
	const name = "publicsuffix.find"
	const rule = "binary-search"
	var search *ssa.Call
	n := 0
	ForEachInstr(fn, func(in ssa.Instruction) {
		if call, ok := in.(*ssa.Call); ok && CalleeName(&call.Call) == "sort.Search" {
			search = call
			n++
		}
	})
	if n != 1 || len(search.Call.Args) != 2 {
		return false
	}
	mc, ok := search.Call.Args[1].(*ssa.MakeClosure)
	if !ok {
		return false
	}
	pred, ok := mc.Fn.(*ssa.Function)
	if !ok {
		return false
	}
	// which parameter of find a captured variable holds (never reassigned)
	paramOf := func(v ssa.Value) int {
		for i, p := range fn.Params {
			if v == ssa.Value(p) {
				return i
			}
		}
		al, ok := v.(*ssa.Alloc)
		if !ok {
			return -1
		}
		idx, stores := -1, 0
		ForEachInstr(fn, func(in ssa.Instruction) {
			if st, ok := in.(*ssa.Store); ok && st.Addr == ssa.Value(al) {
				stores++
				for i, p := range fn.Params {
					if st.Val == ssa.Value(p) {
						idx = i
					}
				}
			}
		})
		if stores != 1 {
			return -1
		}
		return idx
	}
	fv := map[int]string{}
	for i, b := range mc.Bindings {
		if i < len(pred.FreeVars) {
			if k := paramOf(b); k >= 0 {
				fv[k] = "^" + pred.FreeVars[i].Name()
			}
		}
	}
	c.Check(Term(search.Call.Args[0]) == "($2-$1)", rule, name+": sort.Search over hi-lo elements", search.Pos(), "", "sort.Search is given "+Term(search.Call.Args[0])+" elements")
	predOK, predTerm := false, ""
	ForEachInstr(pred, func(in ssa.Instruction) {
		if r, ok := in.(*ssa.Return); ok && len(r.Results) == 1 {
			predTerm = Term(r.Results[0])
		}
	})
	if fv[0] != "" && fv[1] != "" {
		for _, f := range []string{"(nodeLabel((%[1]s+$0))>=%[2]s)", "(nodeLabel(($0+%[1]s))>=%[2]s)", "(%[2]s<=nodeLabel((%[1]s+$0)))", "(%[2]s<=nodeLabel(($0+%[1]s)))"} {
			if predTerm == fmt.Sprintf(f, fv[1], fv[0]) {
				predOK = true
			}
		}
	}
	nRet := 0
	ForEachInstr(pred, func(in ssa.Instruction) {
		if _, ok := in.(*ssa.Return); ok {
			nRet++
		}
	})
	c.Check(predOK && nRet == 1, rule, name+": the search predicate is nodeLabel(lo+i) >= label", pred.Pos(), "", "the predicate returns "+predTerm)
	idx := "($1+" + Term(search) + ")"
	idxLin := "$1+" + Term(search) // the same value as a sum, for comparisons (linear normal form)
	notFound := fmt.Sprint(uint32(1<<32 - 1))
	bad, nIdx := "", 0
	for _, r := range Returns().F(c.P, fn) {
		t := Term(m1Strip(r.(*ssa.Return).Results[0]))
		switch {
		case t == notFound:
		case t == idx:
			nIdx++
			if !c.P.HoldsAt(r, idxLin+" < $2", false) {
				bad = "the index found by sort.Search is returned without having been tested against hi (sort.Search returns hi-lo when every label is smaller: node hi is outside the range, possibly outside the table); facts here: {" + FactsText(r) + "}"
			} else if !c.P.HoldsAt(r, "$0 == nodeLabel("+idx+")", true) {
				bad = "the index found by sort.Search is returned without its label having been compared with the wanted label; facts here: {" + FactsText(r) + "}"
			}
		default:
			bad = "find returns " + t
		}
	}
	if nIdx == 0 && bad == "" {
		bad = "the index found by sort.Search is never returned"
	}
	c.Check(bad == "", rule, name+": the found index is returned only under index < hi and node label == wanted label", fn.Pos(), "", bad)
	// the label of node index is read only under index < hi
	c.Check(Term(BaselineArgs(&nl.Call)[0]) != idx || c.P.HoldsAt(nl, idxLin+" < $2", false), rule, name+": node index is read only under index < hi", nl.Pos(), "", "nodeLabel("+idx+") is evaluated without index < hi (index == hi when every label in the range is smaller)")
	return true
}

func m1TermOrNil(v ssa.Value) string {
	if v == nil {
		return "<none>"
	}
	return Term(v)
}

func c51tables(c *Ctx, k map[string]int64) {
	nodes, nfile, err1 := m1EmbedFile(c.P, "publicsuffix", "nodes")
	children, cfile, err2 := m1EmbedFile(c.P, "publicsuffix", "children")
	text, tfile, err3 := m1EmbedFile(c.P, "publicsuffix", "text")
	for _, e := range []error{err1, err2, err3} {
		if e != nil {
			c.Undecided("table", "embedded data", e.Error())
			return
		}
	}
	c.Note("embedded tables: %s (%d bytes), %s (%d bytes), %s (%d bytes)", nfile, len(nodes), cfile, len(children), tfile, len(text))
	rec := int(k["nodesBits"] / 8)
	ok := c.Check(len(nodes)%rec == 0 && len(nodes) > 0, "table", "nodes is a whole number of 5-byte records", token.NoPos, fmt.Sprintf("%d nodes", len(nodes)/rec), fmt.Sprintf("%d bytes", len(nodes)))
	ok = c.Check(len(children)%4 == 0 && len(children) > 0, "table", "children is a whole number of 4-byte records", token.NoPos, fmt.Sprintf("%d entries", len(children)/4), fmt.Sprintf("%d bytes", len(children))) && ok
	if !ok {
		return
	}
	N, M := len(nodes)/rec, len(children)/4
	c.Stats["table_nodes"] = N
	c.Stats["table_children_entries"] = M
	mask := func(bits int64) uint64 { return 1<<uint(bits) - 1 }
	type node struct {
		child  int
		icann  bool
		off, n int
	}
	type centry struct {
		lo, hi, typ int
		wild        bool
	}
	nd := make([]node, N)
	for i := 0; i < N; i++ {
		var x uint64
		for j := 0; j < rec; j++ {
			x = x<<8 | uint64(nodes[i*rec+j])
		}
		nd[i].n = int(x & mask(k["nodesBitsTextLength"]))
		x >>= uint(k["nodesBitsTextLength"])
		nd[i].off = int(x & mask(k["nodesBitsTextOffset"]))
		x >>= uint(k["nodesBitsTextOffset"])
		nd[i].icann = x&mask(k["nodesBitsICANN"]) != 0
		x >>= uint(k["nodesBitsICANN"])
		nd[i].child = int(x & mask(k["nodesBitsChildren"]))
	}
	ch := make([]centry, M)
	for i := 0; i < M; i++ {
		x := uint64(children[i*4])<<24 | uint64(children[i*4+1])<<16 | uint64(children[i*4+2])<<8 | uint64(children[i*4+3])
		ch[i].lo = int(x & mask(k["childrenBitsLo"]))
		x >>= uint(k["childrenBitsLo"])
		ch[i].hi = int(x & mask(k["childrenBitsHi"]))
		x >>= uint(k["childrenBitsHi"])
		ch[i].typ = int(x & mask(k["childrenBitsNodeType"]))
		x >>= uint(k["childrenBitsNodeType"])
		ch[i].wild = x&mask(k["childrenBitsWildcard"]) != 0
	}
	first := func(bad []string) string {
		if len(bad) == 0 {
			return ""
		}
		s := bad[0]
		if len(bad) > 1 {
			s += fmt.Sprintf(" (and %d more)", len(bad)-1)
		}
		return s
	}
	label := func(i int) string { return string(text[nd[i].off : nd[i].off+nd[i].n]) }
	var bad []string
	for i := range nd {
		if nd[i].child >= M {
			bad = append(bad, fmt.Sprintf("node %d: children index %d >= %d", i, nd[i].child, M))
		}
	}
	okChild := c.Check(len(bad) == 0, "table", "every node's children index is inside the children table", token.NoPos, fmt.Sprintf("%d nodes, %d entries", N, M), first(bad))
	bad = nil
	for i := range nd {
		if nd[i].off+nd[i].n > len(text) {
			bad = append(bad, fmt.Sprintf("node %d: text[%d:%d] beyond %d", i, nd[i].off, nd[i].off+nd[i].n, len(text)))
		}
	}
	okText := c.Check(len(bad) == 0, "table", "every node's text offset+length is inside text", token.NoPos, fmt.Sprintf("%d bytes of text", len(text)), first(bad))
	bad = nil
	for i := range ch {
		if ch[i].lo > ch[i].hi || ch[i].hi > N {
			bad = append(bad, fmt.Sprintf("children[%d]: [%d,%d) not within 0..%d", i, ch[i].lo, ch[i].hi, N))
		}
	}
	okRange := c.Check(len(bad) == 0, "table", "every children range satisfies lo <= hi <= #nodes", token.NoPos, "", first(bad))
	bad = nil
	for i := range ch {
		if int64(ch[i].typ) != k["nodeTypeNormal"] && int64(ch[i].typ) != k["nodeTypeException"] && int64(ch[i].typ) != k["nodeTypeParentOnly"] {
			bad = append(bad, fmt.Sprintf("children[%d]: node type %d", i, ch[i].typ))
		}
	}
	c.Check(len(bad) == 0, "table", "every node type is normal, exception or parent-only", token.NoPos, "", first(bad))
	c.Check(int(k["numTLD"]) <= N && k["numTLD"] > 0, "table", "numTLD within the node table", token.NoPos, fmt.Sprintf("numTLD=%d", k["numTLD"]), fmt.Sprintf("numTLD=%d, nodes=%d", k["numTLD"], N))
	if !okChild || !okText || !okRange || int(k["numTLD"]) > N {
		return
	}
	bad = nil
	for i := range nd {
		l := label(i)
		if l == "" || strings.Contains(l, ".") {
			bad = append(bad, fmt.Sprintf("node %d: label %q", i, l))
		}
	}
	c.Check(len(bad) == 0, "table", "labels are non-empty and contain no dot", token.NoPos, "", first(bad))
	// sortedness of every range that find can be asked to search
	bad = nil
	ranges := 0
	checkRange := func(what string, lo, hi int) {
		ranges++
		for i := lo + 1; i < hi; i++ {
			if !(label(i-1) < label(i)) {
				bad = append(bad, fmt.Sprintf("%s: nodes %d,%d: %q !< %q", what, i-1, i, label(i-1), label(i)))
				return
			}
		}
	}
	checkRange("root", 0, int(k["numTLD"]))
	for i := range nd {
		e := ch[nd[i].child]
		if e.lo < e.hi {
			checkRange(fmt.Sprintf("children of node %d (%q)", i, label(i)), e.lo, e.hi)
		}
	}
	c.Stats["table_ranges_checked"] = ranges
	c.Check(len(bad) == 0, "table", "the root range and every node's children range are strictly increasing by label (binary search precondition)", token.NoPos, fmt.Sprintf("%d ranges", ranges), first(bad))
	// reachability
	seen := make([]bool, N)
	var stack []int
	for i := 0; i < int(k["numTLD"]); i++ {
		seen[i] = true
		stack = append(stack, i)
	}
	for len(stack) > 0 {
		i := stack[len(stack)-1]
		stack = stack[:len(stack)-1]
		e := ch[nd[i].child]
		for j := e.lo; j < e.hi; j++ {
			if !seen[j] {
				seen[j] = true
				stack = append(stack, j)
			}
		}
	}
	bad = nil
	for i, s := range seen {
		if !s {
			bad = append(bad, fmt.Sprintf("node %d (%q)", i, label(i)))
		}
	}
	c.Check(len(bad) == 0, "table", "every node is reachable from the root range", token.NoPos, "", "unreachable (its rule can never match): "+first(bad))
	// a wildcard or exception marker is only meaningful on nodes the walk can stand on; exception nodes end the walk
	bad = nil
	for i := range nd {
		e := ch[nd[i].child]
		if int64(e.typ) == k["nodeTypeException"] && e.lo < e.hi {
			bad = append(bad, fmt.Sprintf("exception node %d (%q) has children that can never be visited", i, label(i)))
		}
	}
	c.Check(len(bad) == 0, "table", "exception nodes have no children", token.NoPos, "", first(bad))
}
