package props

import (
	"fmt"
	"go/token"

	"golang.org/x/tools/go/ssa"

	. "verif/sa/core"
)

func init() {
	Register(&Property{
		ID:    "C21",
		Floor: 45,
		Clauses: "local streams: the localStreamLimits gate is released only through localStreamLimits.unlock, whose condition is opened<max; opened is written only by open (opened+1, after waitAndLock succeeded and under opened>=0, returning the old value) and connHasClosed; " +
			"open is called only by Conn.newLocalStream, which builds the stream id from open's result and creates the stream only after open succeeded; max is written only by setMax as max(old,new), fed from the MAX_STREAMS frame value. " +
			"remote streams: remoteStreamLimits.open rejects num>=max with STREAM_LIMIT_ERROR before touching opened and before returning nil; opened only moves forward (store guarded by num>=opened, value num+1); " +
			"streamForFrame calls remoteLimit.open before newStream, aborts on its error and never creates the stream then; closed is only incremented (by close), close is called only from appendStreamFrames for a peer-initiated stream whose both directions are done and that was deleted from the map; " +
			"the advertised limit only grows (store guarded by new>old), is upper-clamped by closed+maxOpen (and initially by maxOpen), and the MAX_STREAMS frame carries lim.max; writers of max/opened/closed/maxOpen are closed sets.",
		NotCovered: "the update heuristic's arithmetic (when MAX_STREAMS is sent); that closed never exceeds opened (needs the stream map history); blocking/wake-up behaviour of NewStream (gate semantics, C29); the 2^60 stream-count bound of the frame codec.",
		Run:        c21,
	})
}

func c21(c *Ctx) {
	const L = "(*quic.localStreamLimits)."
	const R = "(*quic.remoteStreamLimits)."

	// ---- local limit gate
	qaC21gate(c)
	c.Writers("quic.localStreamLimits.opened", L+"open", L+"connHasClosed")
	open := L + "open"
	opened := Stores("quic.localStreamLimits.opened")
	c.QaStoreShapes(open, "quic.localStreamLimits.opened", "inc")
	c.Reject(open, opened, "waitAndLock(&$r.gate,$0) != nil")
	c.Guard(open, opened, "$r.opened >= 0")
	c.QaGuardAny(open, QaResultNilErr(), []string{"waitAndLock(&$r.gate,$0) == nil", "$r.opened >= 0"})
	// the stream number handed out is `opened` as it was before the increment:
	// decided on the SSA value returned (a read of lim.opened that precedes the
	// store of opened+1), so named results and a local copy are the same.
	c.Q1ReturnsValueBeforeUpdate(open, 0, "quic.localStreamLimits.opened")
	c.QaPaired(open, QaResultNilErr(), opened)
	c.Before(open, Defers(L+"unlock"), opened)
	c.Callers(open, "(*quic.Conn).newLocalStream")
	nls := "(*quic.Conn).newLocalStream"
	c.Reject(nls, Calls("quic.newStream"), "open(&$r.streams.localLimit[$1],$0,$r)#1 != nil")
	c.Has(nls, Calls("quic.newStreamID").ArgIs(0, "$r.side").ArgIs(1, "$1").ArgIs(2, "open(&$r.streams.localLimit[$1],$0,$r)#0"))
	c.ArgFrom(nls, Calls("quic.newStream"), 1, "newStreamID(side, type, open result)", IsCallTo("quic.newStreamID"))
	c.Writers("quic.localStreamLimits.max", L+"setMax")
	c.QaStoreShapes(L+"setMax", "quic.localStreamLimits.max", "max", "guarded")
	c.Has("(*quic.Conn).handleMaxStreamsFrame", Calls(L+"setMax").ArgIs(0, "&$r.streams.localLimit[consumeMaxStreamsFrame($1)#0]").ArgIs(1, "consumeMaxStreamsFrame($1)#1"))
	c.Callers(L+"setMax", "(*quic.Conn).handleMaxStreamsFrame", "(*quic.Conn).receiveTransportParameters")
	c.Has(L+"wasOpened", QaResultIs(0, "($0<$r.opened)"))

	// ---- remote limit
	ropen := R + "open"
	ropened := Stores("quic.remoteStreamLimits.opened")
	c.Reject(ropen, Union(ropened, RetOK(), Calls(R+"maybeUpdateMax")), "num($0) >= $r.max")
	sl, _ := c.P.ConstInt("quic.errStreamLimit")
	c.Has(ropen, c.QaUnder(Stores("quic.localTransportError.code").StoredIs(fmt.Sprint(sl)), "num($0) >= $r.max"))
	c.Guard(ropen, ropened, "num($0) >= $r.opened")
	c.Has(ropen, ropened.StoredIs("(num($0)+1)"))
	c.Writers("quic.remoteStreamLimits.opened", ropen, R+"init")
	c.Writers("quic.remoteStreamLimits.closed", R+"close")
	c.QaStoreShapes(R+"close", "quic.remoteStreamLimits.closed", "inc")
	c.Writers("quic.remoteStreamLimits.maxOpen", R+"init")
	c.Writers("quic.remoteStreamLimits.max", R+"init", R+"maybeUpdateMax")
	mum := R + "maybeUpdateMax"
	c.QaStoreShapes(mum, "quic.remoteStreamLimits.max", "guarded", "max")
	c.QaStoredSatisfies(mum, Stores("quic.remoteStreamLimits.max"), "min(closed+maxOpen, …)", QaMinWith("($r.closed+$r.maxOpen)"))
	c.QaStoredSatisfies(R+"init", Stores("quic.remoteStreamLimits.max"), "min(maxOpen, …)", QaMinWith("$0"))
	c.Has(R+"init", Stores("quic.remoteStreamLimits.maxOpen").StoredIs("$0"))
	c.Has(R+"appendFrame", Calls("(*quic.packetWriter).appendMaxStreamsFrame").ArgIs(1, "$1").ArgIs(2, "$r.max"))
	c.Callers("(*quic.packetWriter).appendMaxStreamsFrame", R+"appendFrame", "(quic.debugFrameMaxStreams).write")
	c.Has("(*quic.Conn).streamsInit", Calls(R+"init").ArgIs(0, "&$r.streams.remoteLimit[0]").ArgIs(1, "maxBidiRemoteStreams($r.config)"))
	c.Has("(*quic.Conn).streamsInit", Calls(R+"init").ArgIs(0, "&$r.streams.remoteLimit[1]").ArgIs(1, "maxUniRemoteStreams($r.config)"))
	c.Callers(R+"init", "(*quic.Conn).streamsInit")

	// ---- streamForFrame
	sff := "(*quic.Conn).streamForFrame"
	c.Callers(ropen, sff)
	const ROPEN = "open(&$r.streams.remoteLimit[streamType($1)],$1)"
	c.Reject(sff, Union(Calls("quic.newStream"), Calls("(*quic.queue[*quic.Stream]).put[*quic.Stream]")), ROPEN+" != nil")
	c.Before(sff, Calls(ropen), Calls("quic.newStream"))
	c.CallAfterIncl(sff, c.Edge(ROPEN+" != nil"), "(*quic.Conn).abort")
	c.Has(sff, Calls("quic.newStream").ArgIs(1, "$1"))
	c.Guard(sff, Calls(ropen), "$r.side != initiator($1)")
	c.Callers("quic.newStream", sff, nls)

	// ---- close accounting
	asf := "(*quic.Conn).appendStreamFrames"
	c.Callers(R+"close", asf)
	cls := Calls(R + "close")
	c.Guard(asf, cls, "$r.side != initiator($r.streams.queueMeta.head.id)")
	c.Has(asf, cls.ArgIs(0, "&$r.streams.remoteLimit[streamType($r.streams.queueMeta.head.id)]"))
	c.Before(asf, Calls("builtin:delete"), cls)
	qaC21doneMask(c, asf, cls)
}

// qaC21gate: every release of a localStreamLimits gate goes through
// localStreamLimits.unlock with the condition opened < max.
func qaC21gate(c *Ctx) {
	isGate := c.P.QaIsAddrOf("quic.localStreamLimits.gate")
	n := 0
	ok := true
	construct := "releases of localStreamLimits.gate ⊆ {(*quic.localStreamLimits).unlock}"
	for fn, ins := range c.CallersMatching("(*quic.gate).unlock", "(*quic.gate).unlockFunc") {
		for _, in := range ins {
			args := BaselineArgs(in.(ssa.CallInstruction).Common())
			if len(args) == 0 || !isGate(args[0]) {
				continue
			}
			n++
			if fn != "(*quic.localStreamLimits).unlock" {
				ok = false
				c.Fail("callers", construct, in.Pos(), "the gate is released in "+fn+" with its own condition")
				continue
			}
			cond := "gate condition is opened < max"
			if len(args) < 2 {
				c.Fail("call-args", "(*quic.localStreamLimits).unlock: "+cond, in.Pos(), "no condition argument")
				continue
			}
			want, _ := c.P.ParseAtom("$r.opened < $r.max")
			b, isCmp := args[1].(*ssa.BinOp)
			good := isCmp && (b.Op == token.LSS || b.Op == token.GTR || b.Op == token.LEQ || b.Op == token.GEQ) && SameAtom(CondAtom(args[1]), want)
			c.Check(good, "call-args", "(*quic.localStreamLimits).unlock: "+cond, in.Pos(), Term(args[1]),
				"the gate is opened under `"+Term(args[1])+"`: NewStream would not block at opened == max")
		}
	}
	if n == 0 {
		c.Undecided("callers", construct, "no release of the gate found")
		return
	}
	if ok {
		c.OK("callers", construct, fmt.Sprintf("%d release site(s)", n))
	}
}

// qaC21doneMask: remoteLimit.close is reached only under
// state&(streamInDone|streamOutDone) == streamInDone|streamOutDone.
func qaC21doneMask(c *Ctx, fnName string, sel Sel) {
	construct := fnName + ": [" + sel.Name + "] under state&(streamInDone|streamOutDone) == both"
	fn := c.MustFn(fnName)
	if fn == nil {
		return
	}
	in1, ok1 := c.P.ConstInt("quic.streamInDone")
	out1, ok2 := c.P.ConstInt("quic.streamOutDone")
	if !ok1 || !ok2 {
		c.Undecided("guard-before", construct, "stream state constants not found")
		return
	}
	mask := in1 | out1
	isMask := func(v ssa.Value) bool {
		s, ok := QaConstSet(v)
		return ok && len(s) == 1 && s[mask]
	}
	sites := sel.F(c.P, fn)
	if len(sites) == 0 {
		c.Undecided("guard-before", construct, "no such site")
		return
	}
	for _, site := range sites {
		good := false
		for _, f := range FactsAtInstr(site) {
			b, ok := f.If.Cond.(*ssa.BinOp)
			if !ok || f.Atom.Kind != EQ || b.Op != token.EQL && b.Op != token.NEQ {
				continue
			}
			for i, side := range []ssa.Value{b.X, b.Y} {
				other := []ssa.Value{b.Y, b.X}[i]
				if a, ok := QaStripConv(side).(*ssa.BinOp); ok && a.Op == token.AND && (isMask(a.X) || isMask(a.Y)) && isMask(other) {
					good = true
				}
			}
		}
		if !good {
			c.Fail("guard-before", construct, site.Pos(), "the close accounting is reachable for a stream whose directions are not both finished")
			return
		}
	}
	c.OK("guard-before", construct, fmt.Sprintf("%d site(s)", len(sites)))
}
