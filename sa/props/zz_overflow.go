package props

// Sign/overflow case analysis for a checked int32 addition (C08: outflow.add).
//
// The function adds a parameter b to a field a in int32 and must accept (store the
// sum, return true) exactly when the mathematical sum fits in int32. The abstract
// domain is finite: the signs of a and b and whether the addition overflowed
// (not at all / past MaxInt32 / below MinInt32). In every case the order of each
// pair among {a, b, sum, 0} is either determined or unknown; every branch condition
// is evaluated three-valued over these orders and unknown conditions are explored
// on both sides. No concrete value is ever computed.

import (
	"fmt"
	"go/constant"
	"go/token"
	"go/types"

	"golang.org/x/tools/go/ssa"

	. "verif/sa/core"
)

const (
	oLT = 1 << iota
	oEQ
	oGT
	oAny = oLT | oEQ | oGT
)

type ovCase struct{ sa, sb, ovf int } // signs -1/0/1; ovf 0 none, 1 above MaxInt32, -1 below MinInt32

func (k ovCase) String() string {
	s := map[int]string{-1: "<0", 0: "=0", 1: ">0"}
	o := map[int]string{0: "the sum fits", 1: "the sum exceeds MaxInt32", -1: "the sum is below MinInt32"}
	return fmt.Sprintf("window%s, n%s, %s", s[k.sa], s[k.sb], o[k.ovf])
}

func signMask(s int) int { return map[int]int{-1: oLT, 0: oEQ, 1: oGT}[s] }

type ovEval struct {
	fn    *ssa.Function
	field *types.Var
	k     ovCase
}

// class: "a" field value (before the store), "b" parameter, "s" wrapped int32 sum, "S" exact sum,
// "0" zero, "K" other constant, "" unknown.
func (e *ovEval) class(v ssa.Value) (string, *ssa.Const) {
	switch x := v.(type) {
	case *ssa.Const:
		if x.Value != nil && x.Value.Kind() == constant.Int {
			if constant.Sign(x.Value) == 0 {
				return "0", x
			}
			return "K", x
		}
	case *ssa.Parameter:
		if len(e.fn.Params) > 1 && x == e.fn.Params[1] {
			return "b", nil
		}
	case *ssa.UnOp:
		if x.Op == token.MUL && FieldOfAddr(x.X) == e.field {
			return "a", nil
		}
	case *ssa.Convert:
		c, _ := e.class(x.X)
		bt, _ := x.Type().Underlying().(*types.Basic)
		if bt == nil {
			return "", nil
		}
		switch {
		case (c == "a" || c == "b") && (bt.Kind() == types.Int64 || bt.Kind() == types.Int):
			return c, nil
		case c == "S" && bt.Kind() == types.Int32:
			return "s", nil
		}
	case *ssa.BinOp:
		if x.Op != token.ADD {
			return "", nil
		}
		cx, _ := e.class(x.X)
		cy, _ := e.class(x.Y)
		if !(cx == "a" && cy == "b" || cx == "b" && cy == "a") {
			return "", nil
		}
		bt, _ := x.Type().Underlying().(*types.Basic)
		if bt == nil {
			return "", nil
		}
		// operands widened before the addition: exact; otherwise wrapped
		_, wx := x.X.(*ssa.Convert)
		_, wy := x.Y.(*ssa.Convert)
		if wx && wy && (bt.Kind() == types.Int64 || bt.Kind() == types.Int) {
			return "S", nil
		}
		if bt.Kind() == types.Int32 {
			return "s", nil
		}
	}
	return "", nil
}

// ord returns the possible orders of x relative to y.
func (e *ovEval) ord(x, y ssa.Value) int {
	cx, kx := e.class(x)
	cy, ky := e.class(y)
	flip := func(m int) int {
		r := m & oEQ
		if m&oLT != 0 {
			r |= oGT
		}
		if m&oGT != 0 {
			r |= oLT
		}
		return r
	}
	rel := func(cx, cy string, ky *ssa.Const) (int, bool) {
		k := e.k
		switch cx + cy {
		case "aa", "bb", "ss", "SS", "00":
			return oEQ, true
		case "a0":
			return signMask(k.sa), true
		case "b0":
			return signMask(k.sb), true
		case "ab":
			switch {
			case k.sa > k.sb:
				return oGT, true
			case k.sa < k.sb:
				return oLT, true
			case k.sa == 0:
				return oEQ, true
			}
			return oAny, true
		case "s0", "S0":
			switch k.ovf {
			case 1:
				if cx == "S" {
					return oGT, true
				}
				return oLT, true
			case -1:
				if cx == "S" {
					return oLT, true
				}
				return oEQ | oGT, true
			}
			switch {
			case k.sa >= 0 && k.sb >= 0:
				if k.sa+k.sb > 0 {
					return oGT, true
				}
				return oEQ, true
			case k.sa <= 0 && k.sb <= 0:
				if k.sa+k.sb < 0 {
					return oLT, true
				}
				return oEQ, true
			}
			return oAny, true
		case "sb", "Sb":
			if k.ovf != 0 {
				if (cx == "S") == (k.ovf == 1) {
					return oGT, true
				}
				return oLT, true
			}
			return signMask(k.sa), true
		case "sa", "Sa":
			if k.ovf != 0 {
				if (cx == "S") == (k.ovf == 1) {
					return oGT, true
				}
				return oLT, true
			}
			return signMask(k.sb), true
		case "SK":
			v, ok := constant.Int64Val(ky.Value)
			if !ok {
				return oAny, true
			}
			const max, min = 1<<31 - 1, -(1 << 31)
			switch k.ovf {
			case 1:
				if v <= max {
					return oGT, true
				}
			case -1:
				if v >= min {
					return oLT, true
				}
			default:
				if v >= max {
					if v == max {
						return oLT | oEQ, true
					}
					return oLT, true
				}
				if v <= min {
					if v == min {
						return oGT | oEQ, true
					}
					return oGT, true
				}
			}
			return oAny, true
		}
		return 0, false
	}
	if m, ok := rel(cx, cy, ky); ok {
		return m
	}
	if m, ok := rel(cy, cx, kx); ok {
		return flip(m)
	}
	return oAny
}

// truth: 1 true, 0 false, -1 unknown.
func (e *ovEval) truth(v ssa.Value, phiFrom map[*ssa.Phi]ssa.Value) int {
	switch x := v.(type) {
	case *ssa.Const:
		if x.Value != nil && x.Value.Kind() == constant.Bool {
			if constant.BoolVal(x.Value) {
				return 1
			}
			return 0
		}
	case *ssa.Phi:
		if in, ok := phiFrom[x]; ok {
			return e.truth(in, phiFrom)
		}
	case *ssa.UnOp:
		if x.Op == token.NOT {
			if t := e.truth(x.X, phiFrom); t >= 0 {
				return 1 - t
			}
		}
	case *ssa.BinOp:
		if bt, _ := x.X.Type().Underlying().(*types.Basic); bt != nil && bt.Info()&types.IsBoolean != 0 {
			a, b := e.truth(x.X, phiFrom), e.truth(x.Y, phiFrom)
			if a < 0 || b < 0 {
				return -1
			}
			switch x.Op {
			case token.EQL:
				if a == b {
					return 1
				}
				return 0
			case token.NEQ:
				if a != b {
					return 1
				}
				return 0
			}
			return -1
		}
		sat := map[token.Token]int{token.LSS: oLT, token.LEQ: oLT | oEQ, token.GTR: oGT, token.GEQ: oGT | oEQ, token.EQL: oEQ, token.NEQ: oLT | oGT}[x.Op]
		if sat == 0 {
			return -1
		}
		m := e.ord(x.X, x.Y)
		switch {
		case m&^sat == 0:
			return 1
		case m&sat == 0:
			return 0
		}
	}
	return -1
}

type ovOutcome struct {
	accept, stored, storedOther bool
	at                          ssa.Instruction
}

func (e *ovEval) run() (outs []ovOutcome, undecided string) {
	var walk func(b, prev *ssa.BasicBlock, phiFrom map[*ssa.Phi]ssa.Value, stored, other bool, depth int)
	walk = func(b, prev *ssa.BasicBlock, phiFrom map[*ssa.Phi]ssa.Value, stored, other bool, depth int) {
		if depth > 64 {
			undecided = "path too long (loop?)"
			return
		}
		pf := map[*ssa.Phi]ssa.Value{}
		for k, v := range phiFrom {
			pf[k] = v
		}
		for _, in := range b.Instrs {
			switch x := in.(type) {
			case *ssa.Phi:
				for i, p := range b.Preds {
					if p == prev {
						pf[x] = x.Edges[i]
					}
				}
			case *ssa.Store:
				if FieldOfAddr(x.Addr) == e.field {
					if c, _ := e.class(x.Val); c == "s" {
						stored = true
					} else {
						other = true
					}
				}
			case *ssa.Return:
				t := -1
				if len(x.Results) == 1 {
					t = e.truth(x.Results[0], pf)
				}
				if t < 0 {
					outs = append(outs, ovOutcome{true, stored, other, in}, ovOutcome{false, stored, other, in})
				} else {
					outs = append(outs, ovOutcome{t == 1, stored, other, in})
				}
				return
			case *ssa.Panic:
				outs = append(outs, ovOutcome{false, stored, other, in})
				return
			case *ssa.If:
				t := e.truth(x.Cond, pf)
				if t != 0 {
					walk(b.Succs[0], b, pf, stored, other, depth+1)
				}
				if t != 1 {
					walk(b.Succs[1], b, pf, stored, other, depth+1)
				}
				return
			case *ssa.Jump:
				walk(b.Succs[0], b, pf, stored, other, depth+1)
				return
			}
		}
	}
	if len(e.fn.Blocks) > 0 {
		walk(e.fn.Blocks[0], nil, nil, false, false, 0)
	}
	return
}

// checkedAdd32 decides, for every sign/overflow case, that fnName stores field+param and
// returns true exactly when the mathematical sum fits in int32.
func checkedAdd32(c *Ctx, fnName, field string) {
	rule := "checked-add"
	construct := fnName + ": accepts (stores the sum, returns true) exactly when window+n fits in int32"
	fn := c.MustFn(fnName)
	fv := c.P.Field(field)
	if fn == nil {
		return
	}
	if fv == nil || len(fn.Params) != 2 {
		c.Undecided(rule, construct, "anchor not found")
		return
	}
	n := 0
	for _, sa := range []int{-1, 0, 1} {
		for _, sb := range []int{-1, 0, 1} {
			for _, ov := range []int{0, 1, -1} {
				if ov == 1 && !(sa == 1 && sb == 1) || ov == -1 && !(sa == -1 && sb == -1) {
					continue
				}
				k := ovCase{sa, sb, ov}
				e := &ovEval{fn: fn, field: fv, k: k}
				outs, und := e.run()
				if und != "" || len(outs) == 0 {
					c.Undecided(rule, construct, "case "+k.String()+": "+und)
					return
				}
				n++
				for _, o := range outs {
					switch {
					case o.storedOther:
						c.Fail(rule, construct, o.at.Pos(), "case "+k.String()+": the window is assigned something other than window+n")
						return
					case ov == 0 && !(o.accept && o.stored):
						c.Fail(rule, construct, o.at.Pos(), "case "+k.String()+": a path can reject the update or return without storing the sum (a legal WINDOW_UPDATE / SETTINGS adjustment is answered with a flow-control error)")
						return
					case ov != 0 && (o.accept || o.stored):
						c.Fail(rule, construct, o.at.Pos(), "case "+k.String()+": a path can accept the update although the addition wrapped")
						return
					}
				}
			}
		}
	}
	c.OK(rule, construct, fmt.Sprintf("%d sign/overflow cases, every path decided", n))
}

func init() {
	ExtraClause("C08", "Also: outflow.add accepts an increment exactly when window+n fits in int32, for every combination of signs (negative windows after a SETTINGS shrink included); decided by a finite sign/overflow case analysis of its branch conditions.")
	RegisterExtra("C08", func(c *Ctx) { checkedAdd32(c, "(*http2.outflow).add", "http2.outflow.n") })
}
