package props

import (
	"fmt"
	"go/token"
	"sort"
	"strings"

	"golang.org/x/tools/go/ssa"

	. "verif/sa/core"
)

func init() {
	Register(&Property{
		ID:    "C36",
		Floor: 285,
		Clauses: "dnsmessage pack/unpack agreement as structure: for header, Question, ResourceHeader and each of the 14 resource bodies the packer and the unpacker apply the same source-ordered sequence of wire primitives " +
			"(uint16/uint32/type/class/name/text/bytes) to the same struct fields (SVCB: the unpacker's two passes are the packer's prefix, the key/length pair, then the full parameter loop); " +
			"the set of ResourceBody implementations, their realType constants, the cases of unpackResourceBody (each case calls the unpacker of the type whose realType is the case constant and boxes that type), " +
			"the Parser.XResource type guards and the Builder.XResource methods coincide; every Builder.XResource and Resource.pack stores realType() into the header before packing it, packs the body after the header with the builder's compression map and start offset, " +
			"tests every error before committing b.msg, and fixes the length with the offsets returned by the header packer; fixLen refuses bodies > 65535 and writes the length at lenOff; " +
			"AppendPack refuses > 65535 entries per section, fills the four counts from the four slices, and packs all sections with one compression map and the offset of the header; Builder.Finish writes the header at b.start; " +
			"Name.pack guards (length > 254, empty, missing trailing dot, label >= 64, empty label) precede any output; the compression pointer is stored only for offsets <= 0x3FFF, looked up and stored under the same suffix start, " +
			"and the pointer bytes ptr>>8|0xC0, ptr agree with Name.unpack's (c^0xC0)<<8|c1 and with the 0xC0 dispatch mask in unpack and skipName; SRV/SVCB targets are packed without compression.",
		NotCovered: "equality of values after a round trip (primitive encoders are compared by name, not evaluated); that the compression key is only taken at a label boundary; SVCB parameter ordering rules; " +
			"truncation of OPT option lengths above 65535; Unknown resources whose Type collides with a known type; GoString.",
		Run: c36,
	})
}

const dm = "dns/dnsmessage."

var dnsTypes = []string{"A", "NS", "CNAME", "SOA", "PTR", "MX", "TXT", "AAAA", "SRV", "OPT", "SVCB", "HTTPS", "Unknown"}

func dnsWriterVocab() map[string]SeqTok {
	return map[string]SeqTok{
		dm + "packUint16":          {Tok: "u16", ConstArg: -1, FieldArg: 1},
		dm + "packUint32":          {Tok: "u32", ConstArg: -1, FieldArg: 1},
		dm + "packType":            {Tok: "type", ConstArg: -1, FieldArg: 1},
		dm + "packClass":           {Tok: "class", ConstArg: -1, FieldArg: 1},
		"(*" + dm + "Name).pack":   {Tok: "name", ConstArg: -1, FieldArg: 0},
		dm + "packText":            {Tok: "text", ConstArg: -1, FieldArg: 1},
		dm + "packBytes":           {Tok: "bytes", ConstArg: -1, FieldArg: 1},
		"(*" + dm + "Header).pack": {Tok: "", ConstArg: -1, FieldArg: -1},
	}
}

func dnsReaderVocab() map[string]SeqTok {
	return map[string]SeqTok{
		dm + "unpackUint16":        {Tok: "u16", ConstArg: -1, FieldArg: -2},
		dm + "unpackUint32":        {Tok: "u32", ConstArg: -1, FieldArg: -2},
		dm + "unpackType":          {Tok: "type", ConstArg: -1, FieldArg: -2},
		dm + "unpackClass":         {Tok: "class", ConstArg: -1, FieldArg: -2},
		"(*" + dm + "Name).unpack": {Tok: "name", ConstArg: -1, FieldArg: 0},
		dm + "unpackText":          {Tok: "text", ConstArg: -1, FieldArg: -2},
		dm + "unpackBytes":         {Tok: "bytes", ConstArg: -1, FieldArg: 2},
	}
}

func c36(c *Ctx) {
	wv, rv := dnsWriterVocab(), dnsReaderVocab()

	// ---- fixed structures
	c.TokSeqAgree("(*"+dm+"header).pack", "(*"+dm+"header).unpack", wv, rv)
	c.TokSeqAgree("(*"+dm+"ResourceHeader).pack", "(*"+dm+"ResourceHeader).unpack", wv, rv)
	c.TokSeqAgree("(*"+dm+"Question).pack", "(*"+dm+"Parser).Question", wv, rv)

	// ---- resource bodies
	for _, t := range dnsTypes {
		w := "(*" + dm + t + "Resource).pack"
		r := dm + "unpack" + t + "Resource"
		switch t {
		case "HTTPS":
			continue // embeds SVCBResource: promoted pack, shared unpacker (checked below)
		case "OPT":
			rv2 := dnsReaderVocab()
			rv2["builtin:copy"] = SeqTok{Tok: "bytes", ConstArg: -1, FieldArg: 0}
			c.TokSeqAgree(w, r, wv, rv2)
		case "SVCB":
			wv2, rv2 := dnsWriterVocab(), dnsReaderVocab()
			wv2["builtin:append"] = SeqTok{Tok: "bytes", ConstArg: -1, FieldArg: 1}
			rv2["builtin:copy"] = SeqTok{Tok: "bytes", ConstArg: -1, FieldArg: 0}
			wf, rf := c.MustFn(w), c.MustFn(r)
			if wf == nil || rf == nil {
				continue
			}
			ws, rs := c.P.TokSeq(wf, wv2, false), c.P.TokSeq(rf, rv2, true)
			construct := w + " ~ " + r + " (two-pass reader)"
			if len(ws) != 5 {
				c.Fail("codec-sequence", construct, wf.Pos(), "writer sequence is ["+strings.Join(ws, " ")+"], expected priority, target and a key/length/value loop")
				continue
			}
			want := append(append(append([]string{}, ws[:2]...), ws[2:4]...), ws[2:]...)
			if ok, why := TokAgree(want, rs); !ok {
				c.Fail("codec-sequence", construct, rf.Pos(), why)
			} else {
				c.OK("codec-sequence", construct, "writer ["+strings.Join(ws, " ")+"] reader ["+strings.Join(rs, " ")+"]")
			}
		default:
			c.TokSeqAgree(w, r, wv, rv)
		}
	}
	// targets that must not be compressed
	c.Count("(*"+dm+"SRVResource).pack", Calls("(*"+dm+"Name).pack").ArgIs(2, "nil"), 1, 1)
	c.Count("(*"+dm+"SVCBResource).pack", Calls("(*"+dm+"Name).pack").ArgIs(2, "nil"), 1, 1)
	for _, t := range []string{"CNAME", "NS", "PTR", "MX"} {
		c.Count("(*"+dm+t+"Resource).pack", Calls("(*"+dm+"Name).pack").ArgIs(2, "$1").ArgIs(3, "$2"), 1, 1)
	}
	c.Count("(*"+dm+"SOAResource).pack", Calls("(*"+dm+"Name).pack").ArgIs(2, "$1").ArgIs(3, "$2"), 2, 2)

	// ---- type registry
	impl := c.P.Implementers(dm + "ResourceBody")
	var want []string
	for _, t := range dnsTypes {
		want = append(want, "*"+dm+t+"Resource")
	}
	sort.Strings(want)
	c.Check(strings.Join(impl, ",") == strings.Join(want, ","), "type-registry", "ResourceBody implementations = the 13 resource types of the rule table", token.NoPos,
		fmt.Sprintf("%d types", len(impl)), "implementations: "+strings.Join(impl, ",")+" ; rule table: "+strings.Join(want, ","))
	realType := map[string]string{} // type name -> constant rendered
	for _, t := range dnsTypes {
		fnn := "(*" + dm + t + "Resource).realType"
		fn := c.MustFn(fnn)
		if fn == nil {
			continue
		}
		rets := Returns().F(c.P, fn)
		if len(rets) != 1 {
			c.Undecided("type-registry", fnn, "expected a single return")
			continue
		}
		v := Term(rets[0].(*ssa.Return).Results[0])
		if t == "Unknown" {
			c.Check(v == "$r.Type", "type-registry", fnn+" returns the stored type", fn.Pos(), "", "returns "+v)
			continue
		}
		k, ok := c.P.ConstInt(dm + "Type" + t)
		c.Check(ok && v == fmt.Sprint(k), "type-registry", fnn+" returns Type"+t, fn.Pos(), v, fmt.Sprintf("returns %s, Type%s = %d", v, t, k))
		realType[t] = v
	}
	// unpackResourceBody: case constant -> unpacker -> boxed type
	urb := dm + "unpackResourceBody"
	if fn := c.MustFn(urb); fn != nil {
		seen := map[string]bool{}
		ForEachInstr(fn, func(in ssa.Instruction) {
			call, ok := in.(*ssa.Call)
			if !ok {
				return
			}
			cn := CalleeName(&call.Call)
			if !strings.HasPrefix(cn, dm+"unpack") || !strings.HasSuffix(cn, "Resource") {
				return
			}
			unp := strings.TrimSuffix(strings.TrimPrefix(cn, dm+"unpack"), "Resource")
			// boxed type in the same block
			boxed := ""
			for _, x := range call.Block().Instrs {
				if mi, ok := x.(*ssa.MakeInterface); ok {
					boxed = Short(mi.X.Type().String())
				}
			}
			boxedT := strings.TrimSuffix(strings.TrimPrefix(boxed, "*"+dm), "Resource")
			construct := urb + ": case for " + boxedT
			if seen[boxedT] {
				c.Fail("type-registry", construct, call.Pos(), "type boxed in two cases")
				return
			}
			seen[boxedT] = true
			wantUnp := boxedT
			if boxedT == "HTTPS" {
				wantUnp = "SVCB"
			}
			if unp != wantUnp {
				c.Fail("type-registry", construct, call.Pos(), "case boxes "+boxed+" but calls unpack"+unp+"Resource")
				return
			}
			if boxedT == "Unknown" {
				// default case: every known constant is excluded
				missing := []string{}
				for t, k := range realType {
					if !c.P.HoldsAt(call, "$2.Type != "+k, true) {
						missing = append(missing, t)
					}
				}
				sort.Strings(missing)
				c.Check(len(missing) == 0 && Term(BaselineArgs(&call.Call)[0]) == "$2.Type", "type-registry", construct, call.Pos(), "default case, stores hdr.Type",
					"reachable with hdr.Type equal to the constant of: "+strings.Join(missing, ",")+"; recordType argument "+Term(BaselineArgs(&call.Call)[0]))
				return
			}
			k, ok := realType[boxedT]
			if !ok || !c.P.HoldsAt(call, "$2.Type == "+k, true) {
				c.Fail("type-registry", construct, call.Pos(), "the case is not entered under hdr.Type == realType() = "+k+"; facts: {"+FactsText(call)+"}")
				return
			}
			c.OK("type-registry", construct, "hdr.Type == "+k+" → unpack"+unp+"Resource → "+boxed)
		})
		var missing []string
		for _, t := range dnsTypes {
			if !seen[t] {
				missing = append(missing, t)
			}
		}
		c.Check(len(missing) == 0, "type-registry", urb+": a case for every resource type", fn.Pos(), fmt.Sprintf("%d cases", len(seen)), "no case boxing: "+strings.Join(missing, ","))
		c.Count(urb, RetTerm(1, "($1+$2.Length)"), 1, 1)
	}

	// ---- Parser / Builder per type
	for _, t := range dnsTypes {
		pf := "(*" + dm + "Parser)." + t + "Resource"
		bf := "(*" + dm + "Builder)." + t + "Resource"
		body := "(*" + dm + t + "Resource)."
		switch t {
		case "SVCB", "HTTPS":
			k := realType[t]
			c.Count(pf, Calls("(*"+dm+"Parser).genericSVCBResource").ArgIs(1, k), 1, 1)
			c.Count(bf, Stores(dm+"ResourceHeader.Type").Where("value = "+t+".realType()", func(in ssa.Instruction) bool {
				return IsCallTo(body + "realType")(in.(*ssa.Store).Val)
			}), 1, 1)
			c.Before(bf, Stores(dm+"ResourceHeader.Type"), Calls("(*"+dm+"Builder).genericSVCBResource"))
			c.Count(bf, Calls("(*"+dm+"Builder).genericSVCBResource").ArgIs(1, "$0"), 1, 1)
			continue
		}
		unp := Calls(dm + "unpack" + t + "Resource")
		c.Reject(pf, unp, "!$r.resHeaderValid")
		if t != "Unknown" {
			c.Reject(pf, unp, "$r.resHeaderType != "+realType[t])
		}
		c.ErrChecked(pf, unp, 1, Union(RetOK(), Stores(dm+"Parser.off")))
		c.Count(pf, Stores(dm+"Parser.off").StoredIs("($r.off+$r.resHeaderLength)"), 1, 1)
		builderMethod(c, bf, body, "(*"+dm+"Builder).checkResourceSection")
	}
	// generic SVCB helpers
	gp := "(*" + dm + "Parser).genericSVCBResource"
	c.Reject(gp, Calls(dm+"unpackSVCBResource"), "!$r.resHeaderValid")
	c.Reject(gp, Calls(dm+"unpackSVCBResource"), "$r.resHeaderType != $0")
	c.ErrChecked(gp, Calls(dm+"unpackSVCBResource"), 1, Union(RetOK(), Stores(dm+"Parser.off")))
	c.Count(gp, Stores(dm+"Parser.off").StoredIs("($r.off+$r.resHeaderLength)"), 1, 1)
	c.Callers(gp, "(*"+dm+"Parser).SVCBResource", "(*"+dm+"Parser).HTTPSResource")
	builderMethod(c, "(*"+dm+"Builder).genericSVCBResource", "(*"+dm+"SVCBResource).", "(*"+dm+"Builder).checkResourceSection")
	c.Callers("(*"+dm+"Builder).genericSVCBResource", "(*"+dm+"Builder).SVCBResource", "(*"+dm+"Builder).HTTPSResource")

	// ---- Resource.pack (Message path)
	rp := "(*" + dm + "Resource).pack"
	hp := Calls("(*" + dm + "ResourceHeader).pack")
	c.Count(rp, Stores(dm+"ResourceHeader.Type").StoredIs(".realType($r.Body)"), 1, 1)
	c.Before(rp, Stores(dm+"ResourceHeader.Type"), hp)
	c.Reject(rp, Union(hp, Calls(".realType")), "$r.Body == nil")
	c.Count(rp, hp.ArgIs(2, "$1").ArgIs(3, "$2"), 1, 1)
	c.Count(rp, Calls(".pack").ArgIs(0, "pack(&$r.Header,$0,$1,$2)#0").ArgIs(1, "$1").ArgIs(2, "$2"), 1, 1)
	c.ErrChecked(rp, hp, 2, Union(Calls(".pack"), RetOK()))
	c.ErrChecked(rp, Calls(".pack"), 1, RetOK())
	c.ErrChecked(rp, Calls("(*"+dm+"ResourceHeader).fixLen"), -1, RetOK())
	fixLenArgs(c, rp)

	// ---- fixLen
	fl := "(*" + dm + "ResourceHeader).fixLen"
	c.Reject(fl, Union(Calls(dm+"packUint16"), RetOK()), "len($0)-$2 > 65535")
	c.Count(fl, Calls(dm+"packUint16").ArgIs(0, "$0[$1:$1]").ArgIs(1, "(len($0)-$2)"), 1, 1)
	c.Count(fl, Stores(dm+"ResourceHeader.Length").StoredIs("(len($0)-$2)"), 1, 1)
	c.Count("(*"+dm+"ResourceHeader).pack", RetTerm(1, "len(packUint32(packClass(packType(pack(&$r.Name,$0,$1,$2)#0,$r.Type),$r.Class),$r.TTL))"), 1, 1)

	// ---- Message.AppendPack / Builder.Finish / Question
	ap := "(*" + dm + "Message).AppendPack"
	for _, s := range []struct{ slice, count string }{{"Questions", "questions"}, {"Answers", "answers"}, {"Authorities", "authorities"}, {"Additionals", "additionals"}} {
		c.Reject(ap, Union(Calls("(*"+dm+"header).pack"), RetOK()), "len($r."+s.slice+") > 65535")
		c.Count(ap, Stores(dm+"header."+s.count).StoredIs("len($r."+s.slice+")"), 1, 1)
	}
	c.Before(ap, Stores(dm+"header.additionals"), Calls("(*"+dm+"header).pack"))
	c.Count(ap, Calls("(*"+dm+"Question).pack").ArgIs(2, "makemap").ArgIs(3, "len($0)"), 1, 1)
	c.Count(ap, Calls(rp).ArgIs(2, "makemap").ArgIs(3, "len($0)"), 3, 3)
	if fn := c.MustFn(ap); fn != nil {
		n := 0
		ForEachInstr(fn, func(in ssa.Instruction) {
			if _, ok := in.(*ssa.MakeMap); ok {
				n++
			}
		})
		c.Check(n == 1, "single-source", ap+": one compression map shared by all sections", fn.Pos(), "", fmt.Sprintf("%d maps created", n))
	}
	c.ErrChecked(ap, Calls(rp), 1, RetOK())
	c.ErrChecked(ap, Calls("(*"+dm+"Question).pack"), 1, RetOK())
	c.Count("(*"+dm+"Builder).Finish", Calls("(*"+dm+"header).pack").ArgIs(0, "&$r.header").ArgIs(1, "$r.msg[$r.start:$r.start]"), 1, 1)
	c.StoredFrom(dm+"NewBuilder", Stores(dm+"Builder.start"), "len() of the initial buffer", IsCallTo("builtin:len"))
	c.Before(dm+"NewBuilder", Stores(dm+"Builder.start"), Calls("builtin:append"))
	bq := "(*" + dm + "Builder).Question"
	c.Count(bq, Calls("(*"+dm+"Question).pack").ArgIs(1, "$r.msg").ArgIs(2, "$r.compression").ArgIs(3, "$r.start"), 1, 1)
	c.ErrChecked(bq, Calls("(*"+dm+"Question).pack"), 1, Union(Stores(dm+"Builder.msg"), RetOK()))
	c.ErrChecked(bq, Calls("(*"+dm+"Builder).incrementSectionCount"), -1, Union(Stores(dm+"Builder.msg"), RetOK()))
	c.Writers(dm+"Builder.compression", "(*"+dm+"Builder).EnableCompression")

	// ---- Name.pack
	np := "(*" + dm + "Name).pack"
	emit := Calls("builtin:append")
	nmax, _ := c.P.ConstInt(dm + "nonEncodedNameMax")
	c.Reject(np, Union(emit, RetOK()), fmt.Sprintf("$r.Length > %d", nmax))
	c.Reject(np, Union(emit, RetOK()), "$r.Length == 0")
	c.Reject(np, Union(emit, RetOK()), "$r.Data[($r.Length-1)] != 46")
	if fn := c.MustFn(np); fn != nil {
		// label length byte: the appended value that is a difference of two positions
		var lab ssa.Value
		var labStore ssa.Instruction
		var ptrHi, ptrLo ssa.Value
		ForEachInstr(fn, func(in ssa.Instruction) {
			st, ok := in.(*ssa.Store)
			if !ok || !strings.HasPrefix(Term(st.Addr), "&%varargs[") {
				return
			}
			v := stripConv(st.Val)
			if bo, ok := v.(*ssa.BinOp); ok {
				switch bo.Op {
				case token.SUB:
					lab, labStore = v, in
				case token.OR:
					ptrHi = v
				}
			} else if ptrHi != nil && ptrLo == nil && st.Block() == ptrHi.(ssa.Instruction).Block() {
				ptrLo = v
			}
		})
		if lab == nil {
			c.Undecided("anchor", np+": label length byte", "no appended position difference found")
		} else {
			l := Linearize(lab).String()
			sel := Sel{Name: "append of the label length", F: func(*Prog, *ssa.Function) []ssa.Instruction { return []ssa.Instruction{labStore} }}
			c.Reject(np, sel, l+" >= 64")
			c.Reject(np, sel, l+" == 0")
		}
		// pointer emission and table insertion
		upd := Sel{Name: "compression map update", F: func(p *Prog, f *ssa.Function) []ssa.Instruction {
			var out []ssa.Instruction
			ForEachInstr(f, func(in ssa.Instruction) {
				if _, ok := in.(*ssa.MapUpdate); ok {
					out = append(out, in)
				}
			})
			return out
		}}
		ups := upd.F(c.P, fn)
		var look *ssa.Lookup
		ForEachInstr(fn, func(in ssa.Instruction) {
			if l, ok := in.(*ssa.Lookup); ok && Term(l.X) == "$1" {
				look = l
			}
		})
		if len(ups) != 1 || look == nil || ptrHi == nil || ptrLo == nil {
			c.Undecided("anchor", np+": compression", fmt.Sprintf("%d map updates, lookup %v, pointer bytes %v/%v", len(ups), look != nil, ptrHi != nil, ptrLo != nil))
		} else {
			mu := ups[0].(*ssa.MapUpdate)
			off := Linearize(mu.Value).String()
			c.GuardImp(np, upd, off+" <= 16383", "$1 != nil")
			c.Guard(np, upd, "!"+Term(look)+"#1")
			c.Check(Term(mu.Value) == "(len(φ($0|φmsg))-$2)" || strings.HasSuffix(Term(mu.Value), "-$2)") && strings.HasPrefix(Term(mu.Value), "(len("),
				"value-flow", np+": stored pointer = current output length − compressionOff", mu.Pos(), Term(mu.Value), "stored value is "+Term(mu.Value))
			// same suffix start for lookup key and stored key
			lowOf := func(v ssa.Value) string {
				for i := 0; i < 6; i++ {
					switch x := v.(type) {
					case *ssa.Slice:
						if x.Low != nil {
							return Term(x.Low)
						}
						return "0"
					case *ssa.Convert:
						v = x.X
					case *ssa.ChangeType:
						v = x.X
					default:
						return "?" + Term(v)
					}
				}
				return "?"
			}
			kl, ku := lowOf(look.Index), lowOf(mu.Key)
			c.Check(kl == ku && !strings.HasPrefix(kl, "?"), "value-flow", np+": lookup key and stored key are the suffix from the same position", mu.Pos(), "suffix from "+kl, "lookup from "+kl+", store from "+ku)
			c.Guard(np, emitOf(ptrHi), "$1 != nil", Term(look)+"#1")
			// pointer byte layout vs unpack / skipName
			pointerLayout(c, np, ptrHi, ptrLo, Term(look)+"#0")
		}
	}
}

// resultOf: v is result #idx of a call to callee.
func resultOf(v ssa.Value, idx int, callee string) bool {
	ex, ok := v.(*ssa.Extract)
	if !ok || ex.Index != idx {
		return false
	}
	call, ok := ex.Tuple.(*ssa.Call)
	return ok && CalleeName(&call.Call) == callee
}

// argResultOf: argument i of the selected call is result #idx of a call to callee.
func argResultOf(i, idx int, callee string) func(ssa.Instruction) bool {
	return func(in ssa.Instruction) bool {
		ci, ok := in.(ssa.CallInstruction)
		return ok && i < len(BaselineArgs(ci.Common())) && resultOf(BaselineArgs(ci.Common())[i], idx, callee)
	}
}

func emitOf(v ssa.Value) Sel {
	return Sel{Name: "append of the pointer bytes", F: func(*Prog, *ssa.Function) []ssa.Instruction {
		return []ssa.Instruction{v.(ssa.Instruction)}
	}}
}

// builderMethod checks one Builder.XResource (or the generic SVCB helper).
func builderMethod(c *Ctx, bf, body, check string) {
	hp := Calls("(*" + dm + "ResourceHeader).pack")
	bp := Calls(body + "pack")
	fl := Calls("(*" + dm + "ResourceHeader).fixLen")
	commit := Union(Stores(dm+"Builder.msg"), RetOK())
	if !strings.HasSuffix(bf, "genericSVCBResource") {
		c.Count(bf, Stores(dm+"ResourceHeader.Type").Where("value = realType()", func(in ssa.Instruction) bool {
			return IsCallTo(body + "realType")(in.(*ssa.Store).Val)
		}), 1, 1)
		c.Before(bf, Stores(dm+"ResourceHeader.Type"), hp)
	}
	c.ErrChecked(bf, Calls(check), -1, Union(hp, commit))
	c.Count(bf, hp.ArgIs(1, "$r.msg").ArgIs(2, "$r.compression").ArgIs(3, "$r.start"), 1, 1)
	c.Count(bf, bp.Where("arg1 = message returned by the header packer", argResultOf(1, 0, "(*"+dm+"ResourceHeader).pack")).ArgIs(2, "$r.compression").ArgIs(3, "$r.start"), 1, 1)
	c.ErrChecked(bf, hp, 2, Union(bp, commit))
	c.ErrChecked(bf, bp, 1, Union(fl, commit))
	c.ErrChecked(bf, fl, -1, commit)
	c.ErrChecked(bf, Calls("(*"+dm+"Builder).incrementSectionCount"), -1, commit)
	c.Count(bf, Stores(dm+"Builder.msg").Where("value = result of the body packer", func(in ssa.Instruction) bool {
		ex, ok := in.(*ssa.Store).Val.(*ssa.Extract)
		return ok && ex.Index == 0 && IsCallTo(body+"pack")(ex.Tuple)
	}), 1, 1)
	fixLenArgs(c, bf)
}

// fixLenArgs: fixLen receives the packed body, the length offset returned by
// the header packer and the length of the message before the body.
func fixLenArgs(c *Ctx, fnn string) {
	fl := Calls("(*" + dm + "ResourceHeader).fixLen")
	hp := "(*" + dm + "ResourceHeader).pack"
	c.Count(fnn, fl.Where("lenOff = offset returned by the header packer", argResultOf(2, 1, hp)).
		Where("preLen = len(message returned by the header packer)", func(in ssa.Instruction) bool {
			args := BaselineArgs(in.(ssa.CallInstruction).Common())
			call, ok := args[3].(*ssa.Call)
			return ok && CalleeName(&call.Call) == "builtin:len" && resultOf(BaselineArgs(&call.Call)[0], 0, hp)
		}), 1, 1)
	c.ArgFrom(fnn, fl, 1, "the body packer's output", func(v ssa.Value) bool {
		call, ok := v.(*ssa.Call)
		if !ok {
			return false
		}
		n := CalleeName(&call.Call)
		return n == ".pack" || strings.HasSuffix(n, "Resource).pack")
	})
}

// pointerLayout compares the pointer encoding constants of Name.pack with the
// decoding constants of Name.unpack and skipName.
func pointerLayout(c *Ctx, np string, hi, lo ssa.Value, ptrTerm string) {
	rule := "pointer-layout"
	var mask, shift int64 = -1, -1
	if bo, ok := hi.(*ssa.BinOp); ok && bo.Op == token.OR {
		if k, ok := stripConv(bo.Y).(*ssa.Const); ok {
			mask, _ = IntOf64(k)
		}
		if sh, ok := stripConv(bo.X).(*ssa.BinOp); ok && sh.Op == token.SHR && Term(stripConv(sh.X)) == ptrTerm {
			if k, ok := stripConv(sh.Y).(*ssa.Const); ok {
				shift, _ = IntOf64(k)
			}
		}
	}
	c.Check(mask == 0xC0 && shift == 8 && Term(lo) == ptrTerm, rule, np+": pointer bytes are ptr>>8|0xC0, ptr", hi.Pos(), "",
		fmt.Sprintf("mask %#x, shift %d, low byte %s (pointer %s)", mask, shift, Term(lo), ptrTerm))
	// largest storable offset has no bits under the mask
	c.Check((16383>>8)&mask == 0 && (16384>>8)&0x40 != 0, rule, np+": offsets <= 0x3FFF leave the two tag bits free", hi.Pos(), "", "")
	un := "(*" + dm + "Name).unpack"
	for _, fnn := range []string{un, dm + "skipName"} {
		fn := c.MustFn(fnn)
		if fn == nil {
			continue
		}
		var and, xor, shl int64 = -1, -1, -1
		ForEachInstr(fn, func(in ssa.Instruction) {
			bo, ok := in.(*ssa.BinOp)
			if !ok {
				return
			}
			k, isK := stripConv(bo.Y).(*ssa.Const)
			if !isK {
				return
			}
			n, _ := IntOf64(k)
			switch bo.Op {
			case token.AND:
				and = n
			case token.XOR:
				xor = n
			case token.SHL:
				shl = n
			}
		})
		if fnn == un {
			c.Check(and == mask && xor == mask && shl == shift, rule, fnn+": dispatch mask, tag removal and shift match the packer", fn.Pos(), "",
				fmt.Sprintf("and %#x xor %#x shl %d vs packer mask %#x shift %d", and, xor, shl, mask, shift))
		} else {
			c.Check(and == mask, rule, fnn+": dispatch mask matches the packer", fn.Pos(), "", fmt.Sprintf("and %#x vs %#x", and, mask))
		}
	}
}
