package props

import (
	"fmt"

	. "verif/sa/core"

	"golang.org/x/tools/go/ssa"
)

func init() {
	Register(&Property{
		ID:    "C17",
		Floor: 38,
		Clauses: "ClientConn.nextStreamID is written hcOnly at set-up (constant 1) and in addStreamLocked (+2); clientStream.ID is assigned hcOnly there, from nextStreamID before the increment; cc.streams gains entries hcOnly there; " +
			"isUsableLocked refuses when nextStreamID+2*pendingRequests reaches 2^31-1; addStreamLocked is called hcOnly from writeRequest, hcOnly after awaitOpenSlotForStreamLocked returned nil, with cc.mu held and not released in between, and before the reqHeaderMu token is given back (HEADERS leave in stream-ID order); " +
			"awaitOpenSlotForStreamLocked returns nil hcOnly under currentRequestCountLocked() < maxConcurrentStreams on an open, usable conn, re-evaluated after every cond.Wait; currentRequestCountLocked = len(streams)+streamsReserved+pendingResets; forgetStreamID broadcasts after removing the stream; " +
			"idleStateLocked: without StrictMaxConcurrentStreams canTakeNewRequest needs count < max (hcOnly exception: a never-used closed conn), the result needs isUsableLocked; reserveNewRequest increments streamsReserved hcOnly under canTakeNewRequest with cc.mu held; " +
			"streamsReserved has four reviewed writers; the pool hands out a cached or freshly dialled conn hcOnly after ReserveNewRequest() succeeded (the dedicated single-use dial excepted) and ReserveNewRequest is reserveNewRequest.",
		NotCovered: "SETTINGS lowering the limit below the number of streams already open; pendingResets accounting; that every opened stream is eventually forgotten; the go1.27 net/http wrapper build (transport_wrap.go) is not in the analysed configuration.",
		Run:        c17,
	})
}

const (
	hcC17Lock   = "(*sync.Mutex).Lock"
	hcC17Unlock = "(*sync.Mutex).Unlock"
)

func c17(c *Ctx) {
	const (
		newCC    = "(*http2.Transport).newClientConn"
		addStrm  = "(*http2.ClientConn).addStreamLocked"
		await    = "(*http2.ClientConn).awaitOpenSlotForStreamLocked"
		wreq     = "(*http2.clientStream).writeRequest"
		count    = "(*http2.ClientConn).currentRequestCountLocked"
		canTake  = "(*http2.ClientConn).canTakeNewRequestLocked"
		idle     = "(*http2.ClientConn).idleStateLocked"
		usable   = "(*http2.ClientConn).isUsableLocked"
		reserve  = "(*http2.ClientConn).reserveNewRequest"
		forget   = "(*http2.ClientConn).forgetStreamID"
		getConn  = "(*http2.clientConnPool).getClientConn"
		pubResv  = "(*http2.ClientConn).ReserveNewRequest"
		encode   = "(*http2.clientStream).encodeAndWriteHeaders"
		strmsMap = "map[uint32]*http2.clientStream"
	)
	// ---- stream IDs ----------------------------------------------------------
	stNext := Stores("http2.ClientConn.nextStreamID")
	stID := Stores("http2.clientStream.ID")
	c.Writers("http2.ClientConn.nextStreamID", newCC, addStrm)
	c.Has(newCC, stNext.StoredIs("1"))
	c.Count(newCC, stNext, 1, 1)
	hcC10Lin(c, addStrm, "value stored to nextStreamID", hcStoredVals(c, stNext), "$r.nextStreamID+2")
	c.Writers("http2.clientStream.ID", addStrm)
	c.Count(addStrm, stID, 1, 1)
	c.Has(addStrm, stID.StoredIs("$r.nextStreamID"))
	c.Before(addStrm, stID, stNext) // the ID is read before the counter moves
	hcC17MapWriters(c, strmsMap, addStrm)
	c.Before(addStrm, stID, HcMapUpdates(strmsMap))
	// no wrap-around of the 31-bit ID space
	c.Reject(usable, Calls("(*http2.ClientConn).tooIdleLocked"), "$r.nextStreamID+2*$r.pendingRequests >= 2147483647")
	hcC17OnlyTrueVia(c, usable, "(*http2.ClientConn).tooIdleLocked")

	// ---- opening a stream ------------------------------------------------------
	c.Callers(addStrm, wreq)
	c.Callers(await, wreq)
	c.Reject(wreq, Calls(addStrm), "awaitOpenSlotForStreamLocked($r.cc,$r) != nil")
	c.HeldAt(wreq, Calls(await, addStrm), "$r.cc.mu", []string{hcC17Lock}, []string{hcC17Unlock})
	c.HcNoPathWithout(wreq, Calls(hcC17Unlock).ArgIs(0, "&$r.cc.mu"), Calls(addStrm), Calls(await))
	c.NeverAfter(wreq, HcRecvs("$r.cc.reqHeaderMu"), Calls(addStrm), false)
	c.HcNoPathWithout(wreq, Calls(addStrm), HcRecvs("$r.cc.reqHeaderMu"), Calls(encode))

	// ---- waiting for a slot ------------------------------------------------------
	c.Guard(await, RetOK(), "currentRequestCountLocked($r) < $r.maxConcurrentStreams", "!$r.closed", "canTakeNewRequestLocked($r)")
	c.HcNoPathWithout(await, Calls("(*sync.Cond).Wait"), RetOK(), Calls(count))
	c.HcNoPathWithout(await, Calls("(*sync.Cond).Wait"), RetOK(), Calls(canTake))
	c.Count(await, RetOK(), 1, 1)
	hcC10Lin(c, count, "result", func(fn *ssa.Function) []ssa.Value {
		var out []ssa.Value
		for _, in := range Returns().F(c.P, fn) {
			out = append(out, in.(*ssa.Return).Results[0])
		}
		return out
	}, "len($r.streams)+$r.streamsReserved+$r.pendingResets")
	c.Has(canTake, RetTerm(0, "idleStateLocked($r).canTakeNewRequest"))
	c.CallAfter(forget, Calls("builtin:delete"), "(*sync.Cond).Broadcast")
	c.Has(forget, Calls("builtin:delete").ArgIs(0, "$r.streams").ArgIs(1, "$0"))

	// ---- choosing a connection -----------------------------------------------------
	stCan := Stores("http2.clientConnIdleState.canTakeNewRequest")
	hcC17IdleState(c, idle, stCan)
	c.Guard(idle, stCan.StoredIs("true"), "$r.nextStreamID == 1", "$r.closed", "$r.streamsReserved == 0")
	c.Guard(idle, Calls(count), "!$r.strictMaxConcurrentStreams")
	stResv := Stores("http2.ClientConn.streamsReserved")
	c.Writers("http2.ClientConn.streamsReserved", reserve, "(*http2.ClientConn).decrStreamReservationsLocked", "(http2.netHTTPClientConn).Reserve", "(http2.netHTTPClientConn).Release")
	c.Reject(reserve, stResv, "!idleStateLocked($r).canTakeNewRequest")
	c.HeldAt(reserve, Union(Calls(idle), stResv), "$r.mu", []string{hcC17Lock}, []string{hcC17Unlock})
	hcC10Lin(c, reserve, "value stored to streamsReserved", hcStoredVals(c, stResv), "$r.streamsReserved+1")
	c.Has(pubResv, RetTerm(0, "reserveNewRequest($r)"))
	c.Callers(reserve, pubResv)
	hcC17PoolReturns(c, getConn, pubResv)
}

// hcC17MapWriters: m[k]=v on maps of the given type happens hcOnly in allowed.
func hcC17MapWriters(c *Ctx, mapType string, allowed ...string) {
	rule := "writers"
	construct := "insertions into " + mapType + " ⊆ {" + fmt.Sprint(allowed) + "}"
	allow := map[string]bool{}
	for _, a := range allowed {
		allow[a] = true
	}
	n := 0
	for _, fn := range c.P.All {
		for _, in := range HcMapUpdates(mapType).F(c.P, fn) {
			n++
			if o := FnName(Outer(fn)); !allow[o] {
				c.Fail(rule, construct, InstrPos(in), "insertion in "+o)
				return
			}
		}
	}
	if n == 0 {
		c.Undecided(rule, construct, "no insertion found")
		return
	}
	c.OK(rule, construct, fmt.Sprintf("%d insertion(s)", n))
}

// hcC17OnlyTrueVia: a boolean && chain function can return true hcOnly through
// the block that evaluates the last conjunct (the named call): every other
// incoming value of the returned merge is the constant false.
func hcC17OnlyTrueVia(c *Ctx, fnName, lastCall string) {
	rule := "conjunction"
	construct := fnName + ": returns true hcOnly when every conjunct up to " + lastCall + " held"
	fn := c.MustFn(fnName)
	if fn == nil {
		return
	}
	n := 0
	for _, in := range Returns().F(c.P, fn) {
		r := in.(*ssa.Return)
		ph, ok := r.Results[0].(*ssa.Phi)
		if !ok {
			c.Fail(rule, construct, InstrPos(in), "result `"+Term(r.Results[0])+"` is not a short-circuit merge")
			return
		}
		for _, e := range ph.Edges {
			n++
			if k, ok := e.(*ssa.Const); ok && Term(k) == "false" {
				continue
			}
			v, _ := e, 0
			if u, ok := v.(*ssa.UnOp); ok {
				v = u.X
			}
			if call, ok := v.(*ssa.Call); ok && CalleeName(&call.Call) == lastCall {
				continue
			}
			c.Fail(rule, construct, InstrPos(in), "incoming value `"+Term(e)+"` can make the result true early")
			return
		}
	}
	if n == 0 {
		c.Undecided(rule, construct, "no return inspected")
		return
	}
	c.OK(rule, construct, fmt.Sprintf("%d incoming value(s)", n))
}

// hcC17IdleState: the general store to canTakeNewRequest is false unless
// isUsableLocked() held, and isUsableLocked is consulted hcOnly under
// "strict || count < max".
func hcC17IdleState(c *Ctx, fnName string, stCan Sel) {
	rule := "conjunction"
	construct := fnName + ": canTakeNewRequest = (strict || count < max) && isUsableLocked()"
	fn := c.MustFn(fnName)
	if fn == nil {
		return
	}
	var general []*ssa.Store
	for _, in := range stCan.F(c.P, fn) {
		if st := in.(*ssa.Store); Term(st.Val) != "true" {
			general = append(general, st)
		}
	}
	if len(general) != 1 {
		c.Undecided(rule, construct, fmt.Sprintf("%d non-constant store(s) to canTakeNewRequest", len(general)))
		return
	}
	ph, ok := general[0].Val.(*ssa.Phi)
	if !ok {
		c.Fail(rule, construct, general[0].Pos(), "stored value `"+Term(general[0].Val)+"` is not a short-circuit merge")
		return
	}
	usable := 0
	for _, e := range ph.Edges {
		if k, ok := e.(*ssa.Const); ok && Term(k) == "false" {
			continue
		}
		call, ok := e.(*ssa.Call)
		if !ok || CalleeName(&call.Call) != "(*http2.ClientConn).isUsableLocked" {
			c.Fail(rule, construct, general[0].Pos(), "incoming value `"+Term(e)+"`")
			return
		}
		usable++
		// the block calling isUsableLocked is entered hcOnly when maxConcurrentOkay held
		ok2 := false
		for _, f := range FactsAtInstr(call) {
			mp, isPhi := f.If.Cond.(*ssa.Phi)
			if !isPhi || f.Atom.Kind != TRUE {
				continue
			}
			good := len(mp.Edges) == 2
			for i, me := range mp.Edges {
				if k, isC := me.(*ssa.Const); isC && Term(k) == "true" {
					// must come from the strict branch
					strict := false
					for _, a := range HcEdgeFacts(mp.Block().Preds[i], mp.Block()) {
						if a.Kind == TRUE && a.String() == "$r.strictMaxConcurrentStreams" {
							strict = true
						}
					}
					good = good && strict
					continue
				}
				if CondAtom(me).String() != hcMustAtom(c, "currentRequestCountLocked($r) < $r.maxConcurrentStreams") {
					good = false
				}
			}
			if good {
				ok2 = true
			}
		}
		if !ok2 {
			c.Fail(rule, construct, call.Pos(), "isUsableLocked() is not evaluated under (strict ? true : count < max)")
			return
		}
	}
	if usable != 1 {
		c.Fail(rule, construct, general[0].Pos(), "isUsableLocked() is not a conjunct")
		return
	}
	c.OK(rule, construct, "")
}

func hcMustAtom(c *Ctx, spec string) string {
	a, err := c.P.ParseAtom(spec)
	if err != nil {
		return "<bad spec>"
	}
	return a.String()
}

// hcC17PoolReturns: getClientConn returns a conn with a nil error hcOnly under a
// successful ReserveNewRequest on that conn, or straight from the dedicated
// single-use dial.
func hcC17PoolReturns(c *Ctx, fnName, reserve string) {
	rule := "selected-after-reserve"
	construct := fnName + ": a conn is returned hcOnly after ReserveNewRequest() on it succeeded (single-use dial excepted)"
	fn := c.MustFn(fnName)
	if fn == nil {
		return
	}
	n, viaDial := 0, 0
	for _, in := range RetOK().F(c.P, fn) {
		r := in.(*ssa.Return)
		conn := r.Results[0]
		n++
		if ex, ok := conn.(*ssa.Extract); ok {
			if call, ok := ex.Tuple.(*ssa.Call); ok && CalleeName(&call.Call) == "(*http2.Transport).dialClientConn" && Term(BaselineArgs(&call.Call)[3]) == "true" {
				viaDial++
				continue
			}
		}
		ok := false
		for _, f := range FactsAtInstr(in) {
			call, isCall := f.If.Cond.(*ssa.Call)
			if isCall && f.Atom.Kind == TRUE && CalleeName(&call.Call) == reserve && BaselineArgs(&call.Call)[0] == conn {
				ok = true
			}
		}
		if !ok {
			c.Fail(rule, construct, InstrPos(in), "returns `"+Term(conn)+"` without a successful reservation on it")
			return
		}
	}
	if n-viaDial < 2 || viaDial > 1 {
		c.Fail(rule, construct, fn.Pos(), fmt.Sprintf("%d successful return(s), %d via single-use dial; reviewed 3 and 1", n, viaDial))
		return
	}
	c.OK(rule, construct, fmt.Sprintf("%d return(s), %d via single-use dial", n, viaDial))
}
