package props

import (
	"fmt"
	"go/token"
	"go/types"
	"sort"
	"strings"

	"golang.org/x/tools/go/ssa"

	. "verif/sa/core"
)

func init() {
	Register(&Property{
		ID:    "C54",
		Floor: 45,
		Clauses: "SOCKS5 client (internal/socks): byte layout of the greeting and of the CONNECT request as built by the append chain on every address-type path " +
			"(ver cmd rsv atyp addr port-hi port-lo; FQDN carries byte(len(host)) then the host bytes; the IPv4/IPv6 markers go with To4/To16 of the parsed host); " +
			"host and port are those split from the address argument and the port range test 1..65535; len(host)>255 and len(AuthMethods)>255 are rejected before byte(len) is emitted; " +
			"the method reply and the command reply are validated before success (version, no-acceptable-methods, status, reserved, address type in {1,3,4}; the error of every ReadFull/Write is tested); " +
			"the reply length per address type (2+4, 2+16, 2+first byte), the port decoded big-endian from the last two bytes, and the bound address reaches Conn.boundAddr; " +
			"Dialer.cmd is only set by NewDialer (CmdConnect); slice/index sites reachable from connect are inventoried (capacity 6+len(host), cap(b)<l regrow branch).",
		NotCovered: "what a conforming server decodes (server side is not in the repo); net.ParseIP/To4/To16 behaviour; the Authenticate callback's own traffic (UsernamePassword layout is not checked); " +
			"equality of the returned address with the bytes the server sent at run time; nil-dereference, deadline and cancellation behaviour.",
		Run: c54,
	})
}

func c54(c *Ctx) {
	const connect = "(*internal/socks.Dialer).connect"
	const host = "splitHostPort($2)#0"
	const port = "splitHostPort($2)#1"
	fn := c.MustFn(connect)
	if fn == nil {
		return
	}
	k := func(name string) string {
		v, ok := c.P.ConstInt("internal/socks." + name)
		if !ok {
			c.Undecided("anchor", "internal/socks."+name, "constant not found")
		}
		return fmt.Sprint(v)
	}
	ver, ip4, ip6, fqdn := k("Version5"), k("AddrTypeIPv4"), k("AddrTypeIPv6"), k("AddrTypeFQDN")

	// ---- request and greeting byte layout from the append chains ----
	writes := Calls(".Write").F(c.P, fn)
	var reqSeqs, helloSeqs []string
	var reqWrite ssa.Instruction
	for _, w := range writes {
		seqs := AppendSeqs(BaselineArgs(&w.(*ssa.Call).Call)[0])
		if strings.Contains(strings.Join(seqs, "\n"), "$r.cmd") {
			reqSeqs, reqWrite = seqs, w
		} else {
			helloSeqs = append(helloSeqs, seqs...)
		}
	}
	c.Check(len(writes) == 2 && reqWrite != nil, "codec-layout", connect+": two writes to the proxy conn (greeting, request)", fn.Pos(),
		"2 writes", fmt.Sprintf("found %d Write calls; request identified: %v", len(writes), reqWrite != nil))
	tail := "(" + port + ">>8) " + port
	head := "[ " + ver + " $r.cmd 0 "
	wantReq := map[string]string{
		"IPv4": head + ip4 + " ...To4(ParseIP(" + host + ")) " + tail,
		"IPv6": head + ip6 + " ...To16(ParseIP(" + host + ")) " + tail,
		"FQDN": head + fqdn + " len(" + host + ") ..." + host + " " + tail,
	}
	for _, kind := range []string{"IPv4", "IPv6", "FQDN"} {
		found := false
		for _, s := range reqSeqs {
			if s == wantReq[kind] {
				found = true
			}
		}
		c.Check(found, "codec-layout", connect+": request bytes for "+kind+" = ver cmd rsv atyp addr port(BE)", fn.Pos(),
			wantReq[kind], "no path builds ["+wantReq[kind]+"]; paths: "+strings.Join(reqSeqs, " || "))
	}
	c.Check(len(reqSeqs) == 3, "codec-layout", connect+": request has exactly the three address-type layouts", fn.Pos(),
		"3 paths", "paths: "+strings.Join(reqSeqs, " || "))
	// greeting: ver, nmethods, methods
	has := func(ss []string, want string) bool {
		for _, s := range ss {
			if s == want {
				return true
			}
		}
		return false
	}
	c.Check(has(helloSeqs, "[ "+ver+" 1 0"), "codec-layout", connect+": greeting without auth = ver 1 NotRequired", fn.Pos(), "", "paths: "+strings.Join(helloSeqs, " || "))
	c.Check(has(helloSeqs, "[ "+ver+" len($r.AuthMethods)"), "codec-layout", connect+": greeting with auth starts ver byte(len(AuthMethods))", fn.Pos(), "", "paths: "+strings.Join(helloSeqs, " || "))
	loopOK := false
	for _, s := range helloSeqs {
		if strings.HasPrefix(s, "* $r.AuthMethods[") && len(strings.Fields(s)) == 2 {
			loopOK = true
		}
	}
	c.Check(loopOK, "codec-layout", connect+": greeting appends one byte per AuthMethods element", fn.Pos(), "", "paths: "+strings.Join(helloSeqs, " || "))

	// ---- destination provenance and length guards ----
	c.Has(connect, Calls("internal/socks.splitHostPort").ArgIs(0, "$2"))
	lenHost := StoreVal("len(" + host + ")")
	c.Reject(connect, lenHost, "len("+host+") > 255")
	c.Guard(connect, lenHost, "ParseIP("+host+") == nil")
	c.Reject(connect, StoreVal("len($r.AuthMethods)"), "len($r.AuthMethods) > 255")
	sp := "internal/socks.splitHostPort"
	c.Reject(sp, RetOK(), "SplitHostPort($0)#2 != nil")
	c.Reject(sp, RetOK(), "Atoi(SplitHostPort($0)#1)#1 != nil")
	c.Reject(sp, RetOK(), "Atoi(SplitHostPort($0)#1)#0 < 1")
	c.Reject(sp, RetOK(), "Atoi(SplitHostPort($0)#1)#0 > 65535")
	c.Has(sp, RetOK().Where("returns the split host and the parsed port", func(in ssa.Instruction) bool {
		r := in.(*ssa.Return)
		return Term(r.Results[0]) == "SplitHostPort($0)#0" && Term(r.Results[1]) == "Atoi(SplitHostPort($0)#1)#0"
	}))

	// ---- reply validation ----
	success := StoresWhere("of the bound *Addr result", func(st *ssa.Store) bool {
		a, ok := StripConv(st.Val).(*ssa.Alloc)
		return ok && strings.HasSuffix(types.TypeString(a.Type(), nil), "internal/socks.Addr")
	})
	c.Count(connect, success, 1, 1)
	readN := func(n int64) Sel {
		return Calls("io.ReadFull").Where(fmt.Sprintf("into b[:%d]", n), func(in ssa.Instruction) bool {
			sl, ok := BaselineArgs(&in.(*ssa.Call).Call)[1].(*ssa.Slice)
			if !ok || sl.High == nil {
				return false
			}
			h, ok := ConstInt64(sl.High)
			return ok && h == n
		})
	}
	byteNe := func(idx, val int64) func(*ssa.If) int {
		return func(ifi *ssa.If) int {
			i, op, kv, ok := ByteCmp(ifi.Cond)
			if !ok || i != idx || kv != val {
				return -1
			}
			switch op {
			case token.NEQ:
				return 0
			case token.EQL:
				return 1
			}
			return -1
		}
	}
	byteEq := func(idx, val int64) func(*ssa.If) int {
		return func(ifi *ssa.If) int {
			if k := byteNe(idx, val)(ifi); k >= 0 {
				return 1 - k
			}
			return -1
		}
	}
	vnum, _ := c.P.ConstInt("internal/socks.Version5")
	noacc, _ := c.P.ConstInt("internal/socks.AuthMethodNoAcceptableMethods")
	okst, _ := c.P.ConstInt("internal/socks.StatusSucceeded")
	r2, r4 := readN(2), readN(4)
	reqSel := Calls(".Write").Where("of the request", func(in ssa.Instruction) bool { return in == reqWrite })
	c.RejectIf(connect, reqSel, &r2, "method reply b[0] != Version5", byteNe(0, vnum))
	c.RejectIf(connect, reqSel, &r2, "method reply b[1] == NoAcceptableMethods", byteEq(1, noacc))
	c.RejectIf(connect, success, &r4, "command reply b[0] != Version5", byteNe(0, vnum))
	c.RejectIf(connect, success, &r4, "command reply b[1] != StatusSucceeded", byteNe(1, okst))
	c.RejectIf(connect, success, &r4, "command reply b[2] != 0 (reserved)", byteNe(2, 0))

	// address type switch on b[3]: cases {1,3,4}; the all-different path never succeeds
	var r4site ssa.Instruction
	if s := r4.F(c.P, fn); len(s) == 1 {
		r4site = s[0]
	}
	atyp := map[int64]*ssa.If{}
	for _, b := range fn.Blocks {
		if n := len(b.Instrs); n > 0 {
			if ifi, ok := b.Instrs[n-1].(*ssa.If); ok && r4site != nil && DomBefore(r4site, ifi) {
				if i, op, kv, ok := ByteCmp(ifi.Cond); ok && i == 3 && op == token.EQL {
					atyp[kv] = ifi
				}
			}
		}
	}
	var ks []string
	for kv := range atyp {
		ks = append(ks, fmt.Sprint(kv))
	}
	sort.Strings(ks)
	wantK := []string{ip4, fqdn, ip6}
	sort.Strings(wantK)
	c.Check(strings.Join(ks, ",") == strings.Join(wantK, ","), "switch-covers", connect+": reply address type cases = {IPv4,FQDN,IPv6}", fn.Pos(),
		strings.Join(ks, ","), "cases on b[3]: {"+strings.Join(ks, ",")+"}, want {"+strings.Join(wantK, ",")+"}")
	// default path: follow false edges through the chain
	if len(atyp) > 0 {
		inChain := map[*ssa.BasicBlock]bool{}
		var first *ssa.If
		for _, ifi := range atyp {
			inChain[ifi.Block()] = true
			if first == nil || ifi.Block().Dominates(first.Block()) {
				first = ifi
			}
		}
		blk := first.Block()
		for steps := 0; inChain[blk] && steps < 10; steps++ {
			blk = blk.Succs[1]
		}
		succ := success.F(c.P, fn)
		reach := false
		if len(succ) == 1 && len(blk.Instrs) > 0 {
			seen := map[*ssa.BasicBlock]bool{}
			var walk func(b *ssa.BasicBlock)
			walk = func(b *ssa.BasicBlock) {
				if seen[b] {
					return
				}
				seen[b] = true
				if b == succ[0].Block() {
					reach = true
				}
				for _, s := range b.Succs {
					walk(s)
				}
			}
			walk(blk)
		}
		c.Check(len(succ) == 1 && !reach && !inChain[blk], "reject-before", connect+": when reply address type is none of {1,3,4} never [success]", fn.Pos(),
			"default path ends in an error return", "the default path of the address-type switch reaches the success return")
	}

	// every ReadFull / Write error is tested and its failure edge never reaches success
	ioCalls := Union(Calls("io.ReadFull"), Calls(".Write")).F(c.P, fn)
	for i, in := range ioCalls {
		call := in.(*ssa.Call)
		construct := fmt.Sprintf("%s: error of %s #%d tested before continuing", connect, CalleeName(&call.Call), i+1)
		blk := in.Block()
		ifi, ok := blk.Instrs[len(blk.Instrs)-1].(*ssa.If)
		good := false
		if ok {
			if bo, isBin := ifi.Cond.(*ssa.BinOp); isBin && bo.Op == token.NEQ {
				x := bo.X
				isErrOf := func(v ssa.Value) bool {
					ex, ok := v.(*ssa.Extract)
					return ok && ex.Tuple == ssa.Value(call) && ex.Index == 1
				}
				if isErrOf(x) {
					good = true
				} else if ld, isLd := x.(*ssa.UnOp); isLd && ld.Op == token.MUL {
					for _, y := range blk.Instrs {
						if st, isSt := y.(*ssa.Store); isSt && st.Addr == ld.X && isErrOf(st.Val) {
							good = true
						}
					}
				}
				if good {
					// failure edge must not reach success
					for _, s := range success.F(c.P, fn) {
						seen := map[*ssa.BasicBlock]bool{}
						var walk func(b *ssa.BasicBlock) bool
						walk = func(b *ssa.BasicBlock) bool {
							if seen[b] {
								return false
							}
							seen[b] = true
							if b == s.Block() {
								return true
							}
							for _, n := range b.Succs {
								if walk(n) {
									return true
								}
							}
							return false
						}
						if walk(blk.Succs[0]) {
							good = false
						}
					}
				}
			}
		}
		c.Check(good, "reject-before", construct, InstrPos(in), "", "the call's error result is not tested by the branch ending its block, or the failure edge reaches the success return")
	}
	c.Check(len(ioCalls) == 6, "site-count", connect+": 4 ReadFull + 2 Write calls", fn.Pos(), "", fmt.Sprintf("found %d", len(ioCalls)))

	// reply length per address type: l = 2 + {4, 16, first byte of the length read}
	var finalRead *ssa.Call
	for _, in := range Calls("io.ReadFull").F(c.P, fn) {
		if _, isSlice := BaselineArgs(&in.(*ssa.Call).Call)[1].(*ssa.Slice); !isSlice {
			finalRead = in.(*ssa.Call)
		}
	}
	got := map[string]string{}
	if finalRead != nil {
		var lphi *ssa.Phi
		Backward(BaselineArgs(&finalRead.Call)[1], func(v ssa.Value) bool {
			if sl, ok := v.(*ssa.Slice); ok && sl.High != nil {
				if ph, ok := sl.High.(*ssa.Phi); ok && lphi == nil {
					lphi = ph
				}
			}
			return lphi == nil
		})
		if lphi != nil {
			for _, pc := range PhiCases(lphi) {
				// which address-type case does this edge belong to?
				for kv, ifi := range atyp {
					a := CondAtom(ifi.Cond)
					for _, f := range pc.Facts {
						if SameAtom(f, a) {
							lin := Linearize(pc.Val)
							s := fmt.Sprint(lin.K)
							for t, co := range lin.Coef {
								if co == 1 && strings.HasSuffix(t, "[0]") {
									s += "+byte0"
								} else {
									s += "+?" + t
								}
							}
							got[fmt.Sprint(kv)] = s
						}
					}
				}
			}
		}
	}
	for _, w := range [][3]string{{ip4, "6", "IPv4: 2+4"}, {ip6, "18", "IPv6: 2+16"}, {fqdn, "2+byte0", "FQDN: 2+length byte"}} {
		c.Check(got[w[0]] == w[1], "codec-layout", connect+": reply remainder length for "+w[2], fn.Pos(), got[w[0]],
			fmt.Sprintf("length for address type %s is %q, want %q", w[0], got[w[0]], w[1]))
	}
	// the length byte is read only in the FQDN case
	r1s := readN(1).F(c.P, fn)
	okLen := false
	if ifi := atyp[mustInt(fqdn)]; ifi != nil && len(r1s) == 1 {
		t := ifi.Block().Succs[0]
		okLen = len(t.Preds) == 1 && t.Dominates(r1s[0].Block())
	}
	c.Check(okLen, "guard-before", connect+": [ReadFull into b[:1]] only under reply address type FQDN", fn.Pos(), "", "the one-byte length read is not confined to the FQDN case")

	// bound address decoding: Port = b[len(b)-2]<<8 | b[len(b)-1]
	portOK := false
	why := "no store to Addr.Port"
	for _, in := range Stores("internal/socks.Addr.Port").F(c.P, fn) {
		v := StripConv(in.(*ssa.Store).Val)
		bo, ok := v.(*ssa.BinOp)
		if !ok || (bo.Op != token.OR && bo.Op != token.ADD) {
			why = "Port is not hi<<8 | lo: " + Term(v)
			continue
		}
		hi, lo := StripConv(bo.X), StripConv(bo.Y)
		sh, ok := hi.(*ssa.BinOp)
		if !ok || sh.Op != token.SHL {
			hi, lo = lo, hi
			sh, ok = hi.(*ssa.BinOp)
		}
		if !ok || sh.Op != token.SHL {
			why = "Port is not hi<<8 | lo: " + Term(v)
			continue
		}
		if n, isC := ConstInt64(sh.Y); !isC || n != 8 {
			why = "high byte is not shifted by 8"
			continue
		}
		idxOf := func(x ssa.Value) (ssa.Value, int64, bool) {
			ld, ok := StripConv(x).(*ssa.UnOp)
			if !ok || ld.Op != token.MUL {
				return nil, 0, false
			}
			ia, ok := ld.X.(*ssa.IndexAddr)
			if !ok {
				return nil, 0, false
			}
			k, ok := lenMinus(ia.Index, ia.X)
			return ia.X, k, ok
		}
		b1, k1, ok1 := idxOf(sh.X)
		b2, k2, ok2 := idxOf(lo)
		if ok1 && ok2 && b1 == b2 && k1 == -2 && k2 == -1 {
			portOK = true
		} else {
			why = fmt.Sprintf("port bytes are not b[len(b)-2], b[len(b)-1] of the same buffer (offsets %d,%d)", k1, k2)
		}
	}
	c.Check(portOK, "codec-layout", connect+": bound port = b[len(b)-2]<<8 | b[len(b)-1]", fn.Pos(), "", why)
	c.Has(connect, Calls("builtin:copy").Where("into Addr.IP", func(in ssa.Instruction) bool {
		return strings.HasSuffix(Term(BaselineArgs(&in.(*ssa.Call).Call)[0]), ".IP")
	}))
	c.Has(connect, Stores("internal/socks.Addr.Name").Where("from b[:len(b)-2]", func(in ssa.Instruction) bool {
		sl, ok := StripConv(in.(*ssa.Store).Val).(*ssa.Slice)
		if !ok || sl.Low != nil || sl.High == nil {
			return false
		}
		k, ok := lenMinus(sl.High, sl.X)
		return ok && k == -2
	}))

	// ---- never panics on server input: inventory + the invariants it relies on ----
	c.PanicInventory([]string{connect}, nil, map[string]Inv{
		connect: {Sites: "idx=11", Why: "b has capacity >= 6 (make cap 6+len(host); append only grows it) so b[:2] b[0] b[1] b[:4] b[3] b[:1] are in range; b[:l] only when cap(b) >= l; " +
			"len(b) = l >= 2 for b[:len(b)-2], b[len(b)-2], b[len(b)-1] (obligations below and the reply-length obligations above)"},
	})
	capOK := false
	eachMake := InstrsWhere("make([]byte, 0, 6+len(host))", func(in ssa.Instruction) bool {
		mk, ok := in.(*ssa.MakeSlice)
		if !ok {
			return false
		}
		n, isC := ConstInt64(mk.Len)
		lin := Linearize(mk.Cap)
		return isC && n == 0 && lin.K >= 6 && len(lin.Coef) == 1 && lin.Coef["len("+host+")"] == 1
	})
	if ms := eachMake.F(c.P, fn); len(ms) == 1 && ms[0].Block() == fn.Blocks[0] || len(ms) == 1 && ms[0].Block().Dominates(reqWriteBlock(reqWrite)) {
		capOK = true
	}
	c.Check(capOK, "guard-before", connect+": request buffer allocated with capacity >= 6", fn.Pos(), "", "no dominating make([]byte, 0, 6+len(host)) with constant part >= 6")
	// b[:l] under cap(b) >= l, otherwise make([]byte, l)
	// re-slicing the reply buffer up to a computed length happens only under cap(b) >= l, and the other
	// branch allocates l bytes (either polarity of the test, any statement order)
	regrow := false
	regrowWhy := "no b[:l] re-slice with a computed l found"
	eachInstrOf(fn, func(in ssa.Instruction) {
		sl, ok := in.(*ssa.Slice)
		if !ok || sl.Low != nil || sl.High == nil {
			return
		}
		if _, isConst := sl.High.(*ssa.Const); isConst {
			return
		}
		if _, isSlice := sl.X.Type().Underlying().(*types.Slice); !isSlice {
			return
		}
		if k, ok := lenMinus(sl.High, sl.X); ok && k <= 0 {
			return // b[:len(b)-k] never exceeds the length
		}
		// a dominating branch compares cap(<this buffer>) with <this length>, taken on the side where cap >= l
		guarded := false
		isCap := func(v ssa.Value) bool {
			cl, ok := StripConv(v).(*ssa.Call)
			return ok && CalleeName(&cl.Call) == "builtin:cap" && BaselineArgs(&cl.Call)[0] == sl.X
		}
		for d := sl.Block().Idom(); d != nil; d = d.Idom() {
			ifi, ok := d.Instrs[len(d.Instrs)-1].(*ssa.If)
			if !ok {
				continue
			}
			bo, ok := ifi.Cond.(*ssa.BinOp)
			if !ok {
				continue
			}
			var capGE bool // does cond==true mean cap >= high ?
			switch {
			case isCap(bo.X) && StripConv(bo.Y) == StripConv(sl.High) && (bo.Op == token.GEQ):
				capGE = true
			case isCap(bo.X) && StripConv(bo.Y) == StripConv(sl.High) && (bo.Op == token.LSS):
				capGE = false
			case isCap(bo.Y) && StripConv(bo.X) == StripConv(sl.High) && (bo.Op == token.LEQ):
				capGE = true
			case isCap(bo.Y) && StripConv(bo.X) == StripConv(sl.High) && (bo.Op == token.GTR):
				capGE = false
			default:
				continue
			}
			side := 0
			if !capGE {
				side = 1
			}
			if len(d.Succs[side].Preds) == 1 && d.Succs[side].Dominates(sl.Block()) {
				guarded = true
			}
		}
		made := false
		eachInstrOf(fn, func(in2 ssa.Instruction) {
			if mk, ok := in2.(*ssa.MakeSlice); ok && Term(mk.Len) == Term(sl.High) {
				made = true
			}
		})
		if guarded && made {
			regrow = true
		} else {
			regrowWhy = fmt.Sprintf("`%s` is not under cap >= %s with a make of that length on the other branch", Term(sl), Term(sl.High))
			regrow = false
		}
	})
	c.Check(regrow, "guard-before", connect+": [b[:l]] under cap(b) >= l, else make([]byte, l)", fn.Pos(), "", regrowWhy)

	// ---- the API hands the destination to connect and the bound address back ----
	const D = "(*internal/socks.Dialer)."
	c.Has(D+"DialContext", Calls(connect).ArgIs(3, "$2"))
	c.Has(D+"DialWithConn", Calls(connect).ArgIs(3, "$3"))
	c.StoredFrom(D+"DialContext", Stores("internal/socks.Conn.boundAddr"), "the address returned by connect", func(v ssa.Value) bool {
		ex, ok := v.(*ssa.Extract)
		return ok && ex.Index == 0 && IsCallTo(connect)(ex.Tuple)
	})
	c.Has(D+"DialWithConn", RetOK().Where("returning connect's address", func(in ssa.Instruction) bool {
		return strings.HasPrefix(Term(in.(*ssa.Return).Results[0]), "connect(") && strings.HasSuffix(Term(in.(*ssa.Return).Results[0]), "#0")
	}))
	c.Reject(D+"DialContext", RetOK(), "validateTarget($r,$1,$2) != nil")
	c.Writers("internal/socks.Dialer.cmd", "internal/socks.NewDialer")
	c.Has("internal/socks.NewDialer", Stores("internal/socks.Dialer.cmd").StoredIs(k("CmdConnect")))
	c.Has("proxy.SOCKS5", Calls("internal/socks.NewDialer").ArgIs(0, "$0").ArgIs(1, "$1"))
}

// lenMinus recognises len(buf)-k and returns -k.
func lenMinus(idx, buf ssa.Value) (int64, bool) {
	// idx == len(buf) + k, by SSA identity of buf (robust to hoisting len(b)-2 into a local and to b[off+1])
	switch x := StripConv(idx).(type) {
	case *ssa.Call:
		if CalleeName(&x.Call) == "builtin:len" && BaselineArgs(&x.Call)[0] == buf {
			return 0, true
		}
	case *ssa.BinOp:
		if k, isC := ConstInt64(x.Y); isC && (x.Op == token.ADD || x.Op == token.SUB) {
			if b, ok := lenMinus(x.X, buf); ok {
				if x.Op == token.SUB {
					return b - k, true
				}
				return b + k, true
			}
		}
		if k, isC := ConstInt64(x.X); isC && x.Op == token.ADD {
			if b, ok := lenMinus(x.Y, buf); ok {
				return b + k, true
			}
		}
	}
	return 0, false
}

func mustInt(s string) int64 {
	var n int64
	fmt.Sscan(s, &n)
	return n
}

func reqWriteBlock(in ssa.Instruction) *ssa.BasicBlock {
	if in == nil {
		return nil
	}
	return in.Block()
}

func eachInstrOf(fn *ssa.Function, f func(ssa.Instruction)) {
	for _, b := range fn.Blocks {
		for _, in := range b.Instrs {
			f(in)
		}
	}
}
