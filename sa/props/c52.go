package props

import (
	"fmt"
	"go/token"
	"sort"
	"strings"

	"golang.org/x/tools/go/ssa"

	. "verif/sa/core"
)

func init() {
	Register(&Property{
		ID:    "C52",
		Floor: 64,
		Clauses: "httpproxy decision structure: proxyForURL selects httpsProxy under scheme https, httpProxy under scheme http and nothing otherwise; with CGI set an http request with a configured HTTP proxy is refused (no other condition involved); the proxy is returned only when useProxy(canonicalAddr(url)) holds; " +
			"useProxy answers false on a SplitHostPort error, for host \"localhost\", for a loopback IP literal, and on the first matcher that matches (IP matchers only for IP literals, domain matchers always), true otherwise; matchers receive the lower-cased trimmed host, the port and the parsed IP; " +
			"domainMatch: never matches an IP literal, matches on suffix or (matchHost and host == entry without its dot), then compares the port unless the entry has none; ipMatch: IP equality then the same port rule; cidrMatch: Contains; allMatch: true; " +
			"config.init is the only writer of the matcher lists and proxy URLs; HTTP(S)Proxy strings feed the matching URL field; \"*\" installs allMatch in both lists and stops; CIDR and IP entries go to the IP list, others to the domain list; " +
			"an entry without leading dot gets matchHost and a prepended dot, a leading \"*.\" is reduced to the dot form; entries and request hosts pass through the same idnaASCII; default ports per scheme.",
		NotCovered: "string-level conformance of NO_PROXY parsing to the documented grammar (bracket stripping, whitespace, port syntax); behaviour of net/netip/idna library calls; the environment lookup in FromEnvironment.",
		Run:        c52,
	})
}

func m1NonFalseRet() Sel {
	return Returns().Where("result is not the constant false", func(in ssa.Instruction) bool {
		r := in.(*ssa.Return)
		return len(r.Results) == 1 && Term(r.Results[0]) != "false"
	})
}

// m1MatcherTypes lists the matcher types whose values flow into v.
func m1MatcherTypes(v ssa.Value) []string {
	set := map[string]bool{}
	Backward(v, func(x ssa.Value) bool {
		switch y := x.(type) {
		case *ssa.MakeInterface:
			if t := m1TypeShort(y.X.Type()); strings.HasPrefix(t, "http/httpproxy.") {
				set[strings.TrimPrefix(t, "http/httpproxy.")] = true
			}
		case *ssa.Alloc:
			// a slice literal's backing array of matchers
		}
		return true
	})
	var out []string
	for k := range set {
		out = append(out, k)
	}
	sort.Strings(out)
	return out
}

func c52(c *Ctx) {
	const P = "http/httpproxy."
	const pfu = "(*http/httpproxy.config).proxyForURL"
	const up = "(*http/httpproxy.config).useProxy"
	const ini = "(*http/httpproxy.config).init"

	// ---- proxyForURL
	if fn := c.MustFn(pfu); fn != nil {
		var proxyPhi *ssa.Phi
		for _, r := range RetOK().F(c.P, fn) {
			if ph, ok := r.(*ssa.Return).Results[0].(*ssa.Phi); ok {
				proxyPhi = ph
			}
		}
		if proxyPhi == nil {
			c.Fail("scheme-field", pfu+": selected proxy", fn.Pos(), "no successful return of a value merged from the scheme branches")
		} else {
			terms := func(vs []ssa.Value) string {
				set := map[string]bool{}
				for _, v := range vs {
					set[Term(v)] = true
				}
				var out []string
				for k := range set {
					out = append(out, k)
				}
				sort.Strings(out)
				return strings.Join(out, ",")
			}
			u, _, _ := c.P.PhiEdgesUnder(proxyPhi, `$0.Scheme == "https"`)
			c.Check(terms(u) == "$r.httpsProxy", "scheme-field", pfu+": https -> httpsProxy", proxyPhi.Pos(), "", "under scheme https the proxy is {"+terms(u)+"}")
			u, _, _ = c.P.PhiEdgesUnder(proxyPhi, `$0.Scheme == "http"`)
			c.Check(terms(u) == "$r.httpProxy", "scheme-field", pfu+": http -> httpProxy", proxyPhi.Pos(), "", "under scheme http the proxy is {"+terms(u)+"}")
			var rest []ssa.Value
			for i, e := range proxyPhi.Edges {
				facts := strings.Join(FactStringsAt(proxyPhi.Block().Preds[i].Instrs[len(proxyPhi.Block().Preds[i].Instrs)-1]), ";")
				if !strings.Contains(facts, `"https"-$0.Scheme ==0`) && !strings.Contains(facts, `"http"-$0.Scheme ==0`) {
					rest = append(rest, e)
				}
			}
			c.Check(terms(rest) == "nil", "scheme-field", pfu+": other schemes -> no proxy", proxyPhi.Pos(), "", "for other schemes the proxy is {"+terms(rest)+"}")
		}
	}
	c.RejectInLoop(pfu, RetOK(), `$0.Scheme == "http"`, `$0.Scheme != "https"`, "$r.httpProxy != nil", "$r.Config.CGI")
	c.Guard(pfu, Calls("errors.New"), `$0.Scheme == "http"`, "$r.Config.CGI")
	c.Guard(pfu, RetOK().Where("returns a proxy", func(in ssa.Instruction) bool { return Term(in.(*ssa.Return).Results[0]) != "nil" }), "useProxy($r,canonicalAddr($0))")
	c.Has(pfu, Calls(up).ArgIs(1, "canonicalAddr($0)"))
	c.Count(pfu, RetOK().Where("returns a proxy", func(in ssa.Instruction) bool { return Term(in.(*ssa.Return).Results[0]) != "nil" }), 1, 1)
	c.Callers(up, pfu)
	c.Has("(*http/httpproxy.Config).ProxyFunc", Calls(ini))

	// ---- useProxy
	// The address is tested for emptiness first (an empty address uses the proxy); every rejection below holds
	// for non-empty addresses only. `len(addr) != 0` and `addr != ""` are the same fact: either spelling is accepted.
	retTrue := RetConst(0, "true")
	c.M5AnySpelling(M5NonEmpty("$0"), func(ne string) {
		c.RejectInLoop(up, retTrue, "SplitHostPort($0)#2 != nil", ne)
	})
	c.M5AnySpelling(M5NonEmpty("$0"), func(ne string) {
		c.RejectInLoop(up, retTrue, `SplitHostPort($0)#0 == "localhost"`, "SplitHostPort($0)#2 == nil", ne)
	})
	c.M5AnySpelling(M5NonEmpty("$0"), func(ne string) {
		c.RejectInLoop(up, retTrue, "IsLoopback(AsSlice(ParseAddr(SplitHostPort($0)#0)#0))", "ParseAddr(SplitHostPort($0)#0)#1 == nil", `SplitHostPort($0)#0 != "localhost"`, "SplitHostPort($0)#2 == nil", ne)
	})
	// The matcher lists are consulted by exactly two .match call sites, either in useProxy itself or in a new
	// unexported predicate helper called from it ("does any matcher of this list match": its result is true
	// exactly when a .match call was true, see M5PredicateHelper). A positive match makes useProxy answer false.
	if fn := c.MustFn(up); fn != nil {
		sites := c.P.M5SitesVia(fn, Calls(".match"))
		c.Check(len(sites) == 2, "site-count", up+": [call .match] count in [2,2]", fn.Pos(), fmt.Sprintf("found %d", len(sites)), fmt.Sprintf("found %d (in useProxy and the new helpers it calls)", len(sites)))
		var ipSite, domSite *M5Site
		for i := range sites {
			st := &sites[i]
			recv := st.LiftText(Term(st.Call.Call.Value))
			switch {
			case strings.HasPrefix(recv, "$r.ipMatchers["):
				ipSite = st
			case strings.HasPrefix(recv, "$r.domainMatchers["):
				domSite = st
			}
			why := c.P.M5SiteWhenTrue(*st, false)
			c.Check(why == "", "never-after", fmt.Sprintf("%s: after a positive .match (%s) never a result other than false", up, recv), st.Anchor().Pos(), "", why)
		}
		// the results other than false (a result variable merged before a common return counts per incoming
		// path): the empty address, and "no matcher matched" - the constant true, or the negated result of the
		// domain-matcher predicate helper
		nTrue, nPred, nOther := 0, 0, 0
		for _, rc := range M5BoolRetCases(fn) {
			switch {
			case rc.Const == "false":
			case rc.Const == "true":
				nTrue++
			case rc.Neg && domSite != nil && domSite.Outer != nil && rc.Val == ssa.Value(domSite.Outer):
				nPred++
			default:
				nOther++
			}
		}
		c.Check(nTrue+nPred == 2 && nTrue >= 1 && nOther == 0, "site-count", up+": [return #0=true] count in [2,2]", fn.Pos(), "", fmt.Sprintf("found %d constant true result(s), %d negated domain-matcher predicate(s), %d other result(s) that are not the constant false", nTrue, nPred, nOther))
		c.Check(ipSite != nil && domSite != nil, "matcher-lists", up+": one match call per matcher list", fn.Pos(), "", "the .match calls are not over cfg.ipMatchers[...] and cfg.domainMatchers[...]")
		if ipSite != nil && domSite != nil {
			ipArg, _ := ipSite.Lift(BaselineArgs(&ipSite.Call.Call)[2])
			ipT := Term(ipArg)
			c.Guard(up, M5Only("call .match where over ipMatchers", ipSite.Anchor()), ipT+" != nil")
			noIPFact := true
			for _, f := range FactStringsAt(domSite.Anchor()) {
				if strings.Contains(f, "AsSlice(") || strings.Contains(f, "ParseAddr(") {
					noIPFact = false
				}
			}
			c.Check(noIPFact, "matcher-lists", up+": domain matchers are consulted for names and IP literals alike", domSite.Anchor().Pos(), "", "the domain matcher loop is under a test of the parsed IP")
			for _, st := range []*M5Site{ipSite, domSite} {
				which := "ipMatchers"
				if st == domSite {
					which = "domainMatchers"
				}
				a := BaselineArgs(&st.Call.Call)
				a0, a1 := st.LiftText(Term(a[0])), st.LiftText(Term(a[1]))
				c.Check(a0 == "ToLower(TrimSpace(SplitHostPort($0)#0))" && a1 == "SplitHostPort($0)#1", "matcher-args", up+": "+which+" receive (lower-cased trimmed host, port)", st.Call.Pos(), "", "arguments are ("+a0+", "+a1+")")
				leaves := map[string]bool{}
				a2, lifted := st.Lift(a[2])
				for _, l := range PhiLeaves(a2) {
					leaves[Term(l)] = true
				}
				c.Check(lifted && leaves["AsSlice(ParseAddr(SplitHostPort($0)#0)#0)"] && leaves["nil"] && len(leaves) == 2, "matcher-args", up+": "+which+" receive the parsed IP of the host or nil", st.Call.Pos(), "", fmt.Sprintf("ip argument leaves %v", leaves))
			}
		}
	}

	// ---- matchers
	dm := "(" + P + "domainMatch).match"
	c.Reject(dm, m1NonFalseRet(), "$2 != nil")
	c.Reject(dm, m1NonFalseRet(), "!HasSuffix($0,$r.host)", "!$r.matchHost")
	c.Reject(dm, m1NonFalseRet(), "!HasSuffix($0,$r.host)", "$r.matchHost", "$0 != $r.host[1:]")
	c.NeverAfter(dm, m1BoolBranch("strings.HasSuffix", 0, true), RetConst(0, "false"), true)
	c.Has(dm, Calls("strings.HasSuffix").ArgIs(0, "$0").ArgIs(1, "$r.host"))
	c.NeverAfter(dm, c.Edge("$0 == $r.host[1:]"), RetConst(0, "false"), true)
	im := "(" + P + "ipMatch).match"
	c.Guard(im, m1NonFalseRet(), "Equal($r.ip,$2)")
	c.NeverAfter(im, m1BoolBranch("(net.IP).Equal", 0, true), RetConst(0, "false"), true)
	for _, m := range []string{dm, im} {
		fn := c.MustFn(m)
		if fn == nil {
			continue
		}
		good, n := false, 0
		for _, r := range m1NonFalseRet().F(c.P, fn) {
			n++
			ph, ok := r.(*ssa.Return).Results[0].(*ssa.Phi)
			if !ok {
				continue
			}
			u, o, err := c.P.PhiEdgesUnder(ph, `$r.port != ""`)
			if err != nil {
				continue
			}
			allTrue := len(o) > 0
			for _, v := range o {
				if Term(v) != "true" {
					allTrue = false
				}
			}
			cmp := len(u) > 0
			for _, v := range u {
				if t := Term(v); t != "($r.port==$1)" && t != "($1==$r.port)" {
					cmp = false
				}
			}
			good = allTrue && cmp
		}
		c.Check(good && n == 1, "port-rule", m+": an entry without port matches any port, otherwise the ports must be equal", fn.Pos(), "", "the matching return is not (entry.port == \"\" || entry.port == port)")
	}
	c.Has("("+P+"cidrMatch).match", RetTerm(0, "Contains($r.cidr,$2)"))
	c.Count("("+P+"cidrMatch).match", Returns(), 1, 1)
	c.Count("("+P+"allMatch).match", RetConst(0, "true"), 1, 1)
	c.Count("("+P+"allMatch).match", Returns(), 1, 1)
	impl := c.P.Implementers(P + "matcher")
	c.Check(len(impl) == 4, "matcher-kinds", P+"matcher implementers are allMatch, cidrMatch, ipMatch, domainMatch", token.NoPos, strings.Join(impl, ","), "implementers: "+strings.Join(impl, ",")+" (a new kind needs reviewed match rules)")

	// ---- init: construction
	for _, f := range []string{"ipMatchers", "domainMatchers", "httpProxy", "httpsProxy"} {
		c.Writers(P+"config."+f, ini)
	}
	c.Has(ini, Stores(P+"config.httpProxy").StoredIs("parseProxy($r.Config.HTTPProxy)#0"))
	c.Has(ini, Stores(P+"config.httpsProxy").StoredIs("parseProxy($r.Config.HTTPSProxy)#0"))
	c.Guard(ini, Stores(P+"config.httpProxy"), "parseProxy($r.Config.HTTPProxy)#1 == nil")
	c.Guard(ini, Stores(P+"config.httpsProxy"), "parseProxy($r.Config.HTTPSProxy)#1 == nil")
	if fn := c.MustFn(ini); fn != nil {
		kinds := func(field string) map[string]int {
			out := map[string]int{}
			for _, in := range Stores(P+"config."+field).F(c.P, fn) {
				out[strings.Join(m1MatcherTypes(in.(*ssa.Store).Val), "+")]++
			}
			return out
		}
		ik, dk := kinds("ipMatchers"), kinds("domainMatchers")
		c.Check(ik["allMatch"] == 1 && ik["cidrMatch"] == 1 && ik["ipMatch"] == 1 && len(ik) == 3, "list-contents", ini+": ipMatchers receives allMatch, cidrMatch, ipMatch (one store each)", fn.Pos(), "", fmt.Sprintf("stores by matcher kind: %v", ik))
		c.Check(dk["allMatch"] == 1 && dk["domainMatch"] == 1 && len(dk) == 2, "list-contents", ini+": domainMatchers receives allMatch, domainMatch (one store each)", fn.Pos(), "", fmt.Sprintf("stores by matcher kind: %v", dk))
		one := func(name string) *ssa.Call {
			ins := Calls(name).F(c.P, fn)
			if len(ins) != 1 {
				c.Undecided("anchor", ini+": call "+name, fmt.Sprintf("%d calls, want 1", len(ins)))
				return nil
			}
			return ins[0].(*ssa.Call)
		}
		lower, cidr, ip, shp := one("strings.ToLower"), one("net.ParseCIDR"), one("net.ParseIP"), one("net.SplitHostPort")
		if lower != nil && cidr != nil && ip != nil && shp != nil {
			p := Term(lower)
			c.Check(strings.HasPrefix(p, "ToLower(TrimSpace(Split($r.Config.NoProxy,\",\")["), "entry", ini+": each comma-separated NoProxy entry is trimmed and lower-cased", lower.Pos(), "", "entry is "+p)
			c.Check(Term(BaselineArgs(&cidr.Call)[0]) == p && Term(BaselineArgs(&shp.Call)[0]) == p, "entry", ini+": ParseCIDR and SplitHostPort see the normalised entry", cidr.Pos(), "", "")
			star := p + ` == "*"`
			c.Guard(ini, Stores(P+"config.ipMatchers").Where("allMatch", func(in ssa.Instruction) bool {
				return strings.Join(m1MatcherTypes(in.(*ssa.Store).Val), "+") == "allMatch"
			}), star)
			c.Guard(ini, Stores(P+"config.domainMatchers").Where("allMatch", func(in ssa.Instruction) bool {
				return strings.Join(m1MatcherTypes(in.(*ssa.Store).Val), "+") == "allMatch"
			}), star)
			c.NeverAfter(ini, c.Edge(star), Calls("net.ParseCIDR"), true)
			c.Guard(ini, Stores(P+"cidrMatch.cidr").StoredIs(Term(cidr)+"#1"), Term(cidr)+"#2 == nil")
			c.NeverAfterUntil(ini, m1BoolBranchNilErr(cidr, true), Calls("net.ParseIP"), Calls("strings.ToLower"))
			c.Guard(ini, Stores(P+"ipMatch.ip").StoredIs(Term(ip)), Term(ip)+" != nil")
			c.Has(ini, Stores(P+"ipMatch.port").StoredIs(Term(shp)+"#1"))
			c.Has(ini, Stores(P+"domainMatch.port").StoredIs(Term(shp)+"#1"))
			c.Guard(ini, Stores(P+"domainMatch.host"), Term(ip)+" == nil")
		}
		// domain form: matchHost <=> no leading dot; dot prepended; "*." reduced
		c.Has(ini, Calls("strings.HasPrefix").ArgIs(1, `"*."`))
		mh := Stores(P+"domainMatch.matchHost").F(c.P, fn)
		good, why := false, "no single store of domainMatch.matchHost merged from the leading-dot test"
		if len(mh) == 1 {
			if ph, ok := mh[0].(*ssa.Store).Val.(*ssa.Phi); ok && len(ph.Edges) == 2 {
				for i, e := range ph.Edges {
					pb := ph.Block().Preds[i]
					noDot, dotPrepended := false, false
					for _, f := range FactsAt(pb) {
						for t, co := range f.Atom.L.Coef {
							if f.Atom.Kind == NE && strings.HasSuffix(t, "[0]") && f.Atom.L.K == -co*'.' {
								noDot = true
							}
						}
					}
					for _, in := range pb.Instrs {
						if bo, ok := in.(*ssa.BinOp); ok && bo.Op == token.ADD && Term(bo.X) == `"."` {
							dotPrepended = true
						}
					}
					if Term(e) == "true" {
						good = noDot && dotPrepended
						if !good {
							why = fmt.Sprintf("matchHost=true edge: under first-byte != '.': %v, prepends \".\": %v", noDot, dotPrepended)
						}
					} else if Term(e) != "false" || noDot {
						good, why = false, "the other edge is not the constant false outside the no-dot branch"
						break
					}
				}
			}
		}
		c.Check(good, "domain-form", ini+": matchHost is set exactly when the entry has no leading dot, and a dot is prepended there", fn.Pos(), "", why)
		starDot := false
		for _, b := range fn.Blocks {
			for _, in := range b.Instrs {
				if sl, ok := in.(*ssa.Slice); ok && sl.Low != nil && Term(sl.Low) == "1" && sl.High == nil {
					for _, f := range FactsAt(b) {
						for t := range f.Atom.L.Coef {
							if f.Atom.Kind == TRUE && strings.HasPrefix(t, "HasPrefix(") && strings.HasSuffix(t, `,"*.")`) {
								starDot = true
							}
						}
					}
				}
			}
		}
		c.Check(starDot, "domain-form", ini+": a leading \"*.\" is reduced to the leading-dot form (entry[1:])", fn.Pos(), "", "no [1:] slice under HasPrefix(entry, \"*.\")")
		c.Has(ini, Calls(P+"idnaASCII"))
	}
	c.Has(P+"canonicalAddr", Calls(P+"idnaASCII").ArgIs(0, "Hostname($0)"))
	c.Has(P+"canonicalAddr", Calls("net.JoinHostPort"))
	c.Guard(P+"idnaASCII", Calls("(*idna.Profile).ToASCII"), "!isASCII($0)")
	// default ports
	if e, pk := c.P.VarDecl(P + "portMap"); e != nil {
		got := map[string]string{}
		for _, el := range Elts(e) {
			kx, vx := KV(el)
			ks, _ := StrOf(pk, kx)
			vs, _ := StrOf(pk, vx)
			got[ks] = vs
		}
		c.Check(got["http"] == "80" && got["https"] == "443", "default-port", P+"portMap: http->80, https->443", e.Pos(), "", fmt.Sprintf("portMap is %v", got))
	} else {
		c.Undecided("default-port", P+"portMap", "declaration not found")
	}
}

// m1BoolBranchNilErr selects the first instruction of the branch on which the
// last (error) result of this particular call is nil (isNil) or non-nil.
func m1BoolBranchNilErr(cl *ssa.Call, isNil bool) Sel {
	return Sel{Name: fmt.Sprintf("branch error of %s nil=%v", CalleeName(&cl.Call), isNil), F: func(p *Prog, fn *ssa.Function) []ssa.Instruction {
		var out []ssa.Instruction
		for _, b := range fn.Blocks {
			if len(b.Instrs) == 0 {
				continue
			}
			ifi, ok := b.Instrs[len(b.Instrs)-1].(*ssa.If)
			if !ok {
				continue
			}
			bo, ok := ifi.Cond.(*ssa.BinOp)
			if !ok || bo.Op != token.EQL && bo.Op != token.NEQ {
				continue
			}
			isErr := func(v ssa.Value) bool {
				ex, ok := v.(*ssa.Extract)
				return ok && ex.Tuple == ssa.Value(cl) && ex.Index == cl.Call.Signature().Results().Len()-1
			}
			isNilC := func(v ssa.Value) bool { k, ok := v.(*ssa.Const); return ok && k.Value == nil }
			if !(isErr(bo.X) && isNilC(bo.Y) || isErr(bo.Y) && isNilC(bo.X)) {
				continue
			}
			s := b.Succs[0]
			if (bo.Op == token.EQL) != isNil {
				s = b.Succs[1]
			}
			if len(s.Instrs) > 0 {
				out = append(out, s.Instrs[0])
			}
		}
		return out
	}}
}
