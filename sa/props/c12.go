package props

import (
	"fmt"
	"go/token"

	. "verif/sa/core"

	"golang.org/x/tools/go/ssa"
)

func init() {
	Register(&Property{
		ID:    "C12",
		Floor: 105,
		Clauses: "write schedulers (random, round-robin, RFC 7540 priority, RFC 9218 priority): a queue handed to writeQueuePool.put is dropped by its holder " +
			"(map entry deleted with the same map and key; by-value holder field reset to the zero value on every path; ring neighbours relinked and the ring head moved off it); " +
			"put is called only from the five reviewed sites and, in random Pop, only for an empty queue; put empties the queue it recycles; " +
			"every Pop tests the control queue first and serves it before any stream queue; every Push routes isControl() requests to the control queue and open-stream requests to the stream's own queue; " +
			"every ok=true return of Pop carries the result of shift under a non-empty test or of consume under its ok result; stream queues are consumed with an unrestricted byte budget (RFC 7540: throttle only under an open parent); " +
			"FrameWriteRequest.Consume split: first piece endStream=false and done=nil, second piece keeps endStream and done, both pieces slice the same buffer at the same index and that index is the amount taken from the flow window; " +
			"writeQueue.consume: 0 results -> not ok and no queue change, 1 -> exactly one shift, 2 -> head overwritten in place with the remainder, returned request is Consume's first result; " +
			"writeQueue FIFO mechanics (push appends to nextQueue, shift reads currQueue[currPos] then advances, swaps queues only when currQueue is exhausted, panics when empty; peek addresses the element shift would return); " +
			"writers of the writeQueue cursor fields.",
		NotCovered: "order and byte conservation over whole operation histories (runtime values); that Pop finds a sendable frame whenever one exists (search completeness of the tree walk / ring walk); " +
			"aliasing of recycled slices through copies other than the holder field; the WriteScheduler contract being respected by the caller.",
		Run: c12,
	})
}

func c12(c *Ctx) {
	const (
		put     = "(*http2.writeQueuePool).put"
		get     = "(*http2.writeQueuePool).get"
		consume = "(*http2.writeQueue).consume"
		shift   = "(*http2.writeQueue).shift"
		push    = "(*http2.writeQueue).push"
		peek    = "(*http2.writeQueue).peek"
		empty   = "(*http2.writeQueue).empty"
		rnd     = "(*http2.randomWriteScheduler)."
		rr      = "(*http2.roundRobinWriteScheduler)."
		p75     = "(*http2.priorityWriteSchedulerRFC7540)."
		p92     = "(*http2.priorityWriteSchedulerRFC9218)."
		walk    = "(*http2.priorityNodeRFC7540).walkReadyInOrder"
		Consume = "(http2.FrameWriteRequest).Consume"
	)

	// ---- recycled queues are unreferenced ---------------------------------
	c.RecycledUnreferenced(put, 1, p75+"removeNode")
	c.Callers(put, rnd+"CloseStream", rnd+"Pop", rr+"CloseStream", p75+"CloseStream", p92+"CloseStream")
	// random Pop recycles a live stream's queue only when it is empty (otherwise frames would be dropped)
	c.Guard(rnd+"Pop", Calls(put), "empty(next(range($r.sq))#2)")
	// ring schedulers: the recycled queue is unlinked from its ring and the head does not keep pointing at it
	ring := func(fn, q, head string) {
		putSel := Calls(put)
		c.AlwaysBefore(fn, StoreAs(head+" = nil", q+".prev.next = "+q+".next"), putSel)
		c.AlwaysBefore(fn, StoreAs(head+" = nil", q+".next.prev = "+q+".prev"), putSel)
		c.Guard(fn, StoreAs(head+" = nil"), q+" == "+q+".next")
		c.PassThroughIncl(fn, c.Edge(head+" == "+q), StoreAs(head+" = "+q+".next"))
		c.HasBranch(fn, head+" == "+q)
	}
	ring(rr+"CloseStream", "$r.streams[$0]", "$r.head")
	ring(p92+"CloseStream", "$r.streams[$0].location", "$r.heads[$r.streams[$0].priority.urgency][$r.streams[$0].priority.incremental]")
	// put leaves the recycled queue empty; get removes the queue it hands out from the pool
	c.Has(put, StoreAs("$0.currQueue = $0.currQueue[:0]"))
	c.Has(put, StoreAs("$0.nextQueue = $0.nextQueue[:0]"))
	c.Has(put, StoreAs("$0.currPos = 0"))
	c.Has(get, StoreAs("*$r = *$r[:(len(*$r)-1)]"))
	c.Has(get, RetTerm(0, "*$r[(len(*$r)-1)]"))

	// ---- control queue first (Pop) and control routing (Push) -------------
	for _, s := range []struct{ recv, ctl, open string }{
		{rnd, "&$r.zero", ""},
		{rr, "&$r.control", "$r.streams[StreamID($0)] != nil"},
		{p92, "&$r.control", "$r.streams[StreamID($0)].location != nil"},
	} {
		pop, pushFn := s.recv+"Pop", s.recv+"Push"
		c.Reject(pop, Calls(consume), "!empty("+s.ctl+")")
		c.Guard(pop, Calls(shift), "!empty("+s.ctl+")")
		c.Count(pop, Calls(shift).ArgIs(0, s.ctl), 1, 1)
		c.Has(pop, RetTerm(0, "shift("+s.ctl+")"))
		ctl := s.ctl
		toStream := Calls(push).Where("target is not the control queue", func(in ssa.Instruction) bool {
			return Term(BaselineArgs(in.(ssa.CallInstruction).Common())[0]) != ctl
		})
		toCtl := Calls(push).ArgIs(0, s.ctl)
		c.Reject(pushFn, toStream, "isControl($0)")
		c.Guard(pushFn, toStream, "!isControl($0)")
		c.Has(pushFn, toCtl)
		if s.open != "" {
			// a request of an open stream goes to that stream's queue, never to the control queue
			c.Reject(pushFn, toCtl, "!isControl($0)", s.open)
		}
		// every request is queued exactly where it was routed: the pushed value is the parameter
		c.Has(pushFn, Calls(push).ArgIs(1, "$0"))
		popReturns(c, pop)
	}
	// random: the stream queue is the map entry of the request's stream id (or a fresh one stored there)
	c.Has(rnd+"Push", Calls(push).ArgIs(0, "φ($r.sq[StreamID($0)]#0|get(&$r.queuePool))"))
	c.Has(rnd+"Push", MapUpdates_h2server("$r.sq"))
	c.Has(rr+"Push", Calls(push).ArgIs(0, "$r.streams[StreamID($0)]"))
	c.Has(p92+"Push", Calls(push).ArgIs(0, "$r.streams[StreamID($0)].location"))

	// RFC 7540: the control queue is the root node's queue; the walk starts at the root and tests a node's own queue before its children
	c.Has(p75+"Pop", Calls(walk).ArgIs(0, "&$r.root"))
	c.Count(p75+"Pop", Calls(walk), 1, 1)
	c.Reject(walk, Calls(walk), "!empty(&$r.q)", "call($2)($r,$0)")
	c.Guard(walk, CallsOfValue("$2"), "!empty(&$r.q)")
	// the recursion shares (and overwrites) the scratch slice tmp: the nodes it descends into are taken from the kids list, never from *tmp
	c.ArgNotFrom(walk, Calls(walk), 0, "the scratch slice *tmp, which the recursive calls overwrite", IsTerm("*$1"))
	c.Reject(p75+"Push", Calls("(http2.FrameWriteRequest).StreamID"), "isControl($0)")
	c.Has(p75+"Push", Calls(push).ArgIs(0, "&φ($r.nodes[StreamID($0)]|&$r.root).q").ArgIs(1, "$0"))
	c.Count(p75+"Push", Calls(push), 1, 1)
	// the callback: ok=true only with the consume result; throttled budget only under an open parent
	cb := p75 + "Pop$1"
	c.Has(cb, StoreAs("^wr = consume(&$0.q,φ(2147483647|^ws.writeThrottleLimit))#0"))
	c.Has(cb, StoreAs("^ok = consume(&$0.q,φ(2147483647|^ws.writeThrottleLimit))#1"))
	c.Count(cb, StoresTo("^wr"), 1, 1)
	c.Count(cb, StoresTo("^ok"), 1, 1)
	c.Guard(cb, RetConst(0, "true"), "^ok")
	c.Reject(cb, RetConst(0, "true"), "!^ok")
	c.Count(cb, Calls(consume), 1, 1)

	// ---- Consume split ------------------------------------------------------
	consumeSplit(c, Consume)
	// non-DATA and empty DATA requests are returned whole
	c.Reject(Consume, Calls("(*http2.outflow).take"), "len($r.write.(*http2.writeData)#0.p) == 0")
	// the byte bound is named by its role (the amount taken where the request is split), not by the expression computing it
	if bound, ok := hsConsumeBound(c, Consume); ok {
		c.Reject(Consume, RetConst(2, "2"), "len($r.write.(*http2.writeData)#0.p) <= "+bound)
		c.Reject(Consume, Union(Calls("(*http2.outflow).take"), RetConst(2, "2")), bound+" <= 0")
	}
	c.Has(Consume, RetConst(2, "0"))
	// whole-request results return the receiver itself
	c.Count(Consume, RetConst(2, "1").Where("first result is the request itself", func(in ssa.Instruction) bool {
		return Term(in.(*ssa.Return).Results[0]) == "$r"
	}), 2, 2)
	c.Count(Consume, RetConst(2, "1"), 2, 2)

	// ---- writeQueue.consume -------------------------------------------------
	const n = "Consume(*peek($r),$0)#2"
	rest := StoreAs("*peek($r) = Consume(*peek($r),$0)#1")
	c.Reject(consume, Union(Calls(shift), Calls(Consume)), "empty($r)")
	c.Reject(consume, RetConst(1, "true"), "empty($r)")
	c.Reject(consume, RetConst(1, "true"), n+" == 0")
	c.Reject(consume, Union(Calls(shift), rest), n+" == 0")
	c.Guard(consume, Calls(shift), n+" == 1")
	c.Count(consume, Calls(shift), 1, 1)
	c.Guard(consume, rest, n+" == 2")
	c.PassThroughIncl(consume, c.Edge(n+" == 2"), rest)
	c.PassThroughIncl(consume, c.Edge(n+" == 1"), Calls(shift))
	c.Count(consume, RetConst(1, "true"), 1, 1)
	c.Has(consume, RetTerm(0, "Consume(*peek($r),$0)#0").Where("ok", func(in ssa.Instruction) bool {
		return Term(in.(*ssa.Return).Results[1]) == "true"
	}))
	c.Has(consume, Calls(Consume).ArgIs(1, "$0"))

	// ---- writeQueue FIFO mechanics -------------------------------------------
	c.Has(push, StoreAs("$r.nextQueue = append($r.nextQueue,&%varargs[:])"))
	c.Count(push, StoresTo("$r.currQueue"), 0, 0)
	c.Reject(shift, Returns(), "empty($r)")
	c.Guard(shift, StoreAs("$r.currQueue = $r.nextQueue"), "$r.currPos >= len($r.currQueue)")
	c.Guard(shift, StoreAs("$r.nextQueue = $r.currQueue[:0]"), "$r.currPos >= len($r.currQueue)")
	c.Guard(shift, StoreAs("$r.currPos = 0"), "$r.currPos >= len($r.currQueue)")
	// ... and the converse: an exhausted currQueue is always swapped before the element is read (a test that lets
	// currPos == len(currQueue) through reads past the end)
	c.HsPassThroughUnder(shift, []string{"$r.currPos >= len($r.currQueue)"}, StoreAs("$r.currQueue = $r.nextQueue"))
	c.Has(shift, StoreAs("$r.currPos = ($r.currPos+1)"))
	c.Count(shift, StoresTo("$r.currPos"), 2, 2)
	c.Has(shift, RetTerm(0, "$r.currQueue[$r.currPos]"))
	c.Guard(peek, RetTerm(0, "&$r.currQueue[$r.currPos]"), "$r.currPos < len($r.currQueue)")
	c.Guard(peek, RetTerm(0, "&$r.nextQueue[0]"), "$r.currPos >= len($r.currQueue)", "len($r.nextQueue) > 0")
	c.Count(peek, Returns(), 3, 3)
	// empty() counts exactly the elements shift can still return
	c.Has(empty, RetTerm(0, "(((len($r.currQueue)-$r.currPos)+len($r.nextQueue))==0)"))

	// ---- who may write the queue cursors --------------------------------------
	holders := []string{p75 + "CloseStream", p75 + "OpenStream", p75 + "AdjustStream"} // whole-struct assignment of priorityNode.q
	c.WritersNoEscape("http2.writeQueue.currPos", append([]string{shift, put}, holders...)...)
	c.WritersNoEscape("http2.writeQueue.currQueue", append([]string{shift, put}, holders...)...)
	c.WritersNoEscape("http2.writeQueue.nextQueue", append([]string{shift, put, push}, holders...)...)
	// ring links of stream queues are written only by the ring schedulers' Open/Close/Adjust
	c.WritersNoEscape("http2.writeQueue.next", append([]string{rr + "OpenStream", rr + "CloseStream", p92 + "OpenStream", p92 + "CloseStream", p92 + "AdjustStream"}, holders...)...)
}

// popReturns: every `return x, true` of a scheduler Pop returns shift(...) (control
// queue) or the first result of a consume call whose second result is known
// true on that path, and consume is called with an unrestricted budget.
func popReturns(c *Ctx, pop string) {
	rule := "pop-returns-queued"
	fn := c.MustFn(pop)
	if fn == nil {
		return
	}
	nTrue := 0
	for _, in := range RetConst(1, "true").F(c.P, fn) {
		nTrue++
		r := in.(*ssa.Return)
		construct := fmt.Sprintf("%s: return %s, true", pop, Term(r.Results[0]))
		switch v := r.Results[0].(type) {
		case *ssa.Call:
			if CalleeName(&v.Call) == "(*http2.writeQueue).shift" {
				c.OK(rule, construct, "result of shift (guarded separately)")
				continue
			}
		case *ssa.Extract:
			if call, ok := v.Tuple.(*ssa.Call); ok && v.Index == 0 && CalleeName(&call.Call) == "(*http2.writeQueue).consume" {
				okAtom, err := c.P.ParseAtom(Term(call) + "#1")
				held := false
				if err == nil {
					for _, f := range FactsAtInstr(in) {
						if SameAtom(f.Atom, okAtom) {
							held = true
						}
					}
				}
				if !held {
					c.Fail(rule, construct, InstrPos(in), "the consume result is returned with ok=true on a path where consume's own ok result is not known to be true")
					continue
				}
				if len(BaselineArgs(&call.Call)) < 2 || Term(BaselineArgs(&call.Call)[1]) != "2147483647" {
					c.Fail(rule, construct, InstrPos(in), "consume is called with a byte budget other than math.MaxInt32")
					continue
				}
				c.OK(rule, construct, "consume#0 under consume#1, unrestricted budget")
				continue
			}
		}
		c.Fail(rule, construct, InstrPos(in), "ok=true is returned with a request that is neither shift(...) nor the first result of consume(...)")
	}
	if nTrue < 2 {
		c.Undecided(rule, pop, fmt.Sprintf("expected a control return and a stream return, found %d ok=true return(s)", nTrue))
	}
}

// consumeSplit checks the two-piece result of FrameWriteRequest.Consume.
func consumeSplit(c *Ctx, name string) {
	rule := "consume-split"
	fn := c.MustFn(name)
	if fn == nil {
		return
	}
	var ret *ssa.Return
	for _, in := range RetConst(2, "2").F(c.P, fn) {
		if ret != nil {
			c.Undecided(rule, name, "more than one two-piece return")
			return
		}
		ret = in.(*ssa.Return)
	}
	if ret == nil {
		c.Undecided(rule, name, "no return with 2 results pieces found")
		return
	}
	type piece struct {
		fields map[string]ssa.Value // FrameWriteRequest fields
		wd     map[string]ssa.Value // writeData fields
		ok     bool
	}
	load := func(v ssa.Value) *ssa.Alloc {
		if u, ok := v.(*ssa.UnOp); ok && u.Op == token.MUL {
			if a, ok := u.X.(*ssa.Alloc); ok {
				return a
			}
		}
		return nil
	}
	collect := func(a *ssa.Alloc) map[string]ssa.Value {
		out := map[string]ssa.Value{}
		if a == nil || a.Referrers() == nil {
			return out
		}
		for _, r := range *a.Referrers() {
			fa, ok := r.(*ssa.FieldAddr)
			if !ok || fa.Referrers() == nil {
				continue
			}
			fname := FieldNameOf(fa)
			for _, rr := range *fa.Referrers() {
				if st, ok := rr.(*ssa.Store); ok && st.Addr == ssa.Value(fa) {
					out[fname] = st.Val
				}
			}
		}
		return out
	}
	get := func(v ssa.Value) piece {
		a := load(v)
		if a == nil {
			return piece{}
		}
		p := piece{fields: collect(a), ok: true}
		w := p.fields["write"]
		if mi, ok := w.(*ssa.MakeInterface); ok {
			w = mi.X
		}
		wa, _ := w.(*ssa.Alloc)
		if wa == nil {
			return piece{}
		}
		p.wd = collect(wa)
		return p
	}
	first, second := get(ret.Results[0]), get(ret.Results[1])
	if !first.ok || !second.ok {
		c.Undecided(rule, name+": pieces", "the two-piece return does not return two locally built requests with *writeData literals (idiom not recognised)")
		return
	}
	term := func(v ssa.Value, zero string) string {
		if v == nil {
			return zero // field omitted from the literal: zero value
		}
		return Term(v)
	}
	pos := ret.Pos()
	const wd = "$r.write.(*http2.writeData)#0"
	c.Check(term(first.wd["endStream"], "false") == "false", rule, name+": first piece endStream=false", pos, "", "the first piece of a split DATA request carries endStream="+term(first.wd["endStream"], "false")+": END_STREAM would be sent before the last piece")
	c.Check(term(first.fields["done"], "nil") == "nil", rule, name+": first piece done=nil", pos, "", "the first piece carries a done channel: the writer would be released before the last piece")
	c.Check(term(second.wd["endStream"], "false") == wd+".endStream", rule, name+": second piece keeps endStream", pos, "", "second piece endStream is "+term(second.wd["endStream"], "false"))
	c.Check(term(second.fields["done"], "nil") == "$r.done", rule, name+": second piece keeps done", pos, "", "second piece done is "+term(second.fields["done"], "nil"))
	c.Check(term(first.fields["stream"], "nil") == "$r.stream" && term(second.fields["stream"], "nil") == "$r.stream", rule, name+": both pieces keep the stream", pos, "", "a piece's stream is not wr.stream")
	c.Check(term(first.wd["streamID"], "0") == wd+".streamID" && term(second.wd["streamID"], "0") == wd+".streamID", rule, name+": both pieces keep the stream id", pos, "", "a piece's streamID is not the original's")
	s1, ok1 := first.wd["p"].(*ssa.Slice)
	s2, ok2 := second.wd["p"].(*ssa.Slice)
	if !ok1 || !ok2 {
		c.Fail(rule, name+": pieces slice the original buffer", pos, "a piece's payload is not a slice expression")
		return
	}
	sameBuf := Term(s1.X) == wd+".p" && Term(s2.X) == wd+".p"
	cut := s1.Low == nil && s1.High != nil && s2.Low != nil && s2.High == nil && s1.Max == nil && s2.Max == nil && s1.High == s2.Low
	c.Check(sameBuf && cut, rule, name+": pieces are p[:k] and p[k:] of the original buffer with the same k", pos, "", fmt.Sprintf("pieces are %s and %s", Term(s1), Term(s2)))
	// the flow-control amount taken on the split path is k
	if cut {
		var takes []ssa.Instruction
		for _, in := range Calls("(*http2.outflow).take").F(c.P, fn) {
			if in.Block().Dominates(ret.Block()) {
				takes = append(takes, in)
			}
		}
		good := len(takes) == 1 && Term(BaselineArgs(&takes[0].(*ssa.Call).Call)[1]) == Term(s1.High) && Term(BaselineArgs(&takes[0].(*ssa.Call).Call)[0]) == "&$r.stream.flow"
		c.Check(good, rule, name+": split path takes exactly k from the stream's flow", pos, "", fmt.Sprintf("%d take call(s) dominate the two-piece return, or the amount differs from the cut index %s", len(takes), Term(s1.High)))
	}
}
