package props

import (
	"go/token"
	"sort"
	"strings"

	"golang.org/x/tools/go/ssa"

	. "verif/sa/core"
)

func init() {
	Register(&Property{
		ID:    "C61",
		Floor: 45,
		Clauses: "internal/timeseries: every path through AddWithTime deposits the observation exactly once (pending.CopyFrom, pending.Add or mergeValue) and passes it nowhere else; CopyFrom is preceded by mergePendingUpdates; " +
			"every pending mutation is followed by dirty = true; mergeValue adds the observation to total exactly once on every path (outside the level loop); mergePendingUpdates, when dirty, merges (pending, pendingTime) once, then resets pending and clears dirty; " +
			"resetObservation clears a non-nil observable before returning it; Total merges before reading total; extract/Latest/LatestBuckets merge first; who may write total/pending/dirty and which methods are invoked on total and pending; mergeValue's callers; Add forwards to AddWithTime. " +
			"trace.histogram: addMeasurement adds the value to sum once and counts it exactly once (valueCount++ or buckets[i]++, the latter after allocateBuckets), allocateBuckets moves the single-value count into its bucket before marking valueCount = -1, total() adds valueCount only when >= 0 and every bucket.",
		NotCovered: "exactness of bucket ranges (index arithmetic in mergeValue/extract/advance), arithmetic of the Observable implementations (Float.Add etc.), aliasing of the Observable returned by Total, ScaleBy, overflow, concurrent use.",
		Run:        c61,
	})
}

func c61(c *Ctx) {
	const T = "(*internal/timeseries.timeSeries)."
	const F = "internal/timeseries.timeSeries."
	A, M, P := T+"AddWithTime", T+"mergeValue", T+"mergePendingUpdates"

	// ---- AddWithTime ----
	copyFrom := Calls(".CopyFrom").RecvIs("$r.pending").ArgIs(0, "$0")
	addPend := Calls(".Add").RecvIs("$r.pending").ArgIs(0, "$0")
	merge := Calls(M).ArgIs(0, "$r").ArgIs(1, "$0").ArgIs(2, "$1")
	deposit := Union(copyFrom, addPend, merge)
	c.CountOnPaths(A, deposit, 1)
	c.Count(A, copyFrom, 1, 1)
	c.Count(A, addPend, 1, 1)
	c.Count(A, merge, 1, 1)
	// the observation is handed to nothing else
	c.Count(A, InstrsWhere("any call passing the observation", func(in ssa.Instruction) bool {
		ci, ok := in.(ssa.CallInstruction)
		if !ok {
			return false
		}
		for _, a := range BaselineArgs(ci.Common()) {
			if Term(a) == "$0" {
				return true
			}
		}
		return ci.Common().IsInvoke() && Term(ci.Common().Value) == "$0"
	}), 3, 3)
	c.Before(A, Calls(P).ArgIs(0, "$r"), copyFrom)
	dirtyTrue := Stores(F + "dirty").StoredIs("true")
	c.PassThrough(A, copyFrom, dirtyTrue)
	c.PassThrough(A, addPend, dirtyTrue)
	c.NeverAfter(A, merge, Stores(F+"dirty"), false)
	c.Has(T+"Add", Calls(A).ArgIs(0, "$r").ArgIs(1, "$0"))

	// ---- mergeValue ----
	totalAdd := Calls(".Add").RecvIs("$r.total").ArgIs(0, "$0")
	c.CountOnPaths(M, totalAdd, 1)
	c.Count(M, Calls(".Add").RecvIs("$r.total"), 1, 1)
	c.Callers(M, A, P)

	// ---- mergePendingUpdates ----
	pm := Calls(M).ArgIs(0, "$r").ArgIs(1, "$r.pending").ArgIs(2, "$r.pendingTime")
	c.Guard(P, pm, "$r.dirty")
	c.Count(P, Calls(M), 1, 1)
	c.PassThroughIncl(P, c.Edge("$r.dirty"), pm)
	c.NeverAfter(P, pm, pm, false)
	reset := Stores(F + "pending").StoredIs("resetObservation($r,$r.pending)")
	c.Before(P, pm, reset)
	c.PassThrough(P, pm, reset)
	c.PassThrough(P, pm, Stores(F+"dirty").StoredIs("false"))
	c.Guard(P, Stores(F+"dirty"), "$r.dirty")
	c.Count(P, Stores(F+"pending"), 1, 1)
	// reading pending for the merge happens before the reset call
	c.Before(P, pm, Calls(T+"resetObservation"))

	// ---- resetObservation ----
	RO := T + "resetObservation"
	c.PassThroughIncl(RO, c.Edge("$0 != nil"), Calls(".Clear").RecvIs("$0"))
	c.Has(RO, Returns().Where("the cleared argument or a fresh observable", func(in ssa.Instruction) bool {
		return Term(in.(*ssa.Return).Results[0]) == "φ($0|call($r.provider)())"
	}))

	// ---- readers merge first ----
	c.Before(T+"Total", Calls(P).ArgIs(0, "$r"), Returns())
	c.Has(T+"Total", RetTerm(0, "$r.total"))
	c.Count(T+"Total", Returns(), 1, 1)
	for _, r := range []string{"extract", "Latest", "LatestBuckets"} {
		c.Before(T+r, Calls(P).ArgIs(0, "$r"), Union(Calls(".Add"), Calls(".CopyFrom")))
	}

	// ---- ownership ----
	c.Writers(F+"total", T+"Clear")
	c.Writers(F+"pending", T+"Clear", P)
	c.Writers(F+"dirty", A, T+"Clear", P)
	for _, fld := range []string{"total", "pending"} {
		got := map[string]bool{}
		for _, fn := range c.P.All {
			if !strings.Contains(FnName(fn), "internal/timeseries.") {
				continue
			}
			for _, b := range fn.Blocks {
				for _, in := range b.Instrs {
					ci, ok := in.(ssa.CallInstruction)
					if !ok || !ci.Common().IsInvoke() {
						continue
					}
					if LoadedField(ci.Common().Value) == F+fld {
						got[FnName(fn)+ci.Common().Method.Name()] = true
					}
				}
			}
		}
		var gs []string
		for g := range got {
			gs = append(gs, strings.TrimPrefix(g, T))
		}
		sort.Strings(gs)
		want := map[string]string{"total": "ScaleByMultiply mergeValueAdd", "pending": "AddWithTimeAdd AddWithTimeCopyFrom ScaleByMultiply"}[fld]
		c.Check(strings.Join(gs, " ") == want, "callers", "internal/timeseries: methods invoked on timeSeries."+fld+" = {"+want+"}", 0, "", "found {"+strings.Join(gs, " ")+"}")
	}

	// ---- trace.histogram ----
	const H = "(*trace.histogram)."
	const HF = "trace.histogram."
	am := H + "addMeasurement"
	bucketInc := StoresWhere("buckets[i] = buckets[i] + 1", func(st *ssa.Store) bool {
		ia, ok := st.Addr.(*ssa.IndexAddr)
		if !ok || LoadedField(ia.X) != HF+"buckets" {
			return false
		}
		bo, ok := st.Val.(*ssa.BinOp)
		if !ok || bo.Op != token.ADD {
			return false
		}
		k, isC := ConstInt64(bo.Y)
		ld, isLd := bo.X.(*ssa.UnOp)
		return isC && k == 1 && isLd && Term(ld.X) == Term(st.Addr)
	})
	vcInc := Stores(HF + "valueCount").StoredIs("($r.valueCount+1)")
	c.CountOnPaths(am, Union(bucketInc, vcInc), 1)
	c.CountOnPaths(am, Stores(HF+"sum").StoredIs("($r.sum+$0)"), 1)
	c.Count(am, Stores(HF+"valueCount"), 1, 1)
	c.Before(am, Calls(H+"allocateBuckets").ArgIs(0, "$r"), bucketInc)
	c.Has(am, bucketInc.Where("at getBucket(value)", func(in ssa.Instruction) bool {
		return Term(in.(*ssa.Store).Addr.(*ssa.IndexAddr).Index) == "getBucket($0)"
	}))
	c.Has(am, Stores(HF+"value").StoredIs("getBucket($0)"))
	ab := H + "allocateBuckets"
	move := StoresWhere("buckets[value] = valueCount", func(st *ssa.Store) bool {
		ia, ok := st.Addr.(*ssa.IndexAddr)
		return ok && LoadedField(ia.X) == HF+"buckets" && Term(ia.Index) == "$r.value" && Term(st.Val) == "$r.valueCount"
	})
	c.Guard(ab, Union(move, Stores(HF+"valueCount"), Stores(HF+"buckets")), "$r.buckets == nil")
	c.Before(ab, move, Stores(HF+"valueCount").StoredIs("-1"))
	c.Before(ab, move, Stores(HF+"value"))
	c.Before(ab, Stores(HF+"buckets"), move)
	c.PassThroughIncl(ab, c.Edge("$r.buckets == nil"), move)
	// total(): valueCount counted only when >= 0, every bucket added
	if fn := c.MustFn(H + "total"); fn != nil {
		okStart, okLoop := false, false
		for _, ph := range Phis(fn) {
			for _, pc := range PhiCases(ph) {
				if Term(pc.Val) == "$r.valueCount" && c.P.HasFact(pc.Facts, "$r.valueCount >= 0") {
					okStart = true
				}
				if bo, ok := pc.Val.(*ssa.BinOp); ok && bo.Op == token.ADD && bo.X == ssa.Value(ph) {
					if ld, ok := StripConv(bo.Y).(*ssa.UnOp); ok {
						if ia, ok := ld.X.(*ssa.IndexAddr); ok && LoadedField(ia.X) == HF+"buckets" {
							okLoop = true
						}
					}
				}
			}
		}
		c.Check(okStart, "case-table", H+"total: starts from valueCount exactly when valueCount >= 0", fn.Pos(), "", "no phi edge carrying $r.valueCount under valueCount >= 0")
		c.Check(okLoop, "case-table", H+"total: accumulates every element of buckets", fn.Pos(), "", "no total += buckets[i] loop")
		c.Has(H+"total", Returns().Where("of the accumulated total", func(in ssa.Instruction) bool {
			_, ok := in.(*ssa.Return).Results[0].(*ssa.Phi)
			return ok
		}))
	}
}
