package props

import (
	"fmt"
	"go/constant"
	"go/token"
	"strings"

	. "verif/sa/core"

	"golang.org/x/tools/go/ssa"
)

func init() {
	Register(&Property{
		ID:    "C13",
		Floor: 68,
		Clauses: "RFC 9218 scheduler structure: PriorityParam.urgency/incremental are assigned field-wise only in defaultRFC9218Priority (constants 3, 0/1) and parseRFC9218Priority (u stored only under 0 <= u <= 7, i only as 0/1), " +
			"so heads[u][i] is always addressed inside [8][2]; an unparsable priority falls back to the default; " +
			"OpenStream files the queue under heads[u][i] of the same PriorityParam it records in streams[id] (appending at the ring tail, or as sole member of an empty ring) and consumes a buffered PRIORITY_UPDATE only when its stream id matches; " +
			"AdjustStream on an unknown stream only fills priorityUpdateBuf; on a known stream it unlinks the queue from the ring named by the recorded priority (both neighbours, head moved off it, head cleared when it was alone) before linking it into the ring of the new priority and recording that priority; " +
			"CloseStream unlinks with the recorded priority; Pop addresses heads with ascending counters only (no reordering of urgencies), the incremental index is the inner counter optionally flipped by prioritizeIncremental, which is toggled on every Pop after the control queue; " +
			"each ring is walked from its head along next until the head is met again, the first consumable queue is returned, and the ring head then moves to the successor for incremental rings and stays on the served queue for non-incremental ones; " +
			"PRIORITY_UPDATE frames reach AdjustStream only after a successful parse, RFC 7540 PRIORITY frames never reach this scheduler; newStream forwards its priority argument to OpenStream.",
		NotCovered: "bounded-wait fairness itself (a liveness property over Pop sequences) and the urgency order as a fact about histories: only the loop and ring structure they rest on is decided; " +
			"the choice of default priority per client (priorityAware / intermediary heuristics); more than one buffered PRIORITY_UPDATE (the implementation keeps one by design).",
		Run: c13,
	})
}

func c13(c *Ctx) {
	const (
		ws      = "(*http2.priorityWriteSchedulerRFC9218)."
		open    = ws + "OpenStream"
		closeFn = ws + "CloseStream"
		adjust  = ws + "AdjustStream"
		pop     = ws + "Pop"
		parse   = "http2.parseRFC9218Priority"
		parseCb = "http2.parseRFC9218Priority$1"
		deflt   = "http2.defaultRFC9218Priority"
		sc      = "(*http2.serverConn)."
		q       = "$r.streams[$0].location"
		oldHead = "$r.heads[$r.streams[$0].priority.urgency][$r.streams[$0].priority.incremental]"
		newHead = "$r.heads[$1.urgency][$1.incremental]"
		oHead   = "$r.heads[$1.priority.urgency][$1.priority.incremental]"
		nq      = "get(&$r.queuePool)"
		buf     = "$r.priorityUpdateBuf"
	)

	// ---- value domain of urgency / incremental ---------------------------------
	fieldDomain(c, "http2.PriorityParam.urgency", 7, deflt, parse)
	fieldDomain(c, "http2.PriorityParam.incremental", 1, deflt, parse)
	c.Guard(parseCb, Stores("http2.PriorityParam.urgency"), "ParseInteger($1)#0 >= 0", "ParseInteger($1)#0 <= 7", "ParseInteger($1)#1")
	c.Has(parseCb, Stores("http2.PriorityParam.urgency").StoredIs("ParseInteger($1)#0"))
	c.Guard(parseCb, Stores("http2.PriorityParam.incremental"), "ParseBoolean($1)#1")
	c.Guard(parseCb, Stores("http2.PriorityParam.incremental").StoredIs("1"), "ParseBoolean($1)#0")
	c.Guard(parseCb, Stores("http2.PriorityParam.incremental").StoredIs("0"), "!ParseBoolean($1)#0")
	c.PassThroughIncl(parse, c.Edge("!ParseDictionary($0,closure:parseRFC9218Priority$1)"), Calls(deflt))
	c.Has(parse, Calls(deflt).ArgIs(0, "$1"))
	arrayDims(c, "http2.priorityWriteSchedulerRFC9218.heads", 8, 2)

	// ---- OpenStream -----------------------------------------------------------------
	c.Has(open, Stores("http2.streamMetadata.priority").StoredIs("$1.priority"))
	c.Has(open, Stores("http2.streamMetadata.location").StoredIs(nq))
	c.Has(open, MapUpdates_h2server("$r.streams"))
	c.Count(open, Calls("(*http2.writeQueuePool).get"), 1, 1)
	c.Guard(open, StoreAs(oHead+" = "+nq), oHead+" == nil")
	c.PassThroughIncl(open, c.Edge(oHead+" == nil"), StoreAs(oHead+" = "+nq))
	c.PassThroughIncl(open, c.Edge(oHead+" == nil"), StoreAs(nq+".next = "+nq))
	c.PassThroughIncl(open, c.Edge(oHead+" == nil"), StoreAs(nq+".prev = "+nq))
	for _, s := range []string{nq + ".prev = " + oHead + ".prev", nq + ".next = " + oHead, nq + ".prev.next = " + nq, nq + ".next.prev = " + nq} {
		c.PassThroughIncl(open, c.Edge(oHead+" != nil"), StoreAs(s))
	}
	c.Before(open, StoreAs(nq+".prev = "+oHead+".prev"), StoreAs(nq+".prev.next = "+nq))
	c.Before(open, StoreAs(nq+".next = "+oHead), StoreAs(nq+".next.prev = "+nq))
	// buffered PRIORITY_UPDATE
	c.Guard(open, StoreAs("$1.priority = "+buf+".priority"), "$0 == "+buf+".streamID")
	c.PassThroughIncl(open, c.Edge("$0 == "+buf+".streamID"), StoreAs("$1.priority = "+buf+".priority"))
	c.PassThroughIncl(open, c.Edge("$0 == "+buf+".streamID"), StoreAs(buf+".streamID = 0"))
	c.NeverAfter(open, Stores("http2.streamMetadata.priority"), StoresTo("$1.priority"), false)
	c.Reject(open, MapUpdates_h2server("$r.streams"), "$r.streams[$0].location != nil")

	// ---- AdjustStream ------------------------------------------------------------------
	c.Guard(adjust, StoresTo(buf+".streamID"), q+" == nil")
	c.PassThroughIncl(adjust, c.Edge(q+" == nil"), StoreAs(buf+".streamID = $0"))
	c.PassThroughIncl(adjust, c.Edge(q+" == nil"), StoreAs(buf+".priority = $1"))
	c.Reject(adjust, Union(MapUpdates_h2server("$r.streams"), Stores("http2.writeQueue.next")), q+" == nil")
	unlinkNext := StoreAs(oldHead+" = nil", q+".prev.next = "+q+".next")
	unlinkPrev := StoreAs(oldHead+" = nil", q+".next.prev = "+q+".prev")
	relink := StoreAs(newHead+" = "+q, q+".next = "+newHead, q+".prev = "+newHead+".prev", q+".next = "+q, q+".prev = "+q)
	c.AlwaysBefore(adjust, unlinkNext, relink)
	c.AlwaysBefore(adjust, unlinkPrev, relink)
	c.Guard(adjust, StoreAs(oldHead+" = nil"), q+" == "+q+".next")
	c.PassThroughIncl(adjust, c.Edge(oldHead+" == "+q), StoreAs(oldHead+" = "+q+".next"))
	c.HasBranch(adjust, oldHead+" == "+q)
	c.Guard(adjust, StoreAs(newHead+" = "+q), newHead+" == nil")
	c.PassThroughIncl(adjust, c.Edge(newHead+" == nil"), StoreAs(newHead+" = "+q))
	c.PassThroughIncl(adjust, c.Edge(newHead+" == nil"), StoreAs(q+".next = "+q))
	c.PassThroughIncl(adjust, c.Edge(newHead+" == nil"), StoreAs(q+".prev = "+q))
	for _, s := range []string{q + ".prev = " + newHead + ".prev", q + ".next = " + newHead, q + ".prev.next = " + q, q + ".next.prev = " + q} {
		c.PassThroughIncl(adjust, c.Edge(newHead+" != nil"), StoreAs(s))
	}
	c.Before(adjust, StoreAs(q+".prev = "+newHead+".prev"), StoreAs(q+".prev.next = "+q))
	c.Before(adjust, StoreAs(q+".next = "+newHead), StoreAs(q+".next.prev = "+q))
	c.PassThroughIncl(adjust, c.Edge(q+" != nil"), MapUpdates_h2server("$r.streams"))
	c.Has(adjust, Stores("http2.streamMetadata.priority").StoredIs("$1"))
	c.Has(adjust, Stores("http2.streamMetadata.location").StoredIs(q))

	// ---- CloseStream: unlink with the recorded priority ------------------------------------
	c.Guard(closeFn, StoreAs(oldHead+" = nil"), q+" == "+q+".next")
	c.PassThroughIncl(closeFn, c.Edge(oldHead+" == "+q), StoreAs(oldHead+" = "+q+".next"))
	c.AlwaysBefore(closeFn, unlinkNext, Calls("builtin:delete"))
	c.AlwaysBefore(closeFn, unlinkPrev, Calls("builtin:delete"))

	// ---- Pop ----------------------------------------------------------------------------------
	c.Has(pop, StoreAs("$r.prioritizeIncremental = !$r.prioritizeIncremental"))
	c.Count(pop, Stores("http2.priorityWriteSchedulerRFC9218.prioritizeIncremental"), 1, 1)
	c.Before(pop, Stores("http2.priorityWriteSchedulerRFC9218.prioritizeIncremental"), Calls("(*http2.writeQueue).consume"))
	// the class toggle belongs to Pops that serve a stream queue: a Pop answered from the control queue must not flip it
	// (control frames interleaved one-for-one with stream frames would otherwise pin the same class for ever)
	c.Guard(pop, Stores("http2.priorityWriteSchedulerRFC9218.prioritizeIncremental"), "empty(&$r.control)")
	c.WritersNoEscape("http2.priorityWriteSchedulerRFC9218.prioritizeIncremental", pop)
	c.ElemWriters("http2.priorityWriteSchedulerRFC9218.heads", open, closeFn, adjust, pop)
	popStructure(c, pop)

	// ---- how priorities reach the scheduler -------------------------------------------------
	ppu := sc + "processPriorityUpdate"
	c.Guard(ppu, Calls(".AdjustStream"), "parseRFC9218Priority($0.Priority,$r.priorityAware)#1")
	c.Has(ppu, Calls(".AdjustStream").ArgIs(0, "$0.PrioritizedStreamID").ArgIs(1, "parseRFC9218Priority($0.Priority,$r.priorityAware)#0"))
	c.NeverAfter(ppu, c.Edge("!parseRFC9218Priority($0.Priority,$r.priorityAware)#1"), Union(Calls(".AdjustStream"), RetOK()), true)
	c.Guard(sc+"processPriority", Calls(".AdjustStream"), "!writeSchedIgnoresRFC7540($r)")
	c.Guard(sc+"writeSchedIgnoresRFC7540", RetConst(0, "false"), "!$r.writeSched.(*http2.priorityWriteSchedulerRFC9218)#1")
	c.OnlyCalledIn("calls of WriteScheduler.AdjustStream", []string{".AdjustStream"}, ppu, sc+"processPriority", sc+"processHeaders")
	c.Has(sc+"newStream", Stores("http2.OpenStreamOptions.priority").StoredIs("$3"))
	c.OnlyCalledIn("calls of WriteScheduler.OpenStream", []string{".OpenStream"}, sc+"newStream")
}

// fieldDomain: field-wise stores to the field happen only in the allowed outer
// functions and store a constant in [0,max] or a non-constant (guarded
// separately by the caller).
func fieldDomain(c *Ctx, field string, max int64, allowed ...string) {
	rule := "value-domain"
	construct := fmt.Sprintf("%s assigned only in {%s} with constants in 0..%d", field, strings.Join(allowed, ", "), max)
	ws, err := c.P.FieldWriters(field)
	if err != nil {
		c.Undecided(rule, construct, err.Error())
		return
	}
	allow := map[string]bool{}
	for _, a := range allowed {
		allow[a] = true
	}
	n := 0
	ok := true
	for _, w := range ws {
		if w.Kind == "struct-overwrite" {
			continue // copies of whole PriorityParam values keep the domain
		}
		n++
		if !allow[w.Fn] {
			ok = false
			c.Fail(rule, construct, InstrPos(w.In), w.Kind+" in "+w.Fn+", which is not a reviewed producer")
			continue
		}
		if st, isSt := w.In.(*ssa.Store); isSt {
			if k, isK := st.Val.(*ssa.Const); isK && k.Value != nil {
				if v, exact := constant.Int64Val(constant.ToInt(k.Value)); !exact || v < 0 || v > max {
					ok = false
					c.Fail(rule, construct, InstrPos(w.In), "constant "+k.Value.String()+" outside the array bounds")
				}
			}
		}
	}
	if n == 0 {
		c.Undecided(rule, construct, "no field-wise store found")
		return
	}
	if ok {
		c.OK(rule, construct, fmt.Sprintf("%d store(s)", n))
	}
}

// arrayDims: the named field is a [d0][d1] array.
func arrayDims(c *Ctx, field string, d0, d1 int64) {
	rule := "table-shape"
	construct := fmt.Sprintf("%s is [%d][%d]", field, d0, d1)
	fv := c.P.Field(field)
	if fv == nil {
		c.Undecided(rule, construct, "field not found")
		return
	}
	got := fv.Type().String()
	want := fmt.Sprintf("[%d][%d]*", d0, d1)
	c.Check(strings.HasPrefix(got, want), rule, construct, fv.Pos(), got, "type is "+got)
}

// popStructure checks the loop skeleton of priorityWriteSchedulerRFC9218.Pop.
func popStructure(c *Ctx, pop string) {
	rule := "pop-structure"
	fn := c.MustFn(pop)
	if fn == nil {
		return
	}
	// an ascending counter: phi(c0, phi+1) or that phi + 1
	counter := func(v ssa.Value) bool {
		for {
			if cv, ok := v.(*ssa.Convert); ok {
				v = cv.X
				continue
			}
			break
		}
		isCtr := func(ph *ssa.Phi) bool {
			consts, incs := 0, 0
			for _, e := range ph.Edges {
				switch x := e.(type) {
				case *ssa.Const:
					consts++
				case *ssa.BinOp:
					if x.Op == token.ADD && x.X == ssa.Value(ph) {
						if k, ok := x.Y.(*ssa.Const); ok && k.Value != nil && k.Value.String() == "1" {
							incs++
							continue
						}
					}
					return false
				default:
					return false
				}
			}
			return consts == 1 && incs >= 1
		}
		if ph, ok := v.(*ssa.Phi); ok {
			return isCtr(ph)
		}
		if b, ok := v.(*ssa.BinOp); ok && b.Op == token.ADD {
			if ph, ok := b.X.(*ssa.Phi); ok {
				if k, ok := b.Y.(*ssa.Const); ok && k.Value != nil && k.Value.String() == "1" {
					return isCtr(ph)
				}
			}
		}
		return false
	}
	// second index: the inner counter, or (counter+1)%2 chosen by prioritizeIncremental
	var second func(v ssa.Value, depth int) bool
	second = func(v ssa.Value, depth int) bool {
		if depth > 3 {
			return false
		}
		if counter(v) {
			return true
		}
		switch x := v.(type) {
		case *ssa.Phi:
			for _, e := range x.Edges {
				if !second(e, depth+1) {
					return false
				}
			}
			return len(x.Edges) > 0
		case *ssa.BinOp:
			if x.Op == token.REM {
				if k, ok := x.Y.(*ssa.Const); ok && k.Value != nil && k.Value.String() == "2" {
					if a, ok := x.X.(*ssa.BinOp); ok && a.Op == token.ADD && counter(a.X) {
						if k1, ok := a.Y.(*ssa.Const); ok && k1.Value != nil && k1.Value.String() == "1" {
							return true
						}
					}
				}
			}
		}
		return false
	}
	// collect heads[a][b] address computations
	type cell struct {
		outer, inner *ssa.IndexAddr
	}
	var cells []cell
	for _, b := range fn.Blocks {
		for _, in := range b.Instrs {
			ia, ok := in.(*ssa.IndexAddr)
			if !ok {
				continue
			}
			if o, ok := ia.X.(*ssa.IndexAddr); ok {
				if fa, ok := o.X.(*ssa.FieldAddr); ok && FieldNameOf(fa) == "heads" && Term(fa.X) == "$r" {
					cells = append(cells, cell{o, ia})
				}
			}
		}
	}
	if len(cells) == 0 {
		c.Undecided(rule, pop+": heads[u][i] accesses", "no access to heads found")
		return
	}
	badU, badI := "", ""
	for _, cl := range cells {
		if !counter(cl.outer.Index) {
			badU = Term(cl.outer.Index)
		}
		if !second(cl.inner.Index, 0) {
			badI = Term(cl.inner.Index)
		}
	}
	pos := fn.Pos()
	c.Check(badU == "", rule, pop+": urgency index of every heads access is an ascending loop counter", pos, fmt.Sprintf("%d access(es)", len(cells)), "heads is addressed with urgency index `"+badU+"`, which is not a counter running upwards from its start value: lower urgency values would no longer be served first")
	c.Check(badI == "", rule, pop+": incremental index is the inner counter or its flip", pos, "", "heads is addressed with incremental index `"+badI+"`")

	// ring walk: consume's queue is phi(head cell, phi.next)
	var walks []*ssa.Phi
	for _, in := range Calls("(*http2.writeQueue).consume").F(c.P, fn) {
		if ph, ok := BaselineArgs(&in.(*ssa.Call).Call)[0].(*ssa.Phi); ok {
			walks = append(walks, ph)
		} else {
			c.Fail(rule, pop+": ring walk", InstrPos(in), "consume is applied to `"+Term(BaselineArgs(&in.(*ssa.Call).Call)[0])+"`, not to a cursor walking the ring")
			return
		}
	}
	if len(walks) != 1 {
		c.Undecided(rule, pop+": ring walk", fmt.Sprintf("%d consume calls on ring cursors (expected 1)", len(walks)))
		return
	}
	cur := walks[0]
	isNext := func(v ssa.Value) bool {
		u, ok := v.(*ssa.UnOp)
		if !ok || u.Op != token.MUL {
			return false
		}
		fa, ok := u.X.(*ssa.FieldAddr)
		return ok && fa.X == ssa.Value(cur) && FieldNameOf(fa) == "next"
	}
	isHead := func(v ssa.Value) bool {
		u, ok := v.(*ssa.UnOp)
		if !ok || u.Op != token.MUL {
			return false
		}
		ia, ok := u.X.(*ssa.IndexAddr)
		if !ok {
			return false
		}
		for _, cl := range cells {
			if cl.inner == ia {
				return true
			}
		}
		return false
	}
	heads, nexts, other := 0, 0, 0
	for _, e := range cur.Edges {
		switch {
		case isHead(e):
			heads++
		case isNext(e):
			nexts++
		default:
			other++
		}
	}
	c.Check(heads == 1 && nexts >= 1 && other == 0, rule, pop+": ring cursor starts at heads[u][i] and advances along next", pos, "", fmt.Sprintf("cursor inputs: %d head load(s), %d next load(s), %d other", heads, nexts, other))
	// loop exit: cursor.next == heads[u][i]
	exit := false
	for _, b := range fn.Blocks {
		if len(b.Instrs) == 0 {
			continue
		}
		if ifi, ok := b.Instrs[len(b.Instrs)-1].(*ssa.If); ok {
			if bo, ok := ifi.Cond.(*ssa.BinOp); ok && (bo.Op == token.EQL || bo.Op == token.NEQ) {
				if isNext(bo.X) && isHead(bo.Y) || isNext(bo.Y) && isHead(bo.X) {
					exit = true
				}
			}
		}
	}
	c.Check(exit, rule, pop+": ring walk ends when the cursor's successor is the ring head", pos, "", "no loop test compares cursor.next with heads[u][i]")
	// head update after serving
	// The head cell may be assigned in each branch (if i == 1 { head = q.next } else { head = q }) or once from a
	// conditionally initialised local (h := q; if i == 1 { h = q.next }; head = h). Both are the same set of
	// (value, branch facts) leaves: a stored merge is expanded per incoming edge with the facts of that edge.
	cellStores := Sel{Name: "store to a heads cell", F: func(p *Prog, f *ssa.Function) []ssa.Instruction {
		var out []ssa.Instruction
		for _, b := range f.Blocks {
			for _, in := range b.Instrs {
				st, ok := in.(*ssa.Store)
				if !ok {
					continue
				}
				ia, ok := st.Addr.(*ssa.IndexAddr)
				if !ok {
					continue
				}
				for _, cl := range cells {
					if cl.inner == ia {
						out = append(out, in)
						break
					}
				}
			}
		}
		return out
	}}
	var adv, stay []StoreLeaf
	for _, l := range HsStoreLeaves(c.P, fn, cellStores, func(v ssa.Value) bool { return v == ssa.Value(cur) }) {
		switch {
		case isNext(l.Val):
			adv = append(adv, l)
		case l.Val == ssa.Value(cur):
			stay = append(stay, l)
		default:
			c.Fail(rule, pop+": head update after serving", InstrPos(l.Store), "heads cell is set to `"+Term(l.Val)+"`")
			return
		}
	}
	if len(adv) != 1 {
		c.Fail(rule, pop+": head update after serving", pos, fmt.Sprintf("%d store(s) advance a ring head to the served queue's successor (expected 1)", len(adv)))
		return
	}
	// the advancing value is written under i == 1, the staying one (if present) under i != 1
	iTerm := Term(adv[0].Store.(*ssa.Store).Addr.(*ssa.IndexAddr).Index)
	one, _ := c.P.ParseAtom(iTerm + " == 1")
	okAdv := HsHolds(adv[0].Facts, one, true)
	okStay := true
	for _, s := range stay {
		sone, _ := c.P.ParseAtom(Term(s.Store.(*ssa.Store).Addr.(*ssa.IndexAddr).Index) + " == 1")
		okStay = okStay && HsHolds(s.Facts, sone.Negate(), true)
	}
	served := false
	for _, f := range adv[0].Facts {
		if strings.HasPrefix(f.Atom.String(), "consume(") && f.Atom.Kind == TRUE {
			served = true
		}
	}
	c.Check(okAdv && okStay && served, rule, pop+": head update after serving", pos, "advance under i==1, stay under i!=1, both after a successful consume",
		fmt.Sprintf("advance-under-incremental=%v stay-under-non-incremental=%v after-successful-consume=%v", okAdv, okStay, served))
}
