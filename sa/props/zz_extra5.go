package props

// Supplementary rules added after the fifth round of seeded changes (seeded/<id>-5).

import (
	"golang.org/x/tools/go/ssa"

	. "verif/sa/core"
)

func init() {
	// C26-5 (cc.packetSent / pacer.packetSent moved under `sent.ackEliciting`: an in-flight packet that is not
	// ack-eliciting is never added to bytesInFlight although its fate subtracts it). The base rule is "only when
	// inFlight"; this is the converse, "whenever inFlight".
	ExtraClause("C26", "Also: lossState.packetSent hands every in-flight packet to the congestion controller and the pacer (whenever sent.inFlight, on every path), not only the ack-eliciting ones.")
	RegisterExtra("C26", func(c *Ctx) {
		const ps = "(*quic.lossState).packetSent"
		c.PassesUnder(ps, Entry(), Calls("(*quic.ccReno).packetSent"), "$3.inFlight")
		c.PassesUnder(ps, Entry(), Calls("(*quic.pacerState).packetSent"), "$3.inFlight")
	})

	// C03-5 (the last-resort size limit of the pending representation lowered from 2*(maxStrLen+8) to
	// 2*maxStrLen+8: a field accepted in one Write is refused when a split leaves more than that pending).
	ExtraClause("C03", "Also: the last-resort limit on the pending incomplete representation is no lower than 2*(maxStrLen+10) bytes (two strings of maximal length plus two length prefixes of the 10 bytes readVarInt accepts; fix F16).")
	RegisterExtra("C03", func(c *Ctx) {
		const w = "(*http2/hpack.Decoder).Write"
		c.Guard(w, Returns().Where("returning ErrStringLength itself", func(in ssa.Instruction) bool {
			ret, ok := in.(*ssa.Return)
			return ok && len(ret.Results) == 2 && Term(RetResult(ret, 1)) == "http2/hpack.ErrStringLength"
		}), "len($r.buf) > 2*$r.maxStrLen + 20")
	})
}
