package props

import (
	"fmt"
	"go/token"
	"go/types"
	"sort"
	"strings"

	. "verif/sa/core"

	"golang.org/x/tools/go/ssa"
)

func init() {
	Register(&Property{
		ID:    "C39",
		Floor: 72,
		Clauses: "html.Tokenizer: raw.start is written only by Next (to raw.end, before anything is read or returned) and by readByte's compaction (to 0, with raw.end reduced by the old raw.start and the live bytes buf[raw.start:raw.end] copied), " +
			"and the raw span is never overwritten as a whole or aliased; raw.end moves forward only in readByte (+1, after the byte at the old raw.end was loaded) and in readScript (re-advancing exactly the rewind of readRawEndTag, under its true result); " +
			"every other raw.end update is a rewind by a positive constant, by readRawEndTag's 3+len(rawTag), or to the data.start mark set by readMarkupDeclaration before it calls readDoctype/readCDATA; " +
			"every span-typed location of Tokenizer (data, pendingAttr, attr) is shifted by the same amount in the compaction; " +
			"readByte: no byte is returned when maxBuf>0 and raw.end-raw.start>=maxBuf (ErrBufferExceeded stored under exactly those tests), when the reader already failed, or when a refill read 0 bytes; every `return 0` is preceded by a store to err; the refill happens only when raw.end>=len(buf); " +
			"err is reset to nil only under err==io.EOF; writers of err/readErr/maxBuf/buf/tt; every used readByte result is followed immediately by a test of z.err; " +
			"Next does not read when err!=nil, stores ErrorToken only on paths whose last test of err found it non-nil, flushes pending text only when raw.start < raw.end-2; Raw returns buf[raw.start:raw.end]; " +
			"index guards (TagAttr, readStartTag, hasSuffix, unescape, replacementTable bounds vs table length); reviewed panic-site inventory over everything reachable from the Tokenizer API.",
		NotCovered: "that rewinds (raw.end -= k, raw.end = data.start) never cross raw.start and that data/attr spans stay inside [raw.start,raw.end] (inventory entries cite these as invariants, they are not proven); " +
			"the 'unterminated tag at end of input' exception; byte-for-byte equality of the concatenated Raw() with the input; the exact amount buffered beyond maxBuf by callers that ignore z.err once; nil dereference / allocation failure classes.",
		Run: c39,
	})
}

const c39T = "(*html.Tokenizer)."

func c39(c *Ctx) {
	T := c39T
	rb := T + "readByte"
	next := T + "Next"

	stores := c.P.HtmStoresUnder("html.Tokenizer")
	if len(stores) < 50 {
		c.Undecided("anchor", "stores into html.Tokenizer", fmt.Sprintf("only %d stores found", len(stores)))
		return
	}
	byPath := map[string][]HtmStore{}
	for _, s := range stores {
		byPath[s.Path] = append(byPath[s.Path], s)
	}
	selPath := func(path string) Sel {
		return Sel{Name: "store " + path, F: func(p *Prog, fn *ssa.Function) []ssa.Instruction {
			var out []ssa.Instruction
			for _, s := range byPath[path] {
				if s.Fn == fn {
					out = append(out, s.St)
				}
			}
			return out
		}}
	}

	// ---- raw.start ------------------------------------------------------------
	{
		rule := "writers"
		construct := "html.Tokenizer.raw.start ⊆ {Next: =raw.end, readByte: =0}"
		var bad []string
		seen := map[string]bool{}
		for _, s := range byPath["raw.start"] {
			v := Term(s.St.Val)
			switch {
			case s.Outer == next && s.Fn.Parent() == nil && v == "$r.raw.end":
				seen["next"] = true
			case s.Outer == rb && s.Fn.Parent() == nil && v == "0":
				seen["rb"] = true
			default:
				bad = append(bad, fmt.Sprintf("%s: raw.start = %s (%s)", s.Outer, v, c.P.Pos(s.St.Pos())))
			}
		}
		if len(byPath["raw.start"]) == 0 {
			c.Undecided(rule, construct, "no store to raw.start found")
		} else {
			c.Check(len(bad) == 0 && seen["next"] && seen["rb"], rule, construct, token.NoPos, fmt.Sprintf("%d store(s)", len(byPath["raw.start"])),
				"raw.start must only become the previous token's end (Next) or 0 (compaction): "+strings.Join(bad, "; "))
		}
		esc := c.P.HtmSubAddrEscapes("html.Tokenizer.raw")
		var where []string
		for _, in := range esc {
			where = append(where, c.P.Pos(InstrPos(in)))
		}
		c.Check(len(esc) == 0, rule, "html.Tokenizer.raw is only accessed field-wise (no whole-span store, no alias)", token.NoPos, "", "raw overwritten or its address passed on at "+strings.Join(where, ", "))
	}
	readers := []string{T + "readByte", T + "readRawOrRCDATA", T + "readStartTag", T + "readTag", T + "readMarkupDeclaration", T + "readUntilCloseAngle"}
	c.Before(next, selPath("raw.start"), Union(Returns(), AnyCalls(readers...)))
	c.Count(next, selPath("raw.start"), 1, 1)

	// ---- raw.end ----------------------------------------------------------------
	c39RawEnd(c, byPath["raw.end"])
	c.Guard(T+"readScript", selPath("raw.end").Where("forward", func(in ssa.Instruction) bool {
		_, _, ok := HtmBin(in.(*ssa.Store).Val, token.ADD)
		return ok
	}), "readRawEndTag($r)")
	c.Callers(T+"readScript", T+"readRawOrRCDATA")
	c.Guard(T+"readRawOrRCDATA", Calls(T+"readScript"), `$r.rawTag == "script"`)
	// rewinds to the data.start mark
	md := T + "readMarkupDeclaration"
	c.Callers(T+"readDoctype", md)
	c.Callers(T+"readCDATA", md)
	c.Before(md, selPath("data.start").StoredIs("$r.raw.end"), Calls(T+"readDoctype", T+"readCDATA", T+"readByte"))
	// in readMarkupDeclaration the two probe bytes are given back before readDoctype re-reads from the mark
	c.Before(md, selPath("raw.end").StoredIs("($r.raw.end-2)"), Calls(T+"readDoctype", T+"readCDATA", T+"readUntilCloseAngle"))

	// ---- readByte -----------------------------------------------------------------
	fnRB := c.MustFn(rb)
	if fnRB == nil {
		return
	}
	byteRet := Returns().Where("a byte of buf", func(in ssa.Instruction) bool {
		r := in.(*ssa.Return)
		if len(r.Results) != 1 {
			return false
		}
		_, isConst := HtmConstInt(r.Results[0])
		return !isConst
	})
	errStore := Stores("html.Tokenizer.err")
	c.Reject(rb, byteRet, "$r.maxBuf > 0", "$r.raw.end-$r.raw.start >= $r.maxBuf")
	c.Guard(rb, errStore.StoredIs("html.ErrBufferExceeded"), "$r.maxBuf > 0", "$r.raw.end-$r.raw.start >= $r.maxBuf")
	c.Reject(rb, byteRet, "$r.raw.end >= len($r.buf)", "$r.readErr != nil")
	c.Reject(rb, Calls("html.readAtLeastOneByte"), "$r.readErr != nil")
	c.Guard(rb, Calls("html.readAtLeastOneByte"), "$r.raw.end >= len($r.buf)")
	c.Before(rb, errStore, RetConst(0, "0"))
	c.PassThroughIncl(rb, c.Edge("$r.readErr != nil"), errStore)
	c39RefillZero(c, fnRB, byteRet)
	c39LoadBeforeAdvance(c, fnRB)
	c.Has(rb, Calls("builtin:copy").ArgIs(1, "$r.buf[$r.raw.start:$r.raw.end]"))
	c.Has(rb, selPath("raw.end").StoredIs("($r.raw.end-$r.raw.start)"))
	c39SpanShift(c, fnRB, byPath)
	c39Refill(c, fnRB)

	// ---- error state ------------------------------------------------------------------
	c.Writers("html.Tokenizer.err", rb, T+"readDoctype", T+"readCDATA")
	for _, f := range []string{T + "readDoctype", T + "readCDATA"} {
		c.Guard(f, errStore.StoredIs("nil"), "$r.err == io.EOF")
	}
	c.Count(rb, errStore.StoredIs("nil"), 0, 0)
	c.Writers("html.Tokenizer.readErr", rb)
	c.Writers("html.Tokenizer.maxBuf", T+"SetMaxBuf")
	c.Has(T+"SetMaxBuf", Stores("html.Tokenizer.maxBuf").StoredIs("$0"))
	c.Writers("html.Tokenizer.buf", rb, "html.NewTokenizerFragment")
	c.Writers("html.Tokenizer.tt", next)
	c39ErrTestedAfterRead(c)

	// ---- Next / Raw -----------------------------------------------------------------------
	c.Reject(next, AnyCalls(readers...), "$r.err != nil")
	c.Guard(next, selPath("raw.end").StoredIs("($r.raw.end-2)"), "$r.raw.start < $r.raw.end-2")
	c39ErrorTokenOnlyOnError(c, next)
	c.Has(T+"Raw", RetTerm(0, "$r.buf[$r.raw.start:$r.raw.end]"))
	c.Count(T+"Raw", Returns(), 1, 1)
	c.Reject(T+"Err", RetTerm(0, "$r.err"), "$r.tt != 0")

	// ---- index guards cited by the inventory --------------------------------------------------
	c.Guard(T+"TagAttr", Indexing("$r.attr"), "$r.nAttrReturned < len($r.attr)")
	c.Reject(T+"readStartTag", Indexing("$r.buf"), "$r.err != nil")
	c.Guard(T+"readStartTag", Indexing("$r.attr"), "len($r.attr) != 0")
	c.Reject("html.hasSuffix", Indexing("$0"), "len($0) < len($1)")
	c39UnescapeNoAmp(c)
	c39ReplacementTable(c)

	// ---- panic-site inventory ---------------------------------------------------------------------
	inv := "invariant (not proven, see NotCovered): "
	c.PanicInventory([]string{next, T + "Raw", T + "Text", T + "TagName", T + "TagAttr", T + "Token", T + "Buffered", T + "Err",
		T + "SetMaxBuf", T + "AllowCDATA", T + "NextIsNotRawText", "html.NewTokenizer", "html.NewTokenizerFragment"}, nil,
		map[string]Inv{
			T + "Buffered":            {Sites: "idx=1", Why: "buf[raw.end:]: raw.end <= len(buf) because raw.end advances only in readByte right after buf[raw.end] was indexed (raw-end-moves, load-before-advance obligations) and compaction sets raw.end and len(buf) to the same d"},
			T + "Raw":                 {Sites: "idx=1", Why: "buf[raw.start:raw.end]: raw.start only ever becomes raw.end or 0 (writers obligation), raw.end <= len(buf) as for Buffered; " + inv + "rewinds do not cross raw.start"},
			T + "Text":                {Sites: "idx=1", Why: "buf[data.start:data.end]: " + inv + "data marks are copies of raw.end positions inside the current token and data.start <= data.end (readComment repairs the one inverted case in its deferred function)"},
			T + "TagName":             {Sites: "idx=1", Why: "buf[data.start:data.end] under data.start < data.end; " + inv + "data span inside the raw span"},
			T + "TagAttr":             {Sites: "idx=3", Why: "attr[nAttrReturned] under nAttrReturned < len(attr) (guard obligation); the two buf slices use attribute spans recorded from raw.end positions of the current tag, shifted together with buf (span-shift obligation)"},
			rb:                        {Sites: "idx=9", Why: "compaction: d = raw.end-raw.start <= len(buf) <= cap, buf1 has length d and capacity >= d; attr[i] under range; buf1[:d+n] with n <= cap-d from Read's contract; buf[raw.end] either under raw.end < len(buf) or after a refill of n > 0 bytes at index d = raw.end (refill-zero and refill-guard obligations)"},
			T + "readRawEndTag":       {Sites: "idx=1", Why: "rawTag[i] under the loop condition i < len(rawTag)"},
			T + "readStartTag":        {Sites: "idx=3", Why: "only after readTag left err == nil (reject obligation): the tag name has at least the letter consumed by Next so data.start < raw.end <= len(buf); raw.end-2 >= raw.start because '<', a letter and '>' were consumed; attr[nAttrs-1] under nAttrs != 0 (guard obligation)"},
			T + "readTag":             {Sites: "idx=1", Why: "buf[pendingAttr[0].start:pendingAttr[0].end]: both marks are raw.end positions written by readTagAttrKey in this iteration, start first"},
			T + "startTagIn":          {Sites: "idx=1", Why: "buf[data.start+i] with i < len(s) == data.end-data.start (length test at the top of the loop body) and data.end <= raw.end <= len(buf)"},
			"(html/atom.Atom).String": {Sites: "idx=1", Why: "explicit start+n > len(atomText) test; constants checked exhaustively in C42"},
			"(html/atom.Atom).string": {Sites: "idx=1", Why: "only applied to table entries (C42: every entry decodes in range)"},
			"html/atom.match":         {Sites: "idx=1", Why: "s[i] for i < len(t) with len(s) == len(t) established by Lookup before the call (C42 guard obligation)"},
			"html.convertNewlines":    {Sites: "idx=4", Why: "i from range; src = i+1 tested against len(s) before each use; dst <= src < len(s) inside the copy loop; s[:dst] with dst <= len(s)"},
			"html.hasSuffix":          {Sites: "idx=2", Why: "b[len(b)-len(suffix):] after the len(b) < len(suffix) early return (reject obligation); suffix[i] for i < len(b) == len(suffix)"},
			"html.unescape":           {Sites: "idx=2", Why: "b[:firstAmp] after the firstAmp == -1 early return (reject obligation); b[src:] under src < len(b)"},
			"html.unescapeEntity":     {Sites: "idx=2", Why: "replacementTable[x-0x80] under 0x80 <= x <= 0x9F with a 32-entry table (table-bounds obligation); entityName[len-1] after the entityName == \"\" test"},
		})
}

// c39RawEnd classifies every store to raw.end.
func c39RawEnd(c *Ctx, sts []HtmStore) {
	T := c39T
	rule := "raw-end-moves"
	if len(sts) < 20 {
		c.Undecided(rule, "stores to html.Tokenizer.raw.end", fmt.Sprintf("only %d found", len(sts)))
		return
	}
	isLoadOf := func(v ssa.Value, path string) bool {
		u, ok := HtmStrip(v).(*ssa.UnOp)
		if !ok || u.Op != token.MUL {
			return false
		}
		p, _ := HtmFieldPath(u.X)
		return strings.Join(p, ".") == path
	}
	// K of readRawEndTag: raw.end -= K + len(rawTag)
	rewindK := int64(-1)
	var fwd, odd, backBad []string
	fwdSeen := map[string]int64{}
	for _, s := range sts {
		v := HtmStrip(s.St.Val)
		where := fmt.Sprintf("%s (%s)", s.Outer, c.P.Pos(s.St.Pos()))
		if s.Fn.Parent() != nil {
			odd = append(odd, "store inside a closure: "+where)
			continue
		}
		if b, ok := v.(*ssa.BinOp); ok && isLoadOf(b.X, "raw.end") {
			switch b.Op {
			case token.ADD:
				k, isConst := HtmConstInt(b.Y)
				if !isConst || k <= 0 {
					odd = append(odd, "non-constant advance: "+where)
					continue
				}
				fwdSeen[s.Outer] = k
				if s.Outer != T+"readByte" && s.Outer != T+"readScript" {
					fwd = append(fwd, fmt.Sprintf("raw.end += %d in %s", k, where))
				}
				continue
			case token.SUB:
				if k, isConst := HtmConstInt(b.Y); isConst {
					if k <= 0 {
						backBad = append(backBad, "rewind by non-positive constant: "+where)
					}
					continue
				}
				if isLoadOf(b.Y, "raw.start") && s.Outer == T+"readByte" {
					continue // compaction
				}
				if x, k, ok := HtmBin(b.Y, token.ADD); ok && Term(x) == "len($r.rawTag)" && k > 0 && s.Outer == T+"readRawEndTag" {
					rewindK = k
					continue
				}
			}
		}
		if isLoadOf(v, "data.start") && (s.Outer == T+"readDoctype" || s.Outer == T+"readCDATA") {
			continue
		}
		odd = append(odd, fmt.Sprintf("raw.end = %s in %s", Term(s.St.Val), where))
	}
	c.Check(len(fwd) == 0 && fwdSeen[T+"readByte"] == 1, rule, "raw.end advances only in readByte (by 1) and readScript", token.NoPos,
		fmt.Sprintf("%d stores classified", len(sts)), "bytes can be skipped without passing readByte's buffer/limit tests: "+strings.Join(fwd, "; "))
	c.Check(len(odd) == 0 && len(backBad) == 0, rule, "every other raw.end update is a rewind (constant, 3+len(rawTag), to data.start) or the compaction shift", token.NoPos, "",
		strings.Join(append(odd, backBad...), "; "))
	want := rewindK + int64(len("script"))
	c.Check(rewindK > 0 && fwdSeen[T+"readScript"] == want, rule, "readScript re-advances exactly readRawEndTag's rewind for rawTag \"script\"", token.NoPos,
		fmt.Sprintf("%d = %d + len(\"script\")", want, rewindK), fmt.Sprintf("readRawEndTag rewinds by %d+len(rawTag) but readScript advances by %d", rewindK, fwdSeen[T+"readScript"]))
}

// c39RefillZero: on the edge where the refill read 0 bytes no byte is returned and err is stored.
func c39RefillZero(c *Ctx, fn *ssa.Function, byteRet Sel) {
	rule := "reject-before"
	construct := c39T + "readByte: when the refill read 0 bytes never [return a byte]"
	var zeroSucc *ssa.BasicBlock
	var at ssa.Instruction
	HtmEach(fn, func(in ssa.Instruction) {
		ifi, ok := in.(*ssa.If)
		if !ok {
			return
		}
		b, ok := ifi.Cond.(*ssa.BinOp)
		if !ok || (b.Op != token.EQL && b.Op != token.NEQ) {
			return
		}
		k, isConst := HtmConstInt(b.Y)
		ex, isEx := HtmStrip(b.X).(*ssa.Extract)
		if !isConst || k != 0 || !isEx || ex.Index != 0 {
			return
		}
		call, isCall := ex.Tuple.(*ssa.Call)
		if !isCall || CalleeName(&call.Call) != "html.readAtLeastOneByte" {
			return
		}
		at = in
		if b.Op == token.EQL {
			zeroSucc = ifi.Block().Succs[0]
		} else {
			zeroSucc = ifi.Block().Succs[1]
		}
	})
	if zeroSucc == nil {
		c.Fail(rule, construct, fn.Pos(), "no test of readAtLeastOneByte's count against 0")
		return
	}
	rets := byteRet.F(c.P, fn)
	c.Check(!HtmBlockReaches(zeroSucc, rets), rule, construct, at.Pos(), "", "a byte is returned although nothing was read (index past the buffered data)")
	errSt := Stores("html.Tokenizer.err").F(c.P, fn)
	all := Returns().F(c.P, fn)
	// every return reachable from the zero edge is preceded on that edge by an err store: check the err store is in the successor block
	found := false
	for _, in := range zeroSucc.Instrs {
		for _, e := range errSt {
			if in == e {
				found = true
			}
		}
		if _, isRet := in.(*ssa.Return); isRet {
			break
		}
	}
	_ = all
	c.Check(found, "call-after", c39T+"readByte: a refill of 0 bytes stores err before returning", at.Pos(), "", "the zero-byte branch returns without recording the reader's error")
}

// c39LoadBeforeAdvance: the returned byte is loaded from buf[raw.end] before raw.end is incremented.
func c39LoadBeforeAdvance(c *Ctx, fn *ssa.Function) {
	rule := "call-before"
	construct := c39T + "readByte: buf[raw.end] is loaded before raw.end is advanced"
	var load, adv ssa.Instruction
	HtmEach(fn, func(in ssa.Instruction) {
		switch x := in.(type) {
		case *ssa.UnOp:
			if ia, ok := x.X.(*ssa.IndexAddr); ok && x.Op == token.MUL && Term(ia.X) == "$r.buf" && Term(ia.Index) == "$r.raw.end" {
				load = in
			}
		case *ssa.Store:
			p, _ := HtmFieldPath(x.Addr)
			if strings.Join(p, ".") == "raw.end" {
				if _, k, ok := HtmBin(x.Val, token.ADD); ok && k == 1 {
					adv = in
				}
			}
		}
	})
	if load == nil || adv == nil {
		c.Fail(rule, construct, fn.Pos(), "no load of buf[raw.end] or no raw.end+1 store")
		return
	}
	ok := load.Block() == adv.Block()
	if ok {
		li, ai := -1, -1
		for i, in := range load.Block().Instrs {
			if in == load {
				li = i
			}
			if in == adv {
				ai = i
			}
		}
		ok = li < ai
	} else {
		ok = load.Block().Dominates(adv.Block())
	}
	// and the byte returned is that load
	retOK := false
	HtmEach(fn, func(in ssa.Instruction) {
		if r, isRet := in.(*ssa.Return); isRet && len(r.Results) == 1 && HtmStrip(r.Results[0]) == load.(ssa.Value) {
			retOK = true
		}
	})
	c.Check(ok && retOK, rule, construct, adv.Pos(), "", "the byte returned is not the one at the old raw.end (a byte would be skipped or read past the buffered data)")
}

// c39SpanShift: every span-typed location of Tokenizer other than raw is shifted by raw.start in readByte.
func c39SpanShift(c *Ctx, fn *ssa.Function, byPath map[string][]HtmStore) {
	rule := "span-shift"
	obj := c.P.Object("html.Tokenizer")
	spanObj := c.P.Object("html.span")
	if obj == nil || spanObj == nil {
		c.Undecided("anchor", "html.Tokenizer / html.span", "type not found")
		return
	}
	st, _ := obj.Type().Underlying().(*types.Struct)
	var expand func(prefix string, t types.Type, mult int64) map[string]int64
	expand = func(prefix string, t types.Type, mult int64) map[string]int64 {
		out := map[string]int64{}
		if types.Identical(t, spanObj.Type()) {
			out[prefix] = mult
			return out
		}
		switch u := t.Underlying().(type) {
		case *types.Array:
			for k, v := range expand(prefix+".[]", u.Elem(), mult*u.Len()) {
				out[k] = v
			}
		case *types.Slice:
			for k, v := range expand(prefix+".[]", u.Elem(), mult) {
				out[k] = v
			}
		case *types.Struct:
			for i := 0; i < u.NumFields(); i++ {
				for k, v := range expand(prefix+"."+u.Field(i).Name(), u.Field(i).Type(), mult) {
					out[k] = v
				}
			}
		case *types.Map, *types.Pointer, *types.Chan:
			if strings.Contains(types.TypeString(t, nil), "html.span") {
				out[prefix+" (indirect)"] = -1
			}
		}
		return out
	}
	n := 0
	for i := 0; st != nil && i < st.NumFields(); i++ {
		f := st.Field(i)
		locs := expand(f.Name(), f.Type(), 1)
		var keys []string
		for k := range locs {
			keys = append(keys, k)
		}
		sort.Strings(keys)
		for _, loc := range keys {
			if loc == "raw" {
				continue
			}
			n++
			want := locs[loc]
			construct := "readByte shifts " + loc + " by the old raw.start"
			if want < 0 {
				c.Undecided(rule, construct, "span held behind a map/pointer: the compaction rule cannot see it")
				continue
			}
			var bad []string
			for _, sub := range []string{"start", "end"} {
				got := int64(0)
				for _, s := range byPath[loc+"."+sub] {
					if s.Fn != fn {
						continue
					}
					wantVal := "(" + Term(s.St.Addr)[1:] + "-$r.raw.start)"
					if Term(s.St.Val) == wantVal {
						got++
					}
				}
				if got < want {
					bad = append(bad, fmt.Sprintf("%s.%s: %d of %d shifting stores", loc, sub, got, want))
				}
			}
			c.Check(len(bad) == 0, rule, construct, fn.Pos(), fmt.Sprintf("%d store(s) each for start and end", want),
				"after compaction this span would still point at the old offsets: "+strings.Join(bad, "; "))
		}
	}
	if n == 0 {
		c.Undecided(rule, "span locations of Tokenizer", "none found")
	}
}

// c39ErrTestedAfterRead: every readByte call whose result is used is followed, in the same block, by a branch on z.err.
func c39ErrTestedAfterRead(c *Ctx) {
	rule := "err-tested-after-read"
	target := c.P.Fn(c39T + "readByte")
	if target == nil {
		return
	}
	per := map[string][]string{}
	cnt := map[string]int{}
	for _, fn := range c.P.All {
		name := FnName(Outer(fn))
		HtmEach(fn, func(in ssa.Instruction) {
			call, ok := in.(*ssa.Call)
			if !ok || call.Call.StaticCallee() != target {
				return
			}
			refs := call.Referrers()
			used := false
			if refs != nil {
				for _, r := range *refs {
					if _, dbg := r.(*ssa.DebugRef); !dbg {
						used = true
					}
				}
			}
			if !used {
				// result dropped (plaintext loop): the loop condition itself must test err; covered by reject obligation of Next
				cnt[name] += 0
				return
			}
			cnt[name]++
			blk := call.Block()
			ifi, isIf := blk.Instrs[len(blk.Instrs)-1].(*ssa.If)
			good := false
			if isIf {
				a := CondAtom(ifi.Cond)
				if (a.Kind == EQ || a.Kind == NE) && len(a.L.Coef) == 1 {
					for t := range a.L.Coef {
						if t == Term(BaselineArgs(&call.Call)[0])+".err" {
							good = true
						}
					}
				}
			}
			if !good {
				per[name] = append(per[name], c.P.Pos(call.Pos()))
			}
		})
	}
	var names []string
	for n := range cnt {
		names = append(names, n)
	}
	sort.Strings(names)
	if len(names) < 10 {
		c.Undecided(rule, "callers of readByte", fmt.Sprintf("only %d calling functions found", len(names)))
	}
	for _, n := range names {
		if cnt[n] == 0 && len(per[n]) == 0 {
			continue
		}
		c.Check(len(per[n]) == 0, rule, n+": each used readByte result is followed by a test of z.err", c.P.Fn(n).Pos(), fmt.Sprintf("%d call(s)", cnt[n]),
			"the 0 returned on error/limit would be consumed as input (and loops would never end) at "+strings.Join(per[n], ", "))
	}
}

// c39ErrorTokenOnlyOnError: every store of ErrorToken to tt in Next is reached only through an edge where err != nil was just observed.
func c39ErrorTokenOnlyOnError(c *Ctx, next string) {
	rule := "edge-cut"
	construct := next + ": tt = ErrorToken only after a test found err != nil (no read in between)"
	fn := c.MustFn(next)
	if fn == nil {
		return
	}
	want, err := c.P.ParseAtom("$r.err != nil")
	if err != nil {
		c.Undecided(rule, construct, err.Error())
		return
	}
	sts := Stores("html.Tokenizer.tt").StoredIs("0").F(c.P, fn)
	if len(sts) == 0 {
		c.Undecided(rule, construct, "no store of ErrorToken")
		return
	}
	for _, st := range sts {
		if off := c39BackCut(st, want); off != "" {
			c.Fail(rule, construct, st.Pos(), off)
			return
		}
	}
	// also: a value of readStartTag may be ErrorToken: there the callee returns 0 only under err != nil
	c.OK(rule, construct, fmt.Sprintf("%d store(s)", len(sts)))
	c.Reject(c39T+"readStartTag", RetConst(0, "0"), "$r.err == nil")
}

// c39BackCut walks backwards from in; every path must cross an edge establishing want before meeting a call or the entry.
func c39BackCut(in ssa.Instruction, want Atom) string {
	seen := map[*ssa.BasicBlock]bool{}
	var walk func(b *ssa.BasicBlock, from int) string
	walk = func(b *ssa.BasicBlock, from int) string {
		for i := from; i >= 0; i-- {
			if ci, ok := b.Instrs[i].(ssa.CallInstruction); ok {
				if _, builtin := ci.Common().Value.(*ssa.Builtin); !builtin {
					return "reachable right after `" + DescribeInstr(b.Instrs[i]) + "` without a test of err"
				}
			}
		}
		if len(b.Preds) == 0 {
			return "reachable from the function entry without a test of err"
		}
		for _, p := range b.Preds {
			cut := false
			if ifi, ok := p.Instrs[len(p.Instrs)-1].(*ssa.If); ok {
				a := CondAtom(ifi.Cond)
				if p.Succs[0] == b && SameAtom(a, want) || p.Succs[1] == b && SameAtom(a.Negate(), want) {
					cut = true
				}
				if p.Succs[0] == b && p.Succs[1] == b {
					cut = false
				}
			}
			if cut || seen[p] {
				continue
			}
			seen[p] = true
			if why := walk(p, len(p.Instrs)-1); why != "" {
				return why
			}
		}
		return ""
	}
	b := in.Block()
	idx := 0
	for i, x := range b.Instrs {
		if x == in {
			idx = i
		}
	}
	return walk(b, idx-1)
}

// c39ReplacementTable: the index into replacementTable is x-K under K <= x <= hi with hi-K < len(table).
func c39ReplacementTable(c *Ctx) {
	rule := "table-bounds"
	name := "html.unescapeEntity"
	construct := name + ": replacementTable[x-K] under K <= x <= K+len(table)-1"
	fn := c.MustFn(name)
	if fn == nil {
		return
	}
	e, _ := c.P.VarDecl("html.replacementTable")
	n := int64(len(Elts(e)))
	if n == 0 {
		c.Undecided(rule, construct, "replacementTable literal not found")
		return
	}
	found := false
	HtmEach(fn, func(in ssa.Instruction) {
		ia, ok := in.(*ssa.IndexAddr)
		if !ok {
			return
		}
		g, ok := ia.X.(*ssa.Global)
		if !ok || g.Name() != "replacementTable" {
			return
		}
		found = true
		x, k, ok := HtmBin(ia.Index, token.SUB)
		if !ok {
			c.Fail(rule, construct, in.Pos(), "index `"+Term(ia.Index)+"` is not x - const")
			return
		}
		t := Term(x)
		lo, hi := int64(-1<<62), int64(1<<62)
		for _, f := range FactsAtInstr(in) {
			if f.Atom.Kind != LE || len(f.Atom.L.Coef) != 1 {
				continue
			}
			switch f.Atom.L.Coef[t] {
			case 1: // x + K <= 0  => x <= -K
				if -f.Atom.L.K < hi {
					hi = -f.Atom.L.K
				}
			case -1: // -x + K <= 0 => x >= K
				if f.Atom.L.K > lo {
					lo = f.Atom.L.K
				}
			}
		}
		c.Check(lo >= k && hi-k < n, rule, construct, in.Pos(), fmt.Sprintf("K=%d, %d <= x <= %d, %d entries", k, lo, hi, n),
			fmt.Sprintf("x-%d with %d <= x <= %d can fall outside the %d-entry table", k, lo, hi, n))
	})
	if !found {
		c.Undecided(rule, construct, "no index into replacementTable")
	}
}

// c39UnescapeNoAmp: when slices.Index found no '&' (-1), unescape never slices or indexes b.
// (Bespoke because the instantiated callee name contains a space, which guard specs cannot express.)
func c39UnescapeNoAmp(c *Ctx) {
	rule := "reject-before"
	name := "html.unescape"
	construct := name + ": when slices.Index(b,'&') == -1 never [index $0]"
	fn := c.MustFn(name)
	if fn == nil {
		return
	}
	sites := Indexing("$0").F(c.P, fn)
	if len(sites) == 0 {
		c.Undecided(rule, construct, "no index site")
		return
	}
	var miss *ssa.BasicBlock
	var at *ssa.If
	HtmEach(fn, func(in ssa.Instruction) {
		ifi, ok := in.(*ssa.If)
		if !ok {
			return
		}
		b, ok := ifi.Cond.(*ssa.BinOp)
		if !ok || (b.Op != token.EQL && b.Op != token.NEQ) {
			return
		}
		k, isConst := HtmConstInt(b.Y)
		call, isCall := HtmStrip(b.X).(*ssa.Call)
		if !isConst || k != -1 || !isCall || !strings.HasPrefix(CalleeName(&call.Call), "slices.Index") {
			return
		}
		at = ifi
		if b.Op == token.EQL {
			miss = ifi.Block().Succs[0]
		} else {
			miss = ifi.Block().Succs[1]
		}
	})
	if miss == nil {
		c.Fail(rule, construct, fn.Pos(), "no test of slices.Index's result against -1")
		return
	}
	dom := true
	for _, s := range sites {
		if !at.Block().Dominates(s.Block()) {
			dom = false
		}
	}
	c.Check(dom && !HtmBlockReaches(miss, sites), rule, construct, at.Pos(), fmt.Sprintf("%d site(s)", len(sites)), "b[:-1] would be evaluated")
}

// c39Refill: the reader fills buf1[d:...] with d = raw.end-raw.start (the live bytes are not overwritten) and
// buf is then extended to d + n with n the count the reader returned.
func c39Refill(c *Ctx, fn *ssa.Function) {
	rule := "refill-window"
	const d = "($r.raw.end-$r.raw.start)"
	var call *ssa.Call
	HtmEach(fn, func(in ssa.Instruction) {
		if x, ok := in.(*ssa.Call); ok && CalleeName(&x.Call) == "html.readAtLeastOneByte" {
			call = x
		}
	})
	if call == nil {
		c.Fail(rule, c39T+"readByte: reads into buf1[d:]", fn.Pos(), "no call of readAtLeastOneByte")
		return
	}
	sl, ok := BaselineArgs(&call.Call)[1].(*ssa.Slice)
	c.Check(ok && sl.Low != nil && Term(sl.Low) == d, rule, c39T+"readByte: the reader fills the buffer from offset d = raw.end-raw.start", call.Pos(), "",
		"the read would overwrite bytes of the current token or leave a gap: window is "+Term(BaselineArgs(&call.Call)[1]))
	good := false
	HtmEach(fn, func(in ssa.Instruction) {
		st, ok := in.(*ssa.Store)
		if !ok {
			return
		}
		if p, _ := HtmFieldPath(st.Addr); strings.Join(p, ".") != "buf" {
			return
		}
		s2, ok := st.Val.(*ssa.Slice)
		if !ok || s2.High == nil {
			return
		}
		add, ok := HtmStrip(s2.High).(*ssa.BinOp)
		if !ok || add.Op != token.ADD {
			return
		}
		for _, pair := range [][2]ssa.Value{{add.X, add.Y}, {add.Y, add.X}} {
			ex, isEx := HtmStrip(pair[1]).(*ssa.Extract)
			if isEx && ex.Tuple == ssa.Value(call) && ex.Index == 0 && Term(pair[0]) == d {
				good = true
			}
		}
	})
	c.Check(good, rule, c39T+"readByte: after a refill buf = buf1[:d+n] with n the count returned by the reader", call.Pos(), "",
		"buf would not cover exactly the live bytes plus the bytes just read (index past the end, or unread garbage)")
}
