package props

import (
	"go/token"
	"go/constant"
	"fmt"
	"go/ast"
	"strings"

	"golang.org/x/tools/go/ssa"

	. "verif/sa/core"
)

// Specification data: RFC 9651 character classes (section 3.3 and 4.2).
//
//	lcalpha = %x61-7A           ALPHA / DIGIT / VCHAR (%x21-7E) / SP (%x20) as in RFC 5234
//	tchar   = RFC 9110 tchar
//	key       = ( lcalpha / "*" ) *( lcalpha / DIGIT / "_" / "-" / "." / "*" )
//	sf-token  = ( ALPHA / "*" ) *( tchar / ":" / "/" )
//	base64    = ALPHA / DIGIT / "+" / "/" / "="
//	bare item dispatch on the first character (section 4.2.3.1):
//	  "-" / DIGIT -> integer or decimal; DQUOTE -> string; "*" / ALPHA -> token; ":" -> byte sequence;
//	  "?" -> boolean; "@" -> date; "%" -> display string; anything else fails.
//	integer: at most 15 digits; decimal: at most 12 integer digits, 16 characters in all, 1..3 fraction digits.
func sfvLCAlpha(b int64) bool { return b >= 'a' && b <= 'z' }
func sfvAlpha(b int64) bool   { return sfvLCAlpha(b) || b >= 'A' && b <= 'Z' }
func sfvDigit(b int64) bool   { return b >= '0' && b <= '9' }
func sfvIn(set string) func(int64) bool {
	return func(b int64) bool { return b >= 0 && b < 256 && strings.IndexByte(set, byte(b)) >= 0 }
}

func init() {
	Register(&Property{
		ID:    "C56",
		Floor: 90,
		Clauses: "isLCAlpha/isAlpha/isDigit/isVChar/isSP/isTChar evaluated from their syntax for all 256 bytes equal the RFC 9651 classes; consumeKey, consumeToken, consumeByteSequence, consumeString (all bytes except the escape byte): the per-byte step of the scanning loop and the first-character test evaluated for all 256 bytes equal the RFC alphabets; " +
			"consumeBareItem dispatches every first byte to the RFC's parser (256 bytes); consumeIntegerOrDecimal has the 12/15/16/3 limits and the trailing-dot test as branches that exclude success; string escapes other than \\\" and \\\\ and a dangling backslash exclude success; boolean accepts ?0/?1 of length >= 2 only; date requires '@' and rejects a decimal; " +
			"every ParseX wrapper returns ok only under its consume function's ok and an empty remainder (ParseInteger additionally under strconv success, ParseDecimal under a '.', ParseDate under ParseInteger's ok); " +
			"ParseList and ParseDictionary: a member followed by something other than ',' excludes success, and a trailing comma returns false; consumeBareInnerList: the success return is reached only after ')' was seen (dominated by that test, or by a flag whose only true source lies under it), an item followed by neither SP nor ')' excludes success; the skip functions used as x[g(x):], evaluated for all 256 bytes, skip SP / HTAB between list and dictionary members and SP only inside inner lists and after ';'; display-string decoding treats a decoded U+FFFD as an error only when the decoded size is 1; " +
			"parseRFC9218Priority: urgency is written only from ParseInteger's value under its ok and 0 <= u <= 7 and key \"u\"; incremental only under ParseBoolean's ok and key \"i\" with 1/0 following the parsed value; the parsed PriorityParam is returned only when ParseDictionary reported ok, otherwise the default is re-established; defaults have urgency 3.",
		NotCovered: "whole-grammar equivalence with RFC 9651 (member/parameter values delivered to the callbacks, duplicate-key overwrite, which substring is reported as consumed); decOctetHex digit values and the UTF-8 state machine of display strings beyond the U+FFFD clause; termination; strconv.ParseInt/ParseFloat/time.Unix.",
		Run:        c56,
	})
}

// c56FirstCharClass evaluates the leading  if len(s) == 0 || <test on s[0]> { return ..., false }
// of fn for every first byte and compares the accepted first bytes with want.
func c56FirstCharClass(c *Ctx, ev *Evaluator, fnName, desc string, want func(int64) bool) bool {
	rule := "table-exhaustive"
	construct := fmt.Sprintf("%s first byte = %s", fnName, desc)
	fn := c.MustFn(fnName)
	if fn == nil {
		return false
	}
	d, pk, params, err := ev.Decl(fnName)
	if err != nil || len(params) == 0 || len(d.Body.List) == 0 {
		c.Undecided(rule, construct, "no syntax")
		return false
	}
	ifs, ok := d.Body.List[0].(*ast.IfStmt)
	if !ok || ifs.Init != nil || ifs.Else != nil || len(ifs.Body.List) != 1 {
		c.Undecided(rule, construct, "first statement is not a plain rejecting if")
		return false
	}
	ret, ok := ifs.Body.List[0].(*ast.ReturnStmt)
	if !ok || len(ret.Results) == 0 {
		c.Undecided(rule, construct, "first statement is not a plain rejecting if")
		return false
	}
	if cv := ConstOf(pk, ret.Results[len(ret.Results)-1]); cv == nil || cv.String() != "false" {
		c.Fail(rule, construct, ret.Pos(), "the leading test does not return ok=false")
		return false
	}
	eval := func(s AbsStr) (bool, error) {
		env := NewEnv()
		env.Strs[params[0]] = s
		v, err := ev.Expr(pk, ifs.Cond, env)
		if err == nil && !v.IsBool {
			err = fmt.Errorf("not a boolean")
		}
		return v.B, err
	}
	rej, err := eval(AbsStr{Len: 0, Elem: 0})
	if err != nil {
		c.Undecided(rule, construct, "not evaluable: "+err.Error())
		return false
	}
	if !rej {
		c.Fail(rule, construct, ifs.Pos(), "the empty string passes the leading test")
		return false
	}
	got, wantSet := map[int64]bool{}, map[int64]bool{}
	for b := int64(0); b < 256; b++ {
		rej, err := eval(AbsStr{Len: 1, Elem: b})
		if err != nil {
			c.Undecided(rule, construct, "not evaluable: "+err.Error())
			return false
		}
		if !rej {
			got[b] = true
		}
		if want(b) {
			wantSet[b] = true
		}
	}
	return frCompareSets(c, rule, construct, fn.Pos(), got, wantSet, 257)
}

// c56ScanLoop tabulates one iteration of fn's scanning loop: the bytes for which
// the loop goes on must be exactly `cont`; for the others the outcome must be
// the one given by other(b). Bytes in skip are not evaluated.
func c56ScanLoop(c *Ctx, ev *Evaluator, fnName, desc string, cont func(int64) bool, other func(int64) string, skip string) bool {
	rule := "table-exhaustive"
	construct := fmt.Sprintf("%s scanning step = %s", fnName, desc)
	if c.MustFn(fnName) == nil {
		return false
	}
	l, err := ev.FindElemLoop(fnName)
	if err != nil {
		c.Undecided(rule, construct, err.Error())
		return false
	}
	n := 0
	for b := int64(0); b < 256; b++ {
		if strings.IndexByte(skip, byte(b)) >= 0 {
			continue
		}
		// like ev.Iteration, and a test delegated to a local predicate closure (never re-bound) is evaluated through its literal
		o, err := HbIteration(ev, l, b)
		if err != nil {
			c.Undecided(rule, construct, fmt.Sprintf("loop body not evaluable for byte %d: %v", b, err))
			return false
		}
		want := "next"
		if !cont(b) {
			want = other(b)
		}
		if o != want {
			c.Fail(rule, construct, l.Body.Pos(), fmt.Sprintf("for byte 0x%02x (%q) the loop body does `%s`, the grammar requires `%s`", b, rune(b), o, want))
			return false
		}
		n++
	}
	c.OK(rule, construct, fmt.Sprintf("%d bytes evaluated", n))
	return true
}

// c56BareItemDispatch evaluates consumeBareItem's switch for every first byte.
func c56BareItemDispatch(c *Ctx, ev *Evaluator, fnName string, want func(int64) string) bool {
	rule := "table-exhaustive"
	construct := fnName + " dispatch on the first byte = RFC 9651 section 4.2.3.1"
	fn := c.MustFn(fnName)
	if fn == nil {
		return false
	}
	d, pk, params, err := ev.Decl(fnName)
	if err != nil || len(params) != 1 {
		c.Undecided(rule, construct, "no syntax")
		return false
	}
	var sw *ast.SwitchStmt
	swAt := -1
	for i, st := range d.Body.List {
		if s, ok := st.(*ast.SwitchStmt); ok {
			sw, swAt = s, i
			break
		}
	}
	if sw == nil || sw.Init != nil || swAt != len(d.Body.List)-1 {
		c.Undecided(rule, construct, "the function does not end in a switch")
		return false
	}
	target := func(cc *ast.CaseClause) string {
		if len(cc.Body) != 1 {
			return "?"
		}
		ret, ok := cc.Body[0].(*ast.ReturnStmt)
		if !ok {
			return "?"
		}
		if len(ret.Results) == 1 {
			if call, ok := ret.Results[0].(*ast.CallExpr); ok && len(call.Args) == 1 {
				if id, ok := call.Fun.(*ast.Ident); ok {
					if arg, ok := call.Args[0].(*ast.Ident); ok && pk.TypesInfo.Uses[arg] == params[0] {
						return id.Name
					}
				}
			}
			return "?"
		}
		if cv := ConstOf(pk, ret.Results[len(ret.Results)-1]); cv != nil && cv.String() == "false" {
			return "fail"
		}
		return "?"
	}
	for b := int64(0); b < 256; b++ {
		env := NewEnv()
		env.Strs[params[0]] = AbsStr{Len: 1, Elem: b}
		out, _, err := ev.Stmts(pk, d.Body.List[:swAt], env)
		if err != nil || out != "next" {
			c.Undecided(rule, construct, fmt.Sprintf("statements before the switch not evaluable (%v, %s)", err, out))
			return false
		}
		var tag *Scalar
		if sw.Tag != nil {
			tv, err := ev.Expr(pk, sw.Tag, env)
			if err != nil {
				c.Undecided(rule, construct, err.Error())
				return false
			}
			tag = &tv
		}
		got := ""
		var deflt *ast.CaseClause
		for _, cl := range sw.Body.List {
			cc := cl.(*ast.CaseClause)
			if cc.List == nil {
				deflt = cc
				continue
			}
			for _, e := range cc.List {
				v, err := ev.Expr(pk, e, env)
				if err != nil {
					c.Undecided(rule, construct, "case not evaluable: "+err.Error())
					return false
				}
				if tag == nil && v.IsBool && v.B || tag != nil && v == *tag {
					got = target(cc)
					break
				}
			}
			if got != "" {
				break
			}
		}
		if got == "" {
			got = "fall-through"
			if deflt != nil {
				got = target(deflt)
			}
		}
		if got != want(b) {
			c.Fail(rule, construct, sw.Pos(), fmt.Sprintf("first byte 0x%02x (%q) is dispatched to %s, RFC 9651 says %s", b, rune(b), got, want(b)))
			return false
		}
	}
	// the empty input fails
	env := NewEnv()
	env.Strs[params[0]] = AbsStr{Len: 0}
	out, v, err := ev.Stmts(pk, d.Body.List[:swAt], env)
	if err != nil || out != "return" || !v.IsBool || v.B {
		c.Fail(rule, construct, d.Pos(), "the empty input is not rejected before the dispatch")
		return false
	}
	c.OK(rule, construct, "256 first bytes and the empty input evaluated")
	return true
}

// c56FirstByteIs: atom "<x>[0] == ch" / "!=" by kind.
func c56FirstByteIs(kind string, ch byte) AtomPred {
	op := "=="
	if kind == NE {
		op = "!="
	}
	return AtomLike(fmt.Sprintf("x[0] %s %q", op, rune(ch)), kind, func(l Lin) bool {
		ts, cs := LinTerms(l)
		return len(ts) == 1 && cs[0] == 1 && l.K == -int64(ch) && strings.HasSuffix(ts[0], "[0]")
	})
}

// c56DiffExceeds: atom "a - b > n" over two loop counters.
func c56DiffExceeds(desc string, n int64) AtomPred {
	return AtomLike(desc, LE, func(l Lin) bool {
		_, cs := LinTerms(l)
		return len(cs) == 2 && cs[0]+cs[1] == 0 && l.K == n+1
	})
}

// c56StateFlags returns the boolean state flags of fn: boolean merges (phis, through
// nested merges and loop-carried ones) all of whose incoming values are the constants
// true and false, both occurring. Keyed by the term the flag is rendered as in atoms.
func c56StateFlags(fn *ssa.Function) map[string]*ssa.Phi {
	out := map[string]*ssa.Phi{}
	HxEachInstr(fn, func(in ssa.Instruction) {
		ph, ok := in.(*ssa.Phi)
		if !ok {
			return
		}
		seen := map[*ssa.Phi]bool{}
		hasT, hasF, pure := false, false, true
		var walk func(v ssa.Value)
		walk = func(v ssa.Value) {
			switch x := v.(type) {
			case *ssa.Phi:
				if !seen[x] {
					seen[x] = true
					for _, e := range x.Edges {
						walk(e)
					}
				}
			case *ssa.Const:
				if x.Value == nil || x.Value.Kind() != constant.Bool {
					pure = false
				} else if constant.BoolVal(x.Value) {
					hasT = true
				} else {
					hasF = true
				}
			default:
				pure = false
			}
		}
		walk(ph)
		if !pure || !hasT || !hasF {
			return
		}
		if ts, cs := LinTerms(CondAtom(ph).L); len(ts) == 1 && cs[0] == 1 {
			out[ts[0]] = ph
		}
	})
	return out
}

// c56FlagGuard: every selected site is executed only when a boolean state flag of the
// function has the value want. Decided over the value tested, not over how the flag is
// rendered: (a) a dominating branch fact on a state flag with that polarity, or
// (b) path evaluation: assuming the flag has the opposite value no selected site is reached
// (covers if/else chains and merged conditions where the deciding edge does not dominate).
func c56FlagGuard(c *Ctx, fnName string, sel Sel, flagDesc string, want bool) bool {
	rule := "guard-before"
	construct := fmt.Sprintf("%s: [%s] under %s %v", fnName, sel.Name, flagDesc, want)
	fn := c.MustFn(fnName)
	if fn == nil {
		return false
	}
	ins := sel.F(c.P, fn)
	if len(ins) == 0 {
		c.Undecided(rule, construct, "no such site in this function")
		return false
	}
	flags := c56StateFlags(fn)
	if len(flags) == 0 {
		c.Undecided(rule, construct, "no boolean state flag (merge of true/false constants) in this function")
		return false
	}
	kind := FALS
	if want {
		kind = TRUE
	}
	pred := AtomLike(flagDesc, kind, func(l Lin) bool {
		ts, cs := LinTerms(l)
		return len(ts) == 1 && cs[0] == 1 && l.K == 0 && flags[ts[0]] != nil
	})
	var bad ssa.Instruction
	for _, in := range ins {
		hit := false
		for _, f := range FactsAtInstr(in) {
			if pred.F(f.Atom) {
				hit = true
				break
			}
		}
		if !hit {
			bad = in
			break
		}
	}
	if bad == nil {
		c.OK(rule, construct, fmt.Sprintf("%d site(s), dominating branch on the flag", len(ins)))
		return true
	}
	targets := map[ssa.Instruction]bool{}
	for _, in := range ins {
		targets[in] = true
	}
	for _, ph := range flags {
		opposite := CondAtom(ph) // flag is true
		if want {
			opposite = opposite.Negate()
		}
		if _, reach := ReachableUnder(fn, []Atom{opposite}, targets); !reach {
			c.OK(rule, construct, fmt.Sprintf("%d site(s), unreachable on every path where the flag is %v", len(ins), !want))
			return true
		}
	}
	c.Fail(rule, construct, InstrPos(bad), fmt.Sprintf("site `%s` is reached with %s %v: no dominating branch on the flag, and a path with the opposite flag value reaches it",
		DescribeInstr(bad), flagDesc, !want))
	return false
}

func c56(c *Ctx) {
	const S = "internal/httpsfv."
	ev := c.P.NewEvaluator()
	tchar := frRFC9110Tchar()

	// ---- character classes
	frTabulatePred(c, ev, S+"isLCAlpha", "lcalpha", 0, 255, sfvLCAlpha)
	frTabulatePred(c, ev, S+"isAlpha", "ALPHA", 0, 255, sfvAlpha)
	frTabulatePred(c, ev, S+"isDigit", "DIGIT", 0, 255, sfvDigit)
	frTabulatePred(c, ev, S+"isVChar", "VCHAR", 0, 255, func(b int64) bool { return b >= 0x21 && b <= 0x7e })
	frTabulatePred(c, ev, S+"isSP", "SP", 0, 255, func(b int64) bool { return b == 0x20 })
	frTabulatePred(c, ev, S+"isTChar", "tchar", 0, 255, func(b int64) bool { return tchar[b] })

	// ---- key, token, byte sequence, string, whitespace
	c56FirstCharClass(c, ev, S+"consumeKey", "lcalpha / \"*\"", func(b int64) bool { return sfvLCAlpha(b) || b == '*' })
	c56ScanLoop(c, ev, S+"consumeKey", "continue on lcalpha / DIGIT / _ - . *, stop otherwise",
		func(b int64) bool { return sfvLCAlpha(b) || sfvDigit(b) || sfvIn("_-.*")(b) }, func(int64) string { return "break" }, "")
	c56FirstCharClass(c, ev, S+"consumeToken", "ALPHA / \"*\"", func(b int64) bool { return sfvAlpha(b) || b == '*' })
	c56ScanLoop(c, ev, S+"consumeToken", "continue on tchar / : / /, stop otherwise",
		func(b int64) bool { return tchar[b] || b == ':' || b == '/' }, func(int64) string { return "break" }, "")
	c56FirstCharClass(c, ev, S+"consumeByteSequence", "\":\"", sfvIn(":"))
	c56ScanLoop(c, ev, S+"consumeByteSequence", "':' ends, ALPHA / DIGIT / + / / / = continue, anything else fails",
		func(b int64) bool { return sfvAlpha(b) || sfvDigit(b) || sfvIn("+/=")(b) }, func(b int64) string {
			if b == ':' {
				return "return true"
			}
			return "return false"
		}, "")
	c56FirstCharClass(c, ev, S+"consumeString", "DQUOTE", sfvIn("\""))
	c56ScanLoop(c, ev, S+"consumeString", "DQUOTE ends, VCHAR / SP continue, anything else fails (escape byte excluded)",
		func(b int64) bool { return b >= 0x20 && b <= 0x7e && b != '"' }, func(b int64) string {
			if b == '"' {
				return "return true"
			}
			return "return false"
		}, "\\")
	c56FirstCharClass(c, ev, S+"consumeDate", "\"@\"", sfvIn("@"))
	c56FirstCharClass(c, ev, S+"consumeBareInnerList", "\"(\"", sfvIn("("))

	// ---- bare item dispatch
	c56BareItemDispatch(c, ev, S+"consumeBareItem", func(b int64) string {
		switch {
		case b == '-' || sfvDigit(b):
			return "consumeIntegerOrDecimal"
		case b == '"':
			return "consumeString"
		case b == '*' || sfvAlpha(b):
			return "consumeToken"
		case b == ':':
			return "consumeByteSequence"
		case b == '?':
			return "consumeBoolean"
		case b == '@':
			return "consumeDate"
		case b == '%':
			return "consumeDisplayString"
		}
		return "fail"
	})

	// ---- numbers
	num := S + "consumeIntegerOrDecimal"
	okTrue := RetConst(2, "true")
	c.Count(num, okTrue, 1, 1)
	c.NeverAfter(num, EdgeP(c56DiffExceeds("more than 12 digits before '.'", 12)), okTrue, true)
	c.NeverAfter(num, EdgeP(c56DiffExceeds("more than 15 digits in an integer", 15)), okTrue, true)
	c.NeverAfter(num, EdgeP(c56DiffExceeds("more than 16 characters in a decimal", 16)), okTrue, true)
	c.NeverAfter(num, EdgeP(c56DiffExceeds("more than 3 fraction digits", 4)), okTrue, true) // i-periodIndex-1 > 3
	// The limits apply per number kind: each limit test runs only under the matching value of the
	// function's boolean state flag (set once a '.' has been consumed).
	c56FlagGuard(c, num, EdgeP(c56DiffExceeds("more than 15 digits in an integer", 15)), "decimal flag", false)
	c56FlagGuard(c, num, EdgeP(c56DiffExceeds("more than 16 characters in a decimal", 16)), "decimal flag", true)
	c56FlagGuard(c, num, EdgeP(c56DiffExceeds("more than 3 fraction digits", 4)), "decimal flag", true)
	c.NeverAfter(num, EdgeP(AtomLike("last character is '.'", EQ, func(l Lin) bool {
		ts, cs := LinTerms(l)
		return len(ts) == 1 && cs[0] == 1 && l.K == -'.' && strings.HasPrefix(ts[0], "$0[(") && strings.HasSuffix(ts[0], "-1)]")
	})), okTrue, true)
	c.RejectP(num, okTrue, AtomLike("first character after the sign is not a digit", FALS, func(l Lin) bool {
		ts, _ := LinTerms(l)
		return len(ts) == 1 && strings.HasPrefix(ts[0], "isDigit($0[")
	}))
	// the only sign accepted is '-'
	c.HasBranch(num, "$0[0] == 45")
	// '.' switches to decimal only once
	c56FlagGuard(c, num, EdgeP(c56DiffExceeds("more than 12 digits before '.'", 12)), "decimal flag", false)

	// ---- string escapes
	str := S + "consumeString"
	escaped := func(ch int64) func(Lin) bool {
		return func(l Lin) bool {
			ts, cs := LinTerms(l)
			return len(ts) == 1 && cs[0] == 1 && l.K == -ch && strings.HasSuffix(ts[0], "+1)]")
		}
	}
	c.NeverAfter(str, Union(
		EdgeP(AtomLike("escaped byte != backslash", NE, escaped('\\'))).UnderP(AtomLike("escaped byte != DQUOTE", NE, escaped('"'))),
		EdgeP(AtomLike("escaped byte != DQUOTE", NE, escaped('"'))).UnderP(AtomLike("escaped byte != backslash", NE, escaped('\\')))), okTrue, true)
	exhausted := func(k int64) AtomPred {
		return AtomLike(fmt.Sprintf("len(s) <= i+%d", -k), LE, func(l Lin) bool {
			_, cs := LinTerms(l)
			return len(cs) == 2 && l.K == k && cs[0]+cs[1] == 0 && l.Coef["len($0)"] == 1
		})
	}
	c.RejectP(str, okTrue, exhausted(0))                  // loop ran off the end: no closing DQUOTE
	c.NeverAfter(str, EdgeP(exhausted(-1)), okTrue, true) // backslash is the last byte
	c.GuardP(str, okTrue, AtomLike("closing DQUOTE", EQ, func(l Lin) bool {
		ts, cs := LinTerms(l)
		return len(ts) == 1 && cs[0] == 1 && l.K == -'"' && ts[0] != "$0[0]"
	}))

	// ---- boolean, date
	bo := S + "consumeBoolean"
	c.Guard(bo, okTrue, "len($0) >= 2")
	c.HasBranch(bo, "\"?0\" == $0[:2]")
	c.HasBranch(bo, "\"?1\" == $0[:2]")
	c.Has(S+"ParseBoolean", RetTerm(0, "($0==\"?1\")"))
	da := S + "consumeDate"
	daOK := Returns().Where("first result is not the empty constant", func(in ssa.Instruction) bool {
		r := in.(*ssa.Return)
		return len(r.Results) == 3 && Term(r.Results[0]) != "\"\""
	})
	c.Guard(da, daOK, "$0[0] == 64", "consumeIntegerOrDecimal($0[1:])#2")
	c.GuardP(da, daOK, AtomLike("no '.' in the consumed text", FALS, func(l Lin) bool {
		ts, _ := LinTerms(l)
		return len(ts) == 1 && strings.HasPrefix(ts[0], "Contains[") && strings.HasSuffix(ts[0], ",46)")
	}))

	// ---- Parse wrappers: ok only under the consumer's ok and an empty remainder
	for _, w := range []struct{ parse, consume string }{
		{"ParseInteger", "consumeIntegerOrDecimal"}, {"ParseDecimal", "consumeIntegerOrDecimal"}, {"ParseString", "consumeString"},
		{"ParseToken", "consumeToken"}, {"ParseByteSequence", "consumeByteSequence"}, {"ParseBoolean", "consumeBoolean"},
		{"ParseDate", "consumeDate"}, {"ParseDisplayString", "consumeDisplayString"},
	} {
		c.Guard(S+w.parse, RetConst(1, "true"), w.consume+"($0)#2", "\"\" == "+w.consume+"($0)#1")
	}
	c.Guard(S+"ParseInteger", RetConst(1, "true"), "ParseInt($0,10,64)#1 == nil")
	c.Has(S+"ParseInteger", RetConst(1, "true").Where("value is strconv's", func(in ssa.Instruction) bool {
		return Term(in.(*ssa.Return).Results[0]) == "ParseInt($0,10,64)#0"
	}))
	c.Guard(S+"ParseDecimal", RetConst(1, "true"), "Contains($0,\".\")", "ParseFloat($0,64)#1 == nil")
	c.Guard(S+"ParseDate", RetConst(1, "true"), "ParseInteger($0[1:])#1")
	for _, w := range []struct{ parse, call string }{
		{"ParseItem", "consumeItem($0,$1)"}, {"ParseParameter", "consumeParameter($0,$1)"}, {"ParseBareInnerList", "consumeBareInnerList($0,$1)"},
	} {
		c.HasBranch(S+w.parse, "\"\" == "+w.call+"#1")
		c.Has(S+w.parse, Returns().Where("ok is false or the consumer's", func(in ssa.Instruction) bool {
			return Term(in.(*ssa.Return).Results[0]) == "φ("+w.call+"#2|false)"
		}))
	}

	// ---- lists and dictionaries
	retTrue := RetConst(0, "true")
	for _, f := range []string{"ParseList", "ParseDictionary"} {
		c.NeverAfter(S+f, EdgeP(c56FirstByteIs(NE, ',')), retTrue, true)
		c.Has(S+f, RetConst(0, "false").UnderP(AtomLike("len(rest) == 0 after the separator", EQ, func(l Lin) bool {
			ts, cs := LinTerms(l)
			return len(ts) == 1 && cs[0] == 1 && l.K == 0 && strings.HasPrefix(ts[0], "len(") && strings.Contains(ts[0], "[1:]")
		})))
		c.Has(S+f, EdgeP(c56FirstByteIs(EQ, '(')))
		c.Count(S+f, retTrue, 1, 1)
	}
	c.Has(S+"ParseDictionary", EdgeP(c56FirstByteIs(EQ, '=')))
	c.Has(S+"consumeParameter", EdgeP(c56FirstByteIs(EQ, '=')))
	c.Has(S+"consumeParameter", EdgeP(c56FirstByteIs(NE, ';')))
	il := S + "consumeBareInnerList"
	c56ClosedByParen(c, il, okTrue)
	c.NeverAfter(il, EdgeP(AtomLike("item followed by neither SP nor ')'", FALS, func(l Lin) bool {
		ts, _ := LinTerms(l)
		return len(ts) == 1 && strings.HasPrefix(ts[0], "isSP(")
	})), okTrue, true)
	c.Has(il, EdgeP(c56FirstByteIs(EQ, ')')))
	// whitespace skipping: x = x[skip(x):]. Between list/dictionary members the RFC discards OWS (SP / HTAB);
	// inside inner lists and after ';' it discards SP only (RFC 9651 4.2.1.2 step 3, 4.2.3.2 step 3)
	for _, u := range []struct {
		fn, what, set string
	}{
		{S + "ParseList", "OWS (SP / HTAB)", " \t"}, {S + "ParseDictionary", "OWS (SP / HTAB)", " \t"},
		{il, "SP only", " "}, {S + "consumeParameter", "SP only", " "},
	} {
		c56Skippers(c, ev, u.fn, u.what, u.set)
	}
	// display strings: a decoded U+FFFD is an error only when it stands for undecodable input (size 1)
	ds := S + "consumeDisplayString$1"
	c.GuardP(ds, RetConst(0, "false").UnderP(AtomLike("decoded rune == utf8.RuneError", EQ, func(l Lin) bool {
		ts, cs := LinTerms(l)
		return len(ts) == 1 && cs[0] == 1 && l.K == -0xFFFD && strings.HasPrefix(ts[0], "DecodeRune(")
	})), AtomLike("decoded size == 1", EQ, func(l Lin) bool {
		ts, cs := LinTerms(l)
		return len(ts) == 1 && cs[0] == 1 && l.K == -1 && strings.HasPrefix(ts[0], "DecodeRune(") && strings.HasSuffix(ts[0], "#1")
	}))

	// ---- the consumer in http2
	cl := "http2.parseRFC9218Priority$1"
	urg, inc := Stores("http2.PriorityParam.urgency"), Stores("http2.PriorityParam.incremental")
	c.Guard(cl, urg, "ParseInteger($1)#1", "ParseInteger($1)#0 >= 0", "ParseInteger($1)#0 <= 7", "\"u\" == $0")
	c.Count(cl, urg.StoredIs("ParseInteger($1)#0"), 1, 1)
	c.Count(cl, urg, 1, 1)
	c.Guard(cl, inc, "ParseBoolean($1)#1", "\"i\" == $0")
	c.Guard(cl, inc.StoredIs("1"), "ParseBoolean($1)#0")
	c.Guard(cl, inc.StoredIs("0"), "!ParseBoolean($1)#0")
	c.Count(cl, inc, 2, 2)
	pr := "http2.parseRFC9218Priority"
	c.Guard(pr, RetConst(1, "true"), "ParseDictionary($0,closure:parseRFC9218Priority$1)")
	c.CallAfterIncl(pr, c.Edge("!ParseDictionary($0,closure:parseRFC9218Priority$1)"), "http2.defaultRFC9218Priority")
	c.Count("http2.defaultRFC9218Priority", urg.StoredIs("3"), 2, 2)
	c.Count("http2.defaultRFC9218Priority", urg, 2, 2)
}

// c56ClosedByParen: the success return of the inner-list parser is reached only
// after a ')' was seen: either it is dominated by the fact x[0] == ')', or it is
// dominated by a boolean flag whose only true sources are assignments made
// under that fact (all other sources being the constant false).
func c56ClosedByParen(c *Ctx, fnName string, okSel Sel) bool {
	rule := "guard-before"
	construct := fnName + ": success only after the closing ')' was consumed"
	fn := c.MustFn(fnName)
	if fn == nil {
		return false
	}
	sites := okSel.F(c.P, fn)
	if len(sites) == 0 {
		c.Undecided(rule, construct, "no success return")
		return false
	}
	paren := c56FirstByteIs(EQ, ')')
	underParen := func(b *ssa.BasicBlock) bool {
		for _, f := range FactsAt(b) {
			if paren.F(f.Atom) {
				return true
			}
		}
		return false
	}
	var trueOnlyUnderParen func(v ssa.Value, seen map[ssa.Value]bool) string
	trueOnlyUnderParen = func(v ssa.Value, seen map[ssa.Value]bool) string {
		if seen[v] {
			return ""
		}
		seen[v] = true
		ph, ok := v.(*ssa.Phi)
		if !ok {
			return "flag value " + Term(v) + " is not a merge of constants"
		}
		for i, e := range ph.Edges {
			switch x := e.(type) {
			case *ssa.Const:
				if Term(x) == "true" && !underParen(ph.Block().Preds[i]) {
					return "the flag becomes true at " + c.P.Pos(InstrPos(ph.Block().Preds[i].Instrs[0])) + " without x[0] == ')' having been tested"
				}
			case *ssa.Phi:
				if why := trueOnlyUnderParen(x, seen); why != "" {
					return why
				}
			default:
				return "flag source " + Term(e) + " is not a constant"
			}
		}
		return ""
	}
	for _, in := range sites {
		good, why := false, "the success return is dominated neither by x[0] == ')' nor by a closed-flag"
		for _, f := range FactsAtInstr(in) {
			if paren.F(f.Atom) {
				good = true
				break
			}
			if f.Atom.Kind != TRUE {
				continue
			}
			// a flag test: the If condition itself is the flag
			if w := trueOnlyUnderParen(f.If.Cond, map[ssa.Value]bool{}); w == "" {
				good = true
				break
			} else if _, isPhi := f.If.Cond.(*ssa.Phi); isPhi {
				why = w
			}
		}
		if !good {
			c.Fail(rule, construct, InstrPos(in), why+" (input \"(\" is accepted when the loop is skipped)")
			return false
		}
	}
	c.OK(rule, construct, fmt.Sprintf("%d success return(s)", len(sites)))
	return true
}

// c56Skippers: every x[g(x):] in fn uses a function g whose scanning loop, evaluated
// for all 256 bytes, skips exactly the bytes of set and stops at every other byte.
func c56Skippers(c *Ctx, ev *Evaluator, fnName, what, set string) bool {
	rule := "table-exhaustive"
	construct := fnName + ": whitespace skipped with x[g(x):] is " + what
	fn := c.MustFn(fnName)
	if fn == nil {
		return false
	}
	seen := map[string]bool{}
	for _, b := range fn.Blocks {
		for _, in := range b.Instrs {
			sl, ok := in.(*ssa.Slice)
			if !ok || sl.High != nil || sl.Low == nil {
				continue
			}
			call, ok := sl.Low.(*ssa.Call)
			if !ok || len(BaselineArgs(&call.Call)) != 1 || BaselineArgs(&call.Call)[0] != sl.X {
				continue
			}
			seen[CalleeName(&call.Call)] = true
		}
	}
	if len(seen) == 0 {
		c.Undecided(rule, construct, "no x[g(x):] site")
		return false
	}
	for g := range seen {
		if c.P.Fn(g) == nil {
			c.Undecided(rule, construct, "skipper "+g+" is not a repository function")
			return false
		}
		// the same count written with the library: len(s) - len(strings.TrimLeft(s, cutset))
		if cut, isTrim := c56TrimLeftSkipper(c.P.Fn(g)); isTrim {
			for v := 0; v < 256; v++ {
				inCut := v < 128 && strings.IndexByte(cut, byte(v)) >= 0
				if inCut != (strings.IndexByte(set, byte(v)) >= 0) {
					c.Fail(rule, construct, c.P.Fn(g).Pos(), fmt.Sprintf("%s: byte 0x%02x: strings.TrimLeft cutset %q, RFC 9651 set %q", g, v, cut, set))
					return false
				}
			}
			for _, r := range cut {
				if r >= 128 {
					c.Fail(rule, construct, c.P.Fn(g).Pos(), fmt.Sprintf("%s: cutset %q contains a non-ASCII character", g, cut))
					return false
				}
			}
			continue
		}
		l, err := ev.FindElemLoop(g)
		if err != nil {
			c.Undecided(rule, construct, g+": "+err.Error())
			return false
		}
		for v := int64(0); v < 256; v++ {
			o, err := ev.Iteration(l, v)
			if err != nil {
				c.Undecided(rule, construct, g+": loop not evaluable: "+err.Error())
				return false
			}
			want := "break"
			if strings.IndexByte(set, byte(v)) >= 0 {
				want = "next"
			}
			if o != want {
				c.Fail(rule, construct, l.Body.Pos(), fmt.Sprintf("%s: for byte 0x%02x the loop does `%s`, RFC 9651 requires `%s` here", g, v, o, want))
				return false
			}
		}
	}
	var gs []string
	for g := range seen {
		gs = append(gs, g)
	}
	c.OK(rule, construct, "256 bytes evaluated for "+strings.Join(gs, ", "))
	return true
}

// c56TrimLeftSkipper recognises  func g(s string) int { return len(s) - len(strings.TrimLeft(s, "cutset")) }.
func c56TrimLeftSkipper(fn *ssa.Function) (string, bool) {
	if fn == nil || len(fn.Blocks) != 1 || len(fn.Params) != 1 {
		return "", false
	}
	ret, ok := fn.Blocks[0].Instrs[len(fn.Blocks[0].Instrs)-1].(*ssa.Return)
	if !ok || len(ret.Results) != 1 {
		return "", false
	}
	sub, ok := ret.Results[0].(*ssa.BinOp)
	if !ok || sub.Op != token.SUB {
		return "", false
	}
	lenOf := func(v ssa.Value) ssa.Value {
		call, ok := v.(*ssa.Call)
		if !ok {
			return nil
		}
		if b, isB := call.Call.Value.(*ssa.Builtin); !isB || b.Name() != "len" || len(call.Call.Args) != 1 {
			return nil
		}
		return call.Call.Args[0]
	}
	if lenOf(sub.X) != ssa.Value(fn.Params[0]) {
		return "", false
	}
	trim, ok := lenOf(sub.Y).(*ssa.Call)
	if !ok || CalleeName(&trim.Call) != "strings.TrimLeft" || len(trim.Call.Args) != 2 || trim.Call.Args[0] != ssa.Value(fn.Params[0]) {
		return "", false
	}
	k, ok := trim.Call.Args[1].(*ssa.Const)
	if !ok || k.Value == nil || k.Value.Kind() != constant.String {
		return "", false
	}
	return constant.StringVal(k.Value), true
}
