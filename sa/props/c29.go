package props

import (
	"fmt"
	"go/token"
	"sort"
	"strings"

	. "verif/sa/core"

	"golang.org/x/tools/go/ssa"
)

func init() {
	Register(&Property{
		ID:    "C29",
		Floor: 80,
		Clauses: "quic.gate and internal/gate.Gate, by enumeration of every path of each method: both channels are made with capacity 1; lock performs exactly one channel receive and returns true iff it was from set; " +
			"waitAndLock returning nil performed exactly one receive, from set, and returning an error performed none; lockIfSet true = one receive from set, false = none; " +
			"unlock performs exactly one send, to set iff its argument is true; no gate method loops; the two channel fields are referenced only inside the gate methods and constructors. " +
			"Acquire/release typestate (path-sensitive, deferred releases included) of every function in package quic that contains a gate operation: never a double acquire, never a release of a gate not held, " +
			"exactly the declared gates held at every return; wrappers (inUnlock, inUnlockNoQueue, outUnlock, outUnlockNoQueue, localStreamLimits.unlock, queue.unlock, unlockFunc, the deferred closure of Stream.Read) " +
			"release exactly the corresponding gate field once; newStream creates both gates locked and its only callers (newLocalStream, streamForFrame) release both. " +
			"queue: unlock recomputes the condition as err != nil || len(q) > 0 on every path; get indexes q only after a nil waitAndLock and a nil err test and returns element 0; " +
			"get removes exactly the head element; put appends (at the tail) only when err is nil and returns true only after the append; close stores err only when it is nil; err and q are written only by these methods; " +
			"gate values are installed only by newStream/newQueue/localStreamLimits.init and the channel fields are assigned only in the constructors.",
		NotCovered: "fairness and real scheduling; the Go runtime's channel semantics (a capacity-1 channel holds at most one token) are trusted; " +
			"that the invariant 'exactly one of set/unset holds a token when unlocked' is preserved follows from the per-method facts plus the typestate only if no caller unlocks a gate it does not hold, which is checked inside package quic only; " +
			"data accesses made without the gate (guarded-by discipline of the stream fields) are not checked.",
		Run: c29,
	})
}

// gateOps is the effect table of the gate API and of its wrappers in package quic.
func gateOps() []XLockOp {
	return []XLockOp{
		{Callee: "(*quic.gate).lock", Kind: "acq"},
		{Callee: "(*quic.gate).waitAndLock", Kind: "acq-if-nil"},
		{Callee: "(*quic.gate).lockIfSet", Kind: "acq-if-true"},
		{Callee: "(*quic.gate).unlock", Kind: "rel"},
		{Callee: "(*quic.gate).unlockFunc", Kind: "rel"},
		{Callee: "(*quic.Stream).inUnlock", Kind: "rel", Fields: []string{"ingate"}},
		{Callee: "(*quic.Stream).inUnlockNoQueue", Kind: "rel", Fields: []string{"ingate"}},
		{Callee: "(*quic.Stream).outUnlock", Kind: "rel", Fields: []string{"outgate"}},
		{Callee: "(*quic.Stream).outUnlockNoQueue", Kind: "rel", Fields: []string{"outgate"}},
		{Callee: "(*quic.localStreamLimits).unlock", Kind: "rel", Fields: []string{"gate"}},
		{Callee: "(*quic.queue[T]).unlock", Kind: "rel", Fields: []string{"gate"}},
		{Callee: "(*quic.queue[T]).unlock[T]", Kind: "rel", Fields: []string{"gate"}}, // as named inside the generic bodies
		{Callee: "quic.newStream", Kind: "acq-result", Fields: []string{"ingate", "outgate"}},
	}
}

type gateAPI struct {
	pkg, typ                              string // "quic", "gate"
	lock, wait, lockIfSet, unlock, create string
	others                                []string // further functions allowed to touch the channels
	installers                            []string // functions that store a whole, freshly constructed gate into a struct
}

func c29(c *Ctx) {
	proven := c29Gate(c, gateAPI{"quic", "gate", "(*quic.gate).lock", "(*quic.gate).waitAndLock", "(*quic.gate).lockIfSet", "(*quic.gate).unlock", "quic.newLockedGate", nil,
		[]string{"quic.newStream", "quic.newQueue", "(*quic.localStreamLimits).init"}})
	c29Gate(c, gateAPI{"internal/gate", "Gate", "(*internal/gate.Gate).Lock", "(*internal/gate.Gate).WaitAndLock", "(*internal/gate.Gate).LockIfSet", "(*internal/gate.Gate).Unlock", "internal/gate.New", nil, nil})

	// newGate = a locked gate unlocked once with the condition unset
	c.Count("quic.newGate", Calls("(*quic.gate).unlock").ArgIs(1, "false"), 1, 1)
	c.Count("quic.newGate", Calls("(*quic.gate).unlock", "(*quic.gate).lock", "(*quic.gate).waitAndLock", "(*quic.gate).lockIfSet", "(*quic.gate).unlockFunc"), 1, 1)
	c.ArgFrom("quic.newGate", Calls("(*quic.gate).unlock"), 0, "the gate made by newLockedGate", IsCallTo("quic.newLockedGate"))
	// internal/gate.New unlocks the fresh gate once with its argument
	c.Count("internal/gate.New", Calls("(*internal/gate.Gate).Unlock").ArgIs(1, "$0"), 1, 1)
	c.Count("internal/gate.New", Calls("(*internal/gate.Gate).Unlock", "(*internal/gate.Gate).Lock", "(*internal/gate.Gate).WaitAndLock", "(*internal/gate.Gate).LockIfSet"), 1, 1)

	c29Typestate(c, proven)
	c29Queue(c)
	c.XDump()
}

// ---------------------------------------------------------------------------
// gate semantics by path enumeration

// c29Gate checks the gate methods of one gate type by path enumeration and
// returns, per method name, whether its path obligation was established.
//
// A gate method may use lockIfSet as its fast path. Such a call is evaluated
// through lockIfSet's own obligation (true <=> it received once from set, i.e.
// acquired; false <=> it received nothing): on a path that took the edge where
// the call's result is true the call counts as one receive from set, on the
// false edge as none. The summary is used only when lockIfSet's obligation was
// established in this run, and only for a call on the method's own receiver.
func c29Gate(c *Ctx, g gateAPI) map[string]bool {
	proven := map[string]bool{}
	setCh, unsetCh := "$r.set", "$r.unset"
	isGateCh := func(on string) bool { return on == setCh || on == unsetCh }
	any := func(string) bool { return true }
	paths := func(name string) []*XPath {
		fn := c.MustFn(name)
		if fn == nil {
			return nil
		}
		ps, cyc, trunc := XPaths(fn, 256)
		if cyc || trunc || len(ps) == 0 {
			c.Fail("gate-paths", name+": loop-free, enumerable", fn.Pos(), fmt.Sprintf("cyclic=%v truncated=%v paths=%d: a gate method must be straight-line select code", cyc, trunc, len(ps)))
			return nil
		}
		c.OK("gate-paths", name+": loop-free, enumerable", fmt.Sprintf("%d path(s)", len(ps)))
		return ps
	}
	const undecided = "undecided: "
	check := func(name, what string, ps []*XPath, ok func(x *XPath) string) bool {
		if ps == nil {
			c.Undecided("gate-paths", name+": "+what, "no paths")
			return false
		}
		n := 0
		for _, x := range ps {
			if _, isPanic := x.Exit.(*ssa.Panic); isPanic {
				c.Fail("gate-paths", name+": "+what, InstrPos(x.Exit), "a path ends in panic")
				return false
			}
			why := ok(x)
			if why == infeasiblePath {
				continue
			}
			if strings.HasPrefix(why, undecided) {
				c.Undecided("gate-paths", name+": "+what, strings.TrimPrefix(why, undecided)+" [path events: "+evs(x)+"]")
				return false
			}
			if why != "" {
				c.Fail("gate-paths", name+": "+what, InstrPos(x.Exit), why+" [path events: "+evs(x)+"]")
				return false
			}
			n++
		}
		if n == 0 {
			c.Undecided("gate-paths", name+": "+what, "no feasible path")
			return false
		}
		c.OK("gate-paths", name+": "+what, fmt.Sprintf("%d path(s)", n))
		return true
	}
	// recvs lists the channels received from on the path, in order, the
	// receives made inside summarised callees included. self is the method
	// being checked.
	recvs := func(self string, x *XPath) (from []string, why string) {
		for _, e := range x.Events {
			switch e.Kind {
			case "send":
				return nil, "channel send in an acquire operation"
			case "recv":
				from = append(from, e.On)
			case "defer", "go":
				if e.On == g.lock || e.On == g.wait || e.On == g.lockIfSet || e.On == g.unlock {
					return nil, "calls another gate operation"
				}
			case "call":
				switch {
				case e.On == g.lock || e.On == g.wait || e.On == g.unlock:
					return nil, "calls another gate operation"
				case e.On != g.lockIfSet:
					continue
				case self == g.lockIfSet:
					return nil, "calls another gate operation"
				case x.Arg(e, 0) != "$r":
					return nil, "calls " + g.lockIfSet + " on another gate (" + x.Arg(e, 0) + ")"
				case !proven[g.lockIfSet]:
					return nil, undecided + "calls " + g.lockIfSet + ", whose own path obligation is not established in this run"
				}
				edge, feasible := Q29BoolEdge(x, e)
				switch {
				case !feasible:
					return nil, infeasiblePath
				case edge > 0:
					from = append(from, setCh) // lockIfSet() == true: it received once, from set
				case edge < 0: // lockIfSet() == false: it received nothing
				default:
					return nil, "the result of " + g.lockIfSet + " is not tested on this path: the gate may or may not have been acquired"
				}
			}
		}
		return from, ""
	}
	count := func(from []string, pred func(string) bool) int {
		n := 0
		for _, f := range from {
			if pred(f) {
				n++
			}
		}
		return n
	}

	// lockIfSet (first: the other acquire operations may be written in terms of it)
	ps := paths(g.lockIfSet)
	okPaths := check(g.lockIfSet, "true => one receive from set; false => none", ps, func(x *XPath) string {
		from, w := recvs(g.lockIfSet, x)
		if w != "" {
			return w
		}
		nAll := len(from)
		nSet := count(from, func(on string) bool { return on == setCh })
		switch x.Ret(0) {
		case "true":
			if nAll != 1 || nSet != 1 {
				return fmt.Sprintf("returns true after %d receive(s), %d from set", nAll, nSet)
			}
		case "false":
			if nAll != 0 {
				return "returns false after a receive"
			}
		default:
			return "non-constant result " + x.Ret(0)
		}
		return ""
	})
	// lockIfSet never blocks
	if fn := c.MustFn(g.lockIfSet); fn != nil {
		blocking := false
		for _, b := range fn.Blocks {
			for _, in := range b.Instrs {
				if s, ok := in.(*ssa.Select); ok && s.Blocking {
					blocking = true
				}
				if u, ok := in.(*ssa.UnOp); ok && u.Op == token.ARROW {
					blocking = true
				}
			}
		}
		nb := c.Check(!blocking, "gate-paths", g.lockIfSet+": non-blocking", fn.Pos(), "", "contains a blocking receive")
		proven[g.lockIfSet] = okPaths && nb
	}

	// lock
	ps = paths(g.lock)
	proven[g.lock] = check(g.lock, "exactly one receive; true iff from set", ps, func(x *XPath) string {
		all, w := recvs(g.lock, x)
		if w != "" {
			return w
		}
		if n := len(all); n != 1 {
			return fmt.Sprintf("%d receives on a path", n)
		}
		from := all[0]
		switch {
		case from == setCh && x.Ret(0) == "true", from == unsetCh && x.Ret(0) == "false":
			return ""
		}
		return "receive from " + from + " returns " + x.Ret(0)
	})
	// waitAndLock
	ps = paths(g.wait)
	okWait := check(g.wait, "nil => exactly one receive, from set; error => no gate receive", ps, func(x *XPath) string {
		from, w := recvs(g.wait, x)
		if w != "" {
			return w
		}
		nGate := count(from, isGateCh)
		nSet := count(from, func(on string) bool { return on == setCh })
		if x.Ret(0) == "nil" {
			if nGate != 1 || nSet != 1 {
				return fmt.Sprintf("returns nil after %d gate receive(s), %d from set", nGate, nSet)
			}
			return ""
		}
		if nGate != 0 {
			return fmt.Sprintf("returns %s after taking the gate token", x.Ret(0))
		}
		return ""
	})
	hasNil, hasErr := false, false
	for _, x := range ps {
		if x.Ret(0) == "nil" {
			hasNil = true
		} else if strings.HasPrefix(x.Ret(0), ".Err(") {
			hasErr = true
		}
	}
	okBoth := c.Check(hasNil && hasErr, "gate-paths", g.wait+": has an acquiring path and a context-error path", token.NoPos, "", "waitAndLock must be able to return both nil and ctx.Err()")
	proven[g.wait] = okWait && okBoth
	// the blocking wait also listens on the context: otherwise a cancelled waiter never returns
	{
		fn := c.MustFn(g.wait)
		ok := false
		if fn != nil {
			for _, b := range fn.Blocks {
				for _, in := range b.Instrs {
					if s, isSel := in.(*ssa.Select); isSel && s.Blocking {
						a, d := false, false
						for _, st := range s.States {
							if Term(st.Chan) == setCh {
								a = true
							}
							if strings.HasPrefix(Term(st.Chan), ".Done(") {
								d = true
							}
						}
						ok = ok || a && d
					}
				}
			}
		}
		c.Check(ok, "gate-paths", g.wait+": blocking select waits on set and on ctx.Done()", token.NoPos, "", "no blocking select over {set, ctx.Done()}")
	}
	// unlock
	ps = paths(g.unlock)
	pTrue, _ := c.P.ParseAtom("$0")
	proven[g.unlock] = check(g.unlock, "exactly one send; to set iff the argument is true", ps, func(x *XPath) string {
		if n := x.Count("recv", any); n != 0 {
			return "unlock receives from a channel"
		}
		if n := x.Count("call", func(on string) bool { return on == g.lock || on == g.wait || on == g.lockIfSet || on == g.unlock }); n != 0 {
			return "calls another gate operation"
		}
		if n := x.Count("send", any); n != 1 {
			return fmt.Sprintf("%d sends on a path", n)
		}
		to := ""
		for _, e := range x.Events {
			if e.Kind == "send" {
				to = e.On
				if _, isSel := e.In.(*ssa.Select); isSel {
					return "send inside a select (may be skipped)"
				}
			}
		}
		switch {
		case x.Holds(pTrue) && to == setCh, x.Holds(pTrue.Negate()) && to == unsetCh:
			return ""
		}
		return "sends to " + to + " under conditions " + conds(x)
	})

	// channels: capacity 1, both created in the constructor
	if fn := c.MustFn(g.create); fn != nil {
		made := map[string]string{}
		for _, b := range fn.Blocks {
			for _, in := range b.Instrs {
				st, ok := in.(*ssa.Store)
				if !ok {
					continue
				}
				if mc, ok := st.Val.(*ssa.MakeChan); ok {
					if fa, ok := st.Addr.(*ssa.FieldAddr); ok {
						t := Term(fa)
						made[t[strings.LastIndex(t, ".")+1:]] = Term(mc.Size)
					}
				}
			}
		}
		c.Check(made["set"] == "1" && made["unset"] == "1", "gate-channels", g.create+": set and unset are made with capacity 1", fn.Pos(),
			fmt.Sprint(made), fmt.Sprintf("channel capacities found: %v (a token channel must have capacity exactly 1: 0 deadlocks unlock, >1 admits two holders)", made))
	}
	gateFns := append([]string{g.lock, g.wait, g.lockIfSet, g.unlock, g.create}, g.others...)
	// the channels are assigned only at construction; a gate value is installed only by the listed initialisers
	c.Writers(g.pkg+"."+g.typ+".set", append([]string{g.create}, g.installers...)...)
	c.Writers(g.pkg+"."+g.typ+".unset", append([]string{g.create}, g.installers...)...)
	c.XFieldRefs(g.pkg+"."+g.typ+".set", nil, gateFns...)
	c.XFieldRefs(g.pkg+"."+g.typ+".unset", nil, gateFns...)
	return proven
}

// infeasiblePath marks a path that takes both edges of tests of one value.
const infeasiblePath = "\x00infeasible"

func evs(x *XPath) string {
	var ss []string
	for _, e := range x.Events {
		ss = append(ss, e.Kind+" "+e.On)
	}
	return strings.Join(ss, "; ")
}

func conds(x *XPath) string {
	var ss []string
	for _, a := range x.Conds {
		ss = append(ss, a.String())
	}
	return "{" + strings.Join(ss, " ; ") + "}"
}

// ---------------------------------------------------------------------------
// acquire/release pairing at every gate lock site of package quic

// gatePrimitive is the typestate contract of a gate method itself: what it is
// entered holding and what it holds at a return, as a function of the value
// returned on the path.
type gatePrimitive struct {
	contract string
	entry    []string
	expect   func(x *XPath) (held []string, why string)
}

func gatePrimitives() map[string]gatePrimitive {
	held, none := []string{"$r"}, []string(nil)
	return map[string]gatePrimitive{
		"(*quic.gate).lock": {"returns holding $r", nil, func(*XPath) ([]string, string) { return held, "" }},
		"(*quic.gate).waitAndLock": {"returns holding $r iff the result is nil", nil, func(x *XPath) ([]string, string) {
			switch r := x.Ret(0); {
			case r == "nil":
				return held, ""
			case r == "":
				return nil, "no result"
			}
			// any other result is an error value only if it cannot be nil; ctx.Err() after <-ctx.Done() is
			// trusted non-nil (gate-paths requires the error path to be .Err(ctx))
			return none, ""
		}},
		"(*quic.gate).lockIfSet": {"returns holding $r iff the result is true", nil, func(x *XPath) ([]string, string) {
			switch x.Ret(0) {
			case "true":
				return held, ""
			case "false":
				return none, ""
			}
			return nil, "non-constant result " + x.Ret(0)
		}},
		"(*quic.gate).unlock": {"entered holding $r, returns holding nothing", held, func(*XPath) ([]string, string) { return none, "" }},
	}
}

func c29Typestate(c *Ctx, proven map[string]bool) {
	ops := gateOps()
	prims := gatePrimitives()
	queueFns := c.P.XGenericMethods("quic.queue")
	if len(queueFns) < 4 {
		c.Undecided("anchor", "quic.queue methods", fmt.Sprintf("found %d generic method bodies, expected close/put/get/unlock", len(queueFns)))
	}
	// wrappers: entered holding the gate they release
	entry := map[string][]string{
		"(*quic.Stream).inUnlock":          {"$r.ingate"},
		"(*quic.Stream).inUnlockNoQueue":   {"$r.ingate"},
		"(*quic.Stream).outUnlock":         {"$r.outgate"},
		"(*quic.Stream).outUnlockNoQueue":  {"$r.outgate"},
		"(*quic.localStreamLimits).unlock": {"$r.gate"},
		"(*quic.queue[T]).unlock":          {"$r.gate"},
		"(*quic.gate).unlockFunc":          {"$r"},
	}
	skip := map[string]bool{"quic.newGate": true} // checked above (operates on a local copy of a fresh gate)
	var fns []*ssa.Function
	for _, fn := range c.P.All {
		if strings.Contains(FnName(fn), "quic.") && !strings.HasPrefix(FnName(fn), "internal/") {
			fns = append(fns, fn)
		}
	}
	fns = append(fns, queueFns...)
	sort.Slice(fns, func(i, j int) bool { return FnName(fns[i]) < FnName(fns[j]) })
	sites, nfn := 0, 0
	seenWrapper := map[string]bool{}
	for _, fn := range fns {
		name := FnName(fn)
		if skip[name] {
			continue
		}
		fops := ops
		// closures created here that release a gate of a captured variable
		cops, cerr := closureOps(c, fn, ops)
		if cerr != "" {
			c.Undecided("lock-typestate", name+": closure releasing a gate", cerr)
			continue
		}
		fops = append(append([]XLockOp{}, ops...), cops...)
		n := XLockSites(fn, fops)
		if n == 0 {
			continue
		}
		if fn.Parent() != nil {
			continue // closures are checked from their parent (closureOps)
		}
		if gp, isPrim := prims[name]; isPrim {
			// a gate method written in terms of other gate methods: the token-channel operations count as
			// acquire/release next to the calls, and what is held at a return depends on the result.
			// The callee effects of the table are summaries of the gate-paths obligations: use them only
			// when those are established in this run.
			missing := ""
			for _, e := range c29GateCallees(fn, prims) {
				if !proven[e] {
					missing = e
				}
			}
			if missing != "" {
				c.Undecided("lock-typestate", name+": acquire/release balanced on every path ("+gp.contract+")",
					"calls "+missing+", whose own gate-paths obligation is not established in this run")
				continue
			}
			c.Q29LockBalancedPaths(name, gp.contract, fops, []string{"set", "unset"}, gp.entry, gp.expect)
			continue
		}
		sites += n
		nfn++
		if _, w := entry[name]; w {
			seenWrapper[name] = true
		}
		c.XLockBalanced(name, fops, entry[name], nil)
	}
	for w := range entry {
		if !seenWrapper[w] {
			c.Undecided("lock-typestate", w+": release wrapper", "wrapper not found or contains no gate operation")
		}
	}
	c.Check(sites >= 60 && nfn >= 25, "lock-typestate", "gate operation sites of package quic are all covered", token.NoPos,
		fmt.Sprintf("%d site(s) in %d function(s)", sites, nfn), fmt.Sprintf("only %d gate operation site(s) in %d function(s) found; the inventory was 70+ in 30+", sites, nfn))

	// newStream hands over both gates locked: they are created by newLockedGate and not released inside
	ns := "quic.newStream"
	c.StoredFrom(ns, Stores("quic.Stream.ingate"), "newLockedGate()", IsCallTo("quic.newLockedGate"))
	c.StoredFrom(ns, Stores("quic.Stream.outgate"), "newLockedGate()", IsCallTo("quic.newLockedGate"))
	if fn := c.MustFn(ns); fn != nil {
		c.Check(XLockSites(fn, ops) == 0, "lock-typestate", ns+": no gate operation before the hand-over", fn.Pos(), "", "newStream operates a gate; its callers assume both gates are returned locked")
	}
	c.Callers(ns, "(*quic.Conn).newLocalStream", "(*quic.Conn).streamForFrame")
	// the gate constructors are used only where the typestate knows the initial state
	c.Callers("quic.newLockedGate", "quic.newGate", "quic.newStream")
	c.Callers("quic.newGate", "quic.newQueue", "(*quic.localStreamLimits).init")
}

// c29GateCallees lists the gate methods called (or deferred) in fn.
func c29GateCallees(fn *ssa.Function, prims map[string]gatePrimitive) []string {
	seen := map[string]bool{}
	var out []string
	for _, b := range fn.Blocks {
		for _, in := range b.Instrs {
			if ci, ok := in.(ssa.CallInstruction); ok {
				n := CalleeName(ci.Common())
				if _, isPrim := prims[n]; isPrim && !seen[n] {
					seen[n] = true
					out = append(out, n)
				}
			}
		}
	}
	sort.Strings(out)
	return out
}

// closureOps finds closures made in fn that release a gate reached through a
// captured variable, checks each such closure as a wrapper, and returns ops
// that express their effect in fn's own terms.
func closureOps(c *Ctx, fn *ssa.Function, ops []XLockOp) ([]XLockOp, string) {
	var out []XLockOp
	for _, b := range fn.Blocks {
		for _, in := range b.Instrs {
			mc, ok := in.(*ssa.MakeClosure)
			if !ok {
				continue
			}
			cl := mc.Fn.(*ssa.Function)
			if XLockSites(cl, ops) == 0 {
				continue
			}
			// the single released object, in the closure's terms and in the parent's terms
			var clObj, parentBase string
			var fields []string
			n := 0
			for _, cb := range cl.Blocks {
				for _, cin := range cb.Instrs {
					ci, ok := cin.(ssa.CallInstruction)
					if !ok {
						continue
					}
					for i := range ops {
						if CalleeName(ci.Common()) != ops[i].Callee {
							continue
						}
						n++
						if ops[i].Kind != "rel" || len(BaselineArgs(ci.Common())) == 0 {
							return nil, "closure " + FnName(cl) + " acquires a gate (not modelled)"
						}
						u, ok := BaselineArgs(ci.Common())[0].(*ssa.UnOp)
						if !ok {
							return nil, "closure " + FnName(cl) + ": released object is not a captured variable"
						}
						fv, ok := u.X.(*ssa.FreeVar)
						if !ok {
							return nil, "closure " + FnName(cl) + ": released object is not a captured variable"
						}
						for k, f := range cl.FreeVars {
							if f == fv && k < len(mc.Bindings) {
								parentBase = strings.TrimPrefix(Term(derefOf(mc.Bindings[k])), "&")
							}
						}
						fields = ops[i].Fields
						clObj = Term(BaselineArgs(ci.Common())[0])
						if len(fields) == 1 {
							clObj += "." + fields[0]
						}
					}
				}
			}
			if n != 1 || parentBase == "" || len(fields) > 1 {
				return nil, fmt.Sprintf("closure %s has %d gate operations (only a single release of a captured stream's gate is modelled)", FnName(cl), n)
			}
			c.XLockBalanced(FnName(cl), ops, []string{clObj}, nil)
			out = append(out, XLockOp{Callee: FnName(cl), Kind: "rel", Obj: parentBase, Fields: fields})
		}
	}
	return out, ""
}

// derefOf returns a value rendering as the content of the variable whose address is addr.
func derefOf(addr ssa.Value) ssa.Value {
	if refs := addr.Referrers(); refs != nil {
		for _, r := range *refs {
			if u, ok := r.(*ssa.UnOp); ok && u.Op == token.MUL && u.X == addr {
				return u
			}
		}
	}
	return addr
}

// ---------------------------------------------------------------------------
// queue

func c29Queue(c *Ctx) {
	const Q = "(*quic.queue[T])."
	fns := c.P.XGenericMethods("quic.queue")
	// unlock recomputes the condition on every path
	if fn := c.MustFn(Q + "unlock"); fn != nil {
		ps, cyc, trunc := XPaths(fn, 64)
		errSet, _ := c.P.ParseAtom("$r.err != nil")
		nonEmpty, _ := c.P.ParseAtom("len($r.q) > 0")
		bad := ""
		for _, x := range ps {
			var calls []XEvent
			for _, e := range x.Events {
				if e.Kind == "call" || e.Kind == "defer" {
					if e.On == "(*quic.gate).unlock" {
						calls = append(calls, e)
					}
				}
			}
			if len(calls) != 1 {
				bad = fmt.Sprintf("%d gate.unlock calls on a path", len(calls))
				break
			}
			if x.Arg(calls[0], 0) != "&$r.gate" {
				bad = "unlocks " + x.Arg(calls[0], 0)
				break
			}
			arg := x.ArgValue(calls[0], 1)
			switch {
			case x.Holds(errSet) && Term(arg) == "true":
			case x.Holds(errSet.Negate()) && SameAtom(CondAtom(arg), nonEmpty):
			default:
				bad = "condition passed is " + Term(arg) + " under " + conds(x)
			}
		}
		c.Check(bad == "" && !cyc && !trunc && len(ps) >= 2, "queue", Q+"unlock: sets the gate condition to err != nil || len(q) > 0 on every path", fn.Pos(), fmt.Sprintf("%d path(s)", len(ps)), bad)
	}
	// get
	get := Q + "get"
	idx := Indexing("$r.q")
	c.Reject(get, idx, "waitAndLock(&$r.gate,$0) != nil")
	c.Reject(get, idx, "$r.err != nil")
	c.Reject(get, XRetOK(), "$r.err != nil")
	c.Reject(get, XRetOK(), "waitAndLock(&$r.gate,$0) != nil")
	c.Has(get, XRetOK().Where("result is q[0]", func(in ssa.Instruction) bool { return Term(XRetVal(in.(*ssa.Return), 0)) == "$r.q[0]" }))
	c.Count(get, XRetOK(), 1, 1)
	// a successful get removes exactly the head: either q = q[1:], or shift-left by one and drop the tail
	if fn := c.MustFn(get); fn != nil {
		shift := len(Calls("builtin:copy").ArgIs(0, "$r.q[:]").ArgIs(1, "$r.q[1:]").F(c.P, fn)) == 1
		drop := len(XStores("quic.queue.q").StoredIs("$r.q[:(len($r.q)-1)]").F(c.P, fn)) == 1
		reslice := len(XStores("quic.queue.q").StoredIs("$r.q[1:]").F(c.P, fn)) == 1
		n := len(XStores("quic.queue.q").F(c.P, fn))
		c.Check(n == 1 && (reslice || shift && drop), "queue", get+": removes exactly the head element", fn.Pos(), "", fmt.Sprintf("stores to q: %d, shift-left copy: %v, tail drop: %v, q[1:]: %v", n, shift, drop, reslice))
	}
	// put
	put := Q + "put"
	c.Reject(put, XStores("quic.queue.q"), "$r.err != nil")
	c.Before(put, XStores("quic.queue.q"), XRetIs(0, "true"))
	c.Count(put, XStores("quic.queue.q"), 1, 1)
	c.StoredFrom(put, XStores("quic.queue.q"), "append(q.q, v)", func(v ssa.Value) bool {
		call, ok := v.(*ssa.Call)
		if !ok {
			return false
		}
		b, ok := call.Call.Value.(*ssa.Builtin)
		return ok && b.Name() == "append" && Term(BaselineArgs(&call.Call)[0]) == "$r.q" && DependsOn(BaselineArgs(&call.Call)[1], IsTerm("$0"))
	})
	// close
	cl := Q + "close"
	c.Reject(cl, XStores("quic.queue.err"), "$r.err != nil")
	c.Has(cl, XStores("quic.queue.err").StoredIs("$0"))
	// ownership of err and q
	for field, allowed := range map[string][]string{
		"quic.queue.err": {Q + "close"},
		"quic.queue.q":   {Q + "put", Q + "get"},
	} {
		got := c.P.XStoresIn(field, fns)
		var names []string
		ok := len(got) > 0
		for n := range got {
			names = append(names, n)
			found := false
			for _, a := range allowed {
				found = found || a == n
			}
			ok = ok && found
		}
		sort.Strings(names)
		// stores from non-generic code (none expected)
		ws, _ := c.P.FieldWriters(field)
		for _, w := range ws {
			if w.Kind == "store" {
				found := false
				for _, a := range allowed {
					found = found || a == w.Fn
				}
				if !found {
					ok = false
					names = append(names, w.Fn)
				}
			}
		}
		c.Check(ok, "writers", field+" ⊆ {"+strings.Join(allowed, ", ")+"}", token.NoPos, strings.Join(names, ", "), "stores found in: "+strings.Join(names, ", "))
	}
	c.XFieldRefs("quic.queue.gate", fns, Q+"close", Q+"put", Q+"get", Q+"unlock", "quic.newQueue")
}
