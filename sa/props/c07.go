package props

import (
	"fmt"
	"go/ast"
	"go/token"
	"go/types"
	"sort"
	"strings"

	"golang.org/x/tools/go/ssa"

	. "verif/sa/core"
)

// Specification data: the pseudo-header fields a MetaHeadersFrame may carry
// (RFC 9113 section 8.3.1 and 8.3.2, RFC 8441 section 4).
var c07Pseudos = []string{":authority", ":method", ":path", ":protocol", ":scheme", ":status"}

func init() {
	Register(&Property{
		ID:    "C07",
		Floor: 118,
		Clauses: "validation inventory of the eleven frame parsers as rejecting branches that exclude the success return (stream-id-zero / non-zero rules, exact lengths 4/5/8, minimum lengths 4/8, len%6, SETTINGS ack-with-payload, INITIAL_WINDOW_SIZE > 2^31-1, zero WINDOW_UPDATE increment, zero prioritized stream); the error of every readByte/readUint32 call is tested before success; every 'strip padding' slice is dominated by upper-bound >= 0; " +
			"ReadFrameHeader: Length > maxReadSize and a checkFrameOrder error exclude success, checkFrameOrder is applied to the header just read and called from nowhere else; maxReadSize is written only by SetMaxReadFrameSize, which clamps to 2^24-1; ReadFrame passes exactly the checked header on; ReadFrameForHeader reads exactly fh.Length bytes and tests the read and parse errors; " +
			"checkFrameOrder (when AllowIllegalReads is off): non-CONTINUATION or other-stream frame inside a header block and CONTINUATION outside one exclude success; lastHeaderStream is written only there, 0 under END_HEADERS and the stream id otherwise, for HEADERS and CONTINUATION only; the END_HEADERS bit tested equals both flag constants; " +
			"readMetaFrame: AllowIllegalReads, hpack Write/Close errors, a pending invalid-field error and a checkPseudos error exclude the nil-error return; the emit closure appends a field only under invalid == nil and size <= remaining budget, records an error on an invalid value, an invalid or upper-case name and a pseudo-header after a regular field, never clears that error, marks Truncated and stops emitting when over budget, and charges every appended field; oversized fragments (len > 2*remaining) never reach the decoder; " +
			"checkPseudos accepts exactly the six known pseudo-header names, rejects duplicates and request/response mixtures; validWireHeaderFieldName evaluated for every rune accepts exactly non-empty strings of lower-case tchar; the reachable panic-site inventory (type assertions, unproven index/slice sites, explicit panics) from ReadFrame, ReadFrameHeader, ReadFrameForHeader and the frame accessors equals the reviewed table, with the guards the reasons rely on as obligations.",
		NotCovered: "progress/termination under an endless CONTINUATION sequence; the hpack decoder itself (C02, inventory stops at Decoder.Write/Close); ValidHeaderFieldValue's table (C55); nil-dereference, out-of-memory and io.Reader misbehaviour; ReadFrameForHeader called with a header that did not come from ReadFrameHeader; exact error codes.",
		Run:        c07,
	})
}

// captured variable written by the first selected store ("" if none).
func c07VarWrittenAt(c *Ctx, fnName string, sel Sel) string {
	fn := c.P.Fn(fnName)
	if fn == nil {
		return ""
	}
	for _, in := range sel.F(c.P, fn) {
		if st, ok := in.(*ssa.Store); ok {
			if n := VarOfAddr(st.Addr); n != "" {
				return n
			}
		}
	}
	return ""
}

// c07AnyStore selects every store instruction.
func c07AnyStore() Sel {
	return Sel{Name: "store", F: func(p *Prog, fn *ssa.Function) []ssa.Instruction {
		var out []ssa.Instruction
		for _, b := range fn.Blocks {
			for _, in := range b.Instrs {
				if _, ok := in.(*ssa.Store); ok {
					out = append(out, in)
				}
			}
		}
		return out
	}}
}

// c07AllSlices selects every slice expression.
func c07AllSlices() Sel {
	return Sel{Name: "slice expression", F: func(p *Prog, fn *ssa.Function) []ssa.Instruction {
		var out []ssa.Instruction
		for _, b := range fn.Blocks {
			for _, in := range b.Instrs {
				if _, ok := in.(*ssa.Slice); ok {
					out = append(out, in)
				}
			}
		}
		return out
	}}
}

// c07DynCallOf selects calls through a function value produced by the named callee
// (typeFrameParser(t)(...)).
func c07DynCallOf(producer string) Sel {
	return Sel{Name: "call of " + producer + "'s result", F: func(p *Prog, fn *ssa.Function) []ssa.Instruction {
		var out []ssa.Instruction
		for _, b := range fn.Blocks {
			for _, in := range b.Instrs {
				if call, ok := in.(*ssa.Call); ok && !call.Call.IsInvoke() {
					if src, ok := call.Call.Value.(*ssa.Call); ok && CalleeName(&src.Call) == producer {
						out = append(out, in)
					}
				}
			}
		}
		return out
	}}
}

func c07StripConv(v ssa.Value) ssa.Value {
	for {
		switch x := v.(type) {
		case *ssa.Convert:
			v = x.X
		case *ssa.ChangeType:
			v = x.X
		default:
			return v
		}
	}
}

// c07FragTooLarge finds  len(hc.HeaderBlockFragment()) > 2*<budget>  where budget is
// the local named by budgetVar, and selects the branch taken when it holds.
func c07FragTooLarge(budgetVar string) Sel {
	return Sel{Name: "branch len(fragment) > 2*remaining budget", F: func(p *Prog, fn *ssa.Function) []ssa.Instruction {
		var out []ssa.Instruction
		for _, b := range fn.Blocks {
			if len(b.Instrs) == 0 {
				continue
			}
			ifi, ok := b.Instrs[len(b.Instrs)-1].(*ssa.If)
			if !ok {
				continue
			}
			bo, ok := ifi.Cond.(*ssa.BinOp)
			if !ok || bo.Op != token.GTR {
				continue
			}
			l, r := c07StripConv(bo.X), c07StripConv(bo.Y)
			lc, ok := l.(*ssa.Call)
			if !ok || CalleeName(&lc.Call) != "builtin:len" {
				continue
			}
			if src, ok := BaselineArgs(&lc.Call)[0].(*ssa.Call); !ok || CalleeName(&src.Call) != ".HeaderBlockFragment" {
				continue
			}
			mul, ok := r.(*ssa.BinOp)
			if !ok || mul.Op != token.MUL {
				continue
			}
			var other ssa.Value
			if k, ok := mul.X.(*ssa.Const); ok && k.Int64() == 2 {
				other = mul.Y
			} else if k, ok := mul.Y.(*ssa.Const); ok && k.Int64() == 2 {
				other = mul.X
			}
			if other == nil {
				continue
			}
			ld, ok := c07StripConv(other).(*ssa.UnOp)
			if !ok || ld.Op != token.MUL || VarOfAddr(ld.X) != budgetVar {
				continue
			}
			if len(b.Succs[0].Instrs) > 0 {
				out = append(out, b.Succs[0].Instrs[0])
			}
		}
		return out
	}}
}

func c07(c *Ctx) {
	const F = "(*http2.Framer)."
	ok := RetOK()
	// k renders a package constant as the number that appears in canonical terms
	k := func(name string) string {
		v, found := c.P.ConstInt("http2." + name)
		if !found {
			c.Undecided("anchor", "http2."+name, "constant not found")
			return "?"
		}
		return fmt.Sprint(v)
	}

	// ------------------------------------------------------------------ A. parsers
	type rej struct {
		fn   string
		conj []string
	}
	for _, r := range []rej{
		{"http2.parseDataFrame", []string{"$1.StreamID == 0"}},
		{"http2.parseHeadersFrame", []string{"$1.StreamID == 0"}},
		{"http2.parsePriorityFrame", []string{"$1.StreamID == 0"}},
		{"http2.parsePriorityFrame", []string{"len($3) != 5"}},
		{"http2.parseRSTStreamFrame", []string{"len($3) != 4"}},
		{"http2.parseRSTStreamFrame", []string{"$1.StreamID == 0"}},
		{"http2.parseSettingsFrame", []string{"Has($1.Flags," + k("FlagSettingsAck") + ")", "$1.Length > 0"}},
		{"http2.parseSettingsFrame", []string{"$1.StreamID != 0"}},
		{"http2.parseSettingsFrame", []string{"(len($3)%6) != 0"}},
		{"http2.parsePingFrame", []string{"len($3) != 8"}},
		{"http2.parsePingFrame", []string{"$1.StreamID != 0"}},
		{"http2.parseGoAwayFrame", []string{"$1.StreamID != 0"}},
		{"http2.parseGoAwayFrame", []string{"len($3) < 8"}},
		{"http2.parseWindowUpdateFrame", []string{"len($3) != 4"}},
		{"http2.parseWindowUpdateFrame", []string{"(Uint32(encoding/binary.BigEndian,$3[:4])&2147483647) == 0"}},
		{"http2.parseContinuationFrame", []string{"$1.StreamID == 0"}},
		{"http2.parsePriorityUpdateFrame", []string{"$1.StreamID != 0"}},
		{"http2.parsePriorityUpdateFrame", []string{"len($3) < 4"}},
		{"http2.parsePriorityUpdateFrame", []string{"(Uint32(encoding/binary.BigEndian,$3[:4])&2147483647) == 0"}},
		{"http2.readByte", []string{"len($0) == 0"}},
		{"http2.readUint32", []string{"len($0) < 4"}},
	} {
		c.Reject(r.fn, ok, r.conj...)
	}
	// PUSH_PROMISE reads the stream id through the frame under construction or the header: both are the same value
	c.RejectP("http2.parsePushPromise", ok, c.AtomIs("$1.StreamID == 0", "%complit.FrameHeader.StreamID == 0"))
	// SETTINGS_INITIAL_WINDOW_SIZE above 2^31-1
	if iws, found := c.P.ConstInt("http2.SettingInitialWindowSize"); found {
		suffix := fmt.Sprintf(",%d)", iws)
		c.RejectP("http2.parseSettingsFrame", ok,
			AtomLike("Value(f,SettingInitialWindowSize) present", TRUE, func(l Lin) bool {
				ts, _ := LinTerms(l)
				return len(ts) == 1 && strings.HasPrefix(ts[0], "Value(") && strings.HasSuffix(ts[0], suffix+"#1")
			}),
			AtomLike("its value > 2^31-1", LE, func(l Lin) bool {
				ts, cs := LinTerms(l)
				return len(ts) == 1 && cs[0] == -1 && l.K == 1<<31 && strings.HasPrefix(ts[0], "Value(") && strings.HasSuffix(ts[0], suffix+"#0")
			}))
	} else {
		c.Undecided("anchor", "http2.SettingInitialWindowSize", "constant not found")
	}
	// short payloads: every readByte / readUint32 error is tested before success
	for _, fn := range []string{"http2.parseDataFrame", "http2.parseHeadersFrame", "http2.parsePushPromise"} {
		c.ErrTestedBefore(fn, Calls("http2.readByte"), 2, ok)
		if fn != "http2.parseDataFrame" {
			c.ErrTestedBefore(fn, Calls("http2.readUint32"), 2, ok)
		}
		// padding longer than the remaining payload
		c.SliceHighNonNeg(fn, SubtractiveSlices())
	}
	// the parser registry cannot hand out a nil parser
	c.Guard("http2.typeFrameParser", Returns().Where("registry entry", func(in ssa.Instruction) bool {
		return strings.HasPrefix(Term(in.(*ssa.Return).Results[0]), "http2.frameParsers[")
	}), "http2.frameParsers[$0] != nil")

	// ------------------------------------------------------------------ B. header / size limit / order
	rfh := F + "ReadFrameHeader"
	const hdr = "readFrameHeader(&$r.headerBuf[:],$r.r)"
	c.Reject(rfh, ok, hdr+"#0.Length > $r.maxReadSize")
	c.ErrTestedBefore(rfh, Calls("http2.readFrameHeader"), 1, ok)
	c.ErrTestedBefore(rfh, Calls(F+"checkFrameOrder"), -1, ok)
	c.Count(rfh, Calls(F+"checkFrameOrder").ArgIs(1, hdr+"#0"), 1, 1)
	c.Before(rfh, Calls(F+"checkFrameOrder"), ok)
	c.Callers(F+"checkFrameOrder", rfh)
	c.Writers("http2.Framer.maxReadSize", F+"SetMaxReadFrameSize")
	c.HasBranch(F+"SetMaxReadFrameSize", "$0 > @http2.maxFrameSize")
	c.Count(F+"SetMaxReadFrameSize", Stores("http2.Framer.maxReadSize").StoredIs("φ($0|16777215)"), 1, 1)
	rf := F + "ReadFrame"
	c.ErrTestedBefore(rf, Calls(rfh), 1, Calls(F+"ReadFrameForHeader"))
	c.Count(rf, Calls(F+"ReadFrameForHeader").ArgIs(1, "ReadFrameHeader($r)#0"), 1, 1)
	c.Count(rf, Calls(F+"ReadFrameForHeader"), 1, 1)
	rffh := F + "ReadFrameForHeader"
	c.Count(rffh, Calls("fieldcall:getReadBuf").ArgIs(0, "$0.Length"), 1, 1)
	c.Count(rffh, Calls("io.ReadFull").ArgIs(1, "call($r.getReadBuf)($0.Length)"), 1, 1)
	done := Union(ok, Calls(F+"readMetaFrame"))
	c.ErrTestedBefore(rffh, Calls("io.ReadFull"), 1, done)
	c.ErrTestedBefore(rffh, c07DynCallOf("http2.typeFrameParser"), 1, done)
	c.Count(rffh, c07DynCallOf("http2.typeFrameParser").ArgIs(3, "call($r.getReadBuf)($0.Length)"), 1, 1)
	c.Guard(rffh, Calls(F+"readMetaFrame"), "$0.Type == @http2.FrameHeaders", "$r.ReadMetaHeaders != nil")

	// ------------------------------------------------------------------ C. checkFrameOrder
	cfo := F + "checkFrameOrder"
	strict := ok.UnderP(c.AtomIs("!$r.AllowIllegalReads"))
	c.Count(cfo, ok.UnderP(c.AtomIs("$r.AllowIllegalReads")), 1, 1)
	c.Count(cfo, ok, 2, 2)
	c.Reject(cfo, strict, "$r.lastHeaderStream != 0", "$0.Type != @http2.FrameContinuation")
	c.Reject(cfo, strict, "$r.lastHeaderStream != 0", "$0.StreamID != $r.lastHeaderStream")
	c.Reject(cfo, strict, "$r.lastHeaderStream == 0", "$0.Type == @http2.FrameContinuation")
	lhs := Stores("http2.Framer.lastHeaderStream")
	c.Writers("http2.Framer.lastHeaderStream", cfo)
	c.StoredUnder(cfo, lhs, map[string]string{
		"0":           "Has($0.Flags," + k("FlagHeadersEndHeaders") + ")",
		"$0.StreamID": "!Has($0.Flags," + k("FlagHeadersEndHeaders") + ")",
	})
	c.Guard(cfo, lhs, "!$r.AllowIllegalReads")
	// the stores happen for HEADERS and CONTINUATION only: a frame of any other type never reaches them
	// (form-independent: holds for `switch fh.Type { case FrameHeaders, FrameContinuation: }` and for an if with ||)
	c.Reject(cfo, lhs, "$0.Type != @http2.FrameHeaders", "$0.Type != @http2.FrameContinuation")
	{
		a, okA := c.P.ConstInt("http2.FlagHeadersEndHeaders")
		b, okB := c.P.ConstInt("http2.FlagContinuationEndHeaders")
		c.Check(okA && okB && a == b, "table-exhaustive", "FlagHeadersEndHeaders == FlagContinuationEndHeaders (one test serves both frame types)", token.NoPos, fmt.Sprint(a), fmt.Sprintf("%d vs %d", a, b))
		for _, acc := range []struct{ fn, flag string }{
			{"(*http2.HeadersFrame).HeadersEnded", "http2.FlagHeadersEndHeaders"},
			{"(*http2.ContinuationFrame).HeadersEnded", "http2.FlagContinuationEndHeaders"},
		} {
			v, _ := c.P.ConstInt(acc.flag)
			c.Has(acc.fn, Calls("(http2.Flags).Has").ArgIs(1, fmt.Sprint(v)))
		}
	}

	// ------------------------------------------------------------------ D. readMetaFrame
	rmf, emit := F+"readMetaFrame", F+"readMetaFrame$1"
	nilRet := RetNil()
	c.RejectP(rmf, nilRet, c.AtomIs("$r.AllowIllegalReads"))
	c.Reject(rmf, nilRet, "Close($r.ReadMetaHeaders) != nil")
	c.RejectP(rmf, nilRet, AtomLike("checkPseudos(mh) != nil", NE, func(l Lin) bool {
		ts, cs := LinTerms(l)
		return len(ts) == 1 && cs[0] == 1 && l.K == 0 && strings.HasPrefix(ts[0], "checkPseudos(")
	}))
	c.ErrTestedBefore(rmf, Calls("(*http2/hpack.Decoder).Write"), 1, nilRet)
	c.ErrTestedBefore(rmf, Calls(F+"ReadFrame"), 1, Union(nilRet, Calls("(*http2/hpack.Decoder).Write")))
	c.Guard(rmf, Calls(F+"ReadFrame"), "!$r.AllowIllegalReads")
	c.GuardP(rmf, Calls(F+"ReadFrame"), AtomLike("!hc.HeadersEnded()", FALS, func(l Lin) bool {
		ts, _ := LinTerms(l)
		return len(ts) == 1 && strings.HasPrefix(ts[0], ".HeadersEnded(")
	}))
	c.Before(rmf, Calls("(*http2/hpack.Decoder).SetEmitFunc"), Calls("(*http2/hpack.Decoder).Write"))
	c.Before(rmf, Calls("(*http2/hpack.Decoder).SetMaxStringLength").ArgIs(1, "maxHeaderStringLen($r)"), Calls("(*http2/hpack.Decoder).Write"))
	c.Before(rmf, Calls("(*http2/hpack.Decoder).SetEmitEnabled").ArgIs(1, "true"), Calls("(*http2/hpack.Decoder).Write"))
	c.Writers("http2.MetaHeadersFrame.Fields", rmf)
	c.Writers("http2.MetaHeadersFrame.Truncated", rmf)

	// names of the captured variables, found by what is stored where
	invalid := c07VarWrittenAt(c, emit, c07AnyStore().UnderP(c.AtomIs("!ValidHeaderFieldValue($0.Value)")))
	saw := c07VarWrittenAt(c, emit, c07AnyStore().UnderP(c.AtomIs("!HasPrefix($0.Name,\":\")")).Where("stores true", func(in ssa.Instruction) bool {
		return Term(in.(*ssa.Store).Val) == "true"
	}))
	budget := c07VarWrittenAt(c, emit, c07AnyStore().Where("stores budget-Size(hf)", func(in ssa.Instruction) bool {
		st := in.(*ssa.Store)
		return VarOfAddr(st.Addr) != "" && strings.HasSuffix(Term(st.Val), "-Size($0))")
	}))
	if invalid == "" || saw == "" || budget == "" {
		c.Undecided("anchor", emit+": captured variables", fmt.Sprintf("could not identify the error (%q), saw-regular (%q) and budget (%q) variables of the emit closure", invalid, saw, budget))
	} else {
		app := Stores("http2.MetaHeadersFrame.Fields")
		c.Count(emit, app, 1, 1)
		c.Guard(emit, app, "^"+invalid+" == nil", "Size($0) <= ^"+budget)
		stInv := StoresVar(invalid)
		c.PassThroughIncl(emit, c.Edge("!ValidHeaderFieldValue($0.Value)"), stInv)
		c.PassThroughIncl(emit, c.Edge("!validWireHeaderFieldName($0.Name)"), stInv)
		c.PassThroughIncl(emit, c.Edge("^"+saw).UnderP(c.AtomIs("HasPrefix($0.Name,\":\")")), stInv)
		c.Guard(emit, Calls("http2.validWireHeaderFieldName").ArgIs(0, "$0.Name"), "!HasPrefix($0.Name,\":\")")
		c.PassThroughIncl(emit, c.Edge("!HasPrefix($0.Name,\":\")"), StoresVar(saw).StoredIs("true"))
		c.Count(emit, StoresVar(saw), 1, 1)
		c.NeverAfter(emit, c.Edge("^"+invalid+" == nil"), stInv, true)
		c.Count(emit, stInv.Where("stores nil", func(in ssa.Instruction) bool {
			k, isConst := in.(*ssa.Store).Val.(*ssa.Const)
			return isConst && k.Value == nil
		}), 0, 0)
		over := c.Edge("Size($0) > ^" + budget)
		c.PassThroughIncl(emit, over, Stores("http2.MetaHeadersFrame.Truncated").StoredIs("true"))
		c.CallAfterIncl(emit, over, "(*http2/hpack.Decoder).SetEmitEnabled")
		c.NeverAfter(emit, over, app, true)
		c.PassThroughIncl(emit, c.Edge("Size($0) <= ^"+budget), StoresVar(budget).StoredIs("(^"+budget+"-Size($0))"))
		c.CallAfterIncl(emit, c.Edge("^"+invalid+" != nil"), "(*http2/hpack.Decoder).SetEmitEnabled")
		// parent side
		c.Reject(rmf, nilRet, "%"+invalid+" != nil")
		c.Count(rmf, StoresVar(invalid), 0, 0)
		big := c07FragTooLarge(budget)
		c.Count(rmf, big, 1, 1)
		c.NeverAfter(rmf, big, Calls("(*http2/hpack.Decoder).Write"), true)
		c.NeverAfter(rmf, big, nilRet, true)
		c.NeverAfter(rmf, c.Edge("%"+invalid+" != nil"), Calls("(*http2/hpack.Decoder).Write"), true)
	}

	// ------------------------------------------------------------------ E. checkPseudos
	cp := "(*http2.MetaHeadersFrame).checkPseudos"
	if fn := c.MustFn(cp); fn != nil {
		rule := "table-exhaustive"
		construct := cp + ": accepted pseudo-header names = RFC 9113 / RFC 8441 set"
		pk := c.P.PkgOfFn(fn)
		var got []string
		hasDefault, defaultRejects := false, false
		ast.Inspect(fn.Syntax(), func(n ast.Node) bool {
			sw, isSw := n.(*ast.SwitchStmt)
			if !isSw || sw.Tag == nil {
				return true
			}
			if b, isBasic := pk.TypesInfo.TypeOf(sw.Tag).Underlying().(*types.Basic); !isBasic || b.Info()&types.IsString == 0 {
				return true
			}
			for _, cl := range sw.Body.List {
				cc := cl.(*ast.CaseClause)
				if cc.List == nil {
					hasDefault = true
					for _, st := range cc.Body {
						if ret, isRet := st.(*ast.ReturnStmt); isRet && len(ret.Results) == 1 {
							if id, isID := ret.Results[0].(*ast.Ident); !isID || id.Name != "nil" {
								defaultRejects = true
							}
						}
					}
				}
				for _, e := range cc.List {
					if s, isStr := StrOf(pk, e); isStr {
						got = append(got, s)
					} else {
						got = append(got, "<non-constant>")
					}
				}
			}
			return true
		})
		sort.Strings(got)
		want := append([]string{}, c07Pseudos...)
		sort.Strings(want)
		c.Check(strings.Join(got, " ") == strings.Join(want, " "), rule, construct, fn.Pos(), strings.Join(got, " "), "switch cases are {"+strings.Join(got, " ")+"}, specification {"+strings.Join(want, " ")+"}")
		c.Check(hasDefault && defaultRejects, rule, cp+": any other pseudo-header name returns an error", fn.Pos(), "default clause returns non-nil", "no default clause returning an error")
	}
	c.Count(cp, ok, 1, 1)
	nameOf := func(t string) bool { return strings.HasPrefix(t, "PseudoFields($r)") && strings.HasSuffix(t, ".Name") }
	c.NeverAfter(cp, EdgeP(AtomLike("two pseudo-header names are equal", EQ, func(l Lin) bool {
		ts, cs := LinTerms(l)
		return len(ts) == 2 && l.K == 0 && cs[0]+cs[1] == 0 && nameOf(ts[0]) && nameOf(ts[1])
	})), ok, true)
	flag := func(l Lin) bool {
		ts, _ := LinTerms(l)
		return len(ts) == 1 && strings.HasPrefix(ts[0], "φ")
	}
	mixed := EdgeP(AtomLike("request-flag && response-flag", TRUE, flag)).
		Where("two distinct flags hold", func(in ssa.Instruction) bool {
			seen := map[string]bool{}
			for _, f := range FactsAtInstr(in) {
				if f.Atom.Kind == TRUE && flag(f.Atom.L) {
					seen[f.Atom.L.String()] = true
				}
			}
			return len(seen) >= 2
		})
	c.NeverAfter(cp, mixed, ok, true)
	c.Count(cp, Calls("(*http2.MetaHeadersFrame).PseudoFields"), 1, 1)

	// ------------------------------------------------------------------ F. validWireHeaderFieldName
	{
		ev := c.P.NewEvaluator()
		tchar := frRFC9110Tchar()
		frAllElems(c, ev, "http2.validWireHeaderFieldName", "lower-case tchar runes, non-empty", 0, 0x10FFFF, true, func(r int64) bool {
			return tchar[r] && !(r >= 'A' && r <= 'Z')
		})
		c.Reject("http2.validWireHeaderFieldName", RetConst(0, "true"), "len($0) == 0")
	}

	// ------------------------------------------------------------------ G. panic inventory
	c07FrameInventory(c)
	// guards the inventory reasons rely on
	c.GuardP("(*http2.MetaHeadersFrame).PseudoValue", c07AllSlices(), AtomLike("hf.IsPseudo()", TRUE, func(l Lin) bool {
		ts, _ := LinTerms(l)
		return len(ts) == 1 && strings.HasPrefix(ts[0], "IsPseudo(")
	}))
	c.HasBranch("(http2/hpack.HeaderField).IsPseudo", "len($r.Name) != 0")
	below := AtomLike("i < f.NumSettings()", LE, func(l Lin) bool {
		return l.Coef["NumSettings($r)"] == -1 && l.K == 1 && len(l.Coef) == 2
	})
	for _, fn := range []string{"(*http2.SettingsFrame).Value", "(*http2.SettingsFrame).ForeachSetting", "(*http2.SettingsFrame).HasDuplicates"} {
		c.GuardP(fn, Calls("(*http2.SettingsFrame).Setting"), below)
	}
	c.Callers("(*http2.SettingsFrame).Setting", "(*http2.SettingsFrame).Value", "(*http2.SettingsFrame).ForeachSetting", "(*http2.SettingsFrame).HasDuplicates")
	c.Callers("http2.readFrameHeader", "http2.ReadFrameHeader", rfh, "http2.invalidHTTP1LookingFrameHeader")
	c.CallArgs("http2.readFrameHeader", 0, "&$r.headerBuf[:]", "&%makeslice[:9]", "*Get(http2.fhBytes).(*[]byte)")
	if f := c.P.Field("http2.Framer.headerBuf"); f != nil {
		arr, isArr := f.Type().Underlying().(*types.Array)
		n, _ := c.P.ConstInt("http2.frameHeaderLen")
		c.Check(isArr && arr.Len() == n && n == 9, "table-exhaustive", "Framer.headerBuf is [frameHeaderLen]byte with frameHeaderLen == 9", token.NoPos, "", "headerBuf is not a 9-byte array")
	} else {
		c.Undecided("anchor", "http2.Framer.headerBuf", "field not found")
	}
	// success returns of the two parsers whose results are type-asserted
	for _, pr := range []struct{ fn, typ string }{{"http2.parseHeadersFrame", "*http2.HeadersFrame"}, {"http2.parseContinuationFrame", "*http2.ContinuationFrame"}} {
		frParserReturns(c, pr.fn, pr.typ)
	}
	frRegistryEntry(c, "FrameHeaders", "parseHeadersFrame")
	frRegistryEntry(c, "FrameContinuation", "parseContinuationFrame")
}

// frParserReturns: every success return of the parser yields the given concrete frame type.
func frParserReturns(c *Ctx, fnName, typ string) bool {
	rule := "result-type"
	construct := fnName + ": success returns " + typ
	fn := c.MustFn(fnName)
	if fn == nil {
		return false
	}
	sites := RetOK().F(c.P, fn)
	if len(sites) == 0 {
		c.Undecided(rule, construct, "no success return")
		return false
	}
	for _, in := range sites {
		v := in.(*ssa.Return).Results[0]
		mi, ok := v.(*ssa.MakeInterface)
		if !ok || Short(types.TypeString(mi.X.Type(), nil)) != typ {
			got := "a non-concrete value"
			if ok {
				got = Short(types.TypeString(mi.X.Type(), nil))
			}
			c.Fail(rule, construct, InstrPos(in), "success return yields "+got)
			return false
		}
	}
	c.OK(rule, construct, fmt.Sprintf("%d success return(s)", len(sites)))
	return true
}

// frRegistryEntry: frameParsers[key] is the named function.
func frRegistryEntry(c *Ctx, key, parser string) bool {
	rule := "table-exhaustive"
	construct := "http2.frameParsers[" + key + "] = " + parser
	init, pk := c.P.VarDecl("http2.frameParsers")
	if init == nil {
		c.Undecided(rule, construct, "frameParsers literal not found")
		return false
	}
	for _, el := range Elts(init) {
		k, v := KV(el)
		if id, ok := k.(*ast.Ident); ok && id.Name == key {
			if vid, ok := v.(*ast.Ident); ok {
				if _, isFunc := pk.TypesInfo.Uses[vid].(*types.Func); isFunc && vid.Name == parser {
					c.OK(rule, construct, "")
					return true
				}
				c.Fail(rule, construct, v.Pos(), "entry is "+vid.Name)
				return false
			}
		}
	}
	c.Fail(rule, construct, init.Pos(), "no entry for "+key)
	return false
}

// c07FrameInventory is the panic-site inventory of the frame reader (also run
// for C16: the server's read loop is exactly this code).
func c07FrameInventory(c *Ctx) {
	const F = "(*http2.Framer)."
	entries := []string{F + "ReadFrame", F + "ReadFrameHeader", F + "ReadFrameForHeader", "http2.ReadFrameHeader", "http2.NewFramer$1",
		"(*http2.DataFrame).Data", "(*http2.GoAwayFrame).DebugData", "(*http2.HeadersFrame).HeaderBlockFragment",
		"(*http2.ContinuationFrame).HeaderBlockFragment", "(*http2.PushPromiseFrame).HeaderBlockFragment", "(*http2.UnknownFrame).Payload",
		"(*http2.SettingsFrame).Value", "(*http2.SettingsFrame).Setting", "(*http2.SettingsFrame).NumSettings", "(*http2.SettingsFrame).HasDuplicates",
		"(*http2.SettingsFrame).ForeachSetting", "(*http2.SettingsFrame).IsAck", "(*http2.MetaHeadersFrame).PseudoValue", "(*http2.MetaHeadersFrame).RegularFields",
		"(*http2.MetaHeadersFrame).PseudoFields", "(*http2.DataFrame).StreamEnded", "(*http2.HeadersFrame).HeadersEnded", "(*http2.HeadersFrame).StreamEnded",
		"(*http2.HeadersFrame).HasPriority", "(*http2.ContinuationFrame).HeadersEnded", "(*http2.PushPromiseFrame).HeadersEnded", "(*http2.PingFrame).IsAck"}
	// the parsers are reached through the frameParsers table only (a package-level initialiser, which the
	// reachability of the inventory does not follow): they are entry points in their own right
	if init, pk := c.P.VarDecl("http2.frameParsers"); init != nil {
		n := 0
		for _, el := range Elts(init) {
			_, v := KV(el)
			if id, isID := v.(*ast.Ident); isID {
				if _, isFunc := pk.TypesInfo.Uses[id].(*types.Func); isFunc {
					entries = append(entries, "http2."+id.Name)
					n++
				}
			}
		}
		c.Check(n >= 11, "anchor", "http2.frameParsers lists the parser entry points of the inventory", init.Pos(), fmt.Sprintf("%d parsers", n), fmt.Sprintf("only %d function entries found", n))
	} else {
		c.Undecided("anchor", "http2.frameParsers", "literal not found")
	}
	entries = append(entries, "http2.parseUnknownFrame", "http2.typeFrameParser")
	c.PanicInventory(entries, []string{"(*http2/hpack.Decoder).Write", "(*http2/hpack.Decoder).Close"}, map[string]Inv{
		"(*http2.FrameHeader).checkValid":         {Sites: "panic=1", Why: "documented caller-misuse panic (accessor used after the next ReadFrame invalidated the frame); not reachable from input bytes: ReadFrame never calls accessors on invalidated frames"},
		F + "ReadFrameForHeader":                  {Sites: "assert=1", Why: "f.(*HeadersFrame) under fh.Type == FrameHeaders (guard obligation); the registry maps FrameHeaders to parseHeadersFrame, whose success returns are *HeadersFrame (obligations below)"},
		F + "readMetaFrame":                       {Sites: "assert=1", Why: "f.(*ContinuationFrame): ReadFrame is reached only with AllowIllegalReads off and HeadersEnded false, so checkFrameOrder left lastHeaderStream != 0 and accepts only CONTINUATION next (checkFrameOrder obligations); the registry maps FrameContinuation to parseContinuationFrame"},
		"(*http2.MetaHeadersFrame).PseudoFields":  {Sites: "idx=1", Why: "Fields[:i] with i a range index over Fields"},
		"(*http2.MetaHeadersFrame).RegularFields": {Sites: "idx=1", Why: "Fields[i:] with i a range index over Fields"},
		"(*http2.MetaHeadersFrame).PseudoValue":   {Sites: "idx=1", Why: "hf.Name[1:] under hf.IsPseudo(), i.e. len(Name) != 0 (guard obligation below)"},
		"(*http2.SettingsFrame).Setting":          {Sites: "idx=2", Why: "documented precondition 0 <= i < NumSettings(); every caller in the repository loops below NumSettings() (obligations below) and parseSettingsFrame admits only len(p)%6 == 0"},
		"http2.parseDataFrame":                    {Sites: "idx=1", Why: "payload[:len(payload)-padSize] under padSize <= len(payload) (upper-bound >= 0 obligation above)"},
		"http2.parseHeadersFrame":                 {Sites: "idx=1", Why: "p[:len(p)-padLength] under len(p)-padLength >= 0 (upper-bound >= 0 obligation above)"},
		"http2.parsePushPromise":                  {Sites: "idx=1", Why: "p[:len(p)-padLength] under padLength <= len(p) (upper-bound >= 0 obligation above)"},
		"http2.ReadFrameHeader":                   {Sites: "assert=1", Why: "fhBytes' New stores *[]byte and the only Put returns the pointer just taken out"},
		"http2.readFrameHeader":                   {Sites: "idx=2", Why: "buf[:9] and buf[5:]: every caller passes a 9-byte buffer (call-args obligation below)"},
	})
}
