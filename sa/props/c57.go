package props

import (
	"fmt"
	"go/token"
	"strings"

	"golang.org/x/tools/go/ssa"

	. "verif/sa/core"
)

func init() {
	Register(&Property{
		ID:    "C57",
		Floor: 30,
		Clauses: "xsrftoken: clean is a chain of strings.ReplaceAll calls from the parameter to the result whose literal pairs form an injective, separator-free escape " +
			"(escape byte doubled first, then separator -> escape+other byte; also confirmed by evaluating the literal pairs on every string over {escape, separator, second byte, 'a'} up to length 7); " +
			"the MAC input format is %s<sep>%s<sep>%d with that same separator and arguments clean(userID), clean(actionID), milliTime; the HMAC key is the key parameter; " +
			"milliTime = (now.UnixNano()+1e6-1)/1e6 and the token is <value derived from the MAC sum> + that separator + the decimal rendering of the same value (Sprintf %s<sep>%d or concatenation with strconv.FormatInt base 10); " +
			"validTokenAtTime computes the last index of that separator in the token parameter (strings.LastIndex / LastIndexByte), rejects a negative index, parses the suffix after it in base 10/64 bit, rebuilds the issue time as Unix(0, millis*1e6), " +
			"rejects now.Sub(issue) >= timeout and issue.After(now.Add(1 minute)) before comparing, regenerates the token from the same key, userID, actionID and the parsed issue time, " +
			"and returns ConstantTimeCompare(token, expected) == 1; Valid/ValidFor/Generate forward their arguments in order (Valid with Timeout); call graph of clean/generateTokenAtTime/validTokenAtTime.",
		NotCovered: "cryptographic strength of HMAC-SHA1 and base64; int64 overflow of millis*1e6 and of UnixNano for extreme times; monotonic-clock effects in time.Sub/After; " +
			"that the whole-string comparison also binds the printed millisecond suffix is a consequence of the listed facts, not separately checked.",
		Run: c57,
	})
}

func c57(c *Ctx) {
	const pk = "xsrftoken."
	const gen = pk + "generateTokenAtTime"
	const val = pk + "validTokenAtTime"

	// ---- clean: chain and literal pairs ----
	sep := ""
	if fn := c.MustFn(pk + "clean"); fn != nil {
		calls := Calls("strings.ReplaceAll").F(c.P, fn)
		type pair struct{ old, new string }
		var pairs []pair
		chain := len(calls) > 0
		var prev ssa.Value = fn.Params[0]
		for _, in := range calls {
			call := in.(*ssa.Call)
			if BaselineArgs(&call.Call)[0] != prev {
				chain = false
			}
			o, ok1 := ConstStr(BaselineArgs(&call.Call)[1])
			n, ok2 := ConstStr(BaselineArgs(&call.Call)[2])
			if !ok1 || !ok2 {
				chain = false
			}
			pairs = append(pairs, pair{o, n})
			prev = call
		}
		rets := Returns().F(c.P, fn)
		retOK := len(rets) == 1 && rets[0].(*ssa.Return).Results[0] == prev
		c.Check(chain && retOK, "derives-from", pk+"clean: result = ReplaceAll(...ReplaceAll(param, lit, lit)..., lit, lit) with constant pairs", fn.Pos(),
			fmt.Sprintf("%d replacement(s)", len(pairs)), "clean is not a straight chain of strings.ReplaceAll calls with literal arguments from its parameter to its single return")
		if chain && retOK && len(pairs) >= 2 {
			e := pairs[0].old
			c.Check(len(e) == 1 && pairs[0].new == e+e, "table-check", pk+"clean: first pair doubles a one-byte escape", fn.Pos(),
				fmt.Sprintf("%q -> %q", pairs[0].old, pairs[0].new), fmt.Sprintf("first pair is %q -> %q", pairs[0].old, pairs[0].new))
			ok := true
			why := ""
			for _, p := range pairs[1:] {
				if len(p.old) != 1 || p.old == e || len(p.new) != 2 || p.new[:1] != e || p.new[1:] == e || strings.Contains(p.new, p.old) {
					ok = false
					why = fmt.Sprintf("pair %q -> %q is not separator -> escape+non-escape byte", p.old, p.new)
				}
			}
			c.Check(ok && len(pairs) == 2, "table-check", pk+"clean: later pair maps the separator to escape + a byte that is neither escape nor separator", fn.Pos(),
				fmt.Sprintf("%q -> %q", pairs[1].old, pairs[1].new), why+fmt.Sprintf(" (%d pairs)", len(pairs)))
			sep = pairs[1].old
			// evaluate the literal pairs: injective and separator-free on a small alphabet
			if ok && len(e) == 1 {
				alpha := []byte{e[0], sep[0], pairs[1].new[1], 'a'}
				apply := func(s string) string {
					for _, p := range pairs {
						s = strings.ReplaceAll(s, p.old, p.new)
					}
					return s
				}
				seen := map[string]string{}
				bad := ""
				n := 0
				var rec func(prefix []byte, depth int)
				rec = func(prefix []byte, depth int) {
					if bad != "" {
						return
					}
					in := string(prefix)
					out := apply(in)
					n++
					if strings.Contains(out, sep) {
						bad = fmt.Sprintf("clean(%q) = %q still contains the separator", in, out)
					}
					if prevIn, dup := seen[out]; dup && prevIn != in {
						bad = fmt.Sprintf("clean(%q) = clean(%q) = %q", prevIn, in, out)
					}
					seen[out] = in
					if depth == 7 {
						return
					}
					for _, ch := range alpha {
						rec(append(prefix, ch), depth+1)
					}
				}
				rec(nil, 0)
				c.Check(bad == "", "table-check", pk+"clean: literal pairs evaluated on all strings over {escape,separator,second byte,a} up to length 7 are injective and separator-free", fn.Pos(),
					fmt.Sprintf("%d strings", n), bad)
			}
		}
	}
	c.Callers(pk+"clean", gen)

	// ---- generateTokenAtTime ----
	if fn := c.MustFn(gen); fn != nil {
		c.Has(gen, Calls("crypto/hmac.New").ArgIs(1, "$0"))
		var milli ssa.Value
		fp := Calls("fmt.Fprintf").F(c.P, fn)
		okFmt, okArgs, okDst := false, false, false
		detail := ""
		if len(fp) == 1 {
			call := fp[0].(*ssa.Call)
			okDst = IsCallTo("crypto/hmac.New")(StripConv(BaselineArgs(&call.Call)[0]))
			if f, ok := ConstStr(BaselineArgs(&call.Call)[1]); ok {
				okFmt = sep != "" && f == "%s"+sep+"%s"+sep+"%d"
				detail = f
			}
			if es, ok := CallVarArgs(call); ok && len(es) == 3 {
				okArgs = Term(es[0]) == "clean($1)" && Term(es[1]) == "clean($2)"
				milli = es[2]
				detail += " " + Term(es[0]) + " " + Term(es[1]) + " " + Term(es[2])
			}
		}
		c.Check(len(fp) == 1 && okDst, "derives-from", gen+": the formatted MAC input is written into the hmac.New value", fn.Pos(), "", "Fprintf destination is not the hmac.New result")
		c.Check(okFmt, "codec-layout", gen+": MAC input format is %s<sep>%s<sep>%d with clean's separator", fn.Pos(), detail, "format/arguments: "+detail+"; separator removed by clean: "+sep)
		c.Check(okArgs, "derives-from", gen+": MAC input arguments are clean(userID), clean(actionID), milliTime", fn.Pos(), detail, "format/arguments: "+detail)
		// milliTime = (UnixNano(now)+1e6-1)/1e6
		okMilli := false
		if milli != nil {
			if q, ok := StripConv(milli).(*ssa.BinOp); ok && q.Op == token.QUO {
				d, isC := ConstInt64(q.Y)
				lin := Linearize(q.X)
				okMilli = isC && d == 1000000 && lin.K == 999999 && len(lin.Coef) == 1 && lin.Coef["UnixNano($3)"] == 1
			}
		}
		c.Check(okMilli, "codec-layout", gen+": milliTime = (now.UnixNano() + 1e6 - 1) / 1e6", fn.Pos(), "", "the third MAC argument is "+termOrNil(milli))
		// the MAC is finished after the input is written; the token carries the same milliTime
		c.Before(gen, Calls("fmt.Fprintf"), Calls(".Sum"))
		c.Has(gen, Calls(".Sum").Where("on the hmac.New value", func(in ssa.Instruction) bool {
			return IsCallTo("crypto/hmac.New")(StripConv(in.(*ssa.Call).Call.Value))
		}))
		// token layout over the returned value: <encoded MAC sum> <sep> <decimal milliTime>, however it is assembled
		// (Sprintf("%s<sep>%d", a, b) or a + "<sep>" + strconv.FormatInt(b, 10)).
		okTok := false
		tdetail := "no single return"
		if rets := Returns().F(c.P, fn); len(rets) == 1 {
			res := rets[0].(*ssa.Return).Results[0]
			tdetail = Term(res)
			if head, s, dec, how, ok := c57TokenLayout(res); ok {
				tdetail = fmt.Sprintf("%s: %s %q decimal(%s)", how, Term(head), s, Term(dec))
				okTok = sep != "" && s == sep && milli != nil && StripConv(dec) == StripConv(milli) && DependsOn(head, IsCallTo(".Sum"))
			}
		}
		c.Check(okTok, "codec-layout", gen+": token = encoded MAC sum + <sep> + decimal of the same milliTime", fn.Pos(), tdetail, "token format/arguments: "+tdetail)
	}
	c.Callers(gen, pk+"Generate", val)

	// ---- validTokenAtTime ----
	// the separator index is whatever the code computes as "last index of clean's separator in the token parameter"
	// (strings.LastIndex(token, sep) or strings.LastIndexByte(token, sep[0])); the specs below are built from its rendered term.
	sepIdx := "LastIndex($0," + fmt.Sprintf("%q", sep) + ")"
	if fn := c.MustFn(val); fn != nil {
		var cands []string
		for _, in := range Calls("strings.LastIndex", "strings.LastIndexByte").F(c.P, fn) {
			call := in.(*ssa.Call)
			args := BaselineArgs(&call.Call)
			if len(args) != 2 || StripConv(args[0]) != ssa.Value(fn.Params[0]) {
				continue
			}
			isSep := false
			if IsCallTo("strings.LastIndex")(call) {
				s, ok := ConstStr(args[1])
				isSep = ok && sep != "" && s == sep
			} else {
				b, ok := ConstInt64(args[1])
				isSep = ok && len(sep) == 1 && b == int64(sep[0])
			}
			if isSep {
				cands = append(cands, Term(call))
			}
		}
		// if the index is computed more than once, take the one the parsed suffix is cut at
		pick := ""
		for _, t := range cands {
			if pick == "" {
				pick = t
			}
			if len(Calls("strconv.ParseInt").ArgIs(0, "$0[("+t+"+1):]").F(c.P, fn)) > 0 {
				pick = t
				break
			}
		}
		c.Check(pick != "", "derives-from", val+": the last index of clean's separator in the token parameter is computed", fn.Pos(), pick,
			"no strings.LastIndex/LastIndexByte call on the token parameter with the separator "+fmt.Sprintf("%q", sep))
		if pick != "" {
			sepIdx = pick
		}
	}
	suffix := "$0[(" + sepIdx + "+1):]"
	issue := "Unix(0,(ParseInt(" + suffix + ",10,64)#0*1000000))"
	cmp := Calls("crypto/subtle.ConstantTimeCompare")
	c.Reject(val, cmp, sepIdx+" < 0")
	c.Reject(val, cmp, "ParseInt("+suffix+",10,64)#1 != nil")
	c.Reject(val, cmp, "Sub($4,"+issue+") >= $5")
	c.Reject(val, cmp, "After("+issue+",Add($4,60000000000))")
	c.Has(val, Calls("strconv.ParseInt").ArgIs(0, suffix).ArgIs(1, "10").ArgIs(2, "64"))
	c.Has(val, Calls(gen).ArgIs(0, "$1").ArgIs(1, "$2").ArgIs(2, "$3").ArgIs(3, issue))
	expected := "generateTokenAtTime($1,$2,$3," + issue + ")"
	c.Has(val, cmp.Where("of the whole presented token and the regenerated one", func(in ssa.Instruction) bool {
		a, b := Term(BaselineArgs(&in.(*ssa.Call).Call)[0]), Term(BaselineArgs(&in.(*ssa.Call).Call)[1])
		return a == "$0" && b == expected || b == "$0" && a == expected
	}))
	if fn := c.MustFn(val); fn != nil {
		ok := true
		n := 0
		why := ""
		for _, in := range Returns().F(c.P, fn) {
			r := in.(*ssa.Return).Results[0]
			if k, isC := r.(*ssa.Const); isC {
				if Term(k) != "false" {
					ok, why = false, "a return yields the constant "+Term(k)
				}
				continue
			}
			n++
			bo, isBin := r.(*ssa.BinOp)
			if !isBin || bo.Op != token.EQL || !IsCallTo("crypto/subtle.ConstantTimeCompare")(bo.X) {
				ok, why = false, "a return yields "+Term(r)
				continue
			}
			if k, isC := ConstInt64(bo.Y); !isC || k != 1 {
				ok, why = false, "the comparison result is not tested against 1"
			}
		}
		c.Check(ok && n == 1, "return-shape", val+": every return is false or ConstantTimeCompare(...) == 1", fn.Pos(), fmt.Sprintf("%d comparing return(s)", n), why)
	}
	c.Callers(val, pk+"Valid", pk+"ValidFor")

	// ---- public wrappers ----
	to, _ := c.P.ConstInt(pk + "Timeout")
	c.Has(pk+"Valid", Calls(val).ArgIs(0, "$0").ArgIs(1, "$1").ArgIs(2, "$2").ArgIs(3, "$3").ArgIs(4, "Now()").ArgIs(5, fmt.Sprint(to)))
	c.Has(pk+"ValidFor", Calls(val).ArgIs(0, "$0").ArgIs(1, "$1").ArgIs(2, "$2").ArgIs(3, "$3").ArgIs(4, "Now()").ArgIs(5, "$4"))
	c.Has(pk+"Generate", Calls(gen).ArgIs(0, "$0").ArgIs(1, "$1").ArgIs(2, "$2").ArgIs(3, "Now()"))
	for _, w := range []string{"Valid", "ValidFor", "Generate"} {
		inner := val
		if w == "Generate" {
			inner = gen
		}
		c.Has(pk+w, Returns().Where("of the inner call's result", func(in ssa.Instruction) bool {
			return IsCallTo(inner)(in.(*ssa.Return).Results[0])
		}))
		c.Count(pk+w, Returns(), 1, 1)
	}
}

// c57TokenLayout decomposes a string value of the shape <head><sep><decimal of dec>:
// either fmt.Sprintf("%s<sep>%d", head, dec) or the concatenation head + "<sep>" + strconv.FormatInt(dec, 10).
func c57TokenLayout(v ssa.Value) (head ssa.Value, sep string, dec ssa.Value, how string, ok bool) {
	v = StripConv(v)
	if call, isCall := v.(*ssa.Call); isCall && IsCallTo("fmt.Sprintf")(call) {
		f, isC := ConstStr(BaselineArgs(&call.Call)[0])
		es, isVar := CallVarArgs(call)
		if !isC || !isVar || len(es) != 2 || !strings.HasPrefix(f, "%s") || !strings.HasSuffix(f, "%d") || len(f) < 4 {
			return nil, "", nil, "", false
		}
		s := f[2 : len(f)-2]
		if strings.Contains(s, "%") {
			return nil, "", nil, "", false
		}
		return es[0], s, es[1], "Sprintf", true
	}
	var leaves []ssa.Value
	var flat func(x ssa.Value, depth int)
	flat = func(x ssa.Value, depth int) {
		if bo, isBin := StripConv(x).(*ssa.BinOp); isBin && bo.Op == token.ADD && depth < 16 {
			flat(bo.X, depth+1)
			flat(bo.Y, depth+1)
			return
		}
		leaves = append(leaves, StripConv(x))
	}
	flat(v, 0)
	if len(leaves) != 3 {
		return nil, "", nil, "", false
	}
	s, isC := ConstStr(leaves[1])
	num, isCall := leaves[2].(*ssa.Call)
	if _, headConst := ConstStr(leaves[0]); headConst || !isC || !isCall || !IsCallTo("strconv.FormatInt")(num) {
		return nil, "", nil, "", false
	}
	nargs := BaselineArgs(&num.Call)
	if base, isK := ConstInt64(nargs[1]); !isK || base != 10 {
		return nil, "", nil, "", false
	}
	return leaves[0], s, nargs[0], "concatenation", true
}

func termOrNil(v ssa.Value) string {
	if v == nil {
		return "<none>"
	}
	return Term(v)
}
