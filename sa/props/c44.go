package props

import (
	"fmt"
	"strings"

	"golang.org/x/tools/go/ssa"

	. "verif/sa/core"
)

func init() {
	Register(&Property{
		ID:    "C44",
		Floor: 85,
		Clauses: "webdav memFS, structural necessary conditions: Mkdir/OpenFile/RemoveAll/Rename/Stat hold fs.mu (balanced, deferred unlock) around find and every children-map access, find/walk are called only from them, children maps are written only by Mkdir/OpenFile/RemoveAll/Rename; " +
			"memFile Read/Readdir/Seek/Write and memFSNode.stat hold n.mu around data/pos/modTime accesses and are the only writers of pos/data; " +
			"Rename: both names slashCleaned before the equality test, the subtree test HasPrefix(new, old+\"/\"), the root tests (find's parent == nil for either name) and the missing-source test all precede any mutation and any nil return; the node inserted under (new parent, new frag) is the one looked up under (old parent, old frag), which is deleted; " +
			"RemoveAll/Mkdir: find error and root (parent == nil) refused before the map write; Mkdir refuses an existing entry and creates a node with ModeDir and a children map; " +
			"OpenFile: root refused for O_WRONLY|O_RDWR, O_CREATE|O_EXCL on an existing entry refused, a missing entry without O_CREATE refused, a node is inserted only under O_CREATE for a missing entry, data is reset only and always under (O_WRONLY|O_RDWR)&&O_TRUNC; Stat succeeds only for the root or an existing entry; " +
			"walk slashCleans the name, returns nil only at the final fragment, stops at a callback error, a missing child or a non-directory child; find records (parent, frag) only at the final, non-empty fragment; " +
			"Read/Write refuse directories, Readdir refuses files, Read returns EOF at/after end and advances pos by the copied count, Seek stores only a non-negative position.",
		NotCovered: "Agreement with the os package on results and resulting trees (differential/runtime); Rename's overwrite rules (OS-specific by contract); file contents after Write sequences (hole filling, append arithmetic); childrenSnapshot semantics; O_SYNC/O_APPEND rejection (a documented deviation).",
		Run:        c44,
	})
}

// c44Find returns the rendered find(...) call whose name argument derives from parameter idx.
func c44Find(c *Ctx, fnName string, idx int) string {
	fn := c.MustFn(fnName)
	if fn == nil {
		return ""
	}
	for _, in := range Calls("(*webdav.memFS).find").F(c.P, fn) {
		call := in.(*ssa.Call)
		if a := BaselineArgs(&call.Call)[2]; WdIsParam(fn, idx)(a) || DependsOn(a, WdIsParam(fn, idx)) {
			return Term(call)
		}
	}
	c.Undecided("anchor", fmt.Sprintf("%s: find call on parameter %d", fnName, idx), "not found")
	return ""
}

func c44(c *Ctx) {
	const F = "(*webdav.memFS)."
	const children = "webdav.memFSNode.children"
	lock, unlock := "(*sync.Mutex).Lock", "(*sync.Mutex).Unlock"
	mu := []LockOp{{Callee: lock, Kind: "acq"}, {Callee: unlock, Kind: "rel"}}
	find := F + "find"
	osc := func(name string) int64 {
		v, ok := c.P.WdImportedConst("webdav", "os", name)
		if !ok {
			c.Undecided("anchor", "os."+name, "constant not found")
		}
		return v
	}
	oCreate, oExcl, oTrunc := osc("O_CREATE"), osc("O_EXCL"), osc("O_TRUNC")
	oWr := osc("O_WRONLY") | osc("O_RDWR")

	// ---- fs.mu discipline
	methods := []string{"Mkdir", "OpenFile", "RemoveAll", "Rename", "Stat"}
	var names []string
	for _, m := range methods {
		names = append(names, F+m)
		c.LockBalanced(F+m, mu)
		c.HeldAt(F+m, Union(Calls(find), Loads(children)), "$r.mu", []string{lock}, []string{unlock})
	}
	c.Callers(find, names...)
	c.Callers(F+"walk", find)
	c.WdMapWriters(children, F+"Mkdir", F+"OpenFile", F+"RemoveAll", F+"Rename")

	// ---- n.mu discipline
	data, pos := "webdav.memFSNode.data", "webdav.memFile.pos"
	for _, m := range []string{"Read", "Readdir", "Seek", "Write"} {
		fn := "(*webdav.memFile)." + m
		c.LockBalanced(fn, mu)
		c.HeldAt(fn, Union(Loads(pos), Stores(pos), Loads(data), Stores(data)), "$r.n.mu", []string{lock}, []string{unlock})
	}
	c.LockBalanced("(*webdav.memFSNode).stat", mu)
	c.HeldAt("(*webdav.memFSNode).stat", Loads(data), "$r.mu", []string{lock}, []string{unlock})
	c.Writers(pos, "(*webdav.memFile).Read", "(*webdav.memFile).Readdir", "(*webdav.memFile).Seek", "(*webdav.memFile).Write")
	c.Writers(data, "(*webdav.memFile).Write", F+"OpenFile")

	// ---- Rename
	rn := F + "Rename"
	effects := Union(WdRetOKAny(), WdMapWrites(children))
	eq := "slashClean($1) == slashClean($2)"
	c.Reject(rn, WdMapWrites(children), eq) // renaming onto itself changes nothing
	c.Reject(rn, Union(effects, Calls(find)), "slashClean($1) != slashClean($2)", `HasPrefix(slashClean($2),(slashClean($1)+"/"))`)
	if fo, fnw := c44Find(c, rn, 1), c44Find(c, rn, 2); fo != "" && fnw != "" {
		mut := WdMapWrites(children)
		c.Check(strings.Contains(fo, "slashClean($1)") && strings.Contains(fnw, "slashClean($2)"), "derives-from", rn+": find is given the cleaned names", c.MustFn(rn).Pos(), "", "find called with "+fo+" / "+fnw)
		c.Reject(rn, effects, "slashClean($1) != slashClean($2)", fo+"#2 != nil")
		c.Reject(rn, effects, "slashClean($1) != slashClean($2)", fnw+"#2 != nil")
		c.Reject(rn, effects, "slashClean($1) != slashClean($2)", fo+"#0 == nil")  // from the root
		c.Reject(rn, effects, "slashClean($1) != slashClean($2)", fnw+"#0 == nil") // to the root
		src := fo + "#0.children[" + fo + "#1]"
		c.Reject(rn, effects, "slashClean($1) != slashClean($2)", "!"+src+"#1") // missing source
		c.Count(rn, mut, 2, 2)
		c.Has(rn, Calls("builtin:delete").ArgIs(0, fo+"#0.children").ArgIs(1, fo+"#1"))
		c.Has(rn, mut.Where("insert of the source node under the new parent and fragment", func(in ssa.Instruction) bool {
			m, ok := in.(*ssa.MapUpdate)
			return ok && Term(m.Map) == fnw+"#0.children" && Term(m.Key) == fnw+"#1" && Term(m.Value) == src+"#0"
		}))
		c.PassThrough(rn, Calls("builtin:delete"), mut.Where("insert", func(in ssa.Instruction) bool { _, ok := in.(*ssa.MapUpdate); return ok }))
		c.WdGuardAny(rn, WdRetOKAny(), []string{eq}, []string{src + "#1"})
	}

	// ---- RemoveAll
	rm := F + "RemoveAll"
	if f := c44Find(c, rm, 1); f != "" {
		eff := Union(WdRetOKAny(), WdMapWrites(children))
		c.Reject(rm, eff, f+"#2 != nil")
		c.Reject(rm, eff, f+"#0 == nil") // the root
		c.Has(rm, Calls("builtin:delete").ArgIs(0, f+"#0.children").ArgIs(1, f+"#1"))
		c.Count(rm, WdMapWrites(children), 1, 1)
		c.CallAfterIncl(rm, c.Edge(f+"#0 != nil"), "builtin:delete")
	}

	// ---- Mkdir
	mk := F + "Mkdir"
	if f := c44Find(c, mk, 1); f != "" {
		eff := Union(WdRetOKAny(), WdMapWrites(children))
		c.Reject(mk, eff, f+"#2 != nil")
		c.Reject(mk, eff, f+"#0 == nil") // the root exists already
		c.Reject(mk, eff, f+"#0.children["+f+"#1]#1")
		c.Has(mk, WdMapWrites(children).Where("insert under (parent, frag)", func(in ssa.Instruction) bool {
			m, ok := in.(*ssa.MapUpdate)
			return ok && Term(m.Map) == f+"#0.children" && Term(m.Key) == f+"#1"
		}))
		c.Count(mk, WdMapWrites(children), 1, 1)
		modeDir := osc("ModeDir")
		c.Has(mk, Stores("webdav.memFSNode.mode").StoredIs(fmt.Sprintf("(Perm($2)|%d)", modeDir)))
		c.Has(mk, Stores(children).StoredIs("makemap"))
		c.PassThroughIncl(mk, c.Edge("!"+f+"#0.children["+f+"#1]#1"), WdMapWrites(children))
	}

	// ---- OpenFile
	of := F + "OpenFile"
	if f := c44Find(c, of, 1); f != "" {
		ent := f + "#0.children[" + f + "#1]"
		c.Reject(of, WdRetOKAny(), f+"#2 != nil")
		c.Reject(of, WdRetOKAny(), f+"#0 == nil", fmt.Sprintf("($2&%d) != 0", oWr))
		c.Reject(of, WdRetOKAny(), f+"#0 != nil", fmt.Sprintf("($2&%d) != 0", oCreate), fmt.Sprintf("($2&%d) != 0", oExcl), ent+" != nil")
		c.Guard(of, WdMapWrites(children), f+"#0 != nil", fmt.Sprintf("($2&%d) != 0", oCreate), ent+" == nil")
		c.Has(of, WdMapWrites(children).Where("insert under (parent, frag)", func(in ssa.Instruction) bool {
			m, ok := in.(*ssa.MapUpdate)
			return ok && Term(m.Map) == f+"#0.children" && Term(m.Key) == f+"#1"
		}))
		c.PassThrough(of, Stores("webdav.memFSNode.mode"), WdMapWrites(children)) // the node created for a missing entry is linked
		// missing entry without O_CREATE: the (possibly just created) node is nil-tested before success
		fn := c.MustFn(of)
		fromEntry := func(v ssa.Value) bool {
			return DependsOn(v, func(x ssa.Value) bool { lk, ok := x.(*ssa.Lookup); return ok && Term(lk) == ent })
		}
		isNil := func(v ssa.Value) bool { k, ok := v.(*ssa.Const); return ok && k.Value == nil }
		var tests []ssa.Instruction
		for _, ifi := range WdCmpBranches(fn, fromEntry, isNil) {
			eqb, _ := WdEqEdge(ifi)
			bad := false
			for _, r := range WdRetOKAny().F(c.P, fn) {
				if WdBlockReaches(eqb, r) {
					bad = true
				}
			}
			if x, _ := WdCmpOperands(ifi); !bad && c44IsPhi(x) {
				tests = append(tests, ifi)
			}
		}
		if c.Check(len(tests) > 0, "reject-before", of+": when the entry is (still) missing never [return <nil error>]", fn.Pos(), "", "no nil test of the looked-up/created node that leaves with an error") {
			c.WdBetween(of, c.Edge(f+"#0 != nil"), WdRetOKAny(), WdInstrs("nil test of the node", tests...))
		}
		trunc := []string{fmt.Sprintf("($2&%d) != 0", oWr), fmt.Sprintf("($2&%d) != 0", oTrunc)}
		c.Guard(of, Stores(data), trunc...)
		c.Count(of, Stores(data).StoredIs("nil"), 1, 1)
		c.CallAfterIncl(of, c.Edge(trunc[1]), lock) // the truncating branch takes n.mu (and HeldAt below: the store is inside)
		c.PassThroughIncl(of, c.Edge(trunc[1]), Stores(data))
		c.HeldAt(of, Stores(data), strings.TrimPrefix(c44LockObjOf(c, of, Stores(data)), "&"), []string{lock}, []string{unlock})
	}

	// ---- Stat
	st := F + "Stat"
	if f := c44Find(c, st, 1); f != "" {
		c.Reject(st, WdRetOKAny(), f+"#2 != nil")
		c.WdGuardAny(st, WdRetOKAny(), []string{f + "#0 == nil"}, []string{f + "#0.children[" + f + "#1]#1"})
	}

	// ---- find / walk
	c.Guard(find+"$1", WdFreeVarStores(), "$2", `$1 != ""`)
	c.Count(find+"$1", WdFreeVarStores(), 2, 2)
	c.Has(find+"$1", WdFreeVarStores().StoredIs("$0"))
	c.Has(find+"$1", WdFreeVarStores().StoredIs("$1"))
	c.Has(find, Calls(F+"walk").ArgIs(2, "$1"))
	c.WdRetAll(find, 2, "walk's error", IsCallTo(F+"walk"))
	wk := F + "walk"
	c.Has(wk, Calls("webdav.slashClean").ArgIs(0, "$1"))
	c.Before(wk, Calls("webdav.slashClean"), Calls("strings.IndexRune"))
	c.ArgFrom(wk, Calls("strings.IndexRune"), 0, "slashClean", IsCallTo("webdav.slashClean"))
	c.WdGuardMatch(wk, WdRetOKAny(), "final (no further '/')", func(a Atom) bool {
		ts := WdAtomTerms(a)
		return a.Kind == LE && len(ts) == 1 && strings.HasPrefix(ts[0], "IndexRune(") && a.L.Coef[ts[0]] == 1 && a.L.K == 1
	})
	if fn := c.MustFn(wk); fn != nil {
		var cb *ssa.Call
		for _, b := range fn.Blocks {
			for _, in := range b.Instrs {
				if call, ok := in.(*ssa.Call); ok && WdIsParam(fn, 2)(call.Call.Value) {
					cb = call
				}
			}
		}
		if cb == nil {
			c.Undecided("anchor", wk+": callback call", "not found")
		} else {
			c.Reject(wk, WdRetOKAny(), Term(cb)+" != nil")
			c.Before(wk, WdInstrs("callback call", cb), WdRetOKAny())
		}
		// missing child / non-directory child stop the walk
		isNil := func(v ssa.Value) bool { k, ok := v.(*ssa.Const); return ok && k.Value == nil }
		isChild := func(v ssa.Value) bool {
			lk, ok := v.(*ssa.Lookup)
			return ok && strings.HasSuffix(Term(lk.X), ".children")
		}
		ok := false
		for _, ifi := range WdCmpBranches(fn, isChild, isNil) {
			eqb, _ := WdEqEdge(ifi)
			stop := true
			for _, r := range WdRetOKAny().F(c.P, fn) {
				if WdBlockReaches(eqb, r) {
					stop = false
				}
			}
			if cb != nil && WdBlockReaches(eqb, cb) {
				stop = false
			}
			if stop {
				ok = true
			}
		}
		c.Check(ok, "reject-before", wk+": when an intermediate child is missing never [callback | return <nil error>]", fn.Pos(), "", "no nil test of dir.children[frag] that ends the walk with an error")
		ok = false
		for _, in := range Calls("(io/fs.FileMode).IsDir").F(c.P, fn) {
			a, err := c.P.ParseAtom("!" + Term(in.(*ssa.Call)))
			if err != nil {
				continue
			}
			stop := false
			for _, e := range c.Edge(a.String()).F(c.P, fn) {
				stop = true
				for _, r := range WdRetOKAny().F(c.P, fn) {
					if WdBlockReaches(e.Block(), r) {
						stop = false
					}
				}
				if cb != nil && WdBlockReaches(e.Block(), cb) {
					stop = false
				}
			}
			if stop {
				ok = true
			}
		}
		c.Check(ok, "reject-before", wk+": when an intermediate child is not a directory never [callback | return <nil error>]", fn.Pos(), "", "no IsDir test of the child that ends the walk with an error")
	}

	// ---- memFile
	const MF = "(*webdav.memFile)."
	c.Reject(MF+"Read", Union(WdRetOKAny(), Stores(pos)), "IsDir($r.n.mode)")
	c.Reject(MF+"Read", Union(WdRetOKAny(), Stores(pos)), "$r.pos >= len($r.n.data)")
	c.WdGuardAny(MF+"Read", WdRetIs(1, "io.EOF"), []string{"$r.pos >= len($r.n.data)"})
	c.Count(MF+"Read", Stores(pos).StoredIs("($r.pos+copy($0,$r.n.data[$r.pos:]))"), 1, 1)
	c.Count(MF+"Read", WdRetIs(0, "copy($0,$r.n.data[$r.pos:])"), 1, 1)
	c.Reject(MF+"Write", Union(WdRetOKAny(), Stores(pos), Stores(data)), "IsDir($r.n.mode)")
	c.Count(MF+"Write", WdRetOKAny().Where("returns len(p)", func(in ssa.Instruction) bool {
		v := WdRetValue(in.(*ssa.Return), 0)
		return v != nil && Term(v) == "len($0)"
	}), 1, 1)
	c.Count(MF+"Write", WdRetOKAny(), 1, 1)
	c.Before(MF+"Write", Stores("webdav.memFSNode.modTime"), WdRetOKAny())
	c.Reject(MF+"Readdir", Union(WdRetOKAny(), Stores(pos)), "!IsDir($r.n.mode)")
	c.WdGuardSelf(MF+"Seek", Stores(pos), "stored position >= 0", func(in ssa.Instruction) []string {
		return []string{Term(in.(*ssa.Store).Val) + " >= 0"}
	})
	c.Before(MF+"Seek", Stores(pos), WdRetOKAny())
}

// c44LockObjOf renders the mutex (…​.mu) of the node whose field the selected store writes.
func c44LockObjOf(c *Ctx, fnName string, sel Sel) string {
	fn := c.P.Fn(fnName)
	if fn == nil {
		return "?"
	}
	for _, in := range sel.F(c.P, fn) {
		if st, ok := in.(*ssa.Store); ok {
			if fa, ok := st.Addr.(*ssa.FieldAddr); ok {
				return Term(fa.X) + ".mu"
			}
		}
	}
	return "?"
}

func c44IsPhi(v ssa.Value) bool { _, ok := v.(*ssa.Phi); return ok }
