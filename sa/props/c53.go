package props

import (
	"fmt"
	"go/token"
	"strings"

	"golang.org/x/tools/go/ssa"

	. "verif/sa/core"
)

func init() {
	Register(&Property{
		ID:    "C53",
		Floor: 70,
		Clauses: "proxy.PerHost decision structure: Dial/DialContext split host:port, fail on a split error before choosing, and dial through dialerForRequest(host) with the caller's network/address; " +
			"dialerForRequest: for an IP literal consults only bypassNetworks (Contains) and bypassIPs (Equal) with the parsed IP and otherwise returns the default; for a name consults only bypassZones (suffix, or equality with the zone minus its dot) and bypassHosts (equality); " +
			"every positive test returns the bypass dialer immediately, every exhausted path returns the default dialer, nothing else is ever returned; " +
			"AddFromString classifies each trimmed non-empty entry exclusively: contains '/' -> AddNetwork only if ParseCIDR succeeds (never treated as IP/zone/host), IP literal -> AddIP, \"*.\" prefix -> AddZone(entry[1:]), otherwise AddHost(entry); " +
			"each list has a single writer (its Add method), the dialers are set only by NewPerHost in the right order; AddZone stores a zone that always starts with a dot (so zone[1:] is in range and means the bare name) with a trailing dot removed; AddHost removes a trailing dot.",
		NotCovered: "case sensitivity and trailing-dot handling of the dialed host; behaviour of net/netip/strings library calls; which dialer the caller passed as default or bypass.",
		Run:        c53,
	})
}

// m1EqEdge selects the first instruction of the branch on which `lhs == other` holds, for
// string/integer equality tests whose other operand's term satisfies pred.
func m1EqEdge(lhs, desc string, pred func(string) bool) Sel {
	return Sel{Name: "branch " + lhs + " == " + desc, F: func(p *Prog, fn *ssa.Function) []ssa.Instruction {
		var out []ssa.Instruction
		for _, b := range fn.Blocks {
			if len(b.Instrs) == 0 {
				continue
			}
			ifi, ok := b.Instrs[len(b.Instrs)-1].(*ssa.If)
			if !ok {
				continue
			}
			bo, ok := ifi.Cond.(*ssa.BinOp)
			if !ok || bo.Op != token.EQL && bo.Op != token.NEQ {
				continue
			}
			x, y := Term(bo.X), Term(bo.Y)
			if !(x == lhs && pred(y) || y == lhs && pred(x)) {
				continue
			}
			s := b.Succs[0]
			if bo.Op == token.NEQ {
				s = b.Succs[1]
			}
			if len(s.Instrs) > 0 {
				out = append(out, s.Instrs[0])
			}
		}
		return out
	}}
}

func c53(c *Ctx) {
	const T = "(*proxy.PerHost)."
	const dfr = T + "dialerForRequest"
	const afs = T + "AddFromString"
	retDef, retByp := RetTerm(0, "$r.def"), RetTerm(0, "$r.bypass")

	// ---- Dial / DialContext
	c.Has(T+"Dial", Calls(dfr).ArgIs(1, "SplitHostPort($1)#0"))
	c.Has(T+"Dial", Calls(".Dial").ArgIs(0, "$0").ArgIs(1, "$1").Where("on the chosen dialer", func(in ssa.Instruction) bool {
		return Term(in.(*ssa.Call).Call.Value) == "dialerForRequest($r,SplitHostPort($1)#0)"
	}))
	c.NeverAfter(T+"Dial", m1ErrBranchOf("net.SplitHostPort"), Calls(".Dial"), true)
	c.Count(T+"Dial", Calls(".Dial"), 1, 1)
	c.Has(T+"DialContext", Calls(dfr).ArgIs(1, "SplitHostPort($2)#0"))
	c.Has(T+"DialContext", Calls(".DialContext").ArgIs(0, "$0").ArgIs(1, "$1").ArgIs(2, "$2").Where("on the chosen dialer", func(in ssa.Instruction) bool {
		return strings.HasPrefix(Term(in.(*ssa.Call).Call.Value), "dialerForRequest($r,SplitHostPort($2)#0).(")
	}))
	c.Has(T+"DialContext", Calls("proxy.dialContext").ArgIs(0, "$0").ArgIs(1, "dialerForRequest($r,SplitHostPort($2)#0)").ArgIs(2, "$1").ArgIs(3, "$2"))
	c.NeverAfter(T+"DialContext", m1ErrBranchOf("net.SplitHostPort"), Union(Calls(".DialContext"), Calls("proxy.dialContext")), true)
	c.Callers(dfr, T+"Dial", T+"DialContext")

	// ---- dialerForRequest
	fn := c.MustFn(dfr)
	if fn == nil {
		return
	}
	pa := Calls("net/netip.ParseAddr").F(c.P, fn)
	if !c.Count(dfr, Calls("net/netip.ParseAddr").ArgIs(0, "$0"), 1, 1) || len(pa) != 1 {
		return
	}
	isIP, isName := m1BoolBranchNilErr(pa[0].(*ssa.Call), true), m1BoolBranchNilErr(pa[0].(*ssa.Call), false)
	ldNets, ldIPs, ldZones, ldHosts := Loads("proxy.PerHost.bypassNetworks"), Loads("proxy.PerHost.bypassIPs"), Loads("proxy.PerHost.bypassZones"), Loads("proxy.PerHost.bypassHosts")
	c.Count(dfr, isIP, 1, 1)
	c.NeverAfter(dfr, isIP, Union(ldZones, ldHosts, Calls("strings.HasSuffix")), true)
	c.NeverAfter(dfr, isName, Union(ldNets, ldIPs, Calls("(*net.IPNet).Contains"), Calls("(net.IP).Equal")), true)
	c.Guard(dfr, Union(ldNets, ldIPs), "ParseAddr($0)#1 == nil")
	c.Guard(dfr, Union(ldZones, ldHosts), "ParseAddr($0)#1 != nil")
	for _, l := range []Sel{ldNets, ldIPs, ldZones, ldHosts} {
		c.Has(dfr, l)
	}
	// the tests and their operands
	contains := Calls("(*net.IPNet).Contains").ArgIs(1, "AsSlice(ParseAddr($0)#0)").Where("receiver from bypassNetworks", func(in ssa.Instruction) bool {
		return strings.HasPrefix(Term(BaselineArgs(&in.(*ssa.Call).Call)[0]), "$r.bypassNetworks[")
	})
	equal := Calls("(net.IP).Equal").ArgIs(1, "AsSlice(ParseAddr($0)#0)").Where("receiver from bypassIPs", func(in ssa.Instruction) bool {
		return strings.HasPrefix(Term(BaselineArgs(&in.(*ssa.Call).Call)[0]), "$r.bypassIPs[")
	})
	suffix := Calls("strings.HasSuffix").ArgIs(0, "$0").Where("suffix from bypassZones", func(in ssa.Instruction) bool {
		return strings.HasPrefix(Term(BaselineArgs(&in.(*ssa.Call).Call)[1]), "$r.bypassZones[")
	})
	c.Count(dfr, contains, 1, 1)
	c.Count(dfr, equal, 1, 1)
	c.Count(dfr, suffix, 1, 1)
	zoneEq := m1EqEdge("$0", "zone[1:]", func(s string) bool { return strings.HasPrefix(s, "$r.bypassZones[") && strings.HasSuffix(s, "][1:]") })
	hostEq := m1EqEdge("$0", "bypassHost", func(s string) bool { return strings.HasPrefix(s, "$r.bypassHosts[") && strings.HasSuffix(s, "]") })
	c.Count(dfr, zoneEq, 1, 1)
	c.Count(dfr, hostEq, 1, 1)
	// each positive test returns bypass at once
	for _, pos := range []Sel{m1BoolBranch("(*net.IPNet).Contains", 0, true), m1BoolBranch("(net.IP).Equal", 0, true), m1BoolBranch("strings.HasSuffix", 0, true), zoneEq, hostEq} {
		c.PassThroughIncl(dfr, pos, retByp)
		c.NeverAfter(dfr, pos, retDef, true)
	}
	// none of the positive tests is compiled out
	for _, pos := range []Sel{m1BoolBranch("(*net.IPNet).Contains", 0, true), m1BoolBranch("(net.IP).Equal", 0, true), m1BoolBranch("strings.HasSuffix", 0, true), zoneEq, hostEq} {
		for _, in := range pos.F(c.P, fn) {
			dead, _ := m1DeadFacts(in)
			c.Check(len(dead) == 0, "live-in-build", dfr+": ["+pos.Name+"] is reachable", InstrPos(in), "", "the test is under a constant condition that evaluates to "+strings.Join(dead, ", ")+" for the taken edge")
		}
	}
	// bypass is returned only after a positive test
	okSites := map[ssa.Instruction]bool{}
	for _, pos := range []Sel{m1BoolBranch("(*net.IPNet).Contains", 0, true), m1BoolBranch("(net.IP).Equal", 0, true), m1BoolBranch("strings.HasSuffix", 0, true), zoneEq, hostEq} {
		for _, in := range pos.F(c.P, fn) {
			okSites[in] = true
		}
	}
	// (every edge into a bypass return is the true edge of one of the positive tests; the tests may share a
	// return through `||`, so the block may have several predecessors)
	c.Count(dfr, retByp.Where("entered by an edge that is not a positive test", func(in ssa.Instruction) bool {
		b := in.Block()
		if len(b.Instrs) == 0 || !okSites[b.Instrs[0]] || len(b.Preds) == 0 {
			return true
		}
		for _, p := range b.Preds {
			ifi, isIf := p.Instrs[len(p.Instrs)-1].(*ssa.If)
			if !isIf || p.Succs[0] == p.Succs[1] {
				return true
			}
			positive := false
			for _, f := range EdgeFactsOf(ifi, p.Succs[0] == b) {
				if f.If != ifi {
					continue
				}
				str := f.Atom.String()
				switch {
				case f.Atom.Kind == TRUE && (strings.HasPrefix(str, "Contains(") || strings.HasPrefix(str, "Equal(") || strings.HasPrefix(str, "HasSuffix(")):
					positive = true
				case f.Atom.Kind == EQ && len(f.Atom.L.Coef) == 2 && f.Atom.L.Coef["$0"] != 0 && (strings.Contains(str, "$r.bypassZones[") || strings.Contains(str, "$r.bypassHosts[")):
					positive = true
				}
			}
			if !positive {
				return true
			}
		}
		return false
	}), 0, 0)
	c.Count(dfr, retDef, 2, 2)
	c.Count(dfr, Returns().Where("neither default nor bypass", func(in ssa.Instruction) bool {
		t := Term(in.(*ssa.Return).Results[0])
		return t != "$r.def" && t != "$r.bypass"
	}), 0, 0)
	underFact := func(want string) func(ssa.Instruction) bool {
		return func(in ssa.Instruction) bool {
			for _, f := range FactStringsAt(in) {
				if f == want {
					return true
				}
			}
			return false
		}
	}
	c.Count(dfr, retDef.Where("on the IP literal path", underFact("ParseAddr($0)#1 ==0")), 1, 1)
	c.Count(dfr, retDef.Where("on the name path", underFact("ParseAddr($0)#1 !=0")), 1, 1)

	// ---- AddFromString
	if af := c.MustFn(afs); af != nil {
		ts := Calls("strings.TrimSpace").F(c.P, af)
		if c.Count(afs, Calls("strings.TrimSpace"), 1, 1) && len(ts) == 1 {
			e := Term(ts[0].(ssa.Value))
			c.Check(strings.HasPrefix(e, `TrimSpace(Split($0,",")[`), "entry", afs+": entries are the trimmed comma-separated parts", ts[0].Pos(), "", "entry is "+e)
			slash := `Contains(` + e + `,"/")`
			cidr := "ParseCIDR(" + e + ")"
			addr := "ParseAddr(" + e + ")"
			star := `HasPrefix(` + e + `,"*.")`
			next := Calls("strings.TrimSpace")
			// empty entries are skipped before classification (`len(e) != 0` and `e != ""` are the same fact)
			c.M5AnySpelling(M5NonEmpty(e), func(ne string) {
				c.Guard(afs, Calls("strings.Contains").ArgIs(0, e).ArgIs(1, `"/"`), ne)
			})
			c.Guard(afs, Calls(T+"AddNetwork").ArgIs(1, cidr+"#1"), slash, cidr+"#2 == nil")
			c.NeverAfterUntil(afs, m1BoolBranch("strings.Contains", 0, true), Union(Calls(T+"AddIP"), Calls(T+"AddZone"), Calls(T+"AddHost")), next)
			c.NeverAfterUntil(afs, m1ErrBranchOf("net.ParseCIDR"), Calls(T+"AddNetwork"), next)
			c.Guard(afs, Calls(T+"AddIP").ArgIs(1, "AsSlice("+addr+"#0)"), "!"+slash, addr+"#1 == nil")
			pac := Calls("net/netip.ParseAddr").F(c.P, af)
			if len(pac) == 1 {
				c.NeverAfterUntil(afs, m1BoolBranchNilErr(pac[0].(*ssa.Call), true), Union(Calls(T+"AddZone"), Calls(T+"AddHost"), Calls(T+"AddNetwork")), next)
			} else {
				c.Undecided("anchor", afs+": ParseAddr", "expected one call")
			}
			c.Guard(afs, Calls(T+"AddZone").ArgIs(1, e+"[1:]"), star, addr+"#1 != nil", "!"+slash)
			c.NeverAfterUntil(afs, m1BoolBranch("strings.HasPrefix", 0, true), Union(Calls(T+"AddHost"), Calls(T+"AddIP"), Calls(T+"AddNetwork")), next)
			c.Guard(afs, Calls(T+"AddHost").ArgIs(1, e), "!"+star, addr+"#1 != nil", "!"+slash)
			for _, m := range []string{"AddNetwork", "AddIP", "AddZone", "AddHost"} {
				c.Count(afs, Calls(T+m), 1, 1)
			}
		}
	}

	// ---- list ownership and normal forms
	c.Writers("proxy.PerHost.bypassNetworks", T+"AddNetwork")
	c.Writers("proxy.PerHost.bypassIPs", T+"AddIP")
	c.Writers("proxy.PerHost.bypassZones", T+"AddZone")
	c.Writers("proxy.PerHost.bypassHosts", T+"AddHost")
	c.Writers("proxy.PerHost.def", "proxy.NewPerHost")
	c.Writers("proxy.PerHost.bypass", "proxy.NewPerHost")
	c.Has("proxy.NewPerHost", Stores("proxy.PerHost.def").StoredIs("$0"))
	c.Has("proxy.NewPerHost", Stores("proxy.PerHost.bypass").StoredIs("$1"))
	appended := func(fnName, field string) (ssa.Value, bool) {
		f := c.MustFn(fnName)
		if f == nil {
			return nil, false
		}
		sts := Stores(field).F(c.P, f)
		if len(sts) != 1 {
			return nil, false
		}
		cl, ok := sts[0].(*ssa.Store).Val.(*ssa.Call)
		if !ok || CalleeName(&cl.Call) != "builtin:append" || len(BaselineArgs(&cl.Call)) != 2 {
			return nil, false
		}
		if !strings.HasPrefix(Term(BaselineArgs(&cl.Call)[0]), "$r."+field[strings.LastIndex(field, ".")+1:]) {
			return nil, false
		}
		// the single element of the variadic slice
		var elem ssa.Value
		n := 0
		Backward(BaselineArgs(&cl.Call)[1], func(v ssa.Value) bool {
			if a, ok := v.(*ssa.Alloc); ok {
				for _, r := range *a.Referrers() {
					if ia, ok := r.(*ssa.IndexAddr); ok {
						for _, rr := range *ia.Referrers() {
							if st, ok := rr.(*ssa.Store); ok && st.Addr == ssa.Value(ia) {
								elem = st.Val
								n++
							}
						}
					}
				}
				return false
			}
			return true
		})
		return elem, n == 1
	}
	v, ok := appended(T+"AddIP", "proxy.PerHost.bypassIPs")
	c.Check(ok && Term(v) == "$0", "append", T+"AddIP appends its argument to bypassIPs", token.NoPos, "", "not a single append of $0")
	v, ok = appended(T+"AddNetwork", "proxy.PerHost.bypassNetworks")
	c.Check(ok && Term(v) == "$0", "append", T+"AddNetwork appends its argument to bypassNetworks", token.NoPos, "", "not a single append of $0")
	v, ok = appended(T+"AddHost", "proxy.PerHost.bypassHosts")
	c.Check(ok && Term(v) == `TrimSuffix($0,".")`, "append", T+"AddHost appends the host without trailing dot", token.NoPos, "", fmt.Sprintf("appended value: %s", m1TermOrNil(v)))
	v, ok = appended(T+"AddZone", "proxy.PerHost.bypassZones")
	good, why := false, "appended zone is not merged from the leading-dot test"
	if ph, isPhi := v.(*ssa.Phi); ok && isPhi {
		base := `TrimSuffix($0,".")`
		u, o, err := c.P.PhiEdgesUnder(ph, "!HasPrefix("+base+`,".")`)
		if err == nil && len(u) == 1 && len(o) == 1 {
			good = Term(u[0]) == `("."+`+base+`)` && Term(o[0]) == base
			why = fmt.Sprintf("without a leading dot the zone becomes %s, otherwise %s", Term(u[0]), Term(o[0]))
		}
	}
	c.Check(good, "append", T+"AddZone appends a zone that always starts with a dot (prepended when missing), trailing dot removed", token.NoPos, "", why)
}
