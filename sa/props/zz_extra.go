package props

import (
	"fmt"
	"go/token"
	"go/types"
	"strings"

	"golang.org/x/tools/go/ssa"

	. "verif/sa/core"
)

// Supplementary rules added after the independently seeded breaking changes
// (/verif/seeded) showed a miss. Each is a necessary condition of its property.
func init() {
	// C17 (seed: the limit hoisted out of the wait loop): after every wake-up
	// the limit is read again before a slot is granted — a SETTINGS frame may
	// have lowered it while the request waited.
	RegisterExtra("C17", func(c *Ctx) {
		fn := "(*http2.ClientConn).awaitOpenSlotForStreamLocked"
		c.Via(fn, Calls("(*sync.Cond).Wait"), RetOK(), Loads("http2.ClientConn.maxConcurrentStreams"))
		c.Via(fn, Calls("(*sync.Cond).Wait"), RetOK(), Calls("(*http2.ClientConn).currentRequestCountLocked"))
	})
	// C18 (seed: a later GOAWAY's last-stream-ID overwritten through the cc.goAway alias):
	// the frame's LastStreamID is what the parser read from the wire; nobody else writes it.
	RegisterExtra("C18", func(c *Ctx) {
		c.Writers("http2.GoAwayFrame.LastStreamID", "http2.parseGoAwayFrame")
	})
	// C19 (seed: acked data left queued for resend): on the acked path the range
	// is removed from the unsent set as well as added to the acked set.
	RegisterExtra("C19", func(c *Ctx) {
		fn := "(*quic.Stream).ackOrLossData"
		c.CallAfter(fn, Calls("(*quic.rangeset[int64]).add[int64]").ArgIs(0, "&$r.outacked"), "(*quic.rangeset[int64]).sub[int64]")
		c.Has(fn, Calls("(*quic.rangeset[int64]).sub[int64]").ArgIs(0, "&$r.outunsent").ArgIs(1, "$1").ArgIs(2, "$2"))
	})
	// C56 (seed: the Boolean-true default of a valueless parameter hoisted out of the loop):
	// the value reported for a parameter is decided within its own iteration — the
	// default or the bare item just parsed — never a value left over from the previous parameter.
	RegisterExtra("C56", func(c *Ctx) {
		fn := c.MustFn("internal/httpsfv.consumeParameter")
		if fn == nil {
			return
		}
		n := 0
		ok := true
		var pos ssa.Instruction
		for _, b := range fn.Blocks {
			for _, in := range b.Instrs {
				call, isCall := in.(*ssa.Call)
				if !isCall || len(fn.Params) < 2 || call.Call.Value != fn.Params[1] || len(BaselineArgs(&call.Call)) < 2 {
					continue
				}
				n++
				if loopCarried(BaselineArgs(&call.Call)[1]) {
					ok = false
					pos = in
				}
			}
		}
		if n == 0 {
			c.Undecided("per-iteration-value", "internal/httpsfv.consumeParameter: value passed to the callback", "no call of the callback parameter found")
			return
		}
		var p token.Pos
		if pos != nil {
			p = InstrPos(pos)
		}
		c.Check(ok, "per-iteration-value", "internal/httpsfv.consumeParameter: the value passed to the callback is not carried over from the previous parameter", p, "", "the value argument is a loop-carried variable: a valueless parameter inherits the previous parameter's value")
	})
	// C25 (seed: an ACK range that does not fit skipped with `continue`): ranges are encoded as gaps
	// relative to the previously written range, so once a range is not written the loop must stop;
	// no iteration may go round without appending its gap and size.
	RegisterExtra("C25", func(c *Ctx) {
		c.EveryCyclePasses("(*quic.packetWriter).appendAckFrame", Calls("internal/quic/quicwire.AppendVarint").Where("inside the range loop", func(in ssaInstr) bool {
			return strings.Contains(Term(BaselineArgs(&in.(*ssa.Call).Call)[1]), "φi")
		}))
	})
	// C26 (seed: the recovery-period early return moved above the in-flight decrement): an in-flight
	// packet leaves bytesInFlight on every path of each of the three accounting functions.
	RegisterExtra("C26", func(c *Ctx) {
		for fn, sent := range map[string]string{"(*quic.ccReno).packetAcked": "$1", "(*quic.ccReno).packetLost": "$2", "(*quic.ccReno).packetDiscarded": "$0"} {
			c.PassThroughIncl(fn, c.Edge(sent+".inFlight"), Stores("quic.ccReno.bytesInFlight"))
		}
	})
	// C58 (seed: slot released before the connection is closed): the underlying
	// connection is closed before the slot is handed to the next Accept.
	RegisterExtra("C58", func(c *Ctx) {
		c.Before("(*netutil.limitListenerConn).Close", Calls(".Close"), Calls("(*sync.Once).Do"))
	})
	// C61 (seed: whole-level reset one bucket too early): a level is cleared
	// wholesale only when the new time is at least numBuckets bucket-widths past
	// its end; otherwise buckets still inside the retained window would be lost.
	RegisterExtra("C61", func(c *Ctx) {
		fn := "(*internal/timeseries.timeSeries).advance"
		// the far-enough test adds size*numBuckets (structure, not local names: the loop may be index- or range-based)
		isFar := func(v ssa.Value) bool {
			call, ok := v.(*ssa.Call)
			if !ok || CalleeName(&call.Call) != "(time.Time).Add" || len(BaselineArgs(&call.Call)) < 2 {
				return false
			}
			t := Term(BaselineArgs(&call.Call)[1])
			return strings.HasSuffix(t, ".size*$r.numBuckets)") && strings.HasPrefix(t, "($r.levels[")
		}
		c.Has(fn, Calls("(time.Time).Add").Where("level.end + size*numBuckets", func(in ssaInstr) bool { return isFar(in.(ssa.Value)) }))
		reset := Calls("(*internal/timeseries.timeSeries).resetObservation").Where("bulk reset of a level", func(in ssaInstr) bool {
			return inRangeLoop(in)
		})
		// every bulk reset is under !t.Before(level.end.Add(size*numBuckets))
		f := c.MustFn(fn)
		if f != nil {
			sites := reset.F(c.P, f)
			ok := len(sites) > 0
			for _, in := range sites {
				guarded := false
				for _, fact := range FactsAtInstr(in) {
					if fact.Atom.Kind != FALS {
						continue
					}
					if bc, isCall := ifCondCall(fact.If); isCall && CalleeName(&bc.Call) == "(time.Time).Before" && len(BaselineArgs(&bc.Call)) == 2 && isFar(BaselineArgs(&bc.Call)[1]) {
						guarded = true
					}
				}
				ok = ok && guarded
			}
			c.Check(ok, "guard-before", fn+": a level is reset wholesale only when t is not before level.end + size*numBuckets", f.Pos(), fmt.Sprintf("%d site(s)", len(sites)), "a bulk reset is not guarded by the numBuckets-wide test")
		}
	})
}

func init() {
	// C16 (seed: pad-length check moved before the priority bytes are stripped in parseHeadersFrame):
	// the server reads client bytes through Framer.ReadFrame on its readFrames goroutine, which has no
	// recover; the frame reader's panic-site inventory (C07) is therefore part of "the server never panics".
	RegisterExtra("C16", c07FrameInventory)
	RegisterExtra("C16", func(c *Ctx) {
		// the guards the inventory's pad-strip entries rest on: padding longer than the remaining payload is refused before slicing
		for _, fn := range []string{"http2.parseDataFrame", "http2.parseHeadersFrame", "http2.parsePushPromise"} {
			c.SliceHighNonNeg(fn, SubtractiveSlices())
		}
	})
}

func init() {
	// C60 (seed: MPLS label masked to 16 bits on the wire): the MPLS label stack object round-trips —
	// marshal is interpreted abstractly (bit provenance) on one symbolic label entry, the bytes it wrote are
	// handed to parseMPLSLabelStack, and every field of the parsed entry must be the original field bit by bit.
	RegisterExtra("C60", func(c *Ctx) {
		mar, par := c.MustFn("(*icmp.MPLSLabelStack).marshal"), c.MustFn("icmp.parseMPLSLabelStack")
		if mar == nil || par == nil {
			return
		}
		lt, ok := c.P.Object("icmp.MPLSLabel").(*types.TypeName)
		st, ok2 := c.P.Object("icmp.MPLSLabelStack").(*types.TypeName)
		if !ok || !ok2 {
			c.Undecided("anchor", "icmp.MPLSLabel", "type not found")
			return
		}
		fLabel, fTC, fS, fTTL := FieldIndex(lt.Type(), "Label"), FieldIndex(lt.Type(), "TC"), FieldIndex(lt.Type(), "S"), FieldIndex(lt.Type(), "TTL")
		fLabels := FieldIndex(st.Type(), "Labels")
		for _, sbit := range []uint64{0, 1} {
			tag := fmt.Sprintf("S=%d", sbit)
			in := func(name string, n int) BV { b := InputBV(name, 64, n); b.Signed = true; return b }
			sv := InputBV("s", 1, 0)
			if sbit == 1 {
				sv.B[0] = Bit{K: 1}
			}
			entry := &AObj{Name: "label", Cells: map[int]AVal{fLabel: in("label", 20), fTC: in("tc", 3), fS: sv, fTTL: in("ttl", 8)}, N: 4}
			stack := NewObj("ls")
			stack.Obj.Cells[fLabels] = KnownBytes([]AVal{entry})
			var buf []AVal
			for i := 0; i < 8; i++ {
				buf = append(buf, InputBV("zero", 8, 0))
			}
			b := KnownBytes(buf)
			proto := InputBV("proto", 64, 0)
			if _, err := (&Interp{P: c.P}).Call(mar, []AVal{stack, proto, b}); err != nil {
				c.Fail("bits:encode", "(*icmp.MPLSLabelStack).marshal "+tag, mar.Pos(), "abstract interpretation failed: "+err.Error())
				continue
			}
			res, err := (&Interp{P: c.P}).Call(par, []AVal{b})
			if err != nil {
				c.Fail("bits:roundtrip", "icmp.parseMPLSLabelStack(marshal(entry)) "+tag, par.Pos(), "abstract interpretation failed: "+err.Error())
				continue
			}
			good, why := false, "parser result is not a label stack with one entry"
			if tup, ok := res.(ATuple); ok && len(tup) == 2 {
				if p, ok := tup[0].(*APtr); ok {
					if sl, ok := p.Obj.Cells[fLabels].(*ASlice); ok && sl.Hi-sl.Lo == 1 {
						if e, ok := sl.Obj.Cells[sl.Lo].(*AObj); ok {
							good, why = true, ""
							check := func(fi int, name string, n int) {
								v, _ := e.Cells[fi].(BV)
								for k := 0; k < 64; k++ {
									want := Bit{}
									if k < n {
										want = Bit{K: 2, Src: name, Idx: uint8(k)}
									}
									if v.B[k] != want && good {
										good, why = false, fmt.Sprintf("parsed %s bit %d is %v, want %v (parsed value %s)", name, k, v.B[k], want, v)
									}
								}
							}
							check(fLabel, "label", 20)
							check(fTC, "tc", 3)
							check(fTTL, "ttl", 8)
							sv2, _ := e.Cells[fS].(BV)
							if u, isC := sv2.Const(); (!isC || u != sbit) && good {
								good, why = false, "parsed S is "+sv2.String()
							}
						}
					}
				}
			}
			c.Check(good, "bits:roundtrip", "icmp MPLS label entry: parse(marshal(e)) == e for every 20-bit label, 3-bit TC, 8-bit TTL, "+tag, par.Pos(), "", why)
		}
	})
}

// h3VarintRoundTrip: internal/http3's own varint codec (frame types and frame
// lengths travel through it): for each encoder case, the bytes written to the
// stream — modelled as a byte tape — are read back by readVarint as the same
// value, bit by bit, for every value of the case.
func h3VarintRoundTrip(c *Ctx) {
	w, r := c.MustFn("(*internal/http3.stream).writeVarint"), c.MustFn("(*internal/http3.stream).readVarint")
	if w == nil || r == nil {
		return
	}
	limIdx := FieldIndex(w.Params[0].Type(), "lim")
	ncases := 0
	// one case per distinct set of dominating facts among the byte writes
	seenCase := map[string]bool{}
	for _, ret := range Calls("(*quic.Stream).WriteByte").F(c.P, w) {
		fs := FactsAtInstr(ret)
		key := fmt.Sprint(atomsOf(fs))
		if seenCase[key] {
			continue
		}
		seenCase[key] = true
		ub, ok := upperBoundOf(fs, "$0")
		if !ok {
			continue
		}
		zf, pow := log2p1(ub)
		cons := fmt.Sprintf("http3 stream.writeVarint case v<=%d", ub)
		if !c.Check(pow, "bits:case-guard", cons+": bound is 2^n-1", ret.Pos(), "", "case bound is not 2^n-1") {
			continue
		}
		ncases++
		var tape []AVal
		hooks := map[string]func(args []AVal) (AVal, error){
			"(*quic.Stream).WriteByte": func(args []AVal) (AVal, error) {
				tape = append(tape, args[1])
				return AOpaque{Name: "nil"}, nil
			},
		}
		st := NewObj("st")
		v := InputBV("v", 64, zf)
		v.Signed = true
		if _, err := (&Interp{P: c.P, Assume: atomsOf(fs), Hooks: hooks}).Call(w, []AVal{st, v}); err != nil {
			c.Fail("bits:encode", cons, ret.Pos(), "abstract interpretation of the writer failed: "+err.Error())
			continue
		}
		n := len(tape)
		c.Check(zf == 8*n-2, "bits:case-guard", cons+fmt.Sprintf(": %d bytes carry %d value bits", n, 8*n-2), ret.Pos(), "", fmt.Sprintf("case admits %d-bit values but writes %d bytes", zf, n))
		pos := 0
		rhooks := map[string]func(args []AVal) (AVal, error){
			"(*quic.Stream).ReadByte": func(args []AVal) (AVal, error) {
				if pos >= len(tape) {
					return nil, ErrUndecided{Why: "reader consumes more bytes than the writer wrote"}
				}
				b := tape[pos]
				pos++
				return ATuple{b, AOpaque{Name: "nil"}}, nil
			},
		}
		rst := NewObj("st")
		if limIdx >= 0 {
			rst.Obj.Cells[limIdx] = ConstBV(^uint64(0), 64, true) // lim = -1: outside a frame
		}
		res, err := (&Interp{P: c.P, Hooks: rhooks, Assume: []Atom{}}).Call(r, []AVal{rst})
		good, why := err == nil, ""
		if err != nil {
			why = err.Error()
		} else if tup, ok := res.(ATuple); ok && len(tup) == 2 {
			val, _ := tup[0].(BV)
			for k := 0; k < 64; k++ {
				want := Bit{}
				if k < zf {
					want = Bit{K: 2, Src: "v", Idx: uint8(k)}
				}
				if val.B[k] != want {
					good, why = false, fmt.Sprintf("decoded bit %d is %v, want bit %d of v (decoded %s)", k, val.B[k], k, val)
					break
				}
			}
			if good && pos != n {
				good, why = false, fmt.Sprintf("reader consumed %d of %d bytes", pos, n)
			}
		} else {
			good, why = false, "reader result shape"
		}
		c.Check(good, "bits:roundtrip", cons+": readVarint(writeVarint(v)) == v for every v of the case", ret.Pos(), fmt.Sprintf("%d bytes", n), why)
	}
	c.Check(ncases == 4, "bits:partition", "http3 stream.writeVarint has the four cases 1/2/4/8 bytes", w.Pos(), "", fmt.Sprintf("%d cases with a 2^n-1 bound", ncases))
}

func init() {
	// C34/C35 (seed: writeVarint threshold 16384): frame headers are varints; a DATA frame whose length is
	// mis-encoded is not delivered faithfully and its payload is parsed as frames.
	RegisterExtra("C34", h3VarintRoundTrip)
	RegisterExtra("C35", h3VarintRoundTrip)
}

func init() {
	ExtraClause("C16", "Also: the frame reader's panic-site inventory and pad-strip guards (shared with C07), because the server parses client bytes on a goroutine without recover.")
	ExtraClause("C17", "Also: after every cond.Wait in awaitOpenSlotForStreamLocked the limit and the request count are read again before a slot is granted.")
	ExtraClause("C18", "Also: GoAwayFrame.LastStreamID is written only by the frame parser.")
	ExtraClause("C19", "Also: on the acked path of ackOrLossData the range is removed from the unsent set.")
	ExtraClause("C25", "Also: no iteration of appendAckFrame's range loop can go round without appending its gap and size (ranges are gap-encoded relative to the previous one).")
	ExtraClause("C26", "Also: an in-flight packet leaves bytesInFlight on every path of packetAcked, packetLost and packetDiscarded.")
	ExtraClause("C34", "Also: internal/http3's varint codec for frame types and lengths round-trips for every 62-bit value (abstract interpretation over bit provenance with the QUIC stream modelled as a byte tape).")
	ExtraClause("C35", "Also: internal/http3's varint codec round-trips for every 62-bit value (bit-provenance interpretation, stream as byte tape).")
	ExtraClause("C56", "Also: the value reported for a parameter is decided within its own loop iteration (default or the bare item just parsed), never carried over.")
	ExtraClause("C58", "Also: limitListenerConn.Close closes the underlying connection before the slot is released.")
	ExtraClause("C60", "Also: the MPLS label stack entry round-trips through marshal and parseMPLSLabelStack for every 20-bit label, 3-bit TC, S and 8-bit TTL (bit-provenance interpretation).")
	ExtraClause("C61", "Also: a level is cleared wholesale only when the new time is at least numBuckets bucket-widths past its end.")
}

func init() {
	// C49 (seed: X + Off added in uint32 and wrapping into the packet): the indirect-load offset is
	// computed in int, after each 32-bit operand has been widened, so a far out-of-bounds offset stays out of bounds.
	ExtraClause("C49", "Also: loadIndirect adds the offset and X as ints (each operand widened first), not as wrapping uint32.")
	RegisterExtra("C49", func(c *Ctx) {
		fn := c.MustFn("bpf.loadIndirect")
		if fn == nil {
			return
		}
		n, ok := 0, true
		why := ""
		for _, in := range Calls("bpf.loadCommon").F(c.P, fn) {
			n++
			arg := BaselineArgs(&in.(*ssa.Call).Call)[1]
			add, isAdd := arg.(*ssa.BinOp)
			if !isAdd || add.Op != token.ADD {
				ok, why = false, "the offset passed to loadCommon is not a sum: "+Term(arg)
				continue
			}
			b, _ := add.Type().Underlying().(*types.Basic)
			if b == nil || b.Kind() != types.Int {
				ok, why = false, "the sum is computed in "+add.Type().String()+", where it can wrap"
			}
			for _, op := range []ssa.Value{add.X, add.Y} {
				cv, isConv := op.(*ssa.Convert)
				if !isConv {
					ok, why = false, "operand "+Term(op)+" is not widened before the addition"
					continue
				}
				if sb, _ := cv.X.Type().Underlying().(*types.Basic); sb == nil || sb.Kind() != types.Uint32 {
					ok, why = false, "operand "+Term(op)+" is not a widened uint32"
				}
			}
		}
		if n == 0 {
			c.Undecided("widened-add", "bpf.loadIndirect: offset passed to loadCommon", "no call of loadCommon")
			return
		}
		c.Check(ok, "widened-add", "bpf.loadIndirect: offset = int(Off) + int(X), added after widening", fn.Pos(), "", why)
	})
}

func init() {
	// C40 (seed: attribute spans shifted on copies during buffer compaction): what the renderer writes for a
	// start tag comes from the attribute spans the tokenizer recorded; when the buffer is compacted every such
	// span has to move with it (shared with C39).
	ExtraClause("C40", "Also: readByte's buffer compaction shifts every span-typed location of the Tokenizer (data, pendingAttr, attr) by the old raw.start (shared with C39): attribute keys and values must still denote the same bytes when Token/Render use them.")
	RegisterExtra("C40", func(c *Ctx) {
		fnRB := c.MustFn(c39T + "readByte")
		if fnRB == nil {
			return
		}
		stores := c.P.HtmStoresUnder("html.Tokenizer")
		byPath := map[string][]HtmStore{}
		for _, s := range stores {
			byPath[s.Path] = append(byPath[s.Path], s)
		}
		c39SpanShift(c, fnRB, byPath)
	})
}

func init() {
	// C41 (seed: </body> tested in button scope while </html> tests body in default scope): the end tags
	// </body> and </html> both ask "is a body element in scope"; </html> then re-processes an implied </body>.
	// If the two tests use different scopes the implied end tag can be ignored for ever and the parse loop does not terminate.
	ExtraClause("C41", "Also (sibling agreement): every elementInScope test for the body element inside inBodyIM uses the same scope constant.")
	RegisterExtra("C41", func(c *Ctx) {
		fn := c.MustFn("html.inBodyIM")
		body, okB := c.P.ConstInt("html/atom.Body")
		if fn == nil || !okB {
			c.Undecided("sibling-agreement", "html.inBodyIM: body-in-scope tests", "anchor not found")
			return
		}
		scopes := map[string]int{}
		n := 0
		for _, in := range Calls("(*html.parser).elementInScope").F(c.P, fn) {
			call := in.(*ssa.Call)
			if len(BaselineArgs(&call.Call)) < 3 {
				continue
			}
			sl, ok := BaselineArgs(&call.Call)[2].(*ssa.Slice)
			if !ok {
				continue
			}
			al, ok := sl.X.(*ssa.Alloc)
			if !ok || al.Referrers() == nil {
				continue
			}
			var tags []int64
			for _, r := range *al.Referrers() {
				ia, ok := r.(*ssa.IndexAddr)
				if !ok || ia.Referrers() == nil {
					continue
				}
				for _, rr := range *ia.Referrers() {
					if st, ok := rr.(*ssa.Store); ok {
						if k, isC := st.Val.(*ssa.Const); isC {
							tags = append(tags, k.Int64())
						}
					}
				}
			}
			if len(tags) == 1 && tags[0] == body {
				n++
				scopes[Term(BaselineArgs(&call.Call)[1])]++
			}
		}
		if n < 2 {
			c.Undecided("sibling-agreement", "html.inBodyIM: body-in-scope tests", fmt.Sprintf("%d test(s) found, expected the </body> and </html> cases", n))
			return
		}
		c.Check(len(scopes) == 1, "sibling-agreement", "html.inBodyIM: every `body element in scope` test uses the same scope", fn.Pos(), fmt.Sprintf("%d tests", n), fmt.Sprintf("scopes used: %v", scopes))
	})
}

// ---------------------------------------------------------------------------
// Supplementary rules after the second round of seeded changes (seeded/<id>-2).

func init() {
	// C06-2 (IsZero ignoring Exclusive): whether a priority block is written is decided by IsZero; a
	// priority value that differs from the zero value in ANY field must be written, or it cannot read back.
	ExtraClause("C06", "Also: PriorityParam.IsZero depends on every field of PriorityParam (it decides whether WriteHeaders emits the priority block).")
	RegisterExtra("C06", func(c *Ctx) {
		fn := c.MustFn("(http2.PriorityParam).IsZero")
		tn, _ := c.P.Object("http2.PriorityParam").(*types.TypeName)
		if fn == nil || tn == nil {
			return
		}
		st := tn.Type().Underlying().(*types.Struct)
		read := map[string]bool{}
		whole := false
		for _, b := range fn.Blocks {
			for _, in := range b.Instrs {
				switch x := in.(type) {
				case *ssa.BinOp:
					// whole-struct comparison p == PriorityParam{}
					if types.Identical(x.X.Type(), tn.Type()) && (x.Op == token.EQL || x.Op == token.NEQ) {
						whole = true
					}
				case *ssa.Field:
					if types.Identical(x.X.Type(), tn.Type()) {
						read[st.Field(x.Field).Name()] = true
					}
				case *ssa.FieldAddr:
					if f := FieldOfAddr(x); f != nil {
						read[f.Name()] = true
					}
				}
			}
		}
		var missing []string
		for i := 0; i < st.NumFields(); i++ {
			if !whole && !read[st.Field(i).Name()] {
				missing = append(missing, st.Field(i).Name())
			}
		}
		c.Check(len(missing) == 0, "reads-every-field", "(http2.PriorityParam).IsZero: the result depends on every field of PriorityParam", fn.Pos(), "", "fields not examined: "+strings.Join(missing, ", ")+" (a priority that is non-zero only there is written without its priority block)")
	})

	// C12-2 (stage swap split into sequential statements): in writeQueue.shift the emptied slice that becomes the
	// new nextQueue must be the OLD currQueue: its load happens before currQueue is overwritten.
	ExtraClause("C12", "Also: in writeQueue.shift the slice stored into nextQueue is loaded from currQueue before currQueue is overwritten (no aliasing of the two stages).")
	RegisterExtra("C12", func(c *Ctx) {
		fn := c.MustFn("(*http2.writeQueue).shift")
		if fn == nil {
			return
		}
		nq := Stores("http2.writeQueue.nextQueue").F(c.P, fn)
		cq := Stores("http2.writeQueue.currQueue").F(c.P, fn)
		if len(nq) == 0 || len(cq) == 0 {
			c.Undecided("swap-order", "(*http2.writeQueue).shift: stage swap", "stores to currQueue/nextQueue not found")
			return
		}
		ok, why := true, ""
		for _, s := range nq {
			// the value stored derives from a load of currQueue
			var load ssa.Instruction
			Backward(s.(*ssa.Store).Val, func(v ssa.Value) bool {
				if u, isU := v.(*ssa.UnOp); isU && u.Op == token.MUL {
					if f := FieldOfAddr(u.X); f != nil && f.Name() == "currQueue" {
						load = u
						return false
					}
				}
				return true
			})
			if load == nil {
				ok, why = false, "the new nextQueue is not derived from currQueue"
				continue
			}
			for _, st := range cq {
				if st.Block() == load.Block() {
					li, si := -1, -1
					for i, in := range st.Block().Instrs {
						if in == load {
							li = i
						}
						if in == st {
							si = i
						}
					}
					if si < li {
						ok, why = false, "currQueue is overwritten before it is read for the new nextQueue: the two stages alias the same slice"
					}
				} else if st.Block().Dominates(load.Block()) {
					ok, why = false, "currQueue is overwritten before it is read for the new nextQueue: the two stages alias the same slice"
				}
			}
		}
		c.Check(ok, "swap-order", "(*http2.writeQueue).shift: nextQueue receives the old currQueue (read before currQueue is overwritten)", fn.Pos(), "", why)
	})

	// C17-2 (default limit re-applied on every SETTINGS frame): the fallback to defaultMaxConcurrentStreams
	// happens only for the first SETTINGS frame of the connection.
	ExtraClause("C17", "Also: maxConcurrentStreams is reset to the default only under !cc.seenSettings (first SETTINGS frame) and only when the frame carried no MAX_CONCURRENT_STREAMS.")
	RegisterExtra("C17", func(c *Ctx) {
		fn := "(*http2.clientConnReadLoop).processSettingsNoWrite"
		def := Stores("http2.ClientConn.maxConcurrentStreams").StoredIs("1000")
		if k, ok := c.P.ConstInt("http2.defaultMaxConcurrentStreams"); ok {
			def = Stores("http2.ClientConn.maxConcurrentStreams").StoredIs(fmt.Sprint(k))
		}
		c.Guard(fn, def, "!$r.cc.seenSettings")
	})

	// C27-2 (send size computed once per pass): every datagram's size limit is computed from the
	// anti-amplification allowance as it stands when that datagram is built.
	ExtraClause("C27", "Also: loss.maxSendSize() is re-evaluated for every datagram of maybeSend's loop (no iteration reuses a stale allowance).")
	RegisterExtra("C27", func(c *Ctx) {
		fn := "(*quic.Conn).maybeSend"
		c.Via(fn, Calls("(*quic.Endpoint).sendDatagram"), Calls("(*quic.packetWriter).reset"), Calls("(*quic.lossState).maxSendSize"))
		c.ArgFrom(fn, Calls("(*quic.packetWriter).reset"), 1, "loss.maxSendSize()", IsCallTo("(*quic.lossState).maxSendSize"))
	})

	// C29-2 (hand-written unlock with a condition that forgets "or closed"): the queue's gate is released only
	// through queue.unlock, which recomputes the condition (err != nil || len(q) > 0).
	ExtraClause("C29", "Also: inside the queue methods the gate is released only through queue.unlock (the one place that computes the set/unset condition).")
	RegisterExtra("C29", func(c *Ctx) {
		bad := ""
		n := 0
		for _, fn := range c.P.All {
			name := FnName(Outer(fn))
			if !strings.HasPrefix(name, "(*quic.queue[T]).") || name == "(*quic.queue[T]).unlock" {
				continue
			}
			for _, b := range fn.Blocks {
				for _, in := range b.Instrs {
					if ci, ok := in.(ssa.CallInstruction); ok {
						n++
						if CalleeName(ci.Common()) == "(*quic.gate).unlock" || CalleeName(ci.Common()) == "(*quic.gate).unlockFunc" {
							bad = name + " releases the gate directly at " + c.P.Pos(InstrPos(in))
						}
					}
				}
			}
		}
		if n == 0 {
			c.Undecided("single-release-point", "quic.queue: gate released only via queue.unlock", "no queue method found")
			return
		}
		c.Check(bad == "", "single-release-point", "quic.queue: gate released only via queue.unlock", token.NoPos, "", bad)
	})
}
