package props

import (
	"fmt"
	"go/token"
	"go/types"
	"sort"
	"strings"

	. "verif/sa/core"

	"golang.org/x/tools/go/ssa"
)

func init() {
	Register(&Property{
		ID:    "C41",
		Floor: 65,
		Clauses: "html parser containment: (*parser).parse defers, before any call, a closure that calls recover(), stores the named result and cannot re-panic; parse is called only from ParseWithOptions/ParseFragmentWithOptions and its result is tested; " +
			"the code of Parse/ParseFragment(+WithOptions) executed outside that frame (call-only closure of the four entry points, stopping at parse) is a fixed reviewed set of functions, makes dynamic calls only through ParseOption values " +
			"(whose closures in the package are trivial), reaches insertion-mode functions only as values, and has a reviewed panic-site inventory; insertion modes (parser.im, originalIM, templateStack) are invoked only in parseCurrentToken and parseForeignContent (itself called only from parseCurrentToken), which run only under parse; " +
			"Node.Parent/FirstChild/LastChild/PrevSibling/NextSibling are written only by InsertBefore/AppendChild/RemoveChild, which refuse attached / foreign children before any write and perform each of their link updates under the matching nil/identity test " +
			"(AppendChild's PrevSibling is the LastChild loaded before it is overwritten); Node.Type only receives the five tree node kinds (or a copy in clone); scopeMarker is only ever appended to a stack, never linked; " +
			"parse loop: every cycle passes Tokenizer.Next, Token() is stored in p.tok, Err() is consulted under Type==ErrorToken and its result used, the only non-nil return is under err!=nil && err!=io.EOF; " +
			"the open-element stack grows by append only in insertOpenElement, which panics above 512 (contained); the adoption-agency outer loop is a counted loop with a constant bound.",
		NotCovered: "termination of parseCurrentToken's `for !consumed` loop, of the adoption agency's inner loop and of the stack-scanning loops (no ranking argument); acyclicity and mutual consistency as semantic facts (only the three mutators' local shape is decided); " +
			"that InsertBefore's oldChild is a child of the receiver at every call site (fosterParent's fallback parent=oe[i-1] for a table without Parent would pass a non-child; whether that state is reachable is not decided); " +
			"that rendering a returned tree succeeds (void elements without children, doctype quoting); panics inside the recover frame are converted to errors, not excluded.",
		Run: c41,
	})
}

func c41(c *Ctx) {
	const P = "(*html.parser)."
	parse := P + "parse"
	entries := []string{"html.Parse", "html.ParseWithOptions", "html.ParseFragment", "html.ParseFragmentWithOptions"}

	// ---- A. the recover frame ------------------------------------------------------------------
	fnParse := c.MustFn(parse)
	if fnParse == nil {
		return
	}
	recs := HtmDeferredRecovers(fnParse)
	if c.Check(len(recs) == 1, "recover-frame", parse+": defers a closure that calls recover()", fnParse.Pos(), "", fmt.Sprintf("found %d deferred recover closures", len(recs))) {
		r := recs[0]
		c.Check(r.StoresNamedResult, "recover-frame", parse+": the recover closure stores the named result", r.Defer.Pos(), "", "a recovered panic would be swallowed and parse would return nil with a half-built tree")
		// no call precedes the defer; the closure itself has no panic and calls only fmt
		early := ""
		HtmEach(fnParse, func(in ssa.Instruction) {
			ci, ok := in.(ssa.CallInstruction)
			if !ok || in == ssa.Instruction(r.Defer) {
				return
			}
			if _, builtin := ci.Common().Value.(*ssa.Builtin); builtin {
				return
			}
			b, d := in.Block(), r.Defer.Block()
			dominated := d.Dominates(b) && d != b
			if d == b {
				for _, x := range b.Instrs {
					if x == ssa.Instruction(r.Defer) {
						dominated = true
						break
					}
					if x == in {
						break
					}
				}
			}
			if !dominated && fnParse.Recover != b {
				early = DescribeInstr(in) + " at " + c.P.Pos(in.Pos())
			}
		})
		c.Check(early == "", "recover-frame", parse+": the defer precedes every call", r.Defer.Pos(), "", "a call runs before the recover frame is installed: "+early)
		bad := ""
		HtmEach(r.Closure, func(in ssa.Instruction) {
			switch x := in.(type) {
			case *ssa.Panic:
				bad = "re-panics"
			case *ssa.Call:
				n := CalleeName(&x.Call)
				if n != "builtin:recover" && !strings.HasPrefix(n, "fmt.") && !strings.HasPrefix(n, "errors.") {
					bad = "calls " + n
				}
			}
		})
		c.Check(bad == "", "recover-frame", parse+": the recover closure only formats the error", r.Closure.Pos(), "", "the closure "+bad)
		c.Guard(FnName(r.Closure), Sel{Name: "store to the named result", F: func(p *Prog, fn *ssa.Function) []ssa.Instruction {
			var out []ssa.Instruction
			HtmEach(fn, func(in ssa.Instruction) {
				if st, ok := in.(*ssa.Store); ok {
					if _, fv := st.Addr.(*ssa.FreeVar); fv {
						out = append(out, in)
					}
				}
			})
			return out
		}}, "recover() != nil")
	}
	c.Callers(parse, "html.ParseWithOptions", "html.ParseFragmentWithOptions")
	for _, e := range entries[1:] {
		if e == "html.ParseFragment" {
			continue
		}
		c.ResultUsed(e, Calls(parse))
	}
	c.Callers(P+"parseCurrentToken", parse, P+"parseImpliedToken")
	c41DynamicIM(c)
	c.Callers("html.parseForeignContent", P+"parseCurrentToken")

	// ---- code outside the frame -----------------------------------------------------------------
	out := c41Outside(c, entries, parse)

	// ---- B. link ownership ------------------------------------------------------------------------
	mut := []string{"(*html.Node).InsertBefore", "(*html.Node).AppendChild", "(*html.Node).RemoveChild"}
	links := []string{"Parent", "FirstChild", "LastChild", "PrevSibling", "NextSibling"}
	var linkStores []Sel
	for _, f := range links {
		c.Writers("html.Node."+f, mut...)
		linkStores = append(linkStores, Stores("html.Node."+f))
	}
	anyLink := Union(linkStores...)
	for _, m := range mut[:2] {
		for _, f := range []string{"Parent", "PrevSibling", "NextSibling"} {
			c.Reject(m, anyLink, "$0."+f+" != nil")
		}
	}
	c.Reject(mut[2], anyLink, "$0.Parent != $r")
	at := func(field, addr string) Sel {
		return Stores("html.Node."+field).Where("at "+addr, func(in ssa.Instruction) bool {
			return Term(in.(*ssa.Store).Addr) == "&"+addr
		})
	}
	// AppendChild
	ac := mut[1]
	c.Has(ac, at("Parent", "$0.Parent").StoredIs("$r"))
	c.Has(ac, at("LastChild", "$r.LastChild").StoredIs("$0"))
	c.Has(ac, at("PrevSibling", "$0.PrevSibling").StoredIs("$r.LastChild"))
	c.Guard(ac, at("NextSibling", "$r.LastChild.NextSibling").StoredIs("$0"), "$r.LastChild != nil")
	c.Guard(ac, at("FirstChild", "$r.FirstChild").StoredIs("$0"), "$r.LastChild == nil")
	c.PassThroughIncl(ac, c.Edge("$r.LastChild != nil"), at("NextSibling", "$r.LastChild.NextSibling"))
	c.PassThroughIncl(ac, c.Edge("$r.LastChild == nil"), at("FirstChild", "$r.FirstChild"))
	c41OldLast(c, ac)
	// RemoveChild
	rc := mut[2]
	for _, f := range []string{"Parent", "PrevSibling", "NextSibling"} {
		c.PassThroughIncl(rc, c.Edge("$0.Parent == $r"), at(f, "$0."+f).StoredIs("nil"))
	}
	c.Guard(rc, at("FirstChild", "$r.FirstChild").StoredIs("$0.NextSibling"), "$r.FirstChild == $0")
	c.Guard(rc, at("LastChild", "$r.LastChild").StoredIs("$0.PrevSibling"), "$r.LastChild == $0")
	c.Guard(rc, at("PrevSibling", "$0.NextSibling.PrevSibling").StoredIs("$0.PrevSibling"), "$0.NextSibling != nil")
	c.Guard(rc, at("NextSibling", "$0.PrevSibling.NextSibling").StoredIs("$0.NextSibling"), "$0.PrevSibling != nil")
	c.PassThroughIncl(rc, c.Edge("$r.FirstChild == $0"), at("FirstChild", "$r.FirstChild"))
	c.PassThroughIncl(rc, c.Edge("$r.LastChild == $0"), at("LastChild", "$r.LastChild"))
	c.PassThroughIncl(rc, c.Edge("$0.NextSibling != nil"), at("PrevSibling", "$0.NextSibling.PrevSibling"))
	c.PassThroughIncl(rc, c.Edge("$0.PrevSibling != nil"), at("NextSibling", "$0.PrevSibling.NextSibling"))
	// the unlinking of c happens after its neighbours were read
	c.Before(rc, Union(at("PrevSibling", "$0.NextSibling.PrevSibling"), at("FirstChild", "$r.FirstChild"), c.Edge("$0.PrevSibling == nil"), c.Edge("$0.PrevSibling != nil")), at("PrevSibling", "$0.PrevSibling"))
	// InsertBefore
	ib := mut[0]
	prev, next := "φ($1.PrevSibling|$r.LastChild)", "φ($1|nil)"
	c.Has(ib, at("Parent", "$0.Parent").StoredIs("$r"))
	c.Has(ib, at("PrevSibling", "$0.PrevSibling").StoredIs(prev))
	c.Has(ib, at("NextSibling", "$0.NextSibling").StoredIs(next))
	c.Guard(ib, at("NextSibling", prev+".NextSibling").StoredIs("$0"), prev+" != nil")
	c.Guard(ib, at("FirstChild", "$r.FirstChild").StoredIs("$0"), prev+" == nil")
	c.Guard(ib, at("PrevSibling", next+".PrevSibling").StoredIs("$0"), next+" != nil")
	c.Guard(ib, at("LastChild", "$r.LastChild").StoredIs("$0"), next+" == nil")
	c.PassThroughIncl(ib, c.Edge(prev+" != nil"), at("NextSibling", prev+".NextSibling"))
	c.PassThroughIncl(ib, c.Edge(prev+" == nil"), at("FirstChild", "$r.FirstChild"))
	c.PassThroughIncl(ib, c.Edge(next+" != nil"), at("PrevSibling", next+".PrevSibling"))
	c.PassThroughIncl(ib, c.Edge(next+" == nil"), at("LastChild", "$r.LastChild"))

	// node kinds
	c41NodeTypes(c)
	c41ScopeMarker(c)

	// ---- C. the parse loop ----------------------------------------------------------------------------
	const Z = "(*html.Tokenizer)."
	c41EveryCyclePasses(c, fnParse, Z+"Next")
	c.StoredFrom(parse, Stores("html.parser.tok"), "Tokenizer.Token()", IsCallTo(Z+"Token"))
	c.Before(parse, Calls(Z+"Next"), Calls(Z+"Token"))
	c.Before(parse, Calls(Z+"Token"), Calls(P+"parseCurrentToken"))
	c.Guard(parse, Calls(Z+"Err"), "$r.tok.Type == @html.ErrorToken")
	c.ResultUsed(parse, Calls(Z+"Err"))
	c.PassThroughIncl(parse, c.Edge("$r.tok.Type == @html.ErrorToken"), Calls(Z+"Err"))
	c41ParseReturns(c, fnParse)

	// ---- D. bounds ------------------------------------------------------------------------------------------
	ioe := P + "insertOpenElement"
	c.Guard(ioe, Panics(), "len($r.oe) > 512")
	c.PassThroughIncl(ioe, c.Edge("len($r.oe) > 512"), Panics())
	c41OnlyAppend(c, ioe)
	c41CountedLoop(c, P+"inBodyEndTagFormatting", 8)

	// ---- inventory of the code outside the frame ------------------------------------------------------------------
	if len(out) > 0 {
		c.PanicInventory(out, out, map[string]Inv{
			"(*html.Node).AppendChild": {Sites: "panic=1", Why: "outside the frame only p.doc.AppendChild(root) with root freshly allocated (no parent, no siblings)"},
			"(*html.Node).RemoveChild": {Sites: "panic=1", Why: "outside the frame only parent.RemoveChild(c) for c on parent's own child list (loop over parent.FirstChild/NextSibling), so c.Parent == parent by the link-ownership obligations"},
			"(html/atom.Atom).String":  {Sites: "idx=1", Why: "explicit range test (C42)"},
			"(html/atom.Atom).string":  {Sites: "idx=1", Why: "table entries decode in range (C42)"},
			"html/atom.match":          {Sites: "idx=1", Why: "length equality established by Lookup (C42)"},
		})
	}
}

// c41DynamicIM: insertion-mode values are called only inside parseCurrentToken.
func c41DynamicIM(c *Ctx) {
	rule := "callers"
	construct := "calls of insertion-mode values (type insertionMode) ⊆ {(*html.parser).parseCurrentToken, html.parseForeignContent}"
	obj := c.P.Object("html.insertionMode")
	if obj == nil {
		c.Undecided(rule, construct, "type html.insertionMode not found")
		return
	}
	n := 0
	var bad []string
	for _, fn := range c.P.All {
		HtmEach(fn, func(in ssa.Instruction) {
			ci, ok := in.(ssa.CallInstruction)
			if !ok || ci.Common().IsInvoke() || ci.Common().StaticCallee() != nil {
				return
			}
			if _, builtin := ci.Common().Value.(*ssa.Builtin); builtin {
				return
			}
			if !types.Identical(ci.Common().Value.Type(), obj.Type()) {
				return
			}
			n++
			if o := FnName(Outer(fn)); o != "(*html.parser).parseCurrentToken" && o != "html.parseForeignContent" {
				bad = append(bad, FnName(fn)+" "+c.P.Pos(in.Pos()))
			}
		})
	}
	if n == 0 {
		c.Undecided(rule, construct, "no dynamic insertion-mode call found")
		return
	}
	c.Check(len(bad) == 0, rule, construct, token.NoPos, fmt.Sprintf("%d call(s)", n), "insertion mode invoked outside the token loop at "+strings.Join(bad, ", "))
}

// c41Outside computes the functions executed outside parse's recover frame and checks the set.
func c41Outside(c *Ctx, entries []string, parse string) []string {
	rule := "outside-frame"
	stop := c.P.Fn(parse)
	seen := map[*ssa.Function]bool{}
	var work []*ssa.Function
	for _, e := range entries {
		if fn := c.MustFn(e); fn != nil {
			seen[fn] = true
			work = append(work, fn)
		}
	}
	optType := c.P.Object("html.ParseOption")
	var dyn, valueRefs []string
	for len(work) > 0 {
		fn := work[len(work)-1]
		work = work[:len(work)-1]
		HtmEach(fn, func(in ssa.Instruction) {
			ci, ok := in.(ssa.CallInstruction)
			if !ok {
				return
			}
			cc := ci.Common()
			if sc := cc.StaticCallee(); sc != nil {
				if o := sc.Origin(); o != nil {
					sc = o
				}
				if sc == stop || seen[sc] {
					return
				}
				if _, inRepo := c.P.Funcs[FnName(sc)]; inRepo {
					seen[sc] = true
					work = append(work, sc)
				}
				return
			}
			if _, builtin := cc.Value.(*ssa.Builtin); builtin {
				return
			}
			if cc.IsInvoke() {
				dyn = append(dyn, fmt.Sprintf("%s: interface call .%s (%s)", FnName(fn), cc.Method.Name(), c.P.Pos(in.Pos())))
				return
			}
			if optType == nil || !types.Identical(cc.Value.Type(), optType.Type()) {
				dyn = append(dyn, fmt.Sprintf("%s: call of a %s value (%s)", FnName(fn), cc.Value.Type(), c.P.Pos(in.Pos())))
			}
		})
	}
	_ = valueRefs
	var names []string
	for fn := range seen {
		names = append(names, FnName(fn))
	}
	sort.Strings(names)
	allowed := map[string]bool{
		"html.Parse": true, "html.ParseWithOptions": true, "html.ParseFragment": true, "html.ParseFragmentWithOptions": true,
		"html.NewTokenizer": true, "html.NewTokenizerFragment": true,
		"(*html.Node).AppendChild": true, "(*html.Node).RemoveChild": true,
		"(*html.parser).resetInsertionMode": true, "(*html.nodeStack).top": true, "(*html.insertionModeStack).top": true, "(*html.nodeStack).index": true,
		"html/atom.Lookup": true, "html/atom.fnv": true, "html/atom.match": true, "(html/atom.Atom).string": true, "(html/atom.Atom).String": true,
	}
	var extra []string
	for _, n := range names {
		if !allowed[n] {
			extra = append(extra, n)
		}
	}
	c.Check(len(extra) == 0 && len(names) >= 8, rule, "functions run by Parse/ParseFragment outside parse's recover frame are the reviewed set", token.NoPos,
		fmt.Sprintf("%d functions: %s", len(names), strings.Join(names, ", ")), "parser code runs without the recover frame: "+strings.Join(extra, ", "))
	c.Check(len(dyn) == 0, rule, "outside the frame the only dynamic calls are ParseOption values", token.NoPos, "", strings.Join(dyn, "; "))
	// ParseOption closures defined in the package are trivial (no call, no panic site)
	if optType != nil {
		n := 0
		var bad []string
		for _, fn := range c.P.All {
			if fn.Parent() == nil || !types.Identical(fn.Signature, optType.Type().Underlying()) {
				continue
			}
			if pk := c.P.PkgOfFn(fn); pk == nil || Short(pk.PkgPath) != "html" {
				continue
			}
			// only closures returned as ParseOption: parent returns ParseOption
			res := Outer(fn).Signature.Results()
			if res.Len() != 1 || !types.Identical(res.At(0).Type(), optType.Type()) {
				continue
			}
			n++
			HtmEach(fn, func(in ssa.Instruction) {
				switch in.(type) {
				case ssa.CallInstruction, *ssa.Panic, *ssa.IndexAddr, *ssa.Index, *ssa.Slice, *ssa.TypeAssert:
					bad = append(bad, FnName(fn)+": "+DescribeInstr(in))
				}
			})
		}
		if n == 0 {
			c.Undecided(rule, "ParseOption closures are trivial", "no ParseOption closure found")
		} else {
			c.Check(len(bad) == 0, rule, "ParseOption closures are trivial (field stores only)", token.NoPos, fmt.Sprintf("%d closure(s)", n), strings.Join(bad, "; "))
		}
	}
	if len(extra) > 0 {
		return nil
	}
	return names
}

// c41OldLast: AppendChild links c.PrevSibling to the LastChild value loaded before LastChild is overwritten.
func c41OldLast(c *Ctx, ac string) {
	rule := "call-before"
	construct := ac + ": c.PrevSibling receives the LastChild loaded before n.LastChild = c"
	fn := c.MustFn(ac)
	if fn == nil {
		return
	}
	var stLast, stPrev *ssa.Store
	for _, in := range Stores("html.Node.LastChild").F(c.P, fn) {
		stLast = in.(*ssa.Store)
	}
	for _, in := range Stores("html.Node.PrevSibling").F(c.P, fn) {
		if Term(in.(*ssa.Store).Addr) == "&$0.PrevSibling" {
			stPrev = in.(*ssa.Store)
		}
	}
	if stLast == nil || stPrev == nil {
		c.Fail(rule, construct, fn.Pos(), "stores not found")
		return
	}
	load, ok := stPrev.Val.(*ssa.UnOp)
	good := ok && Term(load) == "$r.LastChild"
	if good {
		lb, sb := load.Block(), stLast.Block()
		if lb == sb {
			for _, x := range lb.Instrs {
				if x == ssa.Instruction(load) {
					break
				}
				if x == ssa.Instruction(stLast) {
					good = false
				}
			}
		} else {
			good = lb.Dominates(sb)
		}
	}
	c.Check(good, rule, construct, stPrev.Pos(), "", "c.PrevSibling would point at c itself (a sibling cycle)")
}

func c41NodeTypes(c *Ctx) {
	rule := "node-kinds"
	construct := "html.Node.Type only receives Text/Document/Element/Comment/Doctype (or a copy of another node's Type)"
	okVals := map[int64]bool{}
	for _, n := range []string{"TextNode", "DocumentNode", "ElementNode", "CommentNode", "DoctypeNode"} {
		if v, ok := c.P.ConstInt("html." + n); ok {
			okVals[v] = true
		}
	}
	if len(okVals) != 5 {
		c.Undecided(rule, construct, "NodeType constants not found")
		return
	}
	n := 0
	var bad []string
	for _, s := range c.P.HtmStoresUnder("html.Node") {
		if s.Path != "Type" {
			continue
		}
		n++
		if k, isConst := HtmConstInt(s.St.Val); isConst {
			if okVals[k] {
				continue
			}
			if s.Fn.Synthetic == "package initializer" {
				if g, ok := s.St.Addr.(*ssa.FieldAddr); ok {
					if gl, ok := g.X.(*ssa.Global); ok && gl.Name() == "scopeMarker" {
						continue
					}
				}
			}
			bad = append(bad, fmt.Sprintf("%s stores %d (%s)", s.Outer, k, c.P.Pos(s.St.Pos())))
			continue
		}
		if strings.HasSuffix(Term(s.St.Val), ".Type") {
			continue
		}
		bad = append(bad, fmt.Sprintf("%s stores %s (%s)", s.Outer, Term(s.St.Val), c.P.Pos(s.St.Pos())))
	}
	if n < 5 {
		c.Undecided(rule, construct, fmt.Sprintf("only %d stores to Node.Type found", n))
		return
	}
	c.Check(len(bad) == 0, rule, construct, token.NoPos, fmt.Sprintf("%d store(s)", n), strings.Join(bad, "; "))
}

func c41ScopeMarker(c *Ctx) {
	rule := "node-kinds"
	construct := "&scopeMarker is only ever stored into a slice element (append to a stack), never linked into a tree"
	n := 0
	var bad []string
	for _, fn := range c.P.All {
		if fn.Synthetic == "package initializer" {
			continue
		}
		HtmEach(fn, func(in ssa.Instruction) {
			for _, op := range in.Operands(nil) {
				g, ok := (*op).(*ssa.Global)
				if !ok || g.Name() != "scopeMarker" || g.Pkg == nil || Short(g.Pkg.Pkg.Path()) != "html" {
					continue
				}
				n++
				if st, ok := in.(*ssa.Store); ok && st.Val == ssa.Value(g) {
					if _, ok := st.Addr.(*ssa.IndexAddr); ok {
						continue
					}
				}
				if b, ok := in.(*ssa.BinOp); ok && (b.Op == token.EQL || b.Op == token.NEQ) {
					continue
				}
				bad = append(bad, FnName(fn)+" "+c.P.Pos(InstrPos(in)))
			}
		})
	}
	if n == 0 {
		c.Undecided(rule, construct, "no reference to scopeMarker")
		return
	}
	c.Check(len(bad) == 0, rule, construct, token.NoPos, fmt.Sprintf("%d reference(s)", n), "scopeMarker used as an ordinary node at "+strings.Join(bad, ", "))
}

// c41EveryCyclePasses: every cycle of fn's control-flow graph contains a call of callee.
func c41EveryCyclePasses(c *Ctx, fn *ssa.Function, callee string) {
	rule := "progress"
	construct := FnName(fn) + ": every loop iteration calls " + callee
	has := map[*ssa.BasicBlock]bool{}
	n := 0
	for _, in := range Calls(callee).F(c.P, fn) {
		has[in.Block()] = true
		n++
	}
	if n == 0 {
		c.Fail(rule, construct, fn.Pos(), "no such call")
		return
	}
	// cycle detection in the graph without the blocks that contain the call
	color := map[*ssa.BasicBlock]int{}
	var cyc *ssa.BasicBlock
	var dfs func(b *ssa.BasicBlock)
	dfs = func(b *ssa.BasicBlock) {
		color[b] = 1
		for _, s := range b.Succs {
			if has[s] {
				continue
			}
			if color[s] == 1 {
				cyc = s
			} else if color[s] == 0 {
				dfs(s)
			}
		}
		color[b] = 2
	}
	loops := false
	for _, b := range fn.Blocks {
		for _, s := range b.Succs {
			if s.Dominates(b) {
				loops = true
			}
		}
		if !has[b] && color[b] == 0 {
			dfs(b)
		}
	}
	if !loops {
		c.Fail(rule, construct, fn.Pos(), "the function has no loop at all")
		return
	}
	pos := fn.Pos()
	if cyc != nil && len(cyc.Instrs) > 0 {
		pos = InstrPos(cyc.Instrs[0])
	}
	c.Check(cyc == nil, rule, construct, pos, "", "a cycle of the token loop does not read a token (the same token would be parsed forever)")
}

// c41ParseReturns: past the Err() call parse returns only under err != nil && err != io.EOF (tests made after that call);
// every other return is dominated by the loop-exit test err == io.EOF.
func c41ParseReturns(c *Ctx, fn *ssa.Function) {
	rule := "loop-exit"
	construct := FnName(fn) + ": the loop is left only when err == io.EOF, or right after Err() with err != nil && err != io.EOF"
	var errBlk *ssa.BasicBlock
	for _, in := range Calls("(*html.Tokenizer).Err").F(c.P, fn) {
		errBlk = in.Block()
	}
	if errBlk == nil {
		c.Fail(rule, construct, fn.Pos(), "no call of Tokenizer.Err")
		return
	}
	var bad []string
	n := 0
	HtmEach(fn, func(in ssa.Instruction) {
		r, ok := in.(*ssa.Return)
		if !ok || in.Block() == fn.Recover {
			return
		}
		n++
		early := errBlk.Dominates(r.Block())
		eof, nonNil, notEOF := false, false, false
		for _, f := range FactsAtInstr(r) {
			fresh := errBlk.Dominates(f.If.Block())
			io := f.Atom.L.Coef["io.EOF"] != 0
			switch {
			case io && f.Atom.Kind == EQ && len(f.Atom.L.Coef) == 2 && !early:
				eof = true
			case io && f.Atom.Kind == NE && len(f.Atom.L.Coef) == 2 && fresh:
				notEOF = true
			case !io && f.Atom.Kind == NE && len(f.Atom.L.Coef) == 1 && f.Atom.L.K == 0 && fresh:
				nonNil = true
			}
		}
		if early && !(nonNil && notEOF) || !early && !eof {
			bad = append(bad, c.P.Pos(r.Pos()))
		}
	})
	if n < 2 {
		c.Undecided(rule, construct, fmt.Sprintf("%d return(s) found, expected the early error return and the final one", n))
		return
	}
	c.Check(len(bad) == 0, rule, construct, fn.Pos(), fmt.Sprintf("%d return(s)", n), "parse can stop without the tokenizer having reported a real error or EOF at "+strings.Join(bad, ", "))
}

// c41OnlyAppend: append to parser.oe happens only in insertOpenElement.
func c41OnlyAppend(c *Ctx, allowed string) {
	rule := "writers"
	construct := "append(p.oe, …) ⊆ {" + allowed + "}"
	n := 0
	var bad []string
	for _, fn := range c.P.All {
		HtmEach(fn, func(in ssa.Instruction) {
			call, ok := in.(*ssa.Call)
			if !ok || CalleeName(&call.Call) != "builtin:append" {
				return
			}
			u, ok := BaselineArgs(&call.Call)[0].(*ssa.UnOp)
			if !ok {
				return
			}
			path, root := HtmFieldPath(u.X)
			if len(path) != 1 || path[0] != "oe" || !strings.Contains(root.Type().String(), "html.parser") {
				return
			}
			n++
			if FnName(Outer(fn)) != allowed {
				bad = append(bad, FnName(fn)+" "+c.P.Pos(in.Pos()))
			}
		})
	}
	if n == 0 {
		c.Undecided(rule, construct, "no append to parser.oe found")
		return
	}
	c.Check(len(bad) == 0, rule, construct, token.NoPos, fmt.Sprintf("%d append(s)", n), "the open-element stack grows without the 512 limit at "+strings.Join(bad, ", "))
}

// c41CountedLoop: fn has a loop `for i := const; i < K; i++` with constant K <= max that encloses every other cycle through its header's body.
func c41CountedLoop(c *Ctx, name string, max int64) {
	rule := "bounded-loop"
	construct := fmt.Sprintf("%s: the outer loop is a counted loop with a constant bound (<= %d)", name, max)
	fn := c.MustFn(name)
	if fn == nil {
		return
	}
	best := int64(-1)
	HtmEach(fn, func(in ssa.Instruction) {
		ifi, ok := in.(*ssa.If)
		if !ok {
			return
		}
		b, ok := ifi.Cond.(*ssa.BinOp)
		if !ok || b.Op != token.LSS {
			return
		}
		k, isConst := HtmConstInt(b.Y)
		phi, isPhi := b.X.(*ssa.Phi)
		if !isConst || !isPhi || len(phi.Edges) != 2 {
			return
		}
		init, step := false, false
		for _, e := range phi.Edges {
			if _, ok := HtmConstInt(e); ok {
				init = true
			}
			if x, d, ok := HtmBin(e, token.ADD); ok && d == 1 && x == ssa.Value(phi) {
				step = true
			}
		}
		if !init || !step {
			return
		}
		// outermost: the header dominates every block that has a back edge
		outer := true
		for _, blk := range fn.Blocks {
			for _, s := range blk.Succs {
				if s.Dominates(blk) && !ifi.Block().Dominates(s) {
					outer = false
				}
			}
		}
		if outer {
			best = k
		}
	})
	c.Check(best > 0 && best <= max, rule, construct, fn.Pos(), fmt.Sprintf("bound %d", best), "no outermost counted loop with a constant bound (the adoption agency could run unboundedly)")
}
