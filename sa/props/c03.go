package props

import (
	"fmt"

	"golang.org/x/tools/go/ssa"

	. "verif/sa/core"
)

func init() {
	Register(&Property{
		ID:    "C03",
		Floor: 50,
		Clauses: "hpack decoder resumption discipline. (1) errNeedMore is produced only by readVarInt/readString and those are called only from the three field parsers (and readString). " +
			"(2) In parseFieldIndexed/parseFieldLiteral/parseDynamicTableSizeUpdate no caller-visible side effect (store through the receiver such as d.buf, any call outside a reviewed read-only set: dynTab.add, setMaxSize, callEmit, ...) " +
			"can be followed by a readVarInt/readString call or by the return of such a call's error; every such call's error is tested against nil before any side effect and the error branch reaches none. " +
			"(3) The read-only callees (readVarInt, readString, at, maxTableIndex, table len, decodeString, indexed, sensitive) contain no store through receiver/parameters/globals and only reviewed calls; parseHeaderFieldRepr only dispatches. " +
			"(4) Buffer protocol: the first fallible call reads d.buf, each later one reads the remainder returned by an earlier one, the only value stored to d.buf is the remainder of the last fallible call, and it is stored before callEmit / the nil return; d.buf is written nowhere else. " +
			"(5) Decoder.Write: p is used directly only when saveBuf is empty, otherwise p is appended to saveBuf and parsing restarts from the joined bytes; on errNeedMore the unparsed d.buf is saved and a nil error is the only non-ErrStringLength outcome; " +
			"errNeedMore never reaches the caller; firstField is cleared only after a result other than errNeedMore; saveBuf and firstField are touched only by Write/Close/NewDecoder.",
		NotCovered: "that the bytes re-parsed after resumption decode to the same values (follows from (2)-(4) only informally); the 'extra paranoia' length test in Write, whose outcome depends on chunk sizes if it ever fires (arithmetic: it cannot for well-formed limits, not decided here); " +
			"DESIGN's 'readVarInt/readString return the original slice on errNeedMore' is NOT required and not checked: readString returns the advanced slice on its second errNeedMore return today, which is harmless because (2) shows callers never commit a remainder on an error path; aliasing of d.buf with saveBuf's storage.",
		Run: c03,
	})
}

func c03(c *Ctx) {
	const H = "http2/hpack."
	const D = "(*http2/hpack.Decoder)."
	const DT = "(*http2/hpack.dynamicTable)."
	rv, rs := H+"readVarInt", D+"readString"
	idx, lit, upd := D+"parseFieldIndexed", D+"parseFieldLiteral", D+"parseDynamicTableSizeUpdate"
	write := D + "Write"
	bufF := "http2/hpack.Decoder.buf"

	// (1) sources of errNeedMore
	c.HxOnly("global-refs", "references to errNeedMore", c.P.HxGlobalRefs(H+"errNeedMore"), rv, rs, write, "http2/hpack.init")
	c.Callers(rv, idx, lit, upd, rs)
	c.Callers(rs, lit)
	c.Callers(D+"parseHeaderFieldRepr", write)
	c.Callers(idx, D+"parseHeaderFieldRepr")
	c.Callers(lit, D+"parseHeaderFieldRepr")
	c.Callers(upd, D+"parseHeaderFieldRepr")

	// (2) atomicity of the three parsers
	fallibleCalls := Calls(rv, rs)
	fallible := Union(fallibleCalls, HxErrReturnsOf(rv, rs))
	readOnly := []string{rv, rs, D + "at", D + "decodeString", "(http2/hpack.indexType).indexed", "(http2/hpack.indexType).sensitive", "errors.New", "pkg:log", "pkg:fmt"}
	effects := HxSideEffects(readOnly...)
	for _, f := range []string{idx, lit, upd} {
		c.NeverAfter(f, effects, fallible, false)
		c.NeverAfter(f, Stores(bufF), fallible, false)
		c03ErrChecked(c, f, effects, rv, rs)
		c03BufProtocol(c, f, bufF, rv, rs)
	}
	c.NeverAfter(idx, Calls(D+"callEmit"), fallible, false)
	c.NeverAfter(lit, Calls(D+"callEmit"), fallible, false)
	c.NeverAfter(lit, Calls(DT+"add"), fallible, false)
	c.NeverAfter(upd, Calls(DT+"setMaxSize"), fallible, false)
	// a nil result means the representation was consumed
	c.Before(idx, Stores(bufF), Calls(D+"callEmit"))
	c.Before(lit, Stores(bufF), Calls(D+"callEmit"))
	c.Before(upd, Stores(bufF), RetOK())

	// (3) read-only callees and the dispatcher
	lib := []string{"(*sync.Pool).Get", "(*sync.Pool).Put", "(*bytes.Buffer).Reset", "(*bytes.Buffer).String", H + "huffmanDecode"}
	tlen := "(*http2/hpack.headerFieldTable).len"
	c.HxNone(rv, HxSideEffects())
	c.HxNone(rs, HxSideEffects(rv))
	c.HxNone(D+"at", HxSideEffects(D+"maxTableIndex", tlen))
	c.HxNone(D+"maxTableIndex", HxSideEffects(tlen))
	c.HxNone(tlen, HxSideEffects())
	c.HxNone(D+"decodeString", HxSideEffects(lib...))
	c.HxNone("(http2/hpack.indexType).indexed", HxSideEffects())
	c.HxNone("(http2/hpack.indexType).sensitive", HxSideEffects())
	c.HxNone(D+"parseHeaderFieldRepr", HxSideEffects(idx, lit, upd, "errors.New"))

	// (4) d.buf ownership
	c.Writers(bufF, write, idx, lit, upd)

	// (5) Decoder.Write
	bw := "(*bytes.Buffer).Write"
	needMore := "parseHeaderFieldRepr($r) == http2/hpack.errNeedMore"
	c.Guard(write, Stores(bufF).StoredIs("$0"), "Len(&$r.saveBuf) == 0")
	c.Guard(write, Stores(bufF).StoredIs("Bytes(&$r.saveBuf)"), "Len(&$r.saveBuf) != 0")
	c.Before(write, Calls(bw).ArgIs(1, "$0"), Stores(bufF).StoredIs("Bytes(&$r.saveBuf)"))
	c.Count(write, Stores(bufF), 2, 2)
	c.HxPassTo(write, HxEntry(), Stores(bufF), Calls(D+"parseHeaderFieldRepr"), true)
	c.Guard(write, Calls(bw).ArgIs(1, "$r.buf"), needMore)
	c.HxPassTo(write, c.Edge(needMore), Calls(bw).ArgIs(1, "$r.buf"), RetOK(), true)
	c.NeverAfter(write, c.Edge(needMore), HxNonConstErrReturns(), true)
	c.NeverAfter(write, c.Edge(needMore), Calls(D+"parseHeaderFieldRepr"), true)
	c.Guard(write, Stores("http2/hpack.Decoder.firstField"), "parseHeaderFieldRepr($r) != http2/hpack.errNeedMore")
	c.Writers("http2/hpack.Decoder.firstField", write, D+"Close", H+"NewDecoder")
	c.Writers("http2/hpack.Decoder.saveBuf", write, D+"Close")
	c.NeverAfter(write, Calls("(*bytes.Buffer).Reset"), Calls(bw).ArgIs(1, "$0"), false)
}

// c03ErrChecked: for every readVarInt/readString call in fn the error result
// is compared with nil, the error branch reaches no side effect, and no side
// effect is reachable from the call without passing that comparison.
func c03ErrChecked(c *Ctx, fnName string, effects Sel, fallible ...string) {
	rule := "error-checked-before-effects"
	fn := c.MustFn(fnName)
	if fn == nil {
		return
	}
	eff := effects.F(c.P, fn)
	calls := Calls(fallible...).F(c.P, fn)
	if len(calls) == 0 || len(eff) == 0 {
		c.Undecided(rule, fnName, fmt.Sprintf("%d fallible call(s), %d side effect(s)", len(calls), len(eff)))
		return
	}
	for k, in := range calls {
		call := in.(*ssa.Call)
		construct := fmt.Sprintf("%s: fallible call %d (%s)", fnName, k+1, call.Call.StaticCallee().Name())
		var tests []ssa.Instruction
		bad := ""
		HxEachInstr(fn, func(x ssa.Instruction) {
			ifi, ok := x.(*ssa.If)
			if !ok {
				return
			}
			b, ok := ifi.Cond.(*ssa.BinOp)
			if !ok {
				return
			}
			var other ssa.Value
			if HxIsErrOf(b.X, fallible...) == call {
				other = b.Y
			} else if HxIsErrOf(b.Y, fallible...) == call {
				other = b.X
			} else {
				return
			}
			if k, ok := other.(*ssa.Const); !ok || k.Value != nil {
				return
			}
			a := CondAtom(ifi.Cond)
			errSucc := ifi.Block().Succs[0]
			if a.Kind == EQ {
				errSucc = ifi.Block().Succs[1]
			} else if a.Kind != NE {
				return
			}
			tests = append(tests, ifi)
			if t, reach := HxBlockReach(errSucc, eff, nil); reach {
				bad = fmt.Sprintf("the branch where the error of `%s` is non-nil reaches the side effect `%s`", DescribeInstr(call), DescribeInstr(t))
			}
		})
		switch {
		case len(tests) == 0:
			c.Fail(rule, construct, InstrPos(call), "the error result is never compared with nil")
		case bad != "":
			c.Fail(rule, construct, InstrPos(call), bad)
		default:
			if t, reach := HxReach(call, false, eff, tests); reach {
				c.Fail(rule, construct, InstrPos(t), fmt.Sprintf("side effect `%s` is reachable from `%s` without passing its error test", DescribeInstr(t), DescribeInstr(call)))
			} else {
				c.OK(rule, construct, fmt.Sprintf("%d test(s), %d side effect site(s)", len(tests), len(eff)))
			}
		}
	}
}

// c03BufProtocol: exactly one fallible call reads d.buf, every other one reads
// a remainder (#1 result) of an earlier fallible call, and what is stored to
// d.buf is the remainder of a fallible call after which no other fallible call
// can run.
func c03BufProtocol(c *Ctx, fnName, bufField string, fallible ...string) {
	fn := c.MustFn(fnName)
	if fn == nil {
		return
	}
	c.Count(fnName, Calls(fallible...).ArgIs(1, "$r.buf"), 1, 1)
	calls := Calls(fallible...).F(c.P, fn)
	remainderOf := func(v ssa.Value) *ssa.Call {
		ex, ok := v.(*ssa.Extract)
		if !ok || ex.Index != 1 {
			return nil
		}
		for _, in := range calls {
			if ex.Tuple == in.(ssa.Value) {
				return in.(*ssa.Call)
			}
		}
		return nil
	}
	var leaves func(v ssa.Value, seen map[ssa.Value]bool, f func(ssa.Value))
	leaves = func(v ssa.Value, seen map[ssa.Value]bool, f func(ssa.Value)) {
		if seen[v] {
			return
		}
		seen[v] = true
		if ph, ok := v.(*ssa.Phi); ok {
			for _, e := range ph.Edges {
				leaves(e, seen, f)
			}
			return
		}
		f(v)
	}
	rule := "remainder-chain"
	construct := fnName + ": input of each fallible call"
	bad := ""
	var badPos ssa.Instruction
	for _, in := range calls {
		arg := BaselineArgs(&in.(*ssa.Call).Call)[1]
		if Term(arg) == "$r.buf" {
			continue
		}
		leaves(arg, map[ssa.Value]bool{}, func(v ssa.Value) {
			if remainderOf(v) == nil && bad == "" {
				bad, badPos = fmt.Sprintf("`%s` reads `%s`, which is neither d.buf nor the remainder returned by a fallible call", DescribeInstr(in), Term(v)), in
			}
		})
	}
	if bad != "" {
		c.Fail(rule, construct, InstrPos(badPos), bad)
	} else {
		c.OK(rule, construct, fmt.Sprintf("%d call(s)", len(calls)))
	}
	rule = "commit-last-remainder"
	construct = fnName + ": value stored to d.buf"
	stores := Stores(bufField).F(c.P, fn)
	if len(stores) == 0 {
		c.Undecided(rule, construct, "no store to d.buf")
		return
	}
	for _, in := range stores {
		st := in.(*ssa.Store)
		src := remainderOf(st.Val)
		if src == nil {
			c.Fail(rule, construct, InstrPos(in), fmt.Sprintf("`%s` is not the remainder result of a readVarInt/readString call", Term(st.Val)))
			return
		}
		if t, reach := HxReach(src, false, calls, nil); reach {
			c.Fail(rule, construct, InstrPos(in), fmt.Sprintf("the stored remainder comes from `%s` but `%s` consumes more input after it", DescribeInstr(src), DescribeInstr(t)))
			return
		}
	}
	c.OK(rule, construct, fmt.Sprintf("%d store(s)", len(stores)))
}
