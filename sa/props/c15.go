package props

import (
	"fmt"
	"go/ast"
	"go/types"
	"strings"

	. "verif/sa/core"

	"golang.org/x/tools/go/ssa"
)

func init() {
	Register(&Property{
		ID:    "C15",
		Floor: 95,
		Clauses: "stream.state is written only by newStream/endStream/wroteFrame/closeStream and stateClosed only by closeStream, which refuses idle/closed streams, removes the stream from sc.streams, settles the stream counters and tells the scheduler; " +
			"received RST_STREAM on a live stream, a written RST_STREAM/handler-panic reset and a written END_STREAM on a half-closed-remote stream all reach closeStream, a written END_STREAM on an open stream sets half-closed-local; " +
			"writeFrame does not hand a request to the scheduler when its stream is closed and the request is not a reset (flag provenance), startFrameWrite never reaches the wire for a closed stream nor, on a half-closed-local stream, for anything but RST_STREAM/panic-reset/WINDOW_UPDATE; " +
			"handler concurrency: runHandler is started only at four reviewed go sites, each preceded by curHandlers++, the two client-driven sites only under curHandlers < advMaxStreams, the push site only under pushEnabled and curPushedStreams < clientMaxStreams, " +
			"handlerDone decrements once and is the serve loop's reaction to the handler's deferred message, the unstarted-handler queue is bounded by 4*advMaxStreams, processHeaders refuses a new stream when curClientStreams+1 > advMaxStreams before creating it, " +
			"advMaxStreams is fixed at connection setup and is the value advertised in the initial SETTINGS; " +
			"PING: non-ACK on stream 0 always reaches writeFrame with a writePingAck carrying the received frame whose writer sends ack=true with that frame's data, the ACK branch and the bad-stream branch never write; " +
			"SETTINGS: every successfully applied non-ACK frame adds one to the pending-acknowledgement counter and wakes the scheduler, scheduleFrameWrite turns each pending unit into one writeSettingsAck frame (decrement under counter > 0), ACK frames set nothing; " +
			"request validation: the real handler is scheduled only when the header block was not truncated and checkValidHTTP2RequestHeaders returned nil, that function rejects every field of the connection-specific table {Connection, Keep-Alive, Proxy-Connection, Transfer-Encoding, Upgrade} and any TE other than trailers, " +
			"newWriterAndRequest returns a stream error before a request object exists for missing :method/:path, bad :scheme and malformed CONNECT.",
		NotCovered: "the global ordering 'no HEADERS/DATA after END_STREAM/RST_STREAM' across the asynchronous write goroutine (a fact about histories: only the state writers, the closed-stream filter and the panics guarding it are decided); " +
			"PING handling while in GOAWAY; " +
			"field-name/value syntax checks (done by the frame reader, C07); the h2c upgrade request, which starts its handler without the concurrency guard by design.",
		Run: c15,
	})
}

func c15(c *Ctx) {
	const (
		sc     = "(*http2.serverConn)."
		state  = "http2.stream.state"
		run    = sc + "runHandler"
		incH   = "$r.curHandlers = ($r.curHandlers+1)"
		pushCb = sc + "startPush$1"
	)

	// ---- stream.state ------------------------------------------------------------
	c.Writers(state, sc+"newStream", "(*http2.stream).endStream", sc+"wroteFrame", sc+"closeStream")
	constWriters(c, state, "4", sc+"closeStream")
	cs := sc + "closeStream"
	c.Guard(cs, Stores(state), "$0.state != 0", "$0.state != 4")
	c.Has(cs, Stores(state).StoredIs("4"))
	c.PassThrough(cs, Stores(state), Calls("builtin:delete").ArgIs(0, "$r.streams").ArgIs(1, "$0.id"))
	c.PassThrough(cs, Stores(state), Calls(".CloseStream"))
	c.Has(cs, Calls(".CloseStream").ArgIs(0, "$0.id"))
	c.Writers("http2.serverConn.curClientStreams", sc+"newStream", cs)
	c.Guard(cs, Stores("http2.serverConn.curClientStreams"), "!isPushed($0)")
	c.PassThroughIncl(cs, c.Edge("!isPushed($0)"), StoreAs("$r.curClientStreams = ($r.curClientStreams-1)"))
	c.Count(sc+"newStream", Stores("http2.serverConn.curClientStreams"), 1, 1)
	// who closes
	c.Callers(cs, sc+"closeAllStreamsOnConnClose", sc+"processResetStream", sc+"wroteFrame")
	prs := sc + "processResetStream"
	c.PassThroughIncl(prs, c.Edge("state($r,$0.FrameHeader.StreamID)#1 != nil"), Calls(cs).ArgIs(1, "state($r,$0.FrameHeader.StreamID)#1"))
	wf := sc + "wroteFrame"
	c.Guard(wf, Stores(state), "writeEndsStream($0.wr.write)", "$0.wr.stream.state == 1")
	c.Has(wf, Stores(state).StoredIs("2"))
	c.PassThroughIncl(wf, c.Edge("$0.wr.stream.state == 1"), Stores(state).StoredIs("2"))
	c.PassThroughIncl(wf, c.Edge("$0.wr.stream.state == 3"), Calls(cs).ArgIs(1, "$0.wr.stream"))
	c.PassThroughIncl(wf, c.Edge("$r.streams[$0.wr.write.(http2.StreamError)#0.StreamID]#1"), Calls(cs))
	c.PassThroughIncl(wf, c.Edge("$0.wr.write.(http2.handlerPanicRST)#1"), Calls(cs).ArgIs(1, "$0.wr.stream"))
	c.Has(wf, Calls("http2.writeEndsStream").ArgIs(0, "$0.wr.write"))
	wes := "http2.writeEndsStream"
	c.Has(wes, RetTerm(0, "$0.(*http2.writeData)#0.endStream"))
	c.Has(wes, RetTerm(0, "$0.(*http2.writeResHeaders)#0.endStream"))
	c.Has("(*http2.stream).endStream", Stores(state).StoredIs("3"))
	// resets queued by the server mark the stream so that later client frames are ignored
	c.Writers("http2.stream.resetQueued", sc+"resetStream")
	c.Has(sc+"resetStream", Stores("http2.stream.resetQueued").StoredIs("true"))

	// ---- closed-stream write filter -------------------------------------------------
	closedFilter(c, sc+"writeFrame")
	sfw := sc + "startFrameWrite"
	wire := Union(Calls(".writeFrame"), Calls("(*http2.Framer).startWriteDataPadded"), Gos(sc+"writeFrameAsync"))
	c.Reject(sfw, wire, "$0.stream != nil", "$0.stream.state != 2", "$0.stream.state == 4")
	c.Reject(sfw, wire, "$0.stream != nil", "$0.stream.state == 2", "!$0.write.(http2.StreamError)#1", "!$0.write.(http2.handlerPanicRST)#1", "!$0.write.(http2.writeWindowUpdate)#1")
	c.Reject(sfw, wire, "$r.writingFrame")

	// ---- handler concurrency --------------------------------------------------------
	c.Callers(run, sc+"scheduleHandler", sc+"handlerDone", sc+"upgradeRequest", sc+"startPush")
	for _, fn := range []string{sc + "scheduleHandler", sc + "handlerDone", sc + "upgradeRequest"} {
		c.Before(fn, StoreAs(incH), Gos(run))
		c.Count(fn, Gos(run), 1, 1)
	}
	c.Before(pushCb, StoreAs("^sc.curHandlers = (^sc.curHandlers+1)"), Gos(run))
	c.Count(pushCb, Gos(run), 1, 1)
	c.Guard(sc+"scheduleHandler", Gos(run), "$r.curHandlers < $r.advMaxStreams")
	c.Guard(sc+"handlerDone", Gos(run), "$r.curHandlers < $r.advMaxStreams")
	c.Count(sc+"scheduleHandler", StoreAs(incH), 1, 1)
	c.Count(sc+"handlerDone", StoreAs(incH), 1, 1)
	c.Guard(sc+"handlerDone", StoreAs(incH), "$r.curHandlers < $r.advMaxStreams")
	c.Reject(pushCb, Gos(run), "!^sc.pushEnabled")
	c.Reject(pushCb, Gos(run), "^sc.pushEnabled", "^sc.curPushedStreams+1 > ^sc.clientMaxStreams")
	c.Writers("http2.serverConn.curHandlers", sc+"scheduleHandler", sc+"handlerDone", sc+"upgradeRequest", sc+"startPush")
	c.Count(sc+"handlerDone", StoreAs("$r.curHandlers = ($r.curHandlers-1)"), 1, 1)
	c.Before(sc+"handlerDone", StoreAs("$r.curHandlers = ($r.curHandlers-1)"), Gos(run))
	c.Callers(sc+"handlerDone", sc+"serve")
	c.Count(sc+"serve", Calls(sc+"handlerDone"), 1, 1)
	c.Has(run, Defers(sc+"sendServeMsg").ArgIs(1, "http2.handlerDoneMsg"))
	c.Count(run, Defers(sc+"sendServeMsg"), 1, 1)
	c.Callers(sc+"scheduleHandler", sc+"processHeaders")
	c.Callers(sc+"upgradeRequest", "(*http2.Server).serveConn")
	// queue of not yet started handlers
	c.Reject(sc+"scheduleHandler", StoresTo("$r.unstartedHandlers"), "$r.curHandlers >= $r.advMaxStreams", "len($r.unstartedHandlers) > 4*$r.advMaxStreams")
	c.NeverAfter(sc+"scheduleHandler", c.Edge("len($r.unstartedHandlers) > 4*$r.advMaxStreams"), RetOK(), true)
	c.Guard(sc+"scheduleHandler", StoresTo("$r.unstartedHandlers"), "$r.curHandlers >= $r.advMaxStreams")
	// stream admission
	ph := sc + "processHeaders"
	c.NeverAfter(ph, c.Edge("$r.curClientStreams+1 > $r.advMaxStreams"), Union(Calls(sc+"newStream"), Calls(sc+"scheduleHandler"), RetOK()), true)
	c.Guard(ph, Calls(sc+"newStream"), "$r.curClientStreams+1 <= $r.advMaxStreams", "$r.streams[$0.HeadersFrame.FrameHeader.StreamID] == nil", "$0.HeadersFrame.FrameHeader.StreamID > $r.maxClientStreamID")
	c.Count(ph, Calls(sc+"newStream"), 1, 1)
	c.Callers(sc+"newStream", ph, sc+"startPush", sc+"upgradeRequest")
	c.Writers("http2.serverConn.advMaxStreams", "(*http2.Server).serveConn")
	advertised(c, sc+"serve")

	// ---- PING ---------------------------------------------------------------------------
	pp := sc + "processPing"
	wfr := Calls(sc + "writeFrame")
	c.PassThroughIncl(pp, c.Edge("$0.FrameHeader.StreamID == 0"), wfr)
	c.Guard(pp, wfr, "!IsAck($0)", "$0.FrameHeader.StreamID == 0")
	c.NeverAfter(pp, c.Edge("IsAck($0)"), wfr, true)
	c.NeverAfter(pp, c.Edge("$0.FrameHeader.StreamID != 0"), Union(wfr, RetOK()), true)
	c.Has(pp, Stores("http2.writePingAck.pf").StoredIs("$0"))
	litWriteType(c, pp, sc+"writeFrame", "http2.writePingAck")
	c.Has("(http2.writePingAck).writeFrame", Calls("(*http2.Framer).WritePing").ArgIs(1, "true").ArgIs(2, "$r.pf.Data"))
	c.Callers(pp, sc+"processFrame")

	// ---- SETTINGS -------------------------------------------------------------------------
	ps := sc + "processSettings"
	flag := "http2.serverConn.needToSendSettingsAck"
	applied := "ForeachSetting($0,closure:processSetting$bound) == nil"
	// every applied SETTINGS frame adds one pending acknowledgement (a counter, not a flag: two frames
	// processed while a write is in flight need two ACKs — fixed in /repo by f4dfd6a)
	c.PassThroughIncl(ps, c.Edge(applied), Stores(flag).StoredIs("($r.needToSendSettingsAck+1)"))
	c.PassThroughIncl(ps, c.Edge(applied), Calls(sc+"scheduleFrameWrite"))
	c.NeverAfter(ps, c.Edge("IsAck($0)"), Union(Stores(flag), Calls("(*http2.SettingsFrame).ForeachSetting")), true)
	c.Guard(ps, Calls("(*http2.SettingsFrame).ForeachSetting"), "!IsAck($0)")
	c.Writers(flag, ps, sc+"scheduleFrameWrite")
	sched := sc + "scheduleFrameWrite"
	c.Guard(sched, Stores(flag), "$r.needToSendSettingsAck > 0")
	c.Has(sched, Stores(flag).StoredIs("($r.needToSendSettingsAck-1)"))
	c.Count(sched, Stores(flag), 1, 1)
	c.PassThroughIncl(sched, c.Edge("$r.needToSendSettingsAck > 0"), Calls(sc+"startFrameWrite"))
	c.Has(sched, Stores("http2.FrameWriteRequest.write").StoredIs("zero(http2.writeSettingsAck)"))
	c.Has("(http2.writeSettingsAck).writeFrame", Calls("(*http2.Framer).WriteSettingsAck"))
	c.Callers(ps, sc+"processFrame")
	// ---- request validation -----------------------------------------------------------------
	realHandlerGuard(c, ph, sc+"scheduleHandler")
	c.Callers("http2.checkValidHTTP2RequestHeaders", ph, "(*http2.responseWriter).Push")
	cv := "http2.checkValidHTTP2RequestHeaders"
	c.NeverAfter(cv, c.Edge("$0[http2.connHeaders[(φrangeindex+1)]]#1"), RetOK(), true)
	c.NeverAfter(cv, c.Edge("len($0[\"Te\"]) > 1"), RetOK(), true)
	c.NeverAfter(cv, c.Edge("\"\" != $0[\"Te\"][0]"), RetOK(), true)
	c.HasBranch(cv, "\"trailers\" != $0[\"Te\"][0]")
	stringTable(c, "http2.connHeaders", "Connection", "Keep-Alive", "Proxy-Connection", "Transfer-Encoding", "Upgrade")
	nwr := sc + "newWriterAndRequest"
	mk := Union(Calls(sc+"newWriterAndRequestNoBody"), RetOK())
	c.Reject(nwr, mk, `"CONNECT" != %rp.Method`, `"" == %rp.Method`)
	c.Reject(nwr, mk, `"CONNECT" != %rp.Method`, `"" != %rp.Method`, `"" == %rp.Path`)
	c.Reject(nwr, mk, `"CONNECT" != %rp.Method`, `"" != %rp.Method`, `"" != %rp.Path`, `"https" != %rp.Scheme`, `"http" != %rp.Scheme`)
	c.Reject(nwr, mk, `"CONNECT" == %rp.Method`, `"" == %rp.Protocol`, `"" != %rp.Path`)
	c.Reject(nwr, mk, `"CONNECT" == %rp.Method`, `"" == %rp.Protocol`, `"" == %rp.Path`, `"" != %rp.Scheme`)
	c.Reject(nwr, mk, `"CONNECT" == %rp.Method`, `"" == %rp.Protocol`, `"" == %rp.Path`, `"" == %rp.Scheme`, `"" == %rp.Authority`)
	c.Has(nwr, StoreAs(`%rp.Method = PseudoValue($1,"method")`))
	c.Has(nwr, StoreAs(`%rp.Path = PseudoValue($1,"path")`))
	c.Has(nwr, StoreAs(`%rp.Scheme = PseudoValue($1,"scheme")`))
	c.Has(nwr, StoreAs(`%rp.Authority = PseudoValue($1,"authority")`))
	c.NeverAfter(ph, c.Edge("newWriterAndRequest($r,newStream($r,$0.HeadersFrame.FrameHeader.StreamID,0,φ(1|3),φ(defaultRFC9218Priority(φ(!$r.hasIntermediary|false))|rfc9218Priority($0,$r.priorityAware)#0)),$0)#2 != nil"),
		Union(Calls(sc+"scheduleHandler"), RetOK()), true)
}

// constWriters: the constant val is stored into field only in the allowed outer functions.
func constWriters(c *Ctx, field, val string, allowed ...string) {
	rule := "writers"
	construct := fmt.Sprintf("stores of %s into %s ⊆ {%s}", val, field, strings.Join(allowed, ", "))
	ws, err := c.P.FieldWriters(field)
	if err != nil {
		c.Undecided(rule, construct, err.Error())
		return
	}
	allow := map[string]bool{}
	for _, a := range allowed {
		allow[a] = true
	}
	n, ok := 0, true
	for _, w := range ws {
		st, isSt := w.In.(*ssa.Store)
		if !isSt || w.Kind != "store" {
			continue
		}
		if _, isConst := st.Val.(*ssa.Const); isConst && Term(st.Val) != val {
			continue
		}
		// the constant itself, or a non-constant value that could be it
		if Term(st.Val) == val {
			n++
		}
		if !allow[w.Fn] && Term(st.Val) == val {
			ok = false
			c.Fail(rule, construct, InstrPos(w.In), "stored in "+w.Fn)
		}
	}
	if n == 0 {
		c.Undecided(rule, construct, "no such store found")
		return
	}
	if ok {
		c.OK(rule, construct, fmt.Sprintf("%d store(s)", n))
	}
}

// closedFilter: in writeFrame the scheduler Push is guarded by the negation of
// a flag; on the edge where the request's stream is closed and the request is
// not a StreamError the flag is the constant true, and nothing resets it.
func closedFilter(c *Ctx, fnName string) {
	rule := "closed-stream-filter"
	construct := fnName + ": no Push when the stream is closed and the request is not a reset"
	fn := c.MustFn(fnName)
	if fn == nil {
		return
	}
	pushes := Calls(".Push").F(c.P, fn)
	if len(pushes) != 1 {
		c.Undecided(rule, construct, fmt.Sprintf("%d Push calls", len(pushes)))
		return
	}
	var flag *ssa.Phi
	for _, f := range FactsAtInstr(pushes[0]) {
		if f.Atom.Kind != FALS {
			continue
		}
		if ph, ok := f.If.Cond.(*ssa.Phi); ok {
			flag = ph
		}
	}
	if flag == nil {
		c.Fail(rule, construct, InstrPos(pushes[0]), "the Push is not guarded by the negation of a merged flag")
		return
	}
	want := []string{"StreamID($0) != 0", "state($r,StreamID($0))#0 == 4", "!$0.write.(http2.StreamError)#1"}
	var atoms []Atom
	for _, w := range want {
		a, err := c.P.ParseAtom(w)
		if err != nil {
			c.Undecided(rule, construct, err.Error())
			return
		}
		atoms = append(atoms, a)
	}
	covered, bad := 0, ""
	seen := map[*ssa.Phi]bool{}
	var walk func(ph *ssa.Phi)
	walk = func(ph *ssa.Phi) {
		if seen[ph] {
			return
		}
		seen[ph] = true
		for i, e := range ph.Edges {
			pred := ph.Block().Preds[i]
			switch x := e.(type) {
			case *ssa.Phi:
				walk(x)
			case *ssa.Const:
				all := true
				fs := EdgeFacts_h2server(pred, ph.Block())
				for _, a := range atoms {
					hit := false
					for _, f := range fs {
						if SameAtom(f.Atom, a) {
							hit = true
						}
					}
					all = all && hit
				}
				if all {
					if Term(x) == "true" {
						covered++
					} else {
						bad = "the flag is " + Term(x) + " on the edge where the stream is closed and the request is not a reset"
					}
				}
			default:
				bad = "the flag has a non-constant input `" + Term(e) + "`"
			}
		}
	}
	walk(flag)
	if bad != "" {
		c.Fail(rule, construct, InstrPos(pushes[0]), bad)
		return
	}
	if covered == 0 {
		c.Fail(rule, construct, InstrPos(pushes[0]), "no input of the flag is set to true under {"+strings.Join(want, " ; ")+"}")
		return
	}
	c.OK(rule, construct, fmt.Sprintf("flag true on %d edge(s) under closed && !reset; Push under !flag", covered))
}

// realHandlerGuard: the handler argument of scheduleHandler is sc.handler.ServeHTTP
// only on edges where the frame was not truncated and the header check returned nil.
func realHandlerGuard(c *Ctx, fnName, callee string) {
	rule := "handler-provenance"
	construct := fnName + ": ServeHTTP scheduled only for complete, valid header blocks"
	fn := c.MustFn(fnName)
	if fn == nil {
		return
	}
	sites := Calls(callee).F(c.P, fn)
	if len(sites) != 1 {
		c.Undecided(rule, construct, fmt.Sprintf("%d scheduleHandler calls", len(sites)))
		return
	}
	args := BaselineArgs(&sites[0].(*ssa.Call).Call)
	h := args[len(args)-1]
	ph, ok := h.(*ssa.Phi)
	if !ok {
		c.Fail(rule, construct, InstrPos(sites[0]), "handler argument `"+Term(h)+"` is not chosen per validation outcome")
		return
	}
	notTrunc, _ := c.P.ParseAtom("!$0.Truncated")
	real, other := 0, 0
	for i, e := range ph.Edges {
		t := Term(e)
		if !strings.Contains(t, "ServeHTTP") {
			other++
			continue
		}
		real++
		fs := EdgeFacts_h2server(ph.Block().Preds[i], ph.Block())
		okT, okV := false, false
		for _, f := range fs {
			if SameAtom(f.Atom, notTrunc) {
				okT = true
			}
			if f.Atom.Kind == EQ && strings.HasPrefix(f.Atom.L.String(), "checkValidHTTP2RequestHeaders(") {
				okV = true
			}
		}
		if !okT || !okV {
			c.Fail(rule, construct, InstrPos(sites[0]), fmt.Sprintf("the real handler is selected on an edge without both facts (not truncated=%v, header check nil=%v)", okT, okV))
			return
		}
	}
	if real == 0 || other < 2 {
		c.Fail(rule, construct, InstrPos(sites[0]), fmt.Sprintf("handler alternatives: %d real, %d substitute (expected the real handler and two error handlers)", real, other))
		return
	}
	c.OK(rule, construct, fmt.Sprintf("%d real, %d substitute handler input(s)", real, other))
}

// litWriteType: every request literal passed to callee in fnName has a write of the named type.
func litWriteType(c *Ctx, fnName, callee, typ string) {
	rule := "literal-type"
	construct := fmt.Sprintf("%s: request passed to %s carries a %s", fnName, callee, typ)
	fn := c.MustFn(fnName)
	if fn == nil {
		return
	}
	n := 0
	for _, in := range Stores("http2.FrameWriteRequest.write").F(c.P, fn) {
		st := in.(*ssa.Store)
		t := st.Val.Type()
		if mi, ok := st.Val.(*ssa.MakeInterface); ok {
			t = mi.X.Type()
		}
		n++
		if Short(types.TypeString(t, nil)) != typ {
			c.Fail(rule, construct, InstrPos(in), "write is a "+Short(types.TypeString(t, nil)))
			return
		}
	}
	if n == 0 {
		c.Undecided(rule, construct, "no request literal found")
		return
	}
	c.OK(rule, construct, fmt.Sprintf("%d literal(s)", n))
}

// stringTable: the package-level []string variable has exactly these elements.
func stringTable(c *Ctx, name string, want ...string) {
	rule := "table"
	construct := name + " == {" + strings.Join(want, ", ") + "}"
	e, pk := c.P.VarDecl(name)
	if e == nil {
		c.Undecided(rule, construct, "variable not found")
		return
	}
	var got []string
	for _, el := range Elts(e) {
		_, v := KV(el)
		s, ok := StrOf(pk, v)
		if !ok {
			c.Undecided(rule, construct, "non-constant element")
			return
		}
		got = append(got, s)
	}
	missing := []string{}
	have := map[string]bool{}
	for _, g := range got {
		have[g] = true
	}
	for _, w := range want {
		if !have[w] {
			missing = append(missing, w)
		}
	}
	c.Check(len(missing) == 0, rule, construct, e.Pos(), fmt.Sprintf("%d entries", len(got)), "missing connection-specific header(s): "+strings.Join(missing, ", "))
}

// advertised: the initial SETTINGS literal in serve pairs SettingMaxConcurrentStreams with sc.advMaxStreams.
func advertised(c *Ctx, fnName string) {
	rule := "advertised-value"
	construct := fnName + ": SETTINGS_MAX_CONCURRENT_STREAMS advertises sc.advMaxStreams"
	fn := c.MustFn(fnName)
	if fn == nil || fn.Syntax() == nil {
		c.Undecided(rule, construct, "no syntax")
		return
	}
	pk := c.P.PkgOfFn(fn)
	found, good := false, false
	ast.Inspect(fn.Syntax(), func(n ast.Node) bool {
		cl, ok := n.(*ast.CompositeLit)
		if !ok || len(cl.Elts) != 2 {
			return true
		}
		id, ok := cl.Elts[0].(*ast.Ident)
		if !ok {
			return true
		}
		k, ok := pk.TypesInfo.Uses[id].(*types.Const)
		if !ok || k.Name() != "SettingMaxConcurrentStreams" {
			return true
		}
		found = true
		if sel, ok := cl.Elts[1].(*ast.SelectorExpr); ok && sel.Sel.Name == "advMaxStreams" {
			good = true
		}
		return true
	})
	if !found {
		c.Undecided(rule, construct, "no {SettingMaxConcurrentStreams, …} literal in serve")
		return
	}
	c.Check(good, rule, construct, fn.Pos(), "", "the advertised limit is not the advMaxStreams field the handler guards compare against")
}
