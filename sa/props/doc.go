// Package props holds one file per property: the rule instances.
package props
