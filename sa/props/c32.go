package props

import (
	"fmt"
	"go/types"

	. "verif/sa/core"

	"golang.org/x/tools/go/ssa"
)

func init() {
	Register(&Property{
		ID:    "C32",
		Floor: 65,
		Clauses: "send side: in appendOutFramesLocked the outreset.isSet() test dominates every appendStreamFrame call and its true edge reaches none; " +
			"the single appendResetStreamFrame call passes (s.id, s.outresetcode, s.outmaxsent); outmaxsent is written only in appendOutFramesLocked (and zero at creation), only under `end > outmaxsent`, " +
			"with the tested value, which derives from the bytes appendStreamFrame accepted; resetInternal does nothing more once outreset is set or the stream is read-only, and otherwise always sets outreset, " +
			"stores the clamped code, discards the out pipe, empties outunsent and clears outblocked; Reset and handleStopSending both go through resetInternal with the given code; " +
			"writeErrorLocked never returns nil when outreset is set and Stream.Write tests it before every pipe write; the address of outreset is taken only in resetInternal/connHasClosed/appendOutFramesLocked/ackOrLoss and sentVal.clear is never applied to it. " +
			"receive side: checkStreamBounds' four rejections as exact guards before `return nil`; handleReset and handleData call it with (finalSize,true) / (off+len(b),fin) and store insize/inresetcode only after it returned nil, " +
			"with insize = the checked value (only when fin for data); insize and inresetcode have no other writers (besides creation and connection close); the frame handlers pass the consumed code/final size in the right positions and do not drop the error; " +
			"Stream.Read tests inresetcode != -1 before, and on that edge never reaches, an io.EOF or nil-error return.",
		NotCovered: "loss/retransmission interleavings and the arithmetic of dataToSend/flow control (that outmaxsent really is the maximum over the whole history follows from the monotone guard, not from a history argument); " +
			"frames already written into a packet before the reset; the fast-path output buffer (bytes accepted by Write before Reset are discarded, not sent); error codes' numeric values other than the FINAL_SIZE/FLOW_CONTROL distinction not being checked at all.",
		Run: c32,
	})
}

func c32(c *Ctx) {
	const S = "(*quic.Stream)."
	const W = "(*quic.packetWriter)."

	// --- RESET_STREAM branch of appendOutFramesLocked
	ao := S + "appendOutFramesLocked"
	c.Reject(ao, Calls(W+"appendStreamFrame"), "isSet($r.outreset)")
	c.Reject(ao, Stores("quic.Stream.outmaxsent"), "isSet($r.outreset)")
	c.Count(ao, Calls(W+"appendResetStreamFrame"), 1, 1)
	c.Has(ao, Calls(W+"appendResetStreamFrame").ArgIs(1, "$r.id").ArgIs(2, "$r.outresetcode").ArgIs(3, "$r.outmaxsent"))
	c.Guard(ao, Calls(W+"appendResetStreamFrame"), "isSet($r.outreset)")
	c.Count(ao, Calls(W+"appendStreamFrame"), 1, 1)
	c.Has(ao, Calls(W+"appendStreamFrame").ArgIs(1, "$r.id"))
	// RESET_STREAM is marked sent only when it was appended
	c.Reject(ao, Calls("(*quic.sentVal).setSent").ArgIs(0, "&$r.outreset"), "!appendResetStreamFrame($0,$r.id,$r.outresetcode,$r.outmaxsent)")

	// --- outmaxsent = highest offset ever put into a STREAM frame
	c.Writers("quic.Stream.outmaxsent", ao)
	c.Count(ao, Stores("quic.Stream.outmaxsent"), 1, 1)
	if fn := c.MustFn(ao); fn != nil {
		// the store is guarded by `stored value > s.outmaxsent`
		ok, why := false, "no store"
		for _, in := range Stores("quic.Stream.outmaxsent").F(c.P, fn) {
			st := in.(*ssa.Store)
			a, err := c.P.XGreater(st.Val, "$r.outmaxsent")
			if err != nil {
				why = err.Error()
				continue
			}
			ok = false
			for _, f := range FactsAtInstr(in) {
				if SameAtom(f.Atom, a) {
					ok = true
				}
			}
			why = "the store `outmaxsent = v` is not dominated by the branch `v > s.outmaxsent` (outmaxsent could decrease)"
		}
		c.Check(ok, "guard-before", ao+": [store quic.Stream.outmaxsent] under stored-value > $r.outmaxsent", fn.Pos(), "", why)
	}
	c.StoredFrom(ao, Stores("quic.Stream.outmaxsent"), "the slice returned by appendStreamFrame", IsCallTo(W+"appendStreamFrame"))
	c.XReject(ao, Stores("quic.Stream.outmaxsent"), "!§a", XH("§a", "added result of appendStreamFrame", XResultOf(1, W+"appendStreamFrame")))

	// --- resetInternal
	ri := S + "resetInternal"
	setReset := Calls("(*quic.sentVal).set").ArgIs(0, "&$r.outreset")
	c.Count(ri, setReset, 1, 1)
	c.Reject(ri, setReset, "isSet($r.outreset)")
	c.Reject(ri, setReset, "IsReadOnly($r)")
	c.Reject(ri, Stores("quic.Stream.outresetcode"), "isSet($r.outreset)")
	c.Reject(ri, Stores("quic.Stream.outunsent"), "isSet($r.outreset)")
	c.PassThroughIncl(ri, c.Edge("!isSet($r.outreset)"), setReset)
	c.CallAfter(ri, setReset, "(*quic.pipe).discardBefore")
	c.Has(ri, Calls("(*quic.pipe).discardBefore").ArgIs(0, "&$r.out").ArgIs(1, "$r.out.end"))
	c.CallAfter(ri, setReset, "(*quic.sentVal).clear")
	c.Has(ri, Calls("(*quic.sentVal).clear").ArgIs(0, "&$r.outblocked"))
	c.PassThrough(ri, setReset, Stores("quic.Stream.outunsent"))
	c.PassThrough(ri, setReset, Stores("quic.Stream.outresetcode"))
	c.StoredFrom(ri, Stores("quic.Stream.outresetcode"), "the code argument", IsTerm("$0"))
	if fn := c.MustFn(ri); fn != nil {
		// outunsent is replaced by an empty set: the stored slice has constant length 0
		ok := false
		for _, in := range Stores("quic.Stream.outunsent").F(c.P, fn) {
			if sl, isSl := in.(*ssa.Store).Val.(*ssa.Slice); isSl {
				if al, isAl := sl.X.(*ssa.Alloc); isAl {
					ok = Term(al) != "" && sliceLitLen(al) == 0
				}
			}
			if k, isK := in.(*ssa.Store).Val.(*ssa.Const); isK && k.Value == nil {
				ok = true
			}
		}
		c.Check(ok, "stored-value", ri+": outunsent is replaced by the empty range set", fn.Pos(), "", "the value stored into outunsent is not an empty literal")
	}
	c.Has(S+"Reset", Calls(ri).ArgIs(0, "$r").ArgIs(1, "$0"))
	c.Has(S+"handleStopSending", Calls(ri).ArgIs(0, "$r").ArgIs(1, "$0"))
	c.Has("(*quic.Conn).handleStopSendingFrame", Calls(S+"handleStopSending").ArgIs(1, "consumeStopSendingFrame($2)#1"))
	// who may change the reset state (take the address of outreset)
	c.Writers("quic.Stream.outreset", ri, S+"connHasClosed", ao, S+"ackOrLoss")
	c.Writers("quic.Stream.outresetcode", ri, S+"connHasClosed")

	// the reset state is never cleared: sentVal.clear is applied to other fields only
	c.CallArgs("(*quic.sentVal).clear", 0, "&$r.outblocked", "&$r.insendmax")
	// a write after the reset reports an error instead of success
	c.Reject(S+"writeErrorLocked", RetOK(), "isSet($r.outreset)")
	c.Reject(S+"Write", Calls("(*quic.pipe).writeAt"), "writeErrorLocked($r) != nil")

	// --- receive side: checkStreamBounds
	cb := S + "checkStreamBounds"
	c.Reject(cb, RetOK(), "$0 > $r.inwin")
	c.Reject(cb, RetOK(), "$r.insize != -1", "$0 > $r.insize")
	c.Reject(cb, RetOK(), "$1", "$r.insize != -1", "$0 != $r.insize")
	c.Reject(cb, RetOK(), "$1", "$0 < $r.in.end")
	c.Count(cb, RetOK(), 1, 1)
	// the two final-size rejections report FINAL_SIZE_ERROR (6), the window one FLOW_CONTROL_ERROR (3)
	if fn := c.MustFn(cb); fn != nil {
		fs, _ := c.P.ConstInt("quic.errFinalSize")
		fc, _ := c.P.ConstInt("quic.errFlowControl")
		nfs, nfc := 0, 0
		for _, in := range Stores("quic.localTransportError.code").F(c.P, fn) {
			if k, ok := XConstInt(in.(*ssa.Store).Val); ok {
				if k == fs {
					nfs++
				}
				if k == fc {
					nfc++
				}
			}
		}
		c.Check(nfs == 3 && nfc == 1 && fs == 6 && fc == 3, "error-codes", cb+": three FINAL_SIZE_ERROR rejections and one FLOW_CONTROL_ERROR", fn.Pos(), "", fmt.Sprintf("found %d errFinalSize and %d errFlowControl error values", nfs, nfc))
	}
	c.Callers(cb, S+"handleData", S+"handleReset")

	// handleReset
	hr := S + "handleReset"
	chk := "checkStreamBounds($r,$1,true)"
	c.Count(hr, Calls(cb), 1, 1)
	c.Reject(hr, Stores("quic.Stream.insize"), chk+" != nil")
	c.Reject(hr, Stores("quic.Stream.inresetcode"), chk+" != nil")
	c.Reject(hr, XRetOK(), chk+" != nil")
	c.Count(hr, Stores("quic.Stream.insize").StoredIs("$1"), 1, 1)
	c.Count(hr, Stores("quic.Stream.insize"), 1, 1)
	c.Count(hr, Stores("quic.Stream.inresetcode").StoredIs("$0"), 1, 1)
	c.Before(hr, Calls("(*quic.gate).lock"), Calls(cb))
	// handleData
	hd := S + "handleData"
	chk = "checkStreamBounds($r,($0+len($1)),$2)"
	c.Count(hd, Calls(cb), 1, 1)
	c.Reject(hd, Calls("(*quic.pipe).writeAt"), chk+" != nil")
	c.Reject(hd, Stores("quic.Stream.insize"), chk+" != nil")
	c.Reject(hd, XRetOK(), chk+" != nil")
	c.Guard(hd, Stores("quic.Stream.insize"), "$2")
	c.Count(hd, Stores("quic.Stream.insize").StoredIs("($0+len($1))"), 1, 1)
	c.Count(hd, Stores("quic.Stream.insize"), 1, 1)
	c.Reject(hd, Calls("(*quic.pipe).writeAt"), "$r.inresetcode != -1")
	c.Writers("quic.Stream.insize", hd, hr, "quic.newStream")
	c.Writers("quic.Stream.inresetcode", hr, S+"connHasClosed", "quic.newStream")
	c.Has("quic.newStream", Stores("quic.Stream.insize").StoredIs("-1"))
	c.Has("quic.newStream", Stores("quic.Stream.inresetcode").StoredIs("-1"))
	// frame handlers: operands in the right positions, error not dropped
	hrf := "(*quic.Conn).handleResetStreamFrame"
	c.Has(hrf, Calls(hr).ArgIs(1, "consumeResetStreamFrame($2)#1").ArgIs(2, "consumeResetStreamFrame($2)#2"))
	c.ArgFrom(hrf, Calls("(*quic.Conn).abort"), 2, "handleReset's error", IsCallTo(hr))
	hsf := "(*quic.Conn).handleStreamFrame"
	c.Has(hsf, Calls(hd).ArgIs(1, "consumeStreamFrame($2)#1").ArgIs(2, "consumeStreamFrame($2)#3").ArgIs(3, "consumeStreamFrame($2)#2"))
	c.ArgFrom(hsf, Calls("(*quic.Conn).abort"), 2, "handleData's error", IsCallTo(hd))

	// --- Read: reset error, not EOF
	rd := S + "Read"
	eof := XRetIs(1, "io.EOF")
	c.Has(rd, eof)
	c.Reject(rd, eof, "$r.inresetcode != -1")
	c.NeverAfter(rd, c.Edge("$r.inresetcode != -1"), XRetOK(), true)
	c.Before(rd, Calls("(*quic.gate).waitAndLock"), c.Edge("$r.inresetcode != -1"))
	c.XDump()
}

// sliceLitLen returns the array length of a `[N]T` literal allocation, -1 if unknown.
func sliceLitLen(al *ssa.Alloc) int64 {
	if p, ok := al.Type().Underlying().(*types.Pointer); ok {
		if a, ok := p.Elem().Underlying().(*types.Array); ok {
			return a.Len()
		}
	}
	return -1
}
