package props

import (
	"fmt"
	"go/token"

	"golang.org/x/tools/go/ssa"

	. "verif/sa/core"
)

func init() {
	Register(&Property{
		ID:    "C22",
		Level: "proof",
		Floor: 20,
		Clauses: "QUIC varints: for each of the encoder's cases (selected by its own case guards, taken from the dominating branch facts of each return of AppendVarint) " +
			"the appended bytes are computed abstractly as bit-provenance vectors of the input v; ConsumeVarint interpreted abstractly on exactly those bytes returns a value whose every bit k is 'bit k of v' " +
			"(bits the case guard forces to zero are zero) and a length equal to the number of bytes appended, for every v admitted by the case — all 2^62 values at once; " +
			"SizeVarint returns that same length under the same guards; the case guards are v <= 2^(8N-2)-1 for N in {1,2,4,8} in increasing order (shortest encoding) and the only remaining path is the panic under v > MaxVarint; " +
			"ConsumeVarint on every strict prefix of an encoding reports -1; the length-prefixed byte codecs agree (AppendUint8Bytes/ConsumeUint8Bytes, AppendVarintBytes/ConsumeVarintBytes) on prefix kind and guards; " +
			"panic-site inventory of all Consume* functions.",
		NotCovered: "nothing of the stated round-trip for integers in [0, 2^62-1] is left to runtime; ConsumeVarint on non-minimal encodings (accepted by design) and the Append*Bytes payload copy are outside the statement.",
		Trusted:    []string{"bit-provenance transfer functions in core/bits.go"},
		Run:        c22,
	})
	Technique["C22"] = "abstract interpretation of encoder and decoder over a bit-provenance domain (each result bit traced to an input bit), composed per encoder case; plus guard/inventory rules"
}

const wire = "internal/quic/quicwire."

// caseBound extracts K from a fact "$1 <= K" (v <= K) among facts.
func upperBoundOf(fs []Fact, term string) (int64, bool) {
	best := int64(-1)
	for _, f := range fs {
		if f.Atom.Kind != LE || len(f.Atom.L.Coef) != 1 || f.Atom.L.Coef[term] != 1 {
			continue
		}
		k := -f.Atom.L.K // term + K' <= 0  => term <= -K'
		if best < 0 || k < best {
			best = k
		}
	}
	return best, best >= 0
}

func lowerBoundOf(fs []Fact, term string) (int64, bool) {
	best := int64(-1)
	for _, f := range fs {
		if f.Atom.Kind != LE || len(f.Atom.L.Coef) != 1 || f.Atom.L.Coef[term] != -1 {
			continue
		}
		k := f.Atom.L.K // -term + K <= 0 => term >= K
		if k > best {
			best = k
		}
	}
	return best, best >= 0
}

func atomsOf(fs []Fact) []Atom {
	var out []Atom
	for _, f := range fs {
		out = append(out, f.Atom)
	}
	return out
}

func log2p1(k int64) (int, bool) { // k+1 == 2^n ?
	u := uint64(k) + 1
	if u == 0 || u&(u-1) != 0 {
		return 0, false
	}
	n := 0
	for u>>uint(n) != 1 {
		n++
	}
	return n, true
}

// varintRoundTrip checks writer∘reader = identity by abstract interpretation
// for every non-panicking return of the writer. vParam is the index of the
// value parameter in the writer; the writer's first parameter is the
// destination slice (wrRecv false) or a receiver whose buffer is unknown.
func varintRoundTrip(c *Ctx, writer, reader, sizer string) {
	w, r := c.MustFn(writer), c.MustFn(reader)
	if w == nil || r == nil {
		return
	}
	var sz *ssa.Function
	if sizer != "" {
		sz = c.MustFn(sizer)
	}
	rets := Returns().F(c.P, w)
	type caseInfo struct {
		n     int
		upper int64
		lower int64
	}
	var cases []caseInfo
	for _, ret := range rets {
		fs := FactsAtInstr(ret)
		ub, ok := upperBoundOf(fs, "$1")
		if !ok {
			c.Undecided("bits:case-guard", writer+": return without an upper bound on v", "facts: "+fmt.Sprint(atomsOf(fs)))
			continue
		}
		zf, pow := log2p1(ub)
		cons := fmt.Sprintf("%s case v<=%d", writer, ub)
		if !c.Check(pow, "bits:case-guard", cons+": bound is 2^n-1", ret.Pos(), fmt.Sprintf("n=%d", zf), "the case bound is not of the form 2^n-1") {
			continue
		}
		lb, _ := lowerBoundOf(fs, "$1")
		it := &Interp{P: c.P, Assume: atomsOf(fs)}
		out, err := it.Call(w, []AVal{SymSlice("b"), InputBV("v", 64, zf)})
		if err != nil {
			c.Fail("bits:encode", cons, ret.Pos(), "abstract interpretation of the writer failed: "+err.Error())
			continue
		}
		elems, sym, ok := SliceElems(out)
		if !ok || sym != "b" {
			c.Fail("bits:encode", cons, ret.Pos(), fmt.Sprintf("writer result is not append(b, ...): %T", out))
			continue
		}
		n := len(elems)
		cases = append(cases, caseInfo{n, ub, lb})
		c.Check(zf == 8*n-2, "bits:case-guard", cons+fmt.Sprintf(": %d bytes carry 8N-2=%d value bits", n, 8*n-2), ret.Pos(), "", fmt.Sprintf("case admits %d-bit values but appends %d bytes", zf, n))
		// decode exactly those bytes
		rit := &Interp{P: c.P}
		res, err := rit.Call(r, []AVal{KnownBytes(elems)})
		if err != nil {
			c.Fail("bits:roundtrip", cons, ret.Pos(), "abstract interpretation of the reader failed: "+err.Error())
			continue
		}
		tup, ok := res.(ATuple)
		if !ok || len(tup) != 2 {
			c.Fail("bits:roundtrip", cons, ret.Pos(), "reader did not return (value, n)")
			continue
		}
		val, _ := tup[0].(BV)
		nn, _ := tup[1].(BV)
		good := true
		why := ""
		for k := 0; k < 64; k++ {
			want := Bit{}
			if k < zf {
				want = Bit{K: 2, Src: "v", Idx: uint8(k)}
			}
			if val.B[k] != want {
				good = false
				why = fmt.Sprintf("decoded bit %d is %v, want bit %d of v (decoded value: %s; encoded bytes: %v)", k, val.B[k], k, val, elems)
				break
			}
		}
		if u, ok := nn.Const(); !ok || int(u) != n {
			good = false
			why = fmt.Sprintf("reader reports length %s, writer appended %d bytes", nn, n)
		}
		c.Check(good, "bits:roundtrip", cons+": Consume(Append(v)) == (v, len) for every v of the case", ret.Pos(),
			fmt.Sprintf("%d bytes; decoded = %s", n, val), why)
		// every strict prefix is rejected with -1
		for cut := 0; cut < n; cut++ {
			pit := &Interp{P: c.P}
			res, err := pit.Call(r, []AVal{KnownBytes(elems[:cut])})
			okp := false
			detail := ""
			if err != nil {
				detail = err.Error()
			} else if tup, ok := res.(ATuple); ok && len(tup) == 2 {
				if nb, ok := tup[1].(BV); ok {
					if u, ok := nb.Const(); ok && int64(u) == -1 {
						okp = true
					} else {
						detail = "length result " + nb.String()
					}
				}
			}
			c.Check(okp, "bits:truncated", fmt.Sprintf("%s: %d of %d bytes gives n=-1", cons, cut, n), ret.Pos(), "", "truncated encoding not rejected: "+detail)
		}
		if sz != nil {
			sit := &Interp{P: c.P, Assume: RenameAtoms(atomsOf(fs), "$1", "$0")}
			res, err := sit.Call(sz, []AVal{InputBV("v", 64, zf)})
			oks := false
			detail := ""
			if err != nil {
				detail = err.Error()
			} else if b, ok := res.(BV); ok {
				if u, ok := b.Const(); ok && int(u) == n {
					oks = true
				} else {
					detail = "size " + b.String()
				}
			}
			c.Check(oks, "bits:size", fmt.Sprintf("%s: %s == %d", cons, sizer, n), ret.Pos(), "", "size function disagrees with the encoder: "+detail)
		}
	}
	// cases partition [0, MaxVarint] in increasing order with lengths 1,2,4,8
	ok := len(cases) == 4
	why := fmt.Sprintf("%d encoder cases", len(cases))
	if ok {
		// sort by upper
		for i := 0; i < len(cases); i++ {
			for j := i + 1; j < len(cases); j++ {
				if cases[j].upper < cases[i].upper {
					cases[i], cases[j] = cases[j], cases[i]
				}
			}
		}
		wantN := []int{1, 2, 4, 8}
		prev := int64(-1)
		for i, cs := range cases {
			if cs.n != wantN[i] {
				ok = false
				why = fmt.Sprintf("case %d appends %d bytes, want %d", i, cs.n, wantN[i])
			}
			if i > 0 && cs.lower != prev+1 {
				ok = false
				why = fmt.Sprintf("case %d starts at %d, previous case ends at %d (gap or overlap: not the shortest encoding)", i, cs.lower, prev)
			}
			prev = cs.upper
		}
		if max, _ := c.P.ConstInt("internal/quic/quicwire.MaxVarint"); prev != max {
			ok = false
			why = fmt.Sprintf("last case ends at %d, MaxVarint is %d", prev, max)
		}
	}
	c.Check(ok, "bits:partition", writer+": cases partition [0,MaxVarint] as 1/2/4/8 bytes, shortest first", w.Pos(), "", why)
	// the only other exit is the panic, under v > MaxVarint
	for _, p := range Panics().F(c.P, w) {
		fs := FactsAtInstr(p)
		lb, okl := lowerBoundOf(fs, "$1")
		max, _ := c.P.ConstInt("internal/quic/quicwire.MaxVarint")
		c.Check(okl && lb == max+1, "bits:panic-guard", writer+": panic only for v > MaxVarint", p.Pos(), "", fmt.Sprintf("panic reachable with v >= %d", lb))
	}
}

func c22(c *Ctx) {
	varintRoundTrip(c, wire+"AppendVarint", wire+"ConsumeVarint", wire+"SizeVarint")

	// ConsumeVarintInt64 is ConsumeVarint
	c.Has(wire+"ConsumeVarintInt64", Calls(wire+"ConsumeVarint").ArgIs(0, "$0"))

	// fixed-width and length-prefixed consumers: guards before slicing
	c.Reject(wire+"ConsumeUint32", RetTerm(1, "4"), "len($0) < 4")
	c.Reject(wire+"ConsumeUint64", RetTerm(1, "8"), "len($0) < 8")
	u8 := wire + "ConsumeUint8Bytes"
	c.Reject(u8, Indexing("$0[1:]"), "len($0) < 1")
	c.Reject(u8, Indexing("$0[1:]"), "$0[0] > len($0[1:])")
	vb := wire + "ConsumeVarintBytes"
	c.Reject(vb, Indexing("$0[ConsumeVarint($0)#1:]"), "ConsumeVarint($0)#1 < 0")
	c.Reject(vb, Indexing("$0[ConsumeVarint($0)#1:]"), "ConsumeVarint($0)#0 > len($0[ConsumeVarint($0)#1:])")
	// writers of the length prefixes
	c.Reject(wire+"AppendUint8Bytes", Calls("builtin:append"), "len($1) > 255")
	c.Has(wire+"AppendVarintBytes", Calls(wire+"AppendVarint").ArgIs(1, "len($1)"))

	c.PanicInventory([]string{wire + "ConsumeVarint", wire + "ConsumeVarintInt64", wire + "ConsumeUint32", wire + "ConsumeUint64",
		wire + "ConsumeUint8Bytes", wire + "ConsumeVarintBytes", wire + "SizeVarint"}, nil, map[string]Inv{
		wire + "ConsumeVarintBytes": {"idx=1", "b[n:][:size] under size <= len(b[n:]) (reject-before obligation above)"},
		wire + "SizeVarint":         {"panic=1", "caller misuse only: v > MaxVarint"},
	})
	_ = token.NoPos
}
