package props

import (
	"fmt"
	"strings"

	"golang.org/x/tools/go/ssa"

	. "verif/sa/core"
)

func init() {
	Register(&Property{
		ID:    "C26",
		Floor: 58,
		Clauses: "sentPacket.state is written only by lossState.skipNumber/receiveAckRange/detectLoss/discardPackets and sentPacket.reset; every store of sentPacketAcked or sentPacketLost is dominated by a test that the same packet is in sentPacketSent, " +
			"and on every path after it the matching accounting is performed on the same packet: cc.packetAcked + ackf (acked), lossf + (cc.packetLost unless !inFlight) (lost), cc.packetDiscarded + lossf (discardPackets); " +
			"the fate passed to the callback matches the stored state; discardKeys calls cc.packetDiscarded only for packets tested to be sentPacketSent and before sentPacketList.discard. " +
			"Each accounting function has one caller set (packetAcked: receiveAckRange; packetLost: detectLoss; packetDiscarded: discardPackets, discardKeys; cc.packetSent: lossState.packetSent, under sent.inFlight), " +
			"packets enter the sent list only through lossState.packetSent/skipNumber, are recycled only by sentPacketList.clean, which stops at the first sentPacketSent packet; handleAckOrLoss is handed out only as the ack/loss callback. " +
			"ccReno.bytesInFlight is written only by packetSent (+sent.size) and packetAcked/packetLost/packetDiscarded (-sent.size), each under sent.inFlight; " +
			"ccReno.congestionWindow stores after construction are max(…, minimumCongestionWindow()), = minimumCongestionWindow(), or old + x.",
		NotCovered: "non-negativity of bytesInFlight over histories (needs: size and inFlight of a packet do not change between packetSent and its fate; Conn.maybeSend edits both only before packetSent — checked as a writer set only); " +
			"sign of the congestion-window increments; exactly-once at run time across list discard/recycle; persistent congestion and pacing; the constructor's initial window.",
		Run: c26,
	})
}

func c26(c *Ctx) {
	const L = "(*quic.lossState)."
	const CC = "(*quic.ccReno)."
	state := "quic.sentPacket.state"
	sent, _ := c.P.ConstInt("quic.sentPacketSent")
	acked, _ := c.P.ConstInt("quic.sentPacketAcked")
	lost, _ := c.P.ConstInt("quic.sentPacketLost")
	fateAcked, _ := c.P.ConstInt("quic.packetAcked")
	fateLost, _ := c.P.ConstInt("quic.packetLost")

	c.Writers(state, L+"skipNumber", L+"receiveAckRange", L+"detectLoss", L+"discardPackets", "(*quic.sentPacket).reset")
	c.Callers("(*quic.sentPacket).reset", "quic.newSentPacket", "(*quic.packetWriter).abandonPacket")

	// ---- transitions
	rar, dl, dp, dk := L+"receiveAckRange", L+"detectLoss", L+"discardPackets", L+"discardKeys"
	ackedStore := Stores(state).StoredIs(fmt.Sprint(acked))
	lostStore := Stores(state).StoredIs(fmt.Sprint(lost))
	c.QaTypestateStores(rar, state, sent, acked, lost)
	c.QaTypestateStores(dl, state, sent, acked, lost)
	c.QaTypestateStores(dp, state, sent, acked, lost)
	c.Count(rar, lostStore, 0, 0)
	c.Count(dl, ackedStore, 0, 0)
	c.Count(dp, ackedStore, 0, 0)
	c.QaSameObjAfter(rar, ackedStore, Calls(CC+"packetAcked"), 2, "")
	c.QaSameObjAfter(rar, ackedStore, QaCallsParam(5), 1, "")
	c.QaSameObjAfter(dl, lostStore, QaCallsParam(1), 1, "")
	c.QaSameObjAfter(dl, lostStore, Calls(CC+"packetLost"), 3, "quic.sentPacket.inFlight")
	c.QaSameObjAfter(dp, lostStore, Calls(CC+"packetDiscarded"), 1, "")
	c.QaSameObjAfter(dp, lostStore, QaCallsParam(2), 1, "")
	qaC26fate(c, rar, QaCallsParam(5), 2, fateAcked)
	qaC26fate(c, dl, QaCallsParam(1), 2, fateLost)
	qaC26fate(c, dp, QaCallsParam(2), 2, fateLost)
	// accounting calls only for packets tested to be outstanding
	c.QaCallArgFieldIs(rar, Calls(CC+"packetAcked"), 2, state, sent)
	c.QaCallArgFieldIs(dl, Calls(CC+"packetLost"), 3, state, sent)
	c.QaCallArgFieldIs(dp, Calls(CC+"packetDiscarded"), 1, state, sent)
	c.QaCallArgFieldIs(dk, Calls(CC+"packetDiscarded"), 1, state, sent)
	c.QaCallArgFieldIs(rar, QaCallsParam(5), 1, state, sent)
	c.QaCallArgFieldIs(dl, QaCallsParam(1), 1, state, sent)
	c.QaCallArgFieldIs(dp, QaCallsParam(2), 1, state, sent)
	qaC26inFlightGuard(c, dl, Calls(CC+"packetLost"), 3)
	// discardKeys: account, then drop the list
	c.NeverAfter(dk, Calls("(*quic.sentPacketList).discard"), Calls(CC+"packetDiscarded"), false)
	c.Has(dk, Calls("(*quic.sentPacketList).discard").ArgIs(0, "&$r.spaces[$2].sentPacketList"))
	c.Count(dk, Stores(state), 0, 0)

	// ---- single entry points
	c.Callers(CC+"packetAcked", rar)
	c.Callers(CC+"packetLost", dl)
	c.Callers(CC+"packetDiscarded", dp, dk)
	c.Callers(CC+"packetSent", L+"packetSent")
	c.Callers(L+"packetSent", "(*quic.Conn).packetSent")
	c.Callers("(*quic.Conn).packetSent", "(*quic.Conn).maybeSend")
	c.Callers("(*quic.sentPacketList).add", L+"packetSent", L+"skipNumber")
	c.Callers("(*quic.sentPacketList).discard", dk)
	c.Callers("(*quic.sentPacket).recycle", "(*quic.sentPacketList).clean")
	c.Callers("(*quic.Conn).handleAckOrLoss", "(*quic.Conn).handleAckFrame", "(*quic.Conn).handleRetry", "(*quic.Conn).loop")
	c.Callers(rar, "(*quic.Conn).handleAckFrame")
	c.Callers(dl, L+"advance", L+"receiveAckEnd")
	ps := L + "packetSent"
	c.Guard(ps, Calls(CC+"packetSent"), "$3.inFlight")
	c.Has(ps, Calls(CC+"packetSent").ArgIs(4, "$3"))
	c.Before(ps, Calls("(*quic.sentPacketList).add").ArgIs(0, "&$r.spaces[$2].sentPacketList").ArgIs(1, "$3"), Returns())
	// the sent list forgets only resolved packets
	clean := "(*quic.sentPacketList).clean"
	c.Reject(clean, Union(Calls("(*quic.sentPacket).recycle"), Stores("quic.sentPacketList.size")), "$r.p[$r.off].state == @quic.sentPacketSent")
	c.Has(clean, Calls("(*quic.sentPacket).recycle").ArgIs(0, "$r.p[$r.off]"))

	// ---- bytes in flight
	bif := "quic.ccReno.bytesInFlight"
	c.Writers(bif, CC+"packetSent", CC+"packetAcked", CC+"packetLost", CC+"packetDiscarded")
	c.QaStoreShapes(CC+"packetSent", bif, "add:$3.size")
	c.QaStoreShapes(CC+"packetAcked", bif, "sub:$1.size")
	c.QaStoreShapes(CC+"packetLost", bif, "sub:$2.size")
	c.QaStoreShapes(CC+"packetDiscarded", bif, "sub:$0.size")
	c.Guard(CC+"packetSent", Stores(bif), "$3.inFlight")
	c.Guard(CC+"packetAcked", Stores(bif), "$1.inFlight")
	c.Guard(CC+"packetLost", Stores(bif), "$2.inFlight")
	c.Guard(CC+"packetDiscarded", Stores(bif), "$0.inFlight")
	for _, f := range []string{CC + "packetSent", CC + "packetAcked", CC + "packetLost", CC + "packetDiscarded"} {
		c.Count(f, Stores(bif), 1, 1)
	}
	c.Writers("quic.sentPacket.size", "(*quic.packetWriter).finish", "(*quic.Conn).maybeSend", "(*quic.sentPacket).reset")
	c.Writers("quic.sentPacket.inFlight", "(*quic.packetWriter).appendPaddingTo", "(*quic.sentPacket).appendAckElicitingFrame", "(*quic.sentPacket).markAckEliciting", "(*quic.Conn).maybeSend", "(*quic.sentPacket).reset")

	// ---- congestion window floor
	cw := "quic.ccReno.congestionWindow"
	c.Writers(cw, "quic.newReno", CC+"packetBatchEnd")
	qaC26window(c, CC+"packetBatchEnd", cw)
	c.Has(CC+"minimumCongestionWindow", QaResultIs(0, "(2*$r.maxDatagramSize)"))
}

// qaC26fate: the fate constant passed to the callback is k.
func qaC26fate(c *Ctx, fnName string, sel Sel, idx int, k int64) {
	c.QaArgSatisfies(fnName, sel, idx, fmt.Sprintf("the fate constant %d matching the stored state", k), func(v ssa.Value) bool {
		s, ok := QaConstSet(v)
		return ok && len(s) == 1 && s[k]
	})
}

// qaC26inFlightGuard: every selected call is dominated by <arg idx>.inFlight.
func qaC26inFlightGuard(c *Ctx, fnName string, sel Sel, idx int) {
	fn := c.MustFn(fnName)
	if fn == nil {
		return
	}
	construct := fmt.Sprintf("%s: [%s] under arg%d.inFlight", fnName, sel.Name, idx)
	sites := sel.F(c.P, fn)
	if len(sites) == 0 {
		c.Undecided("guard-before", construct, "no such call")
		return
	}
	isLoad := c.P.QaIsLoadOf("quic.sentPacket.inFlight")
	for _, in := range sites {
		obj := BaselineArgs(in.(ssa.CallInstruction).Common())[idx]
		ok := false
		for _, f := range FactsAtInstr(in) {
			u, isU := f.If.Cond.(*ssa.UnOp)
			if !isU || f.Atom.Kind != TRUE || !isLoad(u) {
				continue
			}
			if fa, isFA := u.X.(*ssa.FieldAddr); isFA && fa.X == obj {
				ok = true
			}
		}
		if !ok {
			c.Fail("guard-before", construct, in.Pos(), "`"+DescribeInstr(in)+"` is reached for packets that are not in flight")
			return
		}
	}
	c.OK("guard-before", construct, fmt.Sprintf("%d site(s)", len(sites)))
}

// qaC26window: every store to congestionWindow in fnName is floored at
// minimumCongestionWindow() or adds to the old value.
func qaC26window(c *Ctx, fnName, field string) {
	fn := c.MustFn(fnName)
	if fn == nil {
		return
	}
	construct := fnName + ": every congestionWindow store is max(…, minimumCongestionWindow()), = minimumCongestionWindow(), or old + x"
	isMin := IsCallTo("(*quic.ccReno).minimumCongestionWindow")
	var shapes []string
	for _, in := range Stores(field).F(c.P, fn) {
		st := in.(*ssa.Store)
		v := QaStripConv(st.Val)
		shape := ""
		if call, ok := v.(*ssa.Call); ok {
			if isMin(call) {
				shape = "=min"
			} else if b, ok := call.Call.Value.(*ssa.Builtin); ok && b.Name() == "max" {
				for _, a := range BaselineArgs(&call.Call) {
					if isMin(QaStripConv(a)) {
						shape = "floored"
					}
				}
			}
		}
		if shape == "" {
			if sh := QaStoreShape(st); strings.HasPrefix(sh, "add:") || sh == "inc" {
				shape = "old+x"
			}
		}
		if shape == "" {
			c.Fail("store-shape", construct, st.Pos(), "store `"+DescribeInstr(st)+"` can set the window below the minimum")
			return
		}
		shapes = append(shapes, shape)
	}
	if len(shapes) == 0 {
		c.Undecided("store-shape", construct, "no store found")
		return
	}
	c.OK("store-shape", construct, strings.Join(shapes, "; "))
}
