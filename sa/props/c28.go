package props

import (
	"fmt"
	"go/ast"
	"go/constant"
	"go/token"
	"go/types"
	"sort"
	"strings"

	. "verif/sa/core"

	"golang.org/x/tools/go/ssa"
)

func init() {
	Register(&Property{
		ID:    "C28",
		Floor: 300,
		Clauses: "frames: for each of the 18 append*Frame/consume*Frame pairs the source-ordered sequence of wire primitives (varint, length-prefixed bytes, raw bytes) agrees, the k-th primitive written derives from the writer parameter " +
			"and is returned as the reader result that the pairing table names (so swapped fields are caught), and the type byte(s) written are exactly that frame's frameType constants; " +
			"STREAM: OFF bit set iff an offset is written (iff off != 0) and read iff b[0]&4, LEN always set and read under b[0]&2, FIN only when fin and decoded from b[0]&1; MAX_STREAMS/STREAMS_BLOCKED: bidi/uni <-> type constant mapping agrees on both sides; " +
			"ACK: header fields and ECN tail in the same order and from/to the same fields, two varints per additional range on both sides, ECN tail under type 0x03 on both sides; " +
			"every quicwire.Consume* length result in every consume*Frame, parseLongHeaderPacket and unmarshalTransportParams is tested < 0 on every path to a successful return; " +
			"range checks as exact guards: MAX_STREAMS > 2^60, STREAM off+len >= 2^62, NEW_TOKEN empty, NEW_CONNECTION_ID seq < retire / cid length outside 1..20 / short reset token, PATH_CHALLENGE short, ACK range underflow, " +
			"long header connection IDs > 20 and payload length > remaining, header-protection sample length; " +
			"transport parameters: every id written by marshalTransportParameters has a case in unmarshalTransportParams that stores the same struct fields with the same value kind (varint-in-length / bytes / flag / preferred-address), " +
			"the skip-if-default constants of marshal equal defaultTransportParameters, the consumed length of every integer parameter reaches the trailing-bytes test, the loop continues only through that test, " +
			"and max_udp_payload_size < 1200, initial_max_streams_* > 2^60, ack_delay_exponent > 20, max_ack_delay >= 2^14, active_connection_id_limit < 2, stateless_reset_token length != 16, preferred_address lengths are rejected before a nil-error return; " +
			"dispatch: every frameType constant (STREAM 0x08-0x0f expanded) has a case in handleFrames and in parseDebugFrame that reaches the matching consume function, unknown types yield n<0, handleFrames aborts on n<0 before slicing; " +
			"consume*Frame are only reached with a non-empty buffer (callers forward their own parameter or test len > 0); " +
			"reviewed inventory of every potential index/slice/explicit panic site reachable from parseLongHeaderPacket, parse1RTTPacket, unmarshalTransportParams, consume*Frame and parseDebugFrame.",
		NotCovered: "header protection / AEAD round trip and the arithmetic of packet-number decoding (runtime); that quicwire.Consume* return n <= len(input) (their own contract, relied on by the slice-site reviews); " +
			"byte-level equality of encodings; ACK range reconstruction arithmetic (gap/size off-by-constants) and the writer's dropping of ranges that do not fit; integer conversions between uint64 and int64 above 2^62; nil-dereference / out-of-memory classes.",
		Run: c28,
	})
}

const (
	qwAppendVarint      = "internal/quic/quicwire.AppendVarint"
	qwAppendVarintBytes = "internal/quic/quicwire.AppendVarintBytes"
	qwAppendUint8Bytes  = "internal/quic/quicwire.AppendUint8Bytes"
	qwConsumeVarint     = "internal/quic/quicwire.ConsumeVarint"
	qwConsumeVarintI64  = "internal/quic/quicwire.ConsumeVarintInt64"
	qwConsumeVarintByt  = "internal/quic/quicwire.ConsumeVarintBytes"
	qwConsumeUint8Bytes = "internal/quic/quicwire.ConsumeUint8Bytes"
	qwConsumeUint32     = "internal/quic/quicwire.ConsumeUint32"
)

var qwConsumers = []string{qwConsumeVarint, qwConsumeVarintI64, qwConsumeVarintByt, qwConsumeUint8Bytes, qwConsumeUint32,
	"internal/quic/quicwire.ConsumeUint64", "internal/quic/quicwire.ConsumeUint16", "internal/quic/quicwire.ConsumeUint8"}

// framePair is one row of the codec table. fields[k] = {writer parameter index, reader result index}
// for the k-th wire primitive after the type byte; -1 = not paired (carried by the type byte).
type framePair struct {
	name   string
	consts []string // frameType constant names written as the type byte
	fields [][2]int
	u8asV  bool // the writer's uint8 length prefix is read as a varint (identical below 64; reader bounds the length)
}

var framePairs = []framePair{
	{"ResetStream", []string{"frameTypeResetStream"}, [][2]int{{0, 0}, {1, 1}, {2, 2}}, false},
	{"StopSending", []string{"frameTypeStopSending"}, [][2]int{{0, 0}, {1, 1}}, false},
	{"Crypto", []string{"frameTypeCrypto"}, [][2]int{{0, 0}, {1, 1}}, false},
	{"NewToken", []string{"frameTypeNewToken"}, [][2]int{{0, 0}}, false},
	{"MaxData", []string{"frameTypeMaxData"}, [][2]int{{0, 0}}, false},
	{"MaxStreamData", []string{"frameTypeMaxStreamData"}, [][2]int{{0, 0}, {1, 1}}, false},
	{"MaxStreams", []string{"frameTypeMaxStreamsBidi", "frameTypeMaxStreamsUni"}, [][2]int{{1, 1}}, false},
	{"DataBlocked", []string{"frameTypeDataBlocked"}, [][2]int{{0, 0}}, false},
	{"StreamDataBlocked", []string{"frameTypeStreamDataBlocked"}, [][2]int{{0, 0}, {1, 1}}, false},
	{"StreamsBlocked", []string{"frameTypeStreamsBlockedBidi", "frameTypeStreamsBlockedUni"}, [][2]int{{1, 1}}, false},
	{"NewConnectionID", []string{"frameTypeNewConnectionID"}, [][2]int{{0, 0}, {1, 1}, {2, 2}, {3, 3}}, true},
	{"RetireConnectionID", []string{"frameTypeRetireConnectionID"}, [][2]int{{0, 0}}, false},
	{"PathChallenge", []string{"frameTypePathChallenge"}, [][2]int{{0, 0}}, false},
	{"PathResponse", []string{"frameTypePathResponse"}, [][2]int{{0, 0}}, false},
	{"ConnectionCloseTransport", []string{"frameTypeConnectionCloseTransport"}, [][2]int{{0, 0}, {1, 1}, {2, 2}}, false},
	{"ConnectionCloseApplication", []string{"frameTypeConnectionCloseApplication"}, [][2]int{{0, 0}, {1, 1}}, false},
	// STREAM and ACK have their own checks in addition to the sequence (c28Stream, c28Ack)
	{"Stream", nil, [][2]int{{0, 0}, {1, 1}, {2, 3}}, false},
}

func c28(c *Ctx) {
	c28Frames(c)
	c28Stream(c)
	c28Ack(c)
	c28TypeMaps(c)
	c28ConsumeGuards(c)
	c28Dispatch(c)
	c28NonEmpty(c)
	c28LongHeader(c)
	c28TransportParams(c)
	c28Inventory(c)
	c.XDump()
}

// ---------------------------------------------------------------------------
// wire events

type wireEv struct {
	tok string // T, v, vraw, u8raw, raw, u8, ext
	in  ssa.Instruction
	val ssa.Value // writer: the value written; reader: the call
}

func sortEvs(evs []wireEv) {
	sort.SliceStable(evs, func(i, j int) bool { return InstrPos(evs[i].in) < InstrPos(evs[j].in) })
}

func isVarargs(v ssa.Value) (*ssa.Alloc, bool) {
	sl, ok := v.(*ssa.Slice)
	if !ok {
		return nil, false
	}
	al, ok := sl.X.(*ssa.Alloc)
	return al, ok && al.Comment == "varargs"
}

// varargVal returns the single element stored into a one-element varargs array before call.
func varargVal(al *ssa.Alloc) ssa.Value {
	var val ssa.Value
	if refs := al.Referrers(); refs != nil {
		for _, r := range *refs {
			if ia, ok := r.(*ssa.IndexAddr); ok {
				if irefs := ia.Referrers(); irefs != nil {
					for _, rr := range *irefs {
						if st, ok := rr.(*ssa.Store); ok && st.Addr == ia {
							val = st.Val
						}
					}
				}
			}
		}
	}
	return val
}

// writerEvents lists what an append*Frame function puts on the wire, in source order.
func writerEvents(c *Ctx, fn *ssa.Function) []wireEv {
	var evs []wireEv
	bField := c.P.Field("quic.packetWriter.b")
	for _, b := range fn.Blocks {
		for _, in := range b.Instrs {
			switch x := in.(type) {
			case *ssa.Call:
				switch CalleeName(&x.Call) {
				case qwAppendVarint:
					evs = append(evs, wireEv{"v", in, BaselineArgs(&x.Call)[1]})
				case qwAppendVarintBytes:
					evs = append(evs, wireEv{"vraw", in, BaselineArgs(&x.Call)[1]})
				case qwAppendUint8Bytes:
					evs = append(evs, wireEv{"u8raw", in, BaselineArgs(&x.Call)[1]})
				case "builtin:append":
					if Term(BaselineArgs(&x.Call)[0]) != "$r.b" {
						continue
					}
					if al, ok := isVarargs(BaselineArgs(&x.Call)[1]); ok {
						evs = append(evs, wireEv{"u8", in, varargVal(al)})
					} else {
						evs = append(evs, wireEv{"raw", in, BaselineArgs(&x.Call)[1]})
					}
				}
			case *ssa.Store:
				if fa, ok := x.Addr.(*ssa.FieldAddr); ok && bField != nil {
					if sl, ok := x.Val.(*ssa.Slice); ok && sl.High != nil && Term(fa) == "&$r.b" {
						evs = append(evs, wireEv{"ext", in, sl.High})
					}
				}
			}
		}
	}
	sortEvs(evs)
	// the first single byte is the frame type; a varint immediately followed by an extension of w.b is a length-prefixed byte string
	var out []wireEv
	for i, e := range evs {
		switch {
		case i == 0 && e.tok == "u8":
			e.tok = "T"
		case e.tok == "ext" && len(out) > 0 && out[len(out)-1].tok == "v":
			out[len(out)-1].tok = "vraw"
			continue
		}
		out = append(out, e)
	}
	return out
}

// readerEvents lists what a consume*Frame function takes from the wire, in source order.
func readerEvents(fn *ssa.Function) []wireEv {
	var evs []wireEv
	for _, b := range fn.Blocks {
		for _, in := range b.Instrs {
			x, ok := in.(*ssa.Call)
			if !ok {
				continue
			}
			switch CalleeName(&x.Call) {
			case qwConsumeVarint, qwConsumeVarintI64:
				evs = append(evs, wireEv{"v", in, x})
			case qwConsumeVarintByt:
				evs = append(evs, wireEv{"vraw", in, x})
			case qwConsumeUint8Bytes:
				evs = append(evs, wireEv{"u8raw", in, x})
			case "builtin:copy":
				evs = append(evs, wireEv{"raw", in, x})
			}
		}
	}
	sortEvs(evs)
	return evs
}

func toks(evs []wireEv, skipT bool) string {
	var ss []string
	for _, e := range evs {
		if skipT && e.tok == "T" {
			continue
		}
		ss = append(ss, e.tok)
	}
	return strings.Join(ss, " ")
}

func frameConst(c *Ctx, name string) int64 {
	v, ok := c.P.ConstInt("quic." + name)
	if !ok {
		c.Undecided("anchor", "quic."+name, "frame type constant not found")
		return -1
	}
	return v
}

// constLeaves returns the constant values a value may take through phis; ok=false if a leaf is not a constant.
func constLeaves(v ssa.Value) (vals []int64, ok bool) {
	ok = true
	seen := map[ssa.Value]bool{}
	var walk func(ssa.Value)
	walk = func(x ssa.Value) {
		if seen[x] {
			return
		}
		seen[x] = true
		switch y := x.(type) {
		case *ssa.Phi:
			for _, e := range y.Edges {
				walk(e)
			}
		case *ssa.Const:
			kv, isInt := XConstInt(y)
			if !isInt {
				ok = false
				return
			}
			vals = append(vals, kv)
		case *ssa.Convert:
			walk(y.X)
		default:
			ok = false
		}
	}
	walk(v)
	sort.Slice(vals, func(i, j int) bool { return vals[i] < vals[j] })
	return vals, ok
}

func readerFor(c *Ctx, name string) (string, *ssa.Function) {
	rn := "quic.consume" + name + "Frame"
	fn := c.MustFn(rn)
	if fn == nil {
		return rn, nil
	}
	// a reader that only forwards its buffer to another consume function is represented by that function
	evs := readerEvents(fn)
	if len(evs) == 0 {
		for _, b := range fn.Blocks {
			for _, in := range b.Instrs {
				if call, ok := in.(*ssa.Call); ok {
					if callee := call.Call.StaticCallee(); callee != nil && strings.HasPrefix(FnName(callee), "quic.consume") && len(BaselineArgs(&call.Call)) == 1 && Term(BaselineArgs(&call.Call)[0]) == "$0" {
						// results must be returned unchanged
						okFwd := true
						for _, r := range Returns().F(c.P, fn) {
							for i, res := range r.(*ssa.Return).Results {
								if e, ok := res.(*ssa.Extract); !ok || e.Tuple != call || e.Index != i {
									okFwd = false
								}
							}
						}
						c.Check(okFwd, "codec-forward", rn+" forwards to "+FnName(callee)+" and returns its results unchanged", fn.Pos(), "", "results are not forwarded one-to-one")
						return FnName(callee), callee
					}
				}
			}
		}
	}
	return rn, fn
}

func c28Frames(c *Ctx) {
	for _, fp := range framePairs {
		wn := "(*quic.packetWriter).append" + fp.name + "Frame"
		w := c.MustFn(wn)
		rn, r := readerFor(c, fp.name)
		if w == nil || r == nil {
			continue
		}
		wev, rev := writerEvents(c, w), readerEvents(r)
		// type byte
		if fp.consts != nil {
			var want []int64
			for _, cn := range fp.consts {
				want = append(want, frameConst(c, cn))
			}
			sort.Slice(want, func(i, j int) bool { return want[i] < want[j] })
			construct := wn + ": type byte ∈ {" + strings.Join(fp.consts, ", ") + "}"
			if len(wev) == 0 || wev[0].tok != "T" || wev[0].val == nil {
				c.Fail("codec-type", construct, w.Pos(), "the first thing appended to w.b is not a single type byte; events: "+toks(wev, false))
			} else {
				got, ok := constLeaves(wev[0].val)
				c.Check(ok && fmt.Sprint(got) == fmt.Sprint(want), "codec-type", construct, InstrPos(wev[0].in), fmt.Sprint(got), fmt.Sprintf("type byte values %v (constant=%v), want %v", got, ok, want))
			}
		}
		// primitive sequence
		ws, rs := toks(wev, true), toks(rev, false)
		wcmp := ws
		if fp.u8asV {
			wcmp = strings.ReplaceAll(ws, "u8raw", "vraw")
		}
		construct := wn + " ~ " + rn
		if ws == "" || rs == "" {
			c.Undecided("codec-sequence", construct, fmt.Sprintf("empty primitive sequence (writer [%s], reader [%s])", ws, rs))
			continue
		}
		if !c.Check(wcmp == rs, "codec-sequence", construct, w.Pos(), "["+ws+"]", fmt.Sprintf("writer applies [%s] but reader applies [%s]", ws, rs)) {
			continue
		}
		// field pairing
		var wvals []wireEv
		for _, e := range wev {
			if e.tok != "T" {
				wvals = append(wvals, e)
			}
		}
		if len(fp.fields) != len(wvals) || len(rev) != len(wvals) {
			c.Fail("codec-fields", construct+": table arity", w.Pos(), fmt.Sprintf("table lists %d primitives, writer has %d, reader %d", len(fp.fields), len(wvals), len(rev)))
			continue
		}
		nres := r.Signature.Results().Len()
		succ := XRetNot(nres-1, "-1").F(c.P, r)
		for k, pr := range fp.fields {
			if pr[0] < 0 {
				continue
			}
			pname := w.Params[pr[0]+1].Name()
			cons := fmt.Sprintf("%s: primitive %d carries writer parameter %d (%s) and is reader result %d", construct, k, pr[0], pname, pr[1])
			par := w.Params[pr[0]+1]
			if !DependsOn(wvals[k].val, func(v ssa.Value) bool { return v == par }) {
				c.Fail("codec-fields", cons, InstrPos(wvals[k].in), fmt.Sprintf("the %d-th value written (`%s`) does not derive from parameter %s", k, Term(wvals[k].val), pname))
				continue
			}
			bad := ""
			if len(succ) == 0 {
				bad = "no successful return found"
			}
			for _, ret := range succ {
				rv := XRetVal(ret.(*ssa.Return), pr[1])
				if rv == nil || !resultFrom(rv, rev[k]) {
					bad = fmt.Sprintf("result %d (`%s`) does not derive from the %d-th primitive read (`%s`)", pr[1], Term(ret.(*ssa.Return).Results[pr[1]]), k, DescribeInstr(rev[k].in))
				}
			}
			c.Check(bad == "", "codec-fields", cons, InstrPos(rev[k].in), "", bad)
		}
	}
	// frames without fields
	for _, z := range [][2]string{{"appendPingFrame", "frameTypePing"}, {"appendHandshakeDoneFrame", "frameTypeHandshakeDone"}, {"appendPaddingTo", "frameTypePadding"}} {
		wn := "(*quic.packetWriter)." + z[0]
		if w := c.MustFn(wn); w != nil {
			wev := writerEvents(c, w)
			ok := len(wev) == 1 && wev[0].val != nil
			if ok {
				got, isC := constLeaves(wev[0].val)
				ok = isC && len(got) == 1 && got[0] == frameConst(c, z[1])
			}
			c.Check(ok, "codec-type", wn+": writes only the type byte "+z[1], w.Pos(), "", "events: "+toks(wev, false))
		}
	}
}

// resultFrom: the returned value derives from the reader event (for copy: it is the destination array).
func resultFrom(rv ssa.Value, ev wireEv) bool {
	call := ev.val.(*ssa.Call)
	if CalleeName(&call.Call) == "builtin:copy" {
		dst := XRootAlloc(BaselineArgs(&call.Call)[0])
		return dst != nil && XRootAlloc(rv) == dst
	}
	return DependsOn(rv, func(v ssa.Value) bool {
		if v == ssa.Value(call) {
			return true
		}
		e, ok := v.(*ssa.Extract)
		return ok && e.Tuple == call && e.Index == 0
	})
}

// ---------------------------------------------------------------------------
// STREAM flag bits

func evalBits(x *XPath, v ssa.Value) (int64, bool) {
	v = x.Resolve(v)
	switch y := v.(type) {
	case *ssa.Const:
		return XConstInt(y)
	case *ssa.Convert:
		return evalBits(x, y.X)
	case *ssa.BinOp:
		a, ok1 := evalBits(x, y.X)
		b, ok2 := evalBits(x, y.Y)
		if ok1 && ok2 {
			switch y.Op {
			case token.OR:
				return a | b, true
			case token.AND:
				return a & b, true
			case token.ADD:
				return a + b, true
			}
		}
	}
	return 0, false
}

func c28Stream(c *Ctx) {
	wn, rn := "(*quic.packetWriter).appendStreamFrame", "quic.consumeStreamFrame"
	w, r := c.MustFn(wn), c.MustFn(rn)
	if w == nil || r == nil {
		return
	}
	base := frameConst(c, "frameTypeStreamBase")
	offBit, _ := c.P.ConstInt("quic.streamOffBit")
	lenBit, _ := c.P.ConstInt("quic.streamLenBit")
	finBit, _ := c.P.ConstInt("quic.streamFinBit")
	c.Check(base == 8 && offBit == 4 && lenBit == 2 && finBit == 1, "codec-type", "STREAM type constants: base 0x08, OFF 0x04, LEN 0x02, FIN 0x01", token.NoPos, "", fmt.Sprintf("base=%d off=%d len=%d fin=%d", base, offBit, lenBit, finBit))
	// writer: per successful path, the type byte agrees with what is written
	offNZ, _ := c.P.ParseAtom("$1 != 0")
	finSet, _ := c.P.ParseAtom("$3")
	ps, cyc, trunc := XPaths(w, 4096)
	bad, n := "", 0
	for _, x := range ps {
		if x.Ret(1) != "true" {
			continue
		}
		n++
		var tval ssa.Value
		nv := 0
		for _, e := range x.Events {
			if e.Kind != "call" {
				continue
			}
			call := e.In.(*ssa.Call)
			switch e.On {
			case "builtin:append":
				if al, ok := isVarargs(BaselineArgs(&call.Call)[1]); ok && tval == nil && Term(BaselineArgs(&call.Call)[0]) == "$r.b" {
					tval = varargVal(al)
				}
			case qwAppendVarint:
				nv++
			}
		}
		t, ok := int64(0), false
		if tval != nil {
			t, ok = evalBits(x, tval)
		}
		switch {
		case !ok:
			bad = "type byte is not a constant along a path"
		case t&^7 != base:
			bad = fmt.Sprintf("type byte %#x is outside 0x08..0x0f", t)
		case t&lenBit == 0:
			bad = fmt.Sprintf("type byte %#x lacks the LEN bit although a length is always written", t)
		case (t&offBit != 0) != x.Holds(offNZ) || (t&offBit != 0) != (nv == 3):
			bad = fmt.Sprintf("type byte %#x: OFF bit vs off != 0 (%v) vs %d varints written", t, x.Holds(offNZ), nv)
		case t&finBit != 0 && !x.Holds(finSet):
			bad = fmt.Sprintf("type byte %#x has FIN although fin was not tested true", t)
		}
		if bad != "" {
			break
		}
	}
	c.Check(bad == "" && n > 0 && !cyc && !trunc, "codec-type", wn+": type byte bits OFF/LEN/FIN agree with the fields written on every successful path", w.Pos(), fmt.Sprintf("%d successful path(s)", n), bad+fmt.Sprintf(" (paths=%d cyclic=%v truncated=%v)", n, cyc, trunc))
	// FIN can be produced at all
	hasFin := false
	for _, x := range ps {
		if x.Ret(1) == "true" && x.Holds(finSet) {
			hasFin = true
		}
	}
	c.Check(hasFin, "codec-type", wn+": some successful path tests fin", w.Pos(), "", "no successful path depends on the fin parameter")
	// reader: the flag bits select what is read
	rev := readerEvents(r)
	if len(rev) == 3 {
		c.Guard(rn, selInstr("the offset varint", rev[1].in), "($0[0]&4) != 0")
		c.Guard(rn, selInstr("the length-prefixed data", rev[2].in), "($0[0]&2) != 0")
		// without the OFF bit the offset is zero; without LEN the data is the rest of the buffer
		succ := XRetNot(4, "-1")
		c.XRetFrom(rn, succ, 2, "b[0]&1", func(v ssa.Value) bool {
			bo, ok := v.(*ssa.BinOp)
			if !ok || bo.Op != token.AND {
				return false
			}
			k, ok := XConstInt(bo.Y)
			return ok && k == 1 && Term(bo.X) == "$0[0]"
		})
		ok := false
		for _, ret := range succ.F(c.P, r) {
			if ph, isPhi := ret.(*ssa.Return).Results[1].(*ssa.Phi); isPhi {
				for _, e := range ph.Edges {
					if k, isK := XConstInt(e); isK && k == 0 {
						ok = true
					}
				}
			}
		}
		c.Check(ok, "codec-fields", rn+": offset defaults to 0 when the OFF bit is clear", r.Pos(), "", "the returned offset is not 0 on the path without OFF")
	} else {
		c.Fail("codec-sequence", rn+": reads id, optional offset, optional length-prefixed data", r.Pos(), "events: "+toks(rev, false))
	}
}

func selInstr(name string, in ssa.Instruction) Sel {
	return XSel(name, func(p *Prog, fn *ssa.Function) []ssa.Instruction {
		if in.Parent() == fn {
			return []ssa.Instruction{in}
		}
		return nil
	})
}

// ---------------------------------------------------------------------------
// ACK

func inLoop(in ssa.Instruction) bool {
	b := in.Block()
	// b is in a cycle iff it can reach itself
	seen := map[*ssa.BasicBlock]bool{}
	var walk func(x *ssa.BasicBlock) bool
	walk = func(x *ssa.BasicBlock) bool {
		for _, s := range x.Succs {
			if s == b {
				return true
			}
			if !seen[s] {
				seen[s] = true
				if walk(s) {
					return true
				}
			}
		}
		return false
	}
	return walk(b)
}

func c28Ack(c *Ctx) {
	wn, rn := "(*quic.packetWriter).appendAckFrame", "quic.consumeAckFrame"
	w, r := c.MustFn(wn), c.MustFn(rn)
	if w == nil || r == nil {
		return
	}
	wev, rev := writerEvents(c, w), readerEvents(r)
	// type byte {0x02, 0x03}
	if len(wev) > 0 && wev[0].tok == "T" {
		got, ok := constLeaves(wev[0].val)
		want := []int64{frameConst(c, "frameTypeAck"), frameConst(c, "frameTypeAckECN")}
		c.Check(ok && fmt.Sprint(got) == fmt.Sprint(want), "codec-type", wn+": type byte ∈ {frameTypeAck, frameTypeAckECN}", InstrPos(wev[0].in), fmt.Sprint(got), fmt.Sprintf("got %v", got))
	} else {
		c.Fail("codec-type", wn+": type byte ∈ {frameTypeAck, frameTypeAckECN}", w.Pos(), "events: "+toks(wev, false))
	}
	// split into pre-loop / in-loop / post-loop
	split := func(evs []wireEv) (pre, loop, post []wireEv) {
		for _, e := range evs {
			if e.tok == "T" {
				continue
			}
			switch {
			case inLoop(e.in):
				loop = append(loop, e)
			case len(loop) == 0:
				pre = append(pre, e)
			default:
				post = append(post, e)
			}
		}
		return
	}
	wpre, wloop, wpost := split(wev)
	rpre, rloop, rpost := split(rev)
	// writer: largest, delay, count byte, first range | (gap, size)* | t0 t1 ce ; reader: largest, delay, count | (size [stop] gap)* | t0 t1 ce
	c.Check(toks(wpre, false) == "v v u8 v" && toks(rpre, false) == "v v v", "codec-sequence", wn+" ~ "+rn+": header (largest, delay, range count[, first range])", w.Pos(),
		"writer ["+toks(wpre, false)+"] reader ["+toks(rpre, false)+"]", "writer ["+toks(wpre, false)+"] reader ["+toks(rpre, false)+"] (the reader takes the first range inside its loop)")
	c.Check(toks(wloop, false) == "v v" && toks(rloop, false) == "v v", "codec-sequence", wn+" ~ "+rn+": two varints per additional range", w.Pos(), "", "writer loop ["+toks(wloop, false)+"] reader loop ["+toks(rloop, false)+"]")
	c.Check(toks(wpost, false) == "v v v" && toks(rpost, false) == "v v v", "codec-sequence", wn+" ~ "+rn+": ECN tail of three varints", w.Pos(), "", "writer tail ["+toks(wpost, false)+"] reader tail ["+toks(rpost, false)+"]")
	if len(wpre) == 4 && len(rpre) == 3 && len(wpost) == 3 && len(rpost) == 3 && len(wloop) == 2 && len(rloop) == 2 {
		// header fields
		c.Check(DependsOn(wpre[0].val, IsCallTo("(quic.rangeset[quic.packetNumber]).max[quic.packetNumber]")), "codec-fields", wn+": first varint is seen.max()", InstrPos(wpre[0].in), "", "got "+Term(wpre[0].val))
		c.Check(DependsOn(wpre[1].val, func(v ssa.Value) bool { return v == w.Params[2] }), "codec-fields", wn+": second varint is the delay parameter", InstrPos(wpre[1].in), "", "got "+Term(wpre[1].val))
		succ := XRetNot(3, "-1")
		c.XRetFrom(rn, succ, 0, "the first varint read", XResultOfCall(rpre[0].in, 0))
		c.XRetFrom(rn, succ, 1, "the second varint read", XResultOfCall(rpre[1].in, 0))
		// the range count read bounds the loop
		foundStop := false
		for _, b := range r.Blocks {
			if ifi, ok := b.Instrs[len(b.Instrs)-1].(*ssa.If); ok && inLoop(ifi) {
				if bo, ok := ifi.Cond.(*ssa.BinOp); ok && bo.Op == token.EQL {
					if XResultOfCall(rpre[2].in, 0)(bo.X) || XResultOfCall(rpre[2].in, 0)(bo.Y) {
						// the stop test sits between the two in-loop reads
						foundStop = InstrPos(ifi) > InstrPos(rloop[0].in) && InstrPos(ifi) < InstrPos(rloop[1].in)
					}
				}
			}
		}
		c.Check(foundStop, "codec-sequence", rn+": the loop stops on i == range count between the range length and the gap", r.Pos(), "", "no such test")
		// the count byte is patched with the number of ranges appended
		patched := false
		for _, b := range w.Blocks {
			for _, in := range b.Instrs {
				if st, ok := in.(*ssa.Store); ok {
					if ia, ok := st.Addr.(*ssa.IndexAddr); ok && Term(ia.X) == "$r.b" {
						if _, isPhi := st.Val.(*ssa.Phi); isPhi {
							patched = true
						}
					}
				}
			}
		}
		c.Check(patched, "codec-fields", wn+": the reserved range-count byte is overwritten with the loop counter", w.Pos(), "", "no store of a loop-carried count into w.b")
		// ECN tail: same field order on both sides
		ecnF := []string{"t0", "t1", "ce"}
		for k, f := range ecnF {
			c.Check(Term(wpost[k].val) == "$2."+f, "codec-fields", fmt.Sprintf("%s: ECN varint %d is ecn.%s", wn, k, f), InstrPos(wpost[k].in), "", "got "+Term(wpost[k].val))
			sel := Stores("quic.ecnCounts." + f)
			c.StoredFrom(rn, sel, fmt.Sprintf("ECN varint %d", k), XResultOfCall(rpost[k].in, 0))
		}
		// ECN tail only for type 0x03, on both sides
		for _, e := range rpost {
			c.Guard(rn, selInstr("ECN varint read", e.in), "$0[0] == 3")
		}
		c.Reject(rn, succ.Where("without ECN", func(in ssa.Instruction) bool {
			return !rpost[0].in.Block().Dominates(in.Block())
		}), "$0[0] == 3")
		ecnT, _ := c.P.ParseAtom("$0[0] != 3")
		_ = ecnT
		// writer: tail iff the type byte written is 0x03, which is chosen iff ecn != zero
		if tph, ok := wev[0].val.(*ssa.Phi); ok {
			okTail := true
			for _, e := range wpost {
				g := false
				for _, f := range FactsAtInstr(e.in) {
					if bo, ok := f.If.Cond.(*ssa.BinOp); ok && (bo.X == ssa.Value(tph) || bo.Y == ssa.Value(tph)) {
						if k, ok := XConstInt(bo.Y); ok && k == 3 && bo.Op == token.EQL && f.If.Block().Succs[0].Dominates(e.in.Block()) {
							g = true
						}
					}
				}
				okTail = okTail && g
			}
			c.Check(okTail, "codec-type", wn+": ECN tail written only under type byte == frameTypeAckECN", w.Pos(), "", "an ECN varint is not guarded by the test of the type byte")
		} else {
			c.Fail("codec-type", wn+": ECN tail written only under type byte == frameTypeAckECN", w.Pos(), "type byte is not a two-valued variable")
		}
	}
}

// ---------------------------------------------------------------------------
// bidi/uni <-> type constant

func c28TypeMaps(c *Ctx) {
	bidi, _ := c.P.ConstInt("quic.bidiStream")
	uni, _ := c.P.ConstInt("quic.uniStream")
	for _, z := range []struct{ name, cb, cu string }{
		{"MaxStreams", "frameTypeMaxStreamsBidi", "frameTypeMaxStreamsUni"},
		{"StreamsBlocked", "frameTypeStreamsBlockedBidi", "frameTypeStreamsBlockedUni"},
	} {
		wn, rn := "(*quic.packetWriter).append"+z.name+"Frame", "quic.consume"+z.name+"Frame"
		w, r := c.MustFn(wn), c.MustFn(rn)
		if w == nil || r == nil {
			continue
		}
		kb, ku := frameConst(c, z.cb), frameConst(c, z.cu)
		isBidi, _ := c.P.ParseAtom(fmt.Sprintf("$0 == %d", bidi))
		// writer
		ps, cyc, _ := XPaths(w, 1024)
		bad, n := "", 0
		for _, x := range ps {
			if x.Ret(0) != "true" {
				continue
			}
			n++
			for _, e := range x.Events {
				if e.Kind == "call" && e.On == "builtin:append" {
					if al, ok := isVarargs(BaselineArgs(&e.In.(*ssa.Call).Call)[1]); ok {
						t, okc := evalBits(x, varargVal(al))
						want := ku
						if x.Holds(isBidi) {
							want = kb
						} else if !x.Holds(isBidi.Negate()) {
							bad = "a successful path does not test the stream type"
						}
						if !okc || t != want {
							bad = fmt.Sprintf("stream type bidi=%v writes type byte %#x, want %#x", x.Holds(isBidi), t, want)
						}
					}
				}
			}
		}
		c.Check(bad == "" && n >= 2 && !cyc, "codec-type", wn+": bidiStream -> "+z.cb+", otherwise "+z.cu, w.Pos(), fmt.Sprintf("%d path(s)", n), bad)
		// reader: for each type byte value, the successful paths consistent with it return the matching stream type
		rps, rcyc, _ := XPaths(r, 1024)
		nres := r.Signature.Results().Len()
		bad, n = "", 0
		for _, tv := range []struct{ t, want int64 }{{kb, bidi}, {ku, uni}} {
			found := false
			for _, x := range rps {
				if x.Ret(nres-1) == "-1" || x.Ret(nres-1) == "" {
					continue
				}
				consistent := true
				for _, a := range x.Conds {
					for k := int64(0); k < 256; k++ {
						eq, _ := c.P.ParseAtom(fmt.Sprintf("$0[0] == %d", k))
						if SameAtom(a, eq) && k != tv.t {
							consistent = false
						}
						if SameAtom(a, eq.Negate()) && k == tv.t {
							consistent = false
						}
					}
				}
				if !consistent {
					continue
				}
				found = true
				n++
				if x.Ret(0) != fmt.Sprint(tv.want) {
					bad = fmt.Sprintf("type byte %#x decodes to stream type %s, want %d", tv.t, x.Ret(0), tv.want)
				}
			}
			if !found {
				bad = fmt.Sprintf("no successful path for type byte %#x", tv.t)
			}
		}
		c.Check(bad == "" && !rcyc, "codec-type", rn+": "+z.cb+" -> bidiStream, "+z.cu+" -> uniStream", r.Pos(), fmt.Sprintf("%d path(s)", n), bad)
	}
}

// ---------------------------------------------------------------------------
// validation guards of the frame parsers

func consumeFns(c *Ctx) []string {
	var out []string
	for _, fn := range c.P.All {
		n := FnName(fn)
		if strings.HasPrefix(n, "quic.consume") && strings.HasSuffix(n, "Frame") {
			out = append(out, n)
		}
	}
	return out
}

// lengthChecked: every quicwire.Consume* call of fn has its length result tested < 0 on every path to accept.
func lengthChecked(c *Ctx, fnName string, accept Sel, only ...func(*ssa.Call) bool) {
	fn := c.MustFn(fnName)
	if fn == nil {
		return
	}
	ord := map[string]int{}
	var calls []ssa.Instruction
	calls = append(calls, Calls(qwConsumers...).F(c.P, fn)...)
	if len(calls) == 0 {
		return
	}
	sort.SliceStable(calls, func(i, j int) bool { return InstrPos(calls[i]) < InstrPos(calls[j]) })
	for _, in := range calls {
		if len(only) > 0 && !only[0](in.(*ssa.Call)) {
			continue
		}
		short := CalleeName(in.(*ssa.Call).Common())
		short = short[strings.LastIndex(short, ".")+1:]
		ord[short]++
		sel := selInstr(fmt.Sprintf("%s call #%d", short, ord[short]), in)
		c.XCheckedAfter(fnName, sel, accept, "§n < 0", XH("§n", "its length result", XResultOfCall(in, 1)))
	}
}

func c28ConsumeGuards(c *Ctx) {
	fns := consumeFns(c)
	if len(fns) < 18 {
		c.Undecided("anchor", "quic.consume*Frame", fmt.Sprintf("only %d consume functions found", len(fns)))
	}
	for _, fnName := range fns {
		fn := c.P.Fn(fnName)
		lengthChecked(c, fnName, XRetNot(fn.Signature.Results().Len()-1, "-1"))
	}
	succ := func(fn string) Sel { return XRetNot(c.P.Fn(fn).Signature.Results().Len()-1, "-1") }
	maxStreams, _ := c.P.ConstInt("quic.maxStreamsLimit")
	c.Check(maxStreams == 1<<60, "constant", "quic.maxStreamsLimit = 2^60", token.NoPos, "", fmt.Sprint(maxStreams))

	f := "quic.consumeMaxStreamsFrame"
	c.XReject(f, succ(f), "§v > 1152921504606846976", XH("§v", "the varint read", XResultOf(0, qwConsumeVarint)))
	c.XRetFrom(f, succ(f), 1, "the varint read", XResultOf(0, qwConsumeVarint))
	c.Reject(f, succ(f), "$0[0] != 18", "$0[0] != 19")

	f = "quic.consumeStreamFrame"
	isPhiFrom := func(names ...string) func(ssa.Value) bool {
		return func(v ssa.Value) bool {
			_, ok := v.(*ssa.Phi)
			return ok && DependsOn(v, XResultOf(0, names...))
		}
	}
	c.XReject(f, succ(f), "§o + len(§d) >= 4611686018427387904", XH("§o", "the offset (0 or the varint read)", isPhiFrom(qwConsumeVarint)), XH("§d", "the data (length-prefixed or rest)", isPhiFrom(qwConsumeVarintByt)))

	f = "quic.consumeNewTokenFrame"
	c.XReject(f, succ(f), "len(§d) == 0", XH("§d", "the token read", XResultOf(0, qwConsumeVarintByt)))

	f = "quic.consumeNewConnectionIDFrame"
	if fn := c.MustFn(f); fn != nil {
		rev := readerEvents(fn)
		if len(rev) >= 3 {
			c.XReject(f, succ(f), "§s < §r", XH("§s", "sequence number (1st varint)", XResultOfCall(rev[0].in, 0)), XH("§r", "retire prior to (2nd varint)", XResultOfCall(rev[1].in, 0)))
		} else {
			c.Fail("reject-before", f+": seq < retire", fn.Pos(), "reader events: "+toks(rev, false))
		}
	}
	cid := XH("§c", "the connection ID read", XResultOf(0, qwConsumeVarintByt))
	c.XReject(f, succ(f), "len(§c) < 1", cid)
	c.XReject(f, succ(f), "len(§c) > 20", cid)
	c.XReject(f, succ(f), "len(§b) < 16", XH("§b", "the rest of the buffer", func(v ssa.Value) bool {
		sl, ok := v.(*ssa.Slice)
		return ok && Term(sl.X) == "$0"
	}))

	f = "quic.consumePathChallengeFrame"
	c.XReject(f, succ(f), "§n != 8", XH("§n", "bytes copied", XResultOf(-1, "builtin:copy")))

	f = "quic.consumeAckFrame"
	if fn := c.MustFn(f); fn != nil {
		var loopReads []wireEv
		for _, e := range readerEvents(fn) {
			if inLoop(e.in) {
				loopReads = append(loopReads, e)
			}
		}
		if len(loopReads) == 2 {
			rl := XH("§l", "the range length read", XResultOfCall(loopReads[0].in, 0))
			isPhi := func(v ssa.Value) bool { _, ok := v.(*ssa.Phi); return ok }
			from := selInstr("range length read", loopReads[0].in)
			c.XCheckedAfter(f, from, succ(f), "§m < §l", XH("§m", "the current range maximum", isPhi), rl)
			c.XCheckedAfter(f, from, succ(f), "§l < 0", rl)
		} else {
			c.Fail("checked-after", f+": range underflow tests", fn.Pos(), fmt.Sprintf("%d reads inside the loop", len(loopReads)))
		}
	}
}

// ---------------------------------------------------------------------------
// dispatch tables

type caseInfo struct {
	vals    []int64
	callees []string
	pos     token.Pos
}

// switchOnFirstByte collects the clauses of every `switch x[0]` in fn whose clauses contain calls.
func switchOnFirstByte(c *Ctx, fn *ssa.Function) (cases []caseInfo, hasDefault bool, defaultCalls []string) {
	pk := c.P.PkgOfFn(fn)
	calleesOf := func(n ast.Node) []string {
		var out []string
		ast.Inspect(n, func(x ast.Node) bool {
			if _, isLit := x.(*ast.FuncLit); isLit {
				return false
			}
			call, ok := x.(*ast.CallExpr)
			if !ok {
				return true
			}
			var id *ast.Ident
			switch f := call.Fun.(type) {
			case *ast.Ident:
				id = f
			case *ast.SelectorExpr:
				id = f.Sel
			}
			if id != nil {
				if fobj, ok := pk.TypesInfo.Uses[id].(*types.Func); ok {
					if sf := c.P.SSA.FuncValue(fobj); sf != nil {
						out = append(out, FnName(sf))
					}
				}
			}
			return true
		})
		return out
	}
	ast.Inspect(fn.Syntax(), func(n ast.Node) bool {
		sw, ok := n.(*ast.SwitchStmt)
		if !ok || sw.Tag == nil {
			return true
		}
		ix, ok := sw.Tag.(*ast.IndexExpr)
		if !ok {
			return true
		}
		if v, ok := IntOf(pk, ix.Index); !ok || v != 0 {
			return true
		}
		var cs []caseInfo
		def := false
		var defCalls []string
		anyCall := false
		for _, cl := range sw.Body.List {
			cc := cl.(*ast.CaseClause)
			var callees []string
			for _, st := range cc.Body {
				callees = append(callees, calleesOf(st)...)
			}
			if cc.List == nil {
				def = true
				defCalls = callees
				continue
			}
			ci := caseInfo{pos: cc.Pos(), callees: callees}
			for _, e := range cc.List {
				if v, ok := IntOf(pk, e); ok {
					ci.vals = append(ci.vals, v)
				}
			}
			anyCall = anyCall || len(callees) > 0
			cs = append(cs, ci)
		}
		if anyCall {
			cases = append(cases, cs...)
			hasDefault = hasDefault || def
			defaultCalls = append(defaultCalls, defCalls...)
		}
		return true
	})
	return
}

// reaches: fn is target or calls it directly.
func reaches(c *Ctx, fnName, target string) bool {
	if fnName == target {
		return true
	}
	fn := c.P.Fn(fnName)
	if fn == nil {
		return false
	}
	for _, f := range Closures(fn) {
		if len(AnyCalls(target).F(c.P, f)) > 0 {
			return true
		}
	}
	return false
}

func c28Dispatch(c *Ctx) {
	// expected consumer per type value, derived from the codec table
	want := map[int64]string{}
	names := map[int64]string{}
	for _, fp := range framePairs {
		for _, cn := range fp.consts {
			want[frameConst(c, cn)] = "quic.consume" + fp.name + "Frame"
			names[frameConst(c, cn)] = cn
		}
	}
	for k := int64(0); k < 8; k++ {
		want[frameConst(c, "frameTypeStreamBase")+k] = "quic.consumeStreamFrame"
		names[frameConst(c, "frameTypeStreamBase")+k] = fmt.Sprintf("frameTypeStreamBase|%d", k)
	}
	want[frameConst(c, "frameTypeAck")] = "quic.consumeAckFrame"
	want[frameConst(c, "frameTypeAckECN")] = "quic.consumeAckFrame"
	names[frameConst(c, "frameTypeAck")], names[frameConst(c, "frameTypeAckECN")] = "frameTypeAck", "frameTypeAckECN"
	for _, z := range []string{"frameTypePadding", "frameTypePing", "frameTypeHandshakeDone"} {
		want[frameConst(c, z)] = ""
		names[frameConst(c, z)] = z
	}
	// every frameType* constant of the package is in the table
	if pk := c.P.Pkg("quic"); pk != nil {
		var missing []string
		n := 0
		for _, nm := range pk.Types.Scope().Names() {
			if k, ok := pk.Types.Scope().Lookup(nm).(*types.Const); ok && strings.HasPrefix(nm, "frameType") {
				n++
				v, _ := constant.Int64Val(constant.ToInt(k.Val()))
				if _, ok := want[v]; !ok {
					missing = append(missing, nm)
				}
			}
		}
		c.Check(len(missing) == 0 && n >= 24, "codec-table", "every frameType constant has a writer/reader row", token.NoPos, fmt.Sprintf("%d constants", n), "constants without a codec row: "+strings.Join(missing, ", "))
	}
	var keys []int64
	for k := range want {
		keys = append(keys, k)
	}
	sort.Slice(keys, func(i, j int) bool { return keys[i] < keys[j] })
	for _, d := range []struct{ fn, what string }{{"(*quic.Conn).handleFrames", "handleFrames"}, {"quic.parseDebugFrame", "parseDebugFrame"}} {
		fn := c.MustFn(d.fn)
		if fn == nil {
			continue
		}
		cases, _, defCalls := switchOnFirstByte(c, fn)
		byVal := map[int64]*caseInfo{}
		for i := range cases {
			for _, v := range cases[i].vals {
				byVal[v] = &cases[i]
			}
		}
		for _, k := range keys {
			construct := fmt.Sprintf("%s: case %s (%#02x) reaches %s", d.fn, names[k], k, want[k])
			if want[k] == "" {
				construct = fmt.Sprintf("%s: case %s (%#02x) exists", d.fn, names[k], k)
			}
			ci := byVal[k]
			if ci == nil {
				c.Fail("dispatch", construct, fn.Pos(), "no case for this frame type")
				continue
			}
			if want[k] == "" {
				c.OK("dispatch", construct, "")
				continue
			}
			ok := false
			for _, callee := range ci.callees {
				ok = ok || reaches(c, callee, want[k])
			}
			c.Check(ok, "dispatch", construct, ci.pos, strings.Join(ci.callees, ","), "the case calls {"+strings.Join(ci.callees, ", ")+"}, none of which is or directly calls "+want[k])
		}
		// no case outside the table
		var extra []string
		for v := range byVal {
			if _, ok := want[v]; !ok {
				extra = append(extra, fmt.Sprintf("%#x", v))
			}
		}
		sort.Strings(extra)
		c.Check(len(extra) == 0 && len(defCalls) == 0, "dispatch", d.fn+": no frame type handled outside the codec table; unknown types call nothing", fn.Pos(), "", "extra cases: "+strings.Join(extra, ",")+" default calls: "+strings.Join(defCalls, ","))
	}
	// handleFrames: n < 0 aborts before the payload is advanced
	hf := "(*quic.Conn).handleFrames"
	isN := func(v ssa.Value) bool {
		ph, ok := v.(*ssa.Phi)
		if !ok {
			return false
		}
		for _, e := range ph.Edges {
			if k, ok := XConstInt(e); ok && k == -1 {
				return true
			}
		}
		return false
	}
	adv := XSel("payload = payload[n:]", func(p *Prog, fn *ssa.Function) []ssa.Instruction {
		var out []ssa.Instruction
		for _, b := range fn.Blocks {
			for _, in := range b.Instrs {
				if sl, ok := in.(*ssa.Slice); ok && sl.Low != nil && isN(sl.Low) {
					out = append(out, in)
				}
			}
		}
		return out
	})
	c.XReject(hf, adv, "§n < 0", XH("§n", "the consumed length (initially -1)", isN))
	// parseDebugFrame: unknown type -> -1
	pd := "quic.parseDebugFrame"
	c.Reject(pd, XRetNot(1, "-1"), "len($0) == 0")
}

// ---------------------------------------------------------------------------
// consume*Frame are entered with at least the type byte

func c28NonEmpty(c *Ctx) {
	type key struct {
		fn  *ssa.Function
		idx int
	}
	memo := map[key]string{} // "" = ok
	var need func(fn *ssa.Function, idx int, depth int) string
	need = func(fn *ssa.Function, idx int, depth int) string {
		k := key{fn, idx}
		if r, ok := memo[k]; ok {
			return r
		}
		memo[k] = ""
		if depth > 6 {
			return "call chain too deep"
		}
		refs := c.P.FuncRefs(fn)
		if len(refs) == 0 {
			return ""
		}
		for _, r := range refs {
			ci, ok := r.In.(ssa.CallInstruction)
			if !ok || r.Kind == "value" || ci.Common().StaticCallee() != fn {
				memo[k] = fmt.Sprintf("%s is used as a value in %s", FnName(fn), r.Fn)
				return memo[k]
			}
			arg := BaselineArgs(ci.Common())[idx]
			if par, ok := arg.(*ssa.Parameter); ok {
				caller := par.Parent()
				pi := -1
				for i, q := range caller.Params {
					if q == par {
						pi = i
					}
				}
				if why := need(caller, pi, depth+1); why != "" {
					memo[k] = why
					return why
				}
				continue
			}
			// otherwise a dominating test len(arg) > 0 / != 0
			guarded := false
			for _, f := range FactsAtInstr(r.In) {
				for _, spec := range []string{"len(§b) > 0", "len(§b) != 0"} {
					hole := XH("§b", "the buffer", func(v ssa.Value) bool { return v == arg })
					if kk, ok := c.XMatchIf(f.If, spec, hole); ok && f.If.Block().Succs[kk].Dominates(r.In.Block()) {
						guarded = true
					}
				}
			}
			if !guarded {
				memo[k] = fmt.Sprintf("%s calls %s with `%s` without a dominating len > 0 test (%s)", r.Fn, FnName(fn), Term(arg), c.P.Pos(InstrPos(r.In)))
				return memo[k]
			}
		}
		return ""
	}
	for _, fnName := range consumeFns(c) {
		fn := c.P.Fn(fnName)
		why := need(fn, 0, 0)
		c.Check(why == "", "precondition", fnName+": reached only with a non-empty buffer (b[0] is the type byte)", fn.Pos(), "", why)
	}
}

// ---------------------------------------------------------------------------
// long header packets

func c28LongHeader(c *Ctx) {
	f := "quic.parseLongHeaderPacket"
	succ := XRetNot(1, "-1")
	lengthChecked(c, f, succ)
	c.Reject(f, succ, "len($0) < 5")
	c.Reject(f, succ, "!isLongHeader($0[0])")
	L := "quic.longPacket."
	c.XCheckedAfter(f, Stores(L+"ptype"), succ, "§t == 0", XH("§t", "p.ptype (packetTypeInvalid = 0)", c.P.XLoadOf(L+"ptype")))
	c.StoredFrom(f, Stores(L+"ptype"), "getPacketType(pkt)", IsCallTo("quic.getPacketType"))
	if v, ok := c.P.ConstInt("quic.packetTypeInvalid"); !ok || v != 0 {
		c.Fail("constant", "quic.packetTypeInvalid = 0", token.NoPos, fmt.Sprint(v))
	}
	fn := c.MustFn(f)
	if fn == nil {
		return
	}
	for _, fld := range []string{"dstConnID", "srcConnID"} {
		c.XCheckedAfter(f, Stores(L+fld), succ, "len(§c) > 20", XH("§c", "p."+fld, c.P.XLoadOf(L+fld)))
		c.StoredFrom(f, Stores(L+fld), "a length-prefixed read", IsCallTo(qwConsumeUint8Bytes))
	}
	// the declared payload length fits in what is left
	trunc := XSel("pkt[:pnumOff+payLen]", func(p *Prog, fn *ssa.Function) []ssa.Instruction {
		var out []ssa.Instruction
		for _, b := range fn.Blocks {
			for _, in := range b.Instrs {
				if sl, ok := in.(*ssa.Slice); ok && sl.High != nil && Term(sl.X) == "$0" {
					out = append(out, in)
				}
			}
		}
		return out
	})
	c.XReject(f, trunc, "len(§b) < §l", XH("§b", "the remaining bytes", func(v ssa.Value) bool { _, ok := v.(*ssa.Slice); return ok }),
		XH("§l", "the Length field", XResultOf(0, qwConsumeVarint)))
	c.XCheckedAfter(f, Stores(L+"version"), succ, "§v == 0", XH("§v", "p.version", c.P.XLoadOf(L+"version")))
	// header protection removal needs 4 bytes of packet number space plus the sample
	hk := "(quic.headerKey).unprotect"
	c.Reject(hk, XRetOK(), "len($0) < $1 + 20")
	c.Reject(hk, Indexing("$0"), "len($0) < $1 + 20")
	// short header
	c.Has("quic.parse1RTTPacket", Calls("(*quic.updatingKeyPair).unprotect").ArgIs(1, "$0").ArgIs(2, "(1+$2)"))
	c.XReject("quic.parse1RTTPacket", XRetOK(), "§e != nil", XH("§e", "error of unprotect", XResultOf(2, "(*quic.updatingKeyPair).unprotect")))
}

// ---------------------------------------------------------------------------
// transport parameters

type tpEntry struct {
	id     int64
	name   string
	kind   string // int, bytes, flag, struct
	fields []string
	skip   constant.Value // marshal: not written when the (scaled) value equals this; nil for != nil / bool tests
	pos    token.Pos
}

func fieldsOf(pk interface {
	ObjectOf(*ast.Ident) types.Object
}, n ast.Node, recv types.Object, assignedOnly bool) []string {
	set := map[string]bool{}
	add := func(e ast.Expr) {
		ast.Inspect(e, func(x ast.Node) bool {
			if se, ok := x.(*ast.SelectorExpr); ok {
				if id, ok := se.X.(*ast.Ident); ok && pk.ObjectOf(id) == recv {
					set[se.Sel.Name] = true
				}
			}
			return true
		})
	}
	ast.Inspect(n, func(x ast.Node) bool {
		if assignedOnly {
			if as, ok := x.(*ast.AssignStmt); ok {
				for _, l := range as.Lhs {
					add(l)
				}
			}
			return true
		}
		if e, ok := x.(ast.Expr); ok {
			add(e)
			return false
		}
		return true
	})
	var out []string
	for k := range set {
		out = append(out, k)
	}
	sort.Strings(out)
	return out
}

func callNames(pkInfo *types.Info, n ast.Node) []string {
	var out []string
	ast.Inspect(n, func(x ast.Node) bool {
		call, ok := x.(*ast.CallExpr)
		if !ok {
			return true
		}
		switch f := call.Fun.(type) {
		case *ast.SelectorExpr:
			if fo, ok := pkInfo.Uses[f.Sel].(*types.Func); ok {
				out = append(out, fo.Name())
			}
		case *ast.Ident:
			if _, ok := pkInfo.Uses[f].(*types.Builtin); ok {
				out = append(out, "builtin:"+f.Name)
			}
		}
		return true
	})
	return out
}

func count(ss []string, s string) int {
	n := 0
	for _, x := range ss {
		if x == s {
			n++
		}
	}
	return n
}

func c28TransportParams(c *Ctx) {
	mn, un := "quic.marshalTransportParameters", "quic.unmarshalTransportParams"
	m, u := c.MustFn(mn), c.MustFn(un)
	if m == nil || u == nil {
		return
	}
	pk := c.P.PkgOfFn(m)
	info := pk.TypesInfo
	// --- marshal: one top-level if per parameter
	md := m.Syntax().(*ast.FuncDecl)
	precv := info.ObjectOf(md.Type.Params.List[0].Names[0])
	var written []tpEntry
	for _, st := range md.Body.List {
		ifs, ok := st.(*ast.IfStmt)
		if !ok {
			continue
		}
		e := tpEntry{id: -1, pos: ifs.Pos()}
		// id: first call in the body writes a constant
		ast.Inspect(ifs.Body, func(x ast.Node) bool {
			if call, ok := x.(*ast.CallExpr); ok && e.id < 0 && len(call.Args) == 2 {
				if v, ok := IntOf(pk, call.Args[1]); ok {
					e.id = v
					if id, ok := call.Args[1].(*ast.Ident); ok {
						e.name = id.Name
					}
				}
			}
			return e.id < 0
		})
		var hdr []ast.Node
		if ifs.Init != nil {
			hdr = append(hdr, ifs.Init)
		}
		hdr = append(hdr, ifs.Cond)
		fs := map[string]bool{}
		for _, h := range hdr {
			for _, f := range fieldsOf(info, h, precv, false) {
				fs[f] = true
			}
		}
		for _, f := range fieldsOf(info, ifs.Body, precv, false) {
			fs[f] = true
		}
		for f := range fs {
			e.fields = append(e.fields, f)
		}
		sort.Strings(e.fields)
		calls := callNames(info, ifs.Body)
		switch {
		case count(calls, "AppendVarint") == 3 && len(calls) >= 3 && count(calls, "AppendVarintBytes") == 0:
			e.kind = "int"
		case count(calls, "AppendVarint") == 1 && count(calls, "AppendVarintBytes") == 1:
			e.kind = "bytes"
		case count(calls, "AppendVarint") == 1 && count(calls, "builtin:append") == 1 && len(calls) == 2:
			e.kind = "flag"
		case count(calls, "AppendUint8Bytes") == 1 && count(calls, "AppendUint16") == 2:
			e.kind = "struct"
		default:
			e.kind = "?" + strings.Join(calls, ",")
		}
		if be, ok := ifs.Cond.(*ast.BinaryExpr); ok && be.Op == token.NEQ {
			e.skip = ConstOf(pk, be.Y)
		}
		written = append(written, e)
	}
	// --- unmarshal: switch on the id
	ud := u.Syntax().(*ast.FuncDecl)
	var urecv types.Object // the local `p`
	var sw *ast.SwitchStmt
	var trailing *ast.IfStmt
	ast.Inspect(ud.Body, func(x ast.Node) bool {
		switch y := x.(type) {
		case *ast.SwitchStmt:
			if sw == nil && y.Tag != nil {
				sw = y
			}
		case *ast.AssignStmt:
			if urecv == nil && y.Tok == token.DEFINE && len(y.Lhs) == 1 {
				if call, ok := y.Rhs[0].(*ast.CallExpr); ok {
					if id, ok := call.Fun.(*ast.Ident); ok && id.Name == "defaultTransportParameters" {
						urecv = info.ObjectOf(y.Lhs[0].(*ast.Ident))
					}
				}
			}
		}
		return true
	})
	if sw == nil || urecv == nil {
		c.Undecided("tp-table", un+": switch over parameter ids on a value initialised by defaultTransportParameters()", "idiom not recognised")
		return
	}
	// the statement after the switch in the same block is the trailing-bytes test; find the variable it compares
	var nObj types.Object
	ast.Inspect(ud.Body, func(x ast.Node) bool {
		blk, ok := x.(*ast.BlockStmt)
		if !ok {
			return true
		}
		for i, st := range blk.List {
			if st == ast.Stmt(sw) && i+1 < len(blk.List) {
				if ifs, ok := blk.List[i+1].(*ast.IfStmt); ok {
					if be, ok := ifs.Cond.(*ast.BinaryExpr); ok && be.Op == token.NEQ {
						if id, ok := be.X.(*ast.Ident); ok {
							if call, ok := be.Y.(*ast.CallExpr); ok {
								if fid, ok := call.Fun.(*ast.Ident); ok && fid.Name == "len" {
									trailing = ifs
									nObj = info.ObjectOf(id)
								}
							}
						}
					}
				}
			}
		}
		return true
	})
	c.Check(trailing != nil, "tp-table", un+": the switch is followed by the trailing-bytes test n != len(val)", u.Pos(), "", "no `if n != len(val)` directly after the switch")
	read := map[int64]tpEntry{}
	hasDefault := false
	for _, cl := range sw.Body.List {
		cc := cl.(*ast.CaseClause)
		if cc.List == nil {
			hasDefault = true
			continue
		}
		for _, ce := range cc.List {
			id, ok := IntOf(pk, ce)
			if !ok {
				continue
			}
			e := tpEntry{id: id, pos: cc.Pos()}
			body := &ast.BlockStmt{List: cc.Body}
			e.fields = fieldsOf(info, body, urecv, true)
			calls := callNames(info, body)
			nAssigned := false
			ast.Inspect(body, func(x ast.Node) bool {
				if as, ok := x.(*ast.AssignStmt); ok && len(as.Rhs) == 1 {
					if call, ok := as.Rhs[0].(*ast.CallExpr); ok && len(as.Lhs) == 2 {
						if se, ok := call.Fun.(*ast.SelectorExpr); ok && strings.HasPrefix(se.Sel.Name, "ConsumeVarint") && se.Sel.Name != "ConsumeVarintBytes" {
							if id, ok := as.Lhs[1].(*ast.Ident); ok && nObj != nil && info.ObjectOf(id) == nObj {
								nAssigned = true
							}
						}
					}
				}
				return true
			})
			nInt := count(calls, "ConsumeVarint") + count(calls, "ConsumeVarintInt64")
			switch {
			case nInt == 1 && nAssigned:
				e.kind = "int"
			case nInt == 1:
				e.kind = "int(consumed length does not reach the trailing-bytes test)"
			case count(calls, "ConsumeUint8Bytes") == 1 && count(calls, "Uint16") == 2:
				e.kind = "struct"
			case len(e.fields) == 1 && nInt == 0 && count(calls, "builtin:len") >= 1:
				e.kind = "bytes"
			case len(e.fields) == 1 && len(calls) == 0:
				e.kind = "flag"
			default:
				e.kind = "?" + strings.Join(calls, ",")
			}
			read[id] = e
		}
	}
	c.Check(hasDefault, "tp-table", un+": unknown parameter ids are skipped by a default clause", u.Pos(), "", "no default clause: unknown ids must be ignored (RFC 9000 7.4.2)")
	// --- compare
	c.Check(len(written) >= 17, "tp-table", mn+": 17 parameters written", m.Pos(), fmt.Sprintf("%d", len(written)), fmt.Sprintf("only %d `if` blocks recognised", len(written)))
	seen := map[int64]bool{}
	for _, w := range written {
		construct := fmt.Sprintf("transport parameter %#02x (%s): marshal ~ unmarshal", w.id, w.name)
		if w.id < 0 || seen[w.id] {
			c.Fail("tp-table", construct, w.pos, "id not recognised or written twice")
			continue
		}
		seen[w.id] = true
		r, ok := read[w.id]
		if !ok {
			c.Fail("tp-table", construct, w.pos, "written by marshalTransportParameters but unmarshalTransportParams has no case for it (it would be ignored)")
			continue
		}
		if w.kind != r.kind || strings.HasPrefix(w.kind, "?") {
			c.Fail("tp-table", construct, r.pos, fmt.Sprintf("value kind written: %s, read: %s", w.kind, r.kind))
			continue
		}
		if strings.Join(w.fields, ",") != strings.Join(r.fields, ",") {
			c.Fail("tp-table", construct, r.pos, fmt.Sprintf("marshal reads fields {%s} but unmarshal assigns {%s}", strings.Join(w.fields, ","), strings.Join(r.fields, ",")))
			continue
		}
		c.OK("tp-table", construct, w.kind+" "+strings.Join(w.fields, ","))
	}
	// --- defaults: what marshal omits is what unmarshal starts from
	defaults := map[string]constant.Value{}
	if dfn := c.MustFn("quic.defaultTransportParameters"); dfn != nil {
		ast.Inspect(dfn.Syntax(), func(x ast.Node) bool {
			if cl, ok := x.(*ast.CompositeLit); ok {
				for _, el := range cl.Elts {
					k, v := KV(el)
					if id, ok := k.(*ast.Ident); ok {
						defaults[id.Name] = ConstOf(pk, v)
					}
				}
			}
			return true
		})
	}
	c.Check(len(defaults) == 4, "tp-defaults", "quic.defaultTransportParameters sets max_udp_payload_size, ack_delay_exponent, max_ack_delay, active_connection_id_limit", token.NoPos, "", fmt.Sprintf("%d fields set", len(defaults)))
	for _, w := range written {
		if w.kind != "int" || len(w.fields) != 1 {
			continue
		}
		f := w.fields[0]
		construct := fmt.Sprintf("transport parameter %#02x (%s): omitted exactly when equal to the default unmarshal starts from", w.id, w.name)
		def, has := defaults[f]
		want := int64(0)
		if has && def != nil {
			want, _ = constant.Int64Val(constant.ToInt(def))
			if fv := c.P.Field("quic.transportParameters." + f); fv != nil && fv.Type().String() == "time.Duration" {
				want /= 1000000 // the wire unit is milliseconds
			}
		}
		got := int64(-1)
		if w.skip != nil {
			got, _ = constant.Int64Val(constant.ToInt(w.skip))
		}
		c.Check(got == want, "tp-defaults", construct, w.pos, fmt.Sprint(want), fmt.Sprintf("marshal skips the value %d but the default is %d", got, want))
	}

	// --- range checks (SSA)
	acc := XRetOK()
	T := "quic.transportParameters."
	fld := func(f string) XHole { return XH("§f", "p."+f, c.P.XLoadOf(T+f)) }
	c.XCheckedAfter(un, Stores(T+"maxUDPPayloadSize"), acc, "§f < 1200", fld("maxUDPPayloadSize"))
	c.XCheckedAfter(un, Stores(T+"initialMaxStreamsBidi"), acc, "§f > 1152921504606846976", fld("initialMaxStreamsBidi"))
	c.XCheckedAfter(un, Stores(T+"initialMaxStreamsUni"), acc, "§f > 1152921504606846976", fld("initialMaxStreamsUni"))
	c.XCheckedAfter(un, Stores(T+"activeConnIDLimit"), acc, "§f < 2", fld("activeConnIDLimit"))
	v := XH("§v", "the varint read from the value", XResultOf(0, qwConsumeVarint))
	c.XReject(un, Stores(T+"ackDelayExponent"), "§v > 20", v)
	c.StoredFrom(un, Stores(T+"ackDelayExponent"), "the varint tested", XResultOf(0, qwConsumeVarint))
	c.XReject(un, Stores(T+"maxAckDelay"), "§v >= 16384", v)
	c.StoredFrom(un, Stores(T+"maxAckDelay"), "the varint tested", XResultOf(0, qwConsumeVarint))
	val := XH("§val", "the parameter value", func(v ssa.Value) bool {
		return DependsOn(v, XResultOf(0, qwConsumeVarintByt)) && !DependsOn(v, XResultOf(-1, qwConsumeUint8Bytes))
	})
	isVal := XH("§val", "the parameter value", XResultOf(0, qwConsumeVarintByt))
	c.XReject(un, Stores(T+"statelessResetToken"), "len(§val) != 16", isVal)
	c.XReject(un, Stores(T+"preferredAddrV4"), "len(§val) < 25", isVal)
	_ = val
	c.XReject(un, Stores(T+"preferredAddrConnID"), "len(§val) < 25", isVal)
	c.XCheckedAfter(un, Calls(qwConsumeUint8Bytes), acc, "§n < 0", XH("§n", "length result of ConsumeUint8Bytes", XResultOf(1, qwConsumeUint8Bytes)))
	c.XReject(un, Stores(T+"preferredAddrResetToken"), "len(§rest) != 16", XH("§rest", "what follows the connection ID", func(v ssa.Value) bool {
		sl, ok := v.(*ssa.Slice)
		return ok && sl.Low != nil && XResultOf(1, qwConsumeUint8Bytes)(sl.Low)
	}))
	// the id and the value of every parameter are read with their length results tested
	// (reads inside the value are covered by the trailing-bytes test: a negative length never equals len(val))
	lengthChecked(c, un, acc, func(call *ssa.Call) bool {
		return !DependsOn(BaselineArgs(&call.Call)[0], XResultOf(0, qwConsumeVarintByt))
	})
	// the loop continues only through the trailing-bytes test
	{
		var hdr *ssa.BasicBlock
		for _, b := range u.Blocks {
			for _, in := range b.Instrs {
				if call, ok := in.(*ssa.Call); ok && CalleeName(&call.Call) == qwConsumeVarint {
					if ph, ok := BaselineArgs(&call.Call)[0].(*ssa.Phi); ok && hdr == nil {
						hdr = ph.Block()
					}
				}
			}
		}
		ok, why := hdr != nil, "loop header not found"
		if hdr != nil {
			back := 0
			for _, p := range hdr.Preds {
				if !hdr.Dominates(p) {
					continue // entry edge
				}
				back++
				ifi, isIf := p.Instrs[len(p.Instrs)-1].(*ssa.If)
				if !isIf {
					ok, why = false, "a back edge of the parameter loop does not come from a conditional test"
					continue
				}
				bo, isB := ifi.Cond.(*ssa.BinOp)
				good := false
				if isB && (bo.Op == token.NEQ || bo.Op == token.EQL) {
					for _, side := range [][2]ssa.Value{{bo.X, bo.Y}, {bo.Y, bo.X}} {
						if call, isC := side[1].(*ssa.Call); isC && CalleeName(&call.Call) == "builtin:len" && DependsOn(BaselineArgs(&call.Call)[0], XResultOf(0, qwConsumeVarintByt)) {
							if _, isPhi := side[0].(*ssa.Phi); isPhi {
								// the loop continues on the equal edge
								eqIdx := 0
								if bo.Op == token.NEQ {
									eqIdx = 1
								}
								good = p.Succs[eqIdx] == hdr
							}
						}
					}
				}
				if !good {
					ok, why = false, "the loop continues from a block that does not end in `n != len(val)` with the equal edge going back"
				}
			}
			if back == 0 {
				ok, why = false, "no back edge"
			}
		}
		c.Check(ok, "tp-trailing", un+": every iteration ends in the test consumed == len(value), and only the equal edge continues", u.Pos(), "", why)
	}
}

// ---------------------------------------------------------------------------
// panic inventory

func c28Inventory(c *Ctx) {
	entries := append([]string{"quic.parseLongHeaderPacket", "quic.parse1RTTPacket", "quic.unmarshalTransportParams", "quic.parseDebugFrame"}, consumeFns(c)...)
	const sl = "b[n:] with n = 1 + the lengths returned by quicwire.Consume*, each tested >= 0 before use (checked-after obligations) and <= len(input) by the quicwire contract; "
	const b0 = "b[0] under the non-empty precondition (precondition obligations); "
	c.PanicInventory(entries, nil, map[string]Inv{
		"quic.consumeAckFrame":                             {Sites: "idx=9", Why: "frame[1:] and frame[0]: " + b0 + sl},
		"quic.consumeConnectionCloseApplicationFrame":      {Sites: "idx=2", Why: sl},
		"quic.consumeConnectionCloseTransportFrame":        {Sites: "idx=3", Why: sl},
		"quic.consumeCryptoFrame":                          {Sites: "idx=2", Why: sl},
		"quic.consumeDataBlockedFrame":                     {Sites: "idx=1", Why: sl},
		"quic.consumeMaxDataFrame":                         {Sites: "idx=1", Why: sl},
		"quic.consumeMaxStreamDataFrame":                   {Sites: "idx=2", Why: sl},
		"quic.consumeMaxStreamsFrame":                      {Sites: "idx=1", Why: b0 + "the slice b[1:] is proven by the compiler after b[0]"},
		"quic.consumeNewConnectionIDFrame":                 {Sites: "idx=4", Why: sl + "len(b[n:]) >= 16 tested before the token copy"},
		"quic.consumeNewTokenFrame":                        {Sites: "idx=1", Why: sl},
		"quic.consumePathChallengeFrame":                   {Sites: "idx=1", Why: "b[1:]: " + b0},
		"quic.consumeResetStreamFrame":                     {Sites: "idx=3", Why: sl},
		"quic.consumeRetireConnectionIDFrame":              {Sites: "idx=1", Why: sl},
		"quic.consumeStopSendingFrame":                     {Sites: "idx=2", Why: sl},
		"quic.consumeStreamDataBlockedFrame":               {Sites: "idx=2", Why: sl},
		"quic.consumeStreamFrame":                          {Sites: "idx=4", Why: b0 + sl},
		"quic.consumeStreamsBlockedFrame":                  {Sites: "idx=1", Why: b0},
		"quic.parseLongHeaderPacket":                       {Sites: "idx=6", Why: "b[n:] after each n < 0 rejection (checked-after obligations); pkt[:pnumOff+payLen] under len(b) >= payLen (reject-before obligation)"},
		"quic.unmarshalTransportParams":                    {Sites: "idx=3", Why: "params[n:] after n < 0 rejections; val[nn:] after nn < 0 rejection; fixed slices of the preferred address under len(val) >= 25 (reject-before obligations)"},
		"internal/quic/quicwire.ConsumeVarintBytes":        {Sites: "idx=1", Why: "b[n:][:size] under size <= len(b[n:]) (obligation below)"},
		"(quic.headerKey).unprotect":                       {Sites: "idx=5", Why: "all under len(pkt) >= pnumOff+4+16 (reject-before obligation); mask[1+i] with i < pnumLen <= 4 < 5; pnumOff >= 0 at both call sites (len(pkt)-len(b), 1+connIDLen)"},
		"(*quic.updatingKeyPair).unprotect":                {Sites: "idx=1", Why: "hdr[0]: hdr = pkt[:pnumOff+pnumLen] returned by headerKey.unprotect with pnumLen >= 1"},
		"(quic.chaCha20HeaderProtection).headerProtection": {Sites: "idx=2 panic=1", Why: "sample has headerProtectionSampleSize = 16 bytes (sliced by the only caller under its length test); NewUnauthenticatedCipher fails only for a wrong key/nonce size, fixed at key installation"},
		"(quic.packetKey).xorIV":                           {Sites: "idx=8", Why: "iv has the AEAD nonce length 12 >= 8, fixed at key installation (hkdf expand to aead.NonceSize())"},
		"quic.aeadIntegrityLimit":                          {Sites: "panic=1", Why: "suite is one of the three TLS 1.3 suites accepted at key installation"},
	})
	cvb := qwConsumeVarintByt
	c.XReject(cvb, XRetNot(1, "-1"), "§s > len(§b)", XH("§s", "the length prefix", XResultOf(0, qwConsumeVarint)), XH("§b", "the bytes after the prefix", func(v ssa.Value) bool {
		sl, ok := v.(*ssa.Slice)
		return ok && Term(sl.X) == "$0"
	}))
	c.XReject(cvb, XRetNot(1, "-1"), "§n < 0", XH("§n", "length result of ConsumeVarint", XResultOf(1, qwConsumeVarint)))
}
