package props

import (
	"fmt"

	. "verif/sa/core"
)

func init() {
	Register(&Property{
		ID:    "C38",
		Level: "proof",
		Floor: 5,
		Clauses: "EDNS(0): SetEDNS0 is interpreted abstractly over bit-provenance vectors with a symbolic 12-bit extended RCode, a symbolic payload size and each DNSSEC-OK value; " +
			"on the resulting header, ExtendedRCode(low 4 bits of the code) is shown bit by bit to be the original 12-bit code (TTL bits 24-31 carry code bits 4-11, version bits 16-23 are zero so the version test is taken, the low nibble comes from the header rcode), " +
			"DNSSECAllowed evaluates to the DO value given, for a symbolic payload size (so for every size); exhaustive over all inputs because every bit is traced symbolically. The RFC 6891 bit layout itself is reported as a note only (the property asks for consistency, not for a layout).",
		NotCovered: "nothing of the statement is left to runtime; packing/unpacking of the OPT record itself belongs to C36.",
		Trusted:    []string{"bit-provenance transfer functions in core/bits.go"},
		Run:        c38,
	})
	Technique["C38"] = "abstract interpretation of SetEDNS0, ExtendedRCode and DNSSECAllowed over a bit-provenance domain (each header bit traced to an input bit), composed"
}

func c38(c *Ctx) {
	const rh = "(*dns/dnsmessage.ResourceHeader)."
	set, ext, dok := c.MustFn(rh+"SetEDNS0"), c.MustFn(rh+"ExtendedRCode"), c.MustFn(rh+"DNSSECAllowed")
	if set == nil || ext == nil || dok == nil {
		return
	}
	recvT := set.Params[0].Type()
	ttlIdx, classIdx, typeIdx := FieldIndex(recvT, "TTL"), FieldIndex(recvT, "Class"), FieldIndex(recvT, "Type")
	if ttlIdx < 0 || classIdx < 0 || typeIdx < 0 {
		c.Undecided("anchor", "ResourceHeader.TTL/Class/Type", "field not found")
		return
	}
	for _, do := range []uint64{0, 1} {
		tag := fmt.Sprintf("DO=%d", do)
		h := NewObj("h")
		code := InputBV("code", 16, 12)
		udp := InputBV("udp", 64, 64)
		udp.Signed = true
		doV := InputBV("x", 1, 0) // constant 0
		if do == 1 {
			doV.B[0] = Bit{K: 1}
		}
		it := &Interp{P: c.P}
		if _, err := it.Call(set, []AVal{h, udp, code, doV}); err != nil {
			c.Fail("bits:encode", "SetEDNS0 "+tag, set.Pos(), "abstract interpretation failed: "+err.Error())
			continue
		}
		ttl, ok := h.Obj.Cells[ttlIdx].(BV)
		if !ok {
			c.Fail("bits:encode", "SetEDNS0 "+tag+": TTL written", set.Pos(), fmt.Sprintf("TTL is %T after SetEDNS0", h.Obj.Cells[ttlIdx]))
			continue
		}
		// TTL layout
		good, why := true, ""
		for k := 0; k < 32; k++ {
			want := Bit{}
			switch {
			case k >= 24:
				want = Bit{K: 2, Src: "code", Idx: uint8(k - 24 + 4)}
			case k == 15 && do == 1:
				want = Bit{K: 1}
			}
			if ttl.B[k] != want {
				good, why = false, fmt.Sprintf("TTL bit %d is %v, want %v (TTL = %s)", k, ttl.B[k], want, ttl)
				break
			}
		}
		// the RFC 6891 layout itself is not required by the property (only the round trip is): informational
		c.Note("SetEDNS0 %s: TTL = %s; RFC 6891 layout (code[11:4]<<24 | DO<<15): %v %s", tag, ttl, good, why)
		// Class carries the payload size
		cls, _ := h.Obj.Cells[classIdx].(BV)
		good, why = true, ""
		for k := 0; k < 16; k++ {
			if cls.B[k] != (Bit{K: 2, Src: "udp", Idx: uint8(k)}) {
				good, why = false, fmt.Sprintf("Class bit %d is %v", k, cls.B[k])
				break
			}
		}
		c.Note("SetEDNS0 %s: Class = %s; carries the payload size: %v %s", tag, cls, good, why)
		if opt, okc := c.P.ConstInt("dns/dnsmessage.TypeOPT"); okc {
			ty, _ := h.Obj.Cells[typeIdx].(BV)
			u, isC := ty.Const()
			c.Note("SetEDNS0 %s: Type == TypeOPT: %v", tag, isC && int64(u) == opt)
		}
		// ExtendedRCode(code & 0xf) == code
		rcode := BV{W: 16}
		for k := 0; k < 4; k++ {
			rcode.B[k] = Bit{K: 2, Src: "code", Idx: uint8(k)}
		}
		res, err := (&Interp{P: c.P}).Call(ext, []AVal{h, rcode})
		good, why = err == nil, ""
		if err != nil {
			why = err.Error()
		} else {
			rv, _ := res.(BV)
			for k := 0; k < 64; k++ {
				want := Bit{}
				if k < 12 {
					want = Bit{K: 2, Src: "code", Idx: uint8(k)}
				}
				if rv.B[k] != want {
					good, why = false, fmt.Sprintf("result bit %d is %v, want %v (result = %s)", k, rv.B[k], want, rv)
					break
				}
			}
		}
		c.Check(good, "bits:roundtrip", "ExtendedRCode(SetEDNS0(code), code&15) == code "+tag, ext.Pos(), "all 4096 codes x all payload sizes", why)
		// DNSSECAllowed == DO
		res, err = (&Interp{P: c.P}).Call(dok, []AVal{h})
		good, why = err == nil, ""
		if err != nil {
			why = err.Error()
		} else {
			rv, _ := res.(BV)
			u, isC := rv.Const()
			if !isC || u != do {
				good, why = false, "DNSSECAllowed = "+rv.String()
			}
		}
		c.Check(good, "bits:roundtrip", "DNSSECAllowed(SetEDNS0(...)) == DO "+tag, dok.Pos(), "all codes x all payload sizes", why)
	}
	// a header whose version bits are not zero falls back to the plain rcode (the other branch exists)
	c.Has(rh+"ExtendedRCode", RetTerm(0, "$0"))
}
