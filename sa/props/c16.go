package props

import (
	"fmt"
	"sort"
	"strings"

	. "verif/sa/core"

	"golang.org/x/tools/go/ssa"
)

func init() {
	Register(&Property{
		ID:    "C16",
		Floor: 140,
		Clauses: "panic-site inventory of the serve goroutine: every explicit panic, unchecked type assertion, non-constant division and compiler-unproven index/slice expression reachable from serverConn.serve " +
			"(static calls, closures, function values, dispatch through repository interfaces) is listed with a reviewed reason, no function may have more sites than reviewed and no unlisted function any; " +
			"not descended into (boundaries, each with its reason in the table): the frame-reading goroutine and Framer.ReadFrame (C07), the handler goroutine (its panics are recovered: obligation), " +
			"the structured-field parser entry points (C56), the HPACK encoder (handler-supplied data; C01/C02) and pipe.Read/Write, whose buffer is provably a *dataBuffer and is entered directly; " +
			"the guards the reasons rest on are re-established here: closed-stream write filter, recycled scheduler queues unreferenced, shift only on non-empty queues, take <= available, urgency/incremental inside the ring array, new streams only for unknown higher ids, debug-only goroutine checks; " +
			"control-frame flood: queuedControlFrames is incremented exactly for isControl() requests that are pushed and decremented exactly for isControl() requests that are popped, written nowhere else, " +
			"and every iteration of the serve loop that processed a frame or queued a write passes the test queuedControlFrames > maxQueuedControlFrames (10000), whose true edge leaves serve; " +
			"SETTINGS frames with more than 100 entries or duplicates and unexpected SETTINGS ACKs are connection errors; " +
			"error classes: processFrameFromReader maps StreamError to resetStream, goAwayFlowError and ConnectionError to goAway, ErrFrameTooLarge to goAway(FRAME_SIZE_ERROR), everything else (including read errors) to 'stop serving', nil to 'continue', and serve returns when it reports false; " +
			"processFrame has a case for every Frame implementation the reader can deliver and ignores unknown ones.",
		NotCovered: "deadlock freedom, bounded-time termination and goroutine scheduling; nil dereference, nil-map writes, closed-channel operations, stack exhaustion and out-of-memory; " +
			"panics inside the boundaries named above (other properties' inventories) and inside the standard library; bounds of the number of running handlers (C15).",
		Run: c16,
	})
}

func c16(c *Ctx) {
	const (
		sc    = "(*http2.serverConn)."
		p75   = "(*http2.priorityWriteSchedulerRFC7540)."
		p92   = "(*http2.priorityWriteSchedulerRFC9218)."
		rr    = "(*http2.roundRobinWriteScheduler)."
		rnd   = "(*http2.randomWriteScheduler)."
		qcf   = "http2.serverConn.queuedControlFrames"
		pffr  = sc + "processFrameFromReader"
		shift = "(*http2.writeQueue).shift"
	)
	sched := "scheduler contract: serverConn opens a stream once (newStream, only for ids absent from sc.streams and above maxClientStreamID / freshly allocated push ids) and closes it once (closeStream refuses closed streams); obligations below"
	inv := map[string]Inv{
		// ---- boundaries (not descended into) -------------------------------------------------
		sc + "readFrames":                             {Sites: "", Why: "separate goroutine; reading and parsing frames is C07's inventory"},
		sc + "runHandler":                             {Sites: "", Why: "handler goroutine; a panic there is recovered by runHandler's deferred function (obligation below)"},
		"(*http2.Framer).ReadFrame":                   {Sites: "", Why: "reached only through the debug framer of logWrite; C07's inventory"},
		"(*http2.pipe).Write":                         {Sites: "", Why: "dispatches to pipe.b, which is only ever a *dataBuffer (writers obligation below); dataBuffer.Write is an entry point"},
		"(*http2.pipe).Read":                          {Sites: "", Why: "as pipe.Write; dataBuffer.Read is an entry point"},
		"internal/httpsfv.ParseDictionary":            {Sites: "idx=2", Why: "structured-field parser of the peer's priority value: C56's inventory; not descended into"},
		"internal/httpsfv.ParseInteger":               {Sites: "", Why: "C56's inventory"},
		"internal/httpsfv.ParseBoolean":               {Sites: "", Why: "C56's inventory"},
		"(*http2/hpack.Encoder).WriteField":           {Sites: "", Why: "encodes response headers supplied by the handler, not client bytes; encoder inventory belongs to C01/C02"},
		"(*http2/hpack.dynamicTable).evict":           {Sites: "idx=1", Why: "ents[n] under n < table.len() (loop condition); C02"},
		"(*http2/hpack.headerFieldTable).evictOldest": {Sites: "idx=4 panic=2", Why: "n <= len(ents) panic guard first; C02"},

		// ---- frame accessors ---------------------------------------------------------------------
		"(*http2.FrameHeader).checkValid":         {Sites: "panic=1", Why: "frame used after the next ReadFrame: the serve loop calls readMore only after processFrameFromReader returned (obligation below)"},
		"(*http2.MetaHeadersFrame).PseudoFields":  {Sites: "idx=1", Why: "Fields[:i] with i a range index of Fields"},
		"(*http2.MetaHeadersFrame).RegularFields": {Sites: "idx=1", Why: "Fields[i:] with i a range index of Fields"},
		"(*http2.MetaHeadersFrame).PseudoValue":   {Sites: "idx=1", Why: "Name[1:] under IsPseudo(), which requires len(Name) != 0"},
		"(*http2.SettingsFrame).Setting":          {Sites: "idx=2", Why: "i < NumSettings() = len(p)/6 at the callers ForeachSetting/HasDuplicates; frame length is a multiple of 6 (C07)"},
		"(*http2.Framer).WriteHeaders":            {Sites: "idx=1", Why: "padZeros[:PadLength]: the server never sets PadLength (zero)"},
		"(*http2.Framer).WritePushPromise":        {Sites: "idx=1", Why: "padZeros[:PadLength]: the server never sets PadLength (zero)"},

		// ---- request bodies ---------------------------------------------------------------------------
		"(*http2.dataBuffer).Read":                {Sites: "idx=5", Why: "chunks[0] exists while size > 0; r <= len(chunks[0]); invariant of Write/Read pair (C10/C14 territory), data only moves between owned chunks"},
		"(*http2.dataBuffer).Write":               {Sites: "idx=1", Why: "chunk[b.w:] with w <= len(last chunk) maintained by lastChunkOrAlloc"},
		"(*http2.dataBuffer).bytesFromFirstChunk": {Sites: "idx=3", Why: "called only from Read under size > 0, so chunks is non-empty and r <= w <= len"},
		"http2.getDataBufferChunk":                {Sites: "assert=5", Why: "each pool's New returns exactly the array type asserted"},
		"http2.putDataBufferChunk":                {Sites: "panic=1", Why: "chunks come only from getDataBufferChunk, whose five sizes are the five cases"},
		"(*http2.pipe).closeWithError":            {Sites: "panic=1", Why: "every caller passes a non-nil error constant or a StreamError value"},
		"(*http2.inflow).add":                     {Sites: "panic=2", Why: "n is a frame length, a pipe length or a byte count (non-negative); the 2^31-1 bound holds because credit is only returned for bytes previously debited (C10)"},
		sc + "processData":                        {Sites: "panic=2", Why: "body == nil in state open: body is nil only when the request HEADERS carried END_STREAM, which makes the state half-closed-remote; pipe.Write returns len(p) or an error"},
		sc + "newWriterAndRequest":                {Sites: "idx=1 assert=1", Why: "vv[0]: the entry exists, and http.Header.Add only creates non-empty values; Body was set to *requestBody two lines earlier by newWriterAndRequestNoBody"},
		sc + "processHeaders":                     {Sites: "assert=2", Why: "req.Body is the *requestBody installed by newWriterAndRequestNoBody"},
		sc + "newResponseWriter":                  {Sites: "assert=1", Why: "responseWriterStatePool only holds *responseWriterState"},
		sc + "startPush$1":                        {Sites: "panic=1 assert=1", Why: "server push is started by handler code, not by client bytes; url validated by Push before the message is sent"},
		"(*http2.writePushPromise).writeFrame":    {Sites: "panic=1", Why: "push only; :method/:scheme/:authority/:path are always encoded, so the block is non-empty"},
		"(*http2.writeResHeaders).writeFrame":     {Sites: "panic=1", Why: "response headers written by the handler path always contain :status or trailers"},
		"http2.encodeHeaders":                     {Sites: "assert=1", Why: "sorterPool only holds *sorter"},
		"http2.splitHeaderBlock":                  {Sites: "idx=1", Why: "frag[:16384] under len(frag) > 16384"},
		"http/httpguts.headerValueContainsToken":  {Sites: "idx=2", Why: "v[:comma], v[comma+1:] with comma = IndexByte(v, ',') != -1"},
		"http/httpguts.tokenEqual":                {Sites: "idx=1", Why: "t2[i] with i a range index of t1 and len(t1) == len(t2) tested first"},
		"http/httpguts.trimOWS":                   {Sites: "idx=1", Why: "x[len(x)-1] under len(x) > 0"},

		// ---- write path ---------------------------------------------------------------------------------
		"(*http2.FrameWriteRequest).replyToWriter": {Sites: "panic=1", Why: "done channels come from getErrChan (buffered, capacity 1) and each request is answered once"},
		"(http2.FrameWriteRequest).Consume":        {Sites: "idx=2", Why: "p[:allowed], p[allowed:] under len(p) > allowed and allowed > 0 (C08/C12 guards)"},
		"(*http2.outflow).take":                    {Sites: "panic=1", Why: "both callers pass an amount clamped to available() (obligation below)"},
		"(*http2.writeQueue).shift":                {Sites: "idx=1 panic=1", Why: "called only under !empty() (obligations below); currPos < len(currQueue) after the swap"},
		"(*http2.writeQueue).peek":                 {Sites: "idx=1", Why: "currQueue[currPos] under currPos < len(currQueue)"},
		"(*http2.writeQueuePool).get":              {Sites: "idx=1", Why: "(*p)[len-1] under len != 0"},
		"http2.writeEndsStream":                    {Sites: "panic=1", Why: "nil writeFramer: a popped request always carries the write it was pushed with because recycled scheduler queues are dropped by their holders (finding F1; obligation below)"},
		sc + "writeFrame":                          {Sites: "panic=1", Why: "write100ContinueHeaders builds its request without a done channel"},
		sc + "startFrameWrite":                     {Sites: "panic=3", Why: "one write at a time (scheduleFrameWrite tests writingFrame); closed and half-closed-local streams are filtered in writeFrame before the scheduler (obligation below) and closeStream drops the scheduler's queue"},
		sc + "wroteFrame":                          {Sites: "panic=2", Why: "only called after startFrameWrite set writingFrame; requests that end a stream (writeData, writeResHeaders) are built with their stream"},
		sc + "serve":                               {Sites: "panic=2", Why: "serveMsgCh carries only the five message constants and *startPushRequest sent by this package"},
		sc + "notePanic":                           {Sites: "panic=1", Why: "re-panics only when the test hook asks for it"},
		sc + "closeStream":                         {Sites: "panic=1", Why: "callers pass streams taken from sc.streams (closed streams are deleted from it) or the stream of a request that passed the closed-stream filter"},
		sc + "newStream":                           {Sites: "panic=1", Why: "processHeaders rejects even ids (0 included); push ids start at 2; the upgrade stream is 1"},
		sc + "handlerDone":                         {Sites: "idx=2", Why: "unstartedHandlers[i] under i < len (loop condition); [i:] with i <= len"},

		// ---- schedulers ----------------------------------------------------------------------------------------
		"(*http2.priorityNodeRFC7540).setParent":        {Sites: "panic=1", Why: "AdjustStream returns early for n == parent; other callers pass the root, nil or a node's former parent"},
		"(*http2.priorityNodeRFC7540).walkReadyInOrder": {Sites: "idx=1", Why: "(*tmp)[i] with i counting down from len-1"},
		p75 + "AdjustStream":                            {Sites: "panic=1", Why: "checkPriority/processPriority reject stream 0 before AdjustStream"},
		p75 + "CloseStream":                             {Sites: "panic=3", Why: sched},
		p75 + "OpenStream":                              {Sites: "panic=1", Why: sched},
		p75 + "Push":                                    {Sites: "panic=1", Why: "DATA requests exist only for streams that passed the closed-stream filter, whose scheduler node exists until closeStream"},
		p75 + "addClosedOrIdleNode":                     {Sites: "idx=2", Why: "(*list)[0], (*list)[1:] under len(*list) == maxSize and maxSize != 0"},
		p92 + "AdjustStream":                            {Sites: "idx=6", Why: "heads[u][i] with u <= 7 and i <= 1 by construction of PriorityParam (value-domain obligations below)"},
		p92 + "CloseStream":                             {Sites: "idx=4", Why: "as AdjustStream"},
		p92 + "OpenStream":                              {Sites: "idx=2 panic=1", Why: "as AdjustStream; " + sched},
		p92 + "Pop":                                     {Sites: "idx=1", Why: "inner index is the range index of a [2] array or (i+1)%2"},
		p92 + "Push":                                    {Sites: "panic=1", Why: "as RFC 7540 Push"},
		rr + "OpenStream":                               {Sites: "panic=1", Why: sched},
		rr + "Push":                                     {Sites: "panic=1", Why: "as RFC 7540 Push"},

		// ---- debug only ---------------------------------------------------------------------------------------------
		"(http2.goroutineLock).check":      {Sites: "panic=1", Why: "only when DebugGoroutines is set (obligation below)"},
		"(http2.goroutineLock).checkNotOn": {Sites: "panic=1", Why: "only when DebugGoroutines is set (obligation below)"},
		"http2.curGoroutineID":             {Sites: "idx=2 panic=2 assert=1", Why: "reached only from the DebugGoroutines branches"},
		"http2.cutoff64":                   {Sites: "div=1", Why: "reached only from curGoroutineID; base is the constant 10"},
	}
	stop := []string{sc + "readFrames", sc + "runHandler", "(*http2.Framer).ReadFrame", "(*http2.pipe).Write", "(*http2.pipe).Read",
		"internal/httpsfv.ParseDictionary", "internal/httpsfv.ParseInteger", "internal/httpsfv.ParseBoolean", "(*http2/hpack.Encoder).WriteField"}
	c.PanicInventory([]string{sc + "serve", "(*http2.dataBuffer).Write", "(*http2.dataBuffer).Read"}, stop, inv)
	// the table itself must not silently go stale: every listed function still exists
	var names []string
	for n := range inv {
		names = append(names, n)
	}
	sort.Strings(names)
	missing := []string{}
	for _, n := range names {
		if c.P.Fn(n) == nil {
			missing = append(missing, n)
		}
	}
	c.Check(len(missing) == 0, "anchor", "inventory entries resolve to functions", 0, "", "no longer present: "+strings.Join(missing, ", "))

	// ---- guards the inventory reasons rest on --------------------------------------------------------------
	c.Has(sc+"runHandler$1", Calls("builtin:recover"))
	c.Has(sc+"runHandler", Defers(sc+"runHandler$1"))
	c.Before(sc+"runHandler", Defers(sc+"runHandler$1"), CallsOfValue("$2"))
	pipeBufferIsDataBuffer(c)
	c.Reject("(http2.goroutineLock).check", Panics(), "!http2.DebugGoroutines")
	c.Reject("(http2.goroutineLock).checkNotOn", Panics(), "!http2.DebugGoroutines")
	c.Callers("http2.curGoroutineID", "(http2.goroutineLock).check", "(http2.goroutineLock).checkNotOn", "http2.newGoroutineLock")
	closedFilter(c, sc+"writeFrame")
	c.RecycledUnreferenced("(*http2.writeQueuePool).put", 1, p75+"removeNode")
	for _, s := range []struct{ fn, ctl string }{{rnd + "Pop", "&$r.zero"}, {rr + "Pop", "&$r.control"}, {p92 + "Pop", "&$r.control"}} {
		c.Guard(s.fn, Calls(shift), "!empty("+s.ctl+")")
	}
	c.Reject("(*http2.writeQueue).consume", Calls(shift), "empty($r)")
	c.Callers(shift, rnd+"Pop", rr+"Pop", p92+"Pop", "(*http2.writeQueue).consume")
	c.Reject(shift, Indexing("$r.currQueue"), "empty($r)")
	c.ArgLE("(http2.FrameWriteRequest).Consume", Calls("(*http2.outflow).take"), 1, "available(&$r.stream.flow)")
	fieldDomain(c, "http2.PriorityParam.urgency", 7, "http2.defaultRFC9218Priority", "http2.parseRFC9218Priority")
	fieldDomain(c, "http2.PriorityParam.incremental", 1, "http2.defaultRFC9218Priority", "http2.parseRFC9218Priority")
	c.Guard("http2.parseRFC9218Priority$1", Stores("http2.PriorityParam.urgency"), "ParseInteger($1)#0 >= 0", "ParseInteger($1)#0 <= 7")
	arrayDims(c, "http2.priorityWriteSchedulerRFC9218.heads", 8, 2)
	ph := sc + "processHeaders"
	c.Guard(ph, Calls(sc+"newStream"), "$r.streams[$0.HeadersFrame.FrameHeader.StreamID] == nil", "$0.HeadersFrame.FrameHeader.StreamID > $r.maxClientStreamID", "($0.HeadersFrame.FrameHeader.StreamID%2) == 1")
	c.Guard(sc+"closeStream", Calls(".CloseStream"), "$0.state != 0", "$0.state != 4")
	c.OnlyCalledIn("calls of WriteScheduler.CloseStream", []string{".CloseStream"}, sc+"closeStream")
	c.OnlyCalledIn("calls of WriteScheduler.OpenStream", []string{".OpenStream"}, sc+"newStream")
	c.Reject(sc+"checkPriority", RetOK(), "$0 == $1.StreamDep")
	c.Reject(sc+"scheduleFrameWrite", Calls(sc+"startFrameWrite"), "$r.writingFrame")
	// a frame is fully processed before the reader may overwrite it
	c.Before(sc+"serve", Calls(pffr), Calls("fieldcall:readMore"))

	// ---- control-frame flood -----------------------------------------------------------------------------------
	if v, ok := c.P.ConstInt("http2.maxQueuedControlFrames"); !ok || v <= 0 || v > 1<<20 {
		c.Fail("constant", "http2.maxQueuedControlFrames in (0, 2^20]", 0, "limit missing or unreasonable")
	} else {
		c.OK("constant", "http2.maxQueuedControlFrames in (0, 2^20]", "10000")
	}
	limit := "$r.queuedControlFrames > @http2.maxQueuedControlFrames"
	c.HasBranch(sc+"serve", limit)
	c.NeverAfter(sc+"serve", c.Edge(limit), Union(Calls(pffr), Calls(sc+"writeFrame"), Calls(sc+"wroteFrame")), true)
	c.OnEveryCycle(sc+"serve", Calls(pffr), c.Tests(limit))
	c.OnEveryCycle(sc+"serve", Calls(sc+"writeFrame").Where("request received from a channel", func(in ssa.Instruction) bool {
		return strings.HasPrefix(Term(BaselineArgs(&in.(*ssa.Call).Call)[1]), "select#")
	}), c.Tests(limit))
	c.Writers(qcf, sc+"writeFrame", sc+"scheduleFrameWrite")
	wf := sc + "writeFrame"
	c.Guard(wf, Stores(qcf), "isControl($0)")
	c.Has(wf, StoreAs("$r.queuedControlFrames = ($r.queuedControlFrames+1)"))
	c.Count(wf, Stores(qcf), 1, 1)
	c.PassThrough(wf, Stores(qcf), Calls(".Push"))
	c.PassThroughIncl(wf, c.Edge("isControl($0)"), Stores(qcf))
	sfw := sc + "scheduleFrameWrite"
	c.Guard(sfw, Stores(qcf), ".Pop($r.writeSched)#1", "isControl(.Pop($r.writeSched)#0)")
	c.Has(sfw, StoreAs("$r.queuedControlFrames = ($r.queuedControlFrames-1)"))
	c.Count(sfw, Stores(qcf), 1, 1)
	c.PassThroughIncl(sfw, c.Edge("isControl(.Pop($r.writeSched)#0)"), Stores(qcf))
	c.PassThroughIncl(sfw, c.Edge(".Pop($r.writeSched)#1"), Calls(sc+"startFrameWrite").ArgIs(1, ".Pop($r.writeSched)#0"))
	// SETTINGS abuse
	ps := sc + "processSettings"
	fe := Calls("(*http2.SettingsFrame).ForeachSetting")
	c.Reject(ps, Union(fe, RetOK()), "!IsAck($0)", "NumSettings($0) > 100")
	c.Reject(ps, Union(fe, RetOK()), "!IsAck($0)", "NumSettings($0) <= 100", "HasDuplicates($0)")
	c.NeverAfter(ps, c.Edge("$r.unackedSettings < 0"), RetOK(), true)

	// ---- error classes ----------------------------------------------------------------------------------------------
	const e = "φ($0.err|processFrame($r,$0.f))"
	cases := c.P.TypeSwitchCases(pffr)
	for _, t := range []string{"http2.StreamError", "http2.goAwayFlowError", "http2.ConnectionError"} {
		c.Check(cases[t], "switch-covers", pffr+": error class "+t+" has its own case", 0, "", "no case for "+t+": such an error would close the connection without RST_STREAM/GOAWAY")
	}
	c.PassThroughIncl(pffr, c.Edge(e+".(http2.StreamError)#1"), Calls(sc+"resetStream").ArgIs(1, e+".(http2.StreamError)#0"))
	c.PassThroughIncl(pffr, c.Edge(e+".(http2.goAwayFlowError)#1"), Calls(sc+"goAway").ArgIs(1, "3"))
	c.PassThroughIncl(pffr, c.Edge(e+".(http2.ConnectionError)#1"), Calls(sc+"goAway").ArgIs(1, e+".(http2.ConnectionError)#0"))
	c.PassThroughIncl(pffr, c.Edge("!"+e+".(http2.ConnectionError)#1"), RetConst(0, "false"))
	c.NeverAfter(pffr, c.Edge("!"+e+".(http2.ConnectionError)#1"), RetConst(0, "true"), true)
	c.PassThroughIncl(pffr, c.Edge("$0.err == http2.ErrFrameTooLarge"), Calls(sc+"goAway").ArgIs(1, "6"))
	c.PassThroughIncl(pffr, c.Edge("processFrame($r,$0.f) == nil"), RetConst(0, "true"))
	c.Guard(pffr, Calls(sc+"processFrame"), "$0.err == nil")
	c.Count(pffr, Calls(sc+"processFrame"), 1, 1)
	c.ResultUsed(pffr, Calls(sc+"processFrame"))
	c.ResultUsed(sc+"serve", Calls(pffr))
	if fn := c.MustFn(sc + "serve"); fn != nil {
		if sites := Calls(pffr).F(c.P, fn); len(sites) == 1 {
			stopEdge := c.Edge("!" + Term(sites[0].(*ssa.Call))) // independent of the select case numbering
			c.PassThroughIncl(sc+"serve", stopEdge, Returns())
			c.NeverAfter(sc+"serve", stopEdge, Union(Calls(pffr), Calls("fieldcall:readMore")), true)
		} else {
			c.Undecided("anchor", sc+"serve: processFrameFromReader call", "expected exactly one call")
		}
	}
	c.Callers(pffr, sc+"serve")
	c.Callers(sc+"processFrame", pffr)
	// frame kinds
	pf := sc + "processFrame"
	fcases := c.P.TypeSwitchCases(pf)
	except := map[string]string{
		"*http2.HeadersFrame":      "delivered as *MetaHeadersFrame (ReadMetaHeaders is set)",
		"*http2.ContinuationFrame": "merged into the MetaHeadersFrame by the reader",
		"*http2.UnknownFrame":      "ignored by the default case",
		"*http2.FrameHeader":       "the header embedded in every frame; never delivered on its own",
	}
	impl := c.P.Implementers("http2.Frame")
	if len(impl) < 10 {
		c.Undecided("switch-covers", pf+": frame kinds", "fewer than 10 Frame implementations found")
	}
	for _, t := range impl {
		if why, ok := except[t]; ok {
			c.Triv("switch-covers", pf+": "+t, why)
			continue
		}
		c.Check(fcases[t] || fcases["*"+t], "switch-covers", pf+": "+t+" has a case", 0, "", "a frame kind the reader can deliver has no case in processFrame")
	}
	c.Has(pf, RetOK())
}

// pipeBufferIsDataBuffer: every value stored into pipe.b is nil or a *dataBuffer
// (directly, or through setBuffer whose callers all pass a *dataBuffer).
func pipeBufferIsDataBuffer(c *Ctx) {
	rule := "dispatch-target"
	construct := "http2.pipe.b only ever holds a *http2.dataBuffer"
	ws, err := c.P.FieldWriters("http2.pipe.b")
	if err != nil {
		c.Undecided(rule, construct, err.Error())
		return
	}
	isDB := func(v ssa.Value) bool {
		if k, ok := v.(*ssa.Const); ok && k.Value == nil {
			return true
		}
		if mi, ok := v.(*ssa.MakeInterface); ok {
			return Short(mi.X.Type().String()) == "*http2.dataBuffer"
		}
		return false
	}
	n := 0
	for _, w := range ws {
		st, ok := w.In.(*ssa.Store)
		if !ok {
			c.Fail(rule, construct, InstrPos(w.In), w.Kind+" of pipe.b in "+w.Fn)
			return
		}
		n++
		if isDB(st.Val) {
			continue
		}
		if prm, ok := st.Val.(*ssa.Parameter); ok {
			good := true
			for _, r := range c.P.FuncRefs(prm.Parent()) {
				ci, isCall := r.In.(ssa.CallInstruction)
				if !isCall || r.Kind == "value" {
					good = false
					continue
				}
				idx := -1
				for i, q := range prm.Parent().Params {
					if q == prm {
						idx = i
					}
				}
				if idx < 0 || idx >= len(BaselineArgs(ci.Common())) || !isDB(BaselineArgs(ci.Common())[idx]) {
					good = false
				}
			}
			if good {
				continue
			}
		}
		c.Fail(rule, construct, InstrPos(w.In), "`"+StoreText(w.In)+"` in "+w.Fn+" may store another pipeBuffer implementation")
		return
	}
	if n == 0 {
		c.Undecided(rule, construct, "no store found")
		return
	}
	c.OK(rule, construct, fmt.Sprintf("%d store(s)", n))
}
