package props

import (
	"fmt"
	"go/token"
	"go/types"
	"sort"
	"strings"

	. "verif/sa/core"

	"golang.org/x/tools/go/ssa"
)

func init() {
	Register(&Property{
		ID:    "C08",
		Floor: 75,
		Clauses: "server send-side flow control: outflow.n is written only by outflow.take/add and outflow.conn only by setConnFlow/newStream; newStream links the stream window to the connection window and credits it with initialStreamSendWindowSize; " +
			"available() returns a value <= its own window and takes the connection window into account; take() refuses amounts above available() and debits stream and connection window by the same amount; " +
			"DATA reaches the Framer only through writeData.writeFrame / startFrameWrite, startFrameWrite is called only by scheduleFrameWrite with a scheduler Pop result or a literal non-DATA request, " +
			"writeData values are built only by the handler path (pool) and by Consume, requests enter the scheduler only through writeFrame, stream queues are drained only through writeQueue.consume -> Consume, " +
			"and no scheduler routes a DATA-carrying request of an unknown stream to its control queue; " +
			"Consume: every amount passed to take is provably <= available(), <= the caller's budget and <= the client's max frame size, nothing is taken or released when that bound is <= 0, " +
			"the split path takes exactly the cut index, the whole-frame path takes len(p) under len(p) <= bound; maxFrameSize is written only from SETTINGS_MAX_FRAME_SIZE and the initial 16384; " +
			"SETTINGS_INITIAL_WINDOW_SIZE: the delta new-old (old read before the new value is stored) is added to every stream in sc.streams and a failed add is an error; " +
			"WINDOW_UPDATE: the increment is added to the addressed window, overflow is an error, every successful path (and every applied SETTINGS frame) calls scheduleFrameWrite.",
		NotCovered: "liveness beyond the existence of the wake-up call (that the scheduler then finds the pending frame: see C12/C13); arithmetic overflow corner cases of outflow.add; signed/unsigned conversion of SETTINGS values; " +
			"the sum over histories (that per-call debits add up), which is a runtime fact; frames written by http.Handler code through hijacked connections.",
		Run: c08,
	})
}

func c08(c *Ctx) {
	const (
		take      = "(*http2.outflow).take"
		add       = "(*http2.outflow).add"
		avail     = "(*http2.outflow).available"
		Consume   = "(http2.FrameWriteRequest).Consume"
		consume   = "(*http2.writeQueue).consume"
		shift     = "(*http2.writeQueue).shift"
		push      = "(*http2.writeQueue).push"
		sc        = "(*http2.serverConn)."
		rnd       = "(*http2.randomWriteScheduler)."
		rr        = "(*http2.roundRobinWriteScheduler)."
		p75       = "(*http2.priorityWriteSchedulerRFC7540)."
		p92       = "(*http2.priorityWriteSchedulerRFC9218)."
		wd        = "$r.write.(*http2.writeData)#0"
		siws      = sc + "processSettingInitialWindowSize"
		siwsField = "http2.serverConn.initialStreamSendWindowSize"
	)

	// ---- ownership of the windows -------------------------------------------
	c.Writers("http2.outflow.n", take, add)
	c.Writers("http2.outflow.conn", "(*http2.outflow).setConnFlow", sc+"newStream")
	c.Has(sc+"newStream", Stores("http2.outflow.conn").StoredIs("&$r.flow"))
	c.Has(sc+"newStream", Calls(add).ArgIs(1, "$r.initialStreamSendWindowSize"))
	c.Count(sc+"newStream", Calls(add), 1, 1)
	c.Writers(siwsField, "(*http2.Server).serveConn", siws)
	c.Writers("http2.serverConn.maxFrameSize", "(*http2.Server).serveConn", sc+"processSetting")
	c.Guard(sc+"processSetting", Stores("http2.serverConn.maxFrameSize"), "$0.ID == 5")
	c.Has(sc+"processSetting", Stores("http2.serverConn.maxFrameSize").StoredIs("$0.Val"))
	c.Has("(*http2.Server).serveConn", Stores("http2.serverConn.maxFrameSize").StoredIs("16384"))
	c.Has("(*http2.Server).serveConn", Stores(siwsField).StoredIs("65535"))
	c.Has("(*http2.Server).serveConn", Calls(add).ArgIs(1, "65535"))

	// ---- outflow arithmetic ---------------------------------------------------
	retLE(c, avail, 0, "$r.n")
	retLEWhen(c, avail, 0, "$r.conn.n", "$r.conn != nil")
	c.Reject(take, Stores("http2.outflow.n"), "$0 > available($r)")
	c.Has(take, StoreAs("$r.n = ($r.n-$0)"))
	c.Guard(take, StoreAs("$r.conn.n = ($r.conn.n-$0)"), "$r.conn != nil")
	c.PassThroughIncl(take, c.Edge("$r.conn != nil"), StoreAs("$r.conn.n = ($r.conn.n-$0)"))
	c.Count(take, Stores("http2.outflow.n"), 2, 2)
	c.Has(add, StoreAs("$r.n = ($r.n+$0)"))
	c.Before(add, Stores("http2.outflow.n"), RetConst(0, "true"))
	c.NeverAfter(add, Stores("http2.outflow.n"), RetConst(0, "false"), false)

	// ---- the only way DATA reaches the wire ----------------------------------
	c.Callers("(*http2.Framer).WriteData", "(*http2.writeData).writeFrame", "(*http2.clientStream).writeRequestBody")
	c.Callers("(*http2.Framer).WriteDataPadded", "(*http2.Framer).WriteData")
	c.Callers("(*http2.Framer).startWriteDataPadded", "(*http2.Framer).WriteDataPadded", sc+"startFrameWrite")
	c.Has("(*http2.writeData).writeFrame", Calls("(*http2.Framer).WriteData").ArgIs(3, "$r.p"))
	c.Guard(sc+"startFrameWrite", Calls("(*http2.Framer).startWriteDataPadded"), "$0.write.(*http2.writeData)#1")
	c.Has(sc+"startFrameWrite", Calls("(*http2.Framer).startWriteDataPadded").ArgIs(3, "$0.write.(*http2.writeData)#0.p"))
	c.Callers(sc+"startFrameWrite", sc+"scheduleFrameWrite")
	startFrameWriteArgs(c, sc+"scheduleFrameWrite", sc+"startFrameWrite")
	c.OnlyCalledIn("calls of WriteScheduler.Pop", []string{".Pop"}, sc+"scheduleFrameWrite")
	c.OnlyCalledIn("calls of WriteScheduler.Push", []string{".Push"}, sc+"writeFrame")
	writeDataAllocs(c, Consume, "http2.init")
	c.Callers(Consume, consume)
	c.Callers(consume, rnd+"Pop", rr+"Pop", p75+"Pop", p92+"Pop")
	c.Callers(shift, rnd+"Pop", rr+"Pop", p92+"Pop", consume)
	c.Has(consume, Calls(Consume).ArgIs(0, "*peek($r)"))
	// the control queue (drained by shift, without Consume) never receives a DATA-carrying request
	// StreamID() reduces to stream.id for a non-control request (stream != nil): both spellings are the same lookup.
	c.Any(
		func() { c.Reject(rr+"Push", Calls(push), "!isControl($0)", "$r.streams[StreamID($0)] == nil", "DataSize($0) > 0") },
		func() { c.Reject(rr+"Push", Calls(push), "!isControl($0)", "$r.streams[$0.stream.id] == nil", "DataSize($0) > 0") })
	c.Reject(p92+"Push", Calls(push), "!isControl($0)", "$r.streams[StreamID($0)].location == nil", "DataSize($0) > 0")
	c.Reject(p75+"Push", Calls(push), "!isControl($0)", "$r.nodes[StreamID($0)] == nil", "DataSize($0) > 0")
	c.Guard(rnd+"Push", Calls(push).ArgIs(0, "&$r.zero"), "isControl($0)")
	for _, s := range []struct{ fn, open string }{{rr + "Push", "$r.streams[StreamID($0)] == nil"}, {p92 + "Push", "$r.streams[StreamID($0)].location == nil"}} {
		ctlSites(c, s.fn, "&$r.control")
	}
	c.Has("(http2.FrameWriteRequest).DataSize", RetTerm(0, "len($r.write.(*http2.writeData)#0.p)"))

	// ---- Consume's clamp chain --------------------------------------------------
	takes := Calls(take)
	// The clamp ("allowed") is identified by what it is, not by how it is computed: the amount handed to take on
	// the split path. The ArgLE rules below prove it <= available(), <= the caller's budget and <= maxFrameSize
	// (for two clamping ifs as well as for min(...)); the remaining rules are stated over that value.
	allowed, okBound := hsConsumeBound(c, Consume)
	c.Count(Consume, takes, 2, 2)
	c.Callers(take, Consume, "(*http2.clientStream).awaitFlowControl")
	c.ArgLE(Consume, takes, 1, "available(&$r.stream.flow)")
	c.ArgLE(Consume, takes, 1, "$0")
	c.ArgLE(Consume, takes, 1, "$r.stream.sc.maxFrameSize")
	c.Has(Consume, takes.ArgIs(0, "&$r.stream.flow"))
	c.Count(Consume, takes.ArgIs(0, "&$r.stream.flow"), 2, 2)
	if okBound { // (not identified: already recorded as undecided, the check fails)
		c.Reject(Consume, Union(takes, RetConst(2, "2")), allowed+" <= 0")
		c.PassThroughIncl(Consume, c.Edge(allowed+" <= 0"), RetConst(2, "0"))
		c.PassThroughIncl(Consume, c.Edge("len("+wd+".p) > "+allowed), takes.ArgIs(1, allowed))
		c.PassThroughIncl(Consume, c.Edge("len("+wd+".p) <= "+allowed), takes.ArgIs(1, "len("+wd+".p)"))
		c.Guard(Consume, takes.ArgIs(1, "len("+wd+".p)"), "len("+wd+".p) <= "+allowed)
	}
	c.NeverAfter(Consume, takes.ArgIs(1, "len("+wd+".p)"), RetConst(2, "2"), false)
	consumeSplitFlow(c, Consume)
	// requests without payload bypass the window
	c.Reject(Consume, takes, "len("+wd+".p) == 0")

	// ---- SETTINGS_INITIAL_WINDOW_SIZE -------------------------------------------
	c.Guard(sc+"processSetting", Calls(siws), "$0.ID == 4")
	c.Has(sc+"processSetting", Calls(siws).ArgIs(1, "$0.Val"))
	c.Callers(siws, sc+"processSetting")
	c.Has(siws, Calls(add).ArgIs(0, "&next(range($r.streams))#2.flow").ArgIs(1, "($0-$r.initialStreamSendWindowSize)"))
	c.Count(siws, Calls(add), 1, 1)
	c.Before(siws, Loads(siwsField), Stores(siwsField))
	c.Count(siws, Loads(siwsField), 1, 1)
	c.Has(siws, Stores(siwsField).StoredIs("$0"))
	c.NeverAfter(siws, c.Edge("!add(&next(range($r.streams))#2.flow,($0-$r.initialStreamSendWindowSize))"), RetOK(), true)
	c.ResultUsed(siws, Calls(add))
	// an applied SETTINGS frame wakes the scheduler
	c.CallAfter(sc+"processSettings", Stores("http2.serverConn.needToSendSettingsAck"), sc+"scheduleFrameWrite")

	// ---- WINDOW_UPDATE -------------------------------------------------------------
	wu := sc + "processWindowUpdate"
	connAdd, stAdd := "add(&$r.flow,$0.Increment)", "add(&state($r,$0.FrameHeader.StreamID)#1.flow,$0.Increment)"
	c.Count(wu, Calls(add), 2, 2)
	c.Guard(wu, Calls(add).ArgIs(0, "&$r.flow").ArgIs(1, "$0.Increment"), "$0.FrameHeader.StreamID == 0")
	c.Guard(wu, Calls(add).ArgIs(0, "&state($r,$0.FrameHeader.StreamID)#1.flow").ArgIs(1, "$0.Increment"), "$0.FrameHeader.StreamID != 0")
	c.PassThroughIncl(wu, c.Edge(connAdd), Calls(sc+"scheduleFrameWrite"))
	c.PassThroughIncl(wu, c.Edge(stAdd), Calls(sc+"scheduleFrameWrite"))
	c.NeverAfter(wu, c.Edge("!"+connAdd), RetOK(), true)
	c.NeverAfter(wu, c.Edge("!"+stAdd), RetOK(), true)
	c.ResultUsed(wu, Calls(add))
}

// hsConsumeBound returns the rendered term of the byte bound of FrameWriteRequest.Consume: the amount
// handed to outflow.take by the take call(s) dominating the two-piece return (a request is split exactly
// at the bound). The term is whatever the code computes (a chain of clamping ifs, min(...), ...); what it
// is bounded by is proven separately over the value.
func hsConsumeBound(c *Ctx, name string) (string, bool) {
	rule := "anchor"
	construct := name + ": the byte bound (amount taken on the split path)"
	fn := c.MustFn(name)
	if fn == nil {
		return "", false
	}
	rets := RetConst(2, "2").F(c.P, fn)
	if len(rets) == 0 {
		c.Undecided(rule, construct, "no two-piece return found (idiom not recognised)")
		return "", false
	}
	terms := map[string]bool{}
	for _, ret := range rets {
		n := 0
		for _, in := range Calls("(*http2.outflow).take").F(c.P, fn) {
			if in.Block().Dominates(ret.Block()) {
				n++
				terms[Term(HcUnwrap(HcCallArg(in, 1)))] = true
			}
		}
		if n == 0 {
			c.Fail(rule, construct, InstrPos(ret), "a two-piece return is reached without a preceding outflow.take")
			return "", false
		}
	}
	if len(terms) != 1 {
		var ts []string
		for t := range terms {
			ts = append(ts, t)
		}
		sort.Strings(ts)
		c.Undecided(rule, construct, "the split paths take different amounts: "+strings.Join(ts, " ; ")+" (idiom not recognised)")
		return "", false
	}
	for t := range terms {
		if t == "len($r.write.(*http2.writeData)#0.p)" {
			c.Fail(rule, construct, fn.Pos(), "the split path takes the whole payload length")
			return "", false
		}
		c.OK(rule, construct, t)
		return t, true
	}
	return "", false
}

// retLE: every return's idx-th result is provably <= bound.
// retLEWhen: every value returned on a path consistent with the assumption is provably <= bound.
func retLEWhen(c *Ctx, fnName string, idx int, bound, assume string) {
	rule := "clamped-by"
	construct := fmt.Sprintf("%s: result %d <= %s when %s", fnName, idx, bound, assume)
	fn := c.MustFn(fnName)
	if fn == nil {
		return
	}
	n := 0
	for _, in := range Returns().F(c.P, fn) {
		r := in.(*ssa.Return)
		if idx >= len(r.Results) {
			continue
		}
		ok, vac := c.P.ValueLEWhen(r.Results[idx], in, bound, assume)
		if vac {
			continue
		}
		n++
		if !ok {
			c.Fail(rule, construct, InstrPos(in), "returned value `"+Term(r.Results[idx])+"` is not provably bounded by "+bound+" on the paths where "+assume)
			return
		}
	}
	if n == 0 {
		c.Undecided(rule, construct, "no return consistent with the assumption")
		return
	}
	c.OK(rule, construct, fmt.Sprintf("%d return(s)", n))
}

func retLE(c *Ctx, fnName string, idx int, bound string) {
	rule := "clamped-by"
	construct := fmt.Sprintf("%s: result %d <= %s", fnName, idx, bound)
	fn := c.MustFn(fnName)
	if fn == nil {
		return
	}
	n := 0
	for _, in := range Returns().F(c.P, fn) {
		r := in.(*ssa.Return)
		if idx >= len(r.Results) {
			continue
		}
		n++
		if !ValueLE(r.Results[idx], in, bound) {
			c.Fail(rule, construct, InstrPos(in), "returned value `"+Term(r.Results[idx])+"` is not provably bounded by "+bound)
			return
		}
	}
	if n == 0 {
		c.Undecided(rule, construct, "no return found")
		return
	}
	c.OK(rule, construct, fmt.Sprintf("%d return(s)", n))
}

// startFrameWriteArgs: each request handed to startFrameWrite is the scheduler's
// Pop result or a locally built literal whose write is not a *writeData.
func startFrameWriteArgs(c *Ctx, caller, callee string) {
	rule := "wire-source"
	fn := c.MustFn(caller)
	if fn == nil {
		return
	}
	sites := Calls(callee).F(c.P, fn)
	if len(sites) == 0 {
		c.Undecided(rule, caller, "no call of "+callee)
		return
	}
	nPop := 0
	for _, in := range sites {
		arg := BaselineArgs(&in.(*ssa.Call).Call)[1]
		construct := fmt.Sprintf("%s: %s(%s)", caller, "startFrameWrite", Term(arg))
		if ex, ok := arg.(*ssa.Extract); ok {
			if call, ok := ex.Tuple.(*ssa.Call); ok && call.Call.IsInvoke() && call.Call.Method.Name() == "Pop" && ex.Index == 0 {
				nPop++
				c.OK(rule, construct, "scheduler Pop result")
				continue
			}
		}
		u, ok := arg.(*ssa.UnOp)
		var al *ssa.Alloc
		if ok && u.Op == token.MUL {
			al, _ = u.X.(*ssa.Alloc)
		}
		if al == nil || al.Referrers() == nil {
			c.Fail(rule, construct, InstrPos(in), "request is neither the scheduler's Pop result nor a local literal")
			continue
		}
		bad := ""
		found := false
		for _, r := range *al.Referrers() {
			switch x := r.(type) {
			case *ssa.FieldAddr:
				if FieldNameOf(x) != "write" || x.Referrers() == nil {
					continue
				}
				for _, rr := range *x.Referrers() {
					if st, ok := rr.(*ssa.Store); ok && st.Addr == ssa.Value(x) {
						found = true
						t := st.Val.Type()
						if mi, ok := st.Val.(*ssa.MakeInterface); ok {
							t = mi.X.Type()
						} else {
							bad = "write is not a literal of a concrete type"
						}
						if strings.HasSuffix(types.TypeString(t, nil), "http2.writeData") {
							bad = "literal request carries a *writeData"
						}
					}
				}
			case *ssa.Store:
				if x.Addr == ssa.Value(al) {
					bad = "request local is assigned as a whole from `" + Term(x.Val) + "`"
				}
			}
		}
		if !found && bad == "" {
			bad = "literal request without a write field"
		}
		if bad != "" {
			c.Fail(rule, construct+" literal", InstrPos(in), bad+": DATA could reach the wire without passing Consume")
		} else {
			c.OK(rule, construct+" literal", "non-DATA literal")
		}
	}
	if nPop == 0 {
		c.Undecided(rule, caller+": Pop result", "no startFrameWrite call takes the scheduler's Pop result")
	}
}

// writeDataAllocs: values of type writeData are created only in the allowed outer functions.
func writeDataAllocs(c *Ctx, allowed ...string) {
	rule := "writers"
	construct := "allocations of http2.writeData ⊆ {" + strings.Join(allowed, ", ") + "}"
	obj := c.P.Object("http2.writeData")
	if obj == nil {
		c.Undecided(rule, construct, "type not found")
		return
	}
	allow := map[string]bool{}
	for _, a := range allowed {
		allow[a] = true
	}
	seen := map[string]int{}
	ok := true
	for _, fn := range c.P.All {
		for _, b := range fn.Blocks {
			for _, in := range b.Instrs {
				al, isAl := in.(*ssa.Alloc)
				if !isAl {
					continue
				}
				pt, isP := al.Type().Underlying().(*types.Pointer)
				if !isP || !types.Identical(pt.Elem(), obj.Type()) {
					continue
				}
				o := FnName(Outer(fn))
				seen[o]++
				if !allow[o] {
					ok = false
					c.Fail(rule, construct, InstrPos(in), "writeData value built in "+o+", which is not a reviewed producer of DATA requests")
				}
			}
		}
	}
	if len(seen) == 0 {
		c.Undecided(rule, construct, "no allocation found at all")
		return
	}
	if ok {
		var ks []string
		for k, v := range seen {
			ks = append(ks, fmt.Sprintf("%s×%d", k, v))
		}
		sort.Strings(ks)
		c.OK(rule, construct, strings.Join(ks, ", "))
	}
}

// ctlSites: every push to the control queue happens under isControl($0) or DataSize($0) <= 0.
func ctlSites(c *Ctx, fnName, ctl string) {
	rule := "guard-before"
	construct := fnName + ": [push to control queue] under isControl($0) or DataSize($0)<=0"
	fn := c.MustFn(fnName)
	if fn == nil {
		return
	}
	a1, _ := c.P.ParseAtom("isControl($0)")
	a2, _ := c.P.ParseAtom("DataSize($0) <= 0")
	sites := Calls("(*http2.writeQueue).push").ArgIs(0, ctl).F(c.P, fn)
	if len(sites) == 0 {
		c.Undecided(rule, construct, "no such site")
		return
	}
	for _, in := range sites {
		ok := false
		for _, f := range FactsAtInstr(in) {
			if SameAtom(f.Atom, a1) || SameAtom(f.Atom, a2) {
				ok = true
			}
		}
		if !ok {
			c.Fail(rule, construct, InstrPos(in), "a request reaches the control queue (sent without Consume) with neither test established")
			return
		}
	}
	c.OK(rule, construct, fmt.Sprintf("%d site(s)", len(sites)))
}

// consumeSplitFlow: on the two-piece path of Consume the first piece is p[:k]
// of the original payload and exactly k is taken from the stream's window.
func consumeSplitFlow(c *Ctx, name string) {
	rule := "consume-split"
	fn := c.MustFn(name)
	if fn == nil {
		return
	}
	const buf = "$r.write.(*http2.writeData)#0.p"
	var rets []ssa.Instruction = RetConst(2, "2").F(c.P, fn)
	if len(rets) != 1 {
		c.Undecided(rule, name+": released length equals taken amount", fmt.Sprintf("%d two-piece returns", len(rets)))
		return
	}
	ret := rets[0]
	var heads, tails []*ssa.Slice
	for _, in := range Indexing(buf).F(c.P, fn) {
		if s, ok := in.(*ssa.Slice); ok && s.Block().Dominates(ret.Block()) {
			if s.Low == nil && s.High != nil {
				heads = append(heads, s)
			} else if s.Low != nil && s.High == nil {
				tails = append(tails, s)
			}
		}
	}
	var takes []*ssa.Call
	for _, in := range Calls("(*http2.outflow).take").F(c.P, fn) {
		if in.Block().Dominates(ret.Block()) {
			takes = append(takes, in.(*ssa.Call))
		}
	}
	good := len(heads) == 1 && len(tails) == 1 && len(takes) == 1 &&
		Term(heads[0].High) == Term(BaselineArgs(&takes[0].Call)[1]) && Term(tails[0].Low) == Term(BaselineArgs(&takes[0].Call)[1])
	c.Check(good, rule, name+": released length equals taken amount", ret.Pos(),
		"p[:k] released, p[k:] kept, take(k)", fmt.Sprintf("on the split path %d head slice(s), %d tail slice(s), %d take(s), or their index terms differ", len(heads), len(tails), len(takes)))
}
