package props

import (
	"fmt"
	"go/ast"
	"go/constant"
	"go/token"
	"go/types"
	"sort"
	"strconv"
	"strings"

	. "verif/sa/core"

	"golang.org/x/tools/go/ssa"
)

func init() {
	Register(&Property{
		ID:    "C40",
		Floor: 48,
		Clauses: "html escaping, tables read from source: escapedChars contains & < > \"; every character of escapedChars has a case in escape()'s switch (so the default panic is unreachable) and " +
			"each case's replacement is an entity that the decoder maps back to that character (named: value in the `entity` map literal under the key with ';'; numeric: decimal/hex value equal to the character and outside the ranges unescapeEntity remaps); " +
			"the same for escapeComment's cases; escape/EscapeString scan with exactly escapedChars and escapeCommentString's fast-path set equals escapeComment's case set; unescapeEntity consults the entity map and unescape calls it only at a '&' byte; " +
			"render1: a text node is written only through escape; n.Data is written raw only for element and raw nodes; a child's Data is written raw only for a text child under childTextNodesAreLiteral(n); comment data goes through escapeComment; attribute values are never written raw and go through escape (render1 and Token.tagString); " +
			"Token.String routes Data through EscapeString (text, doctype) / escapeCommentString (comment) and never concatenates it raw; " +
			"childTextNodesAreLiteral is false for a non-empty namespace and its literal element set is a subset of the tokenizer's raw-text start tags (readStartTag) minus the RCDATA tags (readRawOrRCDATA), every raw-text start tag being filed under its own first letter; reviewed panic inventory of EscapeString/UnescapeString/Token.String/Render.",
		NotCovered: "Token.String re-tokenization equality as a run-time fact; the parser's newline/NUL normalisation; that Render followed by Parse yields the same tree (only the escaping/routing necessary conditions above are decided); " +
			"attribute keys, namespaces and element names are written raw by design; doctype identifiers (writeDoctypeQuoted); the noscript/scripting interaction; the foster-parent walk inside childTextNodesAreLiteral.",
		Run: c40,
	})
}

func c40(c *Ctx) {
	// ---- escape tables ---------------------------------------------------------------
	set := ""
	if o, ok := c.P.Object("html.escapedChars").(*types.Const); ok && o.Val().Kind() == constant.String {
		set = constant.StringVal(o.Val())
	}
	if !c.Check(set != "", "escape-table", "escapedChars is a non-empty string constant", token.NoPos, strconv.Quote(set), "html.escapedChars not found") {
		return
	}
	for _, ch := range []byte{'&', '<', '>', '"'} {
		c.Check(strings.IndexByte(set, ch) >= 0, "escape-table", fmt.Sprintf("escapedChars contains %q", ch), token.NoPos, "",
			fmt.Sprintf("%q would be written unescaped into text, attribute values or doctype names", ch))
	}
	entity, okEnt := c.P.HtmMapLit("html.entity")
	_, entPk := c.P.VarDecl("html.entity")
	if !okEnt || len(entity) < 1000 {
		c.Undecided("anchor", "html.entity map literal", fmt.Sprintf("%d entries read", len(entity)))
		return
	}
	decode := func(repl string) (rune, string) {
		if len(repl) < 3 || repl[0] != '&' || repl[len(repl)-1] != ';' {
			return 0, "is not of the form &...;"
		}
		body := repl[1 : len(repl)-1]
		if strings.ContainsAny(body, "&;<>\"' ") {
			return 0, "contains markup characters inside the entity"
		}
		if body[0] == '#' {
			num, base := body[1:], 10
			if len(num) > 0 && (num[0] == 'x' || num[0] == 'X') {
				num, base = num[1:], 16
			}
			v, err := strconv.ParseInt(num, base, 32)
			if err != nil || num == "" {
				return 0, "has a malformed number"
			}
			if v == 0 || v >= 0x80 && v <= 0x9F || v >= 0xD800 && v <= 0xDFFF || v > 0x10FFFF {
				return 0, "is a number that unescapeEntity replaces by another character"
			}
			return rune(v), ""
		}
		e, ok := entity[body+";"]
		if !ok {
			return 0, "names an entity that is not in the entity map"
		}
		v, ok := IntOf(entPk, e)
		if !ok {
			return 0, "maps to a non-constant"
		}
		return rune(v), ""
	}
	escCases := c40EscapeSwitch(c, "html.escape", set, decode, true)
	cmtCases := c40EscapeSwitch(c, "html.escapeComment", "&>", decode, false)
	_ = escCases

	// scanning sets
	c40IndexAnySet(c, "html.escape", set, 2)
	c40IndexAnySet(c, "html.EscapeString", set, 1)
	if cmtCases != "" {
		c40IndexAnySet(c, "html.escapeCommentString", cmtCases, 1)
	}
	c.Callers("html.escape", "html.EscapeString", "html.render1", "(html.Token).tagString")
	c.Callers("html.escapeComment", "html.escapeCommentString", "html.render1")

	// decoder side
	c40Unescape(c)

	// ---- routing in render1 ----------------------------------------------------------------
	c40Render(c)

	// ---- Token.String / tagString -------------------------------------------------------------
	c40Token(c)

	// ---- raw-text sets -------------------------------------------------------------------------
	c40RawTextSets(c)

	// ---- panic inventory ---------------------------------------------------------------------------
	c.PanicInventory([]string{"html.EscapeString", "html.UnescapeString", "(html.Token).String", "html.Render"}, nil, map[string]Inv{
		"html.escape":         {Sites: "idx=2 panic=1", Why: "s[:i] and s[i] with i the non-negative result of strings.IndexAny (loop condition i != -1); the default panic needs a character of escapedChars without a case: excluded by the escape-table obligations"},
		"html.escapeComment":  {Sites: "idx=2", Why: "s[i:j] with i <= j < len(s) (i is only ever set to j+1 of an earlier iteration and the write is under i < j); s[i:] under i < len(s)"},
		"html.unescape":       {Sites: "idx=2", Why: "b[:firstAmp] after the -1 early return; b[src:] under src < len(b) (C39 reject obligation)"},
		"html.unescapeEntity": {Sites: "idx=2", Why: "replacementTable[x-0x80] under 0x80 <= x <= 0x9F (C39 table-bounds obligation); entityName[len-1] after entityName != \"\""},
	})
}

// c40EscapeSwitch checks the switch over s[i] of an escaping function. It returns the set of characters that have a case.
func c40EscapeSwitch(c *Ctx, fnName, mustCover string, decode func(string) (rune, string), defaultPanics bool) string {
	rule := "escape-table"
	fn := c.MustFn(fnName)
	if fn == nil {
		return ""
	}
	sws := c.P.HtmSwitches(fnName, HtmIsIndexOf)
	if len(sws) != 1 {
		c.Undecided(rule, fnName+": one switch over s[i]", fmt.Sprintf("found %d", len(sws)))
		return ""
	}
	have := map[byte]string{}
	var cased []byte
	for _, cl := range sws[0] {
		if cl.Default {
			continue
		}
		for _, v := range cl.Vals {
			iv, ok := constant.Int64Val(constant.ToInt(v))
			if !ok || iv < 0 || iv > 255 {
				continue
			}
			ch := byte(iv)
			cased = append(cased, ch)
			construct := fmt.Sprintf("%s: case %q is replaced by an entity that decodes back to it", fnName, ch)
			var repls []string
			for _, s := range cl.Strs {
				if strings.HasPrefix(s, "&") {
					repls = append(repls, s)
				}
			}
			if len(repls) != 1 || len(cl.Vals) != 1 {
				c.Fail(rule, construct, cl.Pos, fmt.Sprintf("the clause has %d entity literals and %d case values; expected one of each", len(repls), len(cl.Vals)))
				continue
			}
			have[ch] = repls[0]
			r, why := decode(repls[0])
			c.Check(why == "" && r == rune(ch), rule, construct, cl.Pos, repls[0],
				fmt.Sprintf("%s %s (decodes to %q)", strconv.Quote(repls[0]), why, r))
		}
	}
	var missing []string
	for i := 0; i < len(mustCover); i++ {
		if _, ok := have[mustCover[i]]; !ok {
			missing = append(missing, strconv.QuoteRune(rune(mustCover[i])))
		}
	}
	what := "every character of escapedChars has a case"
	cons := "the default panic is reachable from Render/EscapeString"
	if !defaultPanics {
		what = "'&' and '>' have cases"
		cons = "comment data could close the comment or start an entity"
	}
	c.Check(len(missing) == 0, rule, fnName+": "+what, fn.Pos(), fmt.Sprintf("%d cases", len(have)), "no case for "+strings.Join(missing, ", ")+": "+cons)
	sort.Slice(cased, func(i, j int) bool { return cased[i] < cased[j] })
	return string(cased)
}

// c40IndexAnySet: every strings.IndexAny call of fn scans for exactly the given set.
func c40IndexAnySet(c *Ctx, fnName, set string, min int) {
	rule := "scan-set"
	construct := fmt.Sprintf("%s: strings.IndexAny scans for exactly %s", fnName, strconv.Quote(set))
	fn := c.MustFn(fnName)
	if fn == nil {
		return
	}
	norm := func(s string) string {
		b := []byte(s)
		sort.Slice(b, func(i, j int) bool { return b[i] < b[j] })
		return string(b)
	}
	n := 0
	bad := ""
	HtmEach(fn, func(in ssa.Instruction) {
		call, ok := in.(*ssa.Call)
		if !ok || CalleeName(&call.Call) != "strings.IndexAny" {
			return
		}
		n++
		s, isConst := HtmConstStr(BaselineArgs(&call.Call)[1])
		if !isConst || norm(s) != norm(set) {
			bad = "a scan uses " + Term(BaselineArgs(&call.Call)[1])
		}
	})
	if n < min {
		c.Undecided(rule, construct, fmt.Sprintf("%d IndexAny call(s), expected at least %d", n, min))
		return
	}
	c.Check(bad == "", rule, construct, fn.Pos(), fmt.Sprintf("%d call(s)", n), bad+": characters outside the scanned set are never escaped, characters without a case panic")
}

func c40Unescape(c *Ctx) {
	name := "html.unescapeEntity"
	fn := c.MustFn(name)
	if fn != nil {
		n := 0
		HtmEach(fn, func(in ssa.Instruction) {
			if lk, ok := in.(*ssa.Lookup); ok {
				if u, ok := lk.X.(*ssa.UnOp); ok {
					if g, ok := u.X.(*ssa.Global); ok && g.Name() == "entity" {
						n++
					}
				}
			}
		})
		c.Check(n > 0, "decoder", name+": named references are looked up in the entity map", fn.Pos(), fmt.Sprintf("%d lookup(s)", n), "no lookup in html.entity")
	}
	c.Callers(name, "html.unescape")
	// unescape: the entity decoder runs only at a '&' byte; other bytes are appended unchanged
	un := c.MustFn("html.unescape")
	if un == nil {
		return
	}
	for _, in := range Calls(name).F(c.P, un) {
		found := false
		for _, f := range FactsAtInstr(in) {
			if f.Atom.Kind == EQ && len(f.Atom.L.Coef) == 1 && f.Atom.L.K == -'&' {
				for t, k := range f.Atom.L.Coef {
					if k == 1 && strings.HasPrefix(t, "$0[") {
						found = true
					}
				}
			}
		}
		c.Check(found, "guard-before", "html.unescape: [call unescapeEntity] under b[src] == '&'", in.Pos(), "", "the entity decoder is applied to bytes that are not '&'")
	}
	c.Has("html.UnescapeString", Calls("html.unescape").ArgIs(1, "false"))
	c.ResultUsed("html.UnescapeString", Calls("html.unescape"))
}

// hxFieldLoad reports whether v is a load of field `field` of struct type typeQ and returns the base object.
func c40FieldLoad(c *Ctx, v ssa.Value, typeQ, field string) (ssa.Value, bool) {
	obj := c.P.Object(typeQ)
	if obj == nil {
		return nil, false
	}
	same := func(t types.Type) bool {
		if p, ok := t.Underlying().(*types.Pointer); ok {
			t = p.Elem()
		}
		return types.Identical(t, obj.Type())
	}
	switch x := HtmStrip(v).(type) {
	case *ssa.UnOp:
		if fa, ok := x.X.(*ssa.FieldAddr); ok && x.Op == token.MUL && same(fa.X.Type()) {
			st := obj.Type().Underlying().(*types.Struct)
			if fa.Field < st.NumFields() && st.Field(fa.Field).Name() == field {
				return fa.X, true
			}
		}
	case *ssa.Field:
		if same(x.X.Type()) {
			st := obj.Type().Underlying().(*types.Struct)
			if x.Field < st.NumFields() && st.Field(x.Field).Name() == field {
				return x.X, true
			}
		}
	}
	return nil, false
}

// c40StringWrites lists the calls of fn that hand a string straight to a writer (WriteString / Write / io.WriteString / Fprint*).
func c40StringWrites(fn *ssa.Function) []*ssa.Call {
	var out []*ssa.Call
	HtmEach(fn, func(in ssa.Instruction) {
		call, ok := in.(*ssa.Call)
		if !ok {
			return
		}
		n := CalleeName(&call.Call)
		switch {
		case n == ".WriteString", n == ".Write", n == "(*bytes.Buffer).WriteString", n == "(*bytes.Buffer).Write",
			n == "io.WriteString", strings.HasPrefix(n, "fmt.Fprint"), n == "(*strings.Builder).WriteString", n == "(*bufio.Writer).WriteString":
			out = append(out, call)
		}
	})
	return out
}

func c40HasFact(in ssa.Instruction, p *Prog, spec string) bool {
	a, err := p.ParseAtom(spec)
	if err != nil {
		return false
	}
	for _, f := range FactsAtInstr(in) {
		if SameAtom(f.Atom, a) {
			return true
		}
	}
	return false
}

func c40Render(c *Ctx) {
	name := "html.render1"
	rule := "sink-routing"
	fn := c.MustFn(name)
	if fn == nil {
		return
	}
	n := ssa.Value(fn.Params[1])
	var rawSelf, rawChild, rawVal []string
	nSelf, nChild := 0, 0
	for _, call := range c40StringWrites(fn) {
		for _, arg := range BaselineArgs(&call.Call) {
			if base, ok := c40FieldLoad(c, arg, "html.Node", "Data"); ok {
				if base == n {
					nSelf++
					if !c40HasFact(call, c.P, "$1.Type == @html.ElementNode") && !c40HasFact(call, c.P, "$1.Type == @html.RawNode") {
						rawSelf = append(rawSelf, c.P.Pos(call.Pos()))
					}
				} else {
					nChild++
					if !c40HasFact(call, c.P, "childTextNodesAreLiteral($1)") || !c40HasFact(call, c.P, Term(base)+".Type == @html.TextNode") {
						rawChild = append(rawChild, c.P.Pos(call.Pos()))
					}
				}
			}
			if _, ok := c40FieldLoad(c, arg, "html.Attribute", "Val"); ok {
				rawVal = append(rawVal, c.P.Pos(call.Pos()))
			}
		}
	}
	c.Check(len(rawSelf) == 0 && nSelf > 0, rule, name+": n.Data is written raw only when n is an element or raw node", fn.Pos(), fmt.Sprintf("%d raw write(s)", nSelf),
		"text/comment/doctype data reaches the writer unescaped at "+strings.Join(rawSelf, ", "))
	c.Check(len(rawChild) == 0, rule, name+": a child's Data is written raw only for a text child under childTextNodesAreLiteral(n)", fn.Pos(), fmt.Sprintf("%d raw write(s)", nChild),
		"child text reaches the writer unescaped outside a raw-text element at "+strings.Join(rawChild, ", "))
	c.Check(len(rawVal) == 0, rule, name+": attribute values are never written raw", fn.Pos(), "", "Attribute.Val written unescaped at "+strings.Join(rawVal, ", "))
	// positive routing
	esc := Calls("html.escape")
	valEsc := esc.Where("arg1 is an Attribute.Val", func(in ssa.Instruction) bool {
		_, ok := c40FieldLoad(c, BaselineArgs(&in.(*ssa.Call).Call)[1], "html.Attribute", "Val")
		return ok
	})
	c.Has(name, valEsc)
	c.Guard(name, valEsc, "$1.Type == @html.ElementNode")
	c.PassThroughIncl(name, c.Edge("$1.Type == @html.TextNode"), esc.ArgIs(1, "$1.Data"))
	c.Reject(name, Calls(".WriteString", ".WriteByte", ".Write"), "$1.Type == @html.TextNode")
	c.Guard(name, Calls("html.escapeComment").ArgIs(1, "$1.Data"), "$1.Type == @html.CommentNode")
	c.Count(name, esc.ArgIs(1, "$1.Data"), 2, -1) // text and doctype
	// the literal branch is entered on the true edge of childTextNodesAreLiteral(n) only
	c.Callers("html.childTextNodesAreLiteral", name)
	c.Reject("html.childTextNodesAreLiteral", RetConst(0, "true"), `$0.Namespace != ""`)
}

func c40Token(c *Ctx) {
	rule := "sink-routing"
	ts := "(html.Token).tagString"
	if fn := c.MustFn(ts); fn != nil {
		var rawVal []string
		for _, call := range c40StringWrites(fn) {
			for _, arg := range BaselineArgs(&call.Call) {
				if _, ok := c40FieldLoad(c, arg, "html.Attribute", "Val"); ok {
					rawVal = append(rawVal, c.P.Pos(call.Pos()))
				}
			}
		}
		c.Check(len(rawVal) == 0, rule, ts+": attribute values are never written raw", fn.Pos(), "", "Attribute.Val written unescaped at "+strings.Join(rawVal, ", "))
		c.Has(ts, Calls("html.escape").Where("arg1 is an Attribute.Val", func(in ssa.Instruction) bool {
			_, ok := c40FieldLoad(c, BaselineArgs(&in.(*ssa.Call).Call)[1], "html.Attribute", "Val")
			return ok
		}))
	}
	str := "(html.Token).String"
	fn := c.MustFn(str)
	if fn == nil {
		return
	}
	// every use of t.Data inside String is an argument of EscapeString / escapeCommentString
	var bad []string
	uses := 0
	HtmEach(fn, func(in ssa.Instruction) {
		v, ok := in.(ssa.Value)
		if !ok {
			return
		}
		if _, isData := c40FieldLoad(c, v, "html.Token", "Data"); !isData {
			return
		}
		refs := v.Referrers()
		if refs == nil {
			return
		}
		for _, r := range *refs {
			if _, dbg := r.(*ssa.DebugRef); dbg {
				continue
			}
			uses++
			if call, ok := r.(*ssa.Call); ok {
				if n := CalleeName(&call.Call); n == "html.EscapeString" || n == "html.escapeCommentString" {
					continue
				}
			}
			bad = append(bad, c.P.Pos(InstrPos(r)))
		}
	})
	c.Check(len(bad) == 0 && uses >= 3, rule, str+": t.Data is only ever passed to EscapeString / escapeCommentString", fn.Pos(), fmt.Sprintf("%d use(s)", uses),
		"token data concatenated unescaped at "+strings.Join(bad, ", "))
	c.Guard(str, Calls("html.escapeCommentString"), "$r.Type == @html.CommentToken")
	c.PassThroughIncl(str, c.Edge("$r.Type == @html.TextToken"), Calls("html.EscapeString"))
	c.PassThroughIncl(str, c.Edge("$r.Type == @html.DoctypeToken"), Calls("html.EscapeString"))
	c.PassThroughIncl(str, c.Edge("$r.Type == @html.CommentToken"), Calls("html.escapeCommentString"))
	for _, tt := range []string{"StartTagToken", "EndTagToken", "SelfClosingTagToken"} {
		c.PassThroughIncl(str, c.Edge("$r.Type == @html."+tt), Calls(ts))
	}
}

func c40RawTextSets(c *Ctx) {
	rule := "raw-text-sets"
	// literal-rendered element names
	lit := map[string]bool{}
	isDataSel := func(tag ast.Expr, info *types.Info) bool {
		se, ok := tag.(*ast.SelectorExpr)
		return ok && se.Sel.Name == "Data"
	}
	for _, sw := range c.P.HtmSwitches("html.childTextNodesAreLiteral", isDataSel) {
		for _, cl := range sw {
			if cl.Default {
				continue
			}
			for _, v := range cl.Vals {
				if v.Kind() == constant.String {
					lit[constant.StringVal(v)] = true
				}
			}
		}
	}
	// tokenizer raw-text start tags, by first letter
	raw := map[string]bool{}
	var misfiled []string
	isIdent := func(tag ast.Expr, info *types.Info) bool {
		_, ok := tag.(*ast.Ident)
		if !ok {
			return false
		}
		b, isB := info.TypeOf(tag).Underlying().(*types.Basic)
		return isB && b.Kind() == types.Uint8
	}
	for _, sw := range c.P.HtmSwitches("(*html.Tokenizer).readStartTag", isIdent) {
		for _, cl := range sw {
			if cl.Default {
				continue
			}
			for _, s := range cl.Strs {
				raw[s] = true
				okLetter := false
				for _, v := range cl.Vals {
					if iv, ok := constant.Int64Val(constant.ToInt(v)); ok && len(s) > 0 && int64(s[0]) == iv {
						okLetter = true
					}
				}
				if !okLetter || s != strings.ToLower(s) {
					misfiled = append(misfiled, s)
				}
			}
		}
	}
	// RCDATA names: compared against rawTag in readRawOrRCDATA's textIsRaw computation
	rcdata := map[string]bool{}
	if fn := c.MustFn("(*html.Tokenizer).readRawOrRCDATA"); fn != nil {
		HtmEach(fn, func(in ssa.Instruction) {
			b, ok := in.(*ssa.BinOp)
			if !ok || b.Op != token.NEQ {
				return
			}
			for _, pair := range [][2]ssa.Value{{b.X, b.Y}, {b.Y, b.X}} {
				if s, isConst := HtmConstStr(pair[1]); isConst && s != "" && Term(pair[0]) == "$r.rawTag" {
					rcdata[s] = true
				}
			}
		})
	}
	if len(lit) == 0 || len(raw) == 0 || len(rcdata) == 0 {
		c.Undecided(rule, "raw-text element sets", fmt.Sprintf("literal=%d tokenizer=%d rcdata=%d names read", len(lit), len(raw), len(rcdata)))
		return
	}
	c.Check(len(misfiled) == 0, rule, "readStartTag files every raw-text start tag under its own (lower-case) first letter", token.NoPos, fmt.Sprintf("%d names", len(raw)),
		"never recognised as raw text: "+strings.Join(misfiled, ", "))
	var notRaw, isRC []string
	for s := range lit {
		if !raw[s] {
			notRaw = append(notRaw, s)
		}
		if rcdata[s] {
			isRC = append(isRC, s)
		}
	}
	sort.Strings(notRaw)
	sort.Strings(isRC)
	c.Check(len(notRaw) == 0, rule, "elements whose text is rendered literally ⊆ tokenizer raw-text start tags", token.NoPos, fmt.Sprintf("%d ⊆ %d", len(lit), len(raw)),
		"text under these elements is written unescaped but re-tokenized as markup: "+strings.Join(notRaw, ", "))
	c.Check(len(isRC) == 0, rule, "no literally rendered element is an RCDATA element (whose text is entity-decoded)", token.NoPos, fmt.Sprintf("RCDATA: %d names", len(rcdata)),
		"text written unescaped would be entity-decoded on re-parse: "+strings.Join(isRC, ", "))
	for s := range rcdata {
		c.Check(raw[s], rule, fmt.Sprintf("RCDATA name %q is a raw-text start tag", s), token.NoPos, "", "the name compared in readRawOrRCDATA is never set as rawTag")
	}
}
